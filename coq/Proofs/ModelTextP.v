(* C16 (7), model level: what DefaultModel::from_str makes of a laid-out model
   text; continuation breaks inside matchers. *)
From CV Require Import Model.Base Model.PathMatch Model.Expr Model.Csv Model.Ini Model.SpecC16.
From CV Require Import Proofs.ListAux Proofs.BaseP Proofs.CsvP Proofs.IniP Proofs.EscP.
From Coq Require Import Lia.

(* ------------------------------------------------------------------ *)
(* a layout means its list of definitions                               *)
(* ------------------------------------------------------------------ *)
Lemma run_items_defs : forall items s c,
  snd (run_items items (s, c)) = fold_left (fun c kv => cfg_set (fst kv) (snd kv) c) (layout_defs items s) c.
Proof.
  induction items as [|it items IH]; intros s c; [reflexivity|].
  rewrite run_items_cons.
  destruct it as [ws|pre ch body|pre name post|pre key m1 m2 v1 conts post];
    cbn [item_step layout_defs fst snd fold_left]; apply IH.
Qed.
Lemma cfg_of_layout_defs : forall items, cfg_of_layout items = cfg_of_defs (layout_defs items []).
Proof. intros items. unfold cfg_of_layout, cfg_of_defs. apply run_items_defs. Qed.

(* layout independence: the configuration read depends only on the sequence of
   (section, key, value) the layout stands for *)
Theorem parse_layout_defs : forall items, forallb litem_ok items = true ->
  parse_config (render_layout items) = Some (cfg_of_defs (layout_defs items [])).
Proof. intros items H. rewrite parse_layout by exact H. rewrite cfg_of_layout_defs. reflexivity. Qed.
Theorem layout_independence : forall items items',
  forallb litem_ok items = true -> forallb litem_ok items' = true ->
  layout_defs items [] = layout_defs items' [] ->
  parse_config (render_layout items) = parse_config (render_layout items') /\
  model_of_text (render_layout items) = model_of_text (render_layout items').
Proof.
  intros items items' H H' E. unfold model_of_text.
  rewrite !parse_layout_defs by assumption. rewrite E. split; reflexivity.
Qed.
Theorem model_of_layout : forall items, forallb litem_ok items = true ->
  model_of_text (render_layout items) = Some (load_model (cfg_of_defs (layout_defs items []))).
Proof. intros items H. unfold model_of_text. rewrite parse_layout_defs by exact H. reflexivity. Qed.

(* ------------------------------------------------------------------ *)
(* one matcher value with continuation breaks                           *)
(* ------------------------------------------------------------------ *)
Lemma pw_after_ne : forall a pw pw', a <> [] -> pw_after pw a = pw_after pw' a.
Proof. intros [|c a] pw pw' H; [contradiction|reflexivity]. Qed.
Lemma break_ok_prefix : forall x prev next, prev <> [] -> break_ok (x ++ prev) next = break_ok prev next.
Proof.
  intros x prev next H. unfold break_ok. rewrite pw_after_app.
  rewrite (pw_after_ne prev (pw_after false x) false H). reflexivity.
Qed.

Definition esc_cont (k : cont) : cont :=
  {| k_wsa := k_wsa k; k_wsb := k_wsb k; k_ind := k_ind k; k_val := escape_assertion (k_val k) |}.

Lemma esc_conts : forall conts a prev, prev <> [] ->
  Forall (fun k => k_val k <> []) conts -> breaks_ok prev conts = true ->
  escape_assertion ((a ++ prev) ++ concat (map k_val conts))
  = escape_assertion (a ++ prev) ++ concat (map k_val (map esc_cont conts)).
Proof.
  induction conts as [|k conts IH]; intros a prev Hprev Hne Hb; cbn [map concat].
  - rewrite !app_nil_r. reflexivity.
  - cbn [breaks_ok] in Hb. apply andb_true_iff in Hb. destruct Hb as [Hb1 Hb2].
    inversion Hne as [|x xs Hk Hne']; subst x xs.
    rewrite app_assoc. rewrite (IH (a ++ prev) (k_val k) Hk Hne' Hb2).
    rewrite <- (break_ok_prefix a) in Hb1 by exact Hprev.
    destruct (escape_break _ _ Hb1) as [_ E]. rewrite E. cbn [esc_cont k_val].
    rewrite <- app_assoc. reflexivity.
Qed.
Lemma esc_conts_sp : forall conts a prev, prev <> [] ->
  Forall (fun k => k_val k <> []) conts -> breaks_ok prev conts = true ->
  escape_assertion ((a ++ prev) ++ concat (map (fun k => " "%char :: k_val k) conts))
  = escape_assertion (a ++ prev) ++ concat (map (fun k => " "%char :: k_val k) (map esc_cont conts)).
Proof.
  induction conts as [|k conts IH]; intros a prev Hprev Hne Hb; cbn [map concat].
  - rewrite !app_nil_r. reflexivity.
  - cbn [breaks_ok] in Hb. apply andb_true_iff in Hb. destruct Hb as [Hb1 Hb2].
    inversion Hne as [|x xs Hk Hne']; subst x xs.
    set (rest := concat (map (fun k0 => " "%char :: k_val k0) conts)).
    replace ((a ++ prev) ++ (" "%char :: k_val k) ++ rest)
      with ((((a ++ prev) ++ [" "%char]) ++ k_val k) ++ rest)
      by (rewrite <- !app_assoc; reflexivity).
    unfold rest. rewrite (IH ((a ++ prev) ++ [" "%char]) (k_val k) Hk Hne' Hb2).
    rewrite <- (break_ok_prefix a) in Hb1 by exact Hprev.
    destruct (escape_break _ _ Hb1) as [E _].
    replace (((a ++ prev) ++ [" "%char]) ++ k_val k) with ((a ++ prev) ++ " "%char :: k_val k)
      by (rewrite <- !app_assoc; reflexivity).
    rewrite E. cbn [esc_cont k_val]. rewrite <- !app_assoc. reflexivity.
Qed.

(* escaping keeps every double quote in place *)
Lemma quotes_even_esc : forall s rw pw b, (rw = true -> tok_ahead s = true) ->
  quotes_even b (esc_go rw pw s) = quotes_even b s.
Proof.
  induction s as [|c s IH]; intros rw pw b Hrw; [reflexivity|]. cbn [esc_go]. destruct rw.
  - specialize (Hrw eq_refl). cbn [tok_ahead] in Hrw. destruct (is_digit c) eqn:Ed.
    + cbn [quotes_even]. apply IH. intros _.
      destruct (Ascii.eqb c dot) eqn:E; [|exact Hrw]. apply aeqb_true in E. subst c. discriminate.
    + destruct (Ascii.eqb c dot) eqn:E; [|discriminate]. apply aeqb_true in E. subst c.
      cbn [quotes_even]. change (Ascii.eqb underscore dquote) with false.
      change (Ascii.eqb dot dquote) with false. cbv iota. apply IH. discriminate.
  - destruct (negb pw && is_rp c && tok_ahead s) eqn:Es.
    + cbn [quotes_even]. apply IH. intros _. apply andb_true_iff in Es. tauto.
    + cbn [quotes_even]. apply IH. discriminate.
Qed.
Lemma quotes_even_escape : forall s, quotes_even true (escape_assertion s) = quotes_even true s.
Proof. intros s. apply quotes_even_esc. discriminate. Qed.

Lemma remove_comment_id : forall v, no_hash v = true -> Lok v -> remove_comment v = v.
Proof.
  intros v Hh HL. unfold remove_comment.
  assert (E : span_not hash v = (v, [])).
  { rewrite <- (app_nil_r v) at 1. apply span_not_app; [|exact I].
    apply has_c_false. apply negb_true_iff, Hh. }
  rewrite E. cbn [fst]. rewrite <- (app_nil_r v) at 1. apply Lok_trim_end; [exact HL|reflexivity].
Qed.

Lemma no_hash_app : forall a b, no_hash (a ++ b) = no_hash a && no_hash b.
Proof. intros a b. unfold no_hash. rewrite has_c_app, negb_orb. reflexivity. Qed.

Record mchunksP (v1 : text) (conts : list cont) : Prop := {
  mc_v1 : chunkP v1;
  mc_conts : Forall (fun k => chunkP (k_val k)) conts;
  mc_h1 : no_hash v1 = true;
  mc_hc : forallb (fun k => no_hash (k_val k)) conts = true;
  mc_q1 : quotes_even true v1 = true;
  mc_qc : forallb (fun k => quotes_even true (k_val k)) conts = true;
  mc_br : breaks_ok v1 conts = true }.
Lemma matcher_chunks_ok_P : forall v1 conts, matcher_chunks_ok v1 conts = true -> mchunksP v1 conts.
Proof.
  intros v1 conts H. unfold matcher_chunks_ok in H. rewrite !andb_true_iff in H.
  destruct H as [[[[[[H1 H2] H3] H4] H5] H6] H7]. constructor; try assumption.
  - apply chunk_ok_P, H1.
  - apply Forall_forall. rewrite forallb_forall in H2. intros k Hk. apply chunk_ok_P, H2, Hk.
Qed.

Lemma concat_Lok : forall (vals : list text) v1, Lok v1 -> Forall Lok vals -> Lok (v1 ++ concat vals).
Proof.
  intros vals v1 H1 Hv. revert v1 H1. induction Hv as [|v vals Hv _ IH]; intros v1 H1; cbn [concat].
  - rewrite app_nil_r. exact H1.
  - apply Lok_app. apply IH, Hv.
Qed.
Lemma no_hash_concat : forall (vals : list text) v1, no_hash v1 = true ->
  forallb no_hash vals = true -> no_hash (v1 ++ concat vals) = true.
Proof.
  induction vals as [|v vals IH]; intros v1 H1 Hv; cbn [concat].
  - rewrite app_nil_r. exact H1.
  - cbn [forallb] in Hv. apply andb_true_iff in Hv. destruct Hv as [Hv Hvs].
    rewrite no_hash_app, H1. cbn [andb]. apply IH; assumption.
Qed.

(* the matcher read from a continued definition and the matcher read from the
   same definition on one line are equal up to blanks outside string literals *)
Theorem matcher_break_value : forall v1 conts, matcher_chunks_ok v1 conts = true ->
  norm_ws (escape_assertion (remove_comment (def_value v1 conts)))
  = norm_ws (escape_assertion (remove_comment (def_value_sp v1 conts))) /\
  remove_comment (def_value v1 conts) <> [] /\ remove_comment (def_value_sp v1 conts) <> [].
Proof.
  intros v1 conts H. apply matcher_chunks_ok_P in H. destruct H as [Hv1 Hc Hh1 Hhc Hq1 Hqc Hbr].
  assert (Hne1 : v1 <> []) by (apply chunkP_ne, Hv1).
  assert (Hnec : Forall (fun k => k_val k <> []) conts).
  { apply Forall_forall. rewrite Forall_forall in Hc. intros k Hk. apply chunkP_ne, Hc, Hk. }
  (* comments: none *)
  assert (R1 : remove_comment (def_value v1 conts) = def_value v1 conts).
  { apply remove_comment_id.
    - unfold def_value. apply no_hash_concat; [exact Hh1|]. rewrite forallb_forall in *.
      intros v Hv. apply in_map_iff in Hv. destruct Hv as [k [E Hk]]. subst v. apply Hhc, Hk.
    - unfold def_value. apply concat_Lok; [apply (ch_lok _ Hv1)|].
      apply Forall_forall. rewrite Forall_forall in Hc. intros v Hv.
      apply in_map_iff in Hv. destruct Hv as [k [E Hk]]. subst v. apply (ch_lok _ (Hc _ Hk)). }
  assert (R2 : remove_comment (def_value_sp v1 conts) = def_value_sp v1 conts).
  { apply remove_comment_id.
    - unfold def_value_sp. apply no_hash_concat; [exact Hh1|]. rewrite forallb_forall in *.
      intros v Hv. apply in_map_iff in Hv. destruct Hv as [k [E Hk]]. subst v.
      change (" "%char :: k_val k) with ([" "%char] ++ k_val k). rewrite no_hash_app.
      rewrite (Hhc _ Hk). reflexivity.
    - unfold def_value_sp. apply concat_Lok; [apply (ch_lok _ Hv1)|].
      apply Forall_forall. rewrite Forall_forall in Hc. intros v Hv.
      apply in_map_iff in Hv. destruct Hv as [k [E Hk]]. subst v.
      change (" "%char :: k_val k) with ([" "%char] ++ k_val k). apply Lok_app, (ch_lok _ (Hc _ Hk)). }
  rewrite R1, R2. split; [|split].
  - unfold def_value, def_value_sp.
    pose proof (esc_conts conts [] v1 Hne1 Hnec Hbr) as E1.
    pose proof (esc_conts_sp conts [] v1 Hne1 Hnec Hbr) as E2.
    cbn [app] in E1, E2. rewrite E1, E2.
    apply (def_value_norm (map esc_cont conts) (escape_assertion v1)).
    + rewrite quotes_even_escape. exact Hq1.
    + rewrite forallb_forall in *. intros k Hk. apply in_map_iff in Hk.
      destruct Hk as [k0 [E Hk0]]. subst k. cbn [esc_cont k_val]. rewrite quotes_even_escape.
      apply Hqc, Hk0.
  - unfold def_value. intros E. apply app_eq_nil in E. destruct E as [E _]. contradiction.
  - unfold def_value_sp. intros E. apply app_eq_nil in E. destruct E as [E _]. contradiction.
Qed.

(* ------------------------------------------------------------------ *)
(* whole models                                                         *)
(* ------------------------------------------------------------------ *)
Definition val_rel (sec v v' : text) : Prop :=
  v = v' \/ (sec = s_matchers /\ exists v1 conts, matcher_chunks_ok v1 conts = true /\
                                   v = def_value v1 conts /\ v' = def_value_sp v1 conts).
Definition cfg_rel (c c' : cfg) : Prop :=
  Forall2 (fun kv kv' => fst kv = fst kv' /\ val_rel (fst (fst kv)) (snd kv) (snd kv')) c c'.

Lemma cfg_set_rel : forall k v v' c c', cfg_rel c c' -> val_rel (fst k) v v' ->
  cfg_rel (cfg_set k v c) (cfg_set k v' c').
Proof.
  intros k v v' c c' H Hv. induction H as [|[k1 x1] [k2 x2] c c' [Hk Hx] Hcc IH]; cbn [cfg_set].
  - constructor; [split; [reflexivity|exact Hv]|constructor].
  - cbn [fst snd] in Hk, Hx. subst k2. destruct (pair_eqb k k1) eqn:E.
    + constructor; [|exact Hcc]. cbn [fst snd]. split; [reflexivity|].
      unfold pair_eqb in E. apply andb_true_iff in E. destruct E as [E _]. apply teqb_eq in E.
      rewrite <- E. exact Hv.
    + constructor; [split; [reflexivity|exact Hx]|exact IH].
Qed.

Lemma run_items_rel : forall items s c c',
  breaks_in_matchers_only items s = true -> cfg_rel c c' ->
  cfg_rel (snd (run_items items (s, c))) (snd (run_items (map unbreak items) (s, c'))).
Proof.
  induction items as [|it items IH]; intros s c c' Hb Hc; cbn [map]; [exact Hc|].
  rewrite !run_items_cons.
  destruct it as [ws|pre ch body|pre name post|pre key m1 m2 v1 conts post];
    cbn [unbreak item_step fst snd breaks_in_matchers_only] in *; try (apply IH; assumption).
  apply andb_true_iff in Hb. destruct Hb as [Hit Hb]. apply IH; [exact Hb|].
  apply cfg_set_rel; [exact Hc|]. cbn [fst]. rewrite def_value_nil.
  apply orb_true_iff in Hit. destruct Hit as [Hnil|Hm].
  - destruct conts; [|discriminate]. left. unfold def_value, def_value_sp. reflexivity.
  - apply andb_true_iff in Hm. destruct Hm as [Hs Hm]. apply teqb_eq in Hs. subst s.
    right. split; [reflexivity|]. exists v1, conts. auto.
Qed.

Lemma cfg_rel_length : forall c c', cfg_rel c c' -> length c = length c'.
Proof. intros c c' H. induction H; cbn [length]; [reflexivity|f_equal; assumption]. Qed.

Lemma cfg_get_rel : forall k c c', cfg_rel c c' ->
  match cfg_get k c, cfg_get k c' with
  | Some v, Some v' => val_rel (fst k) v v'
  | None, None => True
  | _, _ => False
  end.
Proof.
  intros k c c' H. induction H as [|[k1 x1] [k2 x2] c c' [Hk Hx] _ IH]; cbn [cfg_get]; [exact I|].
  cbn [fst snd] in Hk, Hx. subst k2. destruct (pair_eqb k k1) eqn:E; [|exact IH].
  unfold pair_eqb in E. apply andb_true_iff in E. destruct E as [E _]. apply teqb_eq in E.
  rewrite E. exact Hx.
Qed.

Definition def_rel (sec : text) (d d' : adef) : Prop :=
  d = d' \/ (sec = T "m" /\ ad_key d = ad_key d' /\ ad_tokens d = ad_tokens d' /\
             norm_ws (ad_value d) = norm_ws (ad_value d')).

Lemma sec_name_matchers : forall sec, In sec model_secs -> sec_name sec = s_matchers -> sec = T "m".
Proof.
  intros sec Hin H. cbn in Hin. destruct Hin as [E|[E|[E|[E|[E|[]]]]]]; subst sec;
    try reflexivity; vm_compute in H; discriminate.
Qed.

Lemma add_def_rel : forall sec key v v', In sec model_secs -> val_rel (sec_name sec) v v' ->
  match add_def sec key v, add_def sec key v' with
  | Some d, Some d' => def_rel sec d d'
  | None, None => True
  | _, _ => False
  end.
Proof.
  intros sec key v v' Hsec [E|[Hs [v1 [conts [Hok [E1 E2]]]]]].
  - subst v'. destruct (add_def sec key v); [left; reflexivity|exact I].
  - apply (sec_name_matchers sec Hsec) in Hs. subst sec v v'.
    destruct (matcher_break_value v1 conts Hok) as [Hn [Hne1 Hne2]].
    unfold add_def. change (teqb (T "m") (T "r") || teqb (T "m") (T "p")) with false. cbv iota.
    destruct (remove_comment (def_value v1 conts)) as [|c1 r1] eqn:R1; [contradiction|].
    destruct (remove_comment (def_value_sp v1 conts)) as [|c2 r2] eqn:R2; [contradiction|].
    right. cbn [ad_key ad_tokens ad_value]. auto.
Qed.

Lemma load_section_rel : forall fuel c c' sec i, In sec model_secs -> cfg_rel c c' ->
  Forall2 (def_rel sec) (load_section fuel c sec i) (load_section fuel c' sec i).
Proof.
  induction fuel as [|f IH]; intros c c' sec i Hsec Hc; cbn [load_section]; [constructor|].
  pose proof (cfg_get_rel (sec_name sec, sec ++ key_suffix i) c c' Hc) as Hg.
  destruct (cfg_get (sec_name sec, sec ++ key_suffix i) c) as [v|];
    destruct (cfg_get (sec_name sec, sec ++ key_suffix i) c') as [v'|]; try contradiction; [|constructor].
  cbn [fst] in Hg. pose proof (add_def_rel sec (sec ++ key_suffix i) v v' Hsec Hg) as Ha.
  destruct (add_def sec (sec ++ key_suffix i) v) as [d|];
    destruct (add_def sec (sec ++ key_suffix i) v') as [d'|]; try contradiction; [|constructor].
  constructor; [exact Ha|]. apply IH; assumption.
Qed.

(* keys read by load_section start with the section letter *)
Lemma load_section_keys : forall fuel c sec i d, In d (load_section fuel c sec i) ->
  exists j, ad_key d = sec ++ key_suffix j.
Proof.
  induction fuel as [|f IH]; intros c sec i d Hin; cbn [load_section] in Hin; [destruct Hin|].
  destruct (cfg_get (sec_name sec, sec ++ key_suffix i) c) as [v|]; [|destruct Hin].
  destruct (add_def sec (sec ++ key_suffix i) v) as [d0|] eqn:Ea; [|destruct Hin].
  destruct Hin as [E|Hin]; [|apply (IH _ _ _ _ Hin)].
  subst d0. exists i. unfold add_def in Ea. destruct (remove_comment v); [discriminate|].
  destruct (teqb sec (T "r") || teqb sec (T "p")); inversion Ea; reflexivity.
Qed.

Lemma list_eqb_refl_gen : forall {A} (eqb : A -> A -> bool) l,
  (forall x, eqb x x = true) -> list_eqb eqb l l = true.
Proof.
  intros A eqb l H. induction l as [|x l IH]; [reflexivity|]. cbn [list_eqb]. rewrite H, IH. reflexivity.
Qed.
Lemma c16_def_equiv_refl : forall a, c16_def_equiv a a = true.
Proof.
  intros [[k v] t]. unfold c16_def_equiv. rewrite teqb_refl.
  rewrite (list_eqb_refl_gen teqb t teqb_refl). cbn [andb].
  destruct (starts_with_c "m"%char k || starts_with_c "r"%char k || starts_with_c "p"%char k); apply teqb_refl.
Qed.
Lemma c16_model_equiv_refl : forall d, c16_model_equiv d d = true.
Proof. intros d. apply list_eqb_refl_gen. exact c16_def_equiv_refl. Qed.

Lemma list_eqb_app : forall {A} (eqb : A -> A -> bool) a a' b b',
  list_eqb eqb a a' = true -> list_eqb eqb b b' = true -> list_eqb eqb (a ++ b) (a' ++ b') = true.
Proof.
  intros A eqb. induction a as [|x a IH]; intros [|x' a'] b b' Ha Hb; cbn [list_eqb app] in *;
    try discriminate; [exact Hb|].
  apply andb_true_iff in Ha. destruct Ha as [H1 H2]. rewrite H1. cbn [andb]. apply IH; assumption.
Qed.

Lemma dump_defs_rel : forall sec ds ds',
  (forall d, In d ds -> exists j, ad_key d = sec ++ key_suffix j) ->
  Forall2 (def_rel sec) ds ds' ->
  list_eqb c16_def_equiv (map (fun d => (ad_key d, ad_value d, ad_tokens d)) ds)
                         (map (fun d => (ad_key d, ad_value d, ad_tokens d)) ds') = true.
Proof.
  intros sec ds ds' Hkeys H. induction H as [|d d' ds ds' Hd _ IH]; [reflexivity|].
  cbn [map list_eqb]. rewrite IH by (intros x Hx; apply Hkeys; right; exact Hx).
  rewrite andb_true_r. destruct Hd as [E|[Hs [Hk [Ht Hv]]]].
  - subst d'. apply c16_def_equiv_refl.
  - unfold c16_def_equiv. rewrite <- Hk, <- Ht, teqb_refl.
    rewrite (list_eqb_refl_gen teqb _ teqb_refl). cbn [andb].
    destruct (Hkeys d (or_introl eq_refl)) as [j Hj]. rewrite Hj, Hs.
    change (starts_with_c "m"%char (T "m" ++ key_suffix j)) with true. cbn [orb]. apply teqb_eq, Hv.
Qed.

Lemma load_model_rel : forall c c', cfg_rel c c' ->
  c16_model_equiv (dump_of (load_model c)) (dump_of (load_model c')) = true.
Proof.
  intros c c' H. unfold load_model. fold model_secs. rewrite <- (cfg_rel_length c c' H).
  unfold c16_model_equiv.
  assert (Hall : forall sec, In sec model_secs -> In sec model_secs) by auto.
  revert Hall. generalize model_secs at 1 3 4 as secs.
  induction secs as [|sec secs IH]; intros Hall; [reflexivity|].
  cbn [flat_map]. unfold dump_of in *. rewrite !flat_map_app.
  apply list_eqb_app; [|apply IH; intros s Hs; apply Hall; right; exact Hs].
  pose proof (load_section_rel (S (length c)) c c' sec 1 (Hall sec (or_introl eq_refl)) H) as Hr.
  pose proof (load_section_keys (S (length c)) c sec 1) as Hk.
  destruct (load_section (S (length c)) c sec 1) as [|d ds];
    destruct (load_section (S (length c)) c' sec 1) as [|d' ds']; try (inversion Hr; fail); [reflexivity|].
  cbn [flat_map snd]. rewrite !app_nil_r. apply (dump_defs_rel sec); assumption.
Qed.

(* (7), model level: a model text with continuation breaks in its matchers
   (between lexemes, outside string literals) loads as the same text without
   breaks: same keys, same tokens, same request / policy / role / effect
   values, matcher values equal up to blanks outside string literals *)
Theorem model_layout_breaks : forall items,
  forallb litem_ok items = true -> breaks_in_matchers_only items [] = true ->
  exists m m', model_of_text (render_layout items) = Some m /\
               model_of_text (render_layout (map unbreak items)) = Some m' /\
               c16_model_equiv (dump_of m) (dump_of m') = true.
Proof.
  intros items Hok Hb.
  exists (load_model (cfg_of_layout items)), (load_model (cfg_of_layout (map unbreak items))).
  unfold model_of_text. rewrite parse_layout by exact Hok.
  rewrite parse_layout.
  2:{ rewrite forallb_forall in *. intros it Hit. apply in_map_iff in Hit.
      destruct Hit as [it0 [E Hit0]]. subst it. apply unbreak_ok, Hok, Hit0. }
  split; [reflexivity|]. split; [reflexivity|].
  apply load_model_rel. unfold cfg_of_layout. apply run_items_rel; [exact Hb|constructor].
Qed.

(* ---- non-vacuity: the wild layout of IniP.ex_layout ---- *)
Example ex_layout_breaks_ok : breaks_in_matchers_only ex_layout [] = true.
Proof. vm_compute. reflexivity. Qed.
Example ex_layout_model :
  option_map dump_of (model_of_text (render_layout ex_layout)) =
  Some [ (T "r", T "sub, obj, act", [T "r_sub"; T "r_obj"; T "r_act"]);
         (T "p", T "sub, obj, act", [T "p_sub"; T "p_obj"; T "p_act"]);
         (T "e", T "some(where (p_eft == allow))", []);
         (T "m", T "g(r_sub, p_sub) &&r_obj == p_obj &&r_act == p_act", []);
         (T "g", T "_, _", []) ].
Proof. vm_compute. reflexivity. Qed.
Example ex_layout_vs_plain :
  match model_of_text (render_layout ex_layout), model_of_text (render_plain ex_plain_secs) with
  | Some m, Some m' => c16_model_equiv (dump_of m) (dump_of m')
  | _, _ => false
  end = true.
Proof. vm_compute. reflexivity. Qed.

(* ---- the break conditions are needed ---- *)
(* a break inside `r .sub`: the variable is no longer recognised *)
Example break_inside_variable :
  (escape_assertion (T "r" ++ T ".sub == p.sub"), escape_assertion (T "r" ++ " "%char :: T ".sub == p.sub"))
  = (T "r_sub == p_sub", T "r .sub == p_sub").
Proof. vm_compute. reflexivity. Qed.
Example break_inside_variable_not_ok : break_ok (T "r") (T ".sub == p.sub") = false.
Proof. vm_compute. reflexivity. Qed.
(* a break between two words fuses them: `x` `r.sub` gives `xr.sub` *)
Example break_fuses_words :
  (escape_assertion (T "x" ++ T "r.sub"), escape_assertion (T "x" ++ " "%char :: T "r.sub"))
  = (T "xr.sub", T "x r_sub").
Proof. vm_compute. reflexivity. Qed.
Example break_fuses_words_not_ok : break_ok (T "x") (T "r.sub") = false.
Proof. vm_compute. reflexivity. Qed.
(* a break inside a string literal changes the literal *)
Example break_inside_string :
  norm_ws (T """a" ++ T "b""") <> norm_ws (T """a" ++ " "%char :: T "b""").
Proof. vm_compute. discriminate. Qed.
(* a break in an effect definition: the effect text is matched literally by the
   effector, so the lost blank makes it an unknown effect *)
Example break_in_effect :
  def_value (T "some(where (p.eft == allow)) &&") [ {| k_wsa := T " "; k_wsb := []; k_ind := T "  "; k_val := T "!some(where (p.eft == deny))" |} ]
  = T "some(where (p.eft == allow)) &&!some(where (p.eft == deny))".
Proof. vm_compute. reflexivity. Qed.

(* ------------------------------------------------------------------ *)
(* request / policy definitions: the tokens do not depend on the spacing *)
(* ------------------------------------------------------------------ *)
Lemma split_commas_field : forall a rest cur, ~ In comma a ->
  split_commas (a ++ comma :: rest) cur = (rev cur ++ a) :: split_commas rest [].
Proof.
  induction a as [|c a IH]; intros rest cur H; cbn [app split_commas].
  - rewrite Ascii.eqb_refl, app_nil_r. reflexivity.
  - assert (E : Ascii.eqb c comma = false) by (apply aeqb_false; intros E; apply H; left; exact E).
    rewrite E. rewrite IH by (intros Hin; apply H; right; exact Hin).
    cbn [rev]. rewrite <- app_assoc. reflexivity.
Qed.
Lemma split_commas_last : forall a cur, ~ In comma a -> split_commas a cur = [rev cur ++ a].
Proof.
  induction a as [|c a IH]; intros cur H; cbn [split_commas].
  - rewrite app_nil_r. reflexivity.
  - assert (E : Ascii.eqb c comma = false) by (apply aeqb_false; intros E; apply H; left; exact E).
    rewrite E. rewrite IH by (intros Hin; apply H; right; exact Hin).
    cbn [rev]. rewrite <- app_assoc. reflexivity.
Qed.
Lemma split_commas_join : forall segs, segs <> [] -> Forall (fun s => ~ In comma s) segs ->
  split_commas (join [comma] segs) [] = segs.
Proof.
  induction segs as [|x segs IH]; intros Hne H; [contradiction|].
  inversion H as [|y ys Hx Hs]; subst y ys. destruct segs as [|x' segs'].
  - cbn [join]. rewrite split_commas_last by exact Hx. reflexivity.
  - change (join [comma] (x :: x' :: segs')) with (x ++ comma :: join [comma] (x' :: segs')).
    rewrite split_commas_field by exact Hx. cbn [rev app]. f_equal. apply IH; [discriminate|exact Hs].
Qed.
Lemma join_snoc_app : forall (sep : text) l x y, join sep (l ++ [x]) ++ y = join sep (l ++ [x ++ y]).
Proof.
  intros sep. induction l as [|a l IH]; intros x y; [reflexivity|].
  destruct l as [|b l'].
  - cbn [app join]. rewrite <- !app_assoc. reflexivity.
  - change (join sep ((a :: b :: l') ++ [x])) with (a ++ sep ++ join sep ((b :: l') ++ [x])).
    change (join sep ((a :: b :: l') ++ [x ++ y])) with (a ++ sep ++ join sep ((b :: l') ++ [x ++ y])).
    rewrite <- IH. rewrite <- !app_assoc. reflexivity.
Qed.
Lemma join_snoc_last : forall (sep : text) l x, join sep (l ++ [x]) = match l with [] => x | _ => join sep l ++ sep ++ x end.
Proof.
  intros sep. induction l as [|a l IH]; intros x; [reflexivity|].
  destruct l as [|b l'].
  - reflexivity.
  - change (join sep ((a :: b :: l') ++ [x])) with (a ++ sep ++ join sep ((b :: l') ++ [x])).
    rewrite IH. change (join sep (a :: b :: l')) with (a ++ sep ++ join sep (b :: l')).
    rewrite <- !app_assoc. reflexivity.
Qed.

Lemma combine_app : forall {A B} (a a' : list A) (b b' : list B), length a = length b ->
  combine (a ++ a') (b ++ b') = combine a b ++ combine a' b'.
Proof.
  intros A B. induction a as [|x a IH]; intros a' [|y b] b' H; try discriminate; [reflexivity|].
  cbn [app combine]. f_equal. apply IH. cbn in H. lia.
Qed.

Record rpfieldP (f : text) : Prop := {
  rf_ne : f <> []; rf_tight : tightP f; rf_nocomma : ~ In comma f; rf_nohash : ~ In hash f }.
Lemma rp_field_ok_P : forall f, rp_field_ok f = true -> rpfieldP f.
Proof.
  intros f H. unfold rp_field_ok in H. rewrite !andb_true_iff in H. destruct H as [[[H1 H2] H3] H4].
  constructor.
  - intros E. subst f. discriminate.
  - apply tight_tightP, H2.
  - apply has_c_false, negb_true_iff, H3.
  - apply has_c_false, negb_true_iff, H4.
Qed.

Lemma rp_seg_props : forall pre post f, all_ws pre = true -> all_ws post = true -> rpfieldP f ->
  ~ In comma (pre ++ f ++ post) /\ ~ In hash (pre ++ f ++ post) /\ trim (pre ++ f ++ post) = f.
Proof.
  intros pre post f H1 H2 Hf. split; [|split].
  - rewrite !in_app_iff. intros [H|[H|H]].
    + revert H. apply all_ws_no; [reflexivity|exact H1].
    + apply (rf_nocomma _ Hf), H.
    + revert H. apply all_ws_no; [reflexivity|exact H2].
  - rewrite !in_app_iff. intros [H|[H|H]].
    + revert H. apply all_ws_no; [reflexivity|exact H1].
    + apply (rf_nohash _ Hf), H.
    + revert H. apply all_ws_no; [reflexivity|exact H2].
  - apply trim_padP; [exact H1|exact H2|apply (rf_tight _ Hf)].
Qed.

Definition pads_ok (pads : list (text * text)) : Prop :=
  Forall (fun p => all_ws (fst p) = true /\ all_ws (snd p) = true) pads.

Lemma rp_segs_props : forall pads fields, pads_ok pads -> Forall rpfieldP fields ->
  length pads = length fields ->
  Forall (fun s => ~ In comma s /\ ~ In hash s) (map rp_seg (combine pads fields)) /\
  map trim (map rp_seg (combine pads fields)) = fields.
Proof.
  induction pads as [|[pre post] pads IH]; intros fields Hp Hf Hlen.
  - destruct fields; [split; [constructor|reflexivity]|discriminate].
  - destruct fields as [|f fields]; [discriminate|]. cbn [length] in Hlen.
    inversion Hp as [|x xs [P1 P2] Hp']; subst x xs. inversion Hf as [|y ys Hf1 Hf']; subst y ys.
    cbn [fst snd] in P1, P2.
    destruct (IH fields Hp' Hf' ltac:(lia)) as [I1 I2].
    destruct (rp_seg_props pre post f P1 P2 Hf1) as [S1 [S2 S3]].
    cbn [combine map]. unfold rp_seg at 1 3. cbn [fst snd]. split.
    + constructor; [split; assumption|exact I1].
    + rewrite S3, I2. reflexivity.
Qed.

Lemma join_no_hash : forall segs, Forall (fun s : text => ~ In hash s) segs -> ~ In hash (join [comma] segs).
Proof.
  induction segs as [|x segs IH]; intros H; [intros []|].
  inversion H as [|y ys Hx Hs]; subst y ys. destruct segs as [|x' segs']; [exact Hx|].
  change (join [comma] (x :: x' :: segs')) with (x ++ comma :: join [comma] (x' :: segs')).
  rewrite in_app_iff. intros [Hin|[Hin|Hin]]; [auto|discriminate|]. revert Hin. apply IH, Hs.
Qed.

(* whatever blanks surround the fields of `r = sub, obj, act`, the definition
   has the tokens key_sub, key_obj, key_act *)
Theorem rp_tokens_spacing : forall sec key pads fields,
  sec = T "r" \/ sec = T "p" -> fields <> [] -> length pads = length fields ->
  forallb (fun p => all_ws (fst p) && all_ws (snd p)) pads = true ->
  forallb rp_field_ok fields = true ->
  add_def sec key (rp_value pads fields)
  = Some {| ad_key := key; ad_value := trim_end (rp_value pads fields);
            ad_tokens := map (fun f => key ++ underscore :: f) fields |}.
Proof.
  intros sec key pads fields Hsec Hne Hlen Hpads Hfields.
  assert (Hp : pads_ok pads).
  { apply Forall_forall. rewrite forallb_forall in Hpads. intros p Hin. apply andb_true_iff, Hpads, Hin. }
  assert (Hf : Forall rpfieldP fields).
  { apply Forall_forall. rewrite forallb_forall in Hfields. intros f Hin. apply rp_field_ok_P, Hfields, Hin. }
  (* isolate the last field *)
  destruct (rev fields) as [|fn rf] eqn:Erf.
  { exfalso. apply Hne. apply (f_equal (@rev _)) in Erf. rewrite rev_involutive in Erf. exact Erf. }
  destruct (rev pads) as [|[pren postn] rp] eqn:Erp.
  { apply (f_equal (@length _)) in Erp. rewrite rev_length in Erp. cbn in Erp.
    apply (f_equal (@length _)) in Erf. rewrite rev_length in Erf. cbn in Erf. lia. }
  assert (Ef : fields = rev rf ++ [fn]).
  { apply (f_equal (@rev _)) in Erf. rewrite rev_involutive in Erf. exact Erf. }
  assert (Ep : pads = rev rp ++ [(pren, postn)]).
  { apply (f_equal (@rev _)) in Erp. rewrite rev_involutive in Erp. exact Erp. }
  assert (Hlen0 : length (rev rp) = length (rev rf)).
  { rewrite Ef, Ep in Hlen. rewrite !app_length in Hlen. cbn [length] in Hlen. lia. }
  set (pads' := rev rp ++ [(pren, [])]).
  assert (Hp' : pads_ok pads').
  { unfold pads'. rewrite Ep in Hp. apply Forall_app in Hp. destruct Hp as [Hp0 Hpn].
    apply Forall_app. split; [exact Hp0|]. inversion Hpn as [|x xs [P1 P2] _]; subst.
    constructor; [|constructor]. split; [exact P1|reflexivity]. }
  assert (Hlen' : length pads' = length fields).
  { unfold pads'. rewrite Ef, !app_length. cbn [length]. lia. }
  (* value = body ++ postn, body built with the tightened last pad *)
  assert (Hval : rp_value pads fields = rp_value pads' fields ++ postn).
  { unfold rp_value, pads'. rewrite Ep, Ef.
    rewrite !combine_app by exact Hlen0. rewrite !map_app. cbn [combine map].
    unfold rp_seg at 2 4. cbn [fst snd]. rewrite app_nil_r.
    rewrite join_snoc_app. rewrite <- !app_assoc. reflexivity. }
  assert (Hpostn : all_ws postn = true).
  { rewrite Ep in Hp. apply Forall_app in Hp. destruct Hp as [_ Hpn].
    inversion Hpn as [|x xs [_ P2] _]; subst. exact P2. }
  destruct (rp_segs_props pads' fields Hp' Hf Hlen') as [Hsegs Htrim].
  assert (Hfn : rpfieldP fn).
  { rewrite Ef in Hf. apply Forall_app in Hf. destruct Hf as [_ Hf]. inversion Hf; assumption. }
  (* the body ends with the last byte of fn *)
  assert (Hbody_end : starts_nonws (rev (rp_value pads' fields))).
  { unfold rp_value, pads'. rewrite Ef. rewrite combine_app by exact Hlen0. rewrite map_app.
    cbn [combine map]. unfold rp_seg at 2. cbn [fst snd]. rewrite app_nil_r.
    rewrite join_snoc_last.
    destruct (map rp_seg (combine (rev rp) (rev rf))) as [|s0 ss].
    - rewrite rev_app_distr. apply starts_nonws_app; [|apply (rf_tight _ Hfn)].
      intros E. apply (rf_ne _ Hfn). apply (f_equal (@rev _)) in E. rewrite rev_involutive in E. exact E.
    - rewrite !rev_app_distr. rewrite <- !app_assoc. apply starts_nonws_app; [|apply (rf_tight _ Hfn)].
      intros E. apply (rf_ne _ Hfn). apply (f_equal (@rev _)) in E. rewrite rev_involutive in E. exact E. }
  assert (Hnohash : ~ In hash (rp_value pads fields)).
  { rewrite Hval. rewrite in_app_iff. intros [H|H].
    - revert H. unfold rp_value. apply join_no_hash. revert Hsegs. apply Forall_impl. tauto.
    - revert H. apply all_ws_no; [reflexivity|exact Hpostn]. }
  assert (Hte : trim_end (rp_value pads fields) = rp_value pads' fields).
  { rewrite Hval. rewrite trim_end_ws_app by exact Hpostn. apply trim_end_id, Hbody_end. }
  assert (Hrc : remove_comment (rp_value pads fields) = rp_value pads' fields).
  { unfold remove_comment.
    assert (E : span_not hash (rp_value pads fields) = (rp_value pads fields, [])).
    { rewrite <- (app_nil_r (rp_value pads fields)) at 1. apply span_not_app; [exact Hnohash|exact I]. }
    rewrite E. cbn [fst]. exact Hte. }
  assert (Hbody_ne : rp_value pads' fields <> []).
  { intros E. unfold rp_value, pads' in E. rewrite Ef in E.
    rewrite combine_app in E by exact Hlen0. rewrite map_app in E. cbn [combine map] in E.
    rewrite join_snoc_last in E. unfold rp_seg at 2 in E. cbn [fst snd] in E.
    destruct (map rp_seg (combine (rev rp) (rev rf))).
    - apply app_eq_nil in E. destruct E as [_ E].
      apply app_eq_nil in E. destruct E as [E _]. apply (rf_ne _ Hfn), E.
    - apply app_eq_nil in E. destruct E as [_ E]. apply app_eq_nil in E. destruct E as [_ E].
      apply app_eq_nil in E. destruct E as [_ E].
      apply app_eq_nil in E. destruct E as [E _]. apply (rf_ne _ Hfn), E. }
  unfold add_def. rewrite Hrc, Hte.
  destruct (rp_value pads' fields) as [|c0 r0] eqn:Ev; [contradiction|].
  assert (Ht : teqb sec (T "r") || teqb sec (T "p") = true).
  { destruct Hsec as [-> | ->]; reflexivity. }
  rewrite Ht. f_equal. f_equal. rewrite <- Ev. unfold rp_value.
  rewrite split_commas_join.
  - rewrite <- Htrim at 2. rewrite !map_map. reflexivity.
  - intros E. apply map_eq_nil in E.
    assert (length (combine pads' fields) = length fields).
    { rewrite combine_length, Hlen'. lia. }
    rewrite E in H. cbn in H. destruct fields; [contradiction|discriminate].
  - revert Hsegs. apply Forall_impl. tauto.
Qed.

Example rp_tokens_ex :
  add_def (T "r") (T "r2") (rp_value [([], T " "); (T "  ", []); (T " ", T "  ")] [T "sub"; T "obj"; T "act"])
  = Some {| ad_key := T "r2"; ad_value := T "sub ,  obj, act";
            ad_tokens := [T "r2_sub"; T "r2_obj"; T "r2_act"] |}.
Proof. vm_compute. reflexivity. Qed.
