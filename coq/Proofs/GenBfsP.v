(* The bounded BFS of Model/RoleGraph.v / Model/RoleGraphM.v over an ARBITRARY
   successor function: soundness, completeness below the depth limit, fuel,
   and the level sets `gwithin` with their path characterisation and
   saturation.  Generalises Section BFS of Proofs/RoleGraphP.v. *)
From CV Require Import Model.Base Model.RoleGraph Proofs.ListAux Proofs.BaseP Proofs.RoleGraphP.
From Coq Require Import Lia Relations.

Fixpoint gbfs_visit (fuel : nat) (sf : text -> list text) (maxd : nat)
         (q disc : list text) (depth rem : nat) : list text :=
  match fuel with
  | 0 => []
  | S fuel' =>
    if Nat.leb maxd depth then []
    else match q with
         | [] => []
         | v :: q' =>
           let rem1 := rem - 1 in
           let depth' := if Nat.eqb rem1 0 then depth + 1 else depth in
           let nw := discover (sf v) disc in
           v :: gbfs_visit fuel' sf maxd (q' ++ nw) (disc ++ nw) depth' (rem1 + length nw)
         end
  end.

Fixpoint gwithin (sf : text -> list text) (k : nat) (a : text) : list text :=
  match k with
  | 0 => [a]
  | S k' => let w := gwithin sf k' a in add_new (flat_map sf w) w
  end.

Lemma gbfs_visit_S : forall fuel sf maxd q disc depth rem,
  gbfs_visit (S fuel) sf maxd q disc depth rem =
  if Nat.leb maxd depth then []
  else match q with
       | [] => []
       | v :: q' =>
         v :: gbfs_visit fuel sf maxd (q' ++ discover (sf v) disc)
                (disc ++ discover (sf v) disc)
                (if Nat.eqb (rem - 1) 0 then depth + 1 else depth)
                (rem - 1 + length (discover (sf v) disc))
       end.
Proof. reflexivity. Qed.

Lemma gbfs_visit_ext : forall sf sf', (forall x, sf x = sf' x) ->
  forall fuel maxd q disc depth rem,
  gbfs_visit fuel sf maxd q disc depth rem = gbfs_visit fuel sf' maxd q disc depth rem.
Proof.
  intros sf sf' Hext. induction fuel as [|fuel IH]; intros maxd q disc depth rem; [reflexivity|].
  rewrite !gbfs_visit_S. destruct (Nat.leb maxd depth); [reflexivity|].
  destruct q as [|v q']; [reflexivity|]. rewrite (Hext v). f_equal. apply IH.
Qed.

Lemma bfs_visit_gbfs : forall g fuel maxd q disc depth rem,
  bfs_visit fuel g maxd q disc depth rem = gbfs_visit fuel (succs g) maxd q disc depth rem.
Proof.
  intros g. induction fuel as [|fuel IH]; intros maxd q disc depth rem; [reflexivity|].
  rewrite bfs_visit_S, gbfs_visit_S. destruct (Nat.leb maxd depth); [reflexivity|].
  destruct q as [|v q']; [reflexivity|]. f_equal. apply IH.
Qed.

Section GBFS.
  Variable sf : text -> list text.
  Variable N : list text.
  Hypothesis Hclosed : forall x y, In x N -> In y (sf x) -> In y N.
  Variable maxd : nat.
  Variable a : text.

  Definition gR (x y : text) : Prop := In y (sf x).
  Definition greach (v : text) : Prop := a = v \/ clos_trans text gR a v.

  Lemma greach_step : forall v w, greach v -> gR v w -> greach w.
  Proof.
    intros v w [<-|H] Hr; right; [apply t_step, Hr|].
    apply (t_trans text gR a v w H). apply t_step, Hr.
  Qed.

  Lemma gbfs_sound_gen : forall fuel q disc depth rem,
    (forall v, In v disc -> greach v) -> incl q disc ->
    forall b, In b (gbfs_visit fuel sf maxd q disc depth rem) -> greach b.
  Proof.
    induction fuel as [|fuel IH]; intros q disc depth rem Hd Hq b Hb; [destruct Hb|].
    rewrite gbfs_visit_S in Hb. destruct (Nat.leb maxd depth); [destruct Hb|].
    destruct q as [|v q']; [destruct Hb|].
    assert (Hv : greach v) by (apply Hd, Hq; left; reflexivity).
    destruct Hb as [<-|Hb]; [exact Hv|].
    apply IH in Hb; [exact Hb| |].
    - intros w Hw. apply in_app_or in Hw. destruct Hw as [Hw|Hw]; [apply Hd, Hw|].
      apply discover_In in Hw. destruct Hw as [Hw _].
      apply (greach_step v w Hv Hw).
    - intros w Hw. apply in_app_or in Hw. apply in_or_app.
      destruct Hw as [Hw|Hw]; [left; apply Hq; right; exact Hw|right; exact Hw].
  Qed.

  Lemma gbfs_from_sound : forall fuel b, In b (gbfs_visit fuel sf maxd [a] [a] 0 1) -> greach b.
  Proof.
    intros fuel b Hb. apply gbfs_sound_gen in Hb; [exact Hb| |].
    - intros v [<-|[]]. left. reflexivity.
    - apply incl_refl.
  Qed.

  Definition gshape (P q : list text) : Prop :=
    NoDup (P ++ q) /\ incl (P ++ q) N.

  Lemma gstep_disc : forall (P : list text) v q' nw,
    (P ++ v :: q') ++ nw = (P ++ [v]) ++ q' ++ nw.
  Proof. intros P v q' nw. rewrite <- !app_assoc. reflexivity. Qed.

  Lemma gstep_rem : forall (v : text) q' (nw : list text),
    length (v :: q') - 1 + length nw = length (q' ++ nw).
  Proof. intros v q' nw. rewrite app_length. cbn [length]. lia. Qed.

  Lemma gshape_step : forall P v q',
    gshape P (v :: q') ->
    gshape (P ++ [v]) (q' ++ discover (sf v) (P ++ v :: q')).
  Proof.
    intros P v q' [Hnd Hin]. unfold gshape. rewrite <- gstep_disc. split.
    - apply NoDup_app_intro; [exact Hnd|apply discover_NoDup|].
      intros x Hx Hn. apply discover_In in Hn. destruct Hn as [_ Hn]. contradiction.
    - intros x Hx. apply in_app_or in Hx. destruct Hx as [Hx|Hx]; [apply Hin, Hx|].
      apply discover_In in Hx. destruct Hx as [Hx _].
      apply (Hclosed v x); [|exact Hx]. apply Hin. apply in_or_app. right. left. reflexivity.
  Qed.

  Lemma gshape_len : forall P q, gshape P q -> length P + length q <= length N.
  Proof.
    intros P q [Hnd Hin]. rewrite <- app_length. apply NoDup_incl_length; assumption.
  Qed.

  Lemma gfuel_gen : forall fuel extra P q depth,
    gshape P q -> length N < fuel + length P ->
    gbfs_visit (fuel + extra) sf maxd q (P ++ q) depth (length q) =
    gbfs_visit fuel sf maxd q (P ++ q) depth (length q).
  Proof.
    induction fuel as [|fuel IH]; intros extra P q depth Hs Hf.
    - apply gshape_len in Hs. lia.
    - cbn [plus]. rewrite !gbfs_visit_S. destruct (Nat.leb maxd depth); [reflexivity|].
      destruct q as [|v q']; [reflexivity|]. f_equal.
      set (nw := discover (sf v) (P ++ v :: q')).
      rewrite gstep_disc, gstep_rem. apply IH.
      + apply gshape_step, Hs.
      + rewrite app_length. cbn [length]. lia.
  Qed.

  Lemma gshape_init : In a N -> gshape [] [a].
  Proof.
    intros Ha. split; cbn [app].
    - constructor; [intros []|constructor].
    - intros x [<-|[]]. exact Ha.
  Qed.

  Definition gInv (k : nat) (P A B : list text) (depth : nat) : Prop :=
    (forall u v, In u P -> gR u v -> In v (P ++ A ++ B)) /\
    (forall j v, j <= k -> path gR j a v -> In v P \/ In v A) /\
    (forall j v, j < k -> path gR j a v -> In v P) /\
    depth <= k /\
    (A = [] -> B = []).

  Lemma ginv_closed : forall k P depth, gInv k P [] [] depth ->
    forall j b, path gR j a b -> In b P.
  Proof.
    intros k P depth (I2 & I3 & _ & _ & _).
    assert (Ha : In a P).
    { destruct (I3 0 a) as [H|[]]; [lia|apply path0|exact H]. }
    assert (Hc : forall j u b, path gR j u b -> In u P -> In b P).
    { intros j u b Hp. induction Hp as [u|j u v w Huv Hp IH]; intros Hu; [exact Hu|].
      apply IH. specialize (I2 u v Hu Huv). rewrite app_nil_r in I2. exact I2. }
    intros j b Hp. apply (Hc j a b Hp Ha).
  Qed.

  Lemma ginv_step_succ : forall k P A B depth v A' B' nw,
    gInv k P A B depth -> In v (A ++ B) ->
    (forall x, In x (P ++ A ++ B) -> In x ((P ++ [v]) ++ A' ++ B')) ->
    (forall x, In x nw -> In x ((P ++ [v]) ++ A' ++ B')) ->
    nw = discover (sf v) (P ++ A ++ B) ->
    forall u w, In u (P ++ [v]) -> gR u w -> In w ((P ++ [v]) ++ A' ++ B').
  Proof.
    intros k P A B depth v A' B' nw (I2 & _) Hv Hold Hnew Hnw u w Hu Huw.
    apply in_app_or in Hu. destruct Hu as [Hu|[<-|[]]].
    - apply Hold. apply (I2 u w Hu Huw).
    - destruct (in_dec text_eq_dec w (P ++ A ++ B)) as [Hin|Hnin]; [apply Hold, Hin|].
      apply Hnew. rewrite Hnw. apply discover_In. split; [|exact Hnin].
      exact Huw.
  Qed.

  Lemma ginv_step_same : forall k P v v2 A B depth,
    gInv k P (v :: v2 :: A) B depth ->
    gInv k (P ++ [v]) (v2 :: A)
        (B ++ discover (sf v) (P ++ (v :: v2 :: A) ++ B)) depth.
  Proof.
    intros k P v v2 A B depth HI.
    set (nw := discover (sf v) (P ++ (v :: v2 :: A) ++ B)).
    pose proof HI as (I2 & I3 & I4 & I5 & I6).
    split; [|split; [|split; [|split]]].
    - apply (ginv_step_succ k P (v :: v2 :: A) B depth v (v2 :: A) (B ++ nw) nw HI).
      + left. reflexivity.
      + intros x Hx. rewrite !in_app_iff in *. cbn [In] in *. tauto.
      + intros x Hx. rewrite !in_app_iff. tauto.
      + reflexivity.
    - intros j w Hj Hp. destruct (I3 j w Hj Hp) as [H|[<-|H]].
      + left. apply in_or_app. left. exact H.
      + left. apply in_or_app. right. left. reflexivity.
      + right. exact H.
    - intros j w Hj Hp. apply in_or_app. left. apply (I4 j w Hj Hp).
    - exact I5.
    - discriminate.
  Qed.

  Lemma ginv_step_next : forall k P v B depth depth',
    gInv k P [v] B depth -> depth' <= depth + 1 ->
    gInv (S k) (P ++ [v]) (B ++ discover (sf v) (P ++ [v] ++ B)) [] depth'.
  Proof.
    intros k P v B depth depth' HI Hd.
    set (nw := discover (sf v) (P ++ [v] ++ B)).
    pose proof HI as (I2 & I3 & I4 & I5 & I6).
    assert (J2 : forall u w, In u (P ++ [v]) -> gR u w -> In w ((P ++ [v]) ++ (B ++ nw) ++ [])).
    { apply (ginv_step_succ k P [v] B depth v (B ++ nw) [] nw HI).
      - left. reflexivity.
      - intros x Hx. rewrite !in_app_iff in *. cbn [In] in *. tauto.
      - intros x Hx. rewrite !in_app_iff. tauto.
      - reflexivity. }
    assert (J4 : forall j w, j <= k -> path gR j a w -> In w (P ++ [v])).
    { intros j w Hj Hp. apply in_or_app. destruct (I3 j w Hj Hp) as [H|[<-|[]]].
      - left. exact H.
      - right. left. reflexivity. }
    split; [|split; [|split; [|split]]].
    - exact J2.
    - intros j w Hj Hp. destruct (Nat.eq_dec j (S k)) as [->|Hne].
      + apply path_snoc_inv in Hp. destruct Hp as [u [Hp Huw]].
        assert (Hu : In u (P ++ [v])) by (apply (J4 k u); [lia|exact Hp]).
        specialize (J2 u w Hu Huw). rewrite app_nil_r in J2.
        apply in_app_or in J2. exact J2.
      + left. apply (J4 j w); [lia|exact Hp].
    - intros j w Hj Hp. apply (J4 j w); [lia|exact Hp].
    - lia.
    - reflexivity.
  Qed.

  Lemma gcomplete_gen : forall fuel k P q A B depth,
    q = A ++ B -> gshape P q -> gInv k P A B depth ->
    length N < fuel + length P ->
    forall j b, j < maxd -> path gR j a b ->
    In b P \/ In b (gbfs_visit fuel sf maxd q (P ++ q) depth (length q)).
  Proof.
    induction fuel as [|fuel IH]; intros k P q A B depth Hq Hs HI Hf j b Hj Hp.
    - apply gshape_len in Hs. lia.
    - rewrite gbfs_visit_S. destruct (Nat.leb maxd depth) eqn:E.
      + apply Nat.leb_le in E. left. destruct HI as (_ & _ & I4 & I5 & _).
        apply (I4 j b); [lia|exact Hp].
      + destruct A as [|v A'].
        * destruct HI as (I2 & I3 & I4 & I5 & I6). rewrite (I6 eq_refl) in *.
          left. refine (ginv_closed k P depth _ j b Hp).
          repeat split; auto.
        * subst q. cbn [app].
          set (nw := discover (sf v) (P ++ v :: A' ++ B)).
          rewrite gstep_disc, gstep_rem.
          assert (Hs' : gshape (P ++ [v]) ((A' ++ B) ++ nw)) by apply gshape_step, Hs.
          assert (Hf' : length N < fuel + length (P ++ [v])).
          { rewrite app_length. cbn [length]. lia. }
          assert (Hres : In b (P ++ [v]) \/
                         In b (gbfs_visit fuel sf maxd ((A' ++ B) ++ nw)
                                 ((P ++ [v]) ++ (A' ++ B) ++ nw)
                                 (if Nat.eqb (length (v :: A' ++ B) - 1) 0 then depth + 1 else depth)
                                 (length ((A' ++ B) ++ nw)))).
          { destruct A' as [|v2 A''].
            - refine (IH (S k) (P ++ [v]) _ (B ++ nw) [] _ _ Hs' _ Hf' j b Hj Hp).
              + rewrite app_nil_r. reflexivity.
              + apply (ginv_step_next k P v B depth); [exact HI|].
                destruct (Nat.eqb _ 0); lia.
            - refine (IH k (P ++ [v]) _ (v2 :: A'') (B ++ nw) _ _ Hs' _ Hf' j b Hj Hp).
              + rewrite app_assoc. reflexivity.
              + cbn [length app Nat.sub Nat.eqb]. apply ginv_step_same, HI. }
          destruct Hres as [Hres|Hres].
          -- apply in_app_or in Hres. destruct Hres as [Hres|[<-|[]]].
             ++ left. exact Hres.
             ++ right. left. reflexivity.
          -- right. right. exact Hres.
  Qed.

  Lemma ginv_init : gInv 0 [] [a] [] 0.
  Proof.
    split; [|split; [|split; [|split]]].
    - intros u v [].
    - intros j v Hj Hp. assert (j = 0) by lia. subst j.
      right. left. apply (path0_inv _ _ _ Hp).
    - intros j v Hj. lia.
    - lia.
    - discriminate.
  Qed.

  Lemma gbfs_from_complete : forall j b,
    In a N -> j < maxd -> path gR j a b ->
    In b (gbfs_visit (S (length N)) sf maxd [a] [a] 0 1).
  Proof.
    intros j b Ha Hj Hp.
    destruct (gcomplete_gen (S (length N)) 0 [] [a] [a] [] 0 eq_refl
                (gshape_init Ha) ginv_init ltac:(cbn [length]; lia) j b Hj Hp) as [[]|H].
    exact H.
  Qed.

  Lemma gfuel_enough : forall extra, In a N ->
    gbfs_visit (S (length N) + extra) sf maxd [a] [a] 0 1 =
    gbfs_visit (S (length N)) sf maxd [a] [a] 0 1.
  Proof.
    intros extra Ha.
    apply (gfuel_gen (S (length N)) extra [] [a] 0 (gshape_init Ha)).
    cbn [length]. lia.
  Qed.

  (* ---- level sets ---- *)
  Lemma gwithin_spec : forall k b,
    In b (gwithin sf k a) <-> exists j, j <= k /\ path gR j a b.
  Proof.
    induction k as [|k IH]; intros b; cbn [gwithin].
    - cbn [In]. split.
      + intros [->|[]]. exists 0. split; [lia|apply path0].
      + intros [j [Hj Hp]]. assert (j = 0) by lia. subst j. left. apply (path0_inv _ _ _ Hp).
    - rewrite add_new_In, in_flat_map. split.
      + intros [[c [Hc Hb]]|Hb].
        * apply IH in Hc. destruct Hc as [j [Hj Hp]].
          exists (S j). split; [lia|]. apply (path_snoc _ j a c b Hp Hb).
        * apply IH in Hb. destruct Hb as [j [Hj Hp]]. exists j. split; [lia|exact Hp].
      + intros [j [Hj Hp]]. destruct (Nat.eq_dec j (S k)) as [->|Hne].
        * apply path_snoc_inv in Hp. destruct Hp as [c [Hp Hcb]]. left. exists c. split.
          -- apply IH. exists k. split; [lia|exact Hp].
          -- exact Hcb.
        * right. apply IH. exists j. split; [lia|exact Hp].
  Qed.

  (* a simple path inside N has fewer steps than N has elements *)
  Lemma gshort_path : forall k b, In a N -> path gR k a b ->
    exists j, j < length N /\ path gR j a b.
  Proof.
    intros k b Ha Hp. destruct (path_chain gR k a b Hp) as [vs [_ Hc0]].
    destruct (chain_simple gR vs a b Hc0) as [vs' (Hc & Hnd & _)].
    exists (length vs'). split; [|apply (chain_path gR vs' a b Hc)].
    assert (Hin : incl (a :: vs') N).
    { assert (Hall : forall ws x y, In x N -> chain gR x ws y -> incl ws N).
      { induction ws as [|v r IHr]; intros x y Hx Hch; [intros z []|].
        cbn [chain] in Hch. destruct Hch as [Hxv Hch].
        assert (Hv : In v N) by apply (Hclosed x v Hx Hxv).
        intros z [<-|Hz]; [exact Hv|]. apply (IHr v y Hv Hch z Hz). }
      intros z [<-|Hz]; [exact Ha|]. apply (Hall vs' a b Ha Hc z Hz). }
    pose proof (NoDup_incl_length Hnd Hin) as Hlen. cbn [length] in Hlen. lia.
  Qed.

  Lemma gwithin_saturate : forall k b, In a N ->
    In b (gwithin sf k a) -> In b (gwithin sf (length N) a).
  Proof.
    intros k b Ha Hb. apply gwithin_spec in Hb. destruct Hb as [j [_ Hp]].
    destruct (gshort_path j b Ha Hp) as [j' [Hj' Hp']].
    apply gwithin_spec. exists j'. split; [lia|exact Hp'].
  Qed.
End GBFS.
