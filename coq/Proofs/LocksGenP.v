(* rs2coq part 19: generic theory of lock skeletons (Gen/LocksRt.v).
   - lk_flat: a static check; every run of a skeleton that passes it is a flat
     sequence of role-manager instructions (flat_locks);
   - lk_enum: all runs of a loop-free skeleton;
   - lk_cnt B: an analysis that answers, for a block B = [Acq RM m; op; Rel RM],
     "every run is B repeated k times" together with the exact set of those k,
     per way of leaving; sound AND complete (cnt_spec);
   - lk_exact: the statement used per function: the complete executions of a
     function are exactly repeat_prog k B for lo <= k (<= hi).
   Nothing here depends on the generated file. *)
From Coq Require Import Lia.
From CV Require Import Model.Base Model.Locks Gen.LocksRt.

(* ------------------------------------------------------------------ *)
(* repeat_prog                                                         *)
(* ------------------------------------------------------------------ *)
Lemma repeat_prog_add : forall i j (B : list instr),
  repeat_prog (i + j) B = repeat_prog i B ++ repeat_prog j B.
Proof.
  intros i j B. induction i as [|i IH]; cbn [repeat_prog Nat.add]; [reflexivity|].
  rewrite IH, app_assoc. reflexivity.
Qed.
Lemma repeat_prog_1 : forall (B : list instr), repeat_prog 1 B = B.
Proof. intros B. cbn [repeat_prog]. apply app_nil_r. Qed.

(* ------------------------------------------------------------------ *)
(* flatness                                                            *)
(* ------------------------------------------------------------------ *)
Fixpoint lk_flat (h : bool) (p : lk) : bool :=
  match p with
  | LNop | LExit | LBreak | LCont => true
  | LOp i => h && match i with Read | Write => true | _ => false end
  | LHold _ b => negb h && lk_flat true b
  | LSeq a b => lk_flat h a && lk_flat h b
  | LIf a b => lk_flat h a && lk_flat h b
  | LLoop b => lk_flat h b
  | LCall b => lk_flat h b
  end.

Lemma lk_flat_keep : forall p t o, lk_run p t o ->
  forall h r, lk_flat h p = true -> flat_from h (t ++ r) = flat_from h r.
Proof.
  intros p t o Hrun.
  induction Hrun as [ | i | m b t o Hb IH | a b t1 t2 o Ha IHa Hb IHb | a b t1 o Ha IHa Hne
                    | a b t o Ha IH | a b t o Hb IH | b | b t1 o1 t2 o Hb IHb Ho Hl IHl
                    | b t1 Hb IH | b t1 Hb IH | | | | b t o Hb IH Ho ];
    intros h r Hf; cbn [lk_flat] in Hf.
  - reflexivity.
  - apply andb_true_iff in Hf. destruct Hf as [Hh Hi]. subst h.
    destruct i; try discriminate Hi; reflexivity.
  - apply andb_true_iff in Hf. destruct Hf as [Hh Hb']. destruct h; [discriminate Hh|].
    cbn [app flat_from negb andb]. rewrite <- app_assoc. rewrite (IH true _ Hb').
    reflexivity.
  - apply andb_true_iff in Hf. destruct Hf as [H1 H2].
    rewrite <- app_assoc. rewrite (IHa h _ H1). apply IHb. exact H2.
  - apply andb_true_iff in Hf. destruct Hf as [H1 H2]. apply IHa. exact H1.
  - apply andb_true_iff in Hf. destruct Hf as [H1 H2]. apply IH. exact H1.
  - apply andb_true_iff in Hf. destruct Hf as [H1 H2]. apply IH. exact H2.
  - reflexivity.
  - rewrite <- app_assoc. rewrite (IHb h _ Hf). apply IHl. exact Hf.
  - apply IH. exact Hf.
  - apply IH. exact Hf.
  - reflexivity.
  - reflexivity.
  - reflexivity.
  - apply IH. exact Hf.
Qed.

Theorem lk_flat_sound : forall p t o, lk_flat false p = true -> lk_run p t o -> flat_locks t = true.
Proof.
  intros p t o Hf Hrun. unfold flat_locks.
  rewrite <- (app_nil_r t). rewrite (lk_flat_keep p t o Hrun false [] Hf). reflexivity.
Qed.
Corollary lk_flat_fn : forall p t, lk_flat false p = true -> lk_fn p t -> flat_locks t = true.
Proof. intros p t Hf Hrun. exact (lk_flat_sound (LCall p) t ON Hf Hrun). Qed.

Lemma flat_repeat_block : forall m i k, (i = Read \/ i = Write) ->
  flat_locks (repeat_prog k [Acq RM m; i; Rel RM]) = true.
Proof.
  intros m i k Hi. unfold flat_locks. induction k as [|k IH]; [reflexivity|].
  cbn [repeat_prog app flat_from negb andb].
  destruct Hi as [-> | ->]; cbn [flat_from andb]; exact IH.
Qed.

(* ------------------------------------------------------------------ *)
(* decidable equality on instructions                                  *)
(* ------------------------------------------------------------------ *)
Definition mode_eqb' (a b : mode) : bool :=
  match a, b with MR, MR | MW, MW => true | _, _ => false end.
Definition instr_eqb (a b : instr) : bool :=
  match a, b with
  | Acq l m, Acq l' m' => lockid_eqb l l' && mode_eqb' m m'
  | Rel l, Rel l' => lockid_eqb l l'
  | Read, Read | Begin, Begin | End, End | Write, Write => true
  | _, _ => false
  end.
Lemma instr_eqb_eq : forall a b, instr_eqb a b = true -> a = b.
Proof.
  intros a b H. destruct a as [l m|l| | | | ], b as [l' m'|l'| | | | ]; cbn [instr_eqb] in H;
    try discriminate H; try reflexivity.
  - apply andb_true_iff in H. destruct H as [H1 H2].
    destruct l, l'; try discriminate H1; destruct m, m'; try discriminate H2; reflexivity.
  - destruct l, l'; try discriminate H; reflexivity.
Qed.
Lemma instrs_eqb_eq : forall a b, list_eqb instr_eqb a b = true -> a = b.
Proof.
  induction a as [|x a IH]; intros [|y b] H; cbn [list_eqb] in H; try discriminate H; [reflexivity|].
  apply andb_true_iff in H. destruct H as [H1 H2].
  rewrite (instr_eqb_eq _ _ H1), (IH _ H2). reflexivity.
Qed.

Definition outc_eqb (a b : outc) : bool :=
  match a, b with ON, ON | OB, OB | OC, OC | OX, OX => true | _, _ => false end.
Lemma outc_eqb_eq : forall a b, outc_eqb a b = true <-> a = b.
Proof. intros a b. destruct a, b; cbn; split; intros H; try discriminate H; reflexivity. Qed.

(* ------------------------------------------------------------------ *)
(* all runs of a loop-free skeleton                                    *)
(* ------------------------------------------------------------------ *)
Definition seq_runs (la lb : list (list instr * outc)) : list (list instr * outc) :=
  flat_map (fun x => match snd x with
                     | ON => map (fun y => (fst x ++ fst y, snd y)) lb
                     | _ => [x]
                     end) la.
Definition call_runs (l : list (list instr * outc)) : list (list instr * outc) :=
  flat_map (fun x => match snd x with ON | OX => [(fst x, ON)] | _ => [] end) l.
Definition hold_runs (m : mode) (l : list (list instr * outc)) : list (list instr * outc) :=
  map (fun x => (Acq RM m :: fst x ++ [Rel RM], snd x)) l.

Fixpoint lk_enum (p : lk) : option (list (list instr * outc)) :=
  match p with
  | LNop => Some [([], ON)]
  | LOp i => Some [([i], ON)]
  | LHold m b => option_map (hold_runs m) (lk_enum b)
  | LSeq a b => match lk_enum a, lk_enum b with
                | Some la, Some lb => Some (seq_runs la lb)
                | _, _ => None
                end
  | LIf a b => match lk_enum a, lk_enum b with
               | Some la, Some lb => Some (la ++ lb)
               | _, _ => None
               end
  | LLoop _ => None
  | LExit => Some [([], OX)]
  | LBreak => Some [([], OB)]
  | LCont => Some [([], OC)]
  | LCall b => option_map call_runs (lk_enum b)
  end.

Lemma lk_enum_spec : forall p l, lk_enum p = Some l ->
  forall t o, lk_run p t o <-> In (t, o) l.
Proof.
  induction p as [ | i | m b IH | a IHa b IHb | a IHa b IHb | b IH | | | | b IH ];
    intros l Hl t o; cbn [lk_enum] in Hl.
  - injection Hl as <-. split.
    + intros H. inversion H; subst. left. reflexivity.
    + intros [H|[]]. injection H as <- <-. constructor.
  - injection Hl as <-. split.
    + intros H. inversion H; subst. left. reflexivity.
    + intros [H|[]]. injection H as <- <-. constructor.
  - destruct (lk_enum b) as [lb|] eqn:Eb; [|discriminate Hl]. cbn [option_map] in Hl.
    injection Hl as <-. unfold hold_runs. split.
    + intros H. inversion H as [ | | m' b' t' o' Hb | | | | | | | | | | | | ]; subst.
      apply in_map_iff. exists (t', o). split; [reflexivity|]. apply (IH lb eq_refl). exact Hb.
    + intros H. apply in_map_iff in H. destruct H as [[t' o'] [He Hin]].
      cbn [fst snd] in He. injection He as <- <-. constructor. apply (IH lb eq_refl). exact Hin.
  - destruct (lk_enum a) as [la|] eqn:Ea; [|discriminate Hl].
    destruct (lk_enum b) as [lb|] eqn:Eb; [|discriminate Hl].
    injection Hl as <-. unfold seq_runs. split.
    + intros H. apply in_flat_map.
      inversion H as [ | | | a' b' t1 t2 o' Ha Hb | a' b' t1 o' Ha Hne | | | | | | | | | | ]; subst.
      * exists (t1, ON). split; [apply (IHa la eq_refl); exact Ha|]. cbn [snd fst].
        apply in_map_iff. exists (t2, o). split; [reflexivity|]. apply (IHb lb eq_refl). exact Hb.
      * exists (t, o). split; [apply (IHa la eq_refl); exact Ha|]. cbn [snd].
        destruct o; try (left; reflexivity). exfalso. apply Hne. reflexivity.
    + intros H. apply in_flat_map in H. destruct H as [[t1 o1] [Hin H]]. cbn [snd fst] in H.
      apply (IHa la eq_refl) in Hin.
      destruct o1.
      * apply in_map_iff in H. destruct H as [[t2 o2] [He Hin2]]. cbn [fst snd] in He.
        injection He as <- <-. apply R_seq; [exact Hin|]. apply (IHb lb eq_refl). exact Hin2.
      * destruct H as [H|[]]. injection H as <- <-. apply R_seq_leave; [exact Hin|discriminate].
      * destruct H as [H|[]]. injection H as <- <-. apply R_seq_leave; [exact Hin|discriminate].
      * destruct H as [H|[]]. injection H as <- <-. apply R_seq_leave; [exact Hin|discriminate].
  - destruct (lk_enum a) as [la|] eqn:Ea; [|discriminate Hl].
    destruct (lk_enum b) as [lb|] eqn:Eb; [|discriminate Hl].
    injection Hl as <-. split.
    + intros H. apply in_or_app. inversion H; subst.
      * left. apply (IHa la eq_refl). assumption.
      * right. apply (IHb lb eq_refl). assumption.
    + intros H. apply in_app_or in H. destruct H as [H|H].
      * apply R_if_l. apply (IHa la eq_refl). exact H.
      * apply R_if_r. apply (IHb lb eq_refl). exact H.
  - discriminate Hl.
  - injection Hl as <-. split.
    + intros H. inversion H; subst. left. reflexivity.
    + intros [H|[]]. injection H as <- <-. constructor.
  - injection Hl as <-. split.
    + intros H. inversion H; subst. left. reflexivity.
    + intros [H|[]]. injection H as <- <-. constructor.
  - injection Hl as <-. split.
    + intros H. inversion H; subst. left. reflexivity.
    + intros [H|[]]. injection H as <- <-. constructor.
  - destruct (lk_enum b) as [lb|] eqn:Eb; [|discriminate Hl]. cbn [option_map] in Hl.
    injection Hl as <-. unfold call_runs. split.
    + intros H. inversion H as [ | | | | | | | | | | | | | | b' t' o' Hb Ho ]; subst.
      apply in_flat_map. exists (t, o'). split; [apply (IH lb eq_refl); exact Hb|].
      cbn [snd fst]. destruct Ho as [-> | ->]; left; reflexivity.
    + intros H. apply in_flat_map in H. destruct H as [[t' o'] [Hin H]]. cbn [snd fst] in H.
      apply (IH lb eq_refl) in Hin.
      destruct o'.
      * destruct H as [H|[]]. injection H as <- <-. apply (R_call b t' ON Hin). left. reflexivity.
      * contradiction H.
      * contradiction H.
      * destruct H as [H|[]]. injection H as <- <-. apply (R_call b t' OX Hin). right. reflexivity.
Qed.

(* ------------------------------------------------------------------ *)
(* sets of natural numbers: finitely many values plus finitely many      *)
(* half-lines [l, oo)                                                  *)
(* ------------------------------------------------------------------ *)
Definition cset := (list nat * list nat)%type.
Definition cmem (k : nat) (s : cset) : bool :=
  existsb (Nat.eqb k) (fst s) || existsb (fun l => l <=? k) (snd s).
Definition cin (k : nat) (s : cset) : Prop :=
  In k (fst s) \/ exists l, In l (snd s) /\ l <= k.
Lemma cmem_cin : forall k s, cmem k s = true <-> cin k s.
Proof.
  intros k s. unfold cmem, cin. rewrite orb_true_iff, !existsb_exists. split.
  - intros [[x [Hin He]]|[l [Hin Hl]]].
    + left. apply Nat.eqb_eq in He. subst x. exact Hin.
    + right. exists l. split; [exact Hin|]. apply Nat.leb_le. exact Hl.
  - intros [Hin|[l [Hin Hl]]].
    + left. exists k. split; [exact Hin|]. apply Nat.eqb_refl.
    + right. exists l. split; [exact Hin|]. apply Nat.leb_le. exact Hl.
Qed.

Definition cempty : cset := ([], []).
Definition cone (n : nat) : cset := ([n], []).
Definition cunion (a b : cset) : cset := (fst a ++ fst b, snd a ++ snd b).
Definition sums (xs ys : list nat) : list nat := flat_map (fun x => map (Nat.add x) ys) xs.
Definition csum (a b : cset) : cset :=
  (sums (fst a) (fst b), sums (snd a) (fst b) ++ sums (snd b) (fst a) ++ sums (snd a) (snd b)).

Lemma cin_empty : forall k, ~ cin k cempty.
Proof. intros k [H|[l [H _]]]; exact H. Qed.
Lemma cin_one : forall k n, cin k (cone n) <-> k = n.
Proof.
  intros k n. unfold cin, cone. cbn [fst snd]. split.
  - intros [[H|[]]|[l [[] _]]]. symmetry. exact H.
  - intros ->. left. left. reflexivity.
Qed.
Lemma cin_union : forall k a b, cin k (cunion a b) <-> cin k a \/ cin k b.
Proof.
  intros k a b. unfold cin, cunion. cbn [fst snd]. split.
  - intros [H|[l [H Hl]]].
    + apply in_app_or in H. destruct H as [H|H]; [left|right]; left; exact H.
    + apply in_app_or in H. destruct H as [H|H]; [left|right]; right; exists l; split; assumption.
  - intros [[H|[l [H Hl]]]|[H|[l [H Hl]]]].
    + left. apply in_or_app. left. exact H.
    + right. exists l. split; [apply in_or_app; left; exact H|exact Hl].
    + left. apply in_or_app. right. exact H.
    + right. exists l. split; [apply in_or_app; right; exact H|exact Hl].
Qed.
Lemma in_sums : forall z xs ys, In z (sums xs ys) <-> exists x y, In x xs /\ In y ys /\ z = x + y.
Proof.
  intros z xs ys. unfold sums. rewrite in_flat_map. split.
  - intros [x [Hx H]]. apply in_map_iff in H. destruct H as [y [He Hy]].
    exists x, y. split; [exact Hx|]. split; [exact Hy|]. symmetry. exact He.
  - intros [x [y [Hx [Hy He]]]]. exists x. split; [exact Hx|].
    apply in_map_iff. exists y. split; [symmetry; exact He|exact Hy].
Qed.
Lemma cin_sum : forall k a b, cin k (csum a b) <-> exists i j, k = i + j /\ cin i a /\ cin j b.
Proof.
  intros k a b. unfold cin, csum. cbn [fst snd]. split.
  - intros [H|[l [H Hl]]].
    + apply in_sums in H. destruct H as [x [y [Hx [Hy He]]]].
      exists x, y. split; [exact He|]. split; left; assumption.
    + apply in_app_or in H. destruct H as [H|H]; [|apply in_app_or in H; destruct H as [H|H]];
        apply in_sums in H; destruct H as [x [y [Hx [Hy He]]]].
      * exists (k - y), y. split; [lia|]. split; [right; exists x; split; [exact Hx|lia]|left; exact Hy].
      * exists y, (k - y). split; [lia|]. split; [left; exact Hy|right; exists x; split; [exact Hx|lia]].
      * exists x, (k - x). split; [lia|]. split; right; [exists x|exists y]; split; try assumption; lia.
  - intros [i [j [He [[Hi|[li [Hi Hli]]] [Hj|[lj [Hj Hlj]]]]]]].
    + left. apply in_sums. exists i, j. split; [exact Hi|]. split; [exact Hj|exact He].
    + right. exists (lj + i). split; [|lia]. apply in_or_app. right. apply in_or_app. left.
      apply in_sums. exists lj, i. split; [exact Hj|]. split; [exact Hi|reflexivity].
    + right. exists (li + j). split; [|lia]. apply in_or_app. left.
      apply in_sums. exists li, j. split; [exact Hi|]. split; [exact Hj|reflexivity].
    + right. exists (li + lj). split; [|lia]. apply in_or_app. right. apply in_or_app. right.
      apply in_sums. exists li, lj. split; [exact Hi|]. split; [exact Hj|reflexivity].
Qed.

(* sums of finitely many members: only computed when it is {0} or everything *)
Definition cstar (s : cset) : option cset :=
  if forallb (Nat.eqb 0) (fst s) && match snd s with [] => true | _ => false end then Some (cone 0)
  else if cmem 1 s then Some ([], [0])
  else None.
Lemma cstar_spec : forall s s', cstar s = Some s' ->
  forall k, cin k s' <-> exists ks, Forall (fun x => cin x s) ks /\ k = list_sum ks.
Proof.
  intros s s' Hs k. unfold cstar in Hs.
  destruct (forallb (Nat.eqb 0) (fst s) && match snd s with [] => true | _ => false end) eqn:E0.
  - injection Hs as <-. apply andb_true_iff in E0. destruct E0 as [Hf Hsn].
    assert (Hz : forall x, cin x s -> x = 0).
    { intros x [Hx|[l [Hl _]]].
      - rewrite forallb_forall in Hf. apply Hf in Hx. apply Nat.eqb_eq in Hx. symmetry. exact Hx.
      - destruct (snd s); [destruct Hl|discriminate Hsn]. }
    rewrite cin_one. split.
    + intros ->. exists []. split; [constructor|reflexivity].
    + intros [ks [Hks ->]]. induction Hks as [|x ks Hx Hks IH]; [reflexivity|].
      cbn [list_sum fold_right]. rewrite (Hz x Hx). exact IH.
  - destruct (cmem 1 s) eqn:E1; [|discriminate Hs]. injection Hs as <-.
    apply cmem_cin in E1. split.
    + intros _. exists (repeat 1 k). split.
      * apply Forall_forall. intros x Hx. apply repeat_spec in Hx. subst x. exact E1.
      * clear. induction k as [|k IH]; [reflexivity|]. cbn [repeat].
        change (list_sum (1 :: repeat 1 k)) with (1 + list_sum (repeat 1 k)).
        rewrite <- IH. reflexivity.
    + intros _. right. exists 0. split; [left; reflexivity|lia].
Qed.

(* ------------------------------------------------------------------ *)
(* the counting analysis                                               *)
(* ------------------------------------------------------------------ *)
Record res := mkres { rN : cset; rB : cset; rC : cset; rX : cset }.
Definition rget (r : res) (o : outc) : cset :=
  match o with ON => rN r | OB => rB r | OC => rC r | OX => rX r end.
Definition has_outc (o : outc) (l : list (list instr * outc)) : bool :=
  existsb (fun x => outc_eqb o (snd x)) l.
Definition seq_res (ra rb : res) : res :=
  {| rN := csum (rN ra) (rN rb);
     rB := cunion (rB ra) (csum (rN ra) (rB rb));
     rC := cunion (rC ra) (csum (rN ra) (rC rb));
     rX := cunion (rX ra) (csum (rN ra) (rX rb)) |}.

Fixpoint lk_cnt (B : list instr) (p : lk) : option res :=
  match p with
  | LNop => Some (mkres (cone 0) cempty cempty cempty)
  | LOp _ => None
  | LHold m b =>
    match lk_enum b with
    | Some l =>
      if forallb (fun x => list_eqb instr_eqb (Acq RM m :: fst x ++ [Rel RM]) B) l then
        Some (mkres (if has_outc ON l then cone 1 else cempty)
                    (if has_outc OB l then cone 1 else cempty)
                    (if has_outc OC l then cone 1 else cempty)
                    (if has_outc OX l then cone 1 else cempty))
      else None
    | None => None
    end
  | LSeq a b =>
    match lk_cnt B a, lk_cnt B b with
    | Some ra, Some rb => Some (seq_res ra rb)
    | _, _ => None
    end
  | LIf a b =>
    match lk_cnt B a, lk_cnt B b with
    | Some ra, Some rb =>
      Some (mkres (cunion (rN ra) (rN rb)) (cunion (rB ra) (rB rb))
                  (cunion (rC ra) (rC rb)) (cunion (rX ra) (rX rb)))
    | _, _ => None
    end
  | LLoop b =>
    match lk_cnt B b with
    | Some rb =>
      match cstar (cunion (rN rb) (rC rb)) with
      | Some st => Some (mkres (cunion st (csum st (rB rb))) cempty cempty (csum st (rX rb)))
      | None => None
      end
    | None => None
    end
  | LExit => Some (mkres cempty cempty cempty (cone 0))
  | LBreak => Some (mkres cempty (cone 0) cempty cempty)
  | LCont => Some (mkres cempty cempty (cone 0) cempty)
  | LCall b =>
    match lk_cnt B b with
    | Some rb => Some (mkres (cunion (rN rb) (rX rb)) cempty cempty cempty)
    | None => None
    end
  end.

Definition reps (B : list instr) (s : cset) (t : list instr) : Prop :=
  exists k, cin k s /\ t = repeat_prog k B.

Lemma has_outc_spec : forall o l, has_outc o l = true <-> exists t, In (t, o) l.
Proof.
  intros o l. unfold has_outc. rewrite existsb_exists. split.
  - intros [[t o'] [Hin He]]. cbn [snd] in He. apply outc_eqb_eq in He. subst o'. exists t. exact Hin.
  - intros [t Hin]. exists (t, o). split; [exact Hin|]. cbn [snd]. apply outc_eqb_eq. reflexivity.
Qed.

Lemma reps_if_one : forall B (c : bool) t, reps B (if c then cone 1 else cempty) t <-> c = true /\ t = B.
Proof.
  intros B c t. unfold reps. destruct c; split.
  - intros [k [Hk ->]]. apply cin_one in Hk. subst k. split; [reflexivity|apply repeat_prog_1].
  - intros [_ ->]. exists 1. split; [apply cin_one; reflexivity|symmetry; apply repeat_prog_1].
  - intros [k [Hk _]]. exfalso. exact (cin_empty k Hk).
  - intros [H _]. discriminate H.
Qed.

Lemma reps_union : forall B s1 s2 t, reps B (cunion s1 s2) t <-> reps B s1 t \/ reps B s2 t.
Proof.
  intros B s1 s2 t. unfold reps. split.
  - intros [k [Hk Ht]]. apply cin_union in Hk. destruct Hk as [Hk|Hk].
    + left. exists k. split; assumption.
    + right. exists k. split; assumption.
  - intros [[k [Hk Ht]]|[k [Hk Ht]]].
    + exists k. split; [apply cin_union; left; exact Hk|exact Ht].
    + exists k. split; [apply cin_union; right; exact Hk|exact Ht].
Qed.
Lemma reps_sum : forall B s1 s2 t, reps B (csum s1 s2) t <->
  exists t1 t2, t = t1 ++ t2 /\ reps B s1 t1 /\ reps B s2 t2.
Proof.
  intros B s1 s2 t. unfold reps. split.
  - intros [k [Hk ->]]. apply cin_sum in Hk. destruct Hk as [i [j [-> [Hi Hj]]]].
    exists (repeat_prog i B), (repeat_prog j B). split; [apply repeat_prog_add|].
    split; [exists i|exists j]; split; try assumption; reflexivity.
  - intros [t1 [t2 [-> [[i [Hi ->]] [j [Hj ->]]]]]]. exists (i + j). split.
    + apply cin_sum. exists i, j. split; [reflexivity|]. split; assumption.
    + symmetry. apply repeat_prog_add.
Qed.

Lemma loop_build : forall B b s,
  (forall t o, (o = ON \/ o = OC) -> reps B s t -> exists o', (o' = ON \/ o' = OC) /\ lk_run b t o') ->
  forall ks, Forall (fun x => cin x s) ks ->
  forall tl o, lk_run (LLoop b) tl o -> lk_run (LLoop b) (repeat_prog (list_sum ks) B ++ tl) o.
Proof.
  intros B b s Hbody ks Hks. induction Hks as [|x ks Hx Hks IH]; intros tl o Htl.
  - exact Htl.
  - cbn [list_sum fold_right]. change (fold_right Nat.add 0 ks) with (list_sum ks).
    rewrite repeat_prog_add, <- app_assoc.
    destruct (Hbody (repeat_prog x B) ON (or_introl eq_refl)) as [o' [Ho' Hrun]].
    { exists x. split; [exact Hx|reflexivity]. }
    apply (R_loop_iter b _ o' _ o Hrun Ho'). apply IH. exact Htl.
Qed.

Theorem lk_cnt_spec : forall B p r, lk_cnt B p = Some r ->
  forall t o, lk_run p t o <-> reps B (rget r o) t.
Proof.
  intros B. induction p as [ | i | m b IH | a IHa b IHb | a IHa b IHb | b IH | | | | b IH ];
    intros r Hr t o; cbn [lk_cnt] in Hr.
  - (* LNop *) injection Hr as <-. split.
    + intros H. inversion H; subst. exists 0. split; [apply cin_one; reflexivity|reflexivity].
    + intros [k [Hk ->]]. destruct o; cbn [rget rN rB rC rX] in Hk; try (exfalso; exact (cin_empty k Hk)).
      apply cin_one in Hk. subst k. constructor.
  - discriminate Hr.
  - (* LHold *) destruct (lk_enum b) as [l|] eqn:El; [|discriminate Hr].
    destruct (forallb _ l) eqn:Ef; [|discriminate Hr]. injection Hr as <-.
    rewrite forallb_forall in Ef.
    assert (Hrw : reps B (rget (mkres (if has_outc ON l then cone 1 else cempty)
                                      (if has_outc OB l then cone 1 else cempty)
                                      (if has_outc OC l then cone 1 else cempty)
                                      (if has_outc OX l then cone 1 else cempty)) o) t
                  <-> has_outc o l = true /\ t = B).
    { destruct o; cbn [rget rN rB rC rX]; apply reps_if_one. }
    rewrite Hrw. rewrite has_outc_spec. split.
    + intros H. inversion H as [ | | m' b' t' o' Hb | | | | | | | | | | | | ]; subst.
      apply (lk_enum_spec b l El) in Hb. split; [exists t'; exact Hb|].
      apply instrs_eqb_eq. exact (Ef _ Hb).
    + intros [[t' Hin] ->]. rewrite <- (instrs_eqb_eq _ _ (Ef _ Hin)). cbn [fst].
      constructor. apply (lk_enum_spec b l El). exact Hin.
  - (* LSeq *) destruct (lk_cnt B a) as [ra|] eqn:Ea; [|discriminate Hr].
    destruct (lk_cnt B b) as [rb|] eqn:Eb; [|discriminate Hr]. injection Hr as <-.
    assert (Hgen : reps B (rget (seq_res ra rb) o) t <->
                   (o <> ON /\ reps B (rget ra o) t) \/
                   (exists t1 t2, t = t1 ++ t2 /\ reps B (rN ra) t1 /\ reps B (rget rb o) t2)).
    { destruct o; cbn [rget seq_res rN rB rC rX].
      - rewrite reps_sum. split; [intros H; right; exact H|].
        intros [[Hne _]|H]; [exfalso; apply Hne; reflexivity|exact H].
      - rewrite reps_union, reps_sum. split.
        + intros [H|H]; [left; split; [discriminate|exact H]|right; exact H].
        + intros [[_ H]|H]; [left; exact H|right; exact H].
      - rewrite reps_union, reps_sum. split.
        + intros [H|H]; [left; split; [discriminate|exact H]|right; exact H].
        + intros [[_ H]|H]; [left; exact H|right; exact H].
      - rewrite reps_union, reps_sum. split.
        + intros [H|H]; [left; split; [discriminate|exact H]|right; exact H].
        + intros [[_ H]|H]; [left; exact H|right; exact H]. }
    rewrite Hgen. split.
    + intros H. inversion H as [ | | | a' b' t1 t2 o' Ha Hb | a' b' t1 o' Ha Hne | | | | | | | | | | ]; subst.
      * right. exists t1, t2. split; [reflexivity|]. split.
        -- apply (IHa ra eq_refl t1 ON). exact Ha.
        -- apply (IHb rb eq_refl). exact Hb.
      * left. split; [exact Hne|]. apply (IHa ra eq_refl). exact Ha.
    + intros [[Hne H]|[t1 [t2 [-> [H1 H2]]]]].
      * apply R_seq_leave; [|exact Hne]. apply (IHa ra eq_refl). exact H.
      * apply R_seq.
        -- apply (IHa ra eq_refl t1 ON). exact H1.
        -- apply (IHb rb eq_refl). exact H2.
  - (* LIf *) destruct (lk_cnt B a) as [ra|] eqn:Ea; [|discriminate Hr].
    destruct (lk_cnt B b) as [rb|] eqn:Eb; [|discriminate Hr]. injection Hr as <-.
    assert (Hgen : reps B (rget (mkres (cunion (rN ra) (rN rb)) (cunion (rB ra) (rB rb))
                                       (cunion (rC ra) (rC rb)) (cunion (rX ra) (rX rb))) o) t <->
                   reps B (rget ra o) t \/ reps B (rget rb o) t).
    { destruct o; cbn [rget rN rB rC rX]; apply reps_union. }
    rewrite Hgen. split.
    + intros H. inversion H; subst.
      * left. apply (IHa ra eq_refl). assumption.
      * right. apply (IHb rb eq_refl). assumption.
    + intros [H|H].
      * apply R_if_l. apply (IHa ra eq_refl). exact H.
      * apply R_if_r. apply (IHb rb eq_refl). exact H.
  - (* LLoop *) destruct (lk_cnt B b) as [rb|] eqn:Eb; [|discriminate Hr].
    destruct (cstar (cunion (rN rb) (rC rb))) as [st|] eqn:Est; [|discriminate Hr].
    injection Hr as <-.
    pose proof (cstar_spec _ _ Est) as Hst.
    pose proof (IH rb eq_refl) as IHb.
    assert (H0 : cin 0 st).
    { apply Hst. exists []. split; [constructor|reflexivity]. }
    assert (Hcons : forall x k, cin x (cunion (rN rb) (rC rb)) -> cin k st -> cin (x + k) st).
    { intros x k Hx Hk. apply Hst in Hk. destruct Hk as [ks [Hks ->]]. apply Hst.
      exists (x :: ks). split; [constructor; assumption|reflexivity]. }
    split.
    + intros H. remember (LLoop b) as q eqn:Eq.
      induction H as [ | | | | | | | b' | b' t1 o1 t2 o Hb _ Ho Hl IHl
                     | b' t1 Hb _ | b' t1 Hb _ | | | | ]; try discriminate Eq.
      * exists 0. cbn [rget rN]. split; [apply cin_union; left; exact H0|reflexivity].
      * injection Eq as ->. specialize (IHl eq_refl). destruct IHl as [k2 [Hk2 ->]].
        apply IHb in Hb. destruct Hb as [k1 [Hk1 ->]].
        assert (Hk1' : cin k1 (cunion (rN rb) (rC rb))).
        { apply cin_union. destruct Ho as [-> | ->]; [left|right]; exact Hk1. }
        exists (k1 + k2). split; [|symmetry; apply repeat_prog_add].
        destruct o; cbn [rget rN rB rC rX] in Hk2 |- *; try (exfalso; exact (cin_empty _ Hk2)).
        -- apply cin_union in Hk2. apply cin_union. destruct Hk2 as [Hk2|Hk2].
           ++ left. apply Hcons; assumption.
           ++ right. apply cin_sum in Hk2. destruct Hk2 as [i [j [-> [Hi Hj]]]].
              apply cin_sum. exists (k1 + i), j. split; [lia|]. split; [apply Hcons; assumption|exact Hj].
        -- apply cin_sum in Hk2. destruct Hk2 as [i [j [-> [Hi Hj]]]].
           apply cin_sum. exists (k1 + i), j. split; [lia|]. split; [apply Hcons; assumption|exact Hj].
      * injection Eq as ->. apply IHb in Hb. destruct Hb as [k [Hk ->]].
        exists k. split; [|reflexivity]. cbn [rget rN]. apply cin_union. right.
        apply cin_sum. exists 0, k. split; [reflexivity|]. split; assumption.
      * injection Eq as ->. apply IHb in Hb. destruct Hb as [k [Hk ->]].
        exists k. split; [|reflexivity]. cbn [rget rX].
        apply cin_sum. exists 0, k. split; [reflexivity|]. split; assumption.
    + assert (Hbody : forall t' o', (o' = ON \/ o' = OC) -> reps B (cunion (rN rb) (rC rb)) t' ->
                        exists o'', (o'' = ON \/ o'' = OC) /\ lk_run b t' o'').
      { intros t' _ _ [k [Hk ->]]. apply cin_union in Hk. destruct Hk as [Hk|Hk].
        - exists ON. split; [left; reflexivity|]. apply IHb. exists k. split; [exact Hk|reflexivity].
        - exists OC. split; [right; reflexivity|]. apply IHb. exists k. split; [exact Hk|reflexivity]. }
      intros [k [Hk ->]].
      destruct o; cbn [rget rN rB rC rX] in Hk; try (exfalso; exact (cin_empty _ Hk)).
      * apply cin_union in Hk. destruct Hk as [Hk|Hk].
        -- apply Hst in Hk. destruct Hk as [ks [Hks ->]].
           rewrite <- (app_nil_r (repeat_prog (list_sum ks) B)).
           apply (loop_build B b _ Hbody ks Hks). constructor.
        -- apply cin_sum in Hk. destruct Hk as [i [j [-> [Hi Hj]]]].
           apply Hst in Hi. destruct Hi as [ks [Hks ->]]. rewrite repeat_prog_add.
           apply (loop_build B b _ Hbody ks Hks). apply R_loop_break.
           apply IHb. exists j. split; [exact Hj|reflexivity].
      * apply cin_sum in Hk. destruct Hk as [i [j [-> [Hi Hj]]]].
        apply Hst in Hi. destruct Hi as [ks [Hks ->]]. rewrite repeat_prog_add.
        apply (loop_build B b _ Hbody ks Hks). apply R_loop_exit.
        apply IHb. exists j. split; [exact Hj|reflexivity].
  - (* LExit *) injection Hr as <-. split.
    + intros H. inversion H; subst. exists 0. split; [apply cin_one; reflexivity|reflexivity].
    + intros [k [Hk ->]]. destruct o; cbn [rget rN rB rC rX] in Hk; try (exfalso; exact (cin_empty k Hk)).
      apply cin_one in Hk. subst k. constructor.
  - (* LBreak *) injection Hr as <-. split.
    + intros H. inversion H; subst. exists 0. split; [apply cin_one; reflexivity|reflexivity].
    + intros [k [Hk ->]]. destruct o; cbn [rget rN rB rC rX] in Hk; try (exfalso; exact (cin_empty k Hk)).
      apply cin_one in Hk. subst k. constructor.
  - (* LCont *) injection Hr as <-. split.
    + intros H. inversion H; subst. exists 0. split; [apply cin_one; reflexivity|reflexivity].
    + intros [k [Hk ->]]. destruct o; cbn [rget rN rB rC rX] in Hk; try (exfalso; exact (cin_empty k Hk)).
      apply cin_one in Hk. subst k. constructor.
  - (* LCall *) destruct (lk_cnt B b) as [rb|] eqn:Eb; [|discriminate Hr]. injection Hr as <-.
    pose proof (IH rb eq_refl) as IHb. split.
    + intros H. inversion H as [ | | | | | | | | | | | | | | b' t' o' Hb Ho ]; subst.
      apply IHb in Hb. destruct Hb as [k [Hk ->]]. exists k. split; [|reflexivity].
      cbn [rget rN]. apply cin_union. destruct Ho as [-> | ->]; [left|right]; exact Hk.
    + intros [k [Hk ->]]. destruct o; cbn [rget rN rB rC rX] in Hk; try (exfalso; exact (cin_empty k Hk)).
      apply cin_union in Hk. destruct Hk as [Hk|Hk].
      * apply (R_call b _ ON); [|left; reflexivity]. apply IHb. exists k. split; [exact Hk|reflexivity].
      * apply (R_call b _ OX); [|right; reflexivity]. apply IHb. exists k. split; [exact Hk|reflexivity].
Qed.

(* ------------------------------------------------------------------ *)
(* a count set is an interval                                          *)
(* ------------------------------------------------------------------ *)
Definition in_range (lo : nat) (hi : option nat) (k : nat) : bool :=
  (lo <=? k) && match hi with Some h => k <=? h | None => true end.
Definition cbound (s : cset) : nat := list_max (fst s ++ snd s).
Definition range_check (s : cset) (lo : nat) (hi : option nat) : bool :=
  let n := S (S (Nat.max (Nat.max lo (cbound s)) (match hi with Some h => h | None => 0 end))) in
  forallb (fun k => Bool.eqb (cmem k s) (in_range lo hi k)) (seq 0 n) &&
  match hi with
  | None => match snd s with [] => false | _ => true end
  | Some _ => match snd s with [] => true | _ => false end
  end.

Lemma cbound_ge : forall s x, In x (fst s ++ snd s) -> x <= cbound s.
Proof.
  intros s x Hin. unfold cbound.
  assert (H : Forall (fun k => k <= list_max (fst s ++ snd s)) (fst s ++ snd s)).
  { apply list_max_le. apply Nat.le_refl. }
  rewrite Forall_forall in H. apply H. exact Hin.
Qed.

Lemma range_check_spec : forall s lo hi, range_check s lo hi = true ->
  forall k, cmem k s = in_range lo hi k.
Proof.
  intros s lo hi H k. unfold range_check in H. apply andb_true_iff in H. destruct H as [Hall Hshape].
  set (n := S (S (Nat.max (Nat.max lo (cbound s)) (match hi with Some h => h | None => 0 end)))) in Hall.
  destruct (Nat.lt_ge_cases k n) as [Hlt|Hge].
  - rewrite forallb_forall in Hall. specialize (Hall k).
    assert (Hin : In k (seq 0 n)). { apply in_seq. lia. }
    apply Hall in Hin. apply eqb_prop in Hin. exact Hin.
  - assert (Hk1 : lo < k) by (unfold n in Hge; lia).
    assert (Hk2 : cbound s < k) by (unfold n in Hge; lia).
    assert (Hfin : existsb (Nat.eqb k) (fst s) = false).
    { apply not_true_is_false. intros He. apply existsb_exists in He. destruct He as [x [Hx He]].
      apply Nat.eqb_eq in He. subst x.
      assert (k <= cbound s) by (apply cbound_ge; apply in_or_app; left; exact Hx). lia. }
    unfold cmem, in_range. rewrite Hfin. cbn [orb].
    replace (lo <=? k) with true by (symmetry; apply Nat.leb_le; lia). cbn [andb].
    destruct hi as [h|].
    + destruct (snd s) as [|l ls] eqn:Es; [|discriminate Hshape]. cbn [existsb].
      symmetry. apply Nat.leb_gt. unfold n in Hge. lia.
    + destruct (snd s) as [|l ls] eqn:Es; [discriminate Hshape|]. cbn [existsb].
      assert (l <= cbound s).
      { apply cbound_ge. apply in_or_app. right. rewrite Es. left. reflexivity. }
      replace (l <=? k) with true by (symmetry; apply Nat.leb_le; lia). reflexivity.
Qed.

(* the statement used for every generated function *)
Theorem lk_exact : forall B p r lo hi,
  lk_cnt B (LCall p) = Some r -> range_check (rN r) lo hi = true ->
  forall t, lk_fn p t <-> exists k, in_range lo hi k = true /\ t = repeat_prog k B.
Proof.
  intros B p r lo hi Hr Hc t. unfold lk_fn.
  rewrite (lk_cnt_spec B (LCall p) r Hr t ON). cbn [rget]. unfold reps. split.
  - intros [k [Hk ->]]. exists k. split; [|reflexivity].
    rewrite <- (range_check_spec _ _ _ Hc). apply cmem_cin. exact Hk.
  - intros [k [Hk ->]]. exists k. split; [|reflexivity].
    apply cmem_cin. rewrite (range_check_spec _ _ _ Hc). exact Hk.
Qed.

(* packaged as one boolean check *)
Definition lk_exact_check (B : list instr) (p : lk) (lo : nat) (hi : option nat) : bool :=
  match lk_cnt B (LCall p) with
  | Some r => range_check (rN r) lo hi
  | None => false
  end.
Corollary lk_exact_by_check : forall B p lo hi, lk_exact_check B p lo hi = true ->
  forall t, lk_fn p t <-> exists k, in_range lo hi k = true /\ t = repeat_prog k B.
Proof.
  intros B p lo hi H. unfold lk_exact_check in H.
  destruct (lk_cnt B (LCall p)) as [r|] eqn:Er; [|discriminate H].
  exact (lk_exact B p r lo hi Er H).
Qed.

(* ------------------------------------------------------------------ *)
(* the role-manager part of the thread programs of Model/Locks.v        *)
(* ------------------------------------------------------------------ *)
(* The OUTER lock is the application's Arc<RwLock<Enforcer>>: it is not in the
   crate (enforce takes &self, management takes &mut self), so a program of
   Model/Locks.v = what the application wraps around what the crate issues. *)
Definition is_rm (i : instr) : bool :=
  match i with Acq RM _ | Rel RM | Read | Write => true | _ => false end.
Definition rm_part (p : list instr) : list instr := filter is_rm p.

Definition RBk : list instr := [Acq RM MR; Read; Rel RM].
Definition WBk : list instr := [Acq RM MW; Write; Rel RM].
Definition with_outer_read (p : list instr) : list instr := Acq OUTER MR :: p ++ [Rel OUTER].
Definition with_outer_write (p : list instr) : list instr := Acq OUTER MW :: Begin :: p ++ [End; Rel OUTER].

Lemma rm_part_app : forall a b, rm_part (a ++ b) = rm_part a ++ rm_part b.
Proof. intros a b. unfold rm_part. apply filter_app. Qed.
Lemma rm_part_repeat : forall k B, forallb is_rm B = true -> rm_part (repeat_prog k B) = repeat_prog k B.
Proof.
  intros k B HB. induction k as [|k IH]; [reflexivity|].
  cbn [repeat_prog]. rewrite rm_part_app, IH. f_equal.
  unfold rm_part. clear IH. induction B as [|x B IHB]; [reflexivity|].
  cbn [forallb] in HB. apply andb_true_iff in HB. destruct HB as [Hx HB].
  cbn [filter]. rewrite Hx. f_equal. apply IHB. exact HB.
Qed.

Lemma enforce_prog_wrap : forall k, enforce_prog k = with_outer_read (repeat_prog k RBk).
Proof. reflexivity. Qed.
Lemma mgmt_prog_wrap : forall k, mgmt_prog k = with_outer_write (repeat_prog k WBk).
Proof. reflexivity. Qed.
Lemma handle_prog_wrap : forall k, handle_read_prog k = repeat_prog k RBk.
Proof. reflexivity. Qed.

Lemma rm_part_enforce : forall k, rm_part (enforce_prog k) = repeat_prog k RBk.
Proof.
  intros k. rewrite enforce_prog_wrap. unfold with_outer_read.
  change (Acq OUTER MR :: repeat_prog k RBk ++ [Rel OUTER]) with ([Acq OUTER MR] ++ repeat_prog k RBk ++ [Rel OUTER]).
  rewrite !rm_part_app, rm_part_repeat by reflexivity. cbn. apply app_nil_r.
Qed.
Lemma rm_part_mgmt : forall k, rm_part (mgmt_prog k) = repeat_prog k WBk.
Proof.
  intros k. rewrite mgmt_prog_wrap. unfold with_outer_write.
  change (Acq OUTER MW :: Begin :: repeat_prog k WBk ++ [End; Rel OUTER])
    with ([Acq OUTER MW; Begin] ++ repeat_prog k WBk ++ [End; Rel OUTER]).
  rewrite !rm_part_app, rm_part_repeat by reflexivity. cbn. apply app_nil_r.
Qed.
Lemma rm_part_handle : forall k, rm_part (handle_read_prog k) = handle_read_prog k.
Proof. intros k. unfold handle_read_prog. apply rm_part_repeat. reflexivity. Qed.

(* the block is determined by the program: two different blocks never give the
   same non-empty program *)
Lemma repeat_prog_nil_block : forall k, repeat_prog k (@nil instr) = [].
Proof. induction k as [|k IH]; [reflexivity|]. cbn [repeat_prog app]. exact IH. Qed.

(* the three shapes of bounds that occur, spelled out *)
Lemma exact_unbounded : forall B p, lk_exact_check B p 0 None = true ->
  forall t, lk_fn p t <-> exists k, t = repeat_prog k B.
Proof.
  intros B p H t. rewrite (lk_exact_by_check B p 0 None H t). split.
  - intros [k [_ Ht]]. exists k. exact Ht.
  - intros [k Ht]. exists k. split; [reflexivity|exact Ht].
Qed.
Lemma exact_from : forall B p lo, lk_exact_check B p lo None = true ->
  forall t, lk_fn p t <-> exists k, lo <= k /\ t = repeat_prog k B.
Proof.
  intros B p lo H t. rewrite (lk_exact_by_check B p lo None H t). unfold in_range. split.
  - intros [k [Hk Ht]]. exists k. split; [|exact Ht].
    apply andb_true_iff in Hk. destruct Hk as [Hk _]. apply Nat.leb_le. exact Hk.
  - intros [k [Hk Ht]]. exists k. split; [|exact Ht].
    apply andb_true_iff. split; [apply Nat.leb_le; exact Hk|reflexivity].
Qed.
Lemma exact_upto : forall B p hi, lk_exact_check B p 0 (Some hi) = true ->
  forall t, lk_fn p t <-> exists k, k <= hi /\ t = repeat_prog k B.
Proof.
  intros B p hi H t. rewrite (lk_exact_by_check B p 0 (Some hi) H t). unfold in_range. split.
  - intros [k [Hk Ht]]. exists k. split; [|exact Ht].
    cbn [Nat.leb andb] in Hk. apply Nat.leb_le. exact Hk.
  - intros [k [Hk Ht]]. exists k. split; [|exact Ht].
    cbn [Nat.leb andb]. apply Nat.leb_le. exact Hk.
Qed.
Lemma exact_once : forall B p, lk_exact_check B p 1 (Some 1) = true ->
  forall t, lk_fn p t <-> t = B.
Proof.
  intros B p H t. rewrite (lk_exact_by_check B p 1 (Some 1) H t). unfold in_range. split.
  - intros [k [Hk ->]]. apply andb_true_iff in Hk. destruct Hk as [H1 H2].
    apply Nat.leb_le in H1. apply Nat.leb_le in H2.
    replace k with 1 by lia. apply repeat_prog_1.
  - intros ->. exists 1. split; [reflexivity|symmetry; apply repeat_prog_1].
Qed.

(* one row of the generated table *)
Definition row_ok (r : text * lk * list instr * nat * option nat) : bool :=
  match r with (_, p, B, lo, hi) => lk_exact_check B p lo hi && lk_flat false p end.
Lemma rows_ok_spec : forall tbl, forallb row_ok tbl = true ->
  forall name p B lo hi, In (name, p, B, lo, hi) tbl ->
    (forall t, lk_fn p t <-> exists k, in_range lo hi k = true /\ t = repeat_prog k B) /\
    (forall t, lk_fn p t -> flat_locks t = true).
Proof.
  intros tbl H name p B lo hi Hin. rewrite forallb_forall in H. specialize (H _ Hin).
  cbn [row_ok] in H. apply andb_true_iff in H. destruct H as [H1 H2]. split.
  - apply lk_exact_by_check. exact H1.
  - intros t Ht. apply (lk_flat_fn p t H2 Ht).
Qed.
