(* C18 — a reconfigured enforcer equals a freshly built one. *)
From CV Require Import Model.Base Model.Effector Model.RoleGraph Model.PathMatch Model.Expr
     Model.Enforce Model.Engine Model.SpecC18.
From CV Require Import Proofs.BaseP Proofs.RoleGraphP Proofs.ExprP Proofs.ExModels.
From Coq Require Import Lia Permutation.

(* ================= A. association lists ================= *)

Lemma assoc_set_id : forall {A} k (v : A) l, assoc k l = Some v -> assoc_set k v l = l.
Proof.
  intros A k v l. induction l as [|[k' v'] l IH]; cbn [assoc assoc_set]; [discriminate|].
  destruct (teqb k k'); intros H.
  - inversion H; subst. reflexivity.
  - rewrite (IH H). reflexivity.
Qed.

Lemma assoc_set_twice : forall {A} k (v v' : A) l,
  assoc_set k v (assoc_set k v' l) = assoc_set k v l.
Proof.
  intros A k v v' l. induction l as [|[k2 v2] l IH]; cbn [assoc_set].
  - rewrite teqb_refl. reflexivity.
  - destruct (teqb k k2) eqn:E; cbn [assoc_set]; rewrite E; [reflexivity|].
    rewrite IH. reflexivity.
Qed.

Lemma assoc_set_lookup : forall {A} k k' (v : A) l,
  assoc k' (assoc_set k v l) = if teqb k' k then Some v else assoc k' l.
Proof.
  intros A k k' v l. destruct (teqb k' k) eqn:E.
  - apply teqb_eq in E. subst. apply assoc_set_same.
  - apply teqb_neq in E. apply assoc_set_other. auto.
Qed.

Lemma gkey_eqb_eq : forall a b, gkey_eqb a b = true <-> a = b.
Proof.
  intros [a n] [b m]. unfold gkey_eqb. cbn [fst snd].
  rewrite andb_true_iff, teqb_eq, Nat.eqb_eq. split.
  - intros [-> ->]. reflexivity.
  - intros H. inversion H. auto.
Qed.

Lemma memb_gkey_In : forall k ks, memb gkey_eqb k ks = true <-> In k ks.
Proof. apply memb_In_gen. exact gkey_eqb_eq. Qed.

(* ================= B. what the queries read ================= *)

(* the model store is read through section lookups only *)
Definition model_same (m1 m2 : model) : Prop := forall sec, assoc sec m1 = assoc sec m2.

(* same manager, limit, user functions; the same role function (or none)
   under every name and arity *)
Definition fs_equiv (f1 f2 : fstate) : Prop :=
  f_rm f1 = f_rm f2 /\ f_rm_max f1 = f_rm_max f2 /\ f_ufuns f1 = f_ufuns f2 /\
  forall k, find_gfun k (f_gfuns f1) = find_gfun k (f_gfuns f2).

Definition st_equiv (s1 s2 : estate) : Prop :=
  model_same (e_model s1) (e_model s2) /\ e_mexprs s1 = e_mexprs s2 /\
  e_enabled s1 = e_enabled s2 /\
  ad_is_filtered (e_adapter s1) = ad_is_filtered (e_adapter s2) /\
  fs_equiv (e_fs s1) (e_fs s2).

Lemma model_same_refl : forall m, model_same m m.
Proof. intros m sec. reflexivity. Qed.

Lemma fs_equiv_refl : forall f, fs_equiv f f.
Proof. intros f. unfold fs_equiv. auto. Qed.

Lemma get_ast_same : forall m1 m2 sec key, model_same m1 m2 -> get_ast m1 sec key = get_ast m2 sec key.
Proof. intros m1 m2 sec key H. unfold get_ast. rewrite (H sec). reflexivity. Qed.

Lemma handle_has_link_equiv : forall f1 f2 h a b d, fs_equiv f1 f2 ->
  handle_has_link f1 h a b d = handle_has_link f2 h a b d.
Proof.
  intros f1 f2 h a b d (Hr & Hm & _ & _). destruct h; cbn [handle_has_link]; [reflexivity| |reflexivity].
  rewrite Hr, Hm. reflexivity.
Qed.

Lemma call_fn_equiv : forall f1 f2 f args, fs_equiv f1 f2 -> call_fn f1 f args = call_fn f2 f args.
Proof.
  intros f1 f2 f args He. pose proof He as (Hr & Hm & Hu & Hg). unfold call_fn.
  destruct (all_strs args) as [ss|]; [|reflexivity]. rewrite Hu.
  destruct (match assoc f (f_ufuns f2) with Some u => run_ufun u ss | None => None end);
    [reflexivity|].
  rewrite Hg. destruct (find_gfun (f, length ss) (f_gfuns f2)) as [h|]; [|reflexivity].
  destruct ss as [|a [|b [|d [|x ss]]]]; try reflexivity;
    rewrite (handle_has_link_equiv f1 f2 h _ _ _ He); reflexivity.
Qed.

Lemma eval_matcher_equiv : forall ptab f1 f2 m sc, fs_equiv f1 f2 ->
  eval_matcher ptab f1 m sc = eval_matcher ptab f2 m sc.
Proof.
  intros ptab f1 f2 m sc He. unfold eval_matcher.
  rewrite (eval_ext (call_fn f1) (call_fn f2) ptab sc sc); [reflexivity| |reflexivity].
  intros f args. apply call_fn_equiv, He.
Qed.

Lemma rules_loop_equiv : forall ptab f1 f2 m et ptoks sc0 rules st, fs_equiv f1 f2 ->
  rules_loop ptab f1 m et ptoks sc0 st rules = rules_loop ptab f2 m et ptoks sc0 st rules.
Proof.
  intros ptab f1 f2 m et ptoks sc0 rules st He. revert st.
  induction rules as [|pv rest IH]; intros st; cbn [rules_loop]; [reflexivity|].
  destruct (negb (Nat.eqb (length ptoks) (length pv))); [reflexivity|].
  rewrite (eval_matcher_equiv ptab f1 f2 _ _ He).
  destruct (eval_matcher ptab f2 m _) as [b|e|]; try reflexivity.
  destruct (done (push st _)); [reflexivity|apply IH].
Qed.

Lemma enforce_core_equiv : forall ptab en md1 md2 mx f1 f2 rk pk ek mk et rv,
  model_same md1 md2 -> fs_equiv f1 f2 ->
  enforce_core ptab en md1 mx f1 rk pk ek mk et rv =
  enforce_core ptab en md2 mx f2 rk pk ek mk et rv.
Proof.
  intros ptab en md1 md2 mx f1 f2 rk pk ek mk et rv Hm Hf. unfold enforce_core.
  destruct (negb en); [reflexivity|].
  rewrite !(get_ast_same md1 md2 _ _ Hm).
  destruct (get_ast md2 s_r rk) as [r_ast|]; [|reflexivity].
  destruct (get_ast md2 s_p pk) as [p_ast|]; [|reflexivity].
  destruct (get_ast md2 s_m mk) as [m_ast|]; [|reflexivity].
  destruct (get_ast md2 s_e ek) as [e_ast|]; [|reflexivity].
  destruct (negb (Nat.eqb (length (a_tokens r_ast)) (length rv))); [reflexivity|].
  cbv zeta. destruct (new_stream _ _) as [st|]; [|reflexivity].
  destruct (assoc mk mx) as [m|]; [|reflexivity].
  destruct (a_policy p_ast) as [|r0 rules].
  - rewrite (eval_matcher_equiv ptab f1 f2 _ _ Hf). reflexivity.
  - apply rules_loop_equiv, Hf.
Qed.

Lemma enforce_equiv : forall ptab s1 s2 rv, st_equiv s1 s2 -> enforce ptab s1 rv = enforce ptab s2 rv.
Proof.
  intros ptab s1 s2 rv (Hm & Hx & He & _ & Hf). unfold enforce, enforce_plain.
  rewrite Hx, He. apply enforce_core_equiv; assumption.
Qed.

Lemma enforce_ctx_equiv : forall ptab s1 s2 k rv, st_equiv s1 s2 ->
  enforce_with_ctx ptab s1 k rv = enforce_with_ctx ptab s2 k rv.
Proof.
  intros ptab s1 s2 k rv (Hm & Hx & He & _ & Hf). unfold enforce_with_ctx, enforce_ctx.
  rewrite Hx, He. apply enforce_core_equiv; assumption.
Qed.

Lemma m_get_policy_same : forall m1 m2 sec pt, model_same m1 m2 ->
  m_get_policy m1 sec pt = m_get_policy m2 sec pt.
Proof. intros m1 m2 sec pt H. unfold m_get_policy. rewrite (get_ast_same m1 m2 _ _ H). reflexivity. Qed.

Lemma roles_for_user_equiv : forall s1 s2 n d, st_equiv s1 s2 ->
  roles_for_user s1 n d = roles_for_user s2 n d.
Proof.
  intros s1 s2 n d (Hm & _ & _ & _ & Hr & _). unfold roles_for_user.
  rewrite (get_ast_same _ _ _ _ Hm). destruct (get_ast (e_model s2) s_g s_g) as [a|]; [|reflexivity].
  destruct (a_handle a); cbn [handle_get_roles]; [reflexivity| |reflexivity]. rewrite Hr. reflexivity.
Qed.

Lemma users_for_role_equiv : forall s1 s2 n d, st_equiv s1 s2 ->
  users_for_role s1 n d = users_for_role s2 n d.
Proof.
  intros s1 s2 n d (Hm & _ & _ & _ & Hr & _). unfold users_for_role.
  rewrite (get_ast_same _ _ _ _ Hm). destruct (get_ast (e_model s2) s_g s_g) as [a|]; [|reflexivity].
  destruct (a_handle a); cbn [handle_get_users]; [reflexivity| |reflexivity]. rewrite Hr. reflexivity.
Qed.

Lemma implicit_roles_equiv : forall s1 s2 n d, st_equiv s1 s2 ->
  implicit_roles s1 n d = implicit_roles s2 n d.
Proof. intros s1 s2 n d (_ & _ & _ & _ & Hr & _). unfold implicit_roles. rewrite Hr. reflexivity. Qed.

Lemma perms_for_user_equiv : forall s1 s2 n d, st_equiv s1 s2 ->
  perms_for_user s1 n d = perms_for_user s2 n d.
Proof.
  intros s1 s2 n d (Hm & _). unfold perms_for_user, m_get_filtered.
  rewrite (m_get_policy_same _ _ _ _ Hm). reflexivity.
Qed.

(* every query is answered identically by equivalent states *)
Theorem ask_equiv : forall ptab s1 s2 q, st_equiv s1 s2 -> ask ptab s1 q = ask ptab s2 q.
Proof.
  intros ptab s1 s2 q He. pose proof He as (Hm & Hx & Hen & Had & Hf).
  destruct q; cbn [ask].
  - rewrite (enforce_equiv ptab s1 s2 rv He). reflexivity.
  - rewrite (enforce_ctx_equiv ptab s1 s2 k rv He). reflexivity.
  - rewrite (m_get_policy_same _ _ _ _ Hm). reflexivity.
  - unfold m_get_all. rewrite (Hm sec). reflexivity.
  - unfold m_has_policy. rewrite (m_get_policy_same _ _ _ _ Hm). reflexivity.
  - unfold m_get_filtered. rewrite (m_get_policy_same _ _ _ _ Hm). reflexivity.
  - unfold m_values. rewrite (m_get_policy_same _ _ _ _ Hm). reflexivity.
  - rewrite (roles_for_user_equiv s1 s2 n d He). reflexivity.
  - rewrite (users_for_role_equiv s1 s2 n d He). reflexivity.
  - rewrite (roles_for_user_equiv s1 s2 n d He). reflexivity.
  - rewrite (implicit_roles_equiv s1 s2 n d He). reflexivity.
  - rewrite (perms_for_user_equiv s1 s2 n d He). reflexivity.
  - unfold implicit_perms. rewrite (implicit_roles_equiv s1 s2 n d He).
    rewrite (map_ext _ _ (fun r => perms_for_user_equiv s1 s2 r d He)). reflexivity.
  - unfold implicit_users, m_values. rewrite !(m_get_policy_same _ _ _ _ Hm).
    destruct Hf as (Hr & _). rewrite Hr.
    destruct (column 0 (m_get_policy (e_model s2) s_p s_p)) as [c0|]; [|reflexivity].
    destruct (column 1 (m_get_policy (e_model s2) s_g s_g)) as [c1|]; [|reflexivity].
    rewrite (existsb_ext_pt
               (fun u => match enforce ptab s1 (map VStr (u :: perm)) with Panic => true | _ => false end)
               (fun u => match enforce ptab s2 (map VStr (u :: perm)) with Panic => true | _ => false end))
      by (intros u; cbv beta; rewrite (enforce_equiv ptab s1 s2 _ He); reflexivity).
    rewrite (filter_ext
               (fun u => match enforce ptab s1 (map VStr (u :: perm)) with Ok true => true | _ => false end)
               (fun u => match enforce ptab s2 (map VStr (u :: perm)) with Ok true => true | _ => false end))
      by (intros u; cbv beta; rewrite (enforce_equiv ptab s1 s2 _ He); reflexivity).
    reflexivity.
  - rewrite Had. reflexivity.
  - destruct Hf as (Hr & Hmx & _). rewrite Hr, Hmx. reflexivity.
Qed.

(* ---- observational equality ---- *)
(* listings the code returns as sets / bags are compared as such *)
Definition answer_equiv (a b : answer) : Prop :=
  match a, b with
  | AnsNameSet x, AnsNameSet y => forall e, In e x <-> In e y
  | AnsRuleBag x, AnsRuleBag y => Permutation x y
  | _, _ => a = b
  end.

Definition obs_eq (ptab : text -> option expr) (s1 s2 : estate) : Prop :=
  forall q, answer_equiv (ask ptab s1 q) (ask ptab s2 q).

Lemma answer_equiv_refl : forall a, answer_equiv a a.
Proof. intros []; cbn [answer_equiv]; try reflexivity; try (intros e; reflexivity). Qed.

Theorem st_equiv_obs_eq : forall ptab s1 s2, st_equiv s1 s2 -> obs_eq ptab s1 s2.
Proof. intros ptab s1 s2 He q. rewrite (ask_equiv ptab s1 s2 q He). apply answer_equiv_refl. Qed.

Lemma outcome_beqb_refl : forall a, outcome_beqb a a = true.
Proof. intros [[|]|[]|]; reflexivity. Qed.

Lemma list_eqb_refl' : forall {A} (eqb : A -> A -> bool), (forall x, eqb x x = true) ->
  forall l, list_eqb eqb l l = true.
Proof.
  intros A eqb H. induction l as [|x l IH]; cbn [list_eqb]; [reflexivity|].
  rewrite H, IH. reflexivity.
Qed.

Lemma answer_eqb_refl : forall a, answer_eqb a a = true.
Proof.
  intros [o|l|l|l|l|b|]; cbn [answer_eqb].
  - apply outcome_beqb_refl.
  - apply list_eqb_refl', reqb_refl.
  - unfold bageqb. rewrite Nat.eqb_refl. cbn [andb]. apply forallb_forall.
    intros r _. apply Nat.eqb_refl.
  - apply list_eqb_refl', teqb_refl.
  - unfold seteqb. assert (H : subsetb teqb l l = true).
    { unfold subsetb. apply forallb_forall. intros e He. apply memb_In, He. }
    rewrite H. reflexivity.
  - apply Bool.eqb_reflx.
  - reflexivity.
Qed.

Theorem st_equiv_pred : forall ptab s1 s2 q, st_equiv s1 s2 ->
  c18_pred (ask ptab s1 q) (ask ptab s2 q) = true.
Proof. intros ptab s1 s2 q He. rewrite (ask_equiv ptab s1 s2 q He). apply answer_eqb_refl. Qed.

(* ================= C. load and build as functions of (adapter, model) ================= *)

Definition build_of (md : model) : model * rmgr * lerr :=
  match assoc s_g md with
  | None => (md, [], LOk)
  | Some am => match build_links_am am [] with
               | (am', m', e) => (assoc_set s_g am' md, m', e)
               end
  end.

(* the fields of a state that the theorems talk about *)
Record core := {
  k_model : model; k_mexprs : list (text * expr); k_adapter : adapter;
  k_rm : rmgr; k_rm_max : nat; k_gfuns : list ((text * nat) * handle); k_ufuns : list (text * ufun);
  k_enabled : bool; k_auto_save : bool; k_auto_build : bool; k_auto_notify : bool; k_watcher : bool }.

Definition core_of (s : estate) : core :=
  {| k_model := e_model s; k_mexprs := e_mexprs s; k_adapter := e_adapter s;
     k_rm := f_rm (e_fs s); k_rm_max := f_rm_max (e_fs s); k_gfuns := f_gfuns (e_fs s);
     k_ufuns := f_ufuns (e_fs s);
     k_enabled := e_enabled s; k_auto_save := e_auto_save s; k_auto_build := e_auto_build s;
     k_auto_notify := e_auto_notify s; k_watcher := e_watcher s |}.

Lemma build_role_links_core : forall s s' e, build_role_links s = (s', e) ->
  let '(md', m', e') := build_of (e_model s) in
  e = e' /\
  core_of s' = {| k_model := md'; k_mexprs := e_mexprs s; k_adapter := e_adapter s;
                  k_rm := m'; k_rm_max := f_rm_max (e_fs s); k_gfuns := f_gfuns (e_fs s);
                  k_ufuns := f_ufuns (e_fs s);
                  k_enabled := e_enabled s; k_auto_save := e_auto_save s;
                  k_auto_build := e_auto_build s; k_auto_notify := e_auto_notify s;
                  k_watcher := e_watcher s |}.
Proof.
  intros s s' e. unfold build_role_links, build_of.
  destruct (assoc s_g (e_model s)) as [am|].
  - destruct (build_links_am am []) as [[am' m'] e']. intros H; inversion H; subst.
    split; reflexivity.
  - intros H; inversion H; subst. split; reflexivity.
Qed.

(* a successful load_policy with auto-build on *)
Lemma step_load_ok : forall s s' b, e_auto_build s = true -> step_load s = (s', Ok b) ->
  exists ad md md' m',
    ad_load (e_adapter s) (m_clear_policy (e_model s)) = (ad, md, LROk) /\
    build_of md = (md', m', LOk) /\
    core_of s' = {| k_model := md'; k_mexprs := e_mexprs s; k_adapter := ad;
                    k_rm := m'; k_rm_max := f_rm_max (e_fs s); k_gfuns := f_gfuns (e_fs s);
                    k_ufuns := f_ufuns (e_fs s);
                    k_enabled := e_enabled s; k_auto_save := e_auto_save s;
                    k_auto_build := true; k_auto_notify := e_auto_notify s;
                    k_watcher := e_watcher s |}.
Proof.
  intros s s' b Hab. unfold step_load.
  destruct (ad_load (e_adapter s) (m_clear_policy (e_model s))) as [[ad md] r].
  destruct r as [|e|]; cbn [finish_load]; try (intros H; inversion H; fail).
  cbn [e_auto_build upd_model upd_adapter]. rewrite Hab.
  destruct (build_role_links (upd_model (upd_adapter s ad) md)) as [s2 e] eqn:Hb.
  intros H. inversion H; subst s2. clear H.
  apply build_role_links_core in Hb. cbn [e_model upd_model] in Hb.
  destruct (build_of md) as [[md' m'] e'] eqn:Hbo. destruct Hb as [-> Hc].
  destruct e' as [|c]; [|discriminate].
  exists ad, md, md', m'. split; [reflexivity|]. split; [exact Hbo|].
  rewrite Hc. cbn. rewrite Hab. reflexivity.
Qed.

(* conversely *)
Lemma step_load_run : forall s ad md md' m', e_auto_build s = true ->
  ad_load (e_adapter s) (m_clear_policy (e_model s)) = (ad, md, LROk) ->
  build_of md = (md', m', LOk) ->
  exists s', step_load s = (s', Ok true) /\
    core_of s' = {| k_model := md'; k_mexprs := e_mexprs s; k_adapter := ad;
                    k_rm := m'; k_rm_max := f_rm_max (e_fs s); k_gfuns := f_gfuns (e_fs s);
                    k_ufuns := f_ufuns (e_fs s);
                    k_enabled := e_enabled s; k_auto_save := e_auto_save s;
                    k_auto_build := true; k_auto_notify := e_auto_notify s;
                    k_watcher := e_watcher s |}.
Proof.
  intros s ad md md' m' Hab Hl Hb. unfold step_load. rewrite Hl. cbn [finish_load].
  cbn [e_auto_build upd_model upd_adapter]. rewrite Hab.
  destruct (build_role_links (upd_model (upd_adapter s ad) md)) as [s2 e] eqn:Hbr.
  apply build_role_links_core in Hbr. cbn [e_model upd_model] in Hbr. rewrite Hb in Hbr.
  destruct Hbr as [-> Hc]. exists s2. split; [reflexivity|].
  rewrite Hc. cbn. rewrite Hab. reflexivity.
Qed.

(* ================= D. registration of the role functions ================= *)

Fixpoint reg_keys (ks : list (text * nat)) (gf : list ((text * nat) * handle))
  : list ((text * nat) * handle) * lerr :=
  match ks with
  | [] => (gf, LOk)
  | (k, c) :: ks' =>
    if Nat.eqb c 2 then reg_keys ks' (((k, 2), HCur) :: gf)
    else if Nat.eqb c 3 then reg_keys ks' (((k, 3), HCur) :: gf)
    else (gf, LErr EModel)
  end.

Lemma register_g_keys : forall am gf, register_g am gf = reg_keys (gkeys am) gf.
Proof.
  induction am as [|[k a] am IH]; intros gf; cbn [register_g gkeys map reg_keys fst snd]; [reflexivity|].
  destruct (Nat.eqb (count_us (a_value a)) 2); [apply IH|].
  destruct (Nat.eqb (count_us (a_value a)) 3); [apply IH|reflexivity].
Qed.

Definition reg_of (md : model) (gf : list ((text * nat) * handle)) := reg_keys (model_gkeys md) gf.

Definition with_gfuns (c : core) (gf : list ((text * nat) * handle)) : core :=
  {| k_model := k_model c; k_mexprs := k_mexprs c; k_adapter := k_adapter c;
     k_rm := k_rm c; k_rm_max := k_rm_max c; k_gfuns := gf; k_ufuns := k_ufuns c;
     k_enabled := k_enabled c; k_auto_save := k_auto_save c; k_auto_build := k_auto_build c;
     k_auto_notify := k_auto_notify c; k_watcher := k_watcher c |}.

Lemma register_g_functions_core : forall s s' e, register_g_functions s = (s', e) ->
  e = snd (reg_of (e_model s) (f_gfuns (e_fs s))) /\
  core_of s' = with_gfuns (core_of s) (fst (reg_of (e_model s) (f_gfuns (e_fs s)))).
Proof.
  intros s s' e. unfold register_g_functions, reg_of, model_gkeys.
  destruct (assoc s_g (e_model s)) as [am|].
  - rewrite register_g_keys. destruct (reg_keys (gkeys am) (f_gfuns (e_fs s))) as [gf e'].
    intros H; inversion H; subst. split; reflexivity.
  - intros H; inversion H; subst. split; reflexivity.
Qed.

Lemma find_reg_keys : forall ks gf gf', reg_keys ks gf = (gf', LOk) ->
  forall k, find_gfun k gf' = if memb gkey_eqb k ks then Some HCur else find_gfun k gf.
Proof.
  induction ks as [|[k0 c0] ks IH]; intros gf gf'; cbn [reg_keys].
  - intros H k. inversion H; subst. reflexivity.
  - destruct (Nat.eqb c0 2) eqn:E2; [|destruct (Nat.eqb c0 3) eqn:E3; [|discriminate]].
    + apply Nat.eqb_eq in E2. subst c0. intros H k. rewrite (IH _ _ H k).
      unfold memb. cbn [existsb find_gfun]. fold (memb gkey_eqb k ks).
      destruct (memb gkey_eqb k ks); [rewrite orb_true_r; reflexivity|].
      rewrite orb_false_r. destruct (gkey_eqb k (k0, 2)); reflexivity.
    + apply Nat.eqb_eq in E3. subst c0. intros H k. rewrite (IH _ _ H k).
      unfold memb. cbn [existsb find_gfun]. fold (memb gkey_eqb k ks).
      destruct (memb gkey_eqb k ks); [rewrite orb_true_r; reflexivity|].
      rewrite orb_false_r. destruct (gkey_eqb k (k0, 3)); reflexivity.
Qed.

Lemma reg_keys_err : forall ks gf1 gf2, snd (reg_keys ks gf1) = snd (reg_keys ks gf2).
Proof.
  induction ks as [|[k0 c0] ks IH]; intros gf1 gf2; cbn [reg_keys]; [reflexivity|].
  destruct (Nat.eqb c0 2); [apply IH|]. destruct (Nat.eqb c0 3); [apply IH|reflexivity].
Qed.

(* the role functions are exactly those the model defines, all bound to the
   current manager *)
Definition gf_exact (gf : list ((text * nat) * handle)) (ks : list (text * nat)) : Prop :=
  forall k, find_gfun k gf = if memb gkey_eqb k ks then Some HCur else None.

Lemma find_gfun_In : forall k gf h, find_gfun k gf = Some h -> In (k, h) gf.
Proof.
  intros k gf h. induction gf as [|[k' h'] gf IH]; cbn [find_gfun]; [discriminate|].
  destruct (gkey_eqb k k') eqn:E.
  - apply gkey_eqb_eq in E. subst. intros H; inversion H; subst. left. reflexivity.
  - intros H. right. apply IH, H.
Qed.

Lemma no_leftover_spec : forall gf md k, no_leftover gf md = true ->
  memb gkey_eqb k (model_gkeys md) = false -> find_gfun k gf = None.
Proof.
  intros gf md k Hn Hk. destruct (find_gfun k gf) as [h|] eqn:Hf; [|reflexivity].
  apply find_gfun_In in Hf. unfold no_leftover in Hn. rewrite forallb_forall in Hn.
  specialize (Hn _ Hf). cbn [fst] in Hn. congruence.
Qed.

Lemma gfuns_current_spec : forall gf md k, gfuns_current gf md = true ->
  memb gkey_eqb k (model_gkeys md) = true -> find_gfun k gf = Some HCur.
Proof.
  intros gf md k Hc Hk. apply memb_gkey_In in Hk. unfold gfuns_current in Hc.
  rewrite forallb_forall in Hc. specialize (Hc _ Hk).
  destruct (find_gfun k gf) as [[| |]|]; try discriminate. reflexivity.
Qed.

Lemma gf_exact_of_bools : forall gf md,
  gfuns_current gf md = true -> no_leftover gf md = true -> gf_exact gf (model_gkeys md).
Proof.
  intros gf md Hc Hn k. destruct (memb gkey_eqb k (model_gkeys md)) eqn:E.
  - apply (gfuns_current_spec gf md k Hc E).
  - apply (no_leftover_spec gf md k Hn E).
Qed.

Lemma find_gfun_map : forall (fz : handle -> handle) k gf,
  find_gfun k (map (fun kh => (fst kh, fz (snd kh))) gf) = option_map fz (find_gfun k gf).
Proof.
  intros fz k gf. induction gf as [|[k' h] gf IH]; cbn [map find_gfun fst snd]; [reflexivity|].
  destruct (gkey_eqb k k'); [reflexivity|exact IH].
Qed.

(* ---- the keys of the g section never change under load and build ---- *)
Lemma gkeys_assoc_set : forall key a a' am,
  assoc key am = Some a -> a_value a' = a_value a -> gkeys (assoc_set key a' am) = gkeys am.
Proof.
  intros key a a' am. induction am as [|[k v] am IH]; cbn [assoc assoc_set]; [discriminate|].
  destruct (teqb key k); intros H Hv.
  - inversion H; subst. cbn [gkeys map fst snd]. rewrite Hv. reflexivity.
  - cbn [gkeys map fst snd]. fold (gkeys (assoc_set key a' am)). fold (gkeys am).
    rewrite (IH H Hv). reflexivity.
Qed.

Lemma model_gkeys_assoc_set : forall sec am md,
  model_gkeys (assoc_set sec am md) =
  if teqb s_g sec then gkeys am else model_gkeys md.
Proof.
  intros sec am md. unfold model_gkeys. rewrite assoc_set_lookup.
  destruct (teqb s_g sec); reflexivity.
Qed.

Lemma model_gkeys_set_ast : forall md sec key a a',
  get_ast md sec key = Some a -> a_value a' = a_value a ->
  model_gkeys (set_ast md sec key a') = model_gkeys md.
Proof.
  intros md sec key a a'. unfold get_ast, set_ast.
  destruct (assoc sec md) as [am|] eqn:Hs; [|discriminate].
  intros Hk Hv. rewrite model_gkeys_assoc_set.
  destruct (teqb s_g sec) eqn:E; [|reflexivity].
  apply teqb_eq in E. subst sec. unfold model_gkeys. rewrite Hs.
  apply (gkeys_assoc_set key a a' am Hk Hv).
Qed.

Lemma model_gkeys_load_line : forall md ln, model_gkeys (load_line md ln) = model_gkeys md.
Proof.
  intros md ln. unfold load_line. destruct ln as [|[|c krest] fields]; try reflexivity.
  destruct (get_ast md [c] (c :: krest)) as [a|] eqn:Hg; [|reflexivity].
  apply (model_gkeys_set_ast md _ _ a); [exact Hg|reflexivity].
Qed.

Lemma model_gkeys_load_mem_line : forall md ln, model_gkeys (load_mem_line md ln) = model_gkeys md.
Proof.
  intros md ln. unfold load_mem_line. destruct ln as [|sec [|pt fields]]; try reflexivity.
  destruct (get_ast md sec pt) as [a|] eqn:Hg; [|reflexivity].
  apply (model_gkeys_set_ast md _ _ a); [exact Hg|reflexivity].
Qed.

Lemma model_gkeys_fold : forall (f : model -> rule -> model),
  (forall md ln, model_gkeys (f md ln) = model_gkeys md) ->
  forall l md, model_gkeys (fold_left f l md) = model_gkeys md.
Proof.
  intros f Hf. induction l as [|ln l IH]; intros md; cbn [fold_left]; [reflexivity|].
  rewrite IH. apply Hf.
Qed.

Lemma gkeys_map_policy : forall am,
  gkeys (map (fun ka : text * assertion => (fst ka, with_policy (snd ka) [])) am) = gkeys am.
Proof.
  intros am. unfold gkeys. rewrite map_map. apply map_ext. intros [k a]. reflexivity.
Qed.

Lemma model_gkeys_clear_sec : forall md sec, model_gkeys (clear_sec md sec) = model_gkeys md.
Proof.
  intros md sec. unfold clear_sec. destruct (assoc sec md) as [am|] eqn:Hs; [|reflexivity].
  rewrite model_gkeys_assoc_set. destruct (teqb s_g sec) eqn:E; [|reflexivity].
  apply teqb_eq in E. subst sec. unfold model_gkeys. rewrite Hs. apply gkeys_map_policy.
Qed.

Lemma model_gkeys_clear : forall md, model_gkeys (m_clear_policy md) = model_gkeys md.
Proof. intros md. unfold m_clear_policy. rewrite !model_gkeys_clear_sec. reflexivity. Qed.

Lemma model_gkeys_ad0_load : forall a md a' md' r,
  ad0_load a md = (a', md', r) -> model_gkeys md' = model_gkeys md.
Proof.
  intros a md a' md' r. destruct a; cbn [ad0_load]; intros H; inversion H; subst;
    try reflexivity.
  - apply model_gkeys_fold, model_gkeys_load_mem_line.
  - apply model_gkeys_fold, model_gkeys_load_line.
  - apply model_gkeys_fold, model_gkeys_load_line.
Qed.

Lemma model_gkeys_ad_load : forall a md a' md' r,
  ad_load a md = (a', md', r) -> model_gkeys md' = model_gkeys md.
Proof.
  intros a md a' md' r. unfold ad_load.
  destruct a as [| | | |i sc]; try apply model_gkeys_ad0_load.
  destruct sc as [|[| | | |] sc];
    try (destruct (ad0_load i md) as [[i' md2] r2] eqn:H0; intros H; inversion H; subst;
         rewrite ?model_gkeys_clear_sec; eapply model_gkeys_ad0_load; exact H0);
    intros H; inversion H; subst; reflexivity.
Qed.

Lemma gkeys_build_links_am : forall am m am' m' e,
  build_links_am am m = (am', m', e) -> gkeys am' = gkeys am.
Proof.
  induction am as [|[k a] am IH]; intros m am' m' e; cbn [build_links_am].
  - intros H; inversion H; reflexivity.
  - destruct (Nat.ltb (count_us (a_value a)) 2); [intros H; inversion H; reflexivity|].
    destruct (link_rules (count_us (a_value a)) true m (a_policy a)) as [m1 [|e1]];
      [|intros H; inversion H; reflexivity].
    destruct (build_links_am am m1) as [[am2 m2] e2] eqn:Hb. intros H; inversion H; subst.
    cbn [gkeys map fst snd]. fold (gkeys am2). fold (gkeys am).
    rewrite (IH _ _ _ _ Hb). reflexivity.
Qed.

Lemma model_gkeys_build_of : forall md md' m' e,
  build_of md = (md', m', e) -> model_gkeys md' = model_gkeys md.
Proof.
  intros md md' m' e. unfold build_of. destruct (assoc s_g md) as [am|] eqn:Hs.
  - destruct (build_links_am am []) as [[am' m2] e2] eqn:Hb. intros H; inversion H; subst.
    rewrite model_gkeys_assoc_set. cbn. unfold model_gkeys. rewrite Hs.
    eapply gkeys_build_links_am, Hb.
  - intros H; inversion H; reflexivity.
Qed.

(* ================= E. building the role links ================= *)

Definition sethc (ka : text * assertion) : text * assertion := (fst ka, with_handle (snd ka) HCur).
(* an entry of a section without its handle *)
Definition hproj (ka : text * assertion) := (fst ka, a_value (snd ka), a_tokens (snd ka), a_policy (snd ka)).

(* a successful build redirects every handle to the current manager *)
Lemma build_links_am_ok : forall am m am' m',
  build_links_am am m = (am', m', LOk) -> am' = map sethc am.
Proof.
  induction am as [|[k a] am IH]; intros m am' m'; cbn [build_links_am].
  - intros H; inversion H; reflexivity.
  - destruct (Nat.ltb (count_us (a_value a)) 2); [intros H; inversion H|].
    destruct (link_rules (count_us (a_value a)) true m (a_policy a)) as [m1 [|e1]];
      [|intros H; inversion H].
    destruct (build_links_am am m1) as [[am2 m2] e2] eqn:Hb. intros H; inversion H; subst.
    cbn [map]. rewrite (IH _ _ _ Hb). reflexivity.
Qed.

(* the manager built and the error do not depend on the handles *)
Lemma build_links_am_handles : forall am am2 m, map hproj am2 = map hproj am ->
  snd (fst (build_links_am am2 m)) = snd (fst (build_links_am am m)) /\
  snd (build_links_am am2 m) = snd (build_links_am am m).
Proof.
  induction am as [|[k a] am IH]; intros am2 m Hp.
  - destruct am2; [split; reflexivity|discriminate].
  - destruct am2 as [|[k2 a2] am2]; [discriminate|]. cbn [map] in Hp.
    inversion Hp as [[Hk Hv Ht Hpol Hrest]]. cbn [build_links_am]. rewrite Hv, Hpol.
    destruct (Nat.ltb (count_us (a_value a)) 2); [split; reflexivity|].
    destruct (link_rules (count_us (a_value a)) true m (a_policy a)) as [m1 [|e1]];
      [|split; reflexivity].
    destruct (IH am2 m1 Hrest) as [H1 H2].
    destruct (build_links_am am2 m1) as [[am2' m2'] e2'].
    destruct (build_links_am am m1) as [[am' m'] e']. cbn [fst snd] in *. subst. split; reflexivity.
Qed.

Lemma hproj_sethc : forall am, map hproj (map sethc am) = map hproj am.
Proof. intros am. rewrite map_map. apply map_ext. intros [k a]. reflexivity. Qed.

Lemma sethc_idem : forall am, map sethc (map sethc am) = map sethc am.
Proof. intros am. rewrite map_map. apply map_ext. intros [k a]. reflexivity. Qed.

(* rebuilding from any handle-variant of a successfully built section *)
Lemma build_links_am_variant : forall am am2 m am' m',
  build_links_am am m = (am', m', LOk) -> map hproj am2 = map hproj am ->
  build_links_am am2 m = (map sethc am2, m', LOk).
Proof.
  intros am am2 m am' m' Hb Hp.
  destruct (build_links_am_handles am am2 m Hp) as [H1 H2]. rewrite Hb in H1, H2.
  cbn [fst snd] in H1, H2.
  destruct (build_links_am am2 m) as [[am2' m2'] e2'] eqn:Hb2. cbn [fst snd] in H1, H2. subst.
  rewrite (build_links_am_ok _ _ _ _ Hb2). reflexivity.
Qed.

(* the state of the role links is what a build from scratch gives *)
Definition Built (md : model) (m : rmgr) : Prop := build_of md = (md, m, LOk).

Lemma build_of_idem : forall md md' m', build_of md = (md', m', LOk) -> Built md' m'.
Proof.
  intros md md' m'. unfold Built, build_of. destruct (assoc s_g md) as [am|] eqn:Hs.
  - destruct (build_links_am am []) as [[am' m2] e2] eqn:Hb. intros H; inversion H; subst.
    rewrite assoc_set_same.
    pose proof (build_links_am_ok _ _ _ _ Hb) as Ham.
    rewrite (build_links_am_variant am am' [] am' m' Hb) by (rewrite Ham; apply hproj_sethc).
    rewrite Ham, sethc_idem, assoc_set_twice. reflexivity.
  - intros H; inversion H; subst. rewrite Hs. reflexivity.
Qed.

(* set_role_manager first points every handle at the replaced manager *)
Definition freeze_model (fz : handle -> handle) (md : model) : model :=
  match assoc s_g md with
  | Some am => assoc_set s_g (map (fun ka => (fst ka, with_handle (snd ka) (fz (a_handle (snd ka))))) am) md
  | None => md
  end.

Lemma build_of_frozen : forall fz md m, Built md m -> build_of (freeze_model fz md) = (md, m, LOk).
Proof.
  intros fz md m. unfold Built, build_of, freeze_model.
  destruct (assoc s_g md) as [am|] eqn:Hs.
  - destruct (build_links_am am []) as [[am' m2] e2] eqn:Hb. intros H.
    assert (H1 : assoc_set s_g am' md = md) by congruence.
    assert (H2 : m2 = m) by congruence. assert (H3 : e2 = LOk) by congruence.
    subst m2 e2. clear H.
    rewrite assoc_set_same.
    set (amF := map (fun ka : text * assertion =>
                       (fst ka, with_handle (snd ka) (fz (a_handle (snd ka))))) am).
    assert (Hp : map hproj amF = map hproj am).
    { unfold amF. rewrite map_map. apply map_ext. intros [k a]. reflexivity. }
    rewrite (build_links_am_variant am amF [] am' m Hb Hp).
    assert (Hs2 : map sethc amF = map sethc am).
    { unfold amF. rewrite map_map. apply map_ext. intros [k a]. reflexivity. }
    rewrite Hs2, <- (build_links_am_ok _ _ _ _ Hb), assoc_set_twice, H1. reflexivity.
  - intros H. rewrite Hs. exact H.
Qed.

Definition frozen_gfuns (s : estate) : list ((text * nat) * handle) :=
  map (fun kh => (fst kh, freeze_handle (f_rm (e_fs s)) (f_rm_max (e_fs s)) (snd kh)))
      (f_gfuns (e_fs s)).

(* set_role_manager on a state whose links are built: the model and the
   manager's content come back as they were, the limit changes, the role
   functions are registered again on top of the frozen old ones *)
Lemma set_role_manager_core : forall s mx s' r,
  e_auto_build s = true -> Built (e_model s) (f_rm (e_fs s)) ->
  step_set_role_manager s mx = (s', r) ->
  r = lerr_out (snd (reg_of (e_model s) (frozen_gfuns s))) true /\
  core_of s' = {| k_model := e_model s; k_mexprs := e_mexprs s; k_adapter := e_adapter s;
                  k_rm := f_rm (e_fs s); k_rm_max := mx;
                  k_gfuns := fst (reg_of (e_model s) (frozen_gfuns s));
                  k_ufuns := f_ufuns (e_fs s);
                  k_enabled := e_enabled s; k_auto_save := e_auto_save s;
                  k_auto_build := true; k_auto_notify := e_auto_notify s;
                  k_watcher := e_watcher s |}.
Proof.
  intros s mx s' r Hab Hbuilt. unfold step_set_role_manager. cbv zeta.
  cbn [e_auto_build upd_fs upd_model]. rewrite Hab.
  match goal with |- context [build_role_links ?st] =>
    destruct (build_role_links st) as [s2 e] eqn:Hb end.
  apply build_role_links_core in Hb. cbn [e_model upd_fs upd_model] in Hb.
  match type of Hb with context [build_of ?X] =>
    change X with (freeze_model (freeze_handle (f_rm (e_fs s)) (f_rm_max (e_fs s))) (e_model s)) in Hb
  end.
  rewrite (build_of_frozen _ _ _ Hbuilt) in Hb. destruct Hb as [-> Hc].
  destruct (register_g_functions s2) as [s3 e3] eqn:Hr. intros H; inversion H; subst s3 r. clear H.
  apply register_g_functions_core in Hr. destruct Hr as [-> Hc3].
  assert (Hm2 : e_model s2 = e_model s) by (apply (f_equal k_model) in Hc; exact Hc).
  assert (Hg2 : f_gfuns (e_fs s2) = frozen_gfuns s) by (apply (f_equal k_gfuns) in Hc; exact Hc).
  rewrite Hm2, Hg2 in *. split; [reflexivity|].
  rewrite Hc3, Hc. cbn. rewrite Hab. reflexivity.
Qed.

(* ================= F. the fresh enforcer ================= *)

Definition with_ufuns (c : core) (u : list (text * ufun)) : core :=
  {| k_model := k_model c; k_mexprs := k_mexprs c; k_adapter := k_adapter c;
     k_rm := k_rm c; k_rm_max := k_rm_max c; k_gfuns := k_gfuns c; k_ufuns := u;
     k_enabled := k_enabled c; k_auto_save := k_auto_save c; k_auto_build := k_auto_build c;
     k_auto_notify := k_auto_notify c; k_watcher := k_watcher c |}.

Definition with_flags (c : core) (en sv bl nt : bool) : core :=
  {| k_model := k_model c; k_mexprs := k_mexprs c; k_adapter := k_adapter c;
     k_rm := k_rm c; k_rm_max := k_rm_max c; k_gfuns := k_gfuns c; k_ufuns := k_ufuns c;
     k_enabled := en; k_auto_save := sv; k_auto_build := bl;
     k_auto_notify := nt; k_watcher := k_watcher c |}.

Lemma replay_ufuns_core : forall ufs st,
  core_of (replay_ufuns st ufs) = with_ufuns (core_of st) (ufs ++ f_ufuns (e_fs st)).
Proof.
  induction ufs as [|[n u] ufs IH]; intros st; cbn [replay_ufuns fold_right app].
  - reflexivity.
  - fold (replay_ufuns st ufs). cbn [step fst snd].
    pose proof (IH st) as H. unfold core_of in *. cbn [upd_fs e_model e_mexprs e_adapter e_fs
      e_enabled e_auto_save e_auto_build e_auto_notify e_watcher f_rm f_rm_max f_gfuns f_ufuns].
    unfold with_ufuns in *. cbn in *. inversion H. congruence.
Qed.

Lemma toggles_core : forall s2 en sv bl nt,
  core_of (fst (step (fst (step (fst (step (fst (step s2 (OEnableAutoSave sv)))
             (OEnableAutoBuild bl))) (OEnableAutoNotify nt))) (OEnableEnforce en))) =
  with_flags (core_of s2) en sv bl nt.
Proof. reflexivity. Qed.

Lemma new_enforcer_core : forall d a w ad md md' m',
  ad_is_filtered a = false ->
  snd (reg_keys (model_gkeys (d_model d)) []) = LOk ->
  ad_load a (m_clear_policy (d_model d)) = (ad, md, LROk) ->
  build_of md = (md', m', LOk) ->
  exists s0, new_enforcer d a w = (s0, Ok true) /\
    core_of s0 = {| k_model := md'; k_mexprs := d_mexprs d; k_adapter := ad;
                    k_rm := m'; k_rm_max := 10;
                    k_gfuns := fst (reg_keys (model_gkeys (d_model d)) []); k_ufuns := [];
                    k_enabled := true; k_auto_save := true; k_auto_build := true;
                    k_auto_notify := true; k_watcher := w |}.
Proof.
  intros d a w ad md md' m' Hnf Hreg Hl Hb. unfold new_enforcer, new_raw.
  match goal with |- context [register_g_functions ?st] =>
    destruct (register_g_functions st) as [sr e] eqn:Hr end.
  apply register_g_functions_core in Hr. cbn [e_model e_fs f_gfuns] in Hr.
  unfold reg_of in Hr. destruct Hr as [He Hc]. rewrite Hreg in He. subst e.
  assert (Hsa : e_adapter sr = a) by (apply (f_equal k_adapter) in Hc; exact Hc).
  assert (Hsm : e_model sr = d_model d) by (apply (f_equal k_model) in Hc; exact Hc).
  assert (Hsb : e_auto_build sr = true) by (apply (f_equal k_auto_build) in Hc; exact Hc).
  rewrite Hsa, Hnf.
  destruct (step_load_run sr ad md md' m' Hsb) as (s0 & Hs0 & Hc0).
  { rewrite Hsa, Hsm. exact Hl. }
  { exact Hb. }
  exists s0. split; [exact Hs0|]. rewrite Hc0.
  unfold core_of, with_gfuns in Hc. cbn in Hc. inversion Hc. reflexivity.
Qed.

(* the fresh enforcer, whenever the load and the build succeed *)
Lemma fresh_from_core : forall d a s ad md md' m',
  ad_is_filtered a = false ->
  snd (reg_keys (model_gkeys (d_model d)) []) = LOk ->
  ad_load a (m_clear_policy (d_model d)) = (ad, md, LROk) ->
  build_of md = (md', m', LOk) ->
  exists sf G, fresh_from d a s = (sf, Ok true) /\ gf_exact G (model_gkeys (d_model d)) /\
    core_of sf = {| k_model := md'; k_mexprs := d_mexprs d; k_adapter := ad;
                    k_rm := m'; k_rm_max := f_rm_max (e_fs s); k_gfuns := G;
                    k_ufuns := f_ufuns (e_fs s);
                    k_enabled := e_enabled s; k_auto_save := e_auto_save s;
                    k_auto_build := e_auto_build s; k_auto_notify := e_auto_notify s;
                    k_watcher := e_watcher s |}.
Proof.
  intros d a s ad md md' m' Hnf Hreg Hl Hb.
  destruct (new_enforcer_core d a (e_watcher s) ad md md' m' Hnf Hreg Hl Hb) as (s0 & Hs0 & Hc0).
  set (ks := model_gkeys (d_model d)) in *.
  destruct (reg_keys ks []) as [G0 e0] eqn:HG0. cbn [fst snd] in *. subst e0.
  assert (HG0x : gf_exact G0 ks).
  { intros k. rewrite (find_reg_keys ks [] G0 HG0 k). reflexivity. }
  assert (Hm0 : e_model s0 = md') by (apply (f_equal k_model) in Hc0; exact Hc0).
  assert (Hks0 : model_gkeys (e_model s0) = ks).
  { rewrite Hm0. rewrite (model_gkeys_build_of _ _ _ _ Hb).
    rewrite (model_gkeys_ad_load _ _ _ _ _ Hl). apply model_gkeys_clear. }
  unfold fresh_from. rewrite Hs0.
  destruct (Nat.eqb (f_rm_max (e_fs s)) default_rm_max) eqn:Emx.
  - apply Nat.eqb_eq in Emx. exists
      (fst (step (fst (step (fst (step (fst (step (replay_ufuns s0 (f_ufuns (e_fs s)))
         (OEnableAutoSave (e_auto_save s)))) (OEnableAutoBuild (e_auto_build s))))
         (OEnableAutoNotify (e_auto_notify s)))) (OEnableEnforce (e_enabled s)))), G0.
    split; [reflexivity|]. split; [exact HG0x|].
    rewrite toggles_core, replay_ufuns_core.
    assert (Hu0 : f_ufuns (e_fs s0) = []) by (apply (f_equal k_ufuns) in Hc0; exact Hc0).
    rewrite Hu0, app_nil_r, Hc0, Emx. reflexivity.
  - cbn [step].
    destruct (step_set_role_manager s0 (f_rm_max (e_fs s))) as [s1 r1] eqn:Hsrm.
    assert (Hab0 : e_auto_build s0 = true) by (apply (f_equal k_auto_build) in Hc0; exact Hc0).
    assert (Hrm0 : f_rm (e_fs s0) = m') by (apply (f_equal k_rm) in Hc0; exact Hc0).
    assert (Hg0 : f_gfuns (e_fs s0) = G0) by (apply (f_equal k_gfuns) in Hc0; exact Hc0).
    assert (Hbuilt : Built (e_model s0) (f_rm (e_fs s0))).
    { rewrite Hm0, Hrm0. eapply build_of_idem, Hb. }
    destruct (set_role_manager_core s0 _ s1 r1 Hab0 Hbuilt Hsrm) as [Hr1 Hc1].
    unfold reg_of in Hr1, Hc1. rewrite Hks0 in Hr1, Hc1.
    destruct (reg_keys ks (frozen_gfuns s0)) as [G1 e1] eqn:HG1. cbn [fst snd] in *.
    assert (He1 : e1 = LOk).
    { pose proof (reg_keys_err ks (frozen_gfuns s0) []) as He. rewrite HG1, HG0 in He. exact He. }
    subst e1. subst r1. cbn [lerr_out].
    exists
      (fst (step (fst (step (fst (step (fst (step (replay_ufuns s1 (f_ufuns (e_fs s)))
         (OEnableAutoSave (e_auto_save s)))) (OEnableAutoBuild (e_auto_build s))))
         (OEnableAutoNotify (e_auto_notify s)))) (OEnableEnforce (e_enabled s)))), G1.
    split; [reflexivity|]. split.
    + intros k. rewrite (find_reg_keys ks _ G1 HG1 k).
      destruct (memb gkey_eqb k ks) eqn:Ek; [reflexivity|].
      unfold frozen_gfuns. rewrite find_gfun_map, Hg0, (HG0x k), Ek. reflexivity.
    + rewrite toggles_core, replay_ufuns_core.
      assert (Hu1 : f_ufuns (e_fs s1) = []).
      { apply (f_equal k_ufuns) in Hc1. cbn in Hc1. rewrite Hc1.
        apply (f_equal k_ufuns) in Hc0. exact Hc0. }
      rewrite Hu1, app_nil_r, Hc1.
      apply (f_equal k_mexprs) in Hc0 as Hx0. apply (f_equal k_adapter) in Hc0 as Ha0.
      apply (f_equal k_watcher) in Hc0 as Hw0. cbn in Hx0, Ha0, Hw0.
      unfold with_flags, with_ufuns. cbn. rewrite Hm0, Hrm0, Hx0, Ha0, Hw0. reflexivity.
Qed.

Lemma st_equiv_of_cores : forall s1 s2 ks,
  k_model (core_of s1) = k_model (core_of s2) ->
  k_mexprs (core_of s1) = k_mexprs (core_of s2) ->
  ad_is_filtered (k_adapter (core_of s1)) = ad_is_filtered (k_adapter (core_of s2)) ->
  k_rm (core_of s1) = k_rm (core_of s2) -> k_rm_max (core_of s1) = k_rm_max (core_of s2) ->
  k_ufuns (core_of s1) = k_ufuns (core_of s2) -> k_enabled (core_of s1) = k_enabled (core_of s2) ->
  gf_exact (k_gfuns (core_of s1)) ks -> gf_exact (k_gfuns (core_of s2)) ks ->
  st_equiv s1 s2.
Proof.
  intros s1 s2 ks Hm Hx Ha Hr Hmx Hu He Hg1 Hg2. cbn in *.
  unfold st_equiv, fs_equiv. rewrite Hm. repeat split; try assumption.
  intros k. rewrite (Hg1 k), (Hg2 k). reflexivity.
Qed.

(* ================= G. set_model and set_adapter ================= *)

(* a successful set_model, as functions of (adapter, new definition) *)
Lemma set_model_core : forall s d s' b, e_auto_build s = true ->
  step s (OSetModel d) = (s', Ok b) ->
  exists ad md md' m' G,
    ad_load (e_adapter s) (m_clear_policy (d_model d)) = (ad, md, LROk) /\
    build_of md = (md', m', LOk) /\
    reg_keys (model_gkeys (d_model d)) (f_gfuns (e_fs s)) = (G, LOk) /\
    core_of s' = {| k_model := md'; k_mexprs := d_mexprs d; k_adapter := ad;
                    k_rm := m'; k_rm_max := f_rm_max (e_fs s); k_gfuns := G;
                    k_ufuns := f_ufuns (e_fs s);
                    k_enabled := e_enabled s; k_auto_save := e_auto_save s;
                    k_auto_build := true; k_auto_notify := e_auto_notify s;
                    k_watcher := e_watcher s |}.
Proof.
  intros s d s' b Hab. cbn [step]. unfold step_set_model.
  match goal with |- context [step_load ?st] =>
    destruct (step_load st) as [s1 r1] eqn:Hl end.
  destruct r1 as [b1|e1|]; try (intros H; inversion H; fail).
  apply step_load_ok in Hl; [|exact Hab].
  destruct Hl as (ad & md & md' & m' & Hload & Hbuild & Hc1).
  cbn [e_adapter e_model e_mexprs e_fs e_enabled e_auto_save e_auto_notify e_watcher] in *.
  destruct (register_g_functions s1) as [s2 e2] eqn:Hr. intros H.
  assert (Hs2 : s2 = s') by congruence. subst s2.
  assert (He2 : e2 = LOk) by (destruct e2; [reflexivity|discriminate]). subst e2. clear H.
  apply register_g_functions_core in Hr. destruct Hr as [He Hc2].
  assert (Hm1 : e_model s1 = md') by (apply (f_equal k_model) in Hc1; exact Hc1).
  assert (Hg1 : f_gfuns (e_fs s1) = f_gfuns (e_fs s)) by (apply (f_equal k_gfuns) in Hc1; exact Hc1).
  unfold reg_of in He, Hc2. rewrite Hm1, Hg1 in He, Hc2.
  rewrite (model_gkeys_build_of _ _ _ _ Hbuild), (model_gkeys_ad_load _ _ _ _ _ Hload),
    model_gkeys_clear in He, Hc2.
  destruct (reg_keys (model_gkeys (d_model d)) (f_gfuns (e_fs s))) as [G e] eqn:HG.
  cbn [fst snd] in *. subst e.
  exists ad, md, md', m', G. repeat split; try assumption.
  rewrite Hc2, Hc1. reflexivity.
Qed.

(* C18 for set_model: equivalent to the enforcer built from the new definition,
   the adapter as it was handed to set_model, and the components of the state *)
Theorem set_model_fresh : forall s d s' b,
  step s (OSetModel d) = (s', Ok b) ->
  e_auto_build s = true ->
  ad_is_filtered (e_adapter s) = false ->
  no_leftover (f_gfuns (e_fs s)) (d_model d) = true ->
  exists sf, fresh_from d (e_adapter s) s' = (sf, Ok true) /\ st_equiv s' sf /\
             e_adapter sf = e_adapter s' /\ e_model sf = e_model s' /\
             f_rm (e_fs sf) = f_rm (e_fs s').
Proof.
  intros s d s' b Hstep Hab Hnf Hnl.
  destruct (set_model_core s d s' b Hab Hstep) as (ad & md & md' & m' & G & Hl & Hb & HG & Hc).
  assert (Hreg : snd (reg_keys (model_gkeys (d_model d)) []) = LOk).
  { pose proof (reg_keys_err (model_gkeys (d_model d)) [] (f_gfuns (e_fs s))) as He.
    rewrite HG in He. exact He. }
  destruct (fresh_from_core d (e_adapter s) s' ad md md' m' Hnf Hreg Hl Hb)
    as (sf & Gf & Hf & HGf & Hcf).
  exists sf. split; [exact Hf|].
  assert (HGx : gf_exact G (model_gkeys (d_model d))).
  { intros k. rewrite (find_reg_keys _ _ G HG k).
    destruct (memb gkey_eqb k (model_gkeys (d_model d))) eqn:Ek; [reflexivity|].
    apply (no_leftover_spec _ _ k Hnl Ek). }
  split; [|split; [|split]].
  - apply (st_equiv_of_cores s' sf (model_gkeys (d_model d))); rewrite ?Hcf, ?Hc; cbn;
      try reflexivity; try assumption;
      try (symmetry; apply (f_equal k_rm_max) in Hc; exact Hc);
      try (symmetry; apply (f_equal k_ufuns) in Hc; exact Hc);
      try (symmetry; apply (f_equal k_enabled) in Hc; exact Hc).
  - apply (f_equal k_adapter) in Hc, Hcf. cbn in Hc, Hcf. congruence.
  - apply (f_equal k_model) in Hc, Hcf. cbn in Hc, Hcf. congruence.
  - apply (f_equal k_rm) in Hc, Hcf. cbn in Hc, Hcf. congruence.
Qed.

Lemma gdefs_ok_reg : forall ks gf,
  forallb (fun kc : text * nat => Nat.eqb (snd kc) 2 || Nat.eqb (snd kc) 3) ks = true ->
  snd (reg_keys ks gf) = LOk.
Proof.
  induction ks as [|[k c] ks IH]; intros gf; cbn [forallb reg_keys snd]; [reflexivity|].
  intros H. apply andb_true_iff in H. destruct H as [Hc Hr].
  destruct (Nat.eqb c 2); [apply IH, Hr|]. destruct (Nat.eqb c 3); [apply IH, Hr|discriminate].
Qed.

Lemma gfuns_exactb_spec : forall gf md, gfuns_exactb gf md = true ->
  snd (reg_keys (model_gkeys md) []) = LOk /\ gf_exact gf (model_gkeys md).
Proof.
  intros gf md H. unfold gfuns_exactb in H. apply andb_true_iff in H. destruct H as [H Hn].
  apply andb_true_iff in H. destruct H as [Hd Hc]. split.
  - apply gdefs_ok_reg, Hd.
  - apply gf_exact_of_bools; assumption.
Qed.

(* C18 for set_adapter: equivalent to the enforcer built from the model store
   (used as the definition: the constructor's load empties it), the new adapter
   and the components of the state *)
Theorem set_adapter_fresh : forall s a s' b,
  step s (OSetAdapter a) = (s', Ok b) ->
  e_auto_build s = true ->
  ad_is_filtered a = false ->
  gfuns_exactb (f_gfuns (e_fs s)) (e_model s) = true ->
  exists sf, fresh_from (cur_def s) a s' = (sf, Ok true) /\ st_equiv s' sf /\
             e_adapter sf = e_adapter s' /\ e_model sf = e_model s' /\
             f_rm (e_fs sf) = f_rm (e_fs s').
Proof.
  intros s a s' b Hstep Hab Hnf Hgx. cbn [step] in Hstep. unfold step_set_adapter in Hstep.
  apply step_load_ok in Hstep; [|exact Hab].
  destruct Hstep as (ad & md & md' & m' & Hl & Hb & Hc).
  cbn [upd_adapter e_adapter e_model e_mexprs e_fs e_enabled e_auto_save e_auto_notify e_watcher] in *.
  destruct (gfuns_exactb_spec _ _ Hgx) as [Hreg Hgf].
  destruct (fresh_from_core (cur_def s) a s' ad md md' m' Hnf Hreg Hl Hb)
    as (sf & Gf & Hf & HGf & Hcf).
  cbn [cur_def d_model d_mexprs] in *.
  exists sf. split; [exact Hf|]. split; [|split; [|split]].
  - apply (st_equiv_of_cores s' sf (model_gkeys (e_model s))); rewrite ?Hcf, ?Hc; cbn;
      try reflexivity; try assumption;
      try (symmetry; apply (f_equal k_rm_max) in Hc; exact Hc);
      try (symmetry; apply (f_equal k_ufuns) in Hc; exact Hc);
      try (symmetry; apply (f_equal k_enabled) in Hc; exact Hc).
  - apply (f_equal k_adapter) in Hc, Hcf. cbn in Hc, Hcf. congruence.
  - apply (f_equal k_model) in Hc, Hcf. cbn in Hc, Hcf. congruence.
  - apply (f_equal k_rm) in Hc, Hcf. cbn in Hc, Hcf. congruence.
Qed.

(* ================= H. the calls that do not reload ================= *)

(* the in-memory policy and role links are what a load from the adapter gives *)
Definition Synced (s : estate) : Prop :=
  exists ad md,
    ad_load (e_adapter s) (m_clear_policy (e_model s)) = (ad, md, LROk) /\
    build_of md = (e_model s, f_rm (e_fs s), LOk) /\
    ad_is_filtered ad = ad_is_filtered (e_adapter s).

(* Synced is decidable *)
Lemma pair_eqb_eq : forall {B} (beq : B -> B -> bool), (forall x y, beq x y = true <-> x = y) ->
  forall p q : text * B, teqb (fst p) (fst q) && beq (snd p) (snd q) = true <-> p = q.
Proof.
  intros B beq Hb [k x] [k' y]. cbn [fst snd]. rewrite andb_true_iff, teqb_eq, Hb. split.
  - intros [-> ->]. reflexivity.
  - intros H. inversion H. auto.
Qed.

Lemma dgraph_eqb_eq : forall g1 g2, dgraph_eqb g1 g2 = true <-> g1 = g2.
Proof.
  intros [n1 e1] [n2 e2]. unfold dgraph_eqb. cbn [nodes edges].
  rewrite andb_true_iff, (list_eqb_eq _ teqb_eq), (list_eqb_eq _ peqb_eq). split.
  - intros [-> ->]. reflexivity.
  - intros H. inversion H. auto.
Qed.

Lemma rmgr_eqb_eq : forall m1 m2, rmgr_eqb m1 m2 = true <-> m1 = m2.
Proof. apply list_eqb_eq. apply pair_eqb_eq. exact dgraph_eqb_eq. Qed.

Lemma handle_eqb_eq : forall h1 h2, handle_eqb h1 h2 = true <-> h1 = h2.
Proof.
  intros [| |m1 x1] [| |m2 x2]; cbn [handle_eqb]; split; intros H;
    try reflexivity; try discriminate.
  - apply andb_true_iff in H. destruct H as [Hm Hx].
    apply rmgr_eqb_eq in Hm. apply Nat.eqb_eq in Hx. subst. reflexivity.
  - inversion H; subst. apply andb_true_iff. split; [apply rmgr_eqb_eq|apply Nat.eqb_eq]; reflexivity.
Qed.

Lemma assertion_eqb_eq : forall a b, assertion_eqb a b = true <-> a = b.
Proof.
  intros [v1 t1 p1 h1] [v2 t2 p2 h2]. unfold assertion_eqb. cbn [a_value a_tokens a_policy a_handle].
  rewrite !andb_true_iff, teqb_eq, (list_eqb_eq _ teqb_eq), (list_eqb_eq _ reqb_eq), handle_eqb_eq.
  split.
  - intros [[[-> ->] ->] ->]. reflexivity.
  - intros H. inversion H. auto.
Qed.

Lemma model_eqb_eq : forall x y, model_eqb x y = true <-> x = y.
Proof.
  apply list_eqb_eq. apply pair_eqb_eq. apply list_eqb_eq. apply pair_eqb_eq.
  exact assertion_eqb_eq.
Qed.

Lemma syncedb_Synced : forall s, syncedb s = true -> Synced s.
Proof.
  intros s. unfold syncedb, Synced.
  destruct (ad_load (e_adapter s) (m_clear_policy (e_model s))) as [[ad md] r].
  destruct r; try discriminate.
  change (build_model md) with (build_of md).
  destruct (build_of md) as [[md' m'] e] eqn:Hb. destruct e; try discriminate.
  intros H. apply andb_true_iff in H. destruct H as [H Hf].
  apply andb_true_iff in H. destruct H as [Hm Hr].
  apply model_eqb_eq in Hm. apply rmgr_eqb_eq in Hr. apply Bool.eqb_prop in Hf. subst.
  exists ad, md. auto.
Qed.

Lemma synced_fresh : forall s,
  Synced s -> ad_is_filtered (e_adapter s) = false ->
  gfuns_exactb (f_gfuns (e_fs s)) (e_model s) = true ->
  exists sf, fresh_from (cur_def s) (e_adapter s) s = (sf, Ok true) /\ st_equiv s sf /\
             e_model sf = e_model s /\ f_rm (e_fs sf) = f_rm (e_fs s).
Proof.
  intros s (ad & md & Hl & Hb & Hfl) Hnf Hgx.
  destruct (gfuns_exactb_spec _ _ Hgx) as [Hreg Hgf].
  destruct (fresh_from_core (cur_def s) (e_adapter s) s ad md _ _ Hnf Hreg Hl Hb)
    as (sf & Gf & Hf & HGf & Hcf).
  cbn [cur_def d_model d_mexprs] in *.
  exists sf. split; [exact Hf|]. split; [|split].
  - apply (st_equiv_of_cores s sf (model_gkeys (e_model s))); rewrite ?Hcf; cbn;
      try reflexivity; try assumption. symmetry. exact Hfl.
  - apply (f_equal k_model) in Hcf. exact Hcf.
  - apply (f_equal k_rm) in Hcf. exact Hcf.
Qed.

Theorem set_effector_fresh : forall s s' b,
  step s OSetEffector = (s', Ok b) ->
  Synced s -> ad_is_filtered (e_adapter s) = false ->
  gfuns_exactb (f_gfuns (e_fs s)) (e_model s) = true ->
  exists sf, fresh_from (cur_def s') (e_adapter s') s' = (sf, Ok true) /\ st_equiv s' sf.
Proof.
  intros s s' b Hstep Hsy Hnf Hgx. cbn [step] in Hstep. inversion Hstep; subst s'.
  destruct (synced_fresh s Hsy Hnf Hgx) as (sf & Hf & He & _). exists sf. auto.
Qed.

Theorem add_function_fresh : forall s n u s' b,
  step s (OAddFunction n u) = (s', Ok b) ->
  Synced s -> ad_is_filtered (e_adapter s) = false ->
  gfuns_exactb (f_gfuns (e_fs s)) (e_model s) = true ->
  exists sf, fresh_from (cur_def s') (e_adapter s') s' = (sf, Ok true) /\ st_equiv s' sf /\
             f_ufuns (e_fs sf) = (n, u) :: f_ufuns (e_fs s).
Proof.
  intros s n u s' b Hstep Hsy Hnf Hgx. cbn [step] in Hstep. inversion Hstep; subst s'. clear Hstep.
  match goal with |- context [fresh_from _ _ ?st] => set (s1 := st) end.
  assert (Hsy1 : Synced s1).
  { destruct Hsy as (ad & md & Hl & Hb & Hfl). exists ad, md. auto. }
  destruct (synced_fresh s1 Hsy1 Hnf Hgx) as (sf & Hf & He & _).
  exists sf. split; [exact Hf|]. split; [exact He|].
  destruct He as (_ & _ & _ & _ & _ & _ & Hu & _). symmetry. exact Hu.
Qed.

(* set_role_manager: the limit changes, everything else is as built *)
Theorem set_role_manager_fresh : forall s mx s' b,
  step s (OSetRoleManager mx) = (s', Ok b) ->
  Synced s -> e_auto_build s = true -> ad_is_filtered (e_adapter s) = false ->
  no_leftover (f_gfuns (e_fs s)) (e_model s) = true ->
  exists sf, fresh_from (cur_def s') (e_adapter s') s' = (sf, Ok true) /\ st_equiv s' sf /\
             f_rm_max (e_fs sf) = mx.
Proof.
  intros s mx s' b Hstep Hsy Hab Hnf Hnl. cbn [step] in Hstep.
  assert (Hbuilt : Built (e_model s) (f_rm (e_fs s))).
  { destruct Hsy as (ad & md & _ & Hb & _). eapply build_of_idem, Hb. }
  destruct (set_role_manager_core s mx s' (Ok b) Hab Hbuilt Hstep) as [Hr Hc].
  unfold reg_of in Hr, Hc.
  destruct (reg_keys (model_gkeys (e_model s)) (frozen_gfuns s)) as [G e] eqn:HG.
  cbn [fst snd] in *. assert (He : e = LOk) by (destruct e; [reflexivity|discriminate]). subst e.
  assert (Hm : e_model s' = e_model s) by (apply (f_equal k_model) in Hc; exact Hc).
  assert (Ha : e_adapter s' = e_adapter s) by (apply (f_equal k_adapter) in Hc; exact Hc).
  assert (Hrm : f_rm (e_fs s') = f_rm (e_fs s)) by (apply (f_equal k_rm) in Hc; exact Hc).
  assert (Hg : f_gfuns (e_fs s') = G) by (apply (f_equal k_gfuns) in Hc; exact Hc).
  assert (Hsy' : Synced s').
  { destruct Hsy as (ad & md & Hl & Hb & Hfl). exists ad, md. rewrite Hm, Ha, Hrm. auto. }
  assert (Hreg : snd (reg_keys (model_gkeys (e_model s)) []) = LOk).
  { pose proof (reg_keys_err (model_gkeys (e_model s)) [] (frozen_gfuns s)) as H0.
    rewrite HG in H0. exact H0. }
  assert (Hgx : gf_exact G (model_gkeys (e_model s))).
  { intros k. rewrite (find_reg_keys _ _ G HG k).
    destruct (memb gkey_eqb k (model_gkeys (e_model s))) eqn:Ek; [reflexivity|].
    unfold frozen_gfuns. rewrite find_gfun_map, (no_leftover_spec _ _ k Hnl Ek). reflexivity. }
  destruct Hsy' as (ad & md & Hl & Hb & Hfl).
  assert (Hnf' : ad_is_filtered (e_adapter s') = false) by (rewrite Ha; exact Hnf).
  assert (Hreg' : snd (reg_keys (model_gkeys (d_model (cur_def s'))) []) = LOk).
  { cbn [cur_def d_model]. rewrite Hm. exact Hreg. }
  destruct (fresh_from_core (cur_def s') (e_adapter s') s' ad md _ _ Hnf' Hreg' Hl Hb)
    as (sf & Gf & Hf & HGf & Hcf).
  cbn [cur_def d_model d_mexprs] in *.
  exists sf. split; [exact Hf|]. split.
  - apply (st_equiv_of_cores s' sf (model_gkeys (e_model s'))); rewrite ?Hcf; cbn;
      try reflexivity; try assumption.
    + symmetry. exact Hfl.
    + rewrite Hg, Hm. exact Hgx.
  - apply (f_equal k_rm_max) in Hcf. cbn in Hcf. rewrite Hcf.
    apply (f_equal k_rm_max) in Hc. exact Hc.
Qed.

(* ================= I. the definition of a state ================= *)
(* load and build never touch the definition part (keys, values, tokens) *)

Definition rst (ka : text * assertion) : text * assertion := (fst ka, reset_ast (snd ka)).

Lemma rst_assoc_set : forall key a a' am,
  assoc key am = Some a -> reset_ast a' = reset_ast a ->
  map rst (assoc_set key a' am) = map rst am.
Proof.
  intros key a a' am. induction am as [|[k v] am IH]; cbn [assoc assoc_set]; [discriminate|].
  destruct (teqb key k); intros H Hr.
  - inversion H; subst. cbn [map]. unfold rst at 1 3. cbn [fst snd]. rewrite Hr. reflexivity.
  - cbn [map]. rewrite (IH H Hr). reflexivity.
Qed.

Lemma defs_of_assoc_set : forall sec am am' md,
  assoc sec md = Some am -> map rst am' = map rst am ->
  defs_of (assoc_set sec am' md) = defs_of md.
Proof.
  intros sec am am' md. unfold defs_of.
  induction md as [|[k v] md IH]; cbn [assoc assoc_set]; [discriminate|].
  destruct (teqb sec k); intros H Hr.
  - inversion H; subst. cbn [map fst snd]. fold rst. rewrite Hr. reflexivity.
  - cbn [map]. rewrite (IH H Hr). reflexivity.
Qed.

Lemma defs_of_set_ast : forall md sec key a a',
  get_ast md sec key = Some a -> reset_ast a' = reset_ast a ->
  defs_of (set_ast md sec key a') = defs_of md.
Proof.
  intros md sec key a a'. unfold get_ast, set_ast.
  destruct (assoc sec md) as [am|] eqn:Hs; [|discriminate]. intros Hk Hr.
  apply (defs_of_assoc_set sec am); [exact Hs|]. apply (rst_assoc_set key a a' am Hk Hr).
Qed.

Lemma defs_of_load_line : forall md ln, defs_of (load_line md ln) = defs_of md.
Proof.
  intros md ln. unfold load_line. destruct ln as [|[|c krest] fields]; try reflexivity.
  destruct (get_ast md [c] (c :: krest)) as [a|] eqn:Hg; [|reflexivity].
  apply (defs_of_set_ast md _ _ a); [exact Hg|reflexivity].
Qed.

Lemma defs_of_load_mem_line : forall md ln, defs_of (load_mem_line md ln) = defs_of md.
Proof.
  intros md ln. unfold load_mem_line. destruct ln as [|sec [|pt fields]]; try reflexivity.
  destruct (get_ast md sec pt) as [a|] eqn:Hg; [|reflexivity].
  apply (defs_of_set_ast md _ _ a); [exact Hg|reflexivity].
Qed.

Lemma defs_of_fold : forall (f : model -> rule -> model),
  (forall md ln, defs_of (f md ln) = defs_of md) ->
  forall l md, defs_of (fold_left f l md) = defs_of md.
Proof.
  intros f Hf. induction l as [|ln l IH]; intros md; cbn [fold_left]; [reflexivity|].
  rewrite IH. apply Hf.
Qed.

Lemma defs_of_clear_sec : forall md sec, defs_of (clear_sec md sec) = defs_of md.
Proof.
  intros md sec. unfold clear_sec. destruct (assoc sec md) as [am|] eqn:Hs; [|reflexivity].
  apply (defs_of_assoc_set sec am); [exact Hs|].
  rewrite map_map. apply map_ext. intros [k a]. reflexivity.
Qed.

Lemma defs_of_clear : forall md, defs_of (m_clear_policy md) = defs_of md.
Proof. intros md. unfold m_clear_policy. rewrite !defs_of_clear_sec. reflexivity. Qed.

Lemma defs_of_ad0_load : forall a md a' md' r,
  ad0_load a md = (a', md', r) -> defs_of md' = defs_of md.
Proof.
  intros a md a' md' r. destruct a; cbn [ad0_load]; intros H; inversion H; subst;
    try reflexivity.
  - apply defs_of_fold, defs_of_load_mem_line.
  - apply defs_of_fold, defs_of_load_line.
  - apply defs_of_fold, defs_of_load_line.
Qed.

Lemma defs_of_ad_load : forall a md a' md' r,
  ad_load a md = (a', md', r) -> defs_of md' = defs_of md.
Proof.
  intros a md a' md' r. unfold ad_load.
  destruct a as [| | | |i sc]; try apply defs_of_ad0_load.
  destruct sc as [|[| | | |] sc];
    try (destruct (ad0_load i md) as [[i' md2] r2] eqn:H0; intros H; inversion H; subst;
         rewrite ?defs_of_clear_sec; eapply defs_of_ad0_load; exact H0);
    intros H; inversion H; subst; reflexivity.
Qed.

Lemma rst_build_links_am : forall am m am' m' e,
  build_links_am am m = (am', m', e) -> map rst am' = map rst am.
Proof.
  induction am as [|[k a] am IH]; intros m am' m' e; cbn [build_links_am].
  - intros H; inversion H; reflexivity.
  - destruct (Nat.ltb (count_us (a_value a)) 2); [intros H; inversion H; reflexivity|].
    destruct (link_rules (count_us (a_value a)) true m (a_policy a)) as [m1 [|e1]];
      [|intros H; inversion H; reflexivity].
    destruct (build_links_am am m1) as [[am2 m2] e2] eqn:Hb. intros H; inversion H; subst.
    cbn [map]. rewrite (IH _ _ _ _ Hb). reflexivity.
Qed.

Lemma defs_of_build_of : forall md md' m' e, build_of md = (md', m', e) -> defs_of md' = defs_of md.
Proof.
  intros md md' m' e. unfold build_of. destruct (assoc s_g md) as [am|] eqn:Hs.
  - destruct (build_links_am am []) as [[am' m2] e2] eqn:Hb. intros H; inversion H; subst.
    apply (defs_of_assoc_set s_g am); [exact Hs|]. eapply rst_build_links_am, Hb.
  - intros H; inversion H; reflexivity.
Qed.

Lemma defs_of_clean : forall md, clean_model md = true -> defs_of md = md.
Proof.
  intros md. unfold clean_model, defs_of. induction md as [|[sec am] md IH]; cbn [forallb map fst snd];
    [reflexivity|].
  intros H. apply andb_true_iff in H. destruct H as [Ha Hr]. rewrite (IH Hr). f_equal. f_equal.
  clear IH Hr. induction am as [|[k a] am IHa]; cbn [forallb map fst snd] in *; [reflexivity|].
  apply andb_true_iff in Ha. destruct Ha as [Hc Hr]. rewrite (IHa Hr). f_equal. f_equal.
  unfold clean_ast in Hc. destruct a as [v t p h]. cbn in *.
  destruct p; [|discriminate]. destruct h; try discriminate. reflexivity.
Qed.

(* after a successful set_model with a parsed definition, re-parsing the
   definition of the state gives that definition back *)
Lemma def_of_set_model : forall s d s' b, e_auto_build s = true -> clean_def d = true ->
  step s (OSetModel d) = (s', Ok b) -> def_of s' = d.
Proof.
  intros s d s' b Hab Hcl Hstep.
  destruct (set_model_core s d s' b Hab Hstep) as (ad & md & md' & m' & G & Hl & Hb & HG & Hc).
  unfold def_of.
  assert (Hm : e_model s' = md') by (apply (f_equal k_model) in Hc; exact Hc).
  assert (Hx : e_mexprs s' = d_mexprs d) by (apply (f_equal k_mexprs) in Hc; exact Hc).
  rewrite Hm, Hx, (defs_of_build_of _ _ _ _ Hb), (defs_of_ad_load _ _ _ _ _ Hl), defs_of_clear,
    (defs_of_clean _ Hcl).
  destruct d; reflexivity.
Qed.

(* C18 for set_model in the purist form: against the enforcer built from the
   re-parsed definition of the reconfigured state *)
Theorem set_model_fresh_parsed : forall s d s' b,
  step s (OSetModel d) = (s', Ok b) ->
  clean_def d = true ->
  e_auto_build s = true ->
  ad_is_filtered (e_adapter s) = false ->
  no_leftover (f_gfuns (e_fs s)) (d_model d) = true ->
  exists sf, fresh_from (def_of s') (e_adapter s) s' = (sf, Ok true) /\ st_equiv s' sf.
Proof.
  intros s d s' b Hstep Hcl Hab Hnf Hnl.
  rewrite (def_of_set_model s d s' b Hab Hcl Hstep).
  destruct (set_model_fresh s d s' b Hstep Hab Hnf Hnl) as (sf & Hf & He & _).
  exists sf. auto.
Qed.

(* ================= I1. the fresh enforcer built NOW ================= *)
(* an unscripted adapter loads the same lines again, and a full load resets
   its filtered mark *)
Lemma ad_load_unscripted : forall a X a' X' r, ad_unscripted a = true ->
  ad_load a X = (a', X', r) ->
  r = LROk /\ ad_is_filtered a' = false /\ ad_load a' X = (a', X', LROk).
Proof.
  intros a X a' X' r Hu. destruct a; try discriminate; cbn [ad_load ad0_load];
    intros H; inversion H; subst; cbn [ad_load ad0_load ad_is_filtered]; auto.
Qed.

(* C18 for set_model against `fresh_of`: the enforcer built now, from the
   re-parsed definition and the adapter the state holds after the call. No
   condition on the filtered mark: the reload has reset it. *)
Theorem set_model_fresh_of : forall s d s' b,
  step s (OSetModel d) = (s', Ok b) ->
  clean_def d = true ->
  e_auto_build s = true ->
  ad_unscripted (e_adapter s) = true ->
  no_leftover (f_gfuns (e_fs s)) (d_model d) = true ->
  exists sf, fresh_of s' = (sf, Ok true) /\ st_equiv s' sf /\
             e_adapter sf = e_adapter s' /\ e_model sf = e_model s' /\
             f_rm (e_fs sf) = f_rm (e_fs s').
Proof.
  intros s d s' b Hstep Hcl Hab Hun Hnl. unfold fresh_of.
  rewrite (def_of_set_model s d s' b Hab Hcl Hstep).
  destruct (set_model_core s d s' b Hab Hstep) as (ad & md & md' & m' & G & Hl & Hb & HG & Hc).
  destruct (ad_load_unscripted _ _ _ _ _ Hun Hl) as (_ & Hnf & Hl2).
  assert (Ha : e_adapter s' = ad) by (apply (f_equal k_adapter) in Hc; exact Hc).
  rewrite Ha.
  assert (Hreg : snd (reg_keys (model_gkeys (d_model d)) []) = LOk).
  { pose proof (reg_keys_err (model_gkeys (d_model d)) [] (f_gfuns (e_fs s))) as He.
    rewrite HG in He. exact He. }
  destruct (fresh_from_core d ad s' ad md md' m' Hnf Hreg Hl2 Hb)
    as (sf & Gf & Hf & HGf & Hcf).
  exists sf. split; [exact Hf|].
  assert (HGx : gf_exact G (model_gkeys (d_model d))).
  { intros k. rewrite (find_reg_keys _ _ G HG k).
    destruct (memb gkey_eqb k (model_gkeys (d_model d))) eqn:Ek; [reflexivity|].
    apply (no_leftover_spec _ _ k Hnl Ek). }
  split; [|split; [|split]].
  - apply (st_equiv_of_cores s' sf (model_gkeys (d_model d))); rewrite ?Hcf, ?Hc; cbn;
      try reflexivity; try assumption;
      try (symmetry; apply (f_equal k_rm_max) in Hc; exact Hc);
      try (symmetry; apply (f_equal k_ufuns) in Hc; exact Hc);
      try (symmetry; apply (f_equal k_enabled) in Hc; exact Hc).
  - apply (f_equal k_adapter) in Hcf. cbn in Hcf. congruence.
  - apply (f_equal k_model) in Hc, Hcf. cbn in Hc, Hcf. congruence.
  - apply (f_equal k_rm) in Hc, Hcf. cbn in Hc, Hcf. congruence.
Qed.

(* the same for set_adapter: against the enforcer built now from the model
   store and the adapter as it is after the call *)
Theorem set_adapter_fresh_now : forall s a s' b,
  step s (OSetAdapter a) = (s', Ok b) ->
  e_auto_build s = true ->
  ad_unscripted a = true ->
  gfuns_exactb (f_gfuns (e_fs s)) (e_model s) = true ->
  exists sf, fresh_from (cur_def s) (e_adapter s') s' = (sf, Ok true) /\ st_equiv s' sf /\
             e_adapter sf = e_adapter s' /\ e_model sf = e_model s' /\
             f_rm (e_fs sf) = f_rm (e_fs s').
Proof.
  intros s a s' b Hstep Hab Hun Hgx. cbn [step] in Hstep. unfold step_set_adapter in Hstep.
  apply step_load_ok in Hstep; [|exact Hab].
  destruct Hstep as (ad & md & md' & m' & Hl & Hb & Hc).
  cbn [upd_adapter e_adapter e_model e_mexprs e_fs e_enabled e_auto_save e_auto_notify e_watcher] in *.
  destruct (ad_load_unscripted _ _ _ _ _ Hun Hl) as (_ & Hnf & Hl2).
  assert (Ha : e_adapter s' = ad) by (apply (f_equal k_adapter) in Hc; exact Hc).
  rewrite Ha.
  destruct (gfuns_exactb_spec _ _ Hgx) as [Hreg Hgf].
  destruct (fresh_from_core (cur_def s) ad s' ad md md' m' Hnf Hreg Hl2 Hb)
    as (sf & Gf & Hf & HGf & Hcf).
  cbn [cur_def d_model d_mexprs] in *.
  exists sf. split; [exact Hf|]. split; [|split; [|split]].
  - apply (st_equiv_of_cores s' sf (model_gkeys (e_model s))); rewrite ?Hcf, ?Hc; cbn;
      try reflexivity; try assumption;
      try (symmetry; apply (f_equal k_rm_max) in Hc; exact Hc);
      try (symmetry; apply (f_equal k_ufuns) in Hc; exact Hc);
      try (symmetry; apply (f_equal k_enabled) in Hc; exact Hc).
  - apply (f_equal k_adapter) in Hcf. cbn in Hcf. congruence.
  - apply (f_equal k_model) in Hc, Hcf. cbn in Hc, Hcf. congruence.
  - apply (f_equal k_rm) in Hc, Hcf. cbn in Hc, Hcf. congruence.
Qed.

(* ================= I2. leftovers that are never called ================= *)
(* equivalence up to the role functions under names outside P *)
Definition fs_equiv_on (P : text -> Prop) (f1 f2 : fstate) : Prop :=
  f_rm f1 = f_rm f2 /\ f_rm_max f1 = f_rm_max f2 /\ f_ufuns f1 = f_ufuns f2 /\
  forall f n, P f -> find_gfun (f, n) (f_gfuns f1) = find_gfun (f, n) (f_gfuns f2).

Definition st_equiv_on (P : text -> Prop) (s1 s2 : estate) : Prop :=
  model_same (e_model s1) (e_model s2) /\ e_mexprs s1 = e_mexprs s2 /\
  e_enabled s1 = e_enabled s2 /\
  ad_is_filtered (e_adapter s1) = ad_is_filtered (e_adapter s2) /\
  fs_equiv_on P (e_fs s1) (e_fs s2).

(* every function an expression calls by name is in P *)
Definition calls_in (P : text -> Prop) (e : expr) : Prop := forall f, In f (fnames e) -> P f.

Lemma call_fn_equiv_on : forall P f1 f2 f args, fs_equiv_on P f1 f2 -> P f ->
  call_fn f1 f args = call_fn f2 f args.
Proof.
  intros P f1 f2 f args (Hr & Hm & Hu & Hg) HP. unfold call_fn.
  destruct (all_strs args) as [ss|]; [|reflexivity]. rewrite Hu.
  destruct (match assoc f (f_ufuns f2) with Some u => run_ufun u ss | None => None end);
    [reflexivity|].
  rewrite (Hg f (length ss) HP).
  destruct (find_gfun (f, length ss) (f_gfuns f2)) as [h|]; [|reflexivity].
  assert (Hh : forall a b d, handle_has_link f1 h a b d = handle_has_link f2 h a b d).
  { intros a b d. destruct h; cbn [handle_has_link]; [reflexivity| |reflexivity].
    rewrite Hr, Hm. reflexivity. }
  destruct ss as [|a [|b [|d [|x ss]]]]; try reflexivity; rewrite Hh; reflexivity.
Qed.

Lemma Forall_calls (P : text -> Prop) (R : expr -> Prop) xs :
  Forall (fun y => calls_in P y -> R y) xs ->
  (forall y, In y xs -> calls_in P y) -> Forall R xs.
Proof. intros HF HP. rewrite Forall_forall in *. intros y Hy. apply HF; auto. Qed.

(* evaluation, eval() included, when every callable name is in P *)
Lemma eval_ext_on : forall (P : text -> Prop) call1 call2 ptab,
  (forall f args, P f -> call1 f args = call2 f args) ->
  (forall t e', ptab t = Some e' -> calls_in P e') ->
  forall fuel sc e, calls_in P e -> eval call1 ptab sc fuel e = eval call2 ptab sc fuel e.
Proof.
  intros P call1 call2 ptab Hc Hpt. unfold calls_in in *.
  induction fuel as [|fuel IHf]; intros sc e;
    induction e as [v|p f|a f IHa|a b IHa IHb|a b IHa IHb|c a b IHa IHb|a b IHa IHb
                    |a b IHa IHb|a IHa|a xs IHa IHxs|f args IHargs|p f] using expr_ind';
    cbn [fnames]; intros Hin;
    rewrite ?eval_ELit, ?eval_EVar, ?eval_EProp, ?eval_EEq, ?eval_ENeq, ?eval_ECmp,
      ?eval_EAnd, ?eval_EOr, ?eval_ENot, ?eval_EIn, ?eval_ECall;
    try reflexivity;
    try (rewrite IHa by (intros; apply Hin; try apply in_or_app; auto);
         rewrite ?IHb by (intros; apply Hin; try apply in_or_app; auto);
         reflexivity).
  - rewrite IHa by (intros; apply Hin, in_or_app; auto).
    destruct (eval call2 ptab sc 0 a); try reflexivity.
    apply in_go_ext. eapply Forall_calls; [exact IHxs|].
    intros y Hy g Hg. apply Hin, in_or_app. right. apply in_flat_map. exists y. auto.
  - apply call_go_ext.
    + intros args0. apply Hc, Hin. left. reflexivity.
    + eapply Forall_calls; [exact IHargs|].
      intros y Hy g Hg. apply Hin. right. apply in_flat_map. exists y. auto.
  - rewrite IHa by (intros; apply Hin, in_or_app; auto).
    destruct (eval call2 ptab sc (S fuel) a); try reflexivity.
    apply in_go_ext. eapply Forall_calls; [exact IHxs|].
    intros y Hy g Hg. apply Hin, in_or_app. right. apply in_flat_map. exists y. auto.
  - apply call_go_ext.
    + intros args0. apply Hc, Hin. left. reflexivity.
    + eapply Forall_calls; [exact IHargs|].
      intros y Hy g Hg. apply Hin. right. apply in_flat_map. exists y. auto.
  - rewrite !eval_EEval.
    destruct (assoc (tok p f) sc) as [[s| | | |]|]; try reflexivity.
    destruct (teqb s []); [reflexivity|].
    destruct (ptab (escape_assertion s)) as [e'|] eqn:Hp; [|reflexivity].
    apply IHf. intros g Hg. eapply Hpt; eassumption.
Qed.

Section OnP.
  Variable P : text -> Prop.
  Variable ptab : text -> option expr.
  Hypothesis Hptab : forall t e', ptab t = Some e' -> calls_in P e'.

  Lemma eval_matcher_equiv_on : forall f1 f2 m sc, fs_equiv_on P f1 f2 -> calls_in P m ->
    eval_matcher ptab f1 m sc = eval_matcher ptab f2 m sc.
  Proof.
    intros f1 f2 m sc He Hm. unfold eval_matcher.
    rewrite (eval_ext_on P (call_fn f1) (call_fn f2) ptab); [reflexivity| |exact Hptab|exact Hm].
    intros f args HP. apply (call_fn_equiv_on P); assumption.
  Qed.

  Lemma rules_loop_equiv_on : forall f1 f2 m et ptoks sc0 rules st,
    fs_equiv_on P f1 f2 -> calls_in P m ->
    rules_loop ptab f1 m et ptoks sc0 st rules = rules_loop ptab f2 m et ptoks sc0 st rules.
  Proof.
    intros f1 f2 m et ptoks sc0 rules st He Hm. revert st.
    induction rules as [|pv rest IH]; intros st; cbn [rules_loop]; [reflexivity|].
    destruct (negb (Nat.eqb (length ptoks) (length pv))); [reflexivity|].
    rewrite (eval_matcher_equiv_on f1 f2 _ _ He Hm).
    destruct (eval_matcher ptab f2 m _) as [b|e|]; try reflexivity.
    destruct (done (push st _)); [reflexivity|apply IH].
  Qed.

  Lemma enforce_core_equiv_on : forall en md1 md2 mx f1 f2 rk pk ek mk et rv,
    model_same md1 md2 -> fs_equiv_on P f1 f2 ->
    (forall k m, assoc k mx = Some m -> calls_in P m) ->
    enforce_core ptab en md1 mx f1 rk pk ek mk et rv =
    enforce_core ptab en md2 mx f2 rk pk ek mk et rv.
  Proof.
    intros en md1 md2 mx f1 f2 rk pk ek mk et rv Hm Hf Hmx. unfold enforce_core.
    destruct (negb en); [reflexivity|].
    rewrite !(get_ast_same md1 md2 _ _ Hm).
    destruct (get_ast md2 s_r rk) as [r_ast|]; [|reflexivity].
    destruct (get_ast md2 s_p pk) as [p_ast|]; [|reflexivity].
    destruct (get_ast md2 s_m mk) as [m_ast|]; [|reflexivity].
    destruct (get_ast md2 s_e ek) as [e_ast|]; [|reflexivity].
    destruct (negb (Nat.eqb (length (a_tokens r_ast)) (length rv))); [reflexivity|].
    cbv zeta. destruct (new_stream _ _) as [st|]; [|reflexivity].
    destruct (assoc mk mx) as [m|] eqn:Hmk; [|reflexivity].
    pose proof (Hmx mk m Hmk) as Hcm.
    destruct (a_policy p_ast) as [|r0 rules].
    - rewrite (eval_matcher_equiv_on f1 f2 _ _ Hf Hcm). reflexivity.
    - apply rules_loop_equiv_on; assumption.
  Qed.

  Definition matchers_in (s : estate) : Prop :=
    forall k m, assoc k (e_mexprs s) = Some m -> calls_in P m.

  Lemma enforce_equiv_on : forall s1 s2 rv, st_equiv_on P s1 s2 -> matchers_in s2 ->
    enforce ptab s1 rv = enforce ptab s2 rv.
  Proof.
    intros s1 s2 rv (Hm & Hx & He & _ & Hf) Hmi. unfold enforce, enforce_plain.
    rewrite Hx, He. apply enforce_core_equiv_on; assumption.
  Qed.

  Lemma enforce_ctx_equiv_on : forall s1 s2 k rv, st_equiv_on P s1 s2 -> matchers_in s2 ->
    enforce_with_ctx ptab s1 k rv = enforce_with_ctx ptab s2 k rv.
  Proof.
    intros s1 s2 k rv (Hm & Hx & He & _ & Hf) Hmi. unfold enforce_with_ctx, enforce_ctx.
    rewrite Hx, He. apply enforce_core_equiv_on; assumption.
  Qed.

  (* role functions are consulted by decisions only: every other query reads
     the parts on which the two states agree outright *)
  Lemma st_equiv_on_weaken : forall s1 s2, st_equiv_on P s1 s2 ->
    st_equiv s1 {| e_model := e_model s2; e_mexprs := e_mexprs s2; e_adapter := e_adapter s2;
                   e_fs := {| f_rm := f_rm (e_fs s2); f_rm_max := f_rm_max (e_fs s2);
                              f_gfuns := f_gfuns (e_fs s1); f_ufuns := f_ufuns (e_fs s2) |};
                   e_enabled := e_enabled s2; e_auto_save := e_auto_save s2;
                   e_auto_build := e_auto_build s2; e_auto_notify := e_auto_notify s2;
                   e_callbacks := e_callbacks s2; e_watcher := e_watcher s2; e_wlog := e_wlog s2 |}.
  Proof.
    intros s1 s2 (Hm & Hx & He & Ha & Hr & Hmx & Hu & _).
    unfold st_equiv, fs_equiv. cbn. repeat split; assumption.
  Qed.

  Theorem ask_equiv_on : forall s1 s2 q, st_equiv_on P s1 s2 -> matchers_in s2 ->
    ask ptab s1 q = ask ptab s2 q.
  Proof.
    intros s1 s2 q He Hmi.
    pose proof (st_equiv_on_weaken s1 s2 He) as Hw.
    set (s2' := {| e_model := e_model s2; e_mexprs := e_mexprs s2; e_adapter := e_adapter s2;
                   e_fs := {| f_rm := f_rm (e_fs s2); f_rm_max := f_rm_max (e_fs s2);
                              f_gfuns := f_gfuns (e_fs s1); f_ufuns := f_ufuns (e_fs s2) |};
                   e_enabled := e_enabled s2; e_auto_save := e_auto_save s2;
                   e_auto_build := e_auto_build s2; e_auto_notify := e_auto_notify s2;
                   e_callbacks := e_callbacks s2; e_watcher := e_watcher s2;
                   e_wlog := e_wlog s2 |}) in *.
    assert (He2 : st_equiv_on P s2' s2).
    { destruct He as (Hm & Hx & Hen & Ha & Hr & Hmx & Hu & Hg).
      unfold st_equiv_on, fs_equiv_on, s2'. cbn. repeat split; try reflexivity. exact Hg. }
    rewrite (ask_equiv ptab s1 s2' q Hw).
    destruct q; cbn [ask]; try reflexivity.
    - rewrite (enforce_equiv_on s2' s2 rv He2 Hmi). reflexivity.
    - rewrite (enforce_ctx_equiv_on s2' s2 k rv He2 Hmi). reflexivity.
    - unfold implicit_users. cbn [s2' e_model e_fs f_rm].
      destruct (m_values (e_model s2) s_p s_p 0) as [c0|]; [|reflexivity].
      destruct (m_values (e_model s2) s_g s_g 1) as [c1|]; [|reflexivity].
      rewrite (existsb_ext_pt
                 (fun u => match enforce ptab s2' (map VStr (u :: perm)) with Panic => true | _ => false end)
                 (fun u => match enforce ptab s2 (map VStr (u :: perm)) with Panic => true | _ => false end))
        by (intros u; cbv beta; rewrite (enforce_equiv_on s2' s2 _ He2 Hmi); reflexivity).
      rewrite (filter_ext
                 (fun u => match enforce ptab s2' (map VStr (u :: perm)) with Ok true => true | _ => false end)
                 (fun u => match enforce ptab s2 (map VStr (u :: perm)) with Ok true => true | _ => false end))
        by (intros u; cbv beta; rewrite (enforce_equiv_on s2' s2 _ He2 Hmi); reflexivity).
      reflexivity.
  Qed.

  Theorem st_equiv_on_obs_eq : forall s1 s2, st_equiv_on P s1 s2 -> matchers_in s2 ->
    obs_eq ptab s1 s2.
  Proof.
    intros s1 s2 He Hmi q. rewrite (ask_equiv_on s1 s2 q He Hmi). apply answer_equiv_refl.
  Qed.
End OnP.

Lemma safe_name_spec : forall gf md f n, safe_name gf md f = true ->
  memb gkey_eqb (f, n) (model_gkeys md) = false -> find_gfun (f, n) gf = None.
Proof.
  intros gf md f n Hs Hk. destruct (find_gfun (f, n) gf) as [h|] eqn:Hf; [|reflexivity].
  apply find_gfun_In in Hf. unfold safe_name in Hs. rewrite forallb_forall in Hs.
  specialize (Hs _ Hf). cbn [fst] in Hs. rewrite teqb_refl in Hs. cbn [negb orb] in Hs. congruence.
Qed.

(* C18 for set_model when role functions of the old model survive: they do no
   harm as long as nothing the new model can evaluate calls them *)
Theorem set_model_fresh_calls : forall ptab s d s' b,
  step s (OSetModel d) = (s', Ok b) ->
  e_auto_build s = true ->
  ad_is_filtered (e_adapter s) = false ->
  let safe := fun f => safe_name (f_gfuns (e_fs s)) (d_model d) f = true in
  (forall k m, assoc k (d_mexprs d) = Some m -> calls_in safe m) ->
  (forall t e', ptab t = Some e' -> calls_in safe e') ->
  exists sf, fresh_from d (e_adapter s) s' = (sf, Ok true) /\ obs_eq ptab s' sf.
Proof.
  intros ptab s d s' b Hstep Hab Hnf safe Hmx Hpt.
  destruct (set_model_core s d s' b Hab Hstep) as (ad & md & md' & m' & G & Hl & Hb & HG & Hc).
  assert (Hreg : snd (reg_keys (model_gkeys (d_model d)) []) = LOk).
  { pose proof (reg_keys_err (model_gkeys (d_model d)) [] (f_gfuns (e_fs s))) as He.
    rewrite HG in He. exact He. }
  destruct (fresh_from_core d (e_adapter s) s' ad md md' m' Hnf Hreg Hl Hb)
    as (sf & Gf & Hf & HGf & Hcf).
  exists sf. split; [exact Hf|].
  apply (st_equiv_on_obs_eq safe ptab Hpt).
  - unfold st_equiv_on, fs_equiv_on.
    pose proof (f_equal k_model Hc) as E1. pose proof (f_equal k_model Hcf) as F1.
    pose proof (f_equal k_mexprs Hc) as E2. pose proof (f_equal k_mexprs Hcf) as F2.
    pose proof (f_equal k_adapter Hc) as E3. pose proof (f_equal k_adapter Hcf) as F3.
    pose proof (f_equal k_rm Hc) as E4. pose proof (f_equal k_rm Hcf) as F4.
    pose proof (f_equal k_rm_max Hcf) as F5. pose proof (f_equal k_ufuns Hcf) as F6.
    pose proof (f_equal k_enabled Hcf) as F7.
    pose proof (f_equal k_gfuns Hc) as E8. pose proof (f_equal k_gfuns Hcf) as F8.
    cbn in *. rewrite E1, F1, E2, F2, E3, F3, E4, F4, F5, F6, F7, E8, F8.
    split; [apply model_same_refl|]. repeat split.
    intros f n Hsafe. rewrite (find_reg_keys _ _ G HG (f, n)), (HGf (f, n)).
    destruct (memb gkey_eqb (f, n) (model_gkeys (d_model d))) eqn:Ek; [reflexivity|].
    apply (safe_name_spec _ _ f n Hsafe Ek).
  - intros k m Hk. apply (Hmx k m). pose proof (f_equal k_mexprs Hcf) as F2. cbn in F2.
    rewrite F2 in Hk. exact Hk.
Qed.

(* the same for the other four calls *)
Definition gf_exact_on (P : text -> Prop) (gf : list ((text * nat) * handle)) (ks : list (text * nat)) : Prop :=
  forall f n, P f -> find_gfun (f, n) gf = if memb gkey_eqb (f, n) ks then Some HCur else None.

Lemma obs_eq_from_cores : forall ptab (P : text -> Prop) s1 s2 ks,
  (forall t e', ptab t = Some e' -> calls_in P e') ->
  k_model (core_of s1) = k_model (core_of s2) ->
  k_mexprs (core_of s1) = k_mexprs (core_of s2) ->
  ad_is_filtered (k_adapter (core_of s1)) = ad_is_filtered (k_adapter (core_of s2)) ->
  k_rm (core_of s1) = k_rm (core_of s2) -> k_rm_max (core_of s1) = k_rm_max (core_of s2) ->
  k_ufuns (core_of s1) = k_ufuns (core_of s2) -> k_enabled (core_of s1) = k_enabled (core_of s2) ->
  gf_exact_on P (k_gfuns (core_of s1)) ks -> gf_exact (k_gfuns (core_of s2)) ks ->
  (forall k m, assoc k (e_mexprs s2) = Some m -> calls_in P m) ->
  obs_eq ptab s1 s2.
Proof.
  intros ptab P s1 s2 ks Hpt Hm Hx Ha Hr Hmx Hu He Hg1 Hg2 Hmi. cbn in *.
  apply (st_equiv_on_obs_eq P ptab Hpt); [|exact Hmi].
  unfold st_equiv_on, fs_equiv_on. rewrite Hm. split; [apply model_same_refl|].
  repeat split; try assumption.
  intros f n HP. rewrite (Hg1 f n HP), (Hg2 (f, n)). reflexivity.
Qed.

Lemma gf_exact_on_current : forall gf md,
  gfuns_current gf md = true ->
  gf_exact_on (fun f => safe_name gf md f = true) gf (model_gkeys md).
Proof.
  intros gf md Hc f n Hs. destruct (memb gkey_eqb (f, n) (model_gkeys md)) eqn:Ek.
  - apply (gfuns_current_spec gf md _ Hc Ek).
  - apply (safe_name_spec gf md f n Hs Ek).
Qed.

Theorem set_adapter_fresh_calls : forall ptab s a s' b,
  step s (OSetAdapter a) = (s', Ok b) ->
  e_auto_build s = true -> ad_is_filtered a = false ->
  gdefs_ok (e_model s) = true -> gfuns_current (f_gfuns (e_fs s)) (e_model s) = true ->
  let safe := fun f => safe_name (f_gfuns (e_fs s)) (e_model s) f = true in
  (forall k m, assoc k (e_mexprs s) = Some m -> calls_in safe m) ->
  (forall t e', ptab t = Some e' -> calls_in safe e') ->
  exists sf, fresh_from (cur_def s) a s' = (sf, Ok true) /\ obs_eq ptab s' sf.
Proof.
  intros ptab s a s' b Hstep Hab Hnf Hgd Hgc safe Hmx Hpt.
  cbn [step] in Hstep. unfold step_set_adapter in Hstep.
  apply step_load_ok in Hstep; [|exact Hab].
  destruct Hstep as (ad & md & md' & m' & Hl & Hb & Hc).
  cbn [upd_adapter e_adapter e_model e_mexprs e_fs e_enabled e_auto_save e_auto_notify e_watcher] in *.
  assert (Hreg : snd (reg_keys (model_gkeys (d_model (cur_def s))) []) = LOk)
    by (apply gdefs_ok_reg, Hgd).
  destruct (fresh_from_core (cur_def s) a s' ad md md' m' Hnf Hreg Hl Hb)
    as (sf & Gf & Hf & HGf & Hcf).
  cbn [cur_def d_model d_mexprs] in *.
  exists sf. split; [exact Hf|].
  apply (obs_eq_from_cores ptab safe s' sf (model_gkeys (e_model s)) Hpt); rewrite ?Hcf, ?Hc; cbn;
    try reflexivity; try assumption;
    try (symmetry; apply (f_equal k_rm_max) in Hc; exact Hc);
    try (symmetry; apply (f_equal k_ufuns) in Hc; exact Hc);
    try (symmetry; apply (f_equal k_enabled) in Hc; exact Hc).
  - apply gf_exact_on_current, Hgc.
  - intros k m Hk. apply (Hmx k m). pose proof (f_equal k_mexprs Hcf) as F2. cbn in F2.
    rewrite F2 in Hk. exact Hk.
Qed.

Lemma synced_fresh_calls : forall ptab s,
  Synced s -> ad_is_filtered (e_adapter s) = false ->
  gdefs_ok (e_model s) = true ->
  forall safe : text -> Prop,
  gf_exact_on safe (f_gfuns (e_fs s)) (model_gkeys (e_model s)) ->
  (forall k m, assoc k (e_mexprs s) = Some m -> calls_in safe m) ->
  (forall t e', ptab t = Some e' -> calls_in safe e') ->
  exists sf, fresh_from (cur_def s) (e_adapter s) s = (sf, Ok true) /\ obs_eq ptab s sf.
Proof.
  intros ptab s (ad & md & Hl & Hb & Hfl) Hnf Hgd safe Hgx Hmx Hpt.
  assert (Hreg : snd (reg_keys (model_gkeys (d_model (cur_def s))) []) = LOk)
    by (apply gdefs_ok_reg, Hgd).
  destruct (fresh_from_core (cur_def s) (e_adapter s) s ad md _ _ Hnf Hreg Hl Hb)
    as (sf & Gf & Hf & HGf & Hcf).
  cbn [cur_def d_model d_mexprs] in *.
  exists sf. split; [exact Hf|].
  apply (obs_eq_from_cores ptab safe s sf (model_gkeys (e_model s)) Hpt); rewrite ?Hcf; cbn;
    try reflexivity; try assumption.
  - symmetry. exact Hfl.
  - intros k m Hk. apply (Hmx k m). pose proof (f_equal k_mexprs Hcf) as F2. cbn in F2.
    rewrite F2 in Hk. exact Hk.
Qed.

Theorem set_effector_fresh_calls : forall ptab s s' b,
  step s OSetEffector = (s', Ok b) ->
  Synced s -> ad_is_filtered (e_adapter s) = false ->
  gdefs_ok (e_model s) = true -> gfuns_current (f_gfuns (e_fs s)) (e_model s) = true ->
  let safe := fun f => safe_name (f_gfuns (e_fs s)) (e_model s) f = true in
  (forall k m, assoc k (e_mexprs s) = Some m -> calls_in safe m) ->
  (forall t e', ptab t = Some e' -> calls_in safe e') ->
  exists sf, fresh_from (cur_def s') (e_adapter s') s' = (sf, Ok true) /\ obs_eq ptab s' sf.
Proof.
  intros ptab s s' b Hstep Hsy Hnf Hgd Hgc safe Hmx Hpt. cbn [step] in Hstep.
  inversion Hstep; subst s'.
  apply (synced_fresh_calls ptab s Hsy Hnf Hgd safe); try assumption.
  apply gf_exact_on_current, Hgc.
Qed.

Theorem add_function_fresh_calls : forall ptab s n u s' b,
  step s (OAddFunction n u) = (s', Ok b) ->
  Synced s -> ad_is_filtered (e_adapter s) = false ->
  gdefs_ok (e_model s) = true -> gfuns_current (f_gfuns (e_fs s)) (e_model s) = true ->
  let safe := fun f => safe_name (f_gfuns (e_fs s)) (e_model s) f = true in
  (forall k m, assoc k (e_mexprs s) = Some m -> calls_in safe m) ->
  (forall t e', ptab t = Some e' -> calls_in safe e') ->
  exists sf, fresh_from (cur_def s') (e_adapter s') s' = (sf, Ok true) /\ obs_eq ptab s' sf.
Proof.
  intros ptab s n u s' b Hstep Hsy Hnf Hgd Hgc safe Hmx Hpt. cbn [step] in Hstep.
  inversion Hstep; subst s'. clear Hstep.
  match goal with |- context [fresh_from _ _ ?st] => set (s1 := st) end.
  assert (Hsy1 : Synced s1).
  { destruct Hsy as (ad & md & Hl & Hb & Hfl). exists ad, md. auto. }
  apply (synced_fresh_calls ptab s1 Hsy1 Hnf Hgd safe); try assumption.
  apply (gf_exact_on_current (f_gfuns (e_fs s)) (e_model s)), Hgc.
Qed.

Theorem set_role_manager_fresh_calls : forall ptab s mx s' b,
  step s (OSetRoleManager mx) = (s', Ok b) ->
  Synced s -> e_auto_build s = true -> ad_is_filtered (e_adapter s) = false ->
  let safe := fun f => safe_name (f_gfuns (e_fs s)) (e_model s) f = true in
  (forall k m, assoc k (e_mexprs s) = Some m -> calls_in safe m) ->
  (forall t e', ptab t = Some e' -> calls_in safe e') ->
  exists sf, fresh_from (cur_def s') (e_adapter s') s' = (sf, Ok true) /\ obs_eq ptab s' sf.
Proof.
  intros ptab s mx s' b Hstep Hsy Hab Hnf safe Hmx Hpt. cbn [step] in Hstep.
  assert (Hbuilt : Built (e_model s) (f_rm (e_fs s))).
  { destruct Hsy as (ad & md & _ & Hb & _). eapply build_of_idem, Hb. }
  destruct (set_role_manager_core s mx s' (Ok b) Hab Hbuilt Hstep) as [Hr Hc].
  unfold reg_of in Hr, Hc.
  destruct (reg_keys (model_gkeys (e_model s)) (frozen_gfuns s)) as [G e] eqn:HG.
  cbn [fst snd] in *. assert (He : e = LOk) by (destruct e; [reflexivity|discriminate]). subst e.
  assert (Hm : e_model s' = e_model s) by (apply (f_equal k_model) in Hc; exact Hc).
  assert (Hx : e_mexprs s' = e_mexprs s) by (apply (f_equal k_mexprs) in Hc; exact Hc).
  assert (Ha : e_adapter s' = e_adapter s) by (apply (f_equal k_adapter) in Hc; exact Hc).
  assert (Hrm : f_rm (e_fs s') = f_rm (e_fs s)) by (apply (f_equal k_rm) in Hc; exact Hc).
  assert (Hg : f_gfuns (e_fs s') = G) by (apply (f_equal k_gfuns) in Hc; exact Hc).
  assert (Hsy' : Synced s').
  { destruct Hsy as (ad & md & Hl & Hb & Hfl). exists ad, md. rewrite Hm, Ha, Hrm. auto. }
  assert (Hgd : gdefs_ok (e_model s') = true).
  { rewrite Hm. unfold gdefs_ok.
    assert (Hgen : forall ks gf G0, reg_keys ks gf = (G0, LOk) ->
              forallb (fun kc : text * nat => Nat.eqb (snd kc) 2 || Nat.eqb (snd kc) 3) ks = true).
    { induction ks as [|[k c] ks IH]; intros gf G0; cbn [reg_keys forallb snd]; [reflexivity|].
      destruct (Nat.eqb c 2); [intros H; rewrite (IH _ _ H); reflexivity|].
      destruct (Nat.eqb c 3); [intros H; rewrite (IH _ _ H); reflexivity|discriminate]. }
    apply (Hgen _ _ _ HG). }
  apply (synced_fresh_calls ptab s' Hsy' (eq_trans (f_equal ad_is_filtered Ha) Hnf) Hgd safe).
  - rewrite Hg, Hm. intros f n Hs. rewrite (find_reg_keys _ _ G HG (f, n)).
    destruct (memb gkey_eqb (f, n) (model_gkeys (e_model s))) eqn:Ek; [reflexivity|].
    unfold frozen_gfuns. rewrite find_gfun_map, (safe_name_spec _ _ f n Hs Ek). reflexivity.
  - rewrite Hx. exact Hmx.
  - exact Hpt.
Qed.

(* ================= J. examples and witnesses ================= *)

Definition x_lines : list rule :=
  [pl admin data1 read; gl alice admin; g2l data1 data2; pl root data2 write; gl admin root].
Definition x_rbac := mk rbac_def (mem x_lines).
Definition x_rbac2 := mk rbac2_def (mem x_lines).
Definition k_req := req alice data1 read.

(* --- non-vacuity: the hypotheses of each theorem hold of a concrete state --- *)
Lemma ex_set_model_hyps :
  snd (step x_rbac (OSetModel rbac2_def)) = Ok true /\ e_auto_build x_rbac = true /\
  ad_is_filtered (e_adapter x_rbac) = false /\ clean_def rbac2_def = true /\
  no_leftover (f_gfuns (e_fs x_rbac)) (d_model rbac2_def) = true.
Proof. vm_compute. repeat split; reflexivity. Qed.

(* ... also with a non-default hierarchy limit and a user function installed *)
Definition x_rbac_cfg :=
  run_ops x_rbac [OSetRoleManager 3; OAddFunction (T "f") UTrue; OEnableAutoSave false].
Lemma ex_set_model_hyps_cfg :
  snd (step x_rbac_cfg (OSetModel rbac2_def)) = Ok true /\ e_auto_build x_rbac_cfg = true /\
  ad_is_filtered (e_adapter x_rbac_cfg) = false /\
  no_leftover (f_gfuns (e_fs x_rbac_cfg)) (d_model rbac2_def) = true /\
  f_rm_max (e_fs x_rbac_cfg) = 3.
Proof. vm_compute. repeat split; reflexivity. Qed.

Definition x_lines2 : list rule := [pl root data1 read; gl bob root].
Lemma ex_set_adapter_hyps :
  snd (step x_rbac (OSetAdapter (mem x_lines2))) = Ok true /\ e_auto_build x_rbac = true /\
  ad_is_filtered (mem x_lines2) = false /\
  gfuns_exactb (f_gfuns (e_fs x_rbac)) (e_model x_rbac) = true.
Proof. vm_compute. repeat split; reflexivity. Qed.

(* a state that went through management calls (auto-save to a memory adapter) *)
Definition x_managed :=
  run_ops x_rbac [OAdd s_p s_p [bob; data2; read]; OAdd s_g s_g [bob; admin];
                  ORemove s_p s_p [root; data2; write]].
Lemma ex_synced : Synced x_managed /\ ad_is_filtered (e_adapter x_managed) = false /\
  gfuns_exactb (f_gfuns (e_fs x_managed)) (e_model x_managed) = true /\
  e_auto_build x_managed = true /\
  no_leftover (f_gfuns (e_fs x_managed)) (e_model x_managed) = true.
Proof.
  split; [|vm_compute; repeat split; reflexivity].
  exists (fst (fst (ad_load (e_adapter x_managed) (m_clear_policy (e_model x_managed))))),
         (snd (fst (ad_load (e_adapter x_managed) (m_clear_policy (e_model x_managed))))).
  vm_compute. repeat split; reflexivity.
Qed.

(* --- D14 (repaired): set_model must register the role functions of the new
   model. Without it a matcher calling g2 fails, the fresh enforcer decides --- *)
Lemma set_model_needs_registration :
  let s' := fst (step_set_model_noreg x_rbac rbac2_def) in
  snd (step_set_model_noreg x_rbac rbac2_def) = Ok true /\
  enforce no_ptab s' k_req = Err EEvalc /\
  enforce no_ptab (fst (fresh_from rbac2_def (e_adapter x_rbac) s')) k_req = Ok true /\
  enforce no_ptab (fst (step x_rbac (OSetModel rbac2_def))) k_req = Ok true.
Proof. vm_compute. repeat split; reflexivity. Qed.

(* --- hypothesis (i): role functions are never unregistered. A model that
   calls g2 without defining it works after a switch from a model that had g2,
   and fails when built fresh --- *)
Definition rbac_calls_g2 : modeldef :=
  {| d_model := d_model rbac_def; d_mexprs := d_mexprs rbac2_def |}.
Lemma set_model_needs_no_leftover :
  let s' := fst (step x_rbac2 (OSetModel rbac_calls_g2)) in
  snd (step x_rbac2 (OSetModel rbac_calls_g2)) = Ok true /\
  e_auto_build x_rbac2 = true /\ ad_is_filtered (e_adapter x_rbac2) = false /\
  clean_def rbac_calls_g2 = true /\
  no_leftover (f_gfuns (e_fs x_rbac2)) (d_model rbac_calls_g2) = false /\
  enforce no_ptab s' k_req = Ok true /\
  snd (fresh_from rbac_calls_g2 (e_adapter x_rbac2) s') = Ok true /\
  enforce no_ptab (fst (fresh_from rbac_calls_g2 (e_adapter x_rbac2) s')) k_req = Err EEvalc.
Proof. vm_compute. repeat split; reflexivity. Qed.

(* --- an adapter marked filtered: set_model loads everything, the constructor
   skips the initial load --- *)
Definition x_filtered := mk rbac_def (AMemory x_lines true).
Lemma set_model_needs_unfiltered :
  let s' := fst (step x_filtered (OSetModel rbac_def)) in
  snd (step x_filtered (OSetModel rbac_def)) = Ok true /\
  ad_is_filtered (e_adapter x_filtered) = true /\
  enforce no_ptab s' k_req = Ok true /\
  snd (fresh_from rbac_def (e_adapter x_filtered) s') = Ok true /\
  enforce no_ptab (fst (fresh_from rbac_def (e_adapter x_filtered) s')) k_req = Ok false.
Proof. vm_compute. repeat split; reflexivity. Qed.

Lemma set_adapter_needs_unfiltered :
  let a := AMemory x_lines true in
  let s' := fst (step x_rbac (OSetAdapter a)) in
  snd (step x_rbac (OSetAdapter a)) = Ok true /\
  enforce no_ptab s' k_req = Ok true /\
  enforce no_ptab (fst (fresh_from (cur_def x_rbac) a s')) k_req = Ok false.
Proof. vm_compute. repeat split; reflexivity. Qed.

(* --- auto-build off: the reload leaves the old role links in place --- *)
Lemma set_adapter_needs_auto_build :
  let s := fst (step x_rbac (OEnableAutoBuild false)) in
  let a := mem [pl admin data1 read] in
  let s' := fst (step s (OSetAdapter a)) in
  snd (step s (OSetAdapter a)) = Ok true /\
  gfuns_exactb (f_gfuns (e_fs s)) (e_model s) = true /\ ad_is_filtered a = false /\
  enforce no_ptab s' k_req = Ok true /\
  snd (fresh_from (cur_def s) a s') = Ok true /\
  enforce no_ptab (fst (fresh_from (cur_def s) a s')) k_req = Ok false.
Proof. vm_compute. repeat split; reflexivity. Qed.

(* --- a failed set_model is not rolled back: the malformed model stays
   installed; a later set_adapter succeeds on it while no enforcer can be
   built from it (hypothesis gdefs_ok) --- *)
Definition g4_def : modeldef :=
  {| d_model :=
       [(s_r, [(s_r, mk_ast (T "sub, obj, act") ex_rtoks)]);
        (s_p, [(s_p, mk_ast (T "sub, obj, act") ex_ptoks)]);
        (s_g, [(s_g, mk_ast (T "_, _") []); (T "g4", mk_ast (T "_, _, _, _") [])]);
        (s_e, [(s_e, mk_ast s_allow_override [])]);
        (s_m, [(s_m, mk_ast (T "g(r_sub, p_sub) && r_obj == p_obj && r_act == p_act") [])])];
     d_mexprs := d_mexprs rbac_def |}.
Lemma set_adapter_needs_gdefs_ok :
  let s := fst (step x_rbac (OSetModel g4_def)) in
  let s' := fst (step s (OSetAdapter (mem x_lines))) in
  snd (step x_rbac (OSetModel g4_def)) = Err EModel /\
  model_gkeys (e_model s) = [(s_g, 2); (T "g4", 4)] /\
  gdefs_ok (e_model s) = false /\
  snd (step s (OSetAdapter (mem x_lines))) = Ok true /\
  enforce no_ptab s' k_req = Ok true /\
  snd (fresh_from (cur_def s) (mem x_lines) s') = Err EModel.
Proof. vm_compute. repeat split; reflexivity. Qed.

(* --- the calls that do not reload need the memory to be in sync with the
   adapter: a rule added with auto-save off is lost in the fresh enforcer --- *)
Lemma add_function_needs_synced :
  let s := run_ops x_rbac [OEnableAutoSave false; OAdd s_p s_p [bob; data1; read]] in
  let s' := fst (step s (OAddFunction (T "f") UTrue)) in
  ad_is_filtered (e_adapter s) = false /\
  gfuns_exactb (f_gfuns (e_fs s)) (e_model s) = true /\
  enforce no_ptab s' (req bob data1 read) = Ok true /\
  snd (fresh_from (cur_def s') (e_adapter s') s') = Ok true /\
  enforce no_ptab (fst (fresh_from (cur_def s') (e_adapter s') s')) (req bob data1 read) = Ok false.
Proof. vm_compute. repeat split; reflexivity. Qed.

(* --- a definition carrying rules outside p and g is not what a parser
   produces: the load never empties them, re-parsing does --- *)
Definition dirty_def : modeldef :=
  {| d_model :=
       [(s_r, [(s_r, {| a_value := T "sub, obj, act"; a_tokens := ex_rtoks;
                        a_policy := [[alice]]; a_handle := HOwn |})]);
        (s_p, [(s_p, mk_ast (T "sub, obj, act") ex_ptoks)]);
        (s_e, [(s_e, mk_ast s_allow_override [])]);
        (s_m, [(s_m, mk_ast (T "r_sub == p_sub && r_obj == p_obj && r_act == p_act") [])])];
     d_mexprs := d_mexprs acl_def |}.
Lemma set_model_parsed_needs_clean_def :
  let s' := fst (step x_rbac (OSetModel dirty_def)) in
  snd (step x_rbac (OSetModel dirty_def)) = Ok true /\ clean_def dirty_def = false /\
  ask no_ptab s' (QGetPolicy s_r s_r) = AnsRules [[alice]] /\
  ask no_ptab (fst (fresh_from (def_of s') (e_adapter x_rbac) s')) (QGetPolicy s_r s_r) = AnsRules [].
Proof. vm_compute. repeat split; reflexivity. Qed.

(* --- the weak form of hypothesis (i) at work: switching from the model with
   g and g2 to the one with g only leaves g2 registered, which no matcher of
   the new model calls --- *)
Lemma ex_set_model_calls_hyps :
  snd (step x_rbac2 (OSetModel rbac_def)) = Ok true /\ e_auto_build x_rbac2 = true /\
  ad_is_filtered (e_adapter x_rbac2) = false /\
  no_leftover (f_gfuns (e_fs x_rbac2)) (d_model rbac_def) = false /\
  (forall k m, assoc k (d_mexprs rbac_def) = Some m ->
     calls_in (fun f => safe_name (f_gfuns (e_fs x_rbac2)) (d_model rbac_def) f = true) m) /\
  (forall t e', no_ptab t = Some e' ->
     calls_in (fun f => safe_name (f_gfuns (e_fs x_rbac2)) (d_model rbac_def) f = true) e').
Proof.
  split; [vm_compute; reflexivity|]. split; [vm_compute; reflexivity|].
  split; [vm_compute; reflexivity|]. split; [vm_compute; reflexivity|]. split.
  - intros k m H. cbn [rbac_def d_mexprs assoc] in H.
    destruct (teqb k s_m); [|discriminate]. inversion H; subst m. clear H.
    intros f Hf. cbn in Hf. destruct Hf as [<-|[]]. vm_compute. reflexivity.
  - intros t e' H. discriminate.
Qed.

Lemma ex_set_model_calls : forall s' b, step x_rbac2 (OSetModel rbac_def) = (s', Ok b) ->
  exists sf, fresh_from rbac_def (e_adapter x_rbac2) s' = (sf, Ok true) /\ obs_eq no_ptab s' sf.
Proof.
  intros s' b H. destruct ex_set_model_calls_hyps as (_ & H2 & H3 & _ & H5 & H6).
  apply (set_model_fresh_calls no_ptab x_rbac2 rbac_def s' b H H2 H3 H5 H6).
Qed.

(* Synced is checkable by computation *)
Lemma ex_syncedb : syncedb x_managed = true /\ syncedb x_rbac = true /\
  syncedb (fst (step x_rbac (OSetModel rbac2_def))) = true.
Proof. vm_compute. repeat split; reflexivity. Qed.

(* removing a grouping rule incrementally leaves its (now isolated) nodes in
   the graph: the state is observably fine but not literally what a rebuild
   gives, so Synced (an exact equality) fails *)
Lemma ex_not_synced_after_remove :
  syncedb (fst (step x_rbac (ORemove s_g s_g [admin; root]))) = false.
Proof. vm_compute. reflexivity. Qed.

(* --- a scripted (fault-injecting) adapter whose next load fails: the
   enforcer cannot be rebuilt now --- *)
Lemma set_model_fresh_of_needs_unscripted :
  let s := mk rbac_def (AScripted (mem x_lines) [RPass; RPass; RFail]) in
  let s' := fst (step s (OSetModel rbac2_def)) in
  snd (step s (OSetModel rbac2_def)) = Ok true /\ ad_unscripted (e_adapter s) = false /\
  snd (fresh_of s') = Err EAdapter.
Proof. vm_compute. repeat split; reflexivity. Qed.
