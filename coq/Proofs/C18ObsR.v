(* C18obs, part 2: against `fresh_of` — the enforcer built now from the
   RE-PARSED definition (every rule dropped, every handle reset) and the adapter.
   Needs `reparse_ok`: the store holds no rule outside sections p and g and its
   handles are the ones a load + build gives. *)
From CV Require Import Model.Base Model.Effector Model.RoleGraph Model.PathMatch Model.Expr
     Model.Enforce Model.Engine Model.SpecC05 Model.SpecC18.
From CV Require Import Proofs.BaseP Proofs.RoleGraphP Proofs.ExprP Proofs.ExModels
     Proofs.C05Sync Proofs.C05Rebuild Proofs.C18P Proofs.C18Q Proofs.C18Obs.
From Coq Require Import Lia.

(* ================= 1. mapping over the values of an association list ================= *)
Section MapVal.
  Context {A B : Type} (f : A -> B).
  Definition map_val (l : list (text * A)) : list (text * B) := map (fun kv => (fst kv, f (snd kv))) l.

  Lemma assoc_map_val : forall k l, assoc k (map_val l) = option_map f (assoc k l).
  Proof.
    intros k l. induction l as [|[k' v] l IH]; cbn [map_val map assoc fst snd]; [reflexivity|].
    destruct (teqb k k'); [reflexivity|exact IH].
  Qed.

  Lemma map_val_assoc_set : forall k v l, map_val (assoc_set k v l) = assoc_set k (f v) (map_val l).
  Proof.
    intros k v l. induction l as [|[k' v'] l IH]; cbn [map_val assoc_set map fst snd]; [reflexivity|].
    destruct (teqb k k'); cbn [map fst snd]; [reflexivity|]. fold (map_val (assoc_set k v l)).
    fold (map_val l). rewrite IH. reflexivity.
  Qed.
End MapVal.

(* ================= 2. resetting the handles commutes with load and clear ================= *)
Lemma hreset_map_val : forall X, hreset X = map_val hreset_am X.
Proof. reflexivity. Qed.

Lemma hreset_upd : forall sec (F F' : amap -> amap) X,
  (forall am, hreset_am (F am) = F' (hreset_am am)) ->
  hreset (upd sec F X) = upd sec F' (hreset X).
Proof.
  intros sec F F' X H. unfold upd. change (hreset X) with (map_val hreset_am X).
  rewrite assoc_map_val.
  destruct (assoc sec X) as [am|]; cbn [option_map]; [|reflexivity].
  change (hreset (assoc_set sec (F am) X)) with (map_val hreset_am (assoc_set sec (F am) X)).
  rewrite map_val_assoc_set, H. reflexivity.
Qed.

Lemma hreset_am_ins : forall key fields am,
  hreset_am (ins_am key fields am) = ins_am key fields (hreset_am am).
Proof.
  intros key fields am. unfold hreset_am, ins_am.
  rewrite (assoc_map_snd' (fun a => with_handle a HOwn)).
  destruct (assoc key am) as [a|]; cbn [option_map]; [|reflexivity].
  rewrite (map_snd_assoc_set (fun a => with_handle a HOwn)). reflexivity.
Qed.

Lemma hreset_am_clr : forall am, hreset_am (clr am) = clr (hreset_am am).
Proof. intros am. unfold hreset_am, clr. rewrite !map_map. apply map_ext. intros [k a]. reflexivity. Qed.

Lemma hreset_am_hcm : forall am, hreset_am (hcm am) = hreset_am am.
Proof. intros am. unfold hreset_am, hcm, sethc. rewrite map_map. apply map_ext. intros [k a]. reflexivity. Qed.

Lemma hreset_clear_sec : forall X sec, hreset (clear_sec X sec) = clear_sec (hreset X) sec.
Proof. intros X sec. rewrite !clear_sec_upd. apply hreset_upd. apply hreset_am_clr. Qed.

Lemma hreset_clear : forall X, hreset (m_clear_policy X) = m_clear_policy (hreset X).
Proof. intros X. unfold m_clear_policy. rewrite !hreset_clear_sec. reflexivity. Qed.

Lemma hreset_hc : forall X, hreset (hc X) = hreset X.
Proof.
  intros X. unfold hc. rewrite (hreset_upd s_g hcm (fun am => am)) by apply hreset_am_hcm.
  apply upd_id. reflexivity.
Qed.

Lemma hreset_load_mem_line : forall X ln, hreset (load_mem_line X ln) = load_mem_line (hreset X) ln.
Proof.
  intros X ln. rewrite !load_mem_line_upd. destruct ln as [|sec [|pt fields]]; try reflexivity.
  apply hreset_upd. intros am. apply hreset_am_ins.
Qed.

Lemma hreset_load_line : forall X ln, hreset (load_line X ln) = load_line (hreset X) ln.
Proof.
  intros X ln. rewrite !load_line_upd. destruct ln as [|[|c krest] fields]; try reflexivity.
  apply hreset_upd. intros am. apply hreset_am_ins.
Qed.

Lemma ad0_load_hreset : forall a X a' X' r,
  ad0_load a X = (a', X', r) -> ad0_load a (hreset X) = (a', hreset X', r).
Proof.
  intros a X a' X' r. destruct a; cbn [ad0_load]; intros H; inversion H; subst; try reflexivity.
  - rewrite (fold_commute load_mem_line hreset); [reflexivity|]. intros; apply hreset_load_mem_line.
  - rewrite (fold_commute load_line hreset); [reflexivity|]. intros; apply hreset_load_line.
  - rewrite (fold_commute load_line hreset); [reflexivity|]. intros; apply hreset_load_line.
Qed.

Lemma ad_load_hreset : forall a X a' X' r,
  ad_load a X = (a', X', r) -> ad_load a (hreset X) = (a', hreset X', r).
Proof.
  intros a X a' X' r. unfold ad_load.
  destruct a as [| | | |i sc]; try apply ad0_load_hreset.
  destruct sc as [|[| | | |] sc];
    try (destruct (ad0_load i X) as [[i' X2] r2] eqn:H0; intros H; inversion H; subst;
         rewrite (ad0_load_hreset _ _ _ _ _ H0), ?hreset_clear_sec; reflexivity);
    intros H; inversion H; subst; reflexivity.
Qed.

(* building on the reset store: the same manager, every g handle current *)
Lemma hproj_hreset_am : forall am, map hproj (hreset_am am) = map hproj am.
Proof. intros am. unfold hreset_am. rewrite map_map. apply map_ext. intros [k a]. reflexivity. Qed.

Lemma build_of_hreset : forall md md' m', build_of md = (md', m', LOk) ->
  build_of (hreset md) = (hc (hreset md), m', LOk).
Proof.
  intros md md' m'. unfold build_of, hc, upd. change (hreset md) with (map_val hreset_am md).
  rewrite assoc_map_val.
  destruct (assoc s_g md) as [am|]; cbn [option_map].
  - destruct (build_links_am am []) as [[am' m2] e2] eqn:Hb. intros H.
    assert (He : e2 = LOk) by congruence. assert (Hm : m2 = m') by congruence. subst e2 m2.
    rewrite (build_links_am_variant am (hreset_am am) [] am' m' Hb (hproj_hreset_am am)).
    reflexivity.
  - intros H. inversion H; subst. reflexivity.
Qed.

Lemma gkeys_hreset_am : forall am, gkeys (hreset_am am) = gkeys am.
Proof. intros am. unfold gkeys, hreset_am. rewrite map_map. apply map_ext. intros [k a]. reflexivity. Qed.

Lemma model_gkeys_hreset : forall X, model_gkeys (hreset X) = model_gkeys X.
Proof.
  intros X. unfold model_gkeys. change (hreset X) with (map_val hreset_am X). rewrite assoc_map_val.
  destruct (assoc s_g X) as [am|]; cbn [option_map]; [apply gkeys_hreset_am|reflexivity].
Qed.

(* ================= 3. what reparse_ok says ================= *)
Lemma upd_eq_inv : forall sec f (A M : model),
  upd sec f A = upd sec f M -> assoc sec A = assoc sec M -> A = M.
Proof.
  intros sec f A M H Ha. unfold upd in H. rewrite <- Ha in H.
  destruct (assoc sec A) as [am|] eqn:E; [|exact H]. symmetry in Ha.
  transitivity (assoc_set sec am (assoc_set sec (f am) A)).
  - rewrite assoc_set_twice. symmetry. apply C18P.assoc_set_id, E.
  - rewrite H, assoc_set_twice. apply C18P.assoc_set_id, Ha.
Qed.


Lemma gdrop_upd : forall M, gdrop M = upd s_g (fun _ => []) M.
Proof. reflexivity. Qed.

Lemma hcm_hreset_am : forall am, hcm (hreset_am am) = hcm am.
Proof. intros am. unfold hreset_am, hcm, sethc. rewrite map_map. apply map_ext. intros [k a]. reflexivity. Qed.

Lemma hc_idem : forall X, hc (hc X) = hc X.
Proof.
  intros X. unfold hc. rewrite upd_upd. apply upd_ext. intros am _. apply sethc_idem.
Qed.

(* outside g every handle is own: resetting all handles = resetting those of g *)
Lemma gdrop_hreset : forall M, hreset (gdrop M) = gdrop M -> hreset M = upd s_g hreset_am M.
Proof.
  intros M H. rewrite !gdrop_upd in H.
  rewrite (hreset_upd s_g (fun _ => []) (fun _ => [])) in H by reflexivity.
  apply (upd_eq_inv s_g (fun _ => [])).
  - rewrite H, upd_upd. reflexivity.
  - rewrite assoc_upd, teqb_refl. change (hreset M) with (map_val hreset_am M).
    apply assoc_map_val.
Qed.

Lemma gdrop_J2 : forall M, hreset (gdrop M) = gdrop M -> hc M = M -> hc (hreset M) = M.
Proof.
  intros M H Hc. rewrite (gdrop_hreset M H). unfold hc. rewrite upd_upd.
  rewrite (upd_ext s_g (fun am => hcm (hreset_am am)) hcm M) by (intros; apply hcm_hreset_am).
  exact Hc.
Qed.

Lemma reparse_ok_spec : forall M, reparse_ok M = true ->
  defs_of M = hreset (m_clear_policy M) /\ hreset (gdrop M) = gdrop M.
Proof.
  intros M H. unfold reparse_ok in H. apply andb_true_iff in H. destruct H as [H1 H2].
  apply model_eqb_eq in H1. apply model_eqb_eq in H2. split; [exact H1|exact H2].
Qed.

Lemma reparse_clear_defs : forall M, defs_of M = hreset (m_clear_policy M) ->
  m_clear_policy (defs_of M) = hreset (m_clear_policy M).
Proof. intros M H. rewrite H, <- hreset_clear, clear_clear. reflexivity. Qed.

Lemma reparse_gkeys : forall M, defs_of M = hreset (m_clear_policy M) ->
  model_gkeys (defs_of M) = model_gkeys M.
Proof. intros M H. rewrite H, model_gkeys_hreset. apply model_gkeys_clear. Qed.

(* ================= 4. a Synced state against fresh_of ================= *)
Theorem synced_fresh_of : forall s,
  Synced s -> ad_is_filtered (e_adapter s) = false ->
  gfuns_exactb (f_gfuns (e_fs s)) (e_model s) = true ->
  reparse_ok (e_model s) = true ->
  exists sf, fresh_of s = (sf, Ok true) /\ st_equiv s sf /\
             e_model sf = e_model s /\ f_rm (e_fs sf) = f_rm (e_fs s).
Proof.
  intros s (ad & md & Hl & Hb & Hfl) Hnf Hgx Hrp.
  destruct (reparse_ok_spec _ Hrp) as [J1 J2].
  destruct (gfuns_exactb_spec _ _ Hgx) as [Hreg Hgf].
  assert (Hl2 : ad_load (e_adapter s) (m_clear_policy (d_model (def_of s))) = (ad, hreset md, LROk)).
  { cbn [def_of d_model]. rewrite (reparse_clear_defs _ J1). apply ad_load_hreset, Hl. }
  assert (Hb2 : build_of (hreset md) = (e_model s, f_rm (e_fs s), LOk)).
  { rewrite (build_of_hreset _ _ _ Hb). pose proof (build_of_hc _ _ _ Hb) as Hm.
    assert (Hcm : hc (e_model s) = e_model s) by (rewrite Hm; apply hc_idem).
    rewrite <- (hreset_hc md), <- Hm, (gdrop_J2 _ J2 Hcm). reflexivity. }
  assert (Hreg2 : snd (reg_keys (model_gkeys (d_model (def_of s))) []) = LOk).
  { cbn [def_of d_model]. rewrite (reparse_gkeys _ J1). exact Hreg. }
  destruct (fresh_from_core (def_of s) (e_adapter s) s ad (hreset md) _ _ Hnf Hreg2 Hl2 Hb2)
    as (sf & Gf & Hf & HGf & Hcf).
  cbn [def_of d_model d_mexprs] in *. rewrite (reparse_gkeys _ J1) in HGf.
  exists sf. split; [exact Hf|]. split; [|split].
  - apply (st_equiv_of_cores s sf (model_gkeys (e_model s))); rewrite ?Hcf; cbn;
      try reflexivity; try assumption. symmetry. exact Hfl.
  - apply (f_equal k_model) in Hcf. exact Hcf.
  - apply (f_equal k_rm) in Hcf. exact Hcf.
Qed.

(* ================= 5. the three calls against fresh_of ================= *)
Theorem obs_fresh_of : forall s,
  ObsSynced s -> ad_is_filtered (e_adapter s) = false ->
  gfuns_exactb (f_gfuns (e_fs s)) (e_model s) = true ->
  reparse_ok (e_model s) = true ->
  exists sf, fresh_of s = (sf, Ok true) /\
             forall ptab q, ans_eq (ask ptab s q) (ask ptab sf q).
Proof.
  intros s Hobs Hnf Hgx Hrp. destruct (obs_twin s Hobs) as (m' & Hsy & Hans).
  destruct (synced_fresh_of (with_rm s m') Hsy Hnf Hgx Hrp) as (sf & Hf & He & _).
  exists sf. split; [exact Hf|].
  intros ptab q. eapply ans_eq_trans; [apply Hans|].
  apply ans_eq_of_eq, ask_equiv, He.
Qed.

Theorem obs_set_effector_fresh_of : forall s s' b,
  step s OSetEffector = (s', Ok b) ->
  ObsSynced s -> ad_is_filtered (e_adapter s) = false ->
  gfuns_exactb (f_gfuns (e_fs s)) (e_model s) = true ->
  reparse_ok (e_model s) = true ->
  exists sf, fresh_of s' = (sf, Ok true) /\
             forall ptab q, ans_eq (ask ptab s' q) (ask ptab sf q).
Proof.
  intros s s' b Hstep Hobs Hnf Hgx Hrp. cbn [step] in Hstep. inversion Hstep; subst s'.
  apply obs_fresh_of; assumption.
Qed.

Theorem obs_add_function_fresh_of : forall s n u s' b,
  step s (OAddFunction n u) = (s', Ok b) ->
  ObsSynced s -> ad_is_filtered (e_adapter s) = false ->
  gfuns_exactb (f_gfuns (e_fs s)) (e_model s) = true ->
  reparse_ok (e_model s) = true ->
  exists sf, fresh_of s' = (sf, Ok true) /\
             forall ptab q, ans_eq (ask ptab s' q) (ask ptab sf q).
Proof.
  intros s n u s' b Hstep Hobs Hnf Hgx Hrp.
  pose proof (ObsSynced_add_function s n u Hobs) as Hobs'. rewrite Hstep in Hobs'. cbn [fst] in Hobs'.
  cbn [step] in Hstep. inversion Hstep; subst s'. clear Hstep.
  apply (obs_fresh_of _ Hobs' Hnf Hgx Hrp).
Qed.

Theorem store_set_role_manager_fresh_of : forall s mx s' b,
  step s (OSetRoleManager mx) = (s', Ok b) ->
  StoreSynced s -> e_auto_build s = true -> ad_is_filtered (e_adapter s) = false ->
  no_leftover (f_gfuns (e_fs s)) (e_model s) = true ->
  reparse_ok (e_model s) = true ->
  exists sf, fresh_of s' = (sf, Ok true) /\ st_equiv s' sf /\ f_rm_max (e_fs s') = mx.
Proof.
  intros s mx s' b Hstep Hst Hab Hnf Hnl Hrp.
  destruct (store_set_role_manager_fresh s mx s' b Hstep Hst Hab Hnf Hnl)
    as (sf0 & Hf0 & He0 & Hmx & Hsy' & Hm & Ha & Hgx').
  rewrite <- Hm in Hrp. rewrite <- Ha in Hnf.
  destruct (synced_fresh_of s' Hsy' Hnf Hgx' Hrp) as (sf & Hf & He & _).
  exists sf. split; [exact Hf|]. split; [exact He|].
  destruct He0 as (_ & _ & _ & _ & _ & Hmx0 & _). rewrite Hmx0. exact Hmx.
Qed.

Theorem obs_set_role_manager_fresh_of : forall s mx s' b,
  step s (OSetRoleManager mx) = (s', Ok b) ->
  ObsSynced s -> e_auto_build s = true -> ad_is_filtered (e_adapter s) = false ->
  no_leftover (f_gfuns (e_fs s)) (e_model s) = true ->
  reparse_ok (e_model s) = true ->
  exists sf, fresh_of s' = (sf, Ok true) /\
             (forall ptab q, ans_eq (ask ptab s' q) (ask ptab sf q)) /\
             f_rm_max (e_fs s') = mx /\ f_rm_max (e_fs sf) = mx.
Proof.
  intros s mx s' b Hstep (Hst & _) Hab Hnf Hnl Hrp.
  destruct (store_set_role_manager_fresh_of s mx s' b Hstep Hst Hab Hnf Hnl Hrp)
    as (sf & Hf & He & Hmx).
  exists sf. split; [exact Hf|]. split; [|split; [exact Hmx|]].
  - intros ptab q. apply ans_eq_of_eq, ask_equiv, He.
  - destruct He as (_ & _ & _ & _ & _ & Hmx' & _). rewrite <- Hmx'. exact Hmx.
Qed.

(* the statements in the form "whatever fresh_of returns" *)
Corollary obs_set_effector_any : forall ptab s s' b f b',
  step s OSetEffector = (s', Ok b) -> fresh_of s' = (f, Ok b') ->
  ObsSynced s -> ad_is_filtered (e_adapter s) = false ->
  gfuns_exactb (f_gfuns (e_fs s)) (e_model s) = true ->
  reparse_ok (e_model s) = true ->
  forall q, ans_eq (ask ptab s' q) (ask ptab f q).
Proof.
  intros ptab s s' b f b' Hstep Hfr Hobs Hnf Hgx Hrp q.
  destruct (obs_set_effector_fresh_of s s' b Hstep Hobs Hnf Hgx Hrp) as (sf & Hf & Hans).
  rewrite Hfr in Hf. assert (Hfs : f = sf) by congruence. subst f. apply Hans.
Qed.

Corollary obs_add_function_any : forall ptab s n u s' b f b',
  step s (OAddFunction n u) = (s', Ok b) -> fresh_of s' = (f, Ok b') ->
  ObsSynced s -> ad_is_filtered (e_adapter s) = false ->
  gfuns_exactb (f_gfuns (e_fs s)) (e_model s) = true ->
  reparse_ok (e_model s) = true ->
  forall q, ans_eq (ask ptab s' q) (ask ptab f q).
Proof.
  intros ptab s n u s' b f b' Hstep Hfr Hobs Hnf Hgx Hrp q.
  destruct (obs_add_function_fresh_of s n u s' b Hstep Hobs Hnf Hgx Hrp) as (sf & Hf & Hans).
  rewrite Hfr in Hf. assert (Hfs : f = sf) by congruence. subst f. apply Hans.
Qed.

Corollary obs_set_role_manager_any : forall ptab s mx s' b f b',
  step s (OSetRoleManager mx) = (s', Ok b) -> fresh_of s' = (f, Ok b') ->
  ObsSynced s -> e_auto_build s = true -> ad_is_filtered (e_adapter s) = false ->
  no_leftover (f_gfuns (e_fs s)) (e_model s) = true ->
  reparse_ok (e_model s) = true ->
  (forall q, ans_eq (ask ptab s' q) (ask ptab f q)) /\ f_rm_max (e_fs f) = mx.
Proof.
  intros ptab s mx s' b f b' Hstep Hfr Hobs Hab Hnf Hnl Hrp.
  destruct (obs_set_role_manager_fresh_of s mx s' b Hstep Hobs Hab Hnf Hnl Hrp)
    as (sf & Hf & Hans & _ & Hmx).
  rewrite Hfr in Hf. assert (Hfs : f = sf) by congruence. subst f.
  split; [intros q; apply Hans|exact Hmx].
Qed.
