(* General facts used by PinChecks/PcLinksGen.v (rs2coq part 8: role links of
   assertion.rs, store mutators / link builders of default_model.rs).

   A. the operations of Gen/LinksPrims.v in the model's vocabulary
      (count_us, rmem, rremove, with_handle, with_policy, get_ast, set_ast, ..)
   B. three more loop SHAPES, each characterised once by induction from a
      pointwise description of the loop body (as in Proofs/RustVecP.v, no
      induction is ever done on a generated term):
        errfold     the body updates the state or leaves the function with an
                    error built from the state reached      -> fold_err
        valuesmap   a `values_mut()` loop that replaces every value by a
                    function of it                          -> map on the values
        valueserr   a `values_mut()` loop whose body runs a partial, failing
                    step on the value and a threaded state   -> values_err
      and the model's recursive functions as instances of them
      (link_rules = fold_err link_rule, build_links_am = values_err ..)
   C. the per-assertion and per-model SPECIFICATIONS that the obligations of
      PcLinksGen.v are stated against, with their relation to
      build_links_am / incremental_links / Engine.build_role_links /
      InternalPrims.build_incremental_role_links. *)
From CV Require Import Model.Base Model.RoleGraph Model.Expr Model.Enforce Model.Engine.
From CV Require Import Gen.InternalPrims.
From CV Require Import Gen.RustStr Gen.RustVec Gen.LinksPrims.   (* after InternalPrims: `flow` is RustVec's *)
From CV Require Import Proofs.BaseP Proofs.C04SetP Proofs.RustVecP.
From Coq Require Import Lia.

(* ================================================================== *)
(* A. the operations                                                   *)

Lemma rs_count_char_us : forall v, rs_count_char "_"%char v = count_us v.
Proof.
  intros v. unfold rs_count_char, count_us.
  rewrite (filter_ext (fun x => Ascii.eqb x "_"%char) (Ascii.eqb Expr.underscore)); [reflexivity|].
  intros x. apply Ascii.eqb_sym.
Qed.

Lemma rs_len_length : forall {A} (v : list A), rs_len v = length v.
Proof. reflexivity. Qed.

Lemma rs_oset_contains_rmem : forall s r, rs_oset_contains s r = rmem r s.
Proof.
  intros s r. unfold rs_oset_contains, rmem, memb. induction s as [|x s IH]; [reflexivity|].
  cbn [existsb]. rewrite IH, rs_vec_eq_reqb, reqb_sym. reflexivity.
Qed.

Lemma rmem_false_rremove : forall r l, rmem r l = false -> rremove r l = l.
Proof.
  intros r l H. apply rremove_absent. rewrite rmem_sp_mem in H. apply sp_mem_not_In, H.
Qed.

(* LinkedHashSet::insert in the model's words: an entry that is there moves to the back *)
Lemma rs_oset_insert_oset : forall s r,
  rs_oset_insert s r = if rmem r s then rremove r s ++ [r] else s ++ [r].
Proof.
  intros s r. unfold rs_oset_insert. fold (rs_oset_remove s r). rewrite rs_oset_remove_rremove.
  destruct (rmem r s) eqn:E; [reflexivity|]. rewrite (rmem_false_rremove r s E). reflexivity.
Qed.

Lemma rs_ast_set_rm_with : forall a h, rs_ast_set_rm a h = with_handle a h.
Proof. reflexivity. Qed.
Lemma rs_ast_set_policy_with : forall a p, rs_ast_set_policy a p = with_policy a p.
Proof. reflexivity. Qed.

Lemma rs_ast_borrow_get : forall md sec pt,
  rs_ast_borrow md sec pt = match get_ast md sec pt with Some a => Some ((sec, pt), a) | None => None end.
Proof.
  intros md sec pt. unfold rs_ast_borrow, rs_model_get_mut, get_ast.
  destruct (assoc sec md) as [am|]; [|reflexivity]. destruct (assoc pt am); reflexivity.
Qed.

Lemma rs_ast_write_back_set : forall md sec pt a, rs_ast_write_back md ((sec, pt), a) = set_ast md sec pt a.
Proof. reflexivity. Qed.

Lemma set_ast_id : forall md sec pt a, get_ast md sec pt = Some a -> set_ast md sec pt a = md.
Proof.
  intros md sec pt a H. unfold set_ast, get_ast in *. destruct (assoc sec md) as [am|] eqn:Es; [|reflexivity].
  rewrite (assoc_set_id pt a am H). apply assoc_set_id, Es.
Qed.

Lemma with_handle_id : forall a, with_handle a (a_handle a) = a.
Proof. intros [v t p h]. reflexivity. Qed.

Lemma existsb_negb : forall {A} (p : A -> bool) l, existsb (fun x => negb (p x)) l = negb (forallb p l).
Proof.
  intros A p l. induction l as [|x l IH]; [reflexivity|]. cbn [existsb forallb].
  rewrite IH. destruct (p x); reflexivity.
Qed.

(* ================================================================== *)
(* B. loop shapes                                                      *)

(* ---- errfold *)
Fixpoint fold_err {A S} (step : S -> A -> S * lerr) (l : list A) (s : S) : S * lerr :=
  match l with
  | [] => (s, LOk)
  | x :: l' => match step s x with
               | (s', LOk) => fold_err step l' s'
               | (s', LErr e) => (s', LErr e)
               end
  end.

Lemma rs_for_errfold : forall {A S R} (body : A -> S -> flow S R) (step : S -> A -> S * lerr) (ret : S -> errc -> R),
  (forall x s, body x s = match step s x with
                          | (s', LOk) => LNext s'
                          | (s', LErr e) => LReturn (ret s' e)
                          end) ->
  forall l s, rs_for body l s = match fold_err step l s with
                                | (s', LOk) => Done s'
                                | (s', LErr e) => Returned (ret s' e)
                                end.
Proof.
  intros A S R body step ret Hbody l. induction l as [|x l IH]; intros s; [reflexivity|].
  rewrite rs_for_cons, Hbody. cbn [fold_err]. destruct (step s x) as [s' [|e]]; [apply IH|reflexivity].
Qed.

Lemma link_rules_fold_err : forall cnt ins rs m, link_rules cnt ins m rs = fold_err (link_rule cnt ins) rs m.
Proof.
  intros cnt ins rs. induction rs as [|r rs IH]; intros m; [reflexivity|].
  cbn [link_rules fold_err]. destruct (link_rule cnt ins m r) as [m' [|e]]; [apply IH|reflexivity].
Qed.

(* ---- values_mut loops *)
Definition map_values {V} (f : V -> V) (am : list (text * V)) : list (text * V) :=
  map (fun ka => (fst ka, f (snd ka))) am.

Lemma rs_value_set_app : forall {V} (pre : list (text * V)) k v0 l v,
  rs_value_set (pre ++ (k, v0) :: l) (length pre) v = pre ++ (k, v) :: l.
Proof.
  intros V pre. induction pre as [|[k' v'] pre IH]; intros k v0 l v; [reflexivity|].
  cbn [app length rs_value_set]. rewrite IH. reflexivity.
Qed.

Lemma rs_values_mut_enum : forall {V} (am : list (text * V)), rs_values_mut am = enum_from 0 (map snd am).
Proof. intros V am. unfold rs_values_mut. apply rs_enumerate_enum_from. Qed.

Lemma rs_for_valuesmap : forall {V R} (body : nat * V -> list (text * V) -> flow (list (text * V)) R) (f : V -> V),
  (forall i a am0, body (i, a) am0 = LNext (rs_value_set am0 i (f a))) ->
  forall am, rs_for body (rs_values_mut am) am = Done (map_values f am).
Proof.
  intros V R body f Hbody am. rewrite rs_values_mut_enum.
  assert (G : forall l pre, rs_for body (enum_from (length pre) (map snd l)) (pre ++ l) = Done (pre ++ map_values f l)).
  { induction l as [|[k a] l IH]; intros pre; [reflexivity|].
    cbn [map snd enum_from]. rewrite rs_for_cons, Hbody, rs_value_set_app.
    change (pre ++ (k, f a) :: l) with (pre ++ [(k, f a)] ++ l). rewrite app_assoc.
    replace (S (length pre)) with (length (pre ++ [(k, f a)])) by (rewrite app_length; cbn [length]; lia).
    rewrite IH, <- app_assoc. reflexivity. }
  apply (G am []).
Qed.

(* a partial, failing step on every value, with a threaded state; at the first
   error the rest of the map is left as it is *)
Fixpoint values_err {V M} (step : V -> M -> option (V * M * lerr)) (am : list (text * V)) (m : M)
  : option (list (text * V) * M * lerr) :=
  match am with
  | [] => Some ([], m, LOk)
  | (k, a) :: am' =>
    match step a m with
    | None => None
    | Some (a', m', LOk) =>
      match values_err step am' m' with
      | Some (am'', m'', e) => Some ((k, a') :: am'', m'', e)
      | None => None
      end
    | Some (a', m', LErr e) => Some ((k, a') :: am', m', LErr e)
    end
  end.

Lemma rs_for_valueserr : forall {V M R} (body : nat * V -> M * list (text * V) -> flow (M * list (text * V)) R)
    (step : V -> M -> option (V * M * lerr)) (ret : list (text * V) -> M -> errc -> R),
  (forall i a m am0, body (i, a) (m, am0) =
     match step a m with
     | Some (a', m', LOk) => LNext (m', rs_value_set am0 i a')
     | Some (a', m', LErr e) => LReturn (ret (rs_value_set am0 i a') m' e)
     | None => LPanic
     end) ->
  forall am m, rs_for body (rs_values_mut am) (m, am) =
               match values_err step am m with
               | Some (am', m', LOk) => Done (m', am')
               | Some (am', m', LErr e) => Returned (ret am' m' e)
               | None => Panicked
               end.
Proof.
  intros V M R body step ret Hbody am m. rewrite rs_values_mut_enum.
  assert (G : forall l pre m0, rs_for body (enum_from (length pre) (map snd l)) (m0, pre ++ l) =
                match values_err step l m0 with
                | Some (l', m', LOk) => Done (m', pre ++ l')
                | Some (l', m', LErr e) => Returned (ret (pre ++ l') m' e)
                | None => Panicked
                end).
  { induction l as [|[k a] l IH]; intros pre m0; [reflexivity|].
    cbn [map snd enum_from values_err]. rewrite rs_for_cons, Hbody.
    destruct (step a m0) as [[[a' m'] [|e]]|]; rewrite ?rs_value_set_app; [|reflexivity|reflexivity].
    change (pre ++ (k, a') :: l) with (pre ++ [(k, a')] ++ l). rewrite app_assoc.
    replace (S (length pre)) with (length (pre ++ [(k, a')])) by (rewrite app_length; cbn [length]; lia).
    rewrite IH. destruct (values_err step l m') as [[[l' m''] [|e]]|]; [| |reflexivity];
      rewrite <- app_assoc; reflexivity. }
  apply (G am [] m).
Qed.

(* ================================================================== *)
(* C. specifications                                                   *)

(* Assertion::build_role_links (ins = true, rs = the stored rules) and the
   loop of ::build_incremental_role_links (ins / rs from the event), for an
   assertion a and the manager m behind `rm`, h = the handle passed as `rm`:
   - fewer than two `_` in the definition: model error, nothing touched;
   - the rules are linked in order by the model's link_rules; at the first
     error (a short rule: policy error; four or more `_`: model error; a
     deletion naming an unknown role: rbac error) the loop stops, the links
     made or deleted so far stay, and self.rm is NOT redirected;
   - on success self.rm becomes h. *)
Definition ast_links_spec (h : handle) (ins : bool) (rs : list rule) (a : assertion) (m : rmgr)
  : assertion * rmgr * lerr :=
  if Nat.ltb (count_us (a_value a)) 2 then (a, m, LErr EModel)
  else match link_rules (count_us (a_value a)) ins m rs with
       | (m', LOk) => (with_handle a h, m', LOk)
       | (m', LErr e) => (a, m', LErr e)
       end.

(* which events insert, which delete, and with which rules *)
Definition event_rules (d : event) : option (bool * list rule) :=
  match d with
  | EvAdd _ _ r => Some (true, [r])
  | EvAddMany _ _ rs => Some (true, rs)
  | EvRemove _ _ r => Some (false, [r])
  | EvRemoveMany _ _ rs => Some (false, rs)
  | EvRemoveFiltered _ _ rs => Some (false, rs)
  | EvSave _ | EvClear => None
  end.

(* the assertion an event addresses *)
Definition event_target (d : event) : option (text * text) :=
  match d with
  | EvAdd sec pt _ | EvAddMany sec pt _ | EvRemove sec pt _ | EvRemoveMany sec pt _
  | EvRemoveFiltered sec pt _ => Some (sec, pt)
  | EvSave _ | EvClear => None
  end.

Definition ast_incremental_spec (h : handle) (d : event) (a : assertion) (m : rmgr) : assertion * rmgr * lerr :=
  if Nat.ltb (count_us (a_value a)) 2 then (a, m, LErr EModel)
  else match event_rules d with
       | Some (ins, rs) => ast_links_spec h ins rs a m
       | None => (a, m, LOk)
       end.

(* DefaultModel::build_role_links: every g definition in order *)
Definition model_links_spec (h : handle) (md : model) (m : rmgr) : option (model * rmgr * lerr) :=
  match assoc s_g md with
  | None => Some (md, m, LOk)
  | Some am =>
    match values_err (fun a m0 => Some (ast_links_spec h true (a_policy a) a m0)) am m with
    | Some (am', m', e) => Some (assoc_set s_g am' md, m', e)
    | None => None
    end
  end.

Lemma build_links_am_values_err : forall am m,
  values_err (fun a m0 => Some (ast_links_spec HCur true (a_policy a) a m0)) am m = Some (build_links_am am m).
Proof.
  induction am as [|[k a] am IH]; intros m; [reflexivity|].
  cbn [values_err build_links_am]. unfold ast_links_spec.
  destruct (Nat.ltb (count_us (a_value a)) 2); [reflexivity|].
  destruct (link_rules (count_us (a_value a)) true m (a_policy a)) as [m' [|e]]; [|reflexivity].
  rewrite IH. destruct (build_links_am am m') as [[am'' m''] e]. reflexivity.
Qed.

(* DefaultModel::build_incremental_role_links *)
Definition model_incremental_spec (h : handle) (d : event) (md : model) (m : rmgr) : model * rmgr * lerr :=
  match event_target d with
  | Some (sec, pt) =>
    if teqb sec s_g then
      match get_ast md sec pt with
      | Some a => match ast_incremental_spec h d a m with
                  | (a', m', e) => (set_ast md sec pt a', m', e)
                  end
      | None => (md, m, LOk)
      end
    else (md, m, LOk)
  | None => (md, m, LOk)
  end.

(* ---- against the model's enforcer-level functions *)
Lemma upd_model_id : forall s, upd_model s (e_model s) = s.
Proof. intros s. destruct s. reflexivity. Qed.

Lemma set_rm_fields : forall fs m, f_rm (set_rm fs m) = m.
Proof. reflexivity. Qed.

(* incremental_links is the per-assertion specification applied at (g, pt) *)
Lemma incremental_links_spec : forall s pt ins rs,
  incremental_links s pt ins rs =
  match get_ast (e_model s) s_g pt with
  | None => (s, LOk)
  | Some a =>
    match ast_links_spec HCur ins rs a (f_rm (e_fs s)) with
    | (a', m', e) => (upd_fs (upd_model s (set_ast (e_model s) s_g pt a')) (set_rm (e_fs s) m'), e)
    end
  end.
Proof.
  intros s pt ins rs. unfold incremental_links, ast_links_spec.
  destruct (get_ast (e_model s) s_g pt) as [a|] eqn:Ha; [|reflexivity].
  destruct (Nat.ltb (count_us (a_value a)) 2).
  - rewrite (set_ast_id _ _ _ _ Ha), upd_model_id. destruct s as [md mx ad fs en sv bl nt cb wt wl].
    destruct fs. reflexivity.
  - destruct (link_rules (count_us (a_value a)) ins (f_rm (e_fs s)) rs) as [m' [|e]]; [reflexivity|].
    rewrite (set_ast_id _ _ _ _ Ha), upd_model_id. reflexivity.
Qed.

(* the hand-written dispatcher of part 4 (Gen/InternalPrims.v) is the
   model-level specification on the model and the manager of the state; the
   rest of the state is untouched *)
Lemma build_incremental_role_links_spec : forall s d,
  build_incremental_role_links s d =
  match model_incremental_spec HCur d (e_model s) (f_rm (e_fs s)) with
  | (md', m', e) => (upd_fs (upd_model s md') (set_rm (e_fs s) m'), e)
  end.
Proof.
  intros s d.
  assert (Hid : (s, LOk) = (upd_fs (upd_model s (e_model s)) (set_rm (e_fs s) (f_rm (e_fs s))), LOk)).
  { rewrite upd_model_id. destruct s as [md mx ad fs en sv bl nt cb wt wl]. destruct fs. reflexivity. }
  unfold build_incremental_role_links, model_incremental_spec.
  destruct d as [sec pt r|sec pt rs|sec pt r|sec pt rs|sec pt rs|rs|]; cbn [event_target]; try exact Hid;
    (destruct (teqb sec s_g) eqn:Eg; [apply teqb_eq in Eg; subst sec|exact Hid]);
    rewrite incremental_links_spec; unfold ast_incremental_spec, ast_links_spec; cbn [event_rules];
    (destruct (get_ast (e_model s) s_g pt) as [a|]; [|exact Hid]);
    (destruct (Nat.ltb (count_us (a_value a)) 2); [reflexivity|]);
    destruct (link_rules _ _ _ _) as [m' [|e]]; reflexivity.
Qed.

(* ---- the store mutators on the rule list of the addressed assertion: what
   m_add_policy .. m_remove_policies (Model/Engine.v) do to it, and the flag *)
Definition add_policy_spec (r : rule) (l : list rule) : list rule * bool :=
  if rmem r l then (l, false) else (l ++ [r], true).
Definition add_policies_spec (rs : list rule) (l : list rule) : list rule * bool :=
  match rs with
  | [] => (l, false)
  | _ :: _ => if existsb (fun r => rmem r l) rs then (l, false) else (fold_left ins_new rs l, true)
  end.
Definition remove_policy_spec (r : rule) (l : list rule) : list rule * bool :=
  if rmem r l then (rremove r l, true) else (l, false).
Definition remove_policies_spec (rs : list rule) (l : list rule) : list rule * bool :=
  match rs with
  | [] => (l, false)
  | _ :: _ => if forallb (fun r => rmem r l) rs then (fold_left (fun l0 r => rremove r l0) rs l, true) else (l, false)
  end.

