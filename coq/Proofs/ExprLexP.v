(* Proof that Proofs/ExprParse.v reads back what Model/Expr.v prints:
       wf_expr e = true -> parse_expr (print_expr e) = Some e.
   Part 1: the lexer turns the printed text into the token-level print `tprint_at`.
   Part 2: the precedence parser turns `tprint_at` back into the AST. *)
From CV Require Import Model.Base Model.PathMatch Model.Expr.
From CV Require Import Proofs.BaseP Proofs.ExprP Proofs.ExprParse.
From Coq Require Import Lia ZArith NArith.

(* ====================================================================== the token-level printer *)
Definition twrap (ctx prec : nat) (ts : list token) : list token :=
  if Nat.ltb prec ctx then TLP :: ts ++ [TRP] else ts.

Fixpoint tsep (l : list (list token)) : list token :=
  match l with
  | [] => []
  | [x] => x
  | x :: l' => x ++ TComma :: tsep l'
  end.

Definition cmp_tok (c : cmpop) : token :=
  match c with CLt => TLt | CLe => TLe | CGt => TGt | CGe => TGe end.

Definition tscalar (v : scalar) : token :=
  match v with
  | SStr s => TStr s
  | SInt z => TInt z
  | SBool true => TId s_true
  | SBool false => TId s_false
  end.

Fixpoint tprint_at (ctx : nat) (e : expr) : list token :=
  match e with
  | ELit v => [tscalar v]
  | EVar p f => [TId p; TDot; TId f]
  | EProp a f => tprint_at 6 a ++ [TDot; TId f]
  | EEq a b => twrap ctx 3 (tprint_at 6 a ++ TEqEq :: tprint_at 6 b)
  | ENeq a b => twrap ctx 3 (tprint_at 6 a ++ TNe :: tprint_at 6 b)
  | ECmp c a b => twrap ctx 5 (tprint_at 6 a ++ cmp_tok c :: tprint_at 6 b)
  | EAnd a b => twrap ctx 2 (tprint_at 2 a ++ TAndAnd :: tprint_at 3 b)
  | EOr a b => twrap ctx 1 (tprint_at 1 a ++ TOrOr :: tprint_at 2 b)
  | ENot a => twrap ctx 6 (TBang :: tprint_at 7 a)
  | EIn a xs => twrap ctx 4 (tprint_at 6 a ++ TId s_in :: TLB :: tsep (map (tprint_at 0) xs) ++ [TRB])
  | ECall f args => TId f :: TLP :: tsep (map (tprint_at 0) args) ++ [TRP]
  | EEval p f => [TId s_eval; TLP; TId p; TDot; TId f; TRP]
  end.

(* ====================================================================== well-formed ASTs *)
(* identifiers as rhai reads them; `true` / `false` are literals, not names; an integer prints with all its digits
   (print_Z keeps 20); the base of a property access is not a negation (`!a.f` is `!(a.f)`); a call of the name
   `eval` on a variable is written EEval *)
Definition ident (x : text) : bool :=
  match x with
  | c :: r => is_idstart c && forallb is_idchar r
  | [] => false
  end.
Definition name_ok (x : text) : bool := ident x && negb (teqb x s_true) && negb (teqb x s_false).
Definition is_not (e : expr) : bool := match e with ENot _ => true | _ => false end.
Definition int_ok (z : Z) : bool := (Z.abs z <? 10 ^ 20)%Z.
Definition scalar_ok (v : scalar) : bool := match v with SInt z => int_ok z | _ => true end.

Fixpoint wf_expr (e : expr) : bool :=
  match e with
  | ELit v => scalar_ok v
  | EVar p f => name_ok p && ident f
  | EProp a f => wf_expr a && negb (is_not a) && ident f
  | EEq a b | ENeq a b | ECmp _ a b | EAnd a b | EOr a b => wf_expr a && wf_expr b
  | ENot a => wf_expr a
  | EIn a xs => wf_expr a && forallb wf_expr xs
  | ECall f args => name_ok f && negb (teqb f s_eval) && forallb wf_expr args
  | EEval p f => name_ok p && ident f
  end.

(* ====================================================================== Part 1: the lexer *)
Lemma pre_nil o : pre [] o = o.
Proof. destruct o; reflexivity. Qed.

Lemma pre_pre a b o : pre a (pre b o) = pre (a ++ b) o.
Proof. destruct o; cbn [pre]; [rewrite app_assoc|]; reflexivity. Qed.

Lemma lex_emit t c s :
  match emit_then t c with Some (ts, st') => pre ts (lex st' s) | None => None end = pre [t] (lex LIdle (c :: s)).
Proof.
  unfold emit_then. cbn [lex step]. destruct (start c) as [[ts st']|]; [|reflexivity].
  destruct (lex st' s); reflexivity.
Qed.

(* ---- character classes, by enumeration *)
Lemma start_idstart c : is_idstart c = true -> start c = Some ([], LId [c]).
Proof. destruct c as [[] [] [] [] [] [] [] []]; intros H; try discriminate H; reflexivity. Qed.

Lemma start_digit c : is_digit c = true -> start c = Some ([], LNum false (dval c)).
Proof. destruct c as [[] [] [] [] [] [] [] []]; intros H; try discriminate H; reflexivity. Qed.

Lemma idstart_not_eq c : is_idstart c = true -> Ascii.eqb c "="%char = false.
Proof. destruct c as [[] [] [] [] [] [] [] []]; intros H; try discriminate H; reflexivity. Qed.

Lemma digit_not_eq c : is_digit c = true -> Ascii.eqb c "="%char = false.
Proof. destruct c as [[] [] [] [] [] [] [] []]; intros H; try discriminate H; reflexivity. Qed.

Lemma digit_idchar c : is_digit c = true -> is_idchar c = true.
Proof. intros H. unfold is_idchar. rewrite H. apply orb_true_r. Qed.

Definition brk (s : text) : bool :=
  match s with [] => true | c :: _ => negb (is_idchar c) end.

(* ---- identifiers *)
Lemma lex_id_go r : forall acc rest,
  forallb is_idchar r = true -> brk rest = true ->
  lex (LId acc) (r ++ rest) = pre [TId (rev acc ++ r)] (lex LIdle rest).
Proof.
  induction r as [|c r IH]; intros acc rest Hr Hb.
  - cbn [app]. rewrite app_nil_r. destruct rest as [|c s].
    + reflexivity.
    + cbn [brk] in Hb. apply negb_true_iff in Hb.
      cbn [lex step]. rewrite Hb. apply lex_emit.
  - cbn [forallb] in Hr. apply andb_true_iff in Hr. destruct Hr as [Hc Hr].
    cbn [app lex step]. rewrite Hc. rewrite pre_nil.
    rewrite (IH (c :: acc) rest Hr Hb). cbn [rev]. rewrite <- app_assoc. reflexivity.
Qed.

Lemma lex_ident x rest :
  ident x = true -> brk rest = true ->
  lex LIdle (x ++ rest) = pre [TId x] (lex LIdle rest).
Proof.
  destruct x as [|c r]; [discriminate|]. cbn [ident]. intros H Hb.
  apply andb_true_iff in H. destruct H as [Hc Hr].
  cbn [app lex step]. rewrite (start_idstart c Hc). rewrite pre_nil.
  apply (lex_id_go r [c] rest Hr Hb).
Qed.

(* ---- integers *)
Definition dfold (n : Z) (ds : text) : Z := fold_left (fun a c => (10 * a + dval c)%Z) ds n.

Lemma lex_num_go ds : forall neg n rest,
  forallb is_digit ds = true -> brk rest = true ->
  lex (LNum neg n) (ds ++ rest) = pre [TInt (zsign neg (dfold n ds))] (lex LIdle rest).
Proof.
  induction ds as [|c ds IH]; intros neg n rest Hd Hb.
  - cbn [app dfold fold_left]. destruct rest as [|c s].
    + reflexivity.
    + cbn [brk] in Hb. apply negb_true_iff in Hb.
      assert (Hdc : is_digit c = false).
      { destruct (is_digit c) eqn:E; [|reflexivity]. rewrite (digit_idchar c E) in Hb. discriminate. }
      cbn [lex step]. rewrite Hdc. apply lex_emit.
  - cbn [forallb] in Hd. apply andb_true_iff in Hd. destruct Hd as [Hc Hd].
    cbn [app lex step]. rewrite Hc. rewrite pre_nil.
    rewrite (IH neg _ rest Hd Hb). reflexivity.
Qed.

(* the digits print_pos_fuel writes *)
Lemma dval_digit_char k : k < 10 -> dval (digit_char k) = Z.of_nat k /\ is_digit (digit_char k) = true.
Proof.
  intros Hk. do 10 (destruct k as [|k]; [split; reflexivity|]). lia.
Qed.

Lemma dfold_app n a b : dfold n (a ++ b) = dfold (dfold n a) b.
Proof. unfold dfold. apply fold_left_app. Qed.

Lemma print_pos_digits fuel : forall n acc,
  (0 < n)%N -> (n < 10 ^ N.of_nat fuel)%N ->
  exists ds, print_pos_fuel fuel n acc = ds ++ acc /\ ds <> [] /\ forallb is_digit ds = true /\
             forall a, dfold a ds = (a * 10 ^ Z.of_nat (length ds) + Z.of_N n)%Z.
Proof.
  induction fuel as [|fuel IH]; intros n acc Hpos Hlt.
  - cbn in Hlt. lia.
  - cbn [print_pos_fuel].
    assert (Hd : (n mod 10 < 10)%N) by (apply N.mod_lt; lia).
    assert (Hk : N.to_nat (n mod 10) < 10) by lia.
    destruct (dval_digit_char _ Hk) as [Hv Hdig].
    assert (Hdm : n = (10 * (n / 10) + n mod 10)%N) by (apply N.div_mod; lia).
    destruct (N.eqb (n / 10) 0) eqn:Hq.
    + apply N.eqb_eq in Hq.
      exists [digit_char (N.to_nat (n mod 10))]. split; [reflexivity|]. split; [discriminate|].
      split; [cbn [forallb]; rewrite Hdig; reflexivity|].
      intros a. cbn [dfold fold_left length]. rewrite Hv, N_nat_Z.
      change (Z.of_nat 1) with 1%Z. rewrite Z.pow_1_r.
      assert (Hn : (n mod 10 = n)%N) by (rewrite Hq, N.mul_0_r, N.add_0_l in Hdm; symmetry; exact Hdm).
      rewrite Hn. ring.
    + apply N.eqb_neq in Hq.
      assert (Hq0 : (0 < n / 10)%N) by lia.
      assert (Hqlt : (n / 10 < 10 ^ N.of_nat fuel)%N).
      { apply N.div_lt_upper_bound; [lia|].
        replace (N.of_nat (S fuel)) with (N.succ (N.of_nat fuel)) in Hlt by lia.
        rewrite N.pow_succ_r' in Hlt. exact Hlt. }
      destruct (IH (n / 10)%N (digit_char (N.to_nat (n mod 10)) :: acc) Hq0 Hqlt) as [ds [Heq [Hne [Hall Hval]]]].
      exists (ds ++ [digit_char (N.to_nat (n mod 10))]).
      split; [rewrite Heq, <- app_assoc; reflexivity|].
      split; [destruct ds; discriminate|].
      split; [rewrite forallb_app, Hall; cbn [forallb]; rewrite Hdig; reflexivity|].
      intros a. rewrite dfold_app, Hval. cbn [dfold fold_left]. rewrite Hv, N_nat_Z.
      rewrite app_length. cbn [length]. rewrite Nat.add_1_r, Nat2Z.inj_succ, Z.pow_succ_r by lia.
      assert (Hz : (Z.of_N n = 10 * Z.of_N (n / 10) + Z.of_N (n mod 10))%Z).
      { rewrite Hdm at 1. rewrite N2Z.inj_add, N2Z.inj_mul. reflexivity. }
      rewrite Hz. ring.
Qed.

Lemma lex_digits (ds rest : text) (neg : bool) :
  ds <> [] -> forallb is_digit ds = true -> brk rest = true ->
  lex (if neg then LMinus else LIdle) (ds ++ rest) = pre [TInt (zsign neg (dfold 0 ds))] (lex LIdle rest).
Proof.
  destruct ds as [|c ds]; [congruence|]. intros _ Hd Hb.
  cbn [forallb] in Hd. apply andb_true_iff in Hd. destruct Hd as [Hc Hd].
  cbn [app lex]. destruct neg; cbn [step].
  - rewrite Hc, pre_nil. rewrite (lex_num_go ds true _ rest Hd Hb).
    cbn [dfold fold_left]. rewrite Z.mul_0_r, Z.add_0_l. reflexivity.
  - rewrite (start_digit c Hc), pre_nil. rewrite (lex_num_go ds false _ rest Hd Hb).
    cbn [dfold fold_left]. rewrite Z.mul_0_r, Z.add_0_l. reflexivity.
Qed.

Lemma pos_lt_pow20 p : int_ok (Zpos p) = true -> (N.pos p < 10 ^ N.of_nat 20)%N.
Proof.
  unfold int_ok. intros H. apply Z.ltb_lt in H. cbn [Z.abs] in H.
  apply N2Z.inj_lt. rewrite N2Z.inj_pow. exact H.
Qed.

Lemma lex_print_Z z rest :
  int_ok z = true -> brk rest = true ->
  lex LIdle (print_Z z ++ rest) = pre [TInt z] (lex LIdle rest).
Proof.
  intros Hz Hb. destruct z as [|p|p]; cbn [print_Z].
  - apply (lex_digits (T "0") rest false); [discriminate|reflexivity|exact Hb].
  - destruct (print_pos_digits 20 (N.pos p) [] ltac:(lia) (pos_lt_pow20 p Hz)) as [ds [Heq [Hne [Hall Hval]]]].
    rewrite Heq, app_nil_r. rewrite (lex_digits ds rest false Hne Hall Hb).
    rewrite Hval. cbn [zsign]. rewrite Z.mul_0_l, Z.add_0_l. reflexivity.
  - assert (Hz' : int_ok (Zpos p) = true) by exact Hz.
    destruct (print_pos_digits 20 (N.pos p) [] ltac:(lia) (pos_lt_pow20 p Hz')) as [ds [Heq [Hne [Hall Hval]]]].
    rewrite Heq, app_nil_r. cbn [app lex step].
    change (start "-"%char) with (Some (@nil token, LMinus)). cbn iota. rewrite pre_nil.
    rewrite (lex_digits ds rest true Hne Hall Hb).
    rewrite Hval. cbn [zsign]. rewrite Z.mul_0_l, Z.add_0_l. reflexivity.
Qed.

Lemma print_Z_head z : int_ok z = true -> exists c s, print_Z z = c :: s /\ Ascii.eqb c "="%char = false.
Proof.
  intros Hz. destruct z as [|p|p]; cbn [print_Z].
  - eexists; eexists; split; reflexivity.
  - destruct (print_pos_digits 20 (N.pos p) [] ltac:(lia) (pos_lt_pow20 p Hz)) as [ds [Heq [Hne [Hall _]]]].
    rewrite Heq, app_nil_r. destruct ds as [|c s]; [congruence|].
    cbn [forallb] in Hall. apply andb_true_iff in Hall. destruct Hall as [Hc _].
    exists c, s. split; [reflexivity|apply digit_not_eq, Hc].
  - eexists; eexists; split; reflexivity.
Qed.

(* ---- string literals *)
Lemma lex_str_go s : forall acc rest,
  lex (LStr acc false) (esc_lit s ++ quote :: rest) = pre [TStr (rev acc ++ s)] (lex LIdle rest).
Proof.
  induction s as [|c s IH]; intros acc rest.
  - cbn [esc_lit app lex step]. rewrite app_nil_r.
    change (Ascii.eqb quote backslash) with false. change (Ascii.eqb quote quote) with true. cbn iota.
    reflexivity.
  - cbn [esc_lit]. destruct (Ascii.eqb c quote || Ascii.eqb c backslash) eqn:E.
    + cbn [app]. cbn [lex step]. change (Ascii.eqb backslash backslash) with true. cbn iota.
      rewrite pre_nil. cbn [lex step]. rewrite pre_nil.
      rewrite (IH (c :: acc) rest). cbn [rev]. rewrite <- app_assoc. reflexivity.
    + apply orb_false_elim in E. destruct E as [Eq Eb].
      cbn [app lex step]. rewrite Eb, Eq. rewrite pre_nil.
      rewrite (IH (c :: acc) rest). cbn [rev]. rewrite <- app_assoc. reflexivity.
Qed.

Lemma lex_str s rest :
  lex LIdle (quote :: esc_lit s ++ quote :: rest) = pre [TStr s] (lex LIdle rest).
Proof.
  cbn [lex step]. change (start quote) with (Some (@nil token, LStr [] false)). cbn iota.
  rewrite pre_nil. apply (lex_str_go s [] rest).
Qed.

(* ---- fixed pieces of text *)
Ltac lex1 :=
  cbn [lex app T list_ascii_of_string cmp_text dot];
  match goal with
  | |- context [step ?st ?c] =>
    let r := eval vm_compute in (step st c) in change (step st c) with r; cbn iota beta
  end.
Ltac lex_fixed := intros; repeat lex1; repeat rewrite pre_nil;
  match goal with |- context [lex LIdle ?s] => destruct (lex LIdle s); reflexivity end.

Lemma lex_lp s : lex LIdle ("("%char :: s) = pre [TLP] (lex LIdle s).
Proof. lex_fixed. Qed.
Lemma lex_rp s : lex LIdle (")"%char :: s) = pre [TRP] (lex LIdle s).
Proof. lex_fixed. Qed.
Lemma lex_rb s : lex LIdle ("]"%char :: s) = pre [TRB] (lex LIdle s).
Proof. lex_fixed. Qed.
Lemma lex_dot s : lex LIdle (dot :: s) = pre [TDot] (lex LIdle s).
Proof. lex_fixed. Qed.
Lemma lex_comma s : lex LIdle (T ", " ++ s) = pre [TComma] (lex LIdle s).
Proof. lex_fixed. Qed.
Lemma lex_eqeq s : lex LIdle (T " == " ++ s) = pre [TEqEq] (lex LIdle s).
Proof. lex_fixed. Qed.
Lemma lex_ne s : lex LIdle (T " != " ++ s) = pre [TNe] (lex LIdle s).
Proof. lex_fixed. Qed.
Lemma lex_andand s : lex LIdle (T " && " ++ s) = pre [TAndAnd] (lex LIdle s).
Proof. lex_fixed. Qed.
Lemma lex_oror s : lex LIdle (T " || " ++ s) = pre [TOrOr] (lex LIdle s).
Proof. lex_fixed. Qed.
Lemma lex_cmp c s : lex LIdle (cmp_text c ++ s) = pre [cmp_tok c] (lex LIdle s).
Proof. destruct c; lex_fixed. Qed.
Lemma lex_in s : lex LIdle (T " in [" ++ s) = pre [TId s_in; TLB] (lex LIdle s).
Proof. lex_fixed. Qed.
Lemma lex_eval_lp s : lex LIdle (T "eval(" ++ s) = pre [TId s_eval; TLP] (lex LIdle s).
Proof. lex_fixed. Qed.

Lemma lex_bang c s :
  Ascii.eqb c "="%char = false ->
  lex LIdle ("!"%char :: c :: s) = pre [TBang] (lex LIdle (c :: s)).
Proof.
  intros Hc. cbn [lex step]. change (start "!"%char) with (Some (@nil token, LOp "!"%char)). cbn iota.
  rewrite pre_nil. cbn [lex step]. unfold op2. cbn. rewrite Hc. cbn.
  apply lex_emit.
Qed.

(* ---- the first character of a printed expression is never `=` (so `!` followed by it is not `!=`) *)
Lemma ident_head x : ident x = true -> exists c s, x = c :: s /\ Ascii.eqb c "="%char = false.
Proof.
  destruct x as [|c r]; [discriminate|]. cbn [ident]. intros H.
  apply andb_true_iff in H. destruct H as [Hc _].
  exists c, r. split; [reflexivity|apply idstart_not_eq, Hc].
Qed.

Lemma name_ok_ident x : name_ok x = true -> ident x = true.
Proof.
  unfold name_ok. intros H. apply andb_true_iff in H. destruct H as [H _].
  apply andb_true_iff in H. destruct H as [H _]. exact H.
Qed.

Definition ok_head (s : text) : Prop := exists c s', s = c :: s' /\ Ascii.eqb c "="%char = false.

Lemma ok_head_app s t : ok_head s -> ok_head (s ++ t).
Proof. intros [c [s' [E H]]]. subst. exists c, (s' ++ t). split; [reflexivity|exact H]. Qed.

Lemma ok_head_wrap ctx prec s : ok_head s -> ok_head (wrap ctx prec s).
Proof.
  intros H. unfold wrap. destruct (Nat.ltb prec ctx); [|exact H].
  eexists; eexists; split; reflexivity.
Qed.

Lemma print_head e : forall ctx, wf_expr e = true -> ok_head (print_expr_at ctx e).
Proof.
  induction e as [v|p f|a f IHa|a b IHa IHb|a b IHa IHb|c a b IHa IHb|a b IHa IHb
                  |a b IHa IHb|a IHa|a xs IHa IHxs|f args IHargs|p f] using expr_ind';
    intros ctx Hwf; cbn [print_expr_at wf_expr] in *;
    repeat match goal with H : _ && _ = true |- _ => apply andb_true_iff in H; destruct H end.
  - destruct v as [s|z|[|]]; cbn [print_scalar scalar_ok] in *.
    + eexists; eexists; split; reflexivity.
    + destruct (print_Z_head z Hwf) as [c [s [E H]]]. exists c, s. auto.
    + eexists; eexists; split; reflexivity.
    + eexists; eexists; split; reflexivity.
  - apply ok_head_app. apply ident_head, name_ok_ident. assumption.
  - apply ok_head_app. apply IHa. assumption.
  - apply ok_head_wrap, ok_head_app, IHa. assumption.
  - apply ok_head_wrap, ok_head_app, IHa. assumption.
  - apply ok_head_wrap, ok_head_app, IHa. assumption.
  - apply ok_head_wrap, ok_head_app, IHa. assumption.
  - apply ok_head_wrap, ok_head_app, IHa. assumption.
  - apply ok_head_wrap. eexists; eexists; split; reflexivity.
  - apply ok_head_wrap, ok_head_app, IHa. assumption.
  - apply ok_head_app. apply ident_head, name_ok_ident. assumption.
  - eexists; eexists; split; reflexivity.
Qed.

(* ---- the main lemma of part 1 *)
Definition lex_ok (e : expr) : Prop :=
  wf_expr e = true -> forall ctx rest, brk rest = true ->
  lex LIdle (print_expr_at ctx e ++ rest) = pre (tprint_at ctx e) (lex LIdle rest).

Lemma lex_sep xs : Forall lex_ok xs -> forallb wf_expr xs = true -> forall rest, brk rest = true ->
  lex LIdle (sep_by (T ", ") (map (print_expr_at 0) xs) ++ rest) =
  pre (tsep (map (tprint_at 0) xs)) (lex LIdle rest).
Proof.
  induction xs as [|x xs IH]; intros HF Hwf rest Hb.
  - cbn [map sep_by tsep app]. rewrite pre_nil. reflexivity.
  - inversion HF as [|x' xs' Hx Hxs]; subst. cbn [forallb] in Hwf.
    apply andb_true_iff in Hwf. destruct Hwf as [Hwx Hwxs].
    destruct xs as [|y ys].
    + cbn [map sep_by tsep]. apply Hx; assumption.
    + change (sep_by (T ", ") (map (print_expr_at 0) (x :: y :: ys)))
        with (print_expr_at 0 x ++ T ", " ++ sep_by (T ", ") (map (print_expr_at 0) (y :: ys))).
      change (tsep (map (tprint_at 0) (x :: y :: ys)))
        with (tprint_at 0 x ++ TComma :: tsep (map (tprint_at 0) (y :: ys))).
      repeat rewrite <- app_assoc.
      rewrite (Hx Hwx 0) by reflexivity. rewrite lex_comma. rewrite (IH Hxs Hwxs rest Hb).
      rewrite !pre_pre. rewrite <- app_assoc. reflexivity.
Qed.

Ltac lex_fin rest :=
  rewrite ?pre_pre; destruct (lex LIdle rest); cbn [pre]; [f_equal|reflexivity];
  repeat (rewrite <- app_assoc; cbn [app]); reflexivity.

Lemma lex_wrap ctx prec s ts rest :
  (forall rest', brk rest' = true -> lex LIdle (s ++ rest') = pre ts (lex LIdle rest')) ->
  brk rest = true ->
  lex LIdle (wrap ctx prec s ++ rest) = pre (twrap ctx prec ts) (lex LIdle rest).
Proof.
  intros H Hb. unfold wrap, twrap. destruct (Nat.ltb prec ctx).
  - unfold paren. cbn [app]. rewrite <- app_assoc. cbn [app].
    rewrite lex_lp. rewrite H by reflexivity. rewrite lex_rp. lex_fin rest.
  - apply H, Hb.
Qed.

Lemma lex_print e : lex_ok e.
Proof.
  induction e as [v|p f|a f IHa|a b IHa IHb|a b IHa IHb|c a b IHa IHb|a b IHa IHb
                  |a b IHa IHb|a IHa|a xs IHa IHxs|f args IHargs|p f] using expr_ind';
    intros Hwf ctx rest Hb; cbn [print_expr_at tprint_at wf_expr] in *;
    repeat match goal with H : _ && _ = true |- _ => apply andb_true_iff in H; destruct H end.
  - (* ELit *)
    destruct v as [s|z|[|]]; cbn [print_scalar tscalar scalar_ok] in *.
    + cbn [app]. rewrite <- app_assoc. cbn [app]. apply lex_str.
    + apply lex_print_Z; assumption.
    + apply (lex_ident (T "true")); [reflexivity|exact Hb].
    + apply (lex_ident (T "false")); [reflexivity|exact Hb].
  - (* EVar *)
    rewrite <- app_assoc. cbn [app].
    rewrite (lex_ident p) by (try apply name_ok_ident; auto).
    rewrite lex_dot. rewrite (lex_ident f) by auto. lex_fin rest.
  - (* EProp *)
    rewrite <- app_assoc. cbn [app].
    rewrite (IHa ltac:(assumption) 6) by reflexivity. rewrite lex_dot. rewrite (lex_ident f) by auto. lex_fin rest.
  - (* EEq *)
    apply lex_wrap; [|exact Hb]. intros rest' Hb'. repeat rewrite <- app_assoc.
    rewrite (IHa ltac:(assumption) 6) by reflexivity. rewrite lex_eqeq, (IHb ltac:(assumption) 6 _ Hb'). lex_fin rest'.
  - (* ENeq *)
    apply lex_wrap; [|exact Hb]. intros rest' Hb'. repeat rewrite <- app_assoc.
    rewrite (IHa ltac:(assumption) 6) by reflexivity. rewrite lex_ne, (IHb ltac:(assumption) 6 _ Hb'). lex_fin rest'.
  - (* ECmp *)
    apply lex_wrap; [|exact Hb]. intros rest' Hb'. repeat rewrite <- app_assoc.
    rewrite (IHa ltac:(assumption) 6) by (destruct c; reflexivity). rewrite lex_cmp, (IHb ltac:(assumption) 6 _ Hb').
    lex_fin rest'.
  - (* EAnd *)
    apply lex_wrap; [|exact Hb]. intros rest' Hb'. repeat rewrite <- app_assoc.
    rewrite (IHa ltac:(assumption) 2) by reflexivity. rewrite lex_andand, (IHb ltac:(assumption) 3 _ Hb'). lex_fin rest'.
  - (* EOr *)
    apply lex_wrap; [|exact Hb]. intros rest' Hb'. repeat rewrite <- app_assoc.
    rewrite (IHa ltac:(assumption) 1) by reflexivity. rewrite lex_oror, (IHb ltac:(assumption) 2 _ Hb'). lex_fin rest'.
  - (* ENot *)
    apply lex_wrap; [|exact Hb]. intros rest' Hb'.
    destruct (print_head a 7 Hwf) as [c [s [E Hc]]].
    assert (E' : print_expr_at 7 a ++ rest' = c :: (s ++ rest')) by (rewrite E; reflexivity).
    cbn [app]. rewrite E'. rewrite (lex_bang c _ Hc). rewrite <- E'.
    rewrite (IHa Hwf 7 _ Hb'). lex_fin rest'.
  - (* EIn *)
    apply lex_wrap; [|exact Hb]. intros rest' Hb'. repeat rewrite <- app_assoc.
    rewrite (IHa ltac:(assumption) 6) by reflexivity. rewrite lex_in.
    rewrite (lex_sep xs IHxs ltac:(assumption)) by reflexivity.
    cbn [T list_ascii_of_string app]. rewrite lex_rb. lex_fin rest'.
  - (* ECall *)
    unfold paren. repeat rewrite <- app_assoc. cbn [app]. rewrite <- app_assoc.
    rewrite (lex_ident f) by (try apply name_ok_ident; auto).
    rewrite lex_lp. rewrite (lex_sep args IHargs ltac:(assumption)) by reflexivity.
    cbn [app]. rewrite lex_rp. lex_fin rest.
  - (* EEval *)
    repeat rewrite <- app_assoc. rewrite lex_eval_lp.
    rewrite (lex_ident p) by (try apply name_ok_ident; auto).
    cbn [app]. rewrite lex_dot. rewrite <- app_assoc.
    rewrite (lex_ident f) by auto. cbn [T list_ascii_of_string app]. rewrite lex_rp. lex_fin rest.
Qed.

Theorem lex_print_expr e :
  wf_expr e = true -> lex LIdle (print_expr e) = Some (tprint_at 0 e).
Proof.
  intros Hwf. unfold print_expr. rewrite <- (app_nil_r (print_expr_at 0 e)).
  rewrite (lex_print e Hwf 0 [] eq_refl). cbn [lex flush pre]. rewrite app_nil_r. reflexivity.
Qed.
