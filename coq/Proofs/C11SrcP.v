(* C11 at the level of the TRANSLATED SOURCE: the headline theorems of Properties/C11.v restated about
   - `src_cenforce` = gen_cenforce of Gen/CachedGen.v (CachedEnforcer::enforce / enforce_with_context with their
     private_enforce* of src/cached_enforcer.rs: lookup, decide, store),
   - `src_cstep`: for the fourteen configuration / reload / toggle operations the translated delegating methods of
     src/cached_enforcer.rs (gen_cstep_op of PinChecks/PcCachedGen.v: WHERE each of them clears the cache comes from
     the source); for the management and RBAC calls - which src/cached_enforcer.rs does not define: they are the
     default methods of internal_api.rs / rbac_api.rs emitting Event::ClearCache - the translated `src_step` on the
     wrapped enforcer followed by the clearing rule Model/Cached.clears_after (CachedGen covers no more; the position
     of that emit in the translated internal_api.rs is the subject of PinChecks/PcInternalGen.v, part 3),
   - `src_step` / `src_enforce` / `src_enforce_with_ctx4` (Proofs/SrcStepP.v) for the uncached twin.
   The runs of Model/Cached.v / Model/SpecC11.v get a src_ twin by the same text, proved equal first.
   Proofs: the C11 theorems (Proofs/C11P.v) composed with PcCachedGen and src_step_eq & co. *)
From CV Require Import Model.Base Model.Expr Model.Enforce Model.Engine Model.Cached Model.SpecC11.
From CV Require Import Gen.CachedRt Gen.CachedGen PinChecks.PcCachedGen.
From CV Require Import Proofs.C11P Proofs.SrcStepP.

(* ---- twins ---- *)
Definition src_cstep_prim (c : cstate) (o : op) : cstate * outcome bool :=
  let (s', r) := src_step (c_inner c) o in
  ({| c_inner := s'; c_cache := if clears_after o r then [] else c_cache c |}, r).

Definition src_cstep (c : cstate) (o : op) : cstate * outcome bool :=
  match gen_cstep_op c o with
  | Some res => res                      (* a method of src/cached_enforcer.rs *)
  | None =>
    match o with
    | ORbac r =>
      let (o1, o2) := rbac_prims r in
      match src_cstep_prim c o1 with
      | (c1, Ok a) =>
        match o2 with
        | None => (c1, Ok a)
        | Some o2' => match src_cstep_prim c1 o2' with
                      | (c2, Ok b) => (c2, Ok (a || b))
                      | other => other
                      end
        end
      | other => other
      end
    | _ => src_cstep_prim c o
    end
  end.

Section SrcRuns.
  Variable ptab : text -> option expr.

  Definition src_decide (s : estate) (k : ckey) : outcome bool :=
    match k with
    | CKPlain rv => src_enforce ptab s rv
    | CKCtx4 rk pk ek mk rv => src_enforce_with_ctx4 ptab s rk pk ek mk rv
    end.

  Definition src_cenforce (c : cstate) (k : ckey) : cstate * outcome bool := gen_cenforce ptab c k.

  Fixpoint src_crun (c : cstate) (h : list citem) : list (outcome bool) :=
    match h with
    | [] => []
    | CIOp o :: h' => let (c', r) := src_cstep c o in r :: src_crun c' h'
    | CIReq k :: h' => let (c', r) := src_cenforce c k in r :: src_crun c' h'
    end.
  Fixpoint src_prun (s : estate) (h : list citem) : list (outcome bool) :=
    match h with
    | [] => []
    | CIOp o :: h' => let (s', r) := src_step s o in r :: src_prun s' h'
    | CIReq k :: h' => src_decide s k :: src_prun s h'
    end.
  Fixpoint src_crun_state (c : cstate) (h : list citem) : cstate :=
    match h with
    | [] => c
    | CIOp o :: h' => src_crun_state (fst (src_cstep c o)) h'
    | CIReq k :: h' => src_crun_state (fst (src_cenforce c k)) h'
    end.
  Fixpoint src_prun_state (s : estate) (h : list citem) : estate :=
    match h with
    | [] => s
    | CIOp o :: h' => src_prun_state (fst (src_step s o)) h'
    | CIReq _ :: h' => src_prun_state s h'
    end.
  Fixpoint src_crun_evict (c : cstate) (h : list ((ckey -> bool) * citem)) : list (outcome bool) :=
    match h with
    | [] => []
    | (keep, CIOp o) :: h' => let (c', r) := src_cstep (evict keep c) o in r :: src_crun_evict c' h'
    | (keep, CIReq k) :: h' => let (c', r) := src_cenforce (evict keep c) k in r :: src_crun_evict c' h'
    end.

  (* every cached entry is the current decision of the translated uncached loop *)
  Definition src_CacheCoherent (c : cstate) : Prop :=
    forall k b, cache_get k (c_cache c) = Some b -> src_decide (c_inner c) k = Ok b.

  Lemma src_decide_eq : forall s k, src_decide s k = decide ptab s k.
  Proof.
    intros s [rv|rk pk ek mk rv]; cbn [src_decide decide];
      [apply src_enforce_eq|apply src_enforce_with_ctx4_eq].
  Qed.
  Lemma src_cenforce_eq : forall c k, src_cenforce c k = cenforce ptab c k.
  Proof. intros c k. apply gen_cenforce_ok. Qed.
End SrcRuns.

Lemma src_cstep_prim_eq : forall c o, src_cstep_prim c o = cstep_prim c o.
Proof. intros c o. unfold src_cstep_prim, cstep_prim. rewrite src_step_eq. reflexivity. Qed.

Lemma src_cstep_eq : forall c o, src_cstep c o = cstep c o.
Proof.
  intros c o. unfold src_cstep. destruct (cfg_op o) eqn:Hc.
  - rewrite (gen_cstep_op_ok c o Hc). reflexivity.
  - destruct o; try discriminate Hc; cbn [gen_cstep_op cstep]; try apply src_cstep_prim_eq.
    destruct (rbac_prims r) as [o1 o2]. rewrite src_cstep_prim_eq.
    destruct (cstep_prim c o1) as [c1 [a|e|]]; try reflexivity.
    destruct o2 as [o2'|]; [|reflexivity]. rewrite src_cstep_prim_eq. reflexivity.
Qed.

Lemma src_crun_eq : forall ptab h c, src_crun ptab c h = crun ptab c h.
Proof.
  intros ptab. induction h as [|[o|k] h IH]; intros c; cbn [src_crun crun]; [reflexivity| |].
  - rewrite src_cstep_eq. destruct (cstep c o) as [c' r]. rewrite IH. reflexivity.
  - rewrite src_cenforce_eq. destruct (cenforce ptab c k) as [c' r]. rewrite IH. reflexivity.
Qed.
Lemma src_prun_eq : forall ptab h s, src_prun ptab s h = prun ptab s h.
Proof.
  intros ptab. induction h as [|[o|k] h IH]; intros s; cbn [src_prun prun]; [reflexivity| |].
  - rewrite src_step_eq. destruct (step s o) as [s' r]. rewrite IH. reflexivity.
  - rewrite src_decide_eq, IH. reflexivity.
Qed.
Lemma src_crun_state_eq : forall ptab h c, src_crun_state ptab c h = crun_state ptab c h.
Proof.
  intros ptab. induction h as [|[o|k] h IH]; intros c; cbn [src_crun_state crun_state]; [reflexivity| |].
  - rewrite src_cstep_eq. apply IH.
  - rewrite src_cenforce_eq. apply IH.
Qed.
Lemma src_prun_state_eq : forall h s, src_prun_state s h = prun_state s h.
Proof.
  induction h as [|[o|k] h IH]; intros s; cbn [src_prun_state prun_state]; [reflexivity| |].
  - rewrite src_step_eq. apply IH.
  - apply IH.
Qed.
Lemma src_crun_evict_eq : forall ptab h c, src_crun_evict ptab c h = crun_evict ptab c h.
Proof.
  intros ptab. induction h as [|[keep [o|k]] h IH]; intros c; cbn [src_crun_evict crun_evict]; [reflexivity| |].
  - rewrite src_cstep_eq. destruct (cstep (evict keep c) o) as [c' r]. rewrite IH. reflexivity.
  - rewrite src_cenforce_eq. destruct (cenforce ptab (evict keep c) k) as [c' r]. rewrite IH. reflexivity.
Qed.
Lemma src_CacheCoherent_iff : forall ptab c, src_CacheCoherent ptab c <-> CacheCoherent ptab c.
Proof.
  intros ptab c. unfold src_CacheCoherent, CacheCoherent. split; intros H k b Hg.
  - rewrite <- src_decide_eq. apply H. exact Hg.
  - rewrite src_decide_eq. apply H. exact Hg.
Qed.

(* ---- the substance: a call after which the cache is kept changed no decision ---- *)
Lemma src_c11_noclear_no_change : forall ptab s o,
  is_rbac o = false -> clears_after o (snd (src_step s o)) = false ->
  forall k, src_decide ptab (fst (src_step s o)) k = src_decide ptab s k.
Proof.
  intros ptab s o Hr. rewrite src_step_eq. intros Hc k. rewrite !src_decide_eq.
  apply step_noclear_decide; assumption.
Qed.

(* ---- the cached enforcer is the plain enforcer plus a cache ---- *)
Lemma src_c11_call_refines : forall c o,
  c_inner (fst (src_cstep c o)) = fst (src_step (c_inner c) o) /\
  snd (src_cstep c o) = snd (src_step (c_inner c) o).
Proof. intros c o. rewrite src_cstep_eq, src_step_eq. apply cstep_refines. Qed.

(* ---- the invariant: every cached entry is the current uncached decision, in every reachable state ---- *)
Lemma src_c11_coherent_call : forall ptab c o,
  src_CacheCoherent ptab c -> src_CacheCoherent ptab (fst (src_cstep c o)).
Proof.
  intros ptab c o H. apply src_CacheCoherent_iff. rewrite src_cstep_eq.
  apply cstep_coherent. apply src_CacheCoherent_iff. exact H.
Qed.
Lemma src_c11_coherent_request : forall ptab c k,
  src_CacheCoherent ptab c -> src_CacheCoherent ptab (fst (src_cenforce ptab c k)).
Proof.
  intros ptab c k H. apply src_CacheCoherent_iff. rewrite src_cenforce_eq.
  apply cenforce_coherent. apply src_CacheCoherent_iff. exact H.
Qed.
Lemma src_c11_coherent_reachable : forall ptab h s,
  src_CacheCoherent ptab (src_crun_state ptab {| c_inner := s; c_cache := [] |} h).
Proof. intros ptab h s. apply src_CacheCoherent_iff. rewrite src_crun_state_eq. apply coherent_reachable. Qed.

(* ---- MAIN: for every history of calls and requests (plain and with context) the cached enforcer returns exactly
   the outputs of the uncached twin ---- *)
Lemma src_c11_same_decisions : forall ptab h s,
  src_crun ptab {| c_inner := s; c_cache := [] |} h = src_prun ptab s h.
Proof. intros ptab h s. rewrite src_crun_eq, src_prun_eq. apply same_decisions. Qed.

(* ... and the two enforcers end in the same state *)
Lemma src_c11_same_inner_state : forall ptab h s,
  c_inner (src_crun_state ptab {| c_inner := s; c_cache := [] |} h) = src_prun_state s h.
Proof. intros ptab h s. rewrite src_crun_state_eq, src_prun_state_eq. apply same_inner_state. Qed.

(* ... also when before every item the cache forgets an arbitrary set of keys *)
Lemma src_c11_same_decisions_evict : forall ptab h s,
  src_crun_evict ptab {| c_inner := s; c_cache := [] |} h = src_prun ptab s (map snd h).
Proof. intros ptab h s. rewrite src_crun_evict_eq, src_prun_eq. apply same_decisions_evict. Qed.

(* the executable trace predicate holds of the translated source's own observations *)
Lemma src_c11_pred_holds : forall ptab h s,
  c11_pred (src_crun ptab {| c_inner := s; c_cache := [] |} h) (src_prun ptab s h) = true.
Proof. intros ptab h s. rewrite src_crun_eq, src_prun_eq. apply c11_pred_model. Qed.
