(* The policy TEXT format over the TRANSLATED SOURCE (shared by Proofs/C09SrcP.v and Proofs/C16SrcP.v).
   Translated: util::csv_field (gen_csv_field, Gen/StrFnGen.v, part 2), util::parse_csv_line
   (gen_parse_csv_line, Gen/RegexGen.v, part 14: through the regex semantics of Gen/Regex.v), the line handlers
   load_policy_line of file_adapter.rs / string_adapter.rs and StringAdapter::load_policy (Gen/AdaptersGen.v, part 9).
   NOT translated: the save_policy of the two text adapters (string formatting + file I/O around csv_field).  As in
   round 1 for `ask`, the renderers are restated "by the same text" over the translated csv_field
   (src_render_line_file ..), each proved equal to the model's. *)
From CV Require Import Model.Base Model.Enforce Model.Engine Model.Csv Model.SpecC16.
From CV Require Import Gen.RustStr Gen.StrFnGen PinChecks.PcStrFnGen.
From CV Require Import Gen.RustVec Gen.RustIter Gen.Regex Gen.RegexRt Gen.RegexGen PinChecks.PcRegexGen.
From CV Require Import Gen.AdaptersPrims Gen.AdaptersGen Proofs.AdaptersP PinChecks.PcAdaptersGen.

(* file_adapter.rs / string_adapter.rs save_policy, one line per rule, over the translated csv_field *)
Definition src_render_line_file (ptype : text) (r : list text) : text :=
  ptype ++ T ", " ++ join [comma] (map gen_csv_field r).
Definition src_render_line_string (ptype : text) (r : list text) : text :=
  ptype ++ T ", " ++ join (T ", ") (map gen_csv_field r).
Definition src_save_text_file (md : model) : text :=
  flat_map (fun l => src_render_line_file (hd [] l) (tl l) ++ [nl]) (text_lines md).
Definition src_save_text_string (md : model) : text :=
  flat_map (fun l => src_render_line_string (hd [] l) (tl l) ++ [nl]) (text_lines md).

Lemma map_gen_csv_field : forall r, map gen_csv_field r = map csv_field r.
Proof. intros r. apply map_ext. intros v. apply gen_csv_field_ok. Qed.

Lemma src_render_line_file_eq : forall pt r, src_render_line_file pt r = render_line_file pt r.
Proof. intros pt r. unfold src_render_line_file, render_line_file. rewrite map_gen_csv_field. reflexivity. Qed.
Lemma src_render_line_string_eq : forall pt r, src_render_line_string pt r = render_line_string pt r.
Proof. intros pt r. unfold src_render_line_string, render_line_string. rewrite map_gen_csv_field. reflexivity. Qed.

Lemma flat_map_ext' : forall {A B} (f g : A -> list B) l, (forall x, f x = g x) -> flat_map f l = flat_map g l.
Proof. intros A B f g l H. induction l as [|x l IH]; [reflexivity|]. cbn [flat_map]. rewrite H, IH. reflexivity. Qed.

Lemma src_save_text_file_eq : forall md, src_save_text_file md = save_text_file md.
Proof.
  intros md. unfold src_save_text_file, save_text_file. apply flat_map_ext'. intros l.
  rewrite src_render_line_file_eq. reflexivity.
Qed.
Lemma src_save_text_string_eq : forall md, src_save_text_string md = save_text_string md.
Proof.
  intros md. unfold src_save_text_string, save_text_string. apply flat_map_ext'. intros l.
  rewrite src_render_line_string_eq. reflexivity.
Qed.

(* the translated parser on a text the model's parser accepts / rejects: never a panic *)
Lemma gen_parse_csv_line_some : forall l cols, parse_csv_line l = Some cols -> gen_parse_csv_line l = Some (Some cols).
Proof. intros l cols H. rewrite gen_parse_csv_line_ok, H. reflexivity. Qed.

(* FileAdapter::load_policy: `for line in lines { load_policy_line(line, m) }` - the loop (file I/O left out)
   around the translated handler, over the lines of the file's text *)
Definition src_file_load_lines (lines : list text) (md : model) : model :=
  fold_left (fun m line => match gen_file_load_policy_line m line with Some (m', _) => m' | None => m end) lines md.
Definition src_file_load (content : text) (md : model) : model :=
  src_file_load_lines (split_lines content []) md.

Lemma src_file_load_eq : forall content md,
  src_file_load content md = fold_left load_line (parsed_lines content) md.
Proof.
  intros content md. unfold src_file_load, src_file_load_lines, parsed_lines.
  rewrite <- fold_raw_step. generalize (split_lines content []) md.
  intros lines. induction lines as [|l lines IH]; intros m; [reflexivity|].
  cbn [fold_left]. rewrite gen_file_load_policy_line_ok. apply IH.
Qed.
