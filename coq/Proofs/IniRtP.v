(* Facts about the operations of Gen/IniRt.v (part 12 of rs2coq: the model-text
   reader) in the vocabulary of the model Model/Ini.v / Model/Csv.v.  Nothing
   here mentions the generated file Gen/IniGen.v; PinChecks/PcIniGen.v uses
   these facts to tie the translated functions to the model.

   ASCII.  Rust's trim / trim_end / char::is_whitespace are Unicode aware
   (Gen/IniRt.v restates them on the UTF-8 encoding) whereas the model works on
   bytes with the ASCII white space 9-13, 32.  The two agree on ASCII text
   (`ascii_text`: every byte below 128) - a text that contains U+00A0 at the
   end of a value is read differently (see `trim_unicode_differs`). *)
From CV Require Import Model.Base Model.PathMatch Model.Expr Model.Csv Model.Ini Model.SpecC16.
From CV Require Import Gen.RustStr Gen.RustVec Gen.RustIter Gen.Petgraph Gen.IniRt.
From CV Require Import Proofs.BaseP Proofs.CsvP Proofs.IniP Proofs.ReplaceP Proofs.ToText2P Proofs.RustVecP PinChecks.PcStrFnGen.
From Coq Require Import Lia ZArith NArith Nnat.

(* ------------------------------------------------------------------ *)
(* ASCII text                                                           *)
(* ------------------------------------------------------------------ *)
Definition ascii_byte (c : ascii) : bool := Nat.ltb (nat_of_ascii c) 128.
Definition ascii_textb (s : text) : bool := forallb ascii_byte s.
Definition ascii_text (s : text) : Prop := ascii_textb s = true.

Lemma ascii_text_nil : ascii_text []. Proof. reflexivity. Qed.
Lemma ascii_text_cons : forall c s, ascii_text (c :: s) <-> ascii_byte c = true /\ ascii_text s.
Proof. intros c s. unfold ascii_text, ascii_textb. cbn [forallb]. apply andb_true_iff. Qed.
Lemma ascii_text_app : forall a b, ascii_text (a ++ b) <-> ascii_text a /\ ascii_text b.
Proof. intros a b. unfold ascii_text, ascii_textb. rewrite forallb_app. apply andb_true_iff. Qed.
Lemma ascii_text_app_i : forall a b, ascii_text a -> ascii_text b -> ascii_text (a ++ b).
Proof. intros a b Ha Hb. apply ascii_text_app. split; assumption. Qed.
Lemma ascii_text_Forall : forall s, ascii_text s <-> Forall (fun c => ascii_byte c = true) s.
Proof. intros s. unfold ascii_text, ascii_textb. rewrite forallb_forall, Forall_forall. reflexivity. Qed.
Lemma ascii_text_incl : forall a b, (forall c, In c a -> In c b) -> ascii_text b -> ascii_text a.
Proof.
  intros a b H Hb. rewrite ascii_text_Forall, Forall_forall in *. intros c Hc. apply Hb, H, Hc.
Qed.
Lemma ascii_text_rev : forall s, ascii_text s -> ascii_text (rev s).
Proof. intros s. apply ascii_text_incl. intros c Hc. apply in_rev, Hc. Qed.
Lemma ascii_text_firstn : forall n s, ascii_text s -> ascii_text (firstn n s).
Proof. intros n s H. rewrite <- (firstn_skipn n s) in H. apply ascii_text_app in H. apply H. Qed.
Lemma ascii_text_skipn : forall n s, ascii_text s -> ascii_text (skipn n s).
Proof. intros n s H. rewrite <- (firstn_skipn n s) in H. apply ascii_text_app in H. apply H. Qed.
Lemma ascii_text_tl : forall s, ascii_text s -> ascii_text (tl s).
Proof. intros [|c s] H; [exact H|]. apply ascii_text_cons in H. apply H. Qed.
Lemma ascii_text_trim_start : forall s, ascii_text s -> ascii_text (trim_start s).
Proof.
  induction s as [|c r IH]; intros H; [exact H|]. cbn [trim_start].
  destruct (is_ws c); [apply IH; apply ascii_text_cons in H; apply H|exact H].
Qed.
Lemma ascii_text_trim_end : forall s, ascii_text s -> ascii_text (trim_end s).
Proof. intros s H. unfold trim_end. apply ascii_text_rev, ascii_text_trim_start, ascii_text_rev, H. Qed.
Lemma ascii_text_trim : forall s, ascii_text s -> ascii_text (trim s).
Proof. intros s H. unfold trim. apply ascii_text_trim_end, ascii_text_trim_start, H. Qed.
Lemma ascii_text_drop_last : forall s, ascii_text s -> ascii_text (drop_last s).
Proof. intros s H. unfold drop_last. apply ascii_text_rev, ascii_text_tl, ascii_text_rev, H. Qed.
Lemma ascii_text_section_name : forall s, ascii_text s -> ascii_text (section_name s).
Proof. intros s H. unfold section_name. apply ascii_text_drop_last, ascii_text_tl, H. Qed.
Lemma ascii_text_T_ex : ascii_text (T "m = r.sub == p.sub && keyMatch(r.obj, p.obj)").
Proof. reflexivity. Qed.
#[export] Hint Resolve ascii_text_nil ascii_text_app_i ascii_text_rev ascii_text_firstn ascii_text_skipn ascii_text_tl
  ascii_text_trim_start ascii_text_trim_end ascii_text_trim ascii_text_drop_last ascii_text_section_name : ascii.

Lemma ascii_not_cont : forall c, ascii_byte c = true -> rs_is_cont c = false.
Proof.
  intros c H. unfold ascii_byte in H. unfold rs_is_cont. apply Nat.ltb_lt in H.
  destruct (Nat.leb 128 (nat_of_ascii c)) eqn:E; [apply Nat.leb_le in E; lia|reflexivity].
Qed.

(* ------------------------------------------------------------------ *)
(* chars, trims                                                         *)
(* ------------------------------------------------------------------ *)
Definition single (c : ascii) : text := [c].

Lemma rs_chars_ascii : forall s, ascii_text s -> rs_chars s = map single s.
Proof.
  induction s as [|c r IH]; intros H; [reflexivity|]. apply ascii_text_cons in H. destruct H as [_ Hr].
  cbn [rs_chars map]. rewrite (IH Hr). destruct r as [|d r']; [reflexivity|]. cbn [map].
  apply ascii_text_cons in Hr. rewrite (ascii_not_cont d (proj1 Hr)). reflexivity.
Qed.

Lemma concat_single : forall s, concat (map single s) = s.
Proof. induction s as [|c r IH]; [reflexivity|]. cbn [map concat single app]. rewrite IH. reflexivity. Qed.

Lemma drop_while_single : forall (p : uchar -> bool) (q : ascii -> bool), (forall c, p [c] = q c) ->
  forall s, rs_drop_while p (map single s) = map single (rs_drop_while q s).
Proof.
  intros p q H. induction s as [|c r IH]; [reflexivity|]. cbn [map rs_drop_while]. unfold single at 1.
  rewrite H. destruct (q c); [exact IH|reflexivity].
Qed.

Lemma trim_start_drop_while : forall s, trim_start s = rs_drop_while is_ws s.
Proof. induction s as [|c r IH]; [reflexivity|]. cbn [trim_start rs_drop_while]. rewrite IH. reflexivity. Qed.

Lemma rs_char_is_whitespace_single : forall c, rs_char_is_whitespace [c] = is_ws c.
Proof. reflexivity. Qed.

Lemma rs_trim_start_matches_ascii : forall p q, (forall c, p [c] = q c) -> forall s, ascii_text s ->
  rs_str_trim_start_matches p s = rs_drop_while q s.
Proof.
  intros p q H s Hs. unfold rs_str_trim_start_matches. rewrite (rs_chars_ascii s Hs), (drop_while_single p q H).
  apply concat_single.
Qed.

Lemma rs_trim_end_matches_ascii : forall p q, (forall c, p [c] = q c) -> forall s, ascii_text s ->
  rs_str_trim_end_matches p s = rev (rs_drop_while q (rev s)).
Proof.
  intros p q H s Hs. unfold rs_str_trim_end_matches. rewrite (rs_chars_ascii s Hs), <- map_rev.
  rewrite (drop_while_single p q H), <- map_rev. apply concat_single.
Qed.

Lemma rs_str_trim_end_ascii : forall s, ascii_text s -> rs_str_trim_end s = trim_end s.
Proof.
  intros s Hs. unfold rs_str_trim_end. rewrite (rs_trim_end_matches_ascii _ is_ws rs_char_is_whitespace_single s Hs).
  unfold trim_end. rewrite trim_start_drop_while. reflexivity.
Qed.

Lemma rs_str_trim_ascii : forall s, ascii_text s -> rs_str_trim s = trim s.
Proof.
  intros s Hs. unfold rs_str_trim.
  rewrite (rs_trim_start_matches_ascii _ is_ws rs_char_is_whitespace_single s Hs), <- trim_start_drop_while.
  rewrite (rs_trim_end_matches_ascii _ is_ws rs_char_is_whitespace_single) by (apply ascii_text_trim_start, Hs).
  unfold trim, trim_end. rewrite !trim_start_drop_while. reflexivity.
Qed.

Lemma trim_start_wsb_drop_while : forall s,
  trim_start_wsb s = rs_drop_while (fun c => is_ws c || Ascii.eqb c bslash) s.
Proof. induction s as [|c r IH]; [reflexivity|]. cbn [trim_start_wsb rs_drop_while]. rewrite IH. reflexivity. Qed.

(* trim_end_matches(|c| c.is_whitespace() || c.to_string() == "\\"), whatever the closure looks like *)
Lemma rs_trim_end_matches_wsb : forall p, (forall c, p [c] = is_ws c || Ascii.eqb c bslash) ->
  forall s, ascii_text s -> rs_str_trim_end_matches p s = trim_end_wsb s.
Proof.
  intros p H s Hs. rewrite (rs_trim_end_matches_ascii p _ H s Hs). unfold trim_end_wsb.
  rewrite trim_start_wsb_drop_while. reflexivity.
Qed.

Lemma ascii_text_trim_end_wsb : forall s, ascii_text s -> ascii_text (trim_end_wsb s).
Proof.
  intros s H. unfold trim_end_wsb. apply ascii_text_rev. rewrite trim_start_wsb_drop_while.
  generalize (ascii_text_rev s H). generalize (rev s). intros t. induction t as [|c r IH]; intros Ht; [exact Ht|].
  cbn [rs_drop_while]. destruct (is_ws c || Ascii.eqb c bslash); [apply IH; apply ascii_text_cons in Ht; apply Ht|exact Ht].
Qed.
#[export] Hint Resolve ascii_text_trim_end_wsb : ascii.

(* a value that ends in U+00A0 (NO-BREAK SPACE, C2 A0): Rust trims it, the byte-level model does not *)
Lemma trim_unicode_differs :
  let s := T "a" ++ [byte 194; byte 160] in rs_str_trim s = T "a" /\ trim s = s.
Proof. vm_compute. split; reflexivity. Qed.

(* ------------------------------------------------------------------ *)
(* prefixes, suffixes, slices                                           *)
(* ------------------------------------------------------------------ *)
Definition is_nil (s : text) : bool := match s with [] => true | _ :: _ => false end.

Lemma rs_is_empty_is_nil : forall s, rs_is_empty s = is_nil s.
Proof. intros [|c s]; reflexivity. Qed.
Lemma rs_starts_with_char_c : forall s c, rs_starts_with_char s c = starts_with_c c s.
Proof. intros [|d s] c; [reflexivity|]. cbn. apply Ascii.eqb_sym. Qed.
Lemma rs_ends_with_char_c : forall s c, rs_ends_with_char s c = ends_with_c c s.
Proof. intros s c. unfold rs_ends_with_char, ends_with_c. destruct (rev s); [reflexivity|apply Ascii.eqb_sym]. Qed.
Lemma rs_starts_with_1 : forall s c, rs_starts_with s [c] = starts_with_c c s.
Proof.
  intros [|d s] c; [reflexivity|]. unfold rs_starts_with. cbn [length firstn teqb starts_with_c].
  rewrite andb_true_r. apply Ascii.eqb_sym.
Qed.
Lemma rs_ends_with_1 : forall s c, rs_ends_with s [c] = ends_with_c c s.
Proof. intros s c. unfold rs_ends_with. cbn [rev app]. rewrite rs_starts_with_1. reflexivity. Qed.

Lemma is_comment_or_blank_atoms : forall s,
  is_comment_or_blank s = is_nil s || starts_with_c hash s || starts_with_c semicolon s.
Proof.
  intros [|c s]; [reflexivity|]. unfold is_comment_or_blank, is_nil, starts_with_c. cbn [orb].
  rewrite (Ascii.eqb_sym hash c), (Ascii.eqb_sym semicolon c). reflexivity.
Qed.

Lemma drop_last_firstn : forall (s : text), drop_last s = firstn (length s - 1) s.
Proof.
  intros s. destruct (rev s) as [|c r] eqn:E.
  - apply (f_equal (@rev ascii)) in E. rewrite rev_involutive in E. subst s. reflexivity.
  - apply (f_equal (@rev ascii)) in E. rewrite rev_involutive in E. subst s. cbn [rev].
    unfold drop_last. rewrite rev_app_distr. cbn [rev app tl]. rewrite rev_involutive, app_length. cbn [length].
    replace (length (rev r) + 1 - 1) with (length (rev r)) by lia.
    rewrite firstn_app, Nat.sub_diag, firstn_all. cbn [firstn]. rewrite app_nil_r. reflexivity.
Qed.

Lemma ends_with_c_length : forall c s, ends_with_c c s = true -> 1 <= length s.
Proof. intros c [|d s] H; [discriminate|cbn [length]; lia]. Qed.

Lemma boundary_ascii : forall s i, ascii_text s -> i <= length s -> rs_is_char_boundary s i = true.
Proof.
  intros s i Hs Hi. unfold rs_is_char_boundary.
  destruct (Nat.eqb i (length s)) eqn:E; [rewrite orb_true_r; reflexivity|]. apply Nat.eqb_neq in E.
  destruct (nth_error s i) as [c|] eqn:N.
  - apply nth_error_In in N. rewrite ascii_text_Forall, Forall_forall in Hs.
    rewrite (ascii_not_cont c (Hs c N)). rewrite orb_true_r. reflexivity.
  - apply nth_error_None in N. lia.
Qed.

Lemma rs_str_slice_ascii : forall s a b, ascii_text s -> a <= b -> b <= length s ->
  rs_str_slice s a b = Some (firstn (b - a) (skipn a s)).
Proof.
  intros s a b Hs Hab Hb. unfold rs_str_slice.
  rewrite (proj2 (Nat.leb_le a b) Hab), (proj2 (Nat.leb_le b (length s)) Hb).
  rewrite !boundary_ascii by (assumption || lia). reflexivity.
Qed.

(* &line[..line.len() - 1] after line.ends_with("\\") *)
Lemma slice_drop_last : forall s c, ascii_text s -> ends_with_c c s = true ->
  rs_usize_sub (rs_str_len s) 1 = Some (length s - 1) /\
  rs_str_slice s 0 (length s - 1) = Some (drop_last s).
Proof.
  intros s c Hs He. pose proof (ends_with_c_length c s He) as L. split.
  - unfold rs_usize_sub, rs_str_len. rewrite (proj2 (Nat.leb_le 1 (length s)) L). reflexivity.
  - rewrite rs_str_slice_ascii by (assumption || lia). cbn [skipn]. rewrite Nat.sub_0_r, drop_last_firstn. reflexivity.
Qed.

(* &line[1..line.len() - 1] after line.starts_with('[') && line.ends_with(']') *)
Lemma is_section_length : forall s, is_section s = true -> 2 <= length s.
Proof.
  intros s H. unfold is_section in H. apply andb_true_iff in H. destruct H as [H1 H2].
  destruct s as [|c [|d r]]; [discriminate| |cbn [length]; lia].
  unfold starts_with_c in H1. unfold ends_with_c in H2. cbn [rev app] in H2.
  apply CsvP.aeqb_true in H1. apply CsvP.aeqb_true in H2. subst c. discriminate.
Qed.
Lemma slice_section_name : forall s, ascii_text s -> is_section s = true ->
  rs_usize_sub (rs_str_len s) 1 = Some (length s - 1) /\
  rs_str_slice s 1 (length s - 1) = Some (section_name s).
Proof.
  intros s Hs He. pose proof (is_section_length s He) as L. split.
  - unfold rs_usize_sub, rs_str_len. rewrite (proj2 (Nat.leb_le 1 (length s)) ltac:(lia)). reflexivity.
  - rewrite rs_str_slice_ascii by (assumption || lia). unfold section_name. rewrite drop_last_firstn.
    destruct s as [|c r]; [cbn [length] in L; lia|]. cbn [skipn tl length]. f_equal. f_equal. lia.
Qed.

(* ------------------------------------------------------------------ *)
(* splitn(2, '='), the option / value pair                              *)
(* ------------------------------------------------------------------ *)
Lemma rs_splitn2_span : forall c s,
  rs_splitn_char s 2 c =
  match snd (span_not c s) with _ :: b => [fst (span_not c s); b] | [] => [s] end.
Proof.
  intros c s. cbn [rs_splitn_char].
  induction s as [|d r IH]; [reflexivity|]. cbn [rs_find_char span_not].
  destruct (Ascii.eqb d c) eqn:E; [reflexivity|].
  destruct (span_not c r) as [a b] eqn:S. cbn [fst snd] in IH |- *.
  destruct (rs_find_char c r) as [j|] eqn:F.
  - destruct b as [|e b']; [discriminate IH|]. injection IH as H1 H2.
    cbn [firstn skipn]. rewrite H1, H2. reflexivity.
  - destruct b as [|e b']; [reflexivity|discriminate IH].
Qed.

Lemma ascii_text_span_not : forall c s, ascii_text s ->
  ascii_text (fst (span_not c s)) /\ ascii_text (snd (span_not c s)).
Proof. intros c s H. rewrite <- (span_not_eq c s) in H. apply ascii_text_app in H. exact H. Qed.

Lemma option_val_spec : forall (f : text -> text) s, (forall x, f x = rs_str_trim x) -> ascii_text s ->
  match split_option s with
  | Some (k, v) => rs_iter_map f (rs_splitn_char s 2 equals) = [k; v]
  | None => rs_vec_len (rs_iter_map f (rs_splitn_char s 2 equals)) = 1
  end.
Proof.
  intros f s Hf Hs. unfold split_option, rs_iter_map, rs_vec_len. rewrite rs_splitn2_span.
  destruct (ascii_text_span_not equals s Hs) as [Ha Hb].
  destruct (span_not equals s) as [a b]. cbn [fst snd] in *.
  destruct b as [|e v]; [reflexivity|]. cbn [map]. rewrite !Hf.
  apply ascii_text_cons in Hb. rewrite !rs_str_trim_ascii by (assumption || apply Hb). reflexivity.
Qed.

Lemma ascii_text_split_option : forall s k v, ascii_text s -> split_option s = Some (k, v) ->
  ascii_text k /\ ascii_text v.
Proof.
  intros s k v Hs H. unfold split_option in H. destruct (ascii_text_span_not equals s Hs) as [Ha Hb].
  destruct (span_not equals s) as [a b]. cbn [fst snd] in *. destruct b as [|e w]; [discriminate|].
  injection H as <- <-. apply ascii_text_cons in Hb. split; apply ascii_text_trim; [exact Ha|apply Hb].
Qed.

(* ------------------------------------------------------------------ *)
(* read_line and the model's lines                                      *)
(* ------------------------------------------------------------------ *)
Lemma take_line_app : forall s, fst (rs_take_line s) ++ snd (rs_take_line s) = s.
Proof.
  induction s as [|c r IH]; [reflexivity|]. cbn [rs_take_line].
  destruct (Ascii.eqb c (byte 10)); [reflexivity|].
  destruct (rs_take_line r) as [l r']. cbn [fst snd app] in *. rewrite IH. reflexivity.
Qed.

Lemma take_line_shape : forall s, s <> [] ->
  (exists l rest, rs_take_line s = (l ++ [nl], rest) /\ ~ In nl l /\ s = l ++ nl :: rest) \/
  (rs_take_line s = (s, []) /\ ~ In nl s).
Proof.
  induction s as [|c r IH]; intros Hne; [contradiction|]. cbn [rs_take_line]. change (byte 10) with nl.
  destruct (Ascii.eqb c nl) eqn:E.
  - apply CsvP.aeqb_true in E. subst c. left. exists [], r. repeat split. intros [].
  - apply CsvP.aeqb_false in E. destruct r as [|d r'].
    + right. split; [reflexivity|]. intros [H|[]]. apply E. exact H.
    + destruct (IH ltac:(discriminate)) as [(l & rest & Ht & Hl & Hs)|(Ht & Hl)]; rewrite Ht.
      * left. exists (c :: l), rest. repeat split.
        -- intros [H|H]; [apply E; exact H|exact (Hl H)].
        -- cbn [app]. rewrite <- Hs. reflexivity.
      * right. split; [reflexivity|]. intros [H|H]; [apply E; exact H|exact (Hl H)].
Qed.

Lemma ini_lines_nil : ini_lines [] = [].
Proof. reflexivity. Qed.

Lemma split_lines_ne : forall s cur, split_lines s cur <> [].
Proof.
  induction s as [|c r IH]; intros cur; cbn [split_lines]; [discriminate|].
  destruct (Ascii.eqb c nl); [discriminate|apply IH].
Qed.

Lemma ini_lines_line : forall l rest, ~ In nl l -> ini_lines (l ++ nl :: rest) = l :: ini_lines rest.
Proof.
  intros l rest Hl. unfold ini_lines. rewrite split_lines_line by exact Hl. cbn [rev app].
  pose proof (split_lines_ne rest []) as Hne.
  destruct (rev (split_lines rest [])) as [|x more] eqn:E.
  - apply (f_equal (@rev text)) in E. rewrite rev_involutive in E. contradiction.
  - cbn [app]. destruct x as [|y x']; rewrite rev_app_distr; reflexivity.
Qed.

Lemma ini_lines_last : forall l, ~ In nl l -> l <> [] -> ini_lines l = [l].
Proof.
  intros l Hl Hne. unfold ini_lines. rewrite split_lines_last by exact Hl. cbn [rev app].
  destruct l; [contradiction|reflexivity].
Qed.

Lemma nl_ws : all_ws [nl] = true. Proof. reflexivity. Qed.

(* what one read_line gives, in terms of the model's list of lines *)
Lemma take_line_ini : forall rd, rd <> [] ->
  exists l, ini_lines rd = l :: ini_lines (snd (rs_take_line rd)) /\
            trim (fst (rs_take_line rd)) = trim l /\
            fst (rs_take_line rd) <> [] /\
            length (snd (rs_take_line rd)) < length rd.
Proof.
  intros rd Hne. destruct (take_line_shape rd Hne) as [(l & rest & Ht & Hl & Hs)|(Ht & Hl)]; rewrite Ht; cbn [fst snd].
  - exists l. rewrite Hs at 1. rewrite (ini_lines_line l rest Hl). repeat split.
    + apply trim_ws_r, nl_ws.
    + destruct l; discriminate.
    + rewrite Hs, app_length. cbn [length]. lia.
  - exists rd. rewrite (ini_lines_last rd Hl Hne). repeat split; [exact Hne|].
    destruct rd; [contradiction|cbn [length]; lia].
Qed.

Lemma ascii_text_take_line : forall s, ascii_text s ->
  ascii_text (fst (rs_take_line s)) /\ ascii_text (snd (rs_take_line s)).
Proof. intros s H. rewrite <- (take_line_app s) in H. apply ascii_text_app in H. exact H. Qed.

Lemma ini_lines_length : forall rd, length (ini_lines rd) <= length rd.
Proof.
  intros rd. remember (length rd) as n eqn:En. revert rd En.
  induction n as [n IH] using lt_wf_ind. intros rd En. destruct rd as [|c r]; [cbn; lia|].
  destruct (take_line_ini (c :: r) ltac:(discriminate)) as (l & Hi & _ & _ & Hlen).
  rewrite Hi. cbn [length]. specialize (IH (length (snd (rs_take_line (c :: r)))) ltac:(lia) _ eq_refl). lia.
Qed.

(* rs_read_line in terms of rs_take_line *)
Lemma rs_read_line_eq : forall rd buf,
  rs_read_line rd buf =
  (snd (rs_take_line rd), buf ++ fst (rs_take_line rd), ROk (length (fst (rs_take_line rd)))).
Proof. intros rd buf. unfold rs_read_line. destruct (rs_take_line rd); reflexivity. Qed.

Lemma take_line_nil : rs_take_line [] = ([], []). Proof. reflexivity. Qed.

Lemma take_line_fst_length : forall rd, Nat.eqb (length (fst (rs_take_line rd))) 0 = is_nil rd.
Proof.
  intros [|c r]; [reflexivity|]. cbn [rs_take_line is_nil]. destruct (Ascii.eqb c (byte 10)); [reflexivity|].
  destruct (rs_take_line r); reflexivity.
Qed.

(* ------------------------------------------------------------------ *)
(* the continuation loop on the reader                                  *)
(* ------------------------------------------------------------------ *)
(* state of the `while`: (reader, line, next_section), in the order of declaration *)
Definition cstate : Type := (text * text * text)%type.

(* one iteration of `while line.ends_with("\\") { .. }` (the condition holds) *)
Definition cont_step {R} (rd line ns : text) : flow cstate R :=
  let line1 := trim_end (drop_last line) in
  if is_nil rd then LBreak (snd (rs_take_line rd), line1, ns)
  else
    let rd' := snd (rs_take_line rd) in
    let inner := trim (fst (rs_take_line rd)) in
    if is_comment_or_blank inner then LNext (rd', line1, ns)
    else if is_section inner then LNext (rd', line1, section_name inner)
    else LNext (rd', line1 ++ inner, ns).

Fixpoint cont_rd (fuel : nat) (line ns rd : text) : cstate :=
  match fuel with
  | 0 => (rd, line, ns)
  | S f =>
    if ends_with_c bslash line then
      let line1 := trim_end (drop_last line) in
      if is_nil rd then (snd (rs_take_line rd), line1, ns)
      else
        let rd' := snd (rs_take_line rd) in
        let inner := trim (fst (rs_take_line rd)) in
        if is_comment_or_blank inner then cont_rd f line1 ns rd'
        else if is_section inner then cont_rd f line1 (section_name inner) rd'
        else cont_rd f (line1 ++ inner) ns rd'
    else (rd, line, ns)
  end.

Lemma is_nil_false : forall s : text, is_nil s = false -> s <> [].
Proof. intros [|c s] H; [discriminate|discriminate]. Qed.
Lemma is_nil_true : forall s : text, is_nil s = true -> s = [].
Proof. intros [|c s] H; [reflexivity|discriminate]. Qed.

Lemma rs_while_cont_rd : forall {R} (cond : cstate -> bool) (body : cstate -> flow cstate R),
  (forall rd line ns, cond (rd, line, ns) = ends_with_c bslash line) ->
  (forall rd line ns, ascii_text rd -> ascii_text line -> ends_with_c bslash line = true ->
     body (rd, line, ns) = cont_step rd line ns) ->
  forall fuel rd line ns, ascii_text rd -> ascii_text line -> length rd < fuel ->
    rs_while fuel cond body (rd, line, ns) = Done (cont_rd fuel line ns rd).
Proof.
  intros R cond body Hc Hb. induction fuel as [|f IH]; intros rd line ns Hrd Hline Hf; [lia|].
  cbn [rs_while cont_rd]. rewrite Hc. destruct (ends_with_c bslash line) eqn:E; [|reflexivity].
  rewrite (Hb rd line ns Hrd Hline E). unfold cont_step.
  destruct (is_nil rd) eqn:En; [reflexivity|].
  destruct (take_line_ini rd (is_nil_false rd En)) as (l & _ & _ & _ & Hlen).
  destruct (ascii_text_take_line rd Hrd) as [Ha1 Ha2].
  assert (Hl1 : ascii_text (trim_end (drop_last line))) by auto with ascii.
  assert (Hin : ascii_text (trim (fst (rs_take_line rd)))) by auto with ascii.
  destruct (is_comment_or_blank _); [apply IH; [assumption|assumption|lia]|].
  destruct (is_section _); apply IH; auto with ascii; lia.
Qed.

Lemma cont_rd_ascii : forall fuel line ns rd, ascii_text line -> ascii_text ns -> ascii_text rd ->
  let '(rd', l', n') := cont_rd fuel line ns rd in ascii_text rd' /\ ascii_text l' /\ ascii_text n'.
Proof.
  induction fuel as [|f IH]; intros line ns rd Hl Hn Hr; cbn [cont_rd]; [auto|].
  destruct (ends_with_c bslash line); [|auto].
  destruct (ascii_text_take_line rd Hr) as [Ha1 Ha2].
  destruct (is_nil rd); [auto with ascii|].
  destruct (is_comment_or_blank _); [apply IH; auto with ascii|].
  destruct (is_section _); apply IH; auto with ascii.
Qed.

Lemma take_line_snd_length : forall rd, length (snd (rs_take_line rd)) <= length rd.
Proof.
  intros rd. rewrite <- (take_line_app rd) at 2. rewrite app_length. lia.
Qed.

Lemma cont_rd_length : forall fuel line ns rd, length (fst (fst (cont_rd fuel line ns rd))) <= length rd.
Proof.
  induction fuel as [|f IH]; intros line ns rd; cbn [cont_rd]; [cbn [fst]; lia|].
  destruct (ends_with_c bslash line); [|cbn [fst]; lia].
  pose proof (take_line_snd_length rd) as Hl.
  destruct (is_nil rd); [cbn [fst]; lia|].
  destruct (is_comment_or_blank _); [etransitivity; [apply IH|exact Hl]|].
  destruct (is_section _); (etransitivity; [apply IH|exact Hl]).
Qed.

(* the model's continuation does not depend on spare fuel and only consumes lines *)
Lemma continuation_fuel : forall f line ns rest, length rest < f ->
  continuation f line ns rest = continuation (S (length rest)) line ns rest.
Proof.
  induction f as [|f IH]; intros line ns rest Hf; [lia|].
  cbn [continuation length]. destruct (ends_with_c bslash line); [|reflexivity].
  destruct rest as [|raw rest']; [reflexivity|]. cbn [length] in Hf.
  cbn [continuation length]. destruct (is_comment_or_blank (trim raw)); [apply IH; lia|].
  destruct (is_section (trim raw)); apply IH; lia.
Qed.

Lemma continuation_rest_length : forall f line ns rest,
  length (snd (continuation f line ns rest)) <= length rest.
Proof.
  induction f as [|f IH]; intros line ns rest; cbn [continuation]; [cbn [snd]; lia|].
  destruct (ends_with_c bslash line); [|cbn [snd]; lia].
  destruct rest as [|raw rest']; [cbn [snd length]; lia|]. cbn [length].
  destruct (is_comment_or_blank (trim raw)); [specialize (IH (trim_end (drop_last line)) ns rest'); lia|].
  destruct (is_section (trim raw)).
  - specialize (IH (trim_end (drop_last line)) (section_name (trim raw)) rest'). lia.
  - specialize (IH (trim_end (drop_last line) ++ trim raw) ns rest'). lia.
Qed.

Lemma cont_rd_model : forall fuel line ns rd, length rd < fuel ->
  continuation (S (length (ini_lines rd))) line ns (ini_lines rd) =
  (snd (fst (cont_rd fuel line ns rd)), snd (cont_rd fuel line ns rd), ini_lines (fst (fst (cont_rd fuel line ns rd)))) /\
  length (fst (fst (cont_rd fuel line ns rd))) <= length rd.
Proof.
  induction fuel as [|f IH]; intros line ns rd Hf; [lia|].
  cbn [cont_rd]. destruct (ends_with_c bslash line) eqn:E.
  - destruct (is_nil rd) eqn:En.
    + apply is_nil_true in En. subst rd. cbn [rs_take_line snd fst ini_lines]. rewrite ini_lines_nil.
      cbn [continuation length]. rewrite E. split; [reflexivity|cbn; lia].
    + destruct (take_line_ini rd (is_nil_false rd En)) as (l & Hi & Ht & _ & Hlen).
      rewrite Hi. cbn [length]. cbn [continuation]. rewrite E, <- Ht.
      destruct (is_comment_or_blank _).
      { destruct (IH (trim_end (drop_last line)) ns (snd (rs_take_line rd)) ltac:(lia)) as [H1 H2]. split; [exact H1|lia]. }
      destruct (is_section _).
      { destruct (IH (trim_end (drop_last line)) (section_name (trim (fst (rs_take_line rd)))) (snd (rs_take_line rd)) ltac:(lia)) as [H1 H2].
        split; [exact H1|lia]. }
      destruct (IH (trim_end (drop_last line) ++ trim (fst (rs_take_line rd))) ns (snd (rs_take_line rd)) ltac:(lia)) as [H1 H2].
      split; [exact H1|lia].
  - cbn [fst snd]. cbn [continuation]. rewrite E. split; [reflexivity|lia].
Qed.

(* ------------------------------------------------------------------ *)
(* the main loop on the reader                                          *)
(* ------------------------------------------------------------------ *)
Section ParseRd.
  Variable St : Type.
  (* self.add_config(section, option, value) *)
  Variable add : St -> text -> text -> text -> option St.
  (* the error built from the offending line *)
  Variable errf : text -> ini_error.
  Definition prt : Type := (St * text * rs_result unit ini_error)%type.
  Definition pstate : Type := (St * text * text)%type.        (* (self, reader, section) *)

  Definition main_step (fuel0 : nat) (st : St) (rd sec : text) : flow pstate prt :=
    if is_nil rd then LReturn (st, snd (rs_take_line rd), ROk tt)
    else
      let rd1 := snd (rs_take_line rd) in
      let line := trim (fst (rs_take_line rd)) in
      if is_comment_or_blank line then LNext (st, rd1, sec)
      else if is_section line then LNext (st, rd1, section_name line)
      else
        let w := cont_rd fuel0 line [] rd1 in
        match split_option (trim_end_wsb (snd (fst w))) with
        | None => LReturn (st, fst (fst w), RErr (errf (snd (fst w))))
        | Some (k, v) =>
          match add st sec k v with
          | Some st' => LNext (st', fst (fst w), if is_nil (snd w) then sec else snd w)
          | None => LPanic
          end
        end.

  Fixpoint parse_rd (fuel0 fuel : nat) (st : St) (rd sec : text) : option prt :=
    match fuel with
    | 0 => None
    | S f =>
      match main_step fuel0 st rd sec with
      | LNext (st', rd', sec') => parse_rd fuel0 f st' rd' sec'
      | LReturn r => Some r
      | LBreak _ => None
      | LPanic => None
      end
    end.

  Lemma main_step_ascii : forall fuel0 st rd sec st' rd' sec', ascii_text rd ->
    main_step fuel0 st rd sec = LNext (st', rd', sec') -> ascii_text rd'.
  Proof.
    intros fuel0 st rd sec st' rd' sec' Hrd H. unfold main_step in H.
    destruct (ascii_text_take_line rd Hrd) as [Ha1 Ha2].
    destruct (is_nil rd); [discriminate|].
    destruct (is_comment_or_blank _); [injection H as _ <- _; exact Ha2|].
    destruct (is_section _); [injection H as _ <- _; exact Ha2|].
    pose proof (cont_rd_ascii fuel0 (trim (fst (rs_take_line rd))) [] (snd (rs_take_line rd))
                  ltac:(auto with ascii) ascii_text_nil Ha2) as Hw.
    destruct (cont_rd fuel0 _ [] _) as [[rd2 joined] ns]. cbn [fst snd] in H.
    destruct (split_option _) as [[k v]|]; [|discriminate].
    destruct (add st sec k v); [|discriminate]. injection H as _ <- _. apply Hw.
  Qed.

  Lemma main_step_length : forall fuel0 st rd sec st' rd' sec',
    main_step fuel0 st rd sec = LNext (st', rd', sec') -> length rd' <= length rd.
  Proof.
    intros fuel0 st rd sec st' rd' sec' H. unfold main_step in H.
    pose proof (take_line_snd_length rd) as Hl.
    destruct (is_nil rd); [discriminate|].
    destruct (is_comment_or_blank _); [injection H as _ <- _; exact Hl|].
    destruct (is_section _); [injection H as _ <- _; exact Hl|].
    pose proof (cont_rd_length fuel0 (trim (fst (rs_take_line rd))) [] (snd (rs_take_line rd))) as Hw.
    destruct (split_option _) as [[k v]|]; [|discriminate].
    destruct (add st sec k v); [|discriminate]. injection H as _ <- _. lia.
  Qed.

  Lemma main_step_no_break : forall fuel0 st rd sec s, main_step fuel0 st rd sec <> LBreak s.
  Proof.
    intros fuel0 st rd sec s. unfold main_step.
    destruct (is_nil rd); [discriminate|].
    destruct (is_comment_or_blank _); [discriminate|].
    destruct (is_section _); [discriminate|].
    destruct (split_option _) as [[k v]|]; [|discriminate].
    destruct (add st sec k v); discriminate.
  Qed.

  Lemma rs_loop_parse_rd : forall (fuel0 : nat) (body : pstate -> flow pstate prt),
    (forall st rd sec, ascii_text rd -> length rd < fuel0 -> body (st, rd, sec) = main_step fuel0 st rd sec) ->
    forall fuel st rd sec, ascii_text rd -> length rd < fuel0 ->
      rs_loop fuel body (st, rd, sec) =
      match parse_rd fuel0 fuel st rd sec with Some r => Returned r | None => Panicked end.
  Proof.
    intros fuel0 body Hb. induction fuel as [|f IH]; intros st rd sec Hrd Hlen; [reflexivity|].
    cbn [rs_loop parse_rd]. rewrite (Hb st rd sec Hrd Hlen).
    destruct (main_step fuel0 st rd sec) as [[[st' rd'] sec']|s|r|] eqn:E; try reflexivity.
    - apply IH; [eapply main_step_ascii; eassumption|]. apply main_step_length in E. lia.
    - exfalso. exact (main_step_no_break _ _ _ _ _ E).
  Qed.

  (* ---- against the model ---- *)
  Lemma parse_lines_cons : forall f raw rest sec c,
    parse_lines (S f) (raw :: rest) sec c =
    if is_comment_or_blank (trim raw) then parse_lines f rest sec c
    else if is_section (trim raw) then parse_lines f rest (section_name (trim raw)) c
    else match continuation (S (length rest)) (trim raw) [] rest with
         | (joined, next_sec, rest') =>
           match split_option (trim_end_wsb joined) with
           | None => None
           | Some (k, v) =>
             parse_lines f rest' (match next_sec with [] => sec | _ => next_sec end)
                         (cfg_set (match sec with [] => DEFAULT_SECTION | _ => sec end, k) v c)
           end
         end.
  Proof. reflexivity. Qed.

  Lemma parse_lines_fuel2 : forall f1 f2 lines sec c, length lines < f1 -> length lines < f2 ->
    parse_lines f1 lines sec c = parse_lines f2 lines sec c.
  Proof.
    induction f1 as [|f1 IH]; intros f2 lines sec c H1 H2; [lia|]. destruct f2 as [|f2]; [lia|].
    destruct lines as [|raw rest]; [reflexivity|]. cbn [length] in H1, H2.
    rewrite !parse_lines_cons.
    destruct (is_comment_or_blank (trim raw)); [apply IH; lia|].
    destruct (is_section (trim raw)); [apply IH; lia|].
    pose proof (continuation_rest_length (S (length rest)) (trim raw) [] rest) as Hlen.
    destruct (continuation (S (length rest)) (trim raw) [] rest) as [[joined ns] rest']. cbn [snd] in Hlen.
    destruct (split_option (trim_end_wsb joined)) as [[k v]|]; [|reflexivity].
    apply IH; lia.
  Qed.
  Lemma parse_lines_fuel : forall f lines sec c, length lines < f ->
    parse_lines f lines sec c = parse_lines (S (length lines)) lines sec c.
  Proof. intros f lines sec c H. apply parse_lines_fuel2; lia. Qed.

  Variable Rel : St -> cfg -> Prop.
  Hypothesis add_ok : forall st c sec k v, Rel st c -> ascii_text k -> ascii_text v ->
    exists st', add st sec k v = Some st' /\
                Rel st' (cfg_set (match sec with [] => DEFAULT_SECTION | _ => sec end, k) v c).

  Lemma parse_rd_model : forall fuel0 fuel st rd sec c, Rel st c -> ascii_text rd -> length rd < fuel -> length rd < fuel0 ->
    match parse_lines (S (length (ini_lines rd))) (ini_lines rd) sec c with
    | Some c' => exists st', parse_rd fuel0 fuel st rd sec = Some (st', [], ROk tt) /\ Rel st' c'
    | None => exists st' rd' j, parse_rd fuel0 fuel st rd sec = Some (st', rd', RErr (errf j))
    end.
  Proof.
    intros fuel0. induction fuel as [|f IH]; intros st rd sec c HR Hrd Hf Hf0; [lia|].
    cbn [parse_rd]. unfold main_step. destruct (is_nil rd) eqn:En.
    - apply is_nil_true in En. subst rd. rewrite ini_lines_nil. cbn [parse_lines length rs_take_line snd].
      exists st. split; [reflexivity|exact HR].
    - destruct (take_line_ini rd (is_nil_false rd En)) as (l & Hi & Ht & _ & Hlen).
      rewrite Hi. cbn [length]. rewrite parse_lines_cons. rewrite <- Ht.
      destruct (ascii_text_take_line rd Hrd) as [Ha1 Ha2].
      set (rd1 := snd (rs_take_line rd)) in *. set (line := trim (fst (rs_take_line rd))) in *.
      assert (Hline : ascii_text line) by (subst line; auto with ascii).
      destruct (is_comment_or_blank line); [apply IH; [exact HR|exact Ha2|lia|lia]|].
      destruct (is_section line); [apply IH; [exact HR|exact Ha2|lia|lia]|].
      destruct (cont_rd_model fuel0 line [] rd1 ltac:(lia)) as [Hc Hl2]. rewrite Hc.
      pose proof (cont_rd_ascii fuel0 line [] rd1 Hline ascii_text_nil Ha2) as Hw.
      pose proof (continuation_rest_length (S (length (ini_lines rd1))) line [] (ini_lines rd1)) as Hrl.
      rewrite Hc in Hrl. cbn [snd] in Hrl.
      destruct (cont_rd fuel0 line [] rd1) as [[rd2 joined] ns]. cbn [fst snd] in *.
      destruct Hw as (Hw1 & Hw2 & Hw3).
      destruct (split_option (trim_end_wsb joined)) as [[k v]|] eqn:Eso.
      + destruct (ascii_text_split_option _ k v (ascii_text_trim_end_wsb joined Hw2) Eso) as [Hk Hv].
        destruct (add_ok st c sec k v HR Hk Hv) as (st' & Ha & HR'). rewrite Ha.
        rewrite parse_lines_fuel by lia.
        replace (if is_nil ns then sec else ns) with (match ns with [] => sec | _ :: _ => ns end) by (destruct ns; reflexivity).
        apply IH; [exact HR'|exact Hw1|lia|lia].
      + exists st, rd2, joined. reflexivity.
  Qed.
End ParseRd.

(* ------------------------------------------------------------------ *)
(* HashMap<String, HashMap<String, String>> and the model's cfg         *)
(* ------------------------------------------------------------------ *)
Lemma rs_eq_true : forall a b, rs_eq a b = true <-> a = b.
Proof. intros a b. unfold rs_eq. apply teqb_eq. Qed.
Lemma rs_eq_refl : forall a, rs_eq a a = true.
Proof. intros a. apply rs_eq_true. reflexivity. Qed.
Lemma rs_eq_sym : forall a b, rs_eq a b = rs_eq b a.
Proof. intros a b. unfold rs_eq. apply teqb_sym. Qed.

Lemma hm_get_insert : forall {V} (m : hashmap V) k v k',
  hm_get (hm_insert m k v) k' = if rs_eq k' k then Some v else hm_get m k'.
Proof.
  intros V m k v k'. induction m as [|[k0 v0] r IH]; cbn [hm_insert hm_get].
  - destruct (rs_eq k' k); reflexivity.
  - destruct (rs_eq k k0) eqn:E; cbn [hm_get].
    + apply rs_eq_true in E. subst k0. destruct (rs_eq k' k); reflexivity.
    + rewrite IH. destruct (rs_eq k' k0) eqn:E0; [|reflexivity].
      apply rs_eq_true in E0. subst k0. rewrite rs_eq_sym, E. reflexivity.
Qed.

Lemma pair_eqb_true : forall a b, pair_eqb a b = true <-> a = b.
Proof.
  intros [a1 a2] [b1 b2]. unfold pair_eqb. cbn [fst snd]. rewrite andb_true_iff, !teqb_eq.
  split; [intros [-> ->]; reflexivity|intros H; injection H as -> ->; split; reflexivity].
Qed.
Lemma pair_eqb_rfl : forall a, pair_eqb a a = true.
Proof. intros a. apply pair_eqb_true. reflexivity. Qed.

Lemma cfg_get_set : forall k' k v c,
  cfg_get k' (cfg_set k v c) = if pair_eqb k' k then Some v else cfg_get k' c.
Proof.
  intros k' k v c. induction c as [|[k0 v0] r IH]; cbn [cfg_set cfg_get].
  - destruct (pair_eqb k' k); reflexivity.
  - destruct (pair_eqb k k0) eqn:E; cbn [cfg_get].
    + apply pair_eqb_true in E. subst k0. destruct (pair_eqb k' k); reflexivity.
    + rewrite IH. destruct (pair_eqb k' k0) eqn:E0; [|reflexivity].
      apply pair_eqb_true in E0. subst k0.
      destruct (pair_eqb k' k) eqn:E1; [|reflexivity].
      apply pair_eqb_true in E1. subst k'. rewrite pair_eqb_rfl in E. discriminate.
Qed.

Definition conf_lookup (d : hashmap (hashmap text)) (s k : text) : option text :=
  match hm_get d s with Some m => hm_get m k | None => None end.
Definition conf_rel (d : hashmap (hashmap text)) (c : cfg) : Prop :=
  forall s k, conf_lookup d s k = cfg_get (s, k) c.
(* what add_config does to the data *)
Definition conf_section (sec : text) : text := if is_nil sec then DEFAULT_SECTION else sec.
Definition conf_add (d : hashmap (hashmap text)) (sec opt v : text) : hashmap (hashmap text) :=
  let e := hm_entry_or d (conf_section sec) hm_new in
  hm_insert (fst e) (conf_section sec) (hm_insert (snd e) opt v).

Lemma conf_rel_nil : conf_rel hm_new [].
Proof. intros s k. reflexivity. Qed.

Lemma conf_add_rel : forall d c sec opt v, conf_rel d c ->
  conf_rel (conf_add d sec opt v) (cfg_set (match sec with [] => DEFAULT_SECTION | _ => sec end, opt) v c).
Proof.
  intros d c sec opt v HR s k. unfold conf_add.
  replace (match sec with [] => DEFAULT_SECTION | _ => sec end) with (conf_section sec) by (destruct sec; reflexivity).
  set (S0 := conf_section sec). rewrite cfg_get_set. unfold pair_eqb. cbn [fst snd].
  unfold conf_lookup at 1. rewrite hm_get_insert. fold (rs_eq s S0). fold (rs_eq k opt).
  destruct (rs_eq s S0) eqn:Es.
  - apply rs_eq_true in Es. subst s. rewrite hm_get_insert. cbn [andb].
    destruct (rs_eq k opt); [reflexivity|]. rewrite <- (HR S0 k). unfold conf_lookup, hm_entry_or.
    destruct (hm_get d S0); reflexivity.
  - cbn [andb]. rewrite <- (HR s k). unfold conf_lookup, hm_entry_or.
    destruct (hm_get d S0); cbn [fst]; [reflexivity|]. rewrite hm_get_insert, Es. reflexivity.
Qed.

(* every value of the configuration is ASCII (they are pieces of an ASCII text) *)
Definition cfg_ascii (c : cfg) : Prop := forall k v, cfg_get k c = Some v -> ascii_text v.
Lemma cfg_ascii_nil : cfg_ascii [].
Proof. intros k v H. discriminate. Qed.
Lemma cfg_ascii_set : forall k v c, cfg_ascii c -> ascii_text v -> cfg_ascii (cfg_set k v c).
Proof.
  intros k v c Hc Hv k' v' H. rewrite cfg_get_set in H. destruct (pair_eqb k' k).
  - injection H as <-. exact Hv.
  - exact (Hc k' v' H).
Qed.

(* ------------------------------------------------------------------ *)
(* Config::get: to_lowercase, split("::")                               *)
(* ------------------------------------------------------------------ *)
Definition colon : ascii := ":"%char.
Definition upper_byte (c : ascii) : bool := Nat.leb 65 (nat_of_ascii c) && Nat.leb (nat_of_ascii c) 90.
(* a key part as the model uses them: no upper-case ASCII letter, no ':' *)
Definition plain_keyb (s : text) : bool := forallb (fun c => negb (upper_byte c) && negb (Ascii.eqb c colon)) s.
Definition plain_key (s : text) : Prop := plain_keyb s = true.

Lemma plain_key_app : forall a b, plain_key a -> plain_key b -> plain_key (a ++ b).
Proof. intros a b Ha Hb. unfold plain_key, plain_keyb in *. rewrite forallb_app, Ha, Hb. reflexivity. Qed.

Lemma rs_to_lowercase_plain1 : forall x, plain_key x -> rs_to_lowercase x = x.
Proof.
  unfold rs_to_lowercase. induction x as [|c r IH]; intros H; [reflexivity|].
  unfold plain_key, plain_keyb in H. cbn [forallb] in H.
  apply andb_true_iff in H. destruct H as [Hc Hr]. apply andb_true_iff in Hc. destruct Hc as [Hu _].
  cbn [map]. rewrite (IH Hr). unfold rs_lower_byte. unfold upper_byte in Hu. apply negb_true_iff in Hu.
  rewrite Hu. reflexivity.
Qed.
Lemma rs_to_lowercase_plain : forall a b, plain_key a -> plain_key b ->
  rs_to_lowercase (a ++ T "::" ++ b) = a ++ T "::" ++ b.
Proof.
  intros a b Ha Hb. unfold rs_to_lowercase. rewrite !map_app.
  fold (rs_to_lowercase a). fold (rs_to_lowercase b). rewrite (rs_to_lowercase_plain1 a Ha), (rs_to_lowercase_plain1 b Hb).
  reflexivity.
Qed.

Lemma plain_key_cons : forall c r, plain_key (c :: r) -> Ascii.eqb c colon = false /\ plain_key r.
Proof.
  intros c r H. unfold plain_key, plain_keyb in H. cbn [forallb] in H. apply andb_true_iff in H.
  destruct H as [Hc Hr]. apply andb_true_iff in Hc. destruct Hc as [_ Hc]. apply negb_true_iff in Hc. split; assumption.
Qed.

Lemma sw_colon_false : forall c r, Ascii.eqb c colon = false -> rs_starts_with (c :: r) (T "::") = false.
Proof.
  intros c r H. unfold rs_starts_with. cbn [T list_ascii_of_string length firstn].
  change ":"%char with colon. destruct r as [|d r']; cbn [firstn teqb]; rewrite H; reflexivity.
Qed.

Lemma split_str_plain : forall b, plain_key b -> rs_split_str_go (T "::") 0 b = [b].
Proof.
  induction b as [|c r IH]; intros H; [reflexivity|]. apply plain_key_cons in H. destruct H as [Hc Hr].
  cbn [rs_split_str_go]. rewrite (sw_colon_false c r Hc), (IH Hr). reflexivity.
Qed.

Lemma split_str_sec_opt : forall a b, plain_key a -> plain_key b ->
  rs_split_str (a ++ T "::" ++ b) (T "::") = [a; b].
Proof.
  intros a b Ha Hb. unfold rs_split_str. induction a as [|c r IH].
  - change ([] ++ T "::" ++ b) with (colon :: colon :: b). cbn [rs_split_str_go].
    replace (rs_starts_with (colon :: colon :: b) (T "::")) with true by (unfold rs_starts_with; reflexivity).
    change (length (T "::") - 1) with 1. cbn [rs_split_str_go]. rewrite (split_str_plain b Hb). reflexivity.
  - apply plain_key_cons in Ha. destruct Ha as [Hc Hr]. cbn [app rs_split_str_go].
    rewrite (sw_colon_false c _ Hc), (IH Hr). reflexivity.
Qed.

(* ------------------------------------------------------------------ *)
(* split(',')                                                           *)
(* ------------------------------------------------------------------ *)
Lemma rs_split_char_ne : forall s c, rs_split_char s c <> [].
Proof.
  induction s as [|d r IH]; intros c; cbn [rs_split_char]; [discriminate|].
  destruct (Ascii.eqb d c); [discriminate|]. destruct (rs_split_char r c); discriminate.
Qed.

Lemma split_commas_split_char : forall s cur,
  split_commas s cur = (rev cur ++ hd [] (rs_split_char s comma)) :: tl (rs_split_char s comma).
Proof.
  induction s as [|d r IH]; intros cur; cbn [split_commas rs_split_char hd tl]; [rewrite app_nil_r; reflexivity|].
  destruct (Ascii.eqb d comma).
  - cbn [hd tl]. rewrite app_nil_r, (IH []). cbn [rev app].
    destruct (rs_split_char r comma) eqn:E; [exfalso; exact (rs_split_char_ne _ _ E)|reflexivity].
  - rewrite (IH (d :: cur)). cbn [rev]. rewrite <- app_assoc. cbn [app].
    destruct (rs_split_char r comma) eqn:E; [exfalso; exact (rs_split_char_ne _ _ E)|reflexivity].
Qed.

Lemma rs_split_char_commas : forall s, rs_split_char s comma = split_commas s [].
Proof.
  intros s. rewrite split_commas_split_char. cbn [rev app].
  destruct (rs_split_char s comma) eqn:E; [exfalso; exact (rs_split_char_ne _ _ E)|reflexivity].
Qed.

Lemma split_char_ascii : forall s c, ascii_text s -> Forall ascii_text (rs_split_char s c).
Proof.
  induction s as [|d r IH]; intros c H; cbn [rs_split_char]; [repeat constructor|].
  apply ascii_text_cons in H. destruct H as [Hd Hr]. specialize (IH c Hr).
  destruct (Ascii.eqb d c); [constructor; [exact ascii_text_nil|exact IH]|].
  destruct (rs_split_char r c) as [|h t]; [repeat constructor; apply ascii_text_cons; split; [exact Hd|exact ascii_text_nil]|].
  inversion IH as [|x l Hh Ht]. subst. constructor; [apply ascii_text_cons; split; assumption|exact Ht].
Qed.

(* ------------------------------------------------------------------ *)
(* the decimal printer: digits only, injective below 10^20              *)
(* ------------------------------------------------------------------ *)
Definition digitb (c : ascii) : bool := Nat.leb 48 (nat_of_ascii c) && Nat.leb (nat_of_ascii c) 57.

Lemma digit_char_nat : forall d, d < 10 -> nat_of_ascii (digit_char d) = 48 + d.
Proof. intros d H. unfold digit_char. apply nat_ascii_embedding. lia. Qed.

Lemma mod10_lt : forall n : N, N.to_nat (n mod 10) < 10.
Proof. intros n. pose proof (N.mod_lt n 10 ltac:(discriminate)). lia. Qed.

Lemma print_pos_digits : forall f n acc, forallb digitb acc = true -> forallb digitb (print_pos_fuel f n acc) = true.
Proof.
  induction f as [|f IH]; intros n acc H; cbn [print_pos_fuel]; [exact H|].
  assert (Hd : forallb digitb (digit_char (N.to_nat (n mod 10)) :: acc) = true).
  { cbn [forallb]. rewrite H, andb_true_r. unfold digitb. rewrite digit_char_nat by apply mod10_lt.
    pose proof (mod10_lt n) as Hm. revert Hm. generalize (N.to_nat (n mod 10)). intros d Hm.
    apply andb_true_iff. split; apply Nat.leb_le; lia. }
  destruct (N.eqb (n / 10) 0); [exact Hd|apply IH, Hd].
Qed.

Lemma digit_text_digits : forall n, forallb digitb (digit_text n) = true.
Proof.
  intros n. unfold digit_text, print_Z. destruct (Z.of_nat n) as [|p|p] eqn:E; [reflexivity| |lia].
  apply print_pos_digits. reflexivity.
Qed.

Lemma digits_plain : forall s, forallb digitb s = true -> plain_key s /\ ascii_text s.
Proof.
  induction s as [|c r IH]; intros H; [split; reflexivity|]. cbn [forallb] in H. apply andb_true_iff in H.
  destruct H as [Hc Hr]. destruct (IH Hr) as [H1 H2]. unfold digitb in Hc. apply andb_true_iff in Hc.
  destruct Hc as [Hc1 Hc2]. apply Nat.leb_le in Hc1, Hc2. split.
  - unfold plain_key, plain_keyb. cbn [forallb]. fold (plain_keyb r). rewrite H1, andb_true_r.
    apply andb_true_iff. split; apply negb_true_iff.
    + unfold upper_byte. apply andb_false_iff. left. apply Nat.leb_gt. lia.
    + apply CsvP.aeqb_false. intros ->. cbn in Hc2. lia.
  - apply ascii_text_cons. split; [unfold ascii_byte; apply Nat.ltb_lt; lia|exact H2].
Qed.

Definition dval (c : ascii) : N := N.of_nat (nat_of_ascii c - 48).
Definition undigits (s : text) : N := fold_left (fun a c => (a * 10 + dval c)%N) s 0%N.

Lemma undigits_fold : forall s x,
  fold_left (fun a c => (a * 10 + dval c)%N) s x = (x * 10 ^ N.of_nat (length s) + undigits s)%N.
Proof.
  unfold undigits. induction s as [|c r IH]; intros x; cbn [fold_left length].
  - cbn. lia.
  - rewrite IH, (IH (0 * 10 + dval c)%N). rewrite Nat2N.inj_succ, N.pow_succ_r'. lia.
Qed.
Lemma undigits_cons : forall c s, undigits (c :: s) = (dval c * 10 ^ N.of_nat (length s) + undigits s)%N.
Proof. intros c s. unfold undigits at 1. cbn [fold_left]. rewrite undigits_fold. lia. Qed.

Lemma dval_digit_char : forall d, d < 10 -> dval (digit_char d) = N.of_nat d.
Proof. intros d H. unfold dval. rewrite digit_char_nat by exact H. f_equal. lia. Qed.

Lemma print_pos_val : forall f n acc, (0 < n)%N -> (n < 10 ^ N.of_nat f)%N ->
  undigits (print_pos_fuel f n acc) = (n * 10 ^ N.of_nat (length acc) + undigits acc)%N.
Proof.
  induction f as [|f IH]; intros n acc Hpos Hlt.
  - cbn in Hlt. lia.
  - cbn [print_pos_fuel]. pose proof (N.div_mod n 10 ltac:(discriminate)) as Hdm.
    pose proof (N.mod_lt n 10 ltac:(discriminate)) as Hm.
    set (q := (n / 10)%N) in *. set (d := (n mod 10)%N) in *.
    assert (Hdv : dval (digit_char (N.to_nat d)) = d).
    { rewrite dval_digit_char by lia. lia. }
    destruct (N.eqb q 0) eqn:Eq.
    + apply N.eqb_eq in Eq. rewrite undigits_cons, Hdv. lia.
    + apply N.eqb_neq in Eq. rewrite IH.
      * rewrite undigits_cons, Hdv. cbn [length]. rewrite Nat2N.inj_succ, N.pow_succ_r'.
        set (P := (10 ^ N.of_nat (length acc))%N).
        replace (n * P)%N with ((10 * q + d) * P)%N by (rewrite <- Hdm; reflexivity). ring.
      * lia.
      * rewrite Nat2N.inj_succ, N.pow_succ_r' in Hlt. lia.
Qed.

Definition small (n : nat) : Prop := (N.of_nat n < 10 ^ 20)%N.

Lemma undigits_digit_text : forall n, small n -> undigits (digit_text n) = N.of_nat n.
Proof.
  intros n Hs. unfold digit_text, print_Z. destruct (Z.of_nat n) as [|p|p] eqn:E; [|  |lia].
  - assert (n = 0) by lia. subst n. reflexivity.
  - rewrite print_pos_val.
    + cbn [length undigits fold_left]. rewrite N.pow_0_r. lia.
    + lia.
    + unfold small in Hs. change (N.of_nat 20) with 20%N. lia.
Qed.

Lemma digit_text_inj : forall a b, small a -> small b -> digit_text a = digit_text b -> a = b.
Proof.
  intros a b Ha Hb H. apply (f_equal undigits) in H. rewrite !undigits_digit_text in H by assumption. lia.
Qed.

Lemma key_suffix_inj : forall a b, 1 <= a -> 1 <= b -> small a -> small b -> key_suffix a = key_suffix b -> a = b.
Proof.
  intros a b H1a H1b Ha Hb H. unfold key_suffix in H.
  destruct (Nat.eqb a 1) eqn:Ea; destruct (Nat.eqb b 1) eqn:Eb.
  - apply Nat.eqb_eq in Ea, Eb. lia.
  - apply (f_equal undigits) in H. rewrite undigits_digit_text in H by assumption.
    apply Nat.eqb_neq in Eb. cbn in H. lia.
  - apply (f_equal undigits) in H. rewrite undigits_digit_text in H by assumption.
    apply Nat.eqb_neq in Ea. cbn in H. lia.
  - apply digit_text_inj; assumption.
Qed.

(* ------------------------------------------------------------------ *)
(* load_section: the loop stops within length c + 1 iterations          *)
(* ------------------------------------------------------------------ *)
Definition sec_key (sec : text) (i : nat) : text := sec ++ key_suffix i.

Lemma sec_key_inj : forall sec a b, 1 <= a -> 1 <= b -> small a -> small b -> sec_key sec a = sec_key sec b -> a = b.
Proof. intros sec a b H1 H2 H3 H4 H. apply app_inv_head in H. apply key_suffix_inj; assumption. Qed.

Lemma cfg_get_In : forall k c, cfg_get k c <> None -> In k (map fst c).
Proof.
  intros k c. induction c as [|[k0 v0] r IH]; cbn [cfg_get map fst]; intros H; [contradiction|].
  destruct (pair_eqb k k0) eqn:E; [left; symmetry; apply pair_eqb_true, E|right; apply IH, H].
Qed.

Lemma NoDup_map_inj_in : forall {A B} (f : A -> B) l,
  (forall x y, In x l -> In y l -> f x = f y -> x = y) -> NoDup l -> NoDup (map f l).
Proof.
  intros A B f l. induction l as [|a r IH]; intros Hinj Hnd; cbn [map]; [constructor|].
  inversion Hnd as [|x l' Hnin Hnd']. subst. constructor.
  - intros Hin. apply in_map_iff in Hin. destruct Hin as (y & Hy & Hyin).
    assert (y = a) by (apply Hinj; [right; exact Hyin|left; reflexivity|exact Hy]). subst y. contradiction.
  - apply IH; [|exact Hnd']. intros x y Hx Hy. apply Hinj; right; assumption.
Qed.

Lemma small_le : forall a b, a <= b -> small b -> small a.
Proof. intros a b H Hb. unfold small in *. lia. Qed.

(* pigeonhole: the keys sec, sec2, .., sec<n> are pairwise different *)
Lemma keys_bound : forall sn sec c n, small n ->
  (forall j, 1 <= j <= n -> cfg_get (sn, sec_key sec j) c <> None) -> n <= length c.
Proof.
  intros sn sec c n Hs Hall. rewrite <- (map_length fst c), <- (seq_length n 1), <- (map_length (fun j => (sn, sec_key sec j)) (seq 1 n)).
  apply NoDup_incl_length.
  - apply NoDup_map_inj_in; [|apply seq_NoDup]. intros x y Hx Hy H. apply in_seq in Hx, Hy.
    injection H as H. apply (sec_key_inj sec x y); [lia|lia| | |exact H]; (eapply small_le; [|exact Hs]); lia.
  - intros k Hk. apply in_map_iff in Hk. destruct Hk as (j & <- & Hj). apply in_seq in Hj.
    apply cfg_get_In, Hall. lia.
Qed.

Lemma load_section_S : forall f c sec i,
  load_section (S f) c sec i =
  match cfg_get (sec_name sec, sec_key sec i) c with
  | None => []
  | Some v => match add_def sec (sec_key sec i) v with
              | None => []
              | Some d => d :: load_section f c sec (S i)
              end
  end.
Proof. reflexivity. Qed.

Section LoadLoop.
  Variable M : Type.
  Variable ins : M -> adef -> M.

  Fixpoint load_loop (fuel : nat) (m : M) (c : cfg) (sec : text) (i : nat) : option M :=
    match fuel with
    | 0 => None
    | S f =>
      match cfg_get (sec_name sec, sec_key sec i) c with
      | None => Some m
      | Some v =>
        match add_def sec (sec_key sec i) v with
        | None => Some m
        | Some d => load_loop f (ins m d) c sec (S i)
        end
      end
    end.

  Lemma load_loop_model : forall fuel m c sec i m', load_loop fuel m c sec i = Some m' ->
    m' = fold_left ins (load_section fuel c sec i) m.
  Proof.
    induction fuel as [|f IH]; intros m c sec i m' H; cbn [load_loop] in H; [discriminate|].
    rewrite load_section_S. destruct (cfg_get (sec_name sec, sec_key sec i) c) as [v|]; [|injection H as <-; reflexivity].
    destruct (add_def sec (sec_key sec i) v) as [d|]; [|injection H as <-; reflexivity].
    cbn [fold_left]. apply IH, H.
  Qed.

  Lemma load_loop_mono : forall f m c sec i r, load_loop f m c sec i = Some r ->
    forall f', f <= f' -> load_loop f' m c sec i = Some r.
  Proof.
    induction f as [|f IH]; intros m c sec i r H f' Hle; [discriminate|].
    destruct f' as [|f']; [lia|]. cbn [load_loop] in *.
    destruct (cfg_get (sec_name sec, sec_key sec i) c) as [v|]; [|exact H].
    destruct (add_def sec (sec_key sec i) v) as [d|]; [|exact H].
    apply (IH _ _ _ _ _ H). lia.
  Qed.

  Lemma load_loop_enough : forall fuel m c sec i, 1 <= i -> small (S (length c)) ->
    (forall j, 1 <= j < i -> cfg_get (sec_name sec, sec_key sec j) c <> None) ->
    S (length c) < fuel + i -> load_loop fuel m c sec i <> None.
  Proof.
    induction fuel as [|f IH]; intros m c sec i Hi Hs Hall Hf.
    - exfalso. assert (S (length c) <= length c); [|lia].
      apply (keys_bound (sec_name sec) sec c (S (length c)) Hs). intros j Hj. apply Hall. lia.
    - cbn [load_loop]. destruct (cfg_get (sec_name sec, sec_key sec i) c) as [v|] eqn:E; [|discriminate].
      destruct (add_def sec (sec_key sec i) v) as [d|]; [|discriminate].
      apply IH; [lia|exact Hs| |lia]. intros j Hj. destruct (Nat.eq_dec j i) as [->|Hne]; [rewrite E; discriminate|].
      apply Hall. lia.
  Qed.

  (* with enough fuel the loop computes what the model's load_section (with its own fuel) does *)
  Lemma load_loop_section : forall fuel m c sec, small (S (length c)) -> S (length c) <= fuel ->
    load_loop fuel m c sec 1 = Some (fold_left ins (load_section (S (length c)) c sec 1) m).
  Proof.
    intros fuel m c sec Hs Hf.
    destruct (load_loop (S (length c)) m c sec 1) as [r|] eqn:E.
    - rewrite (load_loop_mono _ _ _ _ _ _ E fuel Hf). f_equal. apply load_loop_model, E.
    - exfalso. revert E. apply load_loop_enough; [lia|exact Hs| |lia]. intros j Hj. lia.
  Qed.

  Lemma rs_loop_load : forall {E} (c : cfg) (sec : text) (body : M * nat -> flow (M * nat) (M * rs_result unit E)),
    (forall m i, body (m, i) =
       match cfg_get (sec_name sec, sec_key sec i) c with
       | None => LReturn (m, ROk tt)
       | Some v => match add_def sec (sec_key sec i) v with
                   | None => LReturn (m, ROk tt)
                   | Some d => LNext (ins m d, S i)
                   end
       end) ->
    forall fuel m i,
      rs_loop fuel body (m, i) =
      match load_loop fuel m c sec i with Some m' => Returned (m', ROk tt) | None => Panicked end.
  Proof.
    intros E c sec body Hb. induction fuel as [|f IH]; intros m i; [reflexivity|].
    cbn [rs_loop load_loop]. rewrite Hb.
    destruct (cfg_get (sec_name sec, sec_key sec i) c) as [v|]; [|reflexivity].
    destruct (add_def sec (sec_key sec i) v) as [d|]; [|reflexivity]. apply IH.
  Qed.
End LoadLoop.

(* ------------------------------------------------------------------ *)
(* the configuration has at most one entry per line                     *)
(* ------------------------------------------------------------------ *)
Lemma cfg_set_length : forall k v c, length (cfg_set k v c) <= S (length c).
Proof.
  intros k v c. induction c as [|[k0 v0] r IH]; cbn [cfg_set length]; [lia|].
  destruct (pair_eqb k k0); cbn [length]; lia.
Qed.

Lemma parse_lines_length : forall f lines sec c c', parse_lines f lines sec c = Some c' ->
  length c' <= length c + length lines.
Proof.
  induction f as [|f IH]; intros lines sec c c' H; [injection H as <-; lia|].
  destruct lines as [|raw rest]; [injection H as <-; lia|]. rewrite parse_lines_cons in H. cbn [length].
  destruct (is_comment_or_blank (trim raw)); [apply IH in H; lia|].
  destruct (is_section (trim raw)); [apply IH in H; lia|].
  pose proof (continuation_rest_length (S (length rest)) (trim raw) [] rest) as Hlen.
  destruct (continuation (S (length rest)) (trim raw) [] rest) as [[joined ns] rest']. cbn [snd] in Hlen.
  destruct (split_option (trim_end_wsb joined)) as [[k v]|]; [|discriminate].
  apply IH in H. pose proof (cfg_set_length (match sec with [] => DEFAULT_SECTION | _ :: _ => sec end, k) v c). lia.
Qed.

Lemma parse_config_length : forall t c, parse_config t = Some c -> length c <= length t.
Proof.
  intros t c H. unfold parse_config in H. apply parse_lines_length in H. cbn [length] in H.
  pose proof (ini_lines_length t). lia.
Qed.

(* ------------------------------------------------------------------ *)
(* HashMap / LinkedHashMap insertions at the end                        *)
(* ------------------------------------------------------------------ *)
Lemma hm_get_None_notin : forall {V} (m : hashmap V) k, hm_get m k = None -> ~ In k (map fst m).
Proof.
  intros V m k. induction m as [|[k0 v0] r IH]; cbn [hm_get map fst]; intros H; [intros []|].
  destruct (rs_eq k k0) eqn:E; [discriminate|]. intros [Hin|Hin]; [subst k0; rewrite rs_eq_refl in E; discriminate|].
  exact (IH H Hin).
Qed.
Lemma hm_insert_fresh : forall {V} (m : hashmap V) k v, hm_get m k = None -> hm_insert m k v = m ++ [(k, v)].
Proof.
  intros V m k v. induction m as [|[k0 v0] r IH]; cbn [hm_get hm_insert app]; intros H; [reflexivity|].
  destruct (rs_eq k k0); [discriminate|]. rewrite (IH H). reflexivity.
Qed.
Lemma hm_get_last : forall {V} (m : hashmap V) k v, hm_get m k = None -> hm_get (m ++ [(k, v)]) k = Some v.
Proof.
  intros V m k v. induction m as [|[k0 v0] r IH]; cbn [hm_get app]; intros H; [rewrite rs_eq_refl; reflexivity|].
  destruct (rs_eq k k0); [discriminate|]. exact (IH H).
Qed.
Lemma hm_insert_last : forall {V} (m : hashmap V) k v v', hm_get m k = None ->
  hm_insert (m ++ [(k, v)]) k v' = m ++ [(k, v')].
Proof.
  intros V m k v v'. induction m as [|[k0 v0] r IH]; cbn [hm_get hm_insert app]; intros H; [rewrite rs_eq_refl; reflexivity|].
  destruct (rs_eq k k0); [discriminate|]. rewrite (IH H). reflexivity.
Qed.
Lemma hm_get_app_other : forall {V} (m : hashmap V) k k' v, rs_eq k' k = false -> hm_get (m ++ [(k, v)]) k' = hm_get m k'.
Proof.
  intros V m k k' v Hne. induction m as [|[k0 v0] r IH]; cbn [hm_get app]; [rewrite Hne; reflexivity|].
  destruct (rs_eq k' k0); [reflexivity|exact IH].
Qed.
Lemma lhm_insert_fresh : forall {V} (m : lhm V) k v, ~ In k (map fst m) -> lhm_insert m k v = m ++ [(k, v)].
Proof.
  intros V m k v H. unfold lhm_insert. f_equal. induction m as [|[k0 v0] r IH]; [reflexivity|].
  cbn [filter fst map] in *. destruct (rs_eq k0 k) eqn:E.
  - apply rs_eq_true in E. subst k0. exfalso. apply H. left. reflexivity.
  - cbn [negb]. rewrite IH; [reflexivity|]. intros Hin. apply H. right. exact Hin.
Qed.

Lemma take_line_fst_length0 : forall rd, Nat.eqb 0 (length (fst (rs_take_line rd))) = is_nil rd.
Proof. intros rd. rewrite Nat.eqb_sym. apply take_line_fst_length. Qed.

(* ------------------------------------------------------------------ *)
(* Model::to_text: contains, replace, the replacement table             *)
(* ------------------------------------------------------------------ *)
Lemma rs_contains_str_infix : forall s p, rs_contains_str s p = is_infix p s.
Proof.
  induction s as [|c r IH]; intros p; cbn [rs_contains_str is_infix]; rewrite rs_starts_with_is_prefix.
  - destruct p; reflexivity.
  - rewrite IH. reflexivity.
Qed.

Lemma rs_replace_go_skip : forall from to pre rest,
  rs_replace_go from to (length pre) (pre ++ rest) = rs_replace_go from to 0 rest.
Proof. intros from to. induction pre as [|c pre IH]; intros rest; [reflexivity|]. cbn [length app rs_replace_go]. apply IH. Qed.

Lemma rs_replace_go_rep : forall from to n s, from <> [] -> length s < n -> rs_replace_go from to 0 s = rep from to s.
Proof.
  intros from to. induction n as [|n IH]; intros s Hne Hn; [lia|].
  destruct s as [|d r]; [reflexivity|]. cbn [rs_replace_go]. rewrite rs_starts_with_is_prefix.
  destruct (is_prefix from (d :: r)) eqn:E.
  - destruct (prefix_cases from (d :: r) E) as (rest & Hs). rewrite Hs, (rep_occ from to rest Hne).
    destruct from as [|c0 from']; [contradiction|]. cbn [app] in Hs. injection Hs as _ Hr. subst r.
    replace (length (c0 :: from') - 1) with (length from') by (cbn [length]; lia).
    rewrite rs_replace_go_skip. f_equal. apply IH; [exact Hne|].
    cbn [length] in Hn. rewrite app_length in Hn. lia.
  - rewrite (rep_step from to d r E). f_equal. apply IH; [exact Hne|]. cbn [length] in Hn. lia.
Qed.

Lemma rs_str_replace_rep : forall s from to, from <> [] -> rs_str_replace s from to = rep from to s.
Proof.
  intros s from to Hne. unfold rs_str_replace. destruct from as [|c f]; [contradiction|].
  apply (rs_replace_go_rep (c :: f) to (S (length s))); [exact Hne|lia].
Qed.

(* inserting pairwise different keys appends them *)
Lemma hm_insert_fold_fresh : forall {A} (key : A -> text) (val : A -> text) l (m : hashmap text),
  NoDup (map fst m ++ map key l) ->
  fold_left (fun tp x => hm_insert tp (key x) (val x)) l m = m ++ map (fun x => (key x, val x)) l.
Proof.
  intros A key val. induction l as [|x l IH]; intros m H; cbn [fold_left map]; [rewrite app_nil_r; reflexivity|].
  cbn [map] in H. rewrite hm_insert_fresh.
  - rewrite IH; [rewrite <- app_assoc; reflexivity|]. rewrite map_app, <- app_assoc. exact H.
  - apply NoDup_remove_2 in H. destruct (hm_get m (key x)) eqn:E; [|reflexivity]. exfalso. apply H, in_or_app. left.
    clear -E. induction m as [|[k0 v0] r IHm]; cbn [hm_get] in E; [discriminate|].
    destruct (rs_eq (key x) k0) eqn:E0; [left; symmetry; apply rs_eq_true, E0|right; apply IHm, E].
Qed.

(* rs_for with a body that never leaves the loop, the elements known to be in the list *)
Lemma rs_for_fold_in : forall {A S R} (body : A -> S -> flow S R) (f : S -> A -> S) l,
  (forall x s, In x l -> body x s = LNext (f s x)) ->
  forall s, rs_for body l s = Done (fold_left f l s).
Proof.
  intros A S R body f l. induction l as [|x l IH]; intros Hb s; [reflexivity|].
  rewrite rs_for_cons, Hb by (left; reflexivity). apply IH. intros y s' Hy. apply Hb. right. exact Hy.
Qed.

Lemma fold_left_app_flat : forall {A} (f : A -> text) l (s : text),
  fold_left (fun acc x => acc ++ f x) l s = s ++ flat_map f l.
Proof.
  intros A f. induction l as [|x l IH]; intros s; cbn [fold_left flat_map]; [rewrite app_nil_r; reflexivity|].
  rewrite IH, app_assoc. reflexivity.
Qed.
