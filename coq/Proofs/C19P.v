(* Proofs for C19: role definitions are independent relations. *)
From CV Require Import Model.Base Model.Effector Model.RoleGraph Model.PathMatch Model.Expr
     Model.Enforce Model.Engine Model.SpecC08 Model.SpecC19.
From CV Require Import Proofs.BaseP Proofs.ListAux Proofs.EffectorP Proofs.RoleGraphP
     Proofs.ExprP Proofs.EnforceP Proofs.C08P.
From Coq Require Import Lia Relations.

(* ================= A. the generic loop is the model's loop ================= *)

Lemma call_fn_shared fs f args : call_fn fs f args = call_fn_with fs (glink_shared fs) f args.
Proof. reflexivity. Qed.

Lemma eval_matcher_c_model ptab fs m sc :
  eval_matcher_c ptab (call_fn fs) m sc = eval_matcher ptab fs m sc.
Proof. reflexivity. Qed.

Lemma rules_loop_c_model ptab fs m et ptoks sc0 : forall rules st,
  rules_loop_c ptab (call_fn fs) m et ptoks sc0 st rules =
  rules_loop ptab fs m et ptoks sc0 st rules.
Proof.
  induction rules as [|pvals rest IH]; intros st; cbn [rules_loop_c rules_loop]; [reflexivity|].
  destruct (negb (Nat.eqb (length ptoks) (length pvals))); [reflexivity|].
  rewrite eval_matcher_c_model.
  destruct (eval_matcher ptab fs m _) as [b|c|]; try reflexivity.
  cbv zeta. destruct (done (push st _)); [reflexivity|apply IH].
Qed.

Lemma enforce_core_c_model ptab fs en md mx rk pk ek mk et rv :
  enforce_core_c ptab (call_fn fs) en md mx rk pk ek mk et rv =
  enforce_core ptab en md mx fs rk pk ek mk et rv.
Proof.
  unfold enforce_core_c, enforce_core. destruct (negb en); [reflexivity|].
  destruct (get_ast md s_r rk) as [r_ast|]; [|reflexivity].
  destruct (get_ast md s_p pk) as [p_ast|]; [|reflexivity].
  destruct (get_ast md s_m mk) as [m_ast|]; [|reflexivity].
  destruct (get_ast md s_e ek) as [e_ast|]; [|reflexivity].
  destruct (negb (Nat.eqb (length (a_tokens r_ast)) (length rv))); [reflexivity|].
  cbv zeta. destruct (new_stream _ _) as [st|]; [|reflexivity].
  destruct (assoc mk mx) as [m|]; [|reflexivity].
  destruct (a_policy p_ast) as [|r0 l]; [reflexivity|].
  apply rules_loop_c_model.
Qed.

Lemma enforce_with_model ptab s rv : enforce_with ptab (call_fn (e_fs s)) s rv = enforce ptab s rv.
Proof. unfold enforce_with, enforce, enforce_plain. apply enforce_core_c_model. Qed.

(* ================= B. congruence up to an aborting probe ================= *)
(* cp is a probe of c1: wherever it does not abort, it answers like c1.  If the
   probed evaluation does not abort, c1 evaluates to the same result. *)
Section UpTo.
  Variables c1 cp : text -> list value -> option eres.
  Variable ptab : text -> option expr.
  Hypothesis Hc : forall f args, cp f args = Some EPanic \/ c1 f args = cp f args.

  Lemma in_go_upto (ev1 evp : expr -> eres) x : forall xs found,
    Forall (fun y => evp y <> EPanic -> ev1 y = evp y) xs ->
    in_go evp x xs found <> EPanic ->
    in_go ev1 x xs found = in_go evp x xs found.
  Proof.
    induction xs as [|y xs IH]; intros found HF Hnp; cbn [in_go] in *; [reflexivity|].
    inversion HF as [|y' xs' Hy Hxs]; subst.
    assert (E : ev1 y = evp y).
    { apply Hy. intros E. rewrite E in Hnp. apply Hnp. reflexivity. }
    rewrite E. destruct (evp y) as [v| |]; try reflexivity. apply IH; assumption.
  Qed.

  Lemma call_go_upto (ev1 evp : expr -> eres) f : forall xs acc,
    Forall (fun y => evp y <> EPanic -> ev1 y = evp y) xs ->
    call_go cp evp f xs acc <> EPanic ->
    call_go c1 ev1 f xs acc = call_go cp evp f xs acc.
  Proof.
    induction xs as [|y xs IH]; intros acc HF Hnp; cbn [call_go] in *.
    - destruct (Hc f (rev acc)) as [E|E].
      + rewrite E in Hnp. exfalso. apply Hnp. reflexivity.
      + rewrite E. reflexivity.
    - inversion HF as [|y' xs' Hy Hxs]; subst.
      assert (E : ev1 y = evp y).
      { apply Hy. intros E. rewrite E in Hnp. apply Hnp. reflexivity. }
      rewrite E. destruct (evp y) as [v| |]; try reflexivity. apply IH; assumption.
  Qed.

  Lemma eval_upto sc : forall fuel e,
    eval cp ptab sc fuel e <> EPanic ->
    eval c1 ptab sc fuel e = eval cp ptab sc fuel e.
  Proof.
    induction fuel as [|fuel IHf]; intros e;
      induction e as [v|p f|a f IHa|a b IHa IHb|a b IHa IHb|c a b IHa IHb|a b IHa IHb
                      |a b IHa IHb|a IHa|a xs IHa IHxs|f args IHargs|p f] using expr_ind';
      intros Hnp;
      try (rewrite !eval_ELit; reflexivity);
      try (rewrite !eval_EVar; reflexivity);
      try (rewrite !eval_ECall in *; apply call_go_upto; assumption);
      try (rewrite !eval_EEval in *;
           first [reflexivity
                 |destruct (assoc (tok p f) sc) as [[s| | | |]|]; try reflexivity;
                  destruct (teqb s []); [reflexivity|];
                  destruct (ptab (escape_assertion s)); [apply IHf; exact Hnp|reflexivity]]).
    (* the remaining operators, twice (fuel 0 and S fuel) *)
    all: try (rewrite eval_EProp in Hnp; rewrite !eval_EProp;
              assert (Ea : eval c1 ptab sc _ a = eval cp ptab sc _ a)
                by (apply IHa; intros E; rewrite E in Hnp; apply Hnp; reflexivity);
              rewrite Ea; reflexivity).
    all: try (rewrite eval_EEq in Hnp; rewrite !eval_EEq;
              assert (Ea : eval c1 ptab sc _ a = eval cp ptab sc _ a)
                by (apply IHa; intros E; rewrite E in Hnp; apply Hnp; reflexivity);
              rewrite Ea in *; destruct (eval cp ptab sc _ a) as [x| |]; try reflexivity;
              assert (Eb : eval c1 ptab sc _ b = eval cp ptab sc _ b)
                by (apply IHb; intros E; rewrite E in Hnp; apply Hnp; reflexivity);
              rewrite Eb; reflexivity).
    all: try (rewrite eval_ENeq in Hnp; rewrite !eval_ENeq;
              assert (Ea : eval c1 ptab sc _ a = eval cp ptab sc _ a)
                by (apply IHa; intros E; rewrite E in Hnp; apply Hnp; reflexivity);
              rewrite Ea in *; destruct (eval cp ptab sc _ a) as [x| |]; try reflexivity;
              assert (Eb : eval c1 ptab sc _ b = eval cp ptab sc _ b)
                by (apply IHb; intros E; rewrite E in Hnp; apply Hnp; reflexivity);
              rewrite Eb; reflexivity).
    all: try (rewrite eval_ECmp in Hnp; rewrite !eval_ECmp;
              assert (Ea : eval c1 ptab sc _ a = eval cp ptab sc _ a)
                by (apply IHa; intros E; rewrite E in Hnp; apply Hnp; reflexivity);
              rewrite Ea in *; destruct (eval cp ptab sc _ a) as [x| |]; try reflexivity;
              assert (Eb : eval c1 ptab sc _ b = eval cp ptab sc _ b)
                by (apply IHb; intros E; rewrite E in Hnp; apply Hnp; reflexivity);
              rewrite Eb; reflexivity).
    all: try (rewrite eval_EAnd in Hnp; rewrite !eval_EAnd;
              assert (Ea : eval c1 ptab sc _ a = eval cp ptab sc _ a)
                by (apply IHa; intros E; rewrite E in Hnp; apply Hnp; reflexivity);
              rewrite Ea in *;
              destruct (eval cp ptab sc _ a) as [[s|z|[|]| |fs]| |]; cbn [as_bool] in *;
                try reflexivity;
              assert (Eb : eval c1 ptab sc _ b = eval cp ptab sc _ b)
                by (apply IHb; intros E; rewrite E in Hnp; apply Hnp; reflexivity);
              rewrite Eb; reflexivity).
    all: try (rewrite eval_EOr in Hnp; rewrite !eval_EOr;
              assert (Ea : eval c1 ptab sc _ a = eval cp ptab sc _ a)
                by (apply IHa; intros E; rewrite E in Hnp; apply Hnp; reflexivity);
              rewrite Ea in *;
              destruct (eval cp ptab sc _ a) as [[s|z|[|]| |fs]| |]; cbn [as_bool] in *;
                try reflexivity;
              assert (Eb : eval c1 ptab sc _ b = eval cp ptab sc _ b)
                by (apply IHb; intros E; rewrite E in Hnp; apply Hnp; reflexivity);
              rewrite Eb; reflexivity).
    all: try (rewrite eval_ENot in Hnp; rewrite !eval_ENot;
              assert (Ea : eval c1 ptab sc _ a = eval cp ptab sc _ a)
                by (apply IHa; intros E; rewrite E in Hnp; apply Hnp; reflexivity);
              rewrite Ea; reflexivity).
    all: try (rewrite eval_EIn in Hnp; rewrite !eval_EIn;
              assert (Ea : eval c1 ptab sc _ a = eval cp ptab sc _ a)
                by (apply IHa; intros E; rewrite E in Hnp; apply Hnp; reflexivity);
              rewrite Ea in *; destruct (eval cp ptab sc _ a) as [x| |]; try reflexivity;
              apply in_go_upto; assumption).
  Qed.
End UpTo.

Section UpToLoop.
  Variables c1 cp : text -> list value -> option eres.
  Variable ptab : text -> option expr.
  Hypothesis Hc : forall f args, cp f args = Some EPanic \/ c1 f args = cp f args.

  Lemma eval_matcher_upto m sc :
    eval_matcher_c ptab cp m sc <> Panic ->
    eval_matcher_c ptab c1 m sc = eval_matcher_c ptab cp m sc.
  Proof.
    unfold eval_matcher_c. intros Hnp. rewrite (eval_upto c1 cp ptab Hc sc); [reflexivity|].
    intros E. rewrite E in Hnp. apply Hnp. reflexivity.
  Qed.

  Lemma rules_loop_upto m et ptoks sc0 : forall rules st,
    rules_loop_c ptab cp m et ptoks sc0 st rules <> Panic ->
    rules_loop_c ptab c1 m et ptoks sc0 st rules = rules_loop_c ptab cp m et ptoks sc0 st rules.
  Proof.
    induction rules as [|pvals rest IH]; intros st Hnp; cbn [rules_loop_c] in *; [reflexivity|].
    destruct (negb (Nat.eqb (length ptoks) (length pvals))); [reflexivity|].
    assert (E : eval_matcher_c ptab c1 m (bind ptoks (map VStr pvals) sc0) =
                eval_matcher_c ptab cp m (bind ptoks (map VStr pvals) sc0)).
    { apply eval_matcher_upto. intros E. rewrite E in Hnp. apply Hnp. reflexivity. }
    rewrite E. destruct (eval_matcher_c ptab cp m _) as [b|c|]; try reflexivity.
    cbv zeta in *. destruct (done (push st _)); [reflexivity|]. apply IH, Hnp.
  Qed.

  Lemma enforce_with_upto s rv :
    enforce_with ptab cp s rv <> Panic -> enforce_with ptab c1 s rv = enforce_with ptab cp s rv.
  Proof.
    unfold enforce_with, enforce_core_c. destruct (negb (e_enabled s)); [reflexivity|].
    destruct (get_ast (e_model s) s_r s_r) as [r_ast|]; [|reflexivity].
    destruct (get_ast (e_model s) s_p s_p) as [p_ast|]; [|reflexivity].
    destruct (get_ast (e_model s) s_m s_m) as [m_ast|]; [|reflexivity].
    destruct (get_ast (e_model s) s_e s_e) as [e_ast|]; [|reflexivity].
    destruct (negb (Nat.eqb (length (a_tokens r_ast)) (length rv))); [reflexivity|].
    cbv zeta. destruct (new_stream _ _) as [st|]; [|reflexivity].
    destruct (assoc s_m (e_mexprs s)) as [m|]; [|reflexivity].
    destruct (a_policy p_ast) as [|r0 l].
    - intros Hnp.
      assert (E : eval_matcher_c ptab c1 m
                    (bind (a_tokens p_ast) (map (fun _ => VStr []) (a_tokens p_ast))
                          (bind (a_tokens r_ast) rv [])) =
                  eval_matcher_c ptab cp m
                    (bind (a_tokens p_ast) (map (fun _ => VStr []) (a_tokens p_ast))
                          (bind (a_tokens r_ast) rv []))).
      { apply eval_matcher_upto. intros E. rewrite E in Hnp. apply Hnp. reflexivity. }
      rewrite E. reflexivity.
    - apply rules_loop_upto.
  Qed.
End UpToLoop.

(* ================= C. shared manager vs. per-definition links ================= *)

Lemma reachable_ext (l l' : links) a b :
  (forall p, In p l <-> In p l') -> reachable l a b = reachable l' a b.
Proof.
  intros H. destruct (reachable l' a b) eqn:E.
  - apply reachable_spec. apply reachable_spec in E. destruct E as [E|E]; [left; exact E|right].
    apply (clos_trans_impl (fun x y => In (x, y) l')); [|exact E]. intros x y. apply H.
  - destruct (reachable l a b) eqn:E'; [|reflexivity].
    assert (E2 : reachable l' a b = true).
    { apply reachable_spec. apply reachable_spec in E'.
      destruct E' as [E'|E']; [left; exact E'|right].
      apply (clos_trans_impl (fun x y => In (x, y) l)); [|exact E']. intros x y. apply H. }
    rewrite E2 in E. discriminate.
Qed.

Lemma edges_of_dom_edges m d : edges_of m d = dom_edges m (dom_key d).
Proof. reflexivity. Qed.

Definition in_sync (s : estate) : Prop :=
  forall dk p, In p (dom_edges (f_rm (e_fs s)) dk) <-> In p (union_links s dk).

Lemma gkey_eqb_eq k k' : gkey_eqb k k' = true -> k = k'.
Proof.
  destruct k as [t n], k' as [t' n']. unfold gkey_eqb. cbn [fst snd]. intros H.
  apply andb_true_iff in H. destruct H as [H1 H2].
  apply teqb_eq in H1. apply Nat.eqb_eq in H2. subst. reflexivity.
Qed.

Lemma find_gfun_In k l h : find_gfun k l = Some h -> In (k, h) l.
Proof.
  induction l as [|[k' h'] l IH]; cbn [find_gfun]; intros H; [discriminate|].
  destruct (gkey_eqb k k') eqn:E.
  - inversion H; subst. apply gkey_eqb_eq in E. subst. left. reflexivity.
  - right. apply IH, H.
Qed.

Lemma all_cur_find fs k h : all_cur fs = true -> find_gfun k (f_gfuns fs) = Some h -> h = HCur.
Proof.
  intros Hc Hf. pose proof (find_gfun_In _ _ _ Hf) as Hin.
  unfold all_cur in Hc. rewrite forallb_forall in Hc. specialize (Hc _ Hin). cbn [fst] in Hc.
  rewrite Hf in Hc. destruct h; try discriminate. reflexivity.
Qed.

Section Agreement.
  Variable s : estate.
  Hypothesis Hwf : wf (f_rm (e_fs s)).
  Hypothesis Hcur : all_cur (e_fs s) = true.
  Hypothesis Hsync : in_sync s.
  Hypothesis Hsh : shallow_state s = true.

  (* the shared manager answers reachability over the union of all definitions *)
  Lemma shared_is_union a b d :
    has_link (f_rm_max (e_fs s)) (f_rm (e_fs s)) a b d = reachable (union_links s (dom_key d)) a b.
  Proof.
    rewrite (has_link_shallow _ _ a b d Hwf).
    - apply reachable_ext. intros p. rewrite edges_of_dom_edges. apply Hsync.
    - apply shallow_rm_sound. exact Hsh.
  Qed.

  Lemma probe_of_indep f args :
    call_fn_probe s f args = Some EPanic \/ call_fn_indep s f args = call_fn_probe s f args.
  Proof.
    unfold call_fn_probe, call_fn_indep, call_fn_with.
    destruct (all_strs args) as [ss|]; [|right; reflexivity].
    destruct (match assoc f (f_ufuns (e_fs s)) with Some u => run_ufun u ss | None => None end);
      [right; reflexivity|].
    destruct (find_gfun (f, length ss) (f_gfuns (e_fs s))) as [h|]; [|right; reflexivity].
    destruct ss as [|a [|b [|d [|x ss]]]]; try (right; reflexivity);
      unfold glink_probe; destruct (cross_call s f a b _); auto.
  Qed.

  Lemma probe_of_shared f args :
    call_fn_probe s f args = Some EPanic \/ call_fn (e_fs s) f args = call_fn_probe s f args.
  Proof.
    rewrite call_fn_shared. unfold call_fn_probe, call_fn_with.
    destruct (all_strs args) as [ss|]; [|right; reflexivity].
    destruct (match assoc f (f_ufuns (e_fs s)) with Some u => run_ufun u ss | None => None end);
      [right; reflexivity|].
    destruct (find_gfun (f, length ss) (f_gfuns (e_fs s))) as [h|] eqn:Hf; [|right; reflexivity].
    rewrite (all_cur_find _ _ _ Hcur Hf).
    destruct ss as [|a [|b [|d [|x ss]]]]; try (right; reflexivity);
      unfold glink_probe, glink_shared, glink_indep, cross_call; cbn [handle_has_link];
      rewrite shared_is_union;
      destruct (Bool.eqb _ _) eqn:E; cbn [negb]; auto;
      right; apply Bool.eqb_prop in E; rewrite E; reflexivity.
  Qed.

  (* THE PARTIAL INDEPENDENCE THEOREM: shared manager in sync with the stored
     rules, hierarchy shallow, no cross-talk call during the evaluation of
     this request: the decision is the per-definition decision *)
  Theorem independent_partial ptab rv :
    enforce_probe ptab s rv <> Panic -> enforce ptab s rv = enforce_indep ptab s rv.
  Proof.
    intros Hnp. rewrite <- enforce_with_model. unfold enforce_indep, enforce_probe in *.
    rewrite (enforce_with_upto _ _ ptab probe_of_shared s rv Hnp).
    symmetry. apply (enforce_with_upto _ _ ptab probe_of_indep s rv Hnp).
  Qed.
End Agreement.

(* ================= D. the boolean side conditions ================= *)

Lemma subsetb_peqb_incl (x y : links) : subsetb peqb x y = true <-> incl x y.
Proof.
  unfold subsetb. rewrite forallb_forall. split.
  - intros H e He. apply memb_peqb_In, H, He.
  - intros H e He. apply memb_peqb_In, H, He.
Qed.

Lemma seteqb_peqb_spec (x y : links) : seteqb peqb x y = true -> forall e, In e x <-> In e y.
Proof.
  unfold seteqb. rewrite andb_true_iff, !subsetb_peqb_incl. intros [H1 H2] e.
  split; [apply H1|apply H2].
Qed.

Lemma links_in_nil dk (l : tlinks) : ~ In dk (map fst l) -> links_in dk l = [].
Proof.
  unfold links_in. induction l as [|[k p] l IH]; cbn [map filter fst]; intros H; [reflexivity|].
  destruct (teqb k dk) eqn:E.
  - apply teqb_eq in E. subst. exfalso. apply H. left. reflexivity.
  - apply IH. intros Hin. apply H. right. exact Hin.
Qed.

Lemma flat_map_nil {A B} (f : A -> list B) l : (forall x, In x l -> f x = []) -> flat_map f l = [].
Proof.
  induction l as [|x l IH]; cbn [flat_map]; intros H; [reflexivity|].
  rewrite (H x (or_introl eq_refl)), IH; [reflexivity|]. intros y Hy. apply H. right. exact Hy.
Qed.

Theorem graph_in_sync_sound s : graph_in_sync s = true -> in_sync s.
Proof.
  intros H dk p. unfold graph_in_sync in H. rewrite forallb_forall in H.
  destruct (in_dec text_eq_dec dk (dkeys s)) as [Hin|Hnin].
  - apply seteqb_peqb_spec, H, Hin.
  - unfold dkeys in Hnin.
    assert (E1 : dom_edges (f_rm (e_fs s)) dk = []).
    { unfold dom_edges. destruct (assoc dk (f_rm (e_fs s))) eqn:E; [|reflexivity].
      exfalso. apply Hnin, in_or_app. left.
      apply assoc_In in E. apply (in_map fst) in E. exact E. }
    assert (E2 : union_links s dk = []).
    { unfold union_links. apply flat_map_nil. intros kl Hkl. apply links_in_nil.
      intros Hd. apply Hnin, in_or_app. right. apply in_flat_map. exists kl. auto. }
    rewrite E1, E2. reflexivity.
Qed.

(* a case the classifier does not flag agrees with the specification *)
Theorem independent_classified ptab s rv :
  wf (f_rm (e_fs s)) -> all_cur (e_fs s) = true -> shallow_state s = true ->
  known_shared_rm_case ptab s rv = false ->
  enforce ptab s rv = enforce_indep ptab s rv.
Proof.
  intros Hwf Hcur Hsh Hk. unfold known_shared_rm_case, crosstalk_case in Hk.
  apply orb_false_iff in Hk. destruct Hk as [Hs Hp]. apply negb_false_iff in Hs.
  apply independent_partial; try assumption.
  - apply graph_in_sync_sound, Hs.
  - intros E. rewrite E in Hp. discriminate.
Qed.

Lemma outcome_eqb_refl o : outcome_eqb o o = true.
Proof. destruct o as [[|]|[]|]; reflexivity. Qed.

Theorem c19_pred_model ptab s rv :
  wf (f_rm (e_fs s)) -> all_cur (e_fs s) = true -> shallow_state s = true ->
  known_shared_rm_case ptab s rv = false ->
  c19_pred ptab s rv (enforce ptab s rv) = true.
Proof.
  intros Hwf Hcur Hsh Hk. unfold c19_pred.
  rewrite (independent_classified ptab s rv Hwf Hcur Hsh Hk). apply outcome_eqb_refl.
Qed.

(* ================= E. refutation of the full statement ================= *)

(* g(r.sub, p.sub) && g2(r.obj, p.obj) && r.act == p.act *)
Definition m_two : expr :=
  EAnd (EAnd (ECall (T "g") [rsub; psub]) (ECall (T "g2") [robj; pobj])) (EEq ract pact).
Definition g_two : list (text * text) := [(T "g", T "_, _"); (T "g2", T "_, _")].
Definition two_s0 : estate := ex_start (ex_def s_allow_override p3 g_two m_two).

(* only a RESOURCE-role link (x, y) is stored; the request needs the USER-role
   test g(x, y): the code grants, the specification denies *)
Definition two_s1 : estate :=
  run_ops two_s0 [OAdd s_p s_p [T "y"; T "data"; T "read"]; OAdd s_g (T "g2") [T "x"; T "y"]].

Example shared_rm_refuted :
  snd (new_enforcer (ex_def s_allow_override p3 g_two m_two) ANull false) = Ok true /\
  per_def_links two_s1 (T "g") DEFAULT_DOMAIN = [] /\
  per_def_links two_s1 (T "g2") DEFAULT_DOMAIN = [(T "x", T "y")] /\
  enforce no_ptab two_s1 (req "x" "data" "read") = Ok true /\
  enforce_indep no_ptab two_s1 (req "x" "data" "read") = Ok false /\
  (* the state itself is unsuspicious; the request triggers the cross-talk *)
  Known_shared_rm two_s1 = false /\ graph_in_sync two_s1 = true /\
  crosstalk_case no_ptab two_s1 (req "x" "data" "read") = true.
Proof. vm_compute. repeat split; reflexivity. Qed.

(* the same link (a, b) under both definitions; removing it under g deletes the
   shared edge although g2 still stores it: the code now denies what the
   specification grants, and an explicit build_role_links changes the decision *)
Definition two_s2 : estate :=
  run_ops two_s0 [OAdd s_p s_p [T "u"; T "b"; T "read"];
                  OAdd s_g (T "g") [T "a"; T "b"]; OAdd s_g (T "g2") [T "a"; T "b"]].

Example shared_rm_remove_refuted :
  let '(s3, o) := step two_s2 (ORemove s_g (T "g") [T "a"; T "b"]) in
  let '(s4, o') := step s3 OBuildRoleLinks in
  o = Ok true /\ o' = Ok true /\
  Known_shared_rm two_s2 = true /\
  enforce no_ptab two_s2 (req "u" "a" "read") = Ok true /\
  per_def_links s3 (T "g2") DEFAULT_DOMAIN = [(T "a", T "b")] /\
  enforce no_ptab s3 (req "u" "a" "read") = Ok false /\
  enforce_indep no_ptab s3 (req "u" "a" "read") = Ok true /\
  graph_in_sync s3 = false /\ known_shared_rm_case no_ptab s3 (req "u" "a" "read") = true /\
  crosstalk_case no_ptab s3 (req "u" "a" "read") = false /\
  enforce no_ptab s4 (req "u" "a" "read") = Ok true /\
  graph_in_sync s4 = true.
Proof. vm_compute. repeat split; reflexivity. Qed.

(* the statement one would like to have *)
Definition c19_full_statement : Prop :=
  forall ptab (d : modeldef) (ops : list op) (rv : list value),
    let s := run_ops (fst (new_enforcer d ANull false)) ops in
    enforce ptab s rv = enforce_indep ptab s rv.

Theorem c19_full_statement_refuted : ~ c19_full_statement.
Proof.
  intros H.
  specialize (H no_ptab (ex_def s_allow_override p3 g_two m_two)
                [OAdd s_p s_p [T "y"; T "data"; T "read"]; OAdd s_g (T "g2") [T "x"; T "y"]]
                (req "x" "data" "read")).
  vm_compute in H. discriminate H.
Qed.

(* non-vacuity of the partial theorem: user roles and resource roles over
   disjoint names, all hypotheses hold, decisions agree and are not trivial *)
Definition two_s5 : estate :=
  run_ops two_s0 [OAdd s_p s_p [T "admin"; T "grp"; T "read"];
                  OAdd s_g (T "g") [T "alice"; T "admin"];
                  OAdd s_g (T "g2") [T "data1"; T "grp"]].
Definition two_reqs : list (list value) :=
  [req "alice" "data1" "read"; req "alice" "data2" "read"; req "bob" "data1" "read";
   req "admin" "grp" "read"; req "alice" "data1" "write"].

Lemma two_s5_wf : wf (f_rm (e_fs two_s5)).
Proof.
  assert (E : f_rm (e_fs two_s5) =
              lrun [LAdd (T "alice") (T "admin") None; LAdd (T "data1") (T "grp") None])
    by (vm_compute; reflexivity).
  rewrite E. apply wf_lrun.
Qed.

(* the remaining hypotheses are necessary too.  Shallowness: the specification
   is unbounded reachability, the code stops at the hierarchy limit (limit 2,
   chain a -> b -> c).  Current handles hold again after set_role_manager. *)
Definition two_s7 : estate :=
  run_ops two_s0 [OSetRoleManager 2; OAdd s_p s_p [T "c"; T "data"; T "read"];
                  OAdd s_g (T "g") [T "a"; T "b"]; OAdd s_g (T "g") [T "b"; T "c"]].
Example independent_needs_shallow :
  all_cur (e_fs two_s7) = true /\ graph_in_sync two_s7 = true /\
  crosstalk_case no_ptab two_s7 (req "a" "data" "read") = false /\
  shallow_state two_s7 = false /\
  enforce no_ptab two_s7 (req "a" "data" "read") = Ok false /\
  enforce_indep no_ptab two_s7 (req "a" "data" "read") = Ok true.
Proof. vm_compute. repeat split; reflexivity. Qed.

Example independent_partial_nonvacuous :
  all_cur (e_fs two_s5) = true /\ shallow_state two_s5 = true /\
  Known_shared_rm two_s5 = false /\
  map (known_shared_rm_case no_ptab two_s5) two_reqs = [false; false; false; false; false] /\
  map (enforce no_ptab two_s5) two_reqs = [Ok true; Ok false; Ok false; Ok true; Ok false] /\
  map (enforce_indep no_ptab two_s5) two_reqs = [Ok true; Ok false; Ok false; Ok true; Ok false].
Proof. vm_compute. repeat split; reflexivity. Qed.

(* ================= F. store-level independence (no hypothesis) ================= *)

Lemma m_add_policy_other md sec pt r sec' pt' :
  sec <> sec' \/ pt <> pt' ->
  get_ast (fst (m_add_policy md sec pt r)) sec' pt' = get_ast md sec' pt'.
Proof.
  intros Hne. unfold m_add_policy. destruct (get_ast md sec pt) as [a|]; [|reflexivity].
  destruct (rmem r (a_policy a)); cbn [fst]; [reflexivity|]. apply get_ast_set_other, Hne.
Qed.

Lemma m_add_policies_other md sec pt rs sec' pt' :
  sec <> sec' \/ pt <> pt' ->
  get_ast (fst (m_add_policies md sec pt rs)) sec' pt' = get_ast md sec' pt'.
Proof.
  intros Hne. unfold m_add_policies. destruct rs as [|r0 rs]; [reflexivity|].
  destruct (get_ast md sec pt) as [a|]; [|reflexivity].
  destruct (existsb _ _); cbn [fst]; [reflexivity|]. apply get_ast_set_other, Hne.
Qed.

Lemma m_remove_policy_other md sec pt r sec' pt' :
  sec <> sec' \/ pt <> pt' ->
  get_ast (fst (m_remove_policy md sec pt r)) sec' pt' = get_ast md sec' pt'.
Proof.
  intros Hne. unfold m_remove_policy. destruct (get_ast md sec pt) as [a|]; [|reflexivity].
  destruct (rmem r (a_policy a)); cbn [fst]; [|reflexivity]. apply get_ast_set_other, Hne.
Qed.

Lemma m_remove_policies_other md sec pt rs sec' pt' :
  sec <> sec' \/ pt <> pt' ->
  get_ast (fst (m_remove_policies md sec pt rs)) sec' pt' = get_ast md sec' pt'.
Proof.
  intros Hne. unfold m_remove_policies. destruct rs as [|r0 rs]; [reflexivity|].
  destruct (get_ast md sec pt) as [a|]; [|reflexivity].
  destruct (forallb _ _); cbn [fst]; [|reflexivity]. apply get_ast_set_other, Hne.
Qed.

Lemma m_remove_filtered_other md sec pt idx vals sec' pt' md' ch rem :
  sec <> sec' \/ pt <> pt' ->
  m_remove_filtered md sec pt idx vals = Some (md', ch, rem) ->
  get_ast md' sec' pt' = get_ast md sec' pt'.
Proof.
  intros Hne. unfold m_remove_filtered. destruct vals as [|v0 vals].
  { intros H. inversion H. reflexivity. }
  destruct (get_ast md sec pt) as [a|]; [|intros H; inversion H; reflexivity].
  destruct (select_filtered idx (v0 :: vals) (a_policy a)) as [[|q0 ql]|];
    intros H; inversion H; subst; [reflexivity|]. apply get_ast_set_other, Hne.
Qed.

Lemma incremental_links_other s pt ins rs sec' pt' :
  s_g <> sec' \/ pt <> pt' ->
  get_ast (e_model (fst (incremental_links s pt ins rs))) sec' pt' = get_ast (e_model s) sec' pt'.
Proof.
  intros Hne. unfold incremental_links. destruct (get_ast (e_model s) s_g pt) as [a|]; [|reflexivity].
  destruct (Nat.ltb _ 2); [reflexivity|].
  destruct (link_rules _ ins _ rs) as [m' [|e]]; cbn [fst upd_fs upd_model e_model]; [|reflexivity].
  apply get_ast_set_other, Hne.
Qed.

(* the incremental update touches handles only: the stored rules of EVERY
   definition are what they were *)
Lemma incremental_links_policy s pt ins rs sec' pt' :
  m_get_policy (e_model (fst (incremental_links s pt ins rs))) sec' pt' =
  m_get_policy (e_model s) sec' pt'.
Proof.
  unfold incremental_links. destruct (get_ast (e_model s) s_g pt) as [a|] eqn:Ha; [|reflexivity].
  destruct (Nat.ltb _ 2); [reflexivity|].
  destruct (link_rules _ ins _ rs) as [m' [|e]]; cbn [fst upd_fs upd_model e_model]; [|reflexivity].
  unfold m_get_policy.
  destruct (text_eq_dec s_g sec') as [<-|Hs].
  - destruct (text_eq_dec pt pt') as [<-|Hp].
    + rewrite (get_ast_set_same _ _ _ a _ Ha), Ha. reflexivity.
    + rewrite get_ast_set_other by (right; exact Hp). reflexivity.
  - rewrite get_ast_set_other by (left; exact Hs). reflexivity.
Qed.

Lemma after_change_other s sec pt ch ins rs sec' pt' :
  sec <> sec' \/ pt <> pt' ->
  get_ast (e_model (fst (after_change s sec pt ch ins rs))) sec' pt' = get_ast (e_model s) sec' pt'.
Proof.
  intros Hne. unfold after_change.
  destruct (teqb sec s_g) eqn:Es; cbn [negb orb]; [|reflexivity].
  destruct (negb (e_auto_build s) || negb ch); [reflexivity|].
  apply teqb_eq in Es. subst sec.
  destruct (incremental_links s pt ins rs) as [s' e] eqn:Hi. cbn [fst].
  replace s' with (fst (incremental_links s pt ins rs)) by (rewrite Hi; reflexivity).
  apply incremental_links_other, Hne.
Qed.

Definition op_target (o : op) : option (text * text) :=
  match o with
  | OAdd sec pt _ | OAddMany sec pt _ | ORemove sec pt _ | ORemoveMany sec pt _
  | ORemoveFiltered sec pt _ _ => Some (sec, pt)
  | _ => None
  end.

(* an edit addressed to one definition leaves every other definition's
   assertion (rules, text, tokens, handle) exactly as it was *)
Theorem store_independent s o sec pt sec' pt' :
  op_target o = Some (sec, pt) -> sec <> sec' \/ pt <> pt' ->
  get_ast (e_model (fst (step s o))) sec' pt' = get_ast (e_model s) sec' pt'.
Proof.
  intros Ht Hne.
  destruct o; cbn [op_target] in Ht; try discriminate; inversion Ht; subst; clear Ht; cbn [step].
  - unfold step_add.
    destruct (if e_auto_save s then _ else _) as [ad ares].
    destruct ares as [[|]|c|]; cbn [fst upd_adapter e_model]; try reflexivity.
    destruct (m_add_policy (e_model s) sec pt r) as [md added] eqn:Hm.
    rewrite after_change_other by exact Hne. rewrite emit_mgmt_model. cbn [upd_model e_model].
    replace md with (fst (m_add_policy (e_model s) sec pt r)) by (rewrite Hm; reflexivity).
    apply m_add_policy_other, Hne.
  - unfold step_add_many.
    destruct (if e_auto_save s then _ else _) as [ad ares].
    destruct ares as [[|]|c|]; cbn [fst upd_adapter e_model]; try reflexivity.
    destruct (m_add_policies (e_model s) sec pt rs) as [md added] eqn:Hm.
    rewrite after_change_other by exact Hne. rewrite emit_mgmt_model. cbn [upd_model e_model].
    replace md with (fst (m_add_policies (e_model s) sec pt rs)) by (rewrite Hm; reflexivity).
    apply m_add_policies_other, Hne.
  - unfold step_remove.
    destruct (if e_auto_save s then _ else _) as [ad ares].
    destruct ares as [[|]|c|]; cbn [fst upd_adapter e_model]; try reflexivity.
    destruct (m_remove_policy (e_model s) sec pt r) as [md removed] eqn:Hm.
    rewrite after_change_other by exact Hne. rewrite emit_mgmt_model. cbn [upd_model e_model].
    replace md with (fst (m_remove_policy (e_model s) sec pt r)) by (rewrite Hm; reflexivity).
    apply m_remove_policy_other, Hne.
  - unfold step_remove_many.
    destruct (if e_auto_save s then _ else _) as [ad ares].
    destruct ares as [[|]|c|]; cbn [fst upd_adapter e_model]; try reflexivity.
    destruct (m_remove_policies (e_model s) sec pt rs) as [md removed] eqn:Hm.
    rewrite after_change_other by exact Hne. rewrite emit_mgmt_model. cbn [upd_model e_model].
    replace md with (fst (m_remove_policies (e_model s) sec pt rs)) by (rewrite Hm; reflexivity).
    apply m_remove_policies_other, Hne.
  - unfold step_remove_filtered.
    destruct (if e_auto_save s then _ else _) as [ad ares].
    destruct ares as [[|]|c|]; cbn [fst upd_adapter e_model]; try reflexivity.
    destruct (m_remove_filtered (e_model s) sec pt idx vals) as [[[md removed] rem]|] eqn:Hm;
      [|reflexivity].
    pose proof (m_remove_filtered_other _ _ _ _ _ sec' pt' _ _ _ Hne Hm) as Hmd.
    destruct (teqb sec s_g) eqn:Es; cbn [negb orb].
    + destruct (negb (e_auto_build _)); cbn [fst].
      * rewrite emit_mgmt_model. exact Hmd.
      * apply teqb_eq in Es. subst sec.
        destruct (incremental_links _ pt false rem) as [s3 e] eqn:Hi. cbn [fst].
        replace s3 with (fst (incremental_links
                                (emit_mgmt (upd_model (upd_adapter s ad) md) removed
                                           (EvRemoveFiltered s_g pt rem)) pt false rem))
          by (rewrite Hi; reflexivity).
        rewrite incremental_links_other by exact Hne. rewrite emit_mgmt_model. exact Hmd.
    + cbn [fst]. rewrite emit_mgmt_model. exact Hmd.
Qed.

(* over a whole history of edits none of which addresses (sec', pt') *)
Theorem store_independent_run sec' pt' : forall ops s,
  Forall (fun o => exists sec pt, op_target o = Some (sec, pt) /\ (sec <> sec' \/ pt <> pt')) ops ->
  get_ast (e_model (run_ops s ops)) sec' pt' = get_ast (e_model s) sec' pt'.
Proof.
  unfold run_ops. induction ops as [|o ops IH]; intros s HF; cbn [fold_left]; [reflexivity|].
  inversion HF as [|o' ops' (sec & pt & Ht & Hne) Hrest]; subst.
  rewrite IH by exact Hrest. apply (store_independent s o sec pt sec' pt' Ht Hne).
Qed.

(* in particular the other definition's link set is intact: removing (a, b)
   under g leaves g2's (a, b) where it was, in the STORE *)
Corollary per_def_links_untouched s o sec pt key dk :
  op_target o = Some (sec, pt) -> sec <> s_g \/ pt <> key ->
  per_def_links (fst (step s o)) key dk = per_def_links s key dk.
Proof.
  intros Ht Hne. unfold per_def_links. rewrite (store_independent s o sec pt s_g key Ht Hne).
  reflexivity.
Qed.

Corollary policy_untouched s o sec pt sec' pt' :
  op_target o = Some (sec, pt) -> sec <> sec' \/ pt <> pt' ->
  m_get_policy (e_model (fst (step s o))) sec' pt' = m_get_policy (e_model s) sec' pt'.
Proof.
  intros Ht Hne. unfold m_get_policy. rewrite (store_independent s o sec pt sec' pt' Ht Hne).
  reflexivity.
Qed.

(* ================= G. what the state-level class buys ================= *)
(* With pairwise disjoint vocabularies (Known_shared_rm s = false) a cross-talk
   call gK(a, b) can only be one whose two arguments both belong to the
   vocabulary of ONE OTHER definition, which links them: the request (or a
   policy rule) passes, say, resource names to the user-role function. *)

Lemma links_in_In dk (l : tlinks) p : In p (links_in dk l) <-> In (dk, p) l.
Proof.
  unfold links_in. rewrite in_map_iff. split.
  - intros [[k q] [Hq Hin]]. apply filter_In in Hin. destruct Hin as [Hin Hk].
    cbn [fst snd] in *. apply teqb_eq in Hk. subst. exact Hin.
  - intros Hin. exists (dk, p). split; [reflexivity|]. apply filter_In. split; [exact Hin|].
    cbn [fst]. apply teqb_refl.
Qed.

Lemma links_in_vocab dk (l : tlinks) x y :
  In (x, y) (links_in dk l) -> In (dk, x) (vocab l) /\ In (dk, y) (vocab l).
Proof.
  intros H. apply links_in_In in H. unfold vocab.
  split; apply in_flat_map; exists (dk, (x, y)); (split; [exact H|]); cbn; auto.
Qed.

Lemma disjointb_spec v w x : disjointb v w = true -> In x v -> In x w -> False.
Proof.
  unfold disjointb. rewrite forallb_forall. intros H Hv Hw. specialize (H x Hv).
  apply negb_true_iff in H. apply memb_peqb_In in Hw. rewrite Hw in H. discriminate.
Qed.

Lemma disjointb_sym_false v w x : disjointb w v = true -> In x v -> In x w -> False.
Proof. intros H Hv Hw. exact (disjointb_spec w v x H Hw Hv). Qed.

Lemma pairwise_disjoint_entries (L : list (text * tlinks)) :
  pairwise_disjoint (map (fun kl => vocab (snd kl)) L) = true ->
  forall kl1 kl2 x, In kl1 L -> In kl2 L ->
    In x (vocab (snd kl1)) -> In x (vocab (snd kl2)) -> kl1 = kl2.
Proof.
  induction L as [|kl L IH]; cbn [map pairwise_disjoint]; intros H kl1 kl2 x H1 H2 Hx1 Hx2;
    [destruct H1|].
  apply andb_true_iff in H. destruct H as [Hhd Htl]. rewrite forallb_forall in Hhd.
  destruct H1 as [<-|H1], H2 as [<-|H2].
  - reflexivity.
  - exfalso. apply (disjointb_spec (vocab (snd kl)) (vocab (snd kl2)) x); auto.
    apply Hhd. apply (in_map (fun kl => vocab (snd kl))) in H2. exact H2.
  - exfalso. apply (disjointb_spec (vocab (snd kl)) (vocab (snd kl1)) x); auto.
    apply Hhd. apply (in_map (fun kl => vocab (snd kl))) in H1. exact H1.
  - apply (IH Htl kl1 kl2 x); assumption.
Qed.

Lemma nodupb_NoDup l : nodupb l = true -> NoDup l.
Proof.
  induction l as [|x l IH]; cbn [nodupb]; intros H; [constructor|].
  apply andb_true_iff in H. destruct H as [H1 H2]. constructor; [|apply IH, H2].
  apply negb_true_iff in H1. apply memb_not_In in H1. exact H1.
Qed.

Lemma reachable_incl (l l' : links) a b :
  incl l l' -> reachable l a b = true -> reachable l' a b = true.
Proof.
  intros Hi H. apply reachable_spec. apply reachable_spec in H.
  destruct H as [H|H]; [left; exact H|right].
  apply (clos_trans_impl (fun x y => In (x, y) l)); [|exact H]. intros x y. apply Hi.
Qed.

Section Disjoint.
  Variable s : estate.
  Hypothesis Hk : Known_shared_rm s = false.

  Let L := all_def_links s.

  Lemma known_false : NoDup (map fst L) /\
    forall kl1 kl2 x, In kl1 L -> In kl2 L ->
      In x (vocab (snd kl1)) -> In x (vocab (snd kl2)) -> kl1 = kl2.
  Proof.
    unfold Known_shared_rm in Hk. apply negb_false_iff, andb_true_iff in Hk.
    destruct Hk as [H1 H2]. split; [apply nodupb_NoDup, H1|].
    apply pairwise_disjoint_entries, H2.
  Qed.

  (* a path in the union of all definitions stays inside one definition *)
  Lemma union_path_one_def dk a b :
    clos_trans text (fun x y => In (x, y) (union_links s dk)) a b ->
    exists kl, In kl L /\ clos_trans text (fun x y => In (x, y) (links_in dk (snd kl))) a b.
  Proof.
    destruct known_false as [_ Hdis].
    induction 1 as [x y Hxy|x y z _ [kl1 [Hk1 H1]] _ [kl2 [Hk2 H2]]].
    - unfold union_links in Hxy. apply in_flat_map in Hxy. destruct Hxy as [kl [Hkl Hin]].
      exists kl. split; [exact Hkl|]. apply t_step. exact Hin.
    - assert (E : kl1 = kl2).
      { destruct (clos_trans_ends _ _ _ H1) as [_ [x' Hx']].
        destruct (clos_trans_ends _ _ _ H2) as [[z' Hz'] _].
        apply links_in_vocab in Hx'. apply links_in_vocab in Hz'.
        apply (Hdis kl1 kl2 (dk, y)); tauto. }
      subst kl2. exists kl1. split; [exact Hk1|].
      apply (t_trans _ _ x y z); assumption.
  Qed.

  Lemma per_def_of_entry kl dk :
    In kl L -> per_def_links s (fst kl) dk = links_in dk (snd kl).
  Proof.
    destruct known_false as [Hnd _]. intros Hkl. subst L. unfold all_def_links in *.
    unfold per_def_links, get_ast.
    destruct (assoc s_g (e_model s)) as [am|]; [|destruct Hkl].
    apply in_map_iff in Hkl. destruct Hkl as [[k a] [<- Hin]]. cbn [fst snd].
    rewrite map_map in Hnd. cbn [fst] in Hnd.
    rewrite (In_assoc k a am); [reflexivity| |exact Hin].
    erewrite map_ext; [exact Hnd|]. intros [k' a']. reflexivity.
  Qed.

  Lemma per_def_incl_union key dk : incl (per_def_links s key dk) (union_links s dk).
  Proof.
    unfold per_def_links, union_links, all_def_links, get_ast.
    destruct (assoc s_g (e_model s)) as [am|]; [|intros p []].
    destruct (assoc key am) as [a|] eqn:Ea; [|intros p []].
    intros p Hp. apply in_flat_map. exists (key, def_links a). split; [|exact Hp].
    apply assoc_In in Ea. apply in_map_iff. exists (key, a). split; [reflexivity|exact Ea].
  Qed.

  Theorem cross_call_needs_foreign_names key a b dk :
    cross_call s key a b dk = true ->
    a <> b /\
    exists kl, In kl (all_def_links s) /\ fst kl <> key /\
               reachable (links_in dk (snd kl)) a b = true /\
               In (dk, a) (vocab (snd kl)) /\ In (dk, b) (vocab (snd kl)).
  Proof.
    unfold cross_call. intros H. apply negb_true_iff in H.
    destruct (reachable (per_def_links s key dk) a b) eqn:Ep.
    { rewrite (reachable_incl _ _ a b (per_def_incl_union key dk) Ep) in H. discriminate. }
    destruct (reachable (union_links s dk) a b) eqn:Eu; [|discriminate]. clear H.
    assert (Hab : a <> b).
    { intros ->. unfold reachable in Ep. rewrite reach_within_refl in Ep. discriminate. }
    split; [exact Hab|].
    apply reachable_spec in Eu. destruct Eu as [Eu|Eu]; [contradiction|].
    destruct (union_path_one_def dk a b Eu) as [kl [Hkl Hp]].
    exists kl. split; [exact Hkl|].
    assert (Hr : reachable (links_in dk (snd kl)) a b = true) by (apply reachable_spec; right; exact Hp).
    split.
    - intros Ek. rewrite <- Ek, (per_def_of_entry kl dk Hkl), Hr in Ep. discriminate.
    - split; [exact Hr|].
      destruct (clos_trans_ends _ _ _ Hp) as [[y Hy] [x Hx]].
      apply links_in_vocab in Hy. apply links_in_vocab in Hx. tauto.
  Qed.
End Disjoint.

(* the state-level class is necessary for that characterisation: with a shared
   name (g: a->b, g2: b->c) transitivity crosses definitions, and g(a, c) is
   answered by no single definition *)
Definition two_s6 : estate :=
  run_ops two_s0 [OAdd s_g (T "g") [T "a"; T "b"]; OAdd s_g (T "g2") [T "b"; T "c"]].
Example shared_name_crosses :
  Known_shared_rm two_s6 = true /\
  cross_call two_s6 (T "g") (T "a") (T "c") DEFAULT_DOMAIN = true /\
  reachable (per_def_links two_s6 (T "g") DEFAULT_DOMAIN) (T "a") (T "c") = false /\
  reachable (per_def_links two_s6 (T "g2") DEFAULT_DOMAIN) (T "a") (T "c") = false /\
  has_link 10 (f_rm (e_fs two_s6)) (T "a") (T "c") None = true.
Proof. vm_compute. repeat split; reflexivity. Qed.

(* ================= H. right after build_role_links the manager is in sync ================= *)

Lemma dom_edges_add_link m a b d dk p :
  In p (dom_edges (add_link m a b d) dk) <->
  In p (dom_edges m dk) \/ (a <> b /\ dom_key d = dk /\ p = (a, b)).
Proof.
  change (dom_edges (add_link m a b d) dk) with (edges_of (add_link m a b d) (Some dk)).
  change (dom_edges m dk) with (edges_of m (Some dk)).
  destruct (text_eq_dec a b) as [->|Hab].
  - rewrite (agree_add_refl m b (Some dk) d _ (agree_self m (Some dk)) p).
    split; [auto|]. intros [H|[H _]]; [exact H|contradiction].
  - destruct (text_eq_dec (dom_key d) dk) as [Hk|Hk].
    + rewrite (agree_add_same m a b (Some dk) d _ Hk Hab (agree_self m (Some dk)) p).
      rewrite lset_add_In. split.
      * intros [H|H]; [right; auto|left; exact H].
      * intros [H|(_ & _ & H)]; [right; exact H|left; exact H].
    + rewrite (agree_add_other m a b (Some dk) d _ Hk (agree_self m (Some dk)) p).
      split; [auto|]. intros [H|(_ & H & _)]; [exact H|contradiction].
Qed.

Definition rule_links (cnt : nat) (rs : list rule) : tlinks :=
  flat_map (fun r => match def_link cnt r with Some x => [x] | None => [] end) rs.

Lemma links_in_app dk (l1 l2 : tlinks) : links_in dk (l1 ++ l2) = links_in dk l1 ++ links_in dk l2.
Proof. unfold links_in. rewrite filter_app, map_app. reflexivity. Qed.

Lemma link_rule_true_spec cnt m r m' :
  2 <= cnt -> link_rule cnt true m r = (m', LOk) ->
  forall dk p, In p (dom_edges m' dk) <->
               In p (dom_edges m dk) \/ In p (links_in dk (rule_links cnt [r])).
Proof.
  intros Hc. unfold rule_links. cbn [flat_map]. rewrite app_nil_r.
  unfold link_rule, def_link. destruct (Nat.ltb (length r) cnt); [intros H; discriminate H|].
  cbv zeta. destruct (Nat.leb 4 cnt); [intros H; discriminate H|].
  assert (E2 : Nat.ltb cnt 2 = false) by (apply Nat.ltb_ge; lia). rewrite E2. cbn [orb].
  intros Heq. inversion Heq; subst m'; clear Heq. intros dk p. rewrite dom_edges_add_link.
  set (a := nth 0 r []). set (b := nth 1 r []).
  set (d := if Nat.eqb cnt 2 then None else Some (nth 2 r [])).
  destruct (teqb a b) eqn:Eab.
  - apply teqb_eq in Eab. split.
    + intros [H|(Hne & _)]; [left; exact H|contradiction].
    + intros [H|[]]. left. exact H.
  - apply teqb_neq in Eab. rewrite links_in_In. cbn [In]. split.
    + intros [H|(_ & Hk & Hp)]; [left; exact H|right; left]. subst. reflexivity.
    + intros [H|[H|[]]]; [left; exact H|right]. inversion H; subst. auto.
Qed.

Lemma link_rules_true_spec cnt : 2 <= cnt -> forall rs m m',
  link_rules cnt true m rs = (m', LOk) ->
  forall dk p, In p (dom_edges m' dk) <->
               In p (dom_edges m dk) \/ In p (links_in dk (rule_links cnt rs)).
Proof.
  intros Hc. induction rs as [|r rs IH]; intros m m' H dk p; cbn [link_rules] in H.
  - inversion H; subst. cbn. tauto.
  - destruct (link_rule cnt true m r) as [m1 [|e]] eqn:E1; [|discriminate H].
    rewrite (IH m1 m' H dk p), (link_rule_true_spec cnt m r m1 Hc E1 dk p).
    assert (E : rule_links cnt (r :: rs) = rule_links cnt [r] ++ rule_links cnt rs).
    { unfold rule_links. cbn [flat_map]. rewrite app_nil_r. reflexivity. }
    rewrite E, links_in_app, in_app_iff. tauto.
Qed.

Definition am_links (am : amap) : list (text * tlinks) :=
  map (fun ka => (fst ka, def_links (snd ka))) am.

Lemma build_links_am_spec : forall am m am' m',
  build_links_am am m = (am', m', LOk) ->
  am_links am' = am_links am /\
  forall dk p, In p (dom_edges m' dk) <->
               In p (dom_edges m dk) \/
               In p (flat_map (fun kl => links_in dk (snd kl)) (am_links am)).
Proof.
  induction am as [|[k a] am IH]; intros m am' m' H; cbn [build_links_am] in H.
  - inversion H; subst. split; [reflexivity|]. intros dk p. cbn. tauto.
  - destruct (Nat.ltb (count_us (a_value a)) 2) eqn:E2; [discriminate H|].
    destruct (link_rules _ true m (a_policy a)) as [m1 [|e]] eqn:E1; [|discriminate H].
    destruct (build_links_am am m1) as [[am2 m2] e2] eqn:E3. inversion H; subst; clear H.
    destruct (IH m1 am2 m' E3) as [Ham Hed]. split.
    + cbn [am_links map fst snd]. f_equal. exact Ham.
    + intros dk p. rewrite Hed.
      apply Nat.ltb_ge in E2.
      rewrite (link_rules_true_spec _ E2 _ _ _ E1 dk p).
      cbn [am_links map flat_map snd]. rewrite in_app_iff. unfold def_links, rule_links. tauto.
Qed.

Theorem build_role_links_in_sync s s' : build_role_links s = (s', LOk) -> in_sync s'.
Proof.
  unfold build_role_links. destruct (assoc s_g (e_model s)) as [am|] eqn:Ea.
  - destruct (build_links_am am []) as [[am' m'] e] eqn:Hb. intros H. inversion H; subst; clear H.
    destruct (build_links_am_spec am [] am' m' Hb) as [Ham Hed].
    intros dk p. cbn [e_fs upd_fs set_rm f_rm]. rewrite Hed.
    unfold union_links, all_def_links. cbn [e_model upd_fs upd_model].
    rewrite assoc_set_same. fold (am_links am'). rewrite Ham. cbn. tauto.
  - intros H. inversion H; subst; clear H. intros dk p.
    unfold union_links, all_def_links. cbn [e_fs e_model upd_fs set_rm f_rm]. rewrite Ea.
    cbn. tauto.
Qed.

Corollary build_step_in_sync s s' : step s OBuildRoleLinks = (s', Ok true) -> in_sync s'.
Proof.
  cbn [step]. destruct (build_role_links s) as [s1 e] eqn:Hb.
  destruct e as [|c]; cbn [lerr_out]; intros H; inversion H; subst.
  apply (build_role_links_in_sync s s' Hb).
Qed.

(* the partial theorem for every state reached by ANY history followed by a
   successful build_role_links: only shallowness, current handles and the
   absence of a cross-talk call remain as conditions *)
Theorem independent_after_build ptab d ad w ops s' rv :
  step (run_ops (fst (new_enforcer d ad w)) ops) OBuildRoleLinks = (s', Ok true) ->
  all_cur (e_fs s') = true -> shallow_state s' = true ->
  crosstalk_case ptab s' rv = false ->
  enforce ptab s' rv = enforce_indep ptab s' rv.
Proof.
  intros Hstep Hcur Hsh Hct.
  apply independent_partial; try assumption.
  - replace s' with (fst (step (run_ops (fst (new_enforcer d ad w)) ops) OBuildRoleLinks))
      by (rewrite Hstep; reflexivity).
    apply step_wf, reachable_rm_wf.
  - apply (build_step_in_sync _ _ Hstep).
  - intros E. unfold crosstalk_case in Hct. rewrite E in Hct. discriminate.
Qed.
