(* Twins, over the TRANSLATED SOURCE, of the model-level definitions of Model/Engine.v that go through `enforce*` /
   `step` and occur in the statements of the engine-level properties: the query interface `ask` (its decision queries
   and get_implicit_users_for_permission call enforce) and `new_enforcer` (its initial load is the load_policy step).
   Same text over src_enforce* / src_step (Proofs/SrcStepP.v), each proved equal to the model's.
   Used by Proofs/C05SrcP.v, C07SrcP.v, C12SrcP.v, C18SrcP.v, ... *)
From CV Require Import Model.Base Model.Effector Model.RoleGraph Model.Expr Model.Enforce Model.Engine.
From CV Require Import Proofs.SrcStepP.
From CV Require Import Proofs.BaseP.

Section SrcQueries.
  Variable ptab : text -> option expr.

  (* rbac_api.rs get_implicit_users_for_permission, deciding through the translated private_enforce *)
  Definition src_implicit_users (s : estate) (perm : rule) : option (list text) :=
    match m_values (e_model s) s_p s_p 0, m_values (e_model s) s_g s_g 1 with
    | Some subjects, Some roles =>
      let cand := subjects ++ flat_map (fun r => get_users (f_rm (e_fs s)) r None) roles in
      let users := filter (fun u => negb (memb teqb u roles)) cand in
      if existsb (fun u => match src_enforce ptab s (map VStr (u :: perm)) with
                           | Panic => true | _ => false end) users
      then None
      else Some (dedup (filter (fun u => match src_enforce ptab s (map VStr (u :: perm)) with
                                         | Ok true => true | _ => false end) users) [])
    | _, _ => None
    end.

  Definition src_ask (s : estate) (q : query) : answer :=
    match q with
    | QEnforce rv => AnsDec (src_enforce ptab s rv)
    | QEnforceCtx k rv => AnsDec (src_enforce_with_ctx ptab s k rv)
    | QGetPolicy sec pt => AnsRules (m_get_policy (e_model s) sec pt)
    | QGetAll sec => AnsRules (m_get_all (e_model s) sec)
    | QHasPolicy sec pt r => AnsBool (m_has_policy (e_model s) sec pt r)
    | QGetFiltered sec pt idx vals =>
      match m_get_filtered (e_model s) sec pt idx vals with Some l => AnsRules l | None => AnsPanic end
    | QValues sec pt idx =>
      match m_values (e_model s) sec pt idx with Some l => AnsNames l | None => AnsPanic end
    | QRolesFor n d => AnsNameSet (roles_for_user s n d)
    | QUsersFor n d => AnsNameSet (users_for_role s n d)
    | QHasRole n r d => AnsBool (memb teqb r (roles_for_user s n d))
    | QImplicitRoles n d => AnsNameSet (implicit_roles s n d)
    | QPermsFor n d => match perms_for_user s n d with Some l => AnsRules l | None => AnsPanic end
    | QImplicitPerms n d => match implicit_perms s n d with Some l => AnsRuleBag l | None => AnsPanic end
    | QImplicitUsers p => match src_implicit_users s p with Some l => AnsNameSet l | None => AnsPanic end
    | QIsFiltered => AnsBool (ad_is_filtered (e_adapter s))
    | QHasLink a b d => AnsBool (has_link (f_rm_max (e_fs s)) (f_rm (e_fs s)) a b d)
    end.

  Lemma src_implicit_users_eq : forall s perm, src_implicit_users s perm = implicit_users ptab s perm.
  Proof.
    intros s perm. unfold src_implicit_users, implicit_users.
    destruct (m_values (e_model s) s_p s_p 0) as [subjects|]; [|reflexivity].
    destruct (m_values (e_model s) s_g s_g 1) as [roles|]; [|reflexivity].
    cbv zeta.
    rewrite (existsb_ext_pt
               (fun u => match src_enforce ptab s (map VStr (u :: perm)) with Panic => true | _ => false end)
               (fun u => match enforce ptab s (map VStr (u :: perm)) with Panic => true | _ => false end))
      by (intros u; cbv beta; rewrite src_enforce_eq; reflexivity).
    rewrite (filter_ext
               (fun u => match src_enforce ptab s (map VStr (u :: perm)) with Ok true => true | _ => false end)
               (fun u => match enforce ptab s (map VStr (u :: perm)) with Ok true => true | _ => false end))
      by (intros u; cbv beta; rewrite src_enforce_eq; reflexivity).
    reflexivity.
  Qed.

  Lemma src_ask_eq : forall s q, src_ask s q = ask ptab s q.
  Proof.
    intros s q. destruct q; cbn [src_ask ask]; try reflexivity.
    - rewrite src_enforce_eq. reflexivity.
    - rewrite src_enforce_with_ctx_eq. reflexivity.
    - rewrite src_implicit_users_eq. reflexivity.
  Qed.

  Lemma src_ask_map_eq : forall s qs, map (src_ask s) qs = map (ask ptab s) qs.
  Proof. intros s qs. apply map_ext. intros q. apply src_ask_eq. Qed.
End SrcQueries.

(* Enforcer::new: new_raw (registrations, defaults), then - unless the adapter is marked filtered - the translated
   load_policy *)
Definition src_new_enforcer (d : modeldef) (a : adapter) (watcher : bool) : estate * outcome bool :=
  match new_raw d a watcher with
  | (s, LErr e) => (s, Err e)
  | (s, LOk) => if ad_is_filtered (e_adapter s) then (s, Ok true) else src_step s OLoad
  end.

Lemma src_new_enforcer_eq : forall d a w, src_new_enforcer d a w = new_enforcer d a w.
Proof.
  intros d a w. unfold src_new_enforcer, new_enforcer.
  destruct (new_raw d a w) as [s [|e]]; [|reflexivity].
  rewrite src_step_eq. reflexivity.
Qed.
