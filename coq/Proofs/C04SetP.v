(* C04, part 1: list-level facts about the ordered-set specification, the
   model store accessors, and the model-level set operations m_* against the
   specification of Model/SpecC04.v. *)
From CV Require Import Model.Base Model.Enforce Model.Engine Model.SpecC04.
From CV Require Import Proofs.ListAux Proofs.BaseP.
From Coq Require Import Lia.

(* ================= A. lists ================= *)
Lemma filter_true_id : forall {A} (f : A -> bool) l,
  (forall x, In x l -> f x = true) -> filter f l = l.
Proof.
  intros A f l. induction l as [|x l IH]; intros H; cbn [filter]; [reflexivity|].
  rewrite (H x (or_introl eq_refl)). f_equal. apply IH. intros y Hy. apply H. right. exact Hy.
Qed.

Lemma filter_false_nil : forall {A} (f : A -> bool) l,
  (forall x, In x l -> f x = false) -> filter f l = [].
Proof.
  intros A f l. induction l as [|x l IH]; intros H; cbn [filter]; [reflexivity|].
  rewrite (H x (or_introl eq_refl)). apply IH. intros y Hy. apply H. right. exact Hy.
Qed.

Lemma filter_filter2 : forall {A} (f g : A -> bool) l,
  filter f (filter g l) = filter (fun x => g x && f x) l.
Proof.
  intros A f g l. induction l as [|x l IH]; cbn [filter]; [reflexivity|].
  destruct (g x); cbn [filter andb]; [destruct (f x)|]; rewrite IH; reflexivity.
Qed.

Lemma filter_length_le : forall {A} (f : A -> bool) l, length (filter f l) <= length l.
Proof.
  intros A f l. induction l as [|y l IH]; cbn [filter length]; [lia|].
  destruct (f y); cbn [length]; lia.
Qed.

Lemma filter_length_lt : forall {A} (f : A -> bool) l x,
  In x l -> f x = false -> length (filter f l) < length l.
Proof.
  intros A f l x. induction l as [|y l IH]; intros Hin Hf; [destruct Hin|].
  cbn [filter length]. destruct Hin as [->|Hin].
  - rewrite Hf. pose proof (filter_length_le f l). lia.
  - specialize (IH Hin Hf). destruct (f y); cbn [length]; lia.
Qed.

Lemma filter_neq_of_dropped : forall {A} (f : A -> bool) l x,
  In x l -> f x = false -> filter f l <> l.
Proof.
  intros A f l x Hin Hf E. pose proof (filter_length_lt f l x Hin Hf) as H.
  rewrite E in H. lia.
Qed.

Lemma app_neq_self : forall {A} (l t : list A), t <> [] -> l ++ t <> l.
Proof.
  intros A l t Ht E. apply Ht. apply (f_equal (@length A)) in E.
  rewrite app_length in E. destruct t; [reflexivity|cbn [length] in E; lia].
Qed.

(* ---- sp_mem ---- *)
Lemma sp_mem_In : forall r l, sp_mem r l = true <-> In r l.
Proof. exact memb_reqb_In. Qed.

Lemma sp_mem_not_In : forall r l, sp_mem r l = false <-> ~ In r l.
Proof.
  intros r l. split.
  - intros H Hin. apply sp_mem_In in Hin. rewrite Hin in H. discriminate.
  - intros H. destruct (sp_mem r l) eqn:E; [|reflexivity]. apply sp_mem_In in E. contradiction.
Qed.

Lemma rmem_sp_mem : forall r l, rmem r l = sp_mem r l.
Proof. reflexivity. Qed.

Lemma sp_mem_app : forall r l1 l2, sp_mem r (l1 ++ l2) = sp_mem r l1 || sp_mem r l2.
Proof. intros r l1 l2. unfold sp_mem. apply existsb_app. Qed.

Lemma reqb_sym : forall a b, reqb a b = reqb b a.
Proof.
  intros a b. destruct (reqb a b) eqn:E; symmetry.
  - apply reqb_eq in E. subst. apply reqb_refl.
  - apply reqb_neq. apply reqb_neq in E. auto.
Qed.

Lemma rremove_In : forall r l x, In x (rremove r l) <-> In x l /\ x <> r.
Proof.
  intros r l x. unfold rremove. rewrite filter_In. rewrite negb_true_iff, reqb_neq. reflexivity.
Qed.

Lemma rremove_absent : forall r l, ~ In r l -> rremove r l = l.
Proof.
  intros r l H. unfold rremove. apply filter_true_id. intros x Hx.
  apply negb_true_iff, reqb_neq. intros ->. contradiction.
Qed.

(* ---- first_occ ---- *)
Lemma first_occ_In : forall rs x, In x (first_occ rs) <-> In x rs.
Proof.
  induction rs as [|r rs IH]; intros x; cbn [first_occ In]; [reflexivity|].
  rewrite filter_In, IH, negb_true_iff, reqb_neq. split.
  - intros [H|[H _]]; auto.
  - intros [H|H]; [left; exact H|].
    destruct (list_eq_dec text_eq_dec x r) as [->|Hne]; [left; reflexivity|right; split; assumption].
Qed.

Lemma first_occ_NoDup : forall rs, NoDup (first_occ rs).
Proof.
  induction rs as [|r rs IH]; cbn [first_occ]; constructor.
  - rewrite filter_In, negb_true_iff, reqb_neq. intros [_ H]. apply H. reflexivity.
  - apply NoDup_filter, IH.
Qed.

Lemma first_occ_nonempty : forall rs, rs <> [] -> first_occ rs <> [].
Proof. intros [|r rs] H; [contradiction|]. cbn [first_occ]. discriminate. Qed.

(* a duplicate-free batch is taken as it is *)
Lemma first_occ_id : forall rs, NoDup rs -> first_occ rs = rs.
Proof.
  induction rs as [|r rs IH]; intros Hnd; cbn [first_occ]; [reflexivity|].
  inversion Hnd as [|r' rs' Hnin Hnd']; subst. rewrite (IH Hnd'). f_equal.
  apply filter_true_id. intros x Hx. apply negb_true_iff, reqb_neq. intros ->. contradiction.
Qed.

(* the model's batch insertion *)
Lemma fold_ins_new : forall rs l,
  fold_left ins_new rs l = l ++ filter (fun x => negb (sp_mem x l)) (first_occ rs).
Proof.
  induction rs as [|r rs IH]; intros l; cbn [fold_left first_occ filter].
  - rewrite app_nil_r. reflexivity.
  - unfold ins_new at 2. rewrite rmem_sp_mem. destruct (sp_mem r l) eqn:E; cbn [negb].
    + rewrite IH. f_equal. rewrite filter_filter2. apply filter_ext_in. intros x _.
      destruct (reqb x r) eqn:Ex; cbn [negb andb]; [|reflexivity].
      apply reqb_eq in Ex. subst. rewrite E. reflexivity.
    + rewrite IH. rewrite <- app_assoc. cbn [app]. do 2 f_equal.
      rewrite filter_filter2. apply filter_ext. intros x.
      rewrite sp_mem_app. cbn [sp_mem existsb]. rewrite orb_false_r, negb_orb.
      rewrite andb_comm. reflexivity.
Qed.

Lemma fold_ins_new_fresh : forall rs l,
  existsb (fun r => sp_mem r l) rs = false -> fold_left ins_new rs l = l ++ first_occ rs.
Proof.
  intros rs l H. rewrite fold_ins_new. f_equal. apply filter_true_id.
  intros x Hx. rewrite first_occ_In in Hx. apply negb_true_iff.
  destruct (sp_mem x l) eqn:E; [|reflexivity].
  assert (existsb (fun r => sp_mem r l) rs = true) as C
      by (apply existsb_exists; exists x; split; assumption).
  rewrite C in H. discriminate.
Qed.

(* the model's batch removal *)
Lemma fold_rremove : forall rs l,
  fold_left (fun l r => rremove r l) rs l = filter (fun x => negb (sp_mem x rs)) l.
Proof.
  induction rs as [|r rs IH]; intros l; cbn [fold_left].
  - symmetry. apply filter_true_id. reflexivity.
  - rewrite IH. unfold rremove. rewrite filter_filter2. apply filter_ext. intros x.
    cbn [sp_mem existsb]. rewrite negb_orb. reflexivity.
Qed.

(* ---- NoDup is kept by every specification operation ---- *)
Lemma sp_add_NoDup : forall l r, NoDup l -> NoDup (fst (sp_add l r)).
Proof.
  intros l r H. unfold sp_add. destruct (sp_mem r l) eqn:E; cbn [fst]; [exact H|].
  apply NoDup_snoc; [exact H|]. apply sp_mem_not_In, E.
Qed.

Lemma sp_add_many_NoDup : forall l rs, NoDup l -> NoDup (fst (sp_add_many l rs)).
Proof.
  intros l rs H. unfold sp_add_many. destruct rs as [|r0 rs0]; [exact H|].
  destruct (existsb (fun r => sp_mem r l) (r0 :: rs0)) eqn:E; cbn [fst]; [exact H|].
  apply NoDup_app_intro; [exact H|apply first_occ_NoDup|].
  intros x Hx Hx2. rewrite first_occ_In in Hx2.
  assert (existsb (fun r => sp_mem r l) (r0 :: rs0) = true) as C.
  { apply existsb_exists. exists x. split; [exact Hx2|]. apply sp_mem_In, Hx. }
  rewrite C in E. discriminate.
Qed.

Lemma sp_remove_NoDup : forall l r, NoDup l -> NoDup (fst (sp_remove l r)).
Proof. intros l r H. apply NoDup_filter, H. Qed.

Lemma sp_remove_many_NoDup : forall l rs, NoDup l -> NoDup (fst (sp_remove_many l rs)).
Proof.
  intros l rs H. unfold sp_remove_many. destruct rs as [|r0 rs0]; [exact H|].
  destruct (forallb _ _); cbn [fst]; [apply NoDup_filter, H|exact H].
Qed.

Lemma sp_remove_filtered_NoDup : forall l idx vals l' b rem,
  NoDup l -> sp_remove_filtered l idx vals = Some (l', b, rem) -> NoDup l'.
Proof.
  intros l idx vals l' b rem H. unfold sp_remove_filtered. destruct vals as [|v vs].
  - intros E. inversion E; subst. exact H.
  - destruct (existsb _ l); [discriminate|]. intros E. inversion E; subst. apply NoDup_filter, H.
Qed.

Lemma sp_apply_NoDup : forall b l l' flag rs,
  NoDup l -> sp_apply b l = Some (l', flag, rs) -> NoDup l'.
Proof.
  intros b l l' flag rs H. destruct b as [r|rs0|r|rs0|idx vals]; cbn [sp_apply].
  - intros E. inversion E as [[E1 E2]]. pose proof (sp_add_NoDup l r H) as P. rewrite E1 in P. exact P.
  - intros E. inversion E as [[E1 E2]]. pose proof (sp_add_many_NoDup l rs0 H) as P. rewrite E1 in P. exact P.
  - intros E. inversion E as [[E1 E2]]. subst l'. apply NoDup_filter, H.
  - intros E. inversion E as [[E1 E2]]. pose proof (sp_remove_many_NoDup l rs0 H) as P. rewrite E1 in P. exact P.
  - apply sp_remove_filtered_NoDup, H.
Qed.

(* ---- flag = change, on lists ---- *)
Lemma sp_apply_flag : forall b l l' flag rs,
  sp_apply b l = Some (l', flag, rs) -> (flag = true <-> l' <> l).
Proof.
  intros b l l' flag rs. destruct b as [r|rs0|r|rs0|idx vals]; cbn [sp_apply].
  - unfold sp_add. destruct (sp_mem r l) eqn:E; intros H; inversion H; subst.
    + split; [discriminate|intros C; contradiction].
    + split; [intros _|reflexivity]. apply app_neq_self. discriminate.
  - unfold sp_add_many. destruct rs0 as [|r0 rs0].
    + intros H; inversion H; subst. split; [discriminate|intros C; contradiction].
    + destruct (existsb _ _); intros H; inversion H; subst.
      * split; [discriminate|intros C; contradiction].
      * split; [intros _|reflexivity]. apply app_neq_self. cbn [first_occ]. discriminate.
  - unfold sp_remove. intros H; inversion H; subst. split.
    + intros E. apply sp_mem_In in E. apply (filter_neq_of_dropped _ l r E).
      rewrite reqb_refl. reflexivity.
    + intros Hne. destruct (sp_mem r l) eqn:E; [reflexivity|]. exfalso. apply Hne.
      apply filter_true_id. intros x Hx. apply negb_true_iff, reqb_neq. intros ->.
      apply sp_mem_not_In in E. contradiction.
  - unfold sp_remove_many. destruct rs0 as [|r0 rs0].
    + intros H; inversion H; subst. split; [discriminate|intros C; contradiction].
    + destruct (forallb _ _) eqn:E; intros H; inversion H; subst.
      * split; [intros _|reflexivity].
        rewrite forallb_forall in E. specialize (E r0 (or_introl eq_refl)).
        apply sp_mem_In in E. apply (filter_neq_of_dropped _ l r0 E).
        cbn [sp_mem existsb]. rewrite reqb_refl. reflexivity.
      * split; [discriminate|intros C; contradiction].
  - unfold sp_remove_filtered. destruct vals as [|v vs].
    + intros H; inversion H; subst. split; [discriminate|intros C; contradiction].
    + destruct (existsb (sp_oob idx (v :: vs)) l); [discriminate|].
      intros H; inversion H; subst. split.
      * intros E. apply existsb_exists in E. destruct E as [x [Hx Hh]].
        apply (filter_neq_of_dropped _ l x Hx). rewrite Hh. reflexivity.
      * intros Hne. destruct (existsb (sp_hit idx (v :: vs)) l) eqn:E; [reflexivity|].
        exfalso. apply Hne. apply filter_true_id. intros x Hx. apply negb_true_iff.
        destruct (sp_hit idx (v :: vs) x) eqn:Eh; [|reflexivity].
        assert (existsb (sp_hit idx (v :: vs)) l = true) as C
            by (apply existsb_exists; exists x; split; assumption).
        rewrite C in E. discriminate.
Qed.

(* ---- the field filter ---- *)
Lemma tl_skipn : forall {A} n (l : list A), tl (skipn n l) = skipn (S n) l.
Proof.
  intros A. induction n as [|n IH]; intros [|x l]; try reflexivity.
  cbn [skipn]. rewrite IH. destruct l; reflexivity.
Qed.

Lemma skipn_nth_error : forall {A} n (l : list A),
  skipn n l = match nth_error l n with Some x => x :: skipn (S n) l | None => [] end.
Proof.
  intros A. induction n as [|n IH]; intros [|x l]; try reflexivity.
  cbn [skipn nth_error]. rewrite IH. destruct (nth_error l n); reflexivity.
Qed.

(* the model's filter walk (tail-based) is the index-based specification *)
Lemma fmatch_sp_match : forall vals idx r, fmatch vals (skipn idx r) = sp_match idx vals r.
Proof.
  induction vals as [|v vs IH]; intros idx r; cbn [fmatch sp_match]; [reflexivity|].
  destruct (teqb v []).
  - rewrite tl_skipn. apply IH.
  - rewrite skipn_nth_error. destruct (nth_error r idx) as [f|]; [|reflexivity].
    destruct (teqb f v); [apply IH|reflexivity].
Qed.

(* declarative reading of the three outcomes *)
Definition fits (idx : nat) (vals : list text) (r : rule) (n : nat) : Prop :=
  forall i v, i < n -> nth_error vals i = Some v -> v <> [] -> nth_error r (idx + i) = Some v.

Lemma sp_match_true : forall vals idx r,
  sp_match idx vals r = Some true <->
  (forall i v, nth_error vals i = Some v -> v <> [] -> nth_error r (idx + i) = Some v).
Proof.
  induction vals as [|v vs IH]; intros idx r; cbn [sp_match].
  - split; [|reflexivity]. intros _ [|i] w H; discriminate.
  - assert (Hshift : (forall i w, nth_error vs i = Some w -> w <> [] -> nth_error r (S idx + i) = Some w)
                     <-> (forall i w, nth_error (v :: vs) (S i) = Some w -> w <> [] ->
                                      nth_error r (idx + S i) = Some w)).
    { split; intros H i w H1 H2; specialize (H i w H1 H2);
        replace (idx + S i) with (S idx + i) in * by lia; exact H. }
    destruct (teqb v []) eqn:Ev.
    + apply teqb_eq in Ev. subst v. rewrite IH, Hshift. split.
      * intros H [|i] w H1 H2; [inversion H1; subst; contradiction|apply H; assumption].
      * intros H i w H1 H2. apply H; assumption.
    + apply teqb_neq in Ev. destruct (nth_error r idx) as [f|] eqn:En.
      * destruct (teqb f v) eqn:Ef.
        -- apply teqb_eq in Ef. subst f. rewrite IH, Hshift. split.
           ++ intros H [|i] w H1 H2; [|apply H; assumption].
              inversion H1; subst. rewrite Nat.add_0_r. exact En.
           ++ intros H i w H1 H2. apply H; assumption.
        -- apply teqb_neq in Ef. split; [discriminate|]. intros H. exfalso.
           specialize (H 0 v eq_refl Ev). rewrite Nat.add_0_r, En in H. inversion H. contradiction.
      * split; [discriminate|]. intros H. exfalso.
        specialize (H 0 v eq_refl Ev). rewrite Nat.add_0_r, En in H. discriminate.
Qed.

(* out of range: the first position that is neither a wildcard nor equal lies
   beyond the end of the rule *)
Lemma sp_match_oob : forall vals idx r,
  sp_match idx vals r = None <->
  (exists i v, nth_error vals i = Some v /\ v <> [] /\ nth_error r (idx + i) = None /\
               fits idx vals r i).
Proof.
  induction vals as [|v vs IH]; intros idx r; cbn [sp_match].
  - split; [discriminate|]. intros [[|i] [w [H _]]]; discriminate.
  - assert (Hshift : (exists i w, nth_error vs i = Some w /\ w <> [] /\ nth_error r (S idx + i) = None /\
                                  fits (S idx) vs r i)
                     <-> (exists i w, nth_error (v :: vs) (S i) = Some w /\ w <> [] /\
                                      nth_error r (idx + S i) = None /\
                                      (forall j u, j < i -> nth_error vs j = Some u -> u <> [] ->
                                                   nth_error r (idx + S j) = Some u))).
    { split; intros [i [w [H1 [H2 [H3 H4]]]]]; exists i, w; cbn [nth_error] in *;
        replace (idx + S i) with (S idx + i) in * by lia; repeat split; try assumption.
      - intros j u Hj Hu Hne. replace (idx + S j) with (S idx + j) by lia. apply (H4 j u); assumption.
      - intros j u Hj Hu Hne. replace (S idx + j) with (idx + S j) by lia. apply (H4 j u); assumption. }
    destruct (teqb v []) eqn:Ev.
    + apply teqb_eq in Ev. subst v. rewrite IH, Hshift. split.
      * intros [i [w [H1 [H2 [H3 H4]]]]]. exists (S i), w. repeat split; try assumption.
        intros [|j] u Hj Hu Hne; [inversion Hu; subst; contradiction|].
        apply H4; [lia|exact Hu|exact Hne].
      * intros [[|i] [w [H1 [H2 [H3 H4]]]]]; [inversion H1; subst; contradiction|].
        exists i, w. repeat split; try assumption.
        intros j u Hj Hu Hne. apply (H4 (S j) u); [lia|exact Hu|exact Hne].
    + apply teqb_neq in Ev. destruct (nth_error r idx) as [f|] eqn:En.
      * destruct (teqb f v) eqn:Ef.
        -- apply teqb_eq in Ef. subst f. rewrite IH, Hshift. split.
           ++ intros [i [w [H1 [H2 [H3 H4]]]]]. exists (S i), w. repeat split; try assumption.
              intros [|j] u Hj Hu Hne.
              ** inversion Hu; subst. rewrite Nat.add_0_r. exact En.
              ** apply H4; [lia|exact Hu|exact Hne].
           ++ intros [[|i] [w [H1 [H2 [H3 H4]]]]].
              ** rewrite Nat.add_0_r, En in H3. discriminate.
              ** exists i, w. repeat split; try assumption.
                 intros j u Hj Hu Hne. apply (H4 (S j) u); [lia|exact Hu|exact Hne].
        -- apply teqb_neq in Ef. split; [discriminate|].
           intros [[|i] [w [H1 [H2 [H3 H4]]]]].
           ++ rewrite Nat.add_0_r, En in H3. discriminate.
           ++ exfalso. specialize (H4 0 v ltac:(lia) eq_refl Ev).
              rewrite Nat.add_0_r, En in H4. inversion H4. contradiction.
      * split; [intros _|reflexivity]. exists 0, v. repeat split; try assumption.
        -- rewrite Nat.add_0_r. exact En.
        -- intros j u Hj. lia.
Qed.

Lemma select_filtered_spec : forall idx vals l, select_filtered idx vals l = sp_select idx vals l.
Proof.
  intros idx vals. unfold sp_select. induction l as [|r l IH]; cbn [select_filtered existsb filter].
  - reflexivity.
  - rewrite fmatch_sp_match, IH. unfold sp_oob, sp_hit.
    destruct (sp_match idx vals r) as [[|]|]; cbn [orb]; try reflexivity;
      destruct (existsb _ l); reflexivity.
Qed.

Lemma sp_select_In : forall idx vals l rem x,
  sp_select idx vals l = Some rem -> (In x rem <-> In x l /\ sp_hit idx vals x = true).
Proof.
  intros idx vals l rem x. unfold sp_select. destruct (existsb _ l); [discriminate|].
  intros H. inversion H; subst. apply filter_In.
Qed.

(* ---- distinct values: ordered by last occurrence ---- *)
Lemma tset_insert_eq : forall l x,
  tset_insert l x = filter (fun y => negb (teqb y x)) l ++ [x].
Proof.
  intros l x. unfold tset_insert. destruct (memb teqb x l) eqn:E; [reflexivity|].
  f_equal. symmetry. apply filter_true_id. intros y Hy. apply negb_true_iff, teqb_neq.
  intros ->. apply memb_not_In in E. contradiction.
Qed.

Lemma fold_tset_insert : forall l acc,
  fold_left tset_insert l acc = filter (fun y => negb (memb teqb y l)) acc ++ last_occ l.
Proof.
  induction l as [|x l IH]; intros acc; cbn [fold_left last_occ].
  - rewrite app_nil_r. symmetry. apply filter_true_id. reflexivity.
  - rewrite IH, tset_insert_eq, filter_app, filter_filter2, <- app_assoc. f_equal.
    + apply filter_ext. intros y. cbn [memb existsb]. rewrite negb_orb.
      rewrite (teqb_sym y x). reflexivity.
    + cbn [filter]. destruct (memb teqb x l); reflexivity.
Qed.

Lemma distinct_last_spec : forall l, distinct_last l = last_occ l.
Proof. intros l. unfold distinct_last. rewrite fold_tset_insert. reflexivity. Qed.

Lemma last_occ_In : forall l x, In x (last_occ l) <-> In x l.
Proof.
  induction l as [|y l IH]; intros x; cbn [last_occ]; [reflexivity|].
  destruct (memb teqb y l) eqn:E; cbn [In]; rewrite IH; [|reflexivity].
  apply memb_In in E. split; [auto|]. intros [->|H]; assumption.
Qed.

Lemma last_occ_NoDup : forall l, NoDup (last_occ l).
Proof.
  induction l as [|y l IH]; cbn [last_occ]; [constructor|].
  destruct (memb teqb y l) eqn:E; [exact IH|]. constructor; [|exact IH].
  rewrite last_occ_In. apply memb_not_In, E.
Qed.

(* it is the standard library's `nodup`, which keeps last occurrences *)
Lemma last_occ_nodup : forall l, last_occ l = nodup text_eq_dec l.
Proof.
  induction l as [|y l IH]; cbn [last_occ nodup]; [reflexivity|].
  destruct (in_dec text_eq_dec y l) as [Hin|Hnin].
  - apply memb_In in Hin. rewrite Hin. exact IH.
  - apply memb_not_In in Hnin. rewrite Hnin, IH. reflexivity.
Qed.

(* ---- boolean duplicate check ---- *)
Lemma nodupb_NoDup : forall {A} (eqb : A -> A -> bool),
  (forall x y, eqb x y = true <-> x = y) ->
  forall l, nodupb eqb l = true <-> NoDup l.
Proof.
  intros A eqb Heq. induction l as [|x l IH]; cbn [nodupb].
  - split; [constructor|reflexivity].
  - rewrite andb_true_iff, negb_true_iff, IH. split.
    + intros [H1 H2]. constructor; [|exact H2]. intros Hin.
      apply (memb_In_gen eqb Heq) in Hin. rewrite Hin in H1. discriminate.
    + intros H. inversion H as [|y l' Hnin Hnd]; subst. split; [|exact Hnd].
      destruct (memb eqb x l) eqn:E; [|reflexivity]. apply (memb_In_gen eqb Heq) in E. contradiction.
Qed.

(* ================= B. the store ================= *)
Lemma assoc_set_id : forall {A} k (v : A) l, assoc k l = Some v -> assoc_set k v l = l.
Proof.
  intros A k v l. induction l as [|[k' v'] l IH]; cbn [assoc assoc_set]; intros H; [discriminate|].
  destruct (teqb k k').
  - inversion H; subst. reflexivity.
  - f_equal. apply IH, H.
Qed.

Lemma assoc_some_In : forall {A} k (v : A) l, assoc k l = Some v -> exists k', In (k', v) l.
Proof.
  intros A k v l. induction l as [|[k' v'] l IH]; cbn [assoc]; intros H; [discriminate|].
  destruct (teqb k k').
  - inversion H; subst. exists k'. left. reflexivity.
  - destruct (IH H) as [k2 H2]. exists k2. right. exact H2.
Qed.

Lemma assoc_map_snd : forall {A B} (f : A -> B) k (l : list (text * A)),
  assoc k (map (fun ka => (fst ka, f (snd ka))) l) = option_map f (assoc k l).
Proof.
  intros A B f k l. induction l as [|[k' v'] l IH]; cbn [map assoc fst snd]; [reflexivity|].
  destruct (teqb k k'); [reflexivity|exact IH].
Qed.

Lemma map_assoc_set_same : forall {A B} (g : text * A -> B) k v v0 l,
  assoc k l = Some v0 -> (forall k', g (k', v) = g (k', v0)) -> map g (assoc_set k v l) = map g l.
Proof.
  intros A B g k v v0 l. induction l as [|[k' v'] l IH]; cbn [assoc assoc_set map]; intros H Hg;
    [discriminate|].
  destruct (teqb k k'); cbn [map].
  - inversion H; subst. rewrite Hg. reflexivity.
  - f_equal. apply IH; assumption.
Qed.

Lemma with_policy_id : forall a, with_policy a (a_policy a) = a.
Proof. intros [v t p h]. reflexivity. Qed.

Lemma get_set_ast : forall md sec k a0 a' sec' k',
  get_ast md sec k = Some a0 ->
  get_ast (set_ast md sec k a') sec' k' =
  if teqb sec' sec && teqb k' k then Some a' else get_ast md sec' k'.
Proof.
  intros md sec k a0 a' sec' k' H. unfold get_ast, set_ast in *.
  destruct (assoc sec md) as [am|] eqn:Es; [|discriminate].
  destruct (teqb sec' sec) eqn:E1; cbn [andb].
  - apply teqb_eq in E1. subst sec'. rewrite assoc_set_same, Es.
    destruct (teqb k' k) eqn:E2.
    + apply teqb_eq in E2. subst. apply assoc_set_same.
    + apply assoc_set_other. apply teqb_neq in E2. auto.
  - rewrite assoc_set_other; [reflexivity|]. apply teqb_neq in E1. auto.
Qed.

(* replace the stored list of (sec, pt); nothing happens for an unknown type *)
Definition set_policy (md : model) (sec pt : text) (l : list rule) : model :=
  match get_ast md sec pt with
  | Some a => set_ast md sec pt (with_policy a l)
  | None => md
  end.

Lemma get_set_policy : forall md sec pt l sec' pt',
  get_ast (set_policy md sec pt l) sec' pt' =
  if teqb sec' sec && teqb pt' pt
  then option_map (fun a => with_policy a l) (get_ast md sec' pt')
  else get_ast md sec' pt'.
Proof.
  intros md sec pt l sec' pt'. unfold set_policy.
  destruct (get_ast md sec pt) as [a|] eqn:E.
  - rewrite (get_set_ast md sec pt a _ sec' pt' E).
    destruct (teqb sec' sec && teqb pt' pt) eqn:Eb; [|reflexivity].
    apply andb_true_iff in Eb. destruct Eb as [E1 E2]. apply teqb_eq in E1, E2. subst.
    rewrite E. reflexivity.
  - destruct (teqb sec' sec && teqb pt' pt) eqn:Eb; [|reflexivity].
    apply andb_true_iff in Eb. destruct Eb as [E1 E2]. apply teqb_eq in E1, E2. subst.
    rewrite E. reflexivity.
Qed.

Lemma set_policy_id : forall md sec pt a,
  get_ast md sec pt = Some a -> set_policy md sec pt (a_policy a) = md.
Proof.
  intros md sec pt a H. unfold set_policy. rewrite H, with_policy_id.
  unfold set_ast, get_ast in *. destruct (assoc sec md) as [am|] eqn:Es; [|reflexivity].
  rewrite (assoc_set_id pt a am H). apply assoc_set_id, Es.
Qed.

Lemma pol_set_policy_same : forall md sec pt l,
  get_ast md sec pt <> None -> m_get_policy (set_policy md sec pt l) sec pt = l.
Proof.
  intros md sec pt l H. unfold m_get_policy. rewrite get_set_policy, !teqb_refl. cbn [andb].
  destruct (get_ast md sec pt); [reflexivity|contradiction].
Qed.

Lemma pol_set_policy_other : forall md sec pt l sec' pt',
  (sec', pt') <> (sec, pt) ->
  m_get_policy (set_policy md sec pt l) sec' pt' = m_get_policy md sec' pt'.
Proof.
  intros md sec pt l sec' pt' H. unfold m_get_policy. rewrite get_set_policy.
  destruct (teqb sec' sec && teqb pt' pt) eqn:Eb; [|reflexivity].
  apply andb_true_iff in Eb. destruct Eb as [E1 E2]. apply teqb_eq in E1, E2. subst. contradiction.
Qed.

(* ---- what a model is apart from its rules / apart from its handles ---- *)
Definition map_ast (f : assertion -> assertion) (md : model) : model :=
  map (fun sa => (fst sa, map (fun ka => (fst ka, f (snd ka))) (snd sa))) md.
(* the definitions: sections, keys, values, tokens, handles -- no rules *)
Definition skeleton (md : model) : model := map_ast (fun a => with_policy a []) md.
(* everything but the role-manager handles *)
Definition erase_h (md : model) : model := map_ast (fun a => with_handle a HOwn) md.
Definition eqh (md md' : model) : Prop := erase_h md = erase_h md'.

Lemma assoc_map_ast : forall f md sec,
  assoc sec (map_ast f md) =
  option_map (fun am => map (fun ka => (fst ka, f (snd ka))) am) (assoc sec md).
Proof.
  intros f md sec. unfold map_ast. induction md as [|[s am] md IH]; cbn [map assoc fst snd]; [reflexivity|].
  destruct (teqb sec s); [reflexivity|exact IH].
Qed.

Lemma get_map_ast : forall f md sec k,
  get_ast (map_ast f md) sec k = option_map f (get_ast md sec k).
Proof.
  intros f md sec k. unfold get_ast. rewrite assoc_map_ast.
  destruct (assoc sec md) as [am|]; cbn [option_map]; [|reflexivity].
  apply assoc_map_snd.
Qed.

Lemma map_ast_set_ast : forall f md sec k a0 a',
  get_ast md sec k = Some a0 -> f a' = f a0 -> map_ast f (set_ast md sec k a') = map_ast f md.
Proof.
  intros f md sec k a0 a' H Hf. unfold get_ast, set_ast, map_ast in *.
  destruct (assoc sec md) as [am|] eqn:Es; [|reflexivity].
  apply (map_assoc_set_same _ sec _ am md Es). intros k'. cbn [fst snd]. f_equal.
  apply (map_assoc_set_same _ k _ a0 am H). intros k2. cbn [fst snd]. rewrite Hf. reflexivity.
Qed.

Lemma skeleton_set_policy : forall md sec pt l, skeleton (set_policy md sec pt l) = skeleton md.
Proof.
  intros md sec pt l. unfold set_policy. destruct (get_ast md sec pt) as [a|] eqn:E; [|reflexivity].
  apply (map_ast_set_ast _ md sec pt a _ E). reflexivity.
Qed.

Lemma eqh_refl : forall md, eqh md md.
Proof. reflexivity. Qed.
Lemma eqh_sym : forall a b, eqh a b -> eqh b a.
Proof. unfold eqh. intros a b H. symmetry. exact H. Qed.
Lemma eqh_trans : forall a b c, eqh a b -> eqh b c -> eqh a c.
Proof. unfold eqh. intros a b c H1 H2. rewrite H1. exact H2. Qed.

Lemma eqh_set_handle : forall md sec k a h,
  get_ast md sec k = Some a -> eqh (set_ast md sec k (with_handle a h)) md.
Proof. intros md sec k a h H. apply (map_ast_set_ast _ md sec k a _ H). reflexivity. Qed.

Lemma eqh_get : forall md md' sec k, eqh md md' ->
  option_map (fun a => with_handle a HOwn) (get_ast md sec k) =
  option_map (fun a => with_handle a HOwn) (get_ast md' sec k).
Proof.
  intros md md' sec k H. rewrite <- !get_map_ast. fold (erase_h md). fold (erase_h md').
  rewrite H. reflexivity.
Qed.

Lemma eqh_get_fields : forall md md' sec k, eqh md md' ->
  match get_ast md sec k, get_ast md' sec k with
  | Some a, Some a' => a_value a = a_value a' /\ a_tokens a = a_tokens a' /\ a_policy a = a_policy a'
  | None, None => True
  | _, _ => False
  end.
Proof.
  intros md md' sec k H. pose proof (eqh_get md md' sec k H) as E.
  destruct (get_ast md sec k) as [[v t p h]|], (get_ast md' sec k) as [[v' t' p' h']|];
    cbn in E; try discriminate; [|exact I].
  inversion E. auto.
Qed.

Lemma eqh_pol : forall md md' sec pt, eqh md md' -> m_get_policy md sec pt = m_get_policy md' sec pt.
Proof.
  intros md md' sec pt H. unfold m_get_policy. pose proof (eqh_get_fields md md' sec pt H) as E.
  destruct (get_ast md sec pt), (get_ast md' sec pt); try contradiction; [|reflexivity].
  apply E.
Qed.

Lemma eqh_skeleton_h : forall md md', eqh md md' ->
  map_ast (fun a => with_handle (with_policy a []) HOwn) md =
  map_ast (fun a => with_handle (with_policy a []) HOwn) md'.
Proof.
  intros md md' H.
  assert (G : forall m, map_ast (fun a => with_handle (with_policy a []) HOwn) m =
                        map_ast (fun a => with_policy a []) (erase_h m)).
  { intros m. unfold erase_h, map_ast. rewrite map_map. apply map_ext. intros [s am].
    cbn [fst snd]. f_equal. rewrite map_map. apply map_ext. intros [k a]. reflexivity. }
  rewrite !G, H. reflexivity.
Qed.

(* ================= C. the model-level operations ================= *)
Definition m_apply (md : model) (sec pt : text) (b : bop) : option (model * bool * list rule) :=
  match b with
  | BAdd r => let (md', f) := m_add_policy md sec pt r in Some (md', f, [r])
  | BAddMany rs => let (md', f) := m_add_policies md sec pt rs in Some (md', f, rs)
  | BRemove r => let (md', f) := m_remove_policy md sec pt r in Some (md', f, [r])
  | BRemoveMany rs => let (md', f) := m_remove_policies md sec pt rs in Some (md', f, rs)
  | BFiltered idx vals => m_remove_filtered md sec pt idx vals
  end.

Definition bop_payload (b : bop) : list rule :=
  match b with
  | BAdd r | BRemove r => [r]
  | BAddMany rs | BRemoveMany rs => rs
  | BFiltered _ _ => []
  end.

Lemma m_add_policy_spec : forall md sec pt r a, get_ast md sec pt = Some a ->
  m_add_policy md sec pt r =
  (set_policy md sec pt (fst (sp_add (a_policy a) r)), snd (sp_add (a_policy a) r)).
Proof.
  intros md sec pt r a H. unfold m_add_policy, sp_add. rewrite H, rmem_sp_mem.
  destruct (sp_mem r (a_policy a)); cbn [fst snd].
  - rewrite (set_policy_id md sec pt a H). reflexivity.
  - unfold set_policy. rewrite H. reflexivity.
Qed.

Lemma m_add_policies_spec : forall md sec pt rs a, get_ast md sec pt = Some a ->
  m_add_policies md sec pt rs =
  (set_policy md sec pt (fst (sp_add_many (a_policy a) rs)), snd (sp_add_many (a_policy a) rs)).
Proof.
  intros md sec pt rs a H. unfold m_add_policies, sp_add_many. destruct rs as [|r0 rs0]; cbn [fst snd].
  - rewrite (set_policy_id md sec pt a H). reflexivity.
  - rewrite H. change (fun r => rmem r (a_policy a)) with (fun r => sp_mem r (a_policy a)).
    destruct (existsb (fun r => sp_mem r (a_policy a)) (r0 :: rs0)) eqn:E; cbn [fst snd].
    + rewrite (set_policy_id md sec pt a H). reflexivity.
    + rewrite (fold_ins_new_fresh _ _ E). unfold set_policy. rewrite H. reflexivity.
Qed.

Lemma m_remove_policy_spec : forall md sec pt r a, get_ast md sec pt = Some a ->
  m_remove_policy md sec pt r =
  (set_policy md sec pt (fst (sp_remove (a_policy a) r)), snd (sp_remove (a_policy a) r)).
Proof.
  intros md sec pt r a H. unfold m_remove_policy, sp_remove. rewrite H, rmem_sp_mem. cbn [fst snd].
  destruct (sp_mem r (a_policy a)) eqn:E.
  - unfold set_policy. rewrite H. reflexivity.
  - apply sp_mem_not_In in E. fold (rremove r (a_policy a)). rewrite (rremove_absent _ _ E).
    rewrite (set_policy_id md sec pt a H). reflexivity.
Qed.

Lemma m_remove_policies_spec : forall md sec pt rs a, get_ast md sec pt = Some a ->
  m_remove_policies md sec pt rs =
  (set_policy md sec pt (fst (sp_remove_many (a_policy a) rs)), snd (sp_remove_many (a_policy a) rs)).
Proof.
  intros md sec pt rs a H. unfold m_remove_policies, sp_remove_many.
  destruct rs as [|r0 rs0]; cbn [fst snd].
  - rewrite (set_policy_id md sec pt a H). reflexivity.
  - rewrite H. change (fun r => rmem r (a_policy a)) with (fun r => sp_mem r (a_policy a)).
    destruct (forallb (fun r => sp_mem r (a_policy a)) (r0 :: rs0)) eqn:E; cbn [fst snd].
    + rewrite fold_rremove. unfold set_policy. rewrite H. reflexivity.
    + rewrite (set_policy_id md sec pt a H). reflexivity.
Qed.

Lemma filter_nil_all_false : forall {A} (f : A -> bool) l, filter f l = [] -> forall x, In x l -> f x = false.
Proof.
  intros A f l. induction l as [|y l IH]; cbn [filter]; intros H x Hx; [destruct Hx|].
  destruct (f y) eqn:E; [discriminate|]. destruct Hx as [->|Hx]; [exact E|apply IH; assumption].
Qed.

Lemma m_remove_filtered_spec : forall md sec pt idx vals a, get_ast md sec pt = Some a ->
  m_remove_filtered md sec pt idx vals =
  match sp_remove_filtered (a_policy a) idx vals with
  | None => None
  | Some (l', flag, rem) => Some (set_policy md sec pt l', flag, rem)
  end.
Proof.
  intros md sec pt idx vals a H. unfold m_remove_filtered, sp_remove_filtered.
  destruct vals as [|v vs].
  - rewrite (set_policy_id md sec pt a H). reflexivity.
  - rewrite H, select_filtered_spec. unfold sp_select.
    destruct (existsb (sp_oob idx (v :: vs)) (a_policy a)); [reflexivity|].
    destruct (filter (sp_hit idx (v :: vs)) (a_policy a)) as [|r0 rem0] eqn:Ef.
    + pose proof (filter_nil_all_false _ _ Ef) as Hall.
      rewrite (filter_true_id (fun r => negb (sp_hit idx (v :: vs) r)) (a_policy a)).
      * rewrite (set_policy_id md sec pt a H).
        assert (existsb (sp_hit idx (v :: vs)) (a_policy a) = false) as ->; [|reflexivity].
        destruct (existsb (sp_hit idx (v :: vs)) (a_policy a)) eqn:Ee; [|reflexivity].
        apply existsb_exists in Ee. destruct Ee as [x [Hx Hh]]. rewrite (Hall x Hx) in Hh. discriminate.
      * intros x Hx. rewrite (Hall x Hx). reflexivity.
    + rewrite fold_rremove, <- Ef.
      assert (existsb (sp_hit idx (v :: vs)) (a_policy a) = true) as ->.
      { apply existsb_exists. exists r0.
        assert (In r0 (filter (sp_hit idx (v :: vs)) (a_policy a))) as Hin by (rewrite Ef; left; reflexivity).
        apply filter_In in Hin. exact Hin. }
      unfold set_policy. rewrite H.
      assert (Hf : filter (fun x => negb (sp_mem x (filter (sp_hit idx (v :: vs)) (a_policy a)))) (a_policy a)
                   = filter (fun r => negb (sp_hit idx (v :: vs) r)) (a_policy a));
        [|rewrite Hf; reflexivity].
      apply filter_ext_in. intros x Hx. f_equal.
      destruct (sp_hit idx (v :: vs) x) eqn:Eh.
      * apply sp_mem_In. apply filter_In. split; assumption.
      * apply sp_mem_not_In. intros Hin. apply filter_In in Hin. destruct Hin as [_ Hh].
        rewrite Hh in Eh. discriminate.
Qed.

(* the five operations at once: on the addressed list the specification, and
   the model is touched nowhere else (see get_set_policy / skeleton_set_policy);
   an unknown (sec, pt) changes nothing and reports false *)
Theorem m_apply_spec : forall md sec pt b,
  m_apply md sec pt b =
  match get_ast md sec pt with
  | None => Some (md, false, bop_payload b)
  | Some a => match sp_apply b (a_policy a) with
              | None => None
              | Some (l', flag, rs) => Some (set_policy md sec pt l', flag, rs)
              end
  end.
Proof.
  intros md sec pt b. destruct (get_ast md sec pt) as [a|] eqn:H.
  - destruct b as [r|rs|r|rs|idx vals]; cbn [m_apply sp_apply].
    + rewrite (m_add_policy_spec md sec pt r a H). destruct (sp_add (a_policy a) r). reflexivity.
    + rewrite (m_add_policies_spec md sec pt rs a H). destruct (sp_add_many (a_policy a) rs). reflexivity.
    + rewrite (m_remove_policy_spec md sec pt r a H). destruct (sp_remove (a_policy a) r). reflexivity.
    + rewrite (m_remove_policies_spec md sec pt rs a H). destruct (sp_remove_many (a_policy a) rs). reflexivity.
    + apply m_remove_filtered_spec, H.
  - destruct b as [r|rs|r|rs|idx vals]; cbn [m_apply bop_payload].
    + unfold m_add_policy. rewrite H. reflexivity.
    + unfold m_add_policies. rewrite H. destruct rs; reflexivity.
    + unfold m_remove_policy. rewrite H. reflexivity.
    + unfold m_remove_policies. rewrite H. destruct rs; reflexivity.
    + unfold m_remove_filtered. rewrite H. destruct vals; reflexivity.
Qed.

(* clear: every list of sections p and g is emptied, nothing else changes *)
Lemma get_clear_sec : forall md sec sec' k,
  get_ast (clear_sec md sec) sec' k =
  if teqb sec' sec then option_map (fun a => with_policy a []) (get_ast md sec' k)
  else get_ast md sec' k.
Proof.
  intros md sec sec' k. unfold clear_sec, get_ast.
  destruct (assoc sec md) as [am|] eqn:Es.
  - destruct (teqb sec' sec) eqn:E.
    + apply teqb_eq in E. subst sec'. rewrite assoc_set_same, Es.
      apply (assoc_map_snd (fun a => with_policy a [])).
    + rewrite assoc_set_other; [reflexivity|]. apply teqb_neq in E. auto.
  - destruct (teqb sec' sec) eqn:E; [|reflexivity].
    apply teqb_eq in E. subst sec'. rewrite Es. reflexivity.
Qed.

Theorem get_clear_policy : forall md sec k,
  get_ast (m_clear_policy md) sec k =
  if sec_ok sec then option_map (fun a => with_policy a []) (get_ast md sec k)
  else get_ast md sec k.
Proof.
  intros md sec k. unfold m_clear_policy, sec_ok. rewrite !get_clear_sec.
  destruct (teqb sec s_g) eqn:Eg, (teqb sec s_p) eqn:Ep; cbn [orb]; try reflexivity.
  apply teqb_eq in Eg, Ep. subst. discriminate.
Qed.

Lemma skeleton_clear_sec : forall md sec, skeleton (clear_sec md sec) = skeleton md.
Proof.
  intros md sec. unfold clear_sec. destruct (assoc sec md) as [am|] eqn:Es; [|reflexivity].
  unfold skeleton, map_ast. apply (map_assoc_set_same _ sec _ am md Es). intros k'. cbn [fst snd].
  f_equal. rewrite map_map. apply map_ext. intros [k a]. reflexivity.
Qed.

Theorem skeleton_clear_policy : forall md, skeleton (m_clear_policy md) = skeleton md.
Proof. intros md. unfold m_clear_policy. rewrite !skeleton_clear_sec. reflexivity. Qed.

Theorem pol_clear_policy : forall md sec pt,
  m_get_policy (m_clear_policy md) sec pt = if sec_ok sec then [] else m_get_policy md sec pt.
Proof.
  intros md sec pt. unfold m_get_policy. rewrite get_clear_policy.
  destruct (sec_ok sec); [|reflexivity]. destruct (get_ast md sec pt); reflexivity.
Qed.
