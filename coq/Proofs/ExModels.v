(* Concrete models, adapters and requests used by the non-vacuity examples and
   refutation witnesses of C11 and C18. *)
From CV Require Import Model.Base Model.Effector Model.RoleGraph Model.Expr
     Model.Enforce Model.Engine Model.Cached.

Definition mk_ast (v : text) (toks : list text) : assertion :=
  {| a_value := v; a_tokens := toks; a_policy := []; a_handle := HOwn |}.

Definition no_ptab : text -> option expr := fun _ => None.

Definition ex_rtoks := [T "r_sub"; T "r_obj"; T "r_act"].
Definition ex_ptoks := [T "p_sub"; T "p_obj"; T "p_act"].
Definition v_sub_eq := EEq (EVar s_r (T "sub")) (EVar s_p (T "sub")).
Definition v_obj_eq := EEq (EVar s_r (T "obj")) (EVar s_p (T "obj")).
Definition v_act_eq := EEq (EVar s_r (T "act")) (EVar s_p (T "act")).
Definition v_g := ECall (T "g") [EVar s_r (T "sub"); EVar s_p (T "sub")].
Definition v_g2 := ECall (T "g2") [EVar s_r (T "obj"); EVar s_p (T "obj")].

(* basic ACL: m = r.sub == p.sub && r.obj == p.obj && r.act == p.act *)
Definition acl_def : modeldef :=
  {| d_model :=
       [(s_r, [(s_r, mk_ast (T "sub, obj, act") ex_rtoks)]);
        (s_p, [(s_p, mk_ast (T "sub, obj, act") ex_ptoks)]);
        (s_e, [(s_e, mk_ast s_allow_override [])]);
        (s_m, [(s_m, mk_ast (T "r_sub == p_sub && r_obj == p_obj && r_act == p_act") [])])];
     d_mexprs := [(s_m, EAnd (EAnd v_sub_eq v_obj_eq) v_act_eq)] |}.

(* ACL ignoring the action: m = r.sub == p.sub && r.obj == p.obj *)
Definition acl2_def : modeldef :=
  {| d_model :=
       [(s_r, [(s_r, mk_ast (T "sub, obj, act") ex_rtoks)]);
        (s_p, [(s_p, mk_ast (T "sub, obj, act") ex_ptoks)]);
        (s_e, [(s_e, mk_ast s_allow_override [])]);
        (s_m, [(s_m, mk_ast (T "r_sub == p_sub && r_obj == p_obj") [])])];
     d_mexprs := [(s_m, EAnd v_sub_eq v_obj_eq)] |}.

(* ACL with keyMatch on the object *)
Definition km_def : modeldef :=
  {| d_model :=
       [(s_r, [(s_r, mk_ast (T "sub, obj, act") ex_rtoks)]);
        (s_p, [(s_p, mk_ast (T "sub, obj, act") ex_ptoks)]);
        (s_e, [(s_e, mk_ast s_allow_override [])]);
        (s_m, [(s_m, mk_ast (T "r_sub == p_sub && keyMatch(r_obj, p_obj)") [])])];
     d_mexprs := [(s_m, EAnd v_sub_eq
                            (ECall (T "keyMatch") [EVar s_r (T "obj"); EVar s_p (T "obj")]))] |}.

(* RBAC: m = g(r.sub, p.sub) && r.obj == p.obj && r.act == p.act *)
Definition rbac_def : modeldef :=
  {| d_model :=
       [(s_r, [(s_r, mk_ast (T "sub, obj, act") ex_rtoks)]);
        (s_p, [(s_p, mk_ast (T "sub, obj, act") ex_ptoks)]);
        (s_g, [(s_g, mk_ast (T "_, _") [])]);
        (s_e, [(s_e, mk_ast s_allow_override [])]);
        (s_m, [(s_m, mk_ast (T "g(r_sub, p_sub) && r_obj == p_obj && r_act == p_act") [])])];
     d_mexprs := [(s_m, EAnd (EAnd v_g v_obj_eq) v_act_eq)] |}.

(* RBAC with resource roles: m = g(r.sub, p.sub) && g2(r.obj, p.obj) && r.act == p.act *)
Definition rbac2_def : modeldef :=
  {| d_model :=
       [(s_r, [(s_r, mk_ast (T "sub, obj, act") ex_rtoks)]);
        (s_p, [(s_p, mk_ast (T "sub, obj, act") ex_ptoks)]);
        (s_g, [(s_g, mk_ast (T "_, _") []); (T "g2", mk_ast (T "_, _") [])]);
        (s_e, [(s_e, mk_ast s_allow_override [])]);
        (s_m, [(s_m, mk_ast (T "g(r_sub, p_sub) && g2(r_obj, p_obj) && r_act == p_act") [])])];
     d_mexprs := [(s_m, EAnd (EAnd v_g v_g2) v_act_eq)] |}.

(* two request/policy/matcher families: the plain one is the ACL, the one with
   suffix "2" ignores the action *)
Definition v2_sub_eq := EEq (EVar (T "r2") (T "sub")) (EVar (T "p2") (T "sub")).
Definition v2_obj_eq := EEq (EVar (T "r2") (T "obj")) (EVar (T "p2") (T "obj")).
Definition ctx_def : modeldef :=
  {| d_model :=
       [(s_r, [(s_r, mk_ast (T "sub, obj, act") ex_rtoks);
               (T "r2", mk_ast (T "sub, obj, act") [T "r2_sub"; T "r2_obj"; T "r2_act"])]);
        (s_p, [(s_p, mk_ast (T "sub, obj, act") ex_ptoks);
               (T "p2", mk_ast (T "sub, obj, act") [T "p2_sub"; T "p2_obj"; T "p2_act"])]);
        (s_e, [(s_e, mk_ast s_allow_override []); (T "e2", mk_ast s_allow_override [])]);
        (s_m, [(s_m, mk_ast (T "r_sub == p_sub && r_obj == p_obj && r_act == p_act") []);
               (T "m2", mk_ast (T "r2_sub == p2_sub && r2_obj == p2_obj") [])])];
     d_mexprs := [(s_m, EAnd (EAnd v_sub_eq v_obj_eq) v_act_eq);
                  (T "m2", EAnd v2_sub_eq v2_obj_eq)] |}.

Definition alice := T "alice". Definition bob := T "bob".
Definition admin := T "admin". Definition root := T "root".
Definition data1 := T "data1". Definition data2 := T "data2".
Definition read := T "read". Definition write := T "write".

Definition req (a b c : text) : list value := [VStr a; VStr b; VStr c].

(* memory adapter lines *)
Definition pl (a b c : text) : rule := [s_p; s_p; a; b; c].
Definition gl (a b : text) : rule := [s_g; s_g; a; b].
Definition p2l (a b c : text) : rule := [s_p; T "p2"; a; b; c].
Definition g2l (a b : text) : rule := [s_g; T "g2"; a; b].

Definition mem (l : list rule) : adapter := AMemory l false.

Definition mk (d : modeldef) (a : adapter) : estate := fst (new_enforcer d a false).

Definition cinit (s : estate) : cstate := {| c_inner := s; c_cache := [] |}.
