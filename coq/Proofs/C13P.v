(* Proofs for C13: RBAC queries agree with enforcement. *)
From CV Require Import Model.Base Model.Effector Model.RoleGraph Model.PathMatch Model.Expr
     Model.Enforce Model.Engine Model.SpecC13.
From CV Require Import Proofs.ListAux Proofs.BaseP Proofs.EffectorP Proofs.RoleGraphP
     Proofs.ExprP Proofs.EnforceP.
From Coq Require Import Lia Relations.

(* ================= A. scope predicates ================= *)

Lemma seqb_eq : forall x y, seqb x y = true -> x = y.
Proof.
  intros [x|x|x] [y|y|y]; cbn [seqb]; intros H; try discriminate.
  - apply teqb_eq in H. subst. reflexivity.
  - apply Z.eqb_eq in H. subst. reflexivity.
  - apply eqb_prop in H. subst. reflexivity.
Qed.

Lemma andb_true_split : forall a b, a && b = true -> a = true /\ b = true.
Proof. intros a b H. apply andb_true_iff, H. Qed.

Lemma expr_eqb_eq : forall a b, expr_eqb a b = true -> a = b.
Proof.
  induction a as [v|p f|a f IHa|a1 a2 IH1 IH2|a1 a2 IH1 IH2|c a1 a2 IH1 IH2|a1 a2 IH1 IH2
                  |a1 a2 IH1 IH2|a IHa|a xs IHa IHxs|f args IHargs|p f] using expr_ind';
    intros b H; destruct b; cbn [expr_eqb] in H; try discriminate.
  - apply seqb_eq in H. subst. reflexivity.
  - apply andb_true_split in H. destruct H as [Hp Hf].
    apply teqb_eq in Hp. apply teqb_eq in Hf. subst. reflexivity.
  - apply andb_true_split in H. destruct H as [Ha Hf].
    apply IHa in Ha. apply teqb_eq in Hf. subst. reflexivity.
  - apply andb_true_split in H. destruct H as [H1 H2].
    apply IH1 in H1. apply IH2 in H2. subst. reflexivity.
  - apply andb_true_split in H. destruct H as [H1 H2].
    apply IH1 in H1. apply IH2 in H2. subst. reflexivity.
  - apply andb_true_split in H. destruct H as [H H2]. apply andb_true_split in H.
    destruct H as [Hc H1]. apply IH1 in H1. apply IH2 in H2. subst.
    destruct c, c0; try discriminate; reflexivity.
  - apply andb_true_split in H. destruct H as [H1 H2].
    apply IH1 in H1. apply IH2 in H2. subst. reflexivity.
  - apply andb_true_split in H. destruct H as [H1 H2].
    apply IH1 in H1. apply IH2 in H2. subst. reflexivity.
  - apply IHa in H. subst. reflexivity.
  - apply andb_true_split in H. destruct H as [Ha Hl]. apply IHa in Ha. subst. f_equal.
    revert xs0 Hl. induction IHxs as [|x xs Hx _ IH]; intros [|y ys] Hl;
      try discriminate; [reflexivity|].
    apply andb_true_split in Hl. destruct Hl as [Hxy Hr].
    apply Hx in Hxy. apply IH in Hr. subst. reflexivity.
  - apply andb_true_split in H. destruct H as [Hf Hl]. apply teqb_eq in Hf. subst. f_equal.
    revert args0 Hl. induction IHargs as [|x xs Hx _ IH]; intros [|y ys] Hl;
      try discriminate; [reflexivity|].
    apply andb_true_split in Hl. destruct Hl as [Hxy Hr].
    apply Hx in Hxy. apply IH in Hr. subst. reflexivity.
  - apply andb_true_split in H. destruct H as [Hp Hf].
    apply teqb_eq in Hp. apply teqb_eq in Hf. subst. reflexivity.
Qed.

Lemma toks_eqb_eq : forall a b, toks_eqb a b = true -> a = b.
Proof. intros a b H. apply reqb_eq, H. Qed.

(* what a scope says, in propositional form *)
Record Scope (cnt : nat) (rt : list text) (pt_ok : list text -> bool)
       (e_ok : text -> bool) (m : expr) (s : estate) : Prop := {
  sc_r : exists a, get_ast (e_model s) s_r s_r = Some a /\ a_tokens a = rt;
  sc_p : exists a, get_ast (e_model s) s_p s_p = Some a /\ pt_ok (a_tokens a) = true;
  sc_g : exists a, get_ast (e_model s) s_g s_g = Some a /\
                   count_us (a_value a) = cnt /\ a_handle a = HCur;
  sc_e : exists a, get_ast (e_model s) s_e s_e = Some a /\ e_ok (a_value a) = true;
  sc_m : exists a, get_ast (e_model s) s_m s_m = Some a;
  sc_mx : assoc s_m (e_mexprs s) = Some m;
  sc_gf : find_gfun (T "g", cnt) (f_gfuns (e_fs s)) = Some HCur;
  sc_uf : assoc (T "g") (f_ufuns (e_fs s)) = None;
  sc_en : e_enabled s = true;
}.

Lemma scope_core_spec cnt rt pt_ok e_ok m s :
  scope_core cnt rt pt_ok e_ok m s = true <-> Scope cnt rt pt_ok e_ok m s.
Proof.
  unfold scope_core. split.
  - intros H.
    apply andb_true_split in H. destruct H as [H Hen].
    apply andb_true_split in H. destruct H as [H Huf].
    apply andb_true_split in H. destruct H as [H Hgf].
    apply andb_true_split in H. destruct H as [H Hmx].
    apply andb_true_split in H. destruct H as [H Hm].
    apply andb_true_split in H. destruct H as [H He].
    apply andb_true_split in H. destruct H as [H Hg].
    apply andb_true_split in H. destruct H as [Hr Hp].
    constructor.
    + destruct (get_ast (e_model s) s_r s_r) as [a|]; [|discriminate].
      exists a. split; [reflexivity|]. apply toks_eqb_eq, Hr.
    + destruct (get_ast (e_model s) s_p s_p) as [a|]; [|discriminate].
      exists a. split; [reflexivity|exact Hp].
    + destruct (get_ast (e_model s) s_g s_g) as [a|]; [|discriminate].
      exists a. split; [reflexivity|]. cbn [opt_is] in Hg.
      apply andb_true_split in Hg. destruct Hg as [Hc Hh]. apply Nat.eqb_eq in Hc.
      split; [exact Hc|]. destruct (a_handle a); try discriminate. reflexivity.
    + destruct (get_ast (e_model s) s_e s_e) as [a|]; [|discriminate].
      exists a. split; [reflexivity|exact He].
    + destruct (get_ast (e_model s) s_m s_m) as [a|]; [|discriminate].
      exists a. reflexivity.
    + destruct (assoc s_m (e_mexprs s)) as [e|]; [|discriminate].
      cbn [opt_is] in Hmx. apply expr_eqb_eq in Hmx. subst. reflexivity.
    + destruct (find_gfun (T "g", cnt) (f_gfuns (e_fs s))) as [h|]; [|discriminate].
      destruct h; try discriminate. reflexivity.
    + destruct (assoc (T "g") (f_ufuns (e_fs s))); [discriminate|reflexivity].
    + exact Hen.
  - intros [(ra & Hr & Hrt) (pa & Hp & Hpt) (ga & Hg & Hgc & Hgh) (ea & He & Hev)
            (ma & Hm) Hmx Hgf Huf Hen].
    rewrite Hr, Hp, Hg, He, Hm, Hmx, Hgf, Huf, Hen. cbn [opt_is is_none].
    rewrite Hrt, Hpt, Hgc, Hgh, Hev. cbn [handle_is_cur].
    rewrite Nat.eqb_refl.
    assert (E1 : toks_eqb rt rt = true) by apply reqb_refl.
    assert (E2 : expr_eqb m m = true).
    { clear. induction m as [v|p f|a f IHa|a1 a2 IH1 IH2|a1 a2 IH1 IH2|c a1 a2 IH1 IH2
                  |a1 a2 IH1 IH2|a1 a2 IH1 IH2|a IHa|a xs IHa IHxs|f args IHargs|p f]
        using expr_ind'; cbn [expr_eqb];
        rewrite ?teqb_refl, ?IHa, ?IH1, ?IH2; try reflexivity.
      - destruct v as [x|x|x]; cbn [seqb];
          [apply teqb_refl|apply Z.eqb_refl|apply eqb_reflx].
      - destruct c; reflexivity.
      - cbn [andb]. induction IHxs as [|x xs Hx _ IH]; [reflexivity|].
        rewrite Hx, IH. reflexivity.
      - cbn [andb]. induction IHargs as [|x xs Hx _ IH]; [reflexivity|].
        rewrite Hx, IH. reflexivity. }
    rewrite E1, E2. reflexivity.
Qed.

(* ================= B. has_link is reachability below the depth limit ================= *)

Definition shallow (maxd : nat) (m : rmgr) (d : option text) : Prop :=
  forall a b, clos_trans text (Edge m d) a b -> exists k, k < maxd /\ path (Edge m d) k a b.

Lemma edges_in_of : forall m d, edges_in m d = edges_of m d.
Proof. reflexivity. Qed.

Lemma clos_trans_first : forall {A} (R : A -> A -> Prop) a b,
  clos_trans A R a b -> exists c, R a c.
Proof.
  intros A R a b H. induction H as [a b Hab|a b c _ IH1 _ _]; [exists b; exact Hab|exact IH1].
Qed.

Lemma clos_trans_last : forall {A} (R : A -> A -> Prop) a b,
  clos_trans A R a b -> exists c, R c b.
Proof.
  intros A R a b H. induction H as [a b Hab|a b c _ _ _ IH2]; [exists a; exact Hab|exact IH2].
Qed.

Lemma shallowb_sound : forall maxd m d, shallowb maxd m d = true -> shallow maxd m d.
Proof.
  intros maxd m d H a b Hab. unfold shallowb in H. rewrite edges_in_of in H.
  apply andb_true_iff in H. destruct H as [Hpos H]. apply Nat.ltb_lt in Hpos.
  rewrite forallb_forall in H.
  destruct (clos_trans_first _ a b Hab) as [c Hac].
  assert (Ha : In a (map fst (edges_of m d))).
  { apply (in_map fst) in Hac. exact Hac. }
  specialize (H a Ha). apply subsetb_incl in H.
  apply clos_path in Hab. destruct Hab as [k Hp].
  apply (short_path (edges_of m d)) in Hp. destruct Hp as [j [Hj Hp]].
  assert (Hin : In b (within (edges_of m d) (length (edges_of m d)) a)).
  { apply within_spec. exists j. split; assumption. }
  apply H, within_spec in Hin. destruct Hin as [i [Hi Hp']].
  exists i. split; [lia|exact Hp'].
Qed.

Theorem has_link_iff : forall maxd m d a b, wf m -> shallow maxd m d ->
  (has_link maxd m a b d = true <-> a = b \/ clos_trans text (Edge m d) a b).
Proof.
  intros maxd m d a b Hwf Hsh. split.
  - apply has_link_sound, Hwf.
  - intros [->|H].
    + unfold has_link. rewrite teqb_refl. reflexivity.
    + destruct (Hsh a b H) as [k [Hk Hp]].
      apply (has_link_complete maxd m a b d k Hwf Hp Hk).
Qed.

(* ================= C. implicit roles = transitive closure (item 1) ================= *)

Definition node_list (m : rmgr) (d : option text) : list text :=
  match graph_of m d with Some g => nodes g | None => [] end.

Lemma graph_size_nodes : forall m d, graph_size m d = length (node_list m d).
Proof. intros m d. unfold graph_size, node_list. destruct (graph_of m d); reflexivity. Qed.

Lemma Edge_nodes : forall m d x y, wf m -> Edge m d x y ->
  In x (node_list m d) /\ In y (node_list m d) /\ x <> y.
Proof.
  intros m d x y Hwf H. unfold Edge, edges_of in H. unfold node_list.
  destruct (graph_of m d) as [g|] eqn:Hg; [|destruct H].
  destruct (wf_graph_of _ _ _ Hwf Hg) as (_ & _ & Hc). apply (Hc x y H).
Qed.

Section ImplicitRoles.
  Variable m : rmgr.
  Hypothesis Hwf : wf m.
  Variable d : option text.
  Variable u : text.

  Let R := Edge m d.
  Let size := graph_size m d.

  (* P: the names popped so far; u :: res is the sequence of everything that
     was ever enqueued, q is what is left of it *)
  Definition IRInv (P q res : list text) : Prop :=
    u :: res = P ++ q /\ NoDup res /\
    (forall x, In x res -> clos_trans text R u x) /\
    (forall x y, In x P -> R x y -> In y res).

  Lemma IRInv_init : IRInv [] [u] [].
  Proof.
    split; [reflexivity|]. split; [constructor|]. split; [intros x []|intros x y []].
  Qed.

  Lemma res_bound : forall P q res, IRInv P q res -> length P <= S size.
  Proof.
    intros P q res (H1 & H2 & H3 & _).
    assert (Hl : length res <= size).
    { unfold size. rewrite graph_size_nodes. apply NoDup_incl_length; [exact H2|].
      intros x Hx. apply H3 in Hx. apply clos_trans_last in Hx. destruct Hx as [c Hc].
      apply (Edge_nodes m d c x Hwf Hc). }
    apply (f_equal (@length text)) in H1. rewrite app_length in H1. cbn [length] in H1. lia.
  Qed.

  Lemma IRInv_step : forall P n q' res,
    IRInv P (n :: q') res ->
    IRInv (P ++ [n]) (q' ++ discover (get_roles m n d) res)
          (res ++ discover (get_roles m n d) res).
  Proof.
    intros P n q' res (H1 & H2 & H3 & H4).
    set (nw := discover (get_roles m n d) res).
    assert (Hn : n = u \/ clos_trans text R u n).
    { assert (Hin : In n (u :: res)).
      { rewrite H1. apply in_or_app. right. left. reflexivity. }
      destruct Hin as [<-|Hin]; [left; reflexivity|right; apply H3, Hin]. }
    split; [|split; [|split]].
    - rewrite app_comm_cons, H1, <- !app_assoc. reflexivity.
    - apply NoDup_app_intro; [exact H2|apply discover_NoDup|].
      intros x Hx Hx'. apply discover_In in Hx'. destruct Hx' as [_ Hx']. contradiction.
    - intros x Hx. apply in_app_or in Hx. destruct Hx as [Hx|Hx]; [apply H3, Hx|].
      apply discover_In in Hx. destruct Hx as [Hx _].
      apply (get_roles_spec m n d x Hwf) in Hx.
      destruct Hn as [->|Hn]; [apply t_step, Hx|].
      apply (t_trans text R u n x Hn). apply t_step, Hx.
    - intros x y Hx Hxy. apply in_app_or in Hx. apply in_or_app.
      destruct Hx as [Hx|[<-|[]]]; [left; apply (H4 x y Hx Hxy)|].
      destruct (in_dec text_eq_dec y res) as [Hy|Hy]; [left; exact Hy|right].
      apply discover_In. split; [|exact Hy].
      apply (get_roles_spec m n d y Hwf). exact Hxy.
  Qed.

  Lemma IRInv_done : forall P res r, IRInv P [] res ->
    (In r res <-> clos_trans text R u r).
  Proof.
    intros P res r (H1 & H2 & H3 & H4). rewrite app_nil_r in H1. subst P.
    split; [apply H3|]. intros H. apply clos_trans_tn1 in H.
    induction H as [y Hy|y z Hyz Hn1 IH].
    - apply (H4 u y); [left; reflexivity|exact Hy].
    - apply (H4 y z); [right; exact IH|exact Hyz].
  Qed.

  Lemma go_spec : forall fuel P q res, IRInv P q res -> size + 2 <= fuel + length P ->
    NoDup (implicit_roles_go fuel m d q res) /\
    forall r, In r (implicit_roles_go fuel m d q res) <-> clos_trans text R u r.
  Proof.
    induction fuel as [|fuel IH]; intros P q res HI Hf.
    - apply res_bound in HI. lia.
    - cbn [implicit_roles_go]. destruct q as [|n q'].
      + split; [apply HI|]. intros r. apply (IRInv_done P res r HI).
      + apply (IH (P ++ [n])); [apply IRInv_step, HI|].
        rewrite app_length. cbn [length]. lia.
  Qed.

  (* the fuel of the model is not what stops the loop: more fuel changes nothing *)
  Lemma go_fuel : forall fuel extra P q res, IRInv P q res -> size + 2 <= fuel + length P ->
    implicit_roles_go (fuel + extra) m d q res = implicit_roles_go fuel m d q res.
  Proof.
    induction fuel as [|fuel IH]; intros extra P q res HI Hf.
    - apply res_bound in HI. lia.
    - cbn [plus implicit_roles_go]. destruct q as [|n q']; [reflexivity|].
      apply (IH extra (P ++ [n])); [apply IRInv_step, HI|].
      rewrite app_length. cbn [length]. lia.
  Qed.
End ImplicitRoles.

Theorem implicit_roles_spec : forall s u d r, wf (f_rm (e_fs s)) ->
  (In r (implicit_roles s u d) <-> clos_trans text (Edge (f_rm (e_fs s)) d) u r).
Proof.
  intros s u d r Hwf. unfold implicit_roles.
  apply (go_spec (f_rm (e_fs s)) Hwf d u _ [] [u] [] (IRInv_init _ _ _)).
  cbn [length]. lia.
Qed.

Theorem implicit_roles_NoDup : forall s u d, wf (f_rm (e_fs s)) -> NoDup (implicit_roles s u d).
Proof.
  intros s u d Hwf. unfold implicit_roles.
  apply (go_spec (f_rm (e_fs s)) Hwf d u _ [] [u] [] (IRInv_init _ _ _)).
  cbn [length]. lia.
Qed.

Theorem implicit_roles_fuel : forall s u d extra, wf (f_rm (e_fs s)) ->
  implicit_roles_go (S (S (graph_size (f_rm (e_fs s)) d)) + extra) (f_rm (e_fs s)) d [u] [] =
  implicit_roles s u d.
Proof.
  intros s u d extra Hwf. unfold implicit_roles.
  apply (go_fuel (f_rm (e_fs s)) Hwf d u _ extra [] [u] [] (IRInv_init _ _ _)).
  cbn [length]. lia.
Qed.

(* ================= D. direct listings are inverse views (item 4) ================= *)

Definition handle_wf (fs : fstate) (h : handle) : Prop :=
  match h with HOwn => True | HCur => wf (f_rm fs) | HFrozen m _ => wf m end.

Definition g_handle_wf (s : estate) : Prop :=
  forall a, get_ast (e_model s) s_g s_g = Some a -> handle_wf (e_fs s) (a_handle a).

Theorem roles_users_inverse : forall s u r d, g_handle_wf s ->
  (In r (roles_for_user s u d) <-> In u (users_for_role s r d)).
Proof.
  intros s u r d Hh. unfold roles_for_user, users_for_role.
  destruct (get_ast (e_model s) s_g s_g) as [a|] eqn:Ha; [|reflexivity].
  specialize (Hh a Ha). unfold handle_get_roles, handle_get_users.
  destruct (a_handle a) as [| |m0 mx]; cbn [handle_wf] in Hh; [reflexivity| |].
  - rewrite get_roles_spec, get_users_spec by exact Hh. reflexivity.
  - rewrite get_roles_spec, get_users_spec by exact Hh. reflexivity.
Qed.

Theorem has_role_membership : forall ptab s u r d,
  ask ptab s (QHasRole u r d) = AnsBool true <-> In r (roles_for_user s u d).
Proof.
  intros ptab s u r d. cbn [ask]. rewrite <- memb_In. split.
  - intros H. inversion H. reflexivity.
  - intros ->. reflexivity.
Qed.

(* ================= E. enforcement in closed form ================= *)

Lemma perm_combine_all_ok : forall r effs seen,
  perm_combine r seen (map Ok effs) = Ok (decl r (seen ++ effs)).
Proof.
  intros r. induction effs as [|e effs IH]; intros seen; cbn [map perm_combine].
  - rewrite app_nil_r. reflexivity.
  - destruct (forced r (seen ++ [e])) as [b|] eqn:Hf.
    + rewrite <- (forced_sound r (seen ++ [e]) b Hf effs), <- app_assoc. reflexivity.
    + rewrite IH, <- app_assoc. reflexivity.
Qed.

Lemma enforce_unfold ptab s rv r_ast p_ast m_ast e_ast er m :
  get_ast (e_model s) s_r s_r = Some r_ast -> get_ast (e_model s) s_p s_p = Some p_ast ->
  get_ast (e_model s) s_m s_m = Some m_ast -> get_ast (e_model s) s_e s_e = Some e_ast ->
  e_enabled s = true -> length (a_tokens r_ast) = length rv ->
  parse_erule (a_value e_ast) = Some er -> assoc s_m (e_mexprs s) = Some m ->
  enforce ptab s rv =
  let sc0 := bind (a_tokens r_ast) rv [] in
  match a_policy p_ast with
  | [] =>
    match eval_matcher ptab (e_fs s) m
            (bind (a_tokens p_ast) (map (fun _ => VStr []) (a_tokens p_ast)) sc0) with
    | Ok b => Ok (decl er [if b then Allow else Indet])
    | Err e => Err e
    | Panic => Panic
    end
  | rules =>
    perm_combine er [] (map (rule_outcome ptab (e_fs s) m (tok s_p s_eft) (a_tokens p_ast) sc0)
                            rules)
  end.
Proof.
  intros Hr Hp Hm He Hen Hlen Her Hmx.
  unfold enforce, enforce_plain. rewrite enforce_is_perm. unfold perm_ref.
  rewrite Hen, Hr, Hp, Hm, He, Her, Hmx. cbn [negb].
  apply Nat.eqb_eq in Hlen. rewrite Hlen. cbn [negb]. reflexivity.
Qed.

Section EvalHelpers.
  Variable call : text -> list value -> option eres.
  Variable ptab : text -> option expr.
  Variable sc : list (text * value).

  Lemma ev_var fuel p f v : assoc (tok p f) sc = Some v ->
    eval call ptab sc fuel (EVar p f) = EV v.
  Proof. intros H. rewrite eval_EVar, H. reflexivity. Qed.

  Lemma ev_eq_strs fuel a b x y :
    eval call ptab sc fuel a = EV (VStr x) -> eval call ptab sc fuel b = EV (VStr y) ->
    eval call ptab sc fuel (EEq a b) = EV (VBool (teqb x y)).
  Proof. intros Ha Hb. rewrite eval_EEq, Ha, Hb. reflexivity. Qed.

  Lemma ev_and_bools fuel a b x y :
    eval call ptab sc fuel a = EV (VBool x) -> eval call ptab sc fuel b = EV (VBool y) ->
    eval call ptab sc fuel (EAnd a b) = EV (VBool (x && y)).
  Proof. intros Ha Hb. rewrite eval_EAnd, Ha, Hb. destruct x; reflexivity. Qed.

  (* a false left conjunct decides, whatever the right one would do *)
  Lemma ev_and_false fuel a b :
    eval call ptab sc fuel a = EV (VBool false) ->
    eval call ptab sc fuel (EAnd a b) = EV (VBool false).
  Proof. intros Ha. rewrite eval_EAnd, Ha. reflexivity. Qed.

  Lemma ev_call2 fuel f a b x y :
    eval call ptab sc fuel a = EV x -> eval call ptab sc fuel b = EV y ->
    eval call ptab sc fuel (ECall f [a; b]) =
    match call f [x; y] with Some r => r | None => EErr end.
  Proof. intros Ha Hb. rewrite eval_ECall. cbn [call_go]. rewrite Ha, Hb. reflexivity. Qed.

  Lemma ev_call3 fuel f a b c x y z :
    eval call ptab sc fuel a = EV x -> eval call ptab sc fuel b = EV y ->
    eval call ptab sc fuel c = EV z ->
    eval call ptab sc fuel (ECall f [a; b; c]) =
    match call f [x; y; z] with Some r => r | None => EErr end.
  Proof.
    intros Ha Hb Hc. rewrite eval_ECall. cbn [call_go]. rewrite Ha, Hb, Hc. reflexivity.
  Qed.
End EvalHelpers.

Lemma call_g2 fs u ps :
  find_gfun (T "g", 2) (f_gfuns fs) = Some HCur -> assoc (T "g") (f_ufuns fs) = None ->
  call_fn fs (T "g") [VStr u; VStr ps] =
  Some (EV (VBool (has_link (f_rm_max fs) (f_rm fs) u ps None))).
Proof.
  intros Hg Hu. unfold call_fn. cbn [all_strs]. rewrite Hu. cbn [length]. rewrite Hg.
  reflexivity.
Qed.

Lemma call_g3 fs u ps d :
  find_gfun (T "g", 3) (f_gfuns fs) = Some HCur -> assoc (T "g") (f_ufuns fs) = None ->
  call_fn fs (T "g") [VStr u; VStr ps; VStr d] =
  Some (EV (VBool (has_link (f_rm_max fs) (f_rm fs) u ps (Some d)))).
Proof.
  intros Hg Hu. unfold call_fn. cbn [all_strs]. rewrite Hu. cbn [length]. rewrite Hg.
  reflexivity.
Qed.

Definition sc3 (ps po pa u o a : text) : list (text * value) :=
  bind p_toks3 (map VStr [ps; po; pa]) (bind r_toks3 [VStr u; VStr o; VStr a] []).

Lemma eval_rbac_matcher ptab fs fuel ps po pa u o a :
  find_gfun (T "g", 2) (f_gfuns fs) = Some HCur -> assoc (T "g") (f_ufuns fs) = None ->
  eval (call_fn fs) ptab (sc3 ps po pa u o a) fuel rbac_matcher =
  EV (VBool (has_link (f_rm_max fs) (f_rm fs) u ps None && teqb o po && teqb a pa)).
Proof.
  intros Hg Hu. unfold rbac_matcher, ev_.
  apply ev_and_bools; [apply ev_and_bools|].
  - rewrite (ev_call2 _ _ _ fuel (T "g") _ _ (VStr u) (VStr ps));
      [rewrite (call_g2 fs u ps Hg Hu); reflexivity| |]; apply ev_var; reflexivity.
  - apply ev_eq_strs; apply ev_var; reflexivity.
  - apply ev_eq_strs; apply ev_var; reflexivity.
Qed.

Lemma length3 : forall (r : rule), length r = 3 -> exists x y z, r = [x; y; z].
Proof.
  intros [|x [|y [|z [|w r]]]] H; try discriminate. exists x, y, z. reflexivity.
Qed.

Lemma length4 : forall (r : rule), length r = 4 -> exists x y z w, r = [x; y; z; w].
Proof.
  intros [|x [|y [|z [|w [|v r]]]]] H; try discriminate. exists x, y, z, w. reflexivity.
Qed.

Lemma p_arityb_spec : forall n s, p_arityb n s = true <->
  forall r, In r (m_get_policy (e_model s) s_p s_p) -> length r = n.
Proof.
  intros n s. unfold p_arityb. rewrite forallb_forall. split.
  - intros H r Hr. apply Nat.eqb_eq, H, Hr.
  - intros H r Hr. apply Nat.eqb_eq, H, Hr.
Qed.

Lemma is_allow_override_spec v : is_allow_override v = true -> parse_erule v = Some AllowOverride.
Proof.
  unfold is_allow_override. destruct (parse_erule v) as [[| | |]|]; try discriminate. reflexivity.
Qed.

(* the per-rule test of the plain RBAC matcher *)
Definition match3 (s : estate) (u o a : text) (r : rule) : bool :=
  has_link (f_rm_max (e_fs s)) (f_rm (e_fs s)) u (nth 0 r []) None
  && teqb o (nth 1 r []) && teqb a (nth 2 r []).

Lemma existsb_is_allow_map {A} (f : A -> bool) l :
  existsb is_allow (map (fun x => if f x then Allow else Indet) l) = existsb f l.
Proof.
  induction l as [|x l IH]; cbn [map existsb]; [reflexivity|].
  rewrite IH. destruct (f x); reflexivity.
Qed.

(* enforcement of a plain RBAC configuration, in closed form: never an error *)
Theorem enforce_rbac_closed : forall ptab s u o a,
  rbac_eq s = true -> p_arityb 3 s = true ->
  enforce ptab s [VStr u; VStr o; VStr a] =
  Ok (match m_get_policy (e_model s) s_p s_p with
      | [] => match3 s u o a []
      | rules => existsb (match3 s u o a) rules
      end).
Proof.
  intros ptab s u o a Hsc Har. apply scope_core_spec in Hsc.
  destruct Hsc as [(ra & Hr & Hrt) (pa & Hp & Hpt) _ (ea & He & Hev) (ma & Hm) Hmx Hgf Huf Hen].
  apply toks_eqb_eq in Hpt. symmetry in Hpt. apply is_allow_override_spec in Hev.
  rewrite p_arityb_spec in Har. unfold m_get_policy in *. rewrite Hp in *.
  rewrite (enforce_unfold ptab s _ ra pa ma ea AllowOverride rbac_matcher Hr Hp Hm He Hen)
    by (rewrite ?Hrt; auto).
  rewrite Hrt, Hpt. cbv zeta.
  destruct (a_policy pa) as [|r0 rules] eqn:Hpol.
  - unfold eval_matcher.
    change (bind p_toks3 (map (fun _ : text => VStr []) p_toks3)
                 (bind r_toks3 [VStr u; VStr o; VStr a] [])) with (sc3 [] [] [] u o a).
    rewrite (eval_rbac_matcher ptab (e_fs s) eval_fuel [] [] [] u o a Hgf Huf).
    unfold match3. cbn [nth].
    destruct (has_link _ _ u [] None && teqb o [] && teqb a []); reflexivity.
  - rewrite <- Hpol in *. clear Hpol r0 rules.
    assert (Hmap : map (rule_outcome ptab (e_fs s) rbac_matcher (tok s_p s_eft) p_toks3
                          (bind r_toks3 [VStr u; VStr o; VStr a] [])) (a_policy pa) =
                   map Ok (map (fun r => if match3 s u o a r then Allow else Indet) (a_policy pa))).
    { rewrite map_map. apply map_ext_in. intros r Hin.
      destruct (length3 r (Har r Hin)) as (x & y & z & ->).
      unfold rule_outcome.
      change (negb (Nat.eqb (length p_toks3) (length [x; y; z]))) with false. cbv iota.
      unfold eval_matcher.
      change (bind p_toks3 (map VStr [x; y; z])
                   (bind r_toks3 [VStr u; VStr o; VStr a] [])) with (sc3 x y z u o a).
      rewrite (eval_rbac_matcher ptab (e_fs s) eval_fuel x y z u o a Hgf Huf).
      unfold match3. cbn [nth].
      destruct (has_link _ _ u x None && teqb o y && teqb a z); reflexivity. }
    rewrite Hmap, perm_combine_all_ok. cbn [app decl].
    rewrite existsb_is_allow_map.
    destruct (a_policy pa); reflexivity.
Qed.

(* ================= F. filtered listings; implicit permissions (items 2, 3) ================= *)

Lemma select_filtered_filter : forall idx vals l,
  (forall r, In r l -> fmatch vals (skipn idx r) <> None) ->
  select_filtered idx vals l = Some (filter (fsel idx vals) l).
Proof.
  intros idx vals. induction l as [|r l IH]; intros H; cbn [select_filtered filter]; [reflexivity|].
  unfold fsel at 1.
  destruct (fmatch vals (skipn idx r)) as [b|] eqn:E.
  - rewrite IH by (intros r' Hr'; apply H; right; exact Hr').
    destruct b; reflexivity.
  - exfalso. apply (H r); [left; reflexivity|exact E].
Qed.

(* the converse shape: a successful selection is the filter *)
Lemma select_filtered_some : forall idx vals l sel,
  select_filtered idx vals l = Some sel -> sel = filter (fsel idx vals) l.
Proof.
  intros idx vals. induction l as [|r l IH]; intros sel H; cbn [select_filtered filter] in *.
  - inversion H. reflexivity.
  - unfold fsel at 1. destruct (fmatch vals (skipn idx r)) as [b|]; [|discriminate].
    destruct (select_filtered idx vals l) as [s0|]; [|discriminate].
    inversion H. rewrite (IH s0 eq_refl). destruct b; reflexivity.
Qed.

Lemma concat_opt_map_some {A B} (f : A -> option (list B)) (g : A -> list B) : forall l,
  (forall x, In x l -> f x = Some (g x)) -> concat_opt (map f l) = Some (flat_map g l).
Proof.
  induction l as [|x l IH]; intros H; cbn [map concat_opt flat_map]; [reflexivity|].
  rewrite (H x) by (left; reflexivity).
  rewrite IH by (intros y Hy; apply H; right; exact Hy). reflexivity.
Qed.

(* a one-value filter at index 0 on a non-empty rule *)
Lemma fmatch_one : forall x (r : rule), r <> [] ->
  fmatch [x] (skipn 0 r) = Some (teqb x [] || teqb (hd [] r) x).
Proof.
  intros x [|f fs] Hne; [contradiction|]. cbn [skipn fmatch hd tl].
  destruct (teqb x []); [reflexivity|]. cbn [orb]. destruct (teqb f x); reflexivity.
Qed.

Lemma fsel_one : forall x (r : rule), r <> [] ->
  fsel 0 [x] r = teqb x [] || teqb (hd [] r) x.
Proof.
  intros x r Hne. unfold fsel. rewrite (fmatch_one x r Hne).
  destruct (teqb x [] || teqb (hd [] r) x); reflexivity.
Qed.

Definition p_rules (s : estate) : list rule := m_get_policy (e_model s) s_p s_p.
Definition g_rules (s : estate) : list rule := m_get_policy (e_model s) s_g s_g.

Lemma perms_for_user_plain : forall s x,
  (forall r, In r (p_rules s) -> r <> []) ->
  perms_for_user s x None = Some (filter (fsel 0 [x]) (p_rules s)).
Proof.
  intros s x Hne. unfold perms_for_user, m_get_filtered. apply select_filtered_filter.
  intros r Hr. rewrite (fmatch_one x r (Hne r Hr)). discriminate.
Qed.

(* item 2, exact form: the listing is the concatenation, over the user and
   its implicit roles, of the rules selected by that name *)
Theorem implicit_perms_exact : forall s u,
  (forall r, In r (p_rules s) -> r <> []) ->
  implicit_perms s u None =
  Some (flat_map (fun x => filter (fsel 0 [x]) (p_rules s)) (u :: implicit_roles s u None)).
Proof.
  intros s u Hne. unfold implicit_perms. apply concat_opt_map_some.
  intros x _. apply perms_for_user_plain, Hne.
Qed.

Lemma nonempty_names_spec : forall s u d, nonempty_names s u d = true <->
  ~ In [] (u :: implicit_roles s u d).
Proof.
  intros s u d. unfold nonempty_names. rewrite negb_true_iff. apply memb_not_In.
Qed.

(* item 2, membership form *)
Theorem implicit_perms_spec : forall s u l rule,
  wf (f_rm (e_fs s)) -> (forall r, In r (p_rules s) -> r <> []) ->
  nonempty_names s u None = true ->
  implicit_perms s u None = Some l ->
  (In rule l <-> In rule (p_rules s) /\
                 (hd [] rule = u \/ clos_trans text (Edge (f_rm (e_fs s)) None) u (hd [] rule))).
Proof.
  intros s u l rule Hwf Hne Hnn Hl.
  assert (Hl' : l = flat_map (fun x => filter (fsel 0 [x]) (p_rules s))
                             (u :: implicit_roles s u None)).
  { rewrite (implicit_perms_exact s u Hne) in Hl. congruence. }
  rewrite Hl'. clear Hl Hl' l. apply nonempty_names_spec in Hnn.
  rewrite in_flat_map. split.
  - intros (x & Hx & Hin). apply filter_In in Hin. destruct Hin as [Hin Hsel].
    split; [exact Hin|]. rewrite (fsel_one x rule (Hne rule Hin)) in Hsel.
    assert (Hx0 : teqb x [] = false).
    { apply teqb_neq. intros ->. apply Hnn, Hx. }
    rewrite Hx0 in Hsel. cbn [orb] in Hsel. apply teqb_eq in Hsel. rewrite Hsel.
    destruct Hx as [<-|Hx]; [left; reflexivity|right].
    apply (implicit_roles_spec s u None x Hwf), Hx.
  - intros (Hin & Hsub). exists (hd [] rule). split.
    + destruct Hsub as [->|Hsub]; [left; reflexivity|right].
      apply (implicit_roles_spec s u None _ Hwf), Hsub.
    + apply filter_In. split; [exact Hin|].
      rewrite (fsel_one _ rule (Hne rule Hin)), teqb_refl. apply orb_true_r.
Qed.

Lemma has_link_implicit : forall s u x d,
  wf (f_rm (e_fs s)) -> shallow (f_rm_max (e_fs s)) (f_rm (e_fs s)) d ->
  (has_link (f_rm_max (e_fs s)) (f_rm (e_fs s)) u x d = true <->
   In x (u :: implicit_roles s u d)).
Proof.
  intros s u x d Hwf Hsh. rewrite (has_link_iff _ _ d u x Hwf Hsh). cbn [In].
  rewrite (implicit_roles_spec s u d x Hwf). reflexivity.
Qed.

Lemma arity_nonempty : forall n s, p_arityb (S n) s = true ->
  forall r, In r (p_rules s) -> r <> [].
Proof.
  intros n s H r Hr. rewrite p_arityb_spec in H. specialize (H r Hr).
  intros ->. discriminate.
Qed.

(* item 3: a request is granted exactly when it appears among the subject's
   implicit permissions; never an error *)
Theorem enforce_eq_perm : forall ptab s u o a,
  rbac_eq s = true -> p_arityb 3 s = true ->
  wf (f_rm (e_fs s)) -> shallow (f_rm_max (e_fs s)) (f_rm (e_fs s)) None ->
  nonempty_names s u None = true ->
  exists l, implicit_perms s u None = Some l /\
    enforce ptab s [VStr u; VStr o; VStr a] = Ok (existsb (fun rule => reqb (tl rule) [o; a]) l).
Proof.
  intros ptab s u o a Hsc Har Hwf Hsh Hnn.
  pose proof (arity_nonempty 2 s Har) as Hne.
  eexists. split; [apply (implicit_perms_exact s u Hne)|].
  rewrite (enforce_rbac_closed ptab s u o a Hsc Har). f_equal.
  pose proof Hnn as Hnn'. apply nonempty_names_spec in Hnn'.
  fold (p_rules s). rewrite p_arityb_spec in Har. fold (p_rules s) in Har.
  assert (Hgoal : existsb (match3 s u o a) (p_rules s) =
                  existsb (fun rule => reqb (tl rule) [o; a])
                          (flat_map (fun x => filter (fsel 0 [x]) (p_rules s))
                                    (u :: implicit_roles s u None))).
  { apply eq_true_iff_eq. rewrite !existsb_exists. split.
    - intros (r & Hr & Hm). destruct (length3 r (Har r Hr)) as (x & y & z & ->).
      unfold match3 in Hm. cbn [nth] in Hm.
      apply andb_true_iff in Hm. destruct Hm as [Hm Ha]. apply andb_true_iff in Hm.
      destruct Hm as [Hl Ho]. apply teqb_eq in Ha. apply teqb_eq in Ho. subst y z.
      exists [x; o; a]. split; [|apply reqb_refl].
      apply in_flat_map. exists x. split.
      + apply (has_link_implicit s u x None Hwf Hsh), Hl.
      + apply filter_In. split; [exact Hr|].
        rewrite fsel_one by discriminate. cbn [hd]. rewrite teqb_refl. apply orb_true_r.
    - intros (r & Hr & Ht). apply in_flat_map in Hr. destruct Hr as (x & Hx & Hr).
      apply filter_In in Hr. destruct Hr as [Hr Hsel].
      destruct (length3 r (Har r Hr)) as (x' & y & z & ->).
      rewrite fsel_one in Hsel by discriminate. cbn [hd] in Hsel.
      assert (Hx0 : teqb x [] = false).
      { apply teqb_neq. intros ->. apply Hnn', Hx. }
      rewrite Hx0 in Hsel. cbn [orb] in Hsel. apply teqb_eq in Hsel. subst x'.
      cbn [tl] in Ht. apply reqb_eq in Ht. inversion Ht; subst y z.
      exists [x; o; a]. split; [exact Hr|]. unfold match3. cbn [nth].
      rewrite !teqb_refl, !andb_true_r.
      apply (has_link_implicit s u x None Hwf Hsh), Hx. }
  destruct (p_rules s) as [|r0 rules] eqn:Hpol; [|exact Hgoal].
  cbn [existsb] in Hgoal. rewrite <- Hgoal.
  (* empty store: the single evaluation against empty policy values *)
  unfold match3. cbn [nth].
  destruct (has_link _ _ u [] None) eqn:Hl; [|reflexivity].
  exfalso. apply Hnn'. apply (has_link_implicit s u [] None Hwf Hsh), Hl.
Qed.

Theorem enforce_iff_perm : forall ptab s u o a l,
  rbac_eq s = true -> p_arityb 3 s = true ->
  wf (f_rm (e_fs s)) -> shallow (f_rm_max (e_fs s)) (f_rm (e_fs s)) None ->
  nonempty_names s u None = true ->
  implicit_perms s u None = Some l ->
  (enforce ptab s [VStr u; VStr o; VStr a] = Ok true <->
   exists rule, In rule l /\ tl rule = [o; a]) /\
  (enforce ptab s [VStr u; VStr o; VStr a] = Ok false <->
   ~ exists rule, In rule l /\ tl rule = [o; a]).
Proof.
  intros ptab s u o a l Hsc Har Hwf Hsh Hnn Hl.
  destruct (enforce_eq_perm ptab s u o a Hsc Har Hwf Hsh Hnn) as (l' & Hl' & He).
  rewrite Hl in Hl'. inversion Hl'; subst l'. rewrite He.
  assert (Hex : existsb (fun rule => reqb (tl rule) [o; a]) l = true <->
                exists rule, In rule l /\ tl rule = [o; a]).
  { rewrite existsb_exists. split; intros (r & Hr & Ht); exists r; (split; [exact Hr|]);
      apply reqb_eq; exact Ht. }
  split.
  - rewrite <- Hex. split; [intros H; inversion H; reflexivity|intros ->; reflexivity].
  - rewrite <- Hex. split.
    + intros H. inversion H as [H']. rewrite H'. discriminate.
    + intros H. apply not_true_is_false in H. rewrite H. reflexivity.
Qed.

(* ================= G. what a management step does to the state ================= *)

Lemma get_ast_set_same : forall md sec k a a0,
  get_ast md sec k = Some a0 -> get_ast (set_ast md sec k a) sec k = Some a.
Proof.
  intros md sec k a a0 H. unfold get_ast, set_ast in *.
  destruct (assoc sec md) as [am|] eqn:E; [|discriminate].
  rewrite assoc_set_same. apply assoc_set_same.
Qed.

Lemma get_ast_set_other : forall md sec k a sec' k',
  sec' <> sec \/ k' <> k -> get_ast (set_ast md sec k a) sec' k' = get_ast md sec' k'.
Proof.
  intros md sec k a sec' k' Hne. unfold get_ast, set_ast.
  destruct (assoc sec md) as [am|] eqn:E; [|reflexivity].
  destruct (text_eq_dec sec' sec) as [->|Hs].
  - rewrite assoc_set_same, E. destruct Hne as [Hne|Hne]; [contradiction|].
    apply assoc_set_other. auto.
  - rewrite assoc_set_other by auto. reflexivity.
Qed.

Definition ast_frame (a a' : assertion) : Prop :=
  a_value a' = a_value a /\ a_tokens a' = a_tokens a /\
  (a_handle a' = a_handle a \/ a_handle a' = HCur).

(* same definitions (keys, values, tokens); a handle may have been redirected
   to the enforcer's manager *)
Definition model_frame (md md' : model) : Prop :=
  forall sec k, match get_ast md sec k with
                | Some a => exists a', get_ast md' sec k = Some a' /\ ast_frame a a'
                | None => get_ast md' sec k = None
                end.

Lemma ast_frame_refl a : ast_frame a a.
Proof. repeat split; auto. Qed.

Lemma ast_frame_trans a b c : ast_frame a b -> ast_frame b c -> ast_frame a c.
Proof.
  intros (H1 & H2 & H3) (H4 & H5 & H6). split; [congruence|]. split; [congruence|].
  destruct H6 as [H6|H6]; [|right; exact H6]. rewrite H6. exact H3.
Qed.

Lemma model_frame_refl md : model_frame md md.
Proof.
  intros sec k. destruct (get_ast md sec k) as [a|]; [|reflexivity].
  exists a. split; [reflexivity|apply ast_frame_refl].
Qed.

Lemma model_frame_trans m1 m2 m3 : model_frame m1 m2 -> model_frame m2 m3 -> model_frame m1 m3.
Proof.
  intros H1 H2 sec k. specialize (H1 sec k). specialize (H2 sec k).
  destruct (get_ast m1 sec k) as [a|].
  - destruct H1 as (a' & Ha' & Hf). rewrite Ha' in H2. destruct H2 as (a'' & Ha'' & Hf').
    exists a''. split; [exact Ha''|]. apply (ast_frame_trans a a' a''); assumption.
  - rewrite H1 in H2. exact H2.
Qed.

Lemma model_frame_set : forall md sec k a a',
  get_ast md sec k = Some a -> ast_frame a a' -> model_frame md (set_ast md sec k a').
Proof.
  intros md sec k a a' Ha Hf sec' k'.
  destruct (text_eq_dec sec' sec) as [->|Hs].
  - destruct (text_eq_dec k' k) as [->|Hk].
    + rewrite Ha. exists a'. split; [apply (get_ast_set_same md sec k a' a Ha)|exact Hf].
    + rewrite get_ast_set_other by auto.
      destruct (get_ast md sec k') as [b|]; [|reflexivity].
      exists b. split; [reflexivity|apply ast_frame_refl].
  - rewrite get_ast_set_other by auto.
    destruct (get_ast md sec' k') as [b|]; [|reflexivity].
    exists b. split; [reflexivity|apply ast_frame_refl].
Qed.

Lemma policy_set_same : forall md sec k a l,
  get_ast md sec k = Some a -> m_get_policy (set_ast md sec k (with_policy a l)) sec k = l.
Proof.
  intros md sec k a l Ha. unfold m_get_policy.
  rewrite (get_ast_set_same md sec k _ a Ha). reflexivity.
Qed.

Lemma policy_set_other : forall md sec k a sec' k',
  sec' <> sec \/ k' <> k -> m_get_policy (set_ast md sec k a) sec' k' = m_get_policy md sec' k'.
Proof.
  intros md sec k a sec' k' Hne. unfold m_get_policy.
  rewrite get_ast_set_other by exact Hne. reflexivity.
Qed.

(* a model-level policy change on (sec, pt) *)
Definition pol_change (md md' : model) (sec pt : text) (l' : list rule) : Prop :=
  model_frame md md' /\
  (forall sec' pt', sec' <> sec \/ pt' <> pt -> m_get_policy md' sec' pt' = m_get_policy md sec' pt') /\
  m_get_policy md' sec pt = l'.

Lemma pol_change_refl md sec pt : pol_change md md sec pt (m_get_policy md sec pt).
Proof. split; [apply model_frame_refl|]. split; [reflexivity|reflexivity]. Qed.

Lemma pol_change_set md sec pt a l :
  get_ast md sec pt = Some a -> pol_change md (set_ast md sec pt (with_policy a l)) sec pt l.
Proof.
  intros Ha. split; [|split].
  - apply (model_frame_set md sec pt a); [exact Ha|]. repeat split; auto.
  - intros sec' pt' Hne. apply policy_set_other, Hne.
  - apply policy_set_same, Ha.
Qed.

Lemma m_add_policy_change : forall md sec pt r md' b,
  m_add_policy md sec pt r = (md', b) ->
  pol_change md md' sec pt (if b then m_get_policy md sec pt ++ [r] else m_get_policy md sec pt).
Proof.
  intros md sec pt r md' b H. unfold m_add_policy in H.
  destruct (get_ast md sec pt) as [a|] eqn:Ha.
  - destruct (rmem r (a_policy a)); inversion H; subst.
    + apply pol_change_refl.
    + unfold m_get_policy at 1. rewrite Ha. apply pol_change_set, Ha.
  - inversion H; subst. apply pol_change_refl.
Qed.

Lemma m_add_policies_change : forall md sec pt rs md' b,
  m_add_policies md sec pt rs = (md', b) ->
  pol_change md md' sec pt
             (if b then fold_left ins_new rs (m_get_policy md sec pt) else m_get_policy md sec pt).
Proof.
  intros md sec pt rs md' b H. unfold m_add_policies in H.
  destruct rs as [|r0 rs0]; [inversion H; subst; apply pol_change_refl|].
  destruct (get_ast md sec pt) as [a|] eqn:Ha.
  - destruct (existsb _ (r0 :: rs0)); inversion H; subst.
    + apply pol_change_refl.
    + unfold m_get_policy at 1. rewrite Ha. apply pol_change_set, Ha.
  - inversion H; subst. apply pol_change_refl.
Qed.

Lemma m_remove_policy_change : forall md sec pt r md' b,
  m_remove_policy md sec pt r = (md', b) ->
  pol_change md md' sec pt (if b then rremove r (m_get_policy md sec pt) else m_get_policy md sec pt).
Proof.
  intros md sec pt r md' b H. unfold m_remove_policy in H.
  destruct (get_ast md sec pt) as [a|] eqn:Ha.
  - destruct (rmem r (a_policy a)); inversion H; subst.
    + unfold m_get_policy at 1. rewrite Ha. apply pol_change_set, Ha.
    + apply pol_change_refl.
  - inversion H; subst. apply pol_change_refl.
Qed.

Lemma m_remove_policies_change : forall md sec pt rs md' b,
  m_remove_policies md sec pt rs = (md', b) ->
  pol_change md md' sec pt
             (if b then fold_left (fun l r => rremove r l) rs (m_get_policy md sec pt)
              else m_get_policy md sec pt).
Proof.
  intros md sec pt rs md' b H. unfold m_remove_policies in H.
  destruct rs as [|r0 rs0]; [inversion H; subst; apply pol_change_refl|].
  destruct (get_ast md sec pt) as [a|] eqn:Ha.
  - destruct (forallb _ (r0 :: rs0)); inversion H; subst.
    + unfold m_get_policy at 1. rewrite Ha. apply pol_change_set, Ha.
    + apply pol_change_refl.
  - inversion H; subst. apply pol_change_refl.
Qed.

(* removing, one by one, the rules selected by a predicate = filtering them out *)
Lemma rremove_filter : forall r (l : list rule) (f : rule -> bool),
  rremove r (filter f l) = filter f (rremove r l).
Proof.
  intros r l f. unfold rremove. induction l as [|x l IH]; cbn [filter]; [reflexivity|].
  destruct (f x) eqn:Ef; cbn [filter]; destruct (negb (reqb x r)) eqn:Er; cbn [filter];
    rewrite ?Ef, IH; reflexivity.
Qed.

Lemma filter_all : forall {A} (f : A -> bool) l, (forall x, In x l -> f x = true) -> filter f l = l.
Proof.
  intros A f. induction l as [|x l IH]; intros H; cbn [filter]; [reflexivity|].
  rewrite (H x) by (left; reflexivity). f_equal. apply IH. intros y Hy. apply H. right. exact Hy.
Qed.

Lemma filter_rremove_absorb : forall (f : rule -> bool) r0 l, f r0 = true ->
  filter (fun r => negb (f r)) (rremove r0 l) = filter (fun r => negb (f r)) l.
Proof.
  intros f r0 l Hf. unfold rremove. induction l as [|x l IH]; cbn [filter]; [reflexivity|].
  destruct (reqb x r0) eqn:E; cbn [negb filter].
  - apply reqb_eq in E. subst x. rewrite Hf. cbn [negb]. exact IH.
  - rewrite IH. reflexivity.
Qed.

Lemma fold_rremove_filter : forall (f : rule -> bool) (l0 l : list rule),
  (forall r, In r l0 -> f r = true) ->
  (forall r, In r l -> f r = true -> In r l0) ->
  fold_left (fun l r => rremove r l) l0 l = filter (fun r => negb (f r)) l.
Proof.
  intros f. induction l0 as [|r0 l0 IH]; intros l H1 H2; cbn [fold_left].
  - symmetry. apply filter_all. intros r Hr.
    destruct (f r) eqn:E; [|reflexivity]. destruct (H2 r Hr E).
  - rewrite (IH (rremove r0 l)).
    + apply filter_rremove_absorb. apply H1. left. reflexivity.
    + intros r Hr. apply H1. right. exact Hr.
    + intros r Hr Hf. unfold rremove in Hr. apply filter_In in Hr. destruct Hr as [Hr Hne].
      destruct (H2 r Hr Hf) as [<-|Hin]; [|exact Hin].
      rewrite reqb_refl in Hne. discriminate.
Qed.

Lemma filter_none_nil : forall {A} (f : A -> bool) l,
  filter f l = [] -> forall x, In x l -> f x = false.
Proof.
  intros A f l H x Hx. destruct (f x) eqn:E; [|reflexivity].
  assert (Hin : In x (filter f l)) by (apply filter_In; split; assumption).
  rewrite H in Hin. destruct Hin.
Qed.

Lemma m_remove_filtered_change : forall md sec pt idx vals md' b rs,
  m_remove_filtered md sec pt idx vals = Some (md', b, rs) ->
  let pol := m_get_policy md sec pt in
  match vals with
  | [] => md' = md /\ rs = [] /\ b = false
  | _ => pol_change md md' sec pt (filter (fun r => negb (fsel idx vals r)) pol) /\
         rs = filter (fsel idx vals) pol /\ (b = false -> rs = [])
  end.
Proof.
  intros md sec pt idx vals md' b rs H pol. unfold m_remove_filtered in H.
  destruct vals as [|v vs]; [inversion H; subst; auto|].
  unfold pol, m_get_policy. destruct (get_ast md sec pt) as [a|] eqn:Ha.
  - destruct (select_filtered idx (v :: vs) (a_policy a)) as [rem|] eqn:Hs; [|discriminate].
    apply select_filtered_some in Hs.
    destruct rem as [|r0 rem'].
    + inversion H; subst. split; [|split; [exact Hs|reflexivity]].
      replace (filter (fun r => negb (fsel idx (v :: vs) r)) (a_policy a)) with (a_policy a).
      * pose proof (pol_change_refl md' sec pt) as Hc. unfold m_get_policy in Hc.
        rewrite Ha in Hc. exact Hc.
      * symmetry. apply filter_all. intros x Hx.
        rewrite (filter_none_nil _ _ (eq_sym Hs) x Hx). reflexivity.
    + inversion H; subst md' b rs. clear H. split; [|split; [exact Hs|discriminate]].
      change (fold_left (fun (l : list rule) (r : rule) => rremove r l) rem'
                        (rremove r0 (a_policy a)))
        with (fold_left (fun (l : list rule) (r : rule) => rremove r l) (r0 :: rem') (a_policy a)).
      rewrite Hs.
      rewrite (fold_rremove_filter (fsel idx (v :: vs))).
      * apply pol_change_set, Ha.
      * intros r Hr. apply filter_In in Hr. apply Hr.
      * intros r Hr Hf. apply filter_In. split; assumption.
  - inversion H; subst. cbn [filter]. split; [|split; reflexivity].
    pose proof (pol_change_refl md' sec pt) as Hc. unfold m_get_policy in Hc.
    rewrite Ha in Hc. exact Hc.
Qed.

(* ---- state level ---- *)
Definition fs_frame (fs fs' : fstate) : Prop :=
  f_rm_max fs' = f_rm_max fs /\ f_gfuns fs' = f_gfuns fs /\ f_ufuns fs' = f_ufuns fs.

Definition st_frame (s s' : estate) : Prop :=
  model_frame (e_model s) (e_model s') /\ fs_frame (e_fs s) (e_fs s') /\
  e_mexprs s' = e_mexprs s /\ e_enabled s' = e_enabled s /\
  e_auto_build s' = e_auto_build s /\ e_auto_save s' = e_auto_save s.

Lemma fs_frame_refl fs : fs_frame fs fs.
Proof. repeat split. Qed.

Lemma st_frame_refl s : st_frame s s.
Proof. split; [apply model_frame_refl|]. repeat split. Qed.

Lemma st_frame_trans s1 s2 s3 : st_frame s1 s2 -> st_frame s2 s3 -> st_frame s1 s3.
Proof.
  intros (A1 & (A2 & A3 & A4) & A5 & A6 & A7 & A8) (B1 & (B2 & B3 & B4) & B5 & B6 & B7 & B8).
  split; [apply (model_frame_trans _ _ _ A1 B1)|].
  repeat split; congruence.
Qed.

(* the fields the theorems read are untouched by adapter and watcher updates *)
Definition core_eq (s s' : estate) : Prop :=
  e_model s' = e_model s /\ e_fs s' = e_fs s /\ e_mexprs s' = e_mexprs s /\
  e_enabled s' = e_enabled s /\ e_auto_build s' = e_auto_build s /\
  e_auto_save s' = e_auto_save s.

Lemma core_eq_refl s : core_eq s s.
Proof. repeat split. Qed.

Lemma core_upd_adapter s ad : core_eq s (upd_adapter s ad).
Proof. repeat split. Qed.

Lemma core_emit_mgmt s c ev : core_eq s (emit_mgmt s c ev).
Proof.
  unfold emit_mgmt, emit. destruct (c && e_auto_notify s); [|apply core_eq_refl].
  destruct (e_watcher s); repeat split.
Qed.

Lemma core_eq_frame s s' : core_eq s s' -> st_frame s s'.
Proof.
  intros (H1 & H2 & H3 & H4 & H5 & H6). unfold st_frame. rewrite H1, H2.
  split; [apply model_frame_refl|]. split; [apply fs_frame_refl|]. auto.
Qed.

Lemma policy_with_handle : forall md sec k a h sec' k',
  get_ast md sec k = Some a ->
  m_get_policy (set_ast md sec k (with_handle a h)) sec' k' = m_get_policy md sec' k'.
Proof.
  intros md sec k a h sec' k' Ha.
  destruct (text_eq_dec sec' sec) as [->|Hs]; [destruct (text_eq_dec k' k) as [->|Hk]|].
  - unfold m_get_policy. rewrite (get_ast_set_same md sec k _ a Ha), Ha. reflexivity.
  - apply policy_set_other. auto.
  - apply policy_set_other. auto.
Qed.

Definition rm_after (s s' : estate) (pt : text) (insert : bool) (rs : list rule) : Prop :=
  f_rm (e_fs s') = f_rm (e_fs s) \/
  (e_auto_build s = true /\
   exists a, get_ast (e_model s) s_g pt = Some a /\
     f_rm (e_fs s') = fst (link_rules (count_us (a_value a)) insert (f_rm (e_fs s)) rs)).

Lemma incremental_links_spec : forall s pt insert rs s' e,
  incremental_links s pt insert rs = (s', e) ->
  st_frame s s' /\
  (forall sec k, m_get_policy (e_model s') sec k = m_get_policy (e_model s) sec k) /\
  (f_rm (e_fs s') = f_rm (e_fs s) \/
   exists a, get_ast (e_model s) s_g pt = Some a /\
     f_rm (e_fs s') = fst (link_rules (count_us (a_value a)) insert (f_rm (e_fs s)) rs)).
Proof.
  intros s pt insert rs s' e H. unfold incremental_links in H.
  destruct (get_ast (e_model s) s_g pt) as [a|] eqn:Ha.
  - destruct (Nat.ltb (count_us (a_value a)) 2).
    + inversion H; subst. split; [apply st_frame_refl|]. split; [reflexivity|left; reflexivity].
    + destruct (link_rules (count_us (a_value a)) insert (f_rm (e_fs s)) rs) as [m' [|c]] eqn:Hl;
        inversion H; subst s' e; clear H.
      * split; [|split].
        -- unfold st_frame. cbn [upd_fs upd_model e_model e_fs e_mexprs e_enabled e_auto_build
                                  e_auto_save set_rm].
           split; [|repeat split].
           apply (model_frame_set _ s_g pt a); [exact Ha|]. repeat split; auto.
        -- intros sec k. cbn [upd_fs upd_model e_model]. apply policy_with_handle, Ha.
        -- right. exists a. split; [reflexivity|]. rewrite Hl. reflexivity.
      * split; [|split].
        -- unfold st_frame. cbn [upd_fs e_model e_fs e_mexprs e_enabled e_auto_build e_auto_save set_rm].
           split; [apply model_frame_refl|repeat split].
        -- reflexivity.
        -- right. exists a. split; [reflexivity|]. rewrite Hl. reflexivity.
  - inversion H; subst. split; [apply st_frame_refl|]. split; [reflexivity|left; reflexivity].
Qed.

(* the result of a management call on one table *)
Record mgmt_shape (s s' : estate) (sec pt : text) (pol' : list rule)
       (insert : bool) (rs : list rule) : Prop := {
  ms_frame : st_frame s s';
  ms_other : forall sec' pt', sec' <> sec \/ pt' <> pt ->
               m_get_policy (e_model s') sec' pt' = m_get_policy (e_model s) sec' pt';
  ms_pol : m_get_policy (e_model s') sec pt = pol';
  ms_rm : f_rm (e_fs s') = f_rm (e_fs s) \/ (sec = s_g /\ rm_after s s' pt insert rs);
}.

Lemma shape_unchanged s s' sec pt insert rs :
  core_eq s s' -> mgmt_shape s s' sec pt (m_get_policy (e_model s) sec pt) insert rs.
Proof.
  intros Hc. pose proof Hc as (H1 & H2 & _). constructor.
  - apply core_eq_frame, Hc.
  - intros sec' pt' _. rewrite H1. reflexivity.
  - rewrite H1. reflexivity.
  - left. rewrite H2. reflexivity.
Qed.

(* common tail: the model was updated (s2), then possibly the incremental
   role-link update ran *)
Lemma shape_tail s s2 s' sec pt pol' insert rs :
  pol_change (e_model s) (e_model s2) sec pt pol' ->
  e_fs s2 = e_fs s -> e_mexprs s2 = e_mexprs s -> e_enabled s2 = e_enabled s ->
  e_auto_build s2 = e_auto_build s -> e_auto_save s2 = e_auto_save s ->
  (s' = s2 \/ (sec = s_g /\ e_auto_build s2 = true /\
               exists e, incremental_links s2 pt insert rs = (s', e))) ->
  mgmt_shape s s' sec pt pol' insert rs.
Proof.
  intros (Hf & Ho & Hp) Hfs Hmx Hen Hab Has Htail.
  assert (F2 : st_frame s s2).
  { unfold st_frame. rewrite Hfs. split; [exact Hf|]. split; [apply fs_frame_refl|]. auto. }
  destruct Htail as [->|(Hsec & Hb & e & Hi)].
  - constructor; [exact F2|exact Ho|exact Hp|left; rewrite Hfs; reflexivity].
  - apply incremental_links_spec in Hi. destruct Hi as (F3 & Hpol & Hrm).
    constructor.
    + apply (st_frame_trans s s2 s' F2 F3).
    + intros sec' pt' Hne. rewrite Hpol. apply Ho, Hne.
    + rewrite Hpol. exact Hp.
    + destruct Hrm as [Hrm|(a2 & Ha2 & Hrm)]; [left; rewrite Hrm, Hfs; reflexivity|].
      right. split; [exact Hsec|]. right. split; [rewrite <- Hab; exact Hb|].
      (* the definition found in s2 has the value it had in s *)
      specialize (Hf s_g pt). destruct (get_ast (e_model s) s_g pt) as [a|] eqn:Ha.
      * destruct Hf as (a' & Ha' & (Hv & _)). rewrite Ha2 in Ha'. inversion Ha'; subst a'.
        exists a. split; [reflexivity|]. rewrite Hrm, Hv, Hfs. reflexivity.
      * rewrite Ha2 in Hf. discriminate.
Qed.

Lemma after_change_tail s2 sec pt changed insert rs s' out :
  after_change s2 sec pt changed insert rs = (s', out) ->
  s' = s2 \/ (sec = s_g /\ e_auto_build s2 = true /\
              exists e, incremental_links s2 pt insert rs = (s', e)).
Proof.
  unfold after_change. intros H.
  destruct (negb (teqb sec s_g) || negb (e_auto_build s2) || negb changed) eqn:E.
  - inversion H. left. reflexivity.
  - apply orb_false_iff in E. destruct E as [E _]. apply orb_false_iff in E.
    destruct E as [E1 E2]. apply negb_false_iff in E1. apply negb_false_iff in E2.
    apply teqb_eq in E1. right. split; [exact E1|]. split; [exact E2|].
    destruct (incremental_links s2 pt insert rs) as [s3 e] eqn:Hi. inversion H; subst.
    exists e. reflexivity.
Qed.

Ltac core_of_emit s1 md changed ev :=
  pose proof (core_emit_mgmt (upd_model s1 md) changed ev) as (?Hm & ?Hfs & ?Hmx & ?Hen & ?Hab & ?Has).

Theorem step_add_shape : forall s sec pt r s' out,
  step_add s sec pt r = (s', out) ->
  exists pol', (pol' = m_get_policy (e_model s) sec pt \/
                pol' = m_get_policy (e_model s) sec pt ++ [r]) /\
    mgmt_shape s s' sec pt pol' true [r].
Proof.
  intros s sec pt r s' out H. unfold step_add in H.
  destruct (if e_auto_save s then ad_add (e_adapter s) sec pt r else (e_adapter s, Ok true))
    as [ad ares].
  set (s1 := upd_adapter s ad) in *.
  assert (Hskip : (s1, ares) = (s', out) ->
                  exists pol', (pol' = m_get_policy (e_model s) sec pt \/
                                pol' = m_get_policy (e_model s) sec pt ++ [r]) /\
                               mgmt_shape s s' sec pt pol' true [r]).
  { intros E. inversion E; subst s'. eexists. split; [left; reflexivity|].
    apply shape_unchanged, core_upd_adapter. }
  destruct ares as [[|]|c|]; try (apply Hskip, H).
  destruct (m_add_policy (e_model s1) sec pt r) as [md added] eqn:Hm.
  apply m_add_policy_change in Hm.
  pose proof (core_emit_mgmt (upd_model s1 md) added (EvAdd sec pt r)) as (C1 & C2 & C3 & C4 & C5 & C6).
  apply after_change_tail in H.
  exists (if added then m_get_policy (e_model s) sec pt ++ [r] else m_get_policy (e_model s) sec pt).
  split; [destruct added; auto|].
  eapply shape_tail; [| | | | | |exact H]; try assumption.
  rewrite C1. exact Hm.
Qed.

Theorem step_add_many_shape : forall s sec pt rs s' out,
  step_add_many s sec pt rs = (s', out) ->
  exists pol', (pol' = m_get_policy (e_model s) sec pt \/
                pol' = fold_left ins_new rs (m_get_policy (e_model s) sec pt)) /\
    mgmt_shape s s' sec pt pol' true rs.
Proof.
  intros s sec pt rs s' out H. unfold step_add_many in H.
  destruct (if e_auto_save s then ad_add_many (e_adapter s) sec pt rs else (e_adapter s, Ok true))
    as [ad ares].
  set (s1 := upd_adapter s ad) in *.
  assert (Hskip : (s1, ares) = (s', out) ->
                  exists pol', (pol' = m_get_policy (e_model s) sec pt \/
                                pol' = fold_left ins_new rs (m_get_policy (e_model s) sec pt)) /\
                               mgmt_shape s s' sec pt pol' true rs).
  { intros E. inversion E; subst s'. eexists. split; [left; reflexivity|].
    apply shape_unchanged, core_upd_adapter. }
  destruct ares as [[|]|c|]; try (apply Hskip, H).
  destruct (m_add_policies (e_model s1) sec pt rs) as [md added] eqn:Hm.
  apply m_add_policies_change in Hm.
  pose proof (core_emit_mgmt (upd_model s1 md) added (EvAddMany sec pt rs))
    as (C1 & C2 & C3 & C4 & C5 & C6).
  apply after_change_tail in H.
  exists (if added then fold_left ins_new rs (m_get_policy (e_model s) sec pt)
          else m_get_policy (e_model s) sec pt).
  split; [destruct added; auto|].
  eapply shape_tail; [| | | | | |exact H]; try assumption.
  rewrite C1. exact Hm.
Qed.

Theorem step_remove_shape : forall s sec pt r s' out,
  step_remove s sec pt r = (s', out) ->
  exists pol', (pol' = m_get_policy (e_model s) sec pt \/
                pol' = rremove r (m_get_policy (e_model s) sec pt)) /\
    mgmt_shape s s' sec pt pol' false [r].
Proof.
  intros s sec pt r s' out H. unfold step_remove in H.
  destruct (if e_auto_save s then ad_remove (e_adapter s) sec pt r else (e_adapter s, Ok true))
    as [ad ares].
  set (s1 := upd_adapter s ad) in *.
  assert (Hskip : (s1, ares) = (s', out) ->
                  exists pol', (pol' = m_get_policy (e_model s) sec pt \/
                                pol' = rremove r (m_get_policy (e_model s) sec pt)) /\
                               mgmt_shape s s' sec pt pol' false [r]).
  { intros E. inversion E; subst s'. eexists. split; [left; reflexivity|].
    apply shape_unchanged, core_upd_adapter. }
  destruct ares as [[|]|c|]; try (apply Hskip, H).
  destruct (m_remove_policy (e_model s1) sec pt r) as [md removed] eqn:Hm.
  apply m_remove_policy_change in Hm.
  pose proof (core_emit_mgmt (upd_model s1 md) removed (EvRemove sec pt r))
    as (C1 & C2 & C3 & C4 & C5 & C6).
  apply after_change_tail in H.
  exists (if removed then rremove r (m_get_policy (e_model s) sec pt)
          else m_get_policy (e_model s) sec pt).
  split; [destruct removed; auto|].
  eapply shape_tail; [| | | | | |exact H]; try assumption.
  rewrite C1. exact Hm.
Qed.

Theorem step_remove_many_shape : forall s sec pt rs s' out,
  step_remove_many s sec pt rs = (s', out) ->
  exists pol', (pol' = m_get_policy (e_model s) sec pt \/
                pol' = fold_left (fun l r => rremove r l) rs (m_get_policy (e_model s) sec pt)) /\
    mgmt_shape s s' sec pt pol' false rs.
Proof.
  intros s sec pt rs s' out H. unfold step_remove_many in H.
  destruct (if e_auto_save s then ad_remove_many (e_adapter s) sec pt rs else (e_adapter s, Ok true))
    as [ad ares].
  set (s1 := upd_adapter s ad) in *.
  assert (Hskip : (s1, ares) = (s', out) ->
                  exists pol', (pol' = m_get_policy (e_model s) sec pt \/
                                pol' = fold_left (fun l r => rremove r l) rs
                                                 (m_get_policy (e_model s) sec pt)) /\
                               mgmt_shape s s' sec pt pol' false rs).
  { intros E. inversion E; subst s'. eexists. split; [left; reflexivity|].
    apply shape_unchanged, core_upd_adapter. }
  destruct ares as [[|]|c|]; try (apply Hskip, H).
  destruct (m_remove_policies (e_model s1) sec pt rs) as [md removed] eqn:Hm.
  apply m_remove_policies_change in Hm.
  pose proof (core_emit_mgmt (upd_model s1 md) removed (EvRemoveMany sec pt rs))
    as (C1 & C2 & C3 & C4 & C5 & C6).
  apply after_change_tail in H.
  exists (if removed then fold_left (fun l r => rremove r l) rs (m_get_policy (e_model s) sec pt)
          else m_get_policy (e_model s) sec pt).
  split; [destruct removed; auto|].
  eapply shape_tail; [| | | | | |exact H]; try assumption.
  rewrite C1. exact Hm.
Qed.

(* transparent adapters accept every incremental call and stay transparent *)
Lemma transparent_rf : forall a sec pt idx vals,
  transparent a = true ->
  snd (ad_remove_filtered a sec pt idx vals) = Ok true /\
  transparent (fst (ad_remove_filtered a sec pt idx vals)) = true.
Proof.
  intros a sec pt idx vals. unfold ad_remove_filtered.
  induction a as [|l f|l f|l f|i IH sc]; cbn [transparent]; intros H; try discriminate.
  - cbn. auto.
  - cbn. auto.
  - destruct sc as [|x sc]; [|discriminate].
    cbn [scripted]. specialize (IH H).
    assert (Hi : scripted i (fun x => ad0_remove_filtered x sec pt idx vals) =
                 ad0_remove_filtered i sec pt idx vals \/
                 exists j sc', i = AScripted j sc').
    { destruct i; cbn [scripted]; auto. right. eauto. }
    destruct Hi as [Hi|(j & sc' & ->)].
    + rewrite Hi in IH. destruct (ad0_remove_filtered i sec pt idx vals) as [i' o].
      cbn [fst snd transparent] in *. exact IH.
    + (* a nested scripted adapter is opaque to ad0_*: it reports success *)
      cbn [ad0_remove_filtered fst snd transparent]. split; [reflexivity|exact H].
Qed.

Definition quiet (s : estate) : Prop := quiet_adapter s = true.

(* filtered removal. pol' is the table afterwards; rs the rules handed to the
   role-link update *)
Theorem step_remove_filtered_shape : forall s sec pt idx vals s' out,
  step_remove_filtered s sec pt idx vals = (s', out) ->
  let pol := m_get_policy (e_model s) sec pt in
  exists pol' rs,
    mgmt_shape s s' sec pt pol' false rs /\
    incl rs (filter (fsel idx vals) pol) /\
    (pol' = pol \/ (vals <> [] /\ pol' = filter (fun r => negb (fsel idx vals r)) pol)) /\
    (quiet s -> quiet s' /\
                (out = Panic \/ vals = [] \/
                 pol' = filter (fun r => negb (fsel idx vals r)) pol)).
Proof.
  intros s sec pt idx vals s' out H pol. unfold step_remove_filtered in H.
  destruct (if e_auto_save s then ad_remove_filtered (e_adapter s) sec pt idx vals
            else (e_adapter s, Ok true)) as [ad ares] eqn:Had.
  set (s1 := upd_adapter s ad) in *.
  assert (Hq : quiet s -> ares = Ok true /\ quiet s1).
  { unfold quiet, quiet_adapter. intros Hq. cbn [s1 upd_adapter e_auto_save e_adapter].
    destruct (e_auto_save s); cbn [negb orb] in *.
    - destruct (transparent_rf (e_adapter s) sec pt idx vals Hq) as [Ho Ht].
      rewrite Had in Ho, Ht. cbn [fst snd] in Ho, Ht. auto.
    - inversion Had; subst. auto. }
  assert (Hskip : forall o, (s1, o) = (s', out) -> (ares = Ok true -> o = Panic) ->
    exists pol' rs,
      mgmt_shape s s' sec pt pol' false rs /\
      incl rs (filter (fsel idx vals) pol) /\
      (pol' = pol \/ (vals <> [] /\ pol' = filter (fun r => negb (fsel idx vals r)) pol)) /\
      (quiet s -> quiet s' /\
                  (out = Panic \/ vals = [] \/
                   pol' = filter (fun r => negb (fsel idx vals r)) pol))).
  { intros o E Hp. inversion E; subst s' out. exists pol, []. split; [|split; [|split]].
    - apply shape_unchanged, core_upd_adapter.
    - intros x [].
    - left. reflexivity.
    - intros Hqs. destruct (Hq Hqs) as [Ho Hq1]. split; [exact Hq1|]. left. apply Hp, Ho. }
  destruct ares as [[|]|c|]; try (apply (Hskip _ H); discriminate).
  destruct (m_remove_filtered (e_model s1) sec pt idx vals) as [[[md removed] rs]|] eqn:Hm;
    [|apply (Hskip _ H); reflexivity].
  apply m_remove_filtered_change in Hm. cbv zeta in Hm.
  change (m_get_policy (e_model s1) sec pt) with pol in Hm.
  pose proof (core_emit_mgmt (upd_model s1 md) removed (EvRemoveFiltered sec pt rs))
    as (C1 & C2 & C3 & C4 & C5 & C6).
  set (s2 := emit_mgmt (upd_model s1 md) removed (EvRemoveFiltered sec pt rs)) in *.
  assert (Htail : s' = s2 \/ (sec = s_g /\ e_auto_build s2 = true /\
                    exists e, incremental_links s2 pt false rs = (s', e))).
  { destruct (negb (teqb sec s_g) || negb (e_auto_build s2)) eqn:E.
    - inversion H. left. reflexivity.
    - apply orb_false_iff in E. destruct E as [E1 E2]. apply negb_false_iff in E1.
      apply negb_false_iff in E2. apply teqb_eq in E1. right. split; [exact E1|].
      split; [exact E2|]. destruct (incremental_links s2 pt false rs) as [s3 e].
      inversion H; subst. exists e. reflexivity. }
  assert (Hqs' : quiet s -> quiet s').
  { intros Hqs. destruct (Hq Hqs) as [_ Hq1]. unfold quiet, quiet_adapter in *.
    assert (Ea : e_adapter s2 = e_adapter s1 /\ e_auto_save s2 = e_auto_save s1).
    { unfold s2, emit_mgmt, emit. destruct (removed && _); [|auto]. destruct (e_watcher _); auto. }
    destruct Ea as [Ea Es].
    destruct Htail as [->|(_ & _ & e & Hi)]; [rewrite Ea, Es; exact Hq1|].
    unfold incremental_links in Hi.
    destruct (get_ast (e_model s2) s_g pt) as [a|];
      [|inversion Hi; subst; rewrite Ea, Es; exact Hq1].
    destruct (Nat.ltb (count_us (a_value a)) 2);
      [inversion Hi; subst; rewrite Ea, Es; exact Hq1|].
    destruct (link_rules _ false _ rs) as [m' [|c]]; inversion Hi; subst s';
      cbn [upd_fs upd_model e_auto_save e_adapter]; rewrite Ea, Es; exact Hq1. }
  destruct vals as [|v vs].
  - destruct Hm as (-> & -> & ->). exists pol, []. split; [|split; [|split]].
    + eapply shape_tail; [| | | | | |exact Htail]; try assumption.
      rewrite C1. apply pol_change_refl.
    + intros x [].
    + left. reflexivity.
    + intros Hqs. split; [apply Hqs', Hqs|]. right. left. reflexivity.
  - destruct Hm as (Hc & -> & _).
    exists (filter (fun r => negb (fsel idx (v :: vs) r)) pol), (filter (fsel idx (v :: vs)) pol).
    split; [|split; [|split]].
    + eapply shape_tail; [| | | | | |exact Htail]; try assumption.
      rewrite C1. exact Hc.
    + apply incl_refl.
    + right. split; [discriminate|reflexivity].
    + intros Hqs. split; [apply Hqs', Hqs|]. right. right. reflexivity.
Qed.

(* the scope predicates survive every management step *)
Lemma scope_frame cnt rt pt_ok e_ok m s s' :
  Scope cnt rt pt_ok e_ok m s -> st_frame s s' -> Scope cnt rt pt_ok e_ok m s'.
Proof.
  intros [(ra & Hr & Hrt) (pa & Hp & Hpt) (ga & Hg & Hgc & Hgh) (ea & He & Hev)
          (ma & Hm) Hmx Hgf Huf Hen] (Hf & (F1 & F2 & F3) & F4 & F5 & F6 & F7).
  constructor.
  - specialize (Hf s_r s_r). rewrite Hr in Hf. destruct Hf as (a' & Ha' & (_ & Ht & _)).
    exists a'. split; [exact Ha'|congruence].
  - specialize (Hf s_p s_p). rewrite Hp in Hf. destruct Hf as (a' & Ha' & (_ & Ht & _)).
    exists a'. split; [exact Ha'|congruence].
  - specialize (Hf s_g s_g). rewrite Hg in Hf. destruct Hf as (a' & Ha' & (Hv & _ & Hh)).
    exists a'. split; [exact Ha'|]. split; [congruence|]. destruct Hh; congruence.
  - specialize (Hf s_e s_e). rewrite He in Hf. destruct Hf as (a' & Ha' & (Hv & _ & _)).
    exists a'. split; [exact Ha'|congruence].
  - specialize (Hf s_m s_m). rewrite Hm in Hf. destruct Hf as (a' & Ha' & _).
    exists a'. exact Ha'.
  - congruence.
  - congruence.
  - congruence.
  - congruence.
Qed.

Lemma scope_core_frame cnt rt pt_ok e_ok m s s' :
  scope_core cnt rt pt_ok e_ok m s = true -> st_frame s s' ->
  scope_core cnt rt pt_ok e_ok m s' = true.
Proof.
  intros H Hf. apply scope_core_spec. apply scope_core_spec in H.
  apply (scope_frame _ _ _ _ _ s s' H Hf).
Qed.

(* ================= H. delete_user / delete_role / delete_permission (item 5) ================= *)

Lemma seq_or_ok : forall ra f s' b,
  seq_or ra f = (s', Ok b) ->
  exists s1 a b', ra = (s1, Ok a) /\ f s1 = (s', Ok b') /\ b = a || b'.
Proof.
  intros [s1 [a|c|]] f s' b H; cbn [seq_or] in H; try discriminate.
  destruct (f s1) as [s2 [b'|c|]] eqn:Hf; try discriminate.
  inversion H; subst. exists s1, a, b'. auto.
Qed.

Lemma sg_ne_sp : s_g <> s_p.
Proof. discriminate. Qed.

Lemma nth_skipn_hd : forall idx (r : rule), nth idx r [] = hd [] (skipn idx r).
Proof.
  induction idx as [|idx IH]; intros [|x r]; cbn [nth skipn hd]; try reflexivity. apply IH.
Qed.

Lemma fsel_one_nth : forall idx (n : text) (r : rule), n <> [] ->
  fsel idx [n] r = true <-> (nth idx r [] = n).
Proof.
  intros idx n r Hn. rewrite nth_skipn_hd. unfold fsel.
  apply teqb_neq in Hn. destruct (skipn idx r) as [|f fs]; cbn [fmatch hd]; rewrite Hn.
  - split; [discriminate|]. intros E. apply teqb_neq in Hn. symmetry in E. contradiction.
  - destruct (teqb f n) eqn:E.
    + apply teqb_eq in E. split; auto.
    + apply teqb_neq in E. split; [discriminate|]. intros E'. contradiction.
Qed.

(* one successful filtered removal through a non-refusing adapter *)
Lemma srf_ok : forall s sec pt idx vals s' b,
  step_remove_filtered s sec pt idx vals = (s', Ok b) -> quiet s -> vals <> [] ->
  st_frame s s' /\ quiet s' /\
  m_get_policy (e_model s') sec pt =
    filter (fun r => negb (fsel idx vals r)) (m_get_policy (e_model s) sec pt) /\
  (forall sec' pt', sec' <> sec \/ pt' <> pt ->
     m_get_policy (e_model s') sec' pt' = m_get_policy (e_model s) sec' pt').
Proof.
  intros s sec pt idx vals s' b H Hq Hv.
  apply step_remove_filtered_shape in H. cbv zeta in H.
  destruct H as (pol' & rs & Hsh & _ & _ & Hquiet).
  destruct (Hquiet Hq) as (Hq' & [Hp|[Hp|Hp]]); [discriminate|contradiction|].
  destruct Hsh as [Hf Ho Hpol _]. rewrite Hp in Hpol. auto.
Qed.

Theorem delete_user_spec : forall s n s' b,
  step s (ORbac (RDeleteUser n)) = (s', Ok b) -> quiet s ->
  st_frame s s' /\
  g_rules s' = filter (fun r => negb (fsel 0 [n] r)) (g_rules s) /\
  p_rules s' = filter (fun r => negb (fsel 0 [n] r)) (p_rules s) /\
  (forall sec pt, ~ (sec = s_g /\ pt = s_g) -> ~ (sec = s_p /\ pt = s_p) ->
     m_get_policy (e_model s') sec pt = m_get_policy (e_model s) sec pt).
Proof.
  intros s n s' b H Hq. cbn [step step_rbac] in H.
  apply seq_or_ok in H. destruct H as (s1 & a & b' & H1 & H2 & _).
  apply srf_ok in H1; [|exact Hq|discriminate]. destruct H1 as (F1 & Hq1 & P1 & O1).
  apply srf_ok in H2; [|exact Hq1|discriminate]. destruct H2 as (F2 & _ & P2 & O2).
  split; [apply (st_frame_trans s s1 s' F1 F2)|]. unfold g_rules, p_rules.
  split; [|split].
  - rewrite O2 by (left; exact sg_ne_sp). exact P1.
  - rewrite P2. rewrite O1 by (left; intros E; apply sg_ne_sp; auto). reflexivity.
  - intros sec pt Hg Hp. rewrite O2, O1; [reflexivity| |].
    + destruct (text_eq_dec sec s_g) as [->|]; [|auto].
      destruct (text_eq_dec pt s_g) as [->|]; [|auto]. exfalso. apply Hg. auto.
    + destruct (text_eq_dec sec s_p) as [->|]; [|auto].
      destruct (text_eq_dec pt s_p) as [->|]; [|auto]. exfalso. apply Hp. auto.
Qed.

Theorem delete_role_spec : forall s n s' b,
  step s (ORbac (RDeleteRoleAll n)) = (s', Ok b) -> quiet s ->
  st_frame s s' /\
  g_rules s' = filter (fun r => negb (fsel 1 [n] r)) (g_rules s) /\
  p_rules s' = filter (fun r => negb (fsel 0 [n] r)) (p_rules s) /\
  (forall sec pt, ~ (sec = s_g /\ pt = s_g) -> ~ (sec = s_p /\ pt = s_p) ->
     m_get_policy (e_model s') sec pt = m_get_policy (e_model s) sec pt).
Proof.
  intros s n s' b H Hq. cbn [step step_rbac] in H.
  apply seq_or_ok in H. destruct H as (s1 & a & b' & H1 & H2 & _).
  apply srf_ok in H1; [|exact Hq|discriminate]. destruct H1 as (F1 & Hq1 & P1 & O1).
  apply srf_ok in H2; [|exact Hq1|discriminate]. destruct H2 as (F2 & _ & P2 & O2).
  split; [apply (st_frame_trans s s1 s' F1 F2)|]. unfold g_rules, p_rules.
  split; [|split].
  - rewrite O2 by (left; exact sg_ne_sp). exact P1.
  - rewrite P2. rewrite O1 by (left; intros E; apply sg_ne_sp; auto). reflexivity.
  - intros sec pt Hg Hp. rewrite O2, O1; [reflexivity| |].
    + destruct (text_eq_dec sec s_g) as [->|]; [|auto].
      destruct (text_eq_dec pt s_g) as [->|]; [|auto]. exfalso. apply Hg. auto.
    + destruct (text_eq_dec sec s_p) as [->|]; [|auto].
      destruct (text_eq_dec pt s_p) as [->|]; [|auto]. exfalso. apply Hp. auto.
Qed.

Theorem delete_permission_spec : forall s perm s' b,
  step s (ORbac (RDeletePermission perm)) = (s', Ok b) -> quiet s -> perm <> [] ->
  st_frame s s' /\
  p_rules s' = filter (fun r => negb (fsel 1 perm r)) (p_rules s) /\
  (forall sec pt, ~ (sec = s_p /\ pt = s_p) ->
     m_get_policy (e_model s') sec pt = m_get_policy (e_model s) sec pt).
Proof.
  intros s perm s' b H Hq Hne. cbn [step step_rbac] in H.
  apply srf_ok in H; [|exact Hq|exact Hne]. destruct H as (F1 & _ & P1 & O1).
  split; [exact F1|]. split; [exact P1|].
  intros sec pt Hp. apply O1.
  destruct (text_eq_dec sec s_p) as [->|]; [|auto].
  destruct (text_eq_dec pt s_p) as [->|]; [|auto]. exfalso. apply Hp. auto.
Qed.

(* nothing that matched is left; in particular no rule names the deleted entity *)
Lemma filter_negb_none : forall (f : rule -> bool) l r,
  In r (filter (fun x => negb (f x)) l) -> f r = false.
Proof. intros f l r H. apply filter_In in H. apply negb_true_iff, H. Qed.

Corollary delete_user_no_mention : forall s n s' b,
  step s (ORbac (RDeleteUser n)) = (s', Ok b) -> quiet s -> n <> [] ->
  (forall r, In r (g_rules s') -> nth 0 r [] <> n) /\
  (forall r, In r (p_rules s') -> nth 0 r [] <> n).
Proof.
  intros s n s' b H Hq Hn. destruct (delete_user_spec s n s' b H Hq) as (_ & Hg & Hp & _).
  split; intros r Hr; [rewrite Hg in Hr|rewrite Hp in Hr];
    apply (filter_negb_none (fsel 0 [n])) in Hr; intros E;
    apply (fsel_one_nth 0 n r Hn) in E; rewrite E in Hr; discriminate.
Qed.

Corollary delete_role_no_mention : forall s n s' b,
  step s (ORbac (RDeleteRoleAll n)) = (s', Ok b) -> quiet s -> n <> [] ->
  (forall r, In r (g_rules s') -> nth 1 r [] <> n) /\
  (forall r, In r (p_rules s') -> nth 0 r [] <> n).
Proof.
  intros s n s' b H Hq Hn. destruct (delete_role_spec s n s' b H Hq) as (_ & Hg & Hp & _).
  split; intros r Hr;
    [rewrite Hg in Hr; apply (filter_negb_none (fsel 1 [n])) in Hr
    |rewrite Hp in Hr; apply (filter_negb_none (fsel 0 [n])) in Hr]; intros E;
    [apply (fsel_one_nth 1 n r Hn) in E|apply (fsel_one_nth 0 n r Hn) in E];
    rewrite E in Hr; discriminate.
Qed.

Corollary delete_permission_no_mention : forall s perm s' b,
  step s (ORbac (RDeletePermission perm)) = (s', Ok b) -> quiet s -> perm <> [] ->
  forall r, In r (p_rules s') -> fmatch perm (tl r) <> Some true.
Proof.
  intros s perm s' b H Hq Hne r Hr.
  destruct (delete_permission_spec s perm s' b H Hq Hne) as (_ & Hp & _).
  rewrite Hp in Hr. apply (filter_negb_none (fsel 1 perm)) in Hr. unfold fsel in Hr.
  replace (skipn 1 r) with (tl r) in Hr by (destruct r; reflexivity).
  intros E. rewrite E in Hr. discriminate.
Qed.

(* ---- consequences for queries and decisions, given that the role graph
   holds no link beyond the stored g rules ---- *)
Definition links_mirror (s : estate) : Prop :=
  forall x y, Edge (f_rm (e_fs s)) None x y -> In [x; y] (g_rules s).

Lemma links_mirrorb_spec : forall s, links_mirrorb s = true -> links_mirror s.
Proof.
  intros s H x y Hxy. unfold links_mirrorb in H. rewrite forallb_forall in H.
  specialize (H (x, y) Hxy). cbn [fst snd] in H. apply memb_reqb_In in H. exact H.
Qed.

Lemma nil_no_members : forall {A} (l : list A), (forall x, ~ In x l) -> l = [].
Proof. intros A [|x l] H; [reflexivity|]. exfalso. apply (H x). left. reflexivity. Qed.

Lemma rbac_roles_for_user : forall cnt rt pt_ok e_ok m s n d,
  Scope cnt rt pt_ok e_ok m s ->
  roles_for_user s n d = get_roles (f_rm (e_fs s)) n d /\
  users_for_role s n d = get_users (f_rm (e_fs s)) n d.
Proof.
  intros cnt rt pt_ok e_ok m s n d Hsc. destruct (sc_g _ _ _ _ _ _ Hsc) as (ga & Hg & _ & Hh).
  unfold roles_for_user, users_for_role. rewrite Hg, Hh. split; reflexivity.
Qed.

(* a name without outgoing links and without rules of its own gets nothing *)
Theorem no_links_no_rules_denied : forall ptab s n,
  rbac_eq s = true -> p_arityb 3 s = true -> wf (f_rm (e_fs s)) -> n <> [] ->
  (forall y, ~ Edge (f_rm (e_fs s)) None n y) ->
  (forall r, In r (p_rules s) -> nth 0 r [] <> n) ->
  roles_for_user s n None = [] /\ implicit_roles s n None = [] /\
  forall o a, enforce ptab s [VStr n; VStr o; VStr a] = Ok false.
Proof.
  intros ptab s n Hsc Har Hwf Hn Hout Hrules.
  pose proof Hsc as Hsc'. apply scope_core_spec in Hsc'.
  split; [|split].
  - rewrite (proj1 (rbac_roles_for_user _ _ _ _ _ s n None Hsc')).
    apply nil_no_members. intros y Hy. apply (get_roles_spec _ n None y Hwf) in Hy.
    apply (Hout y Hy).
  - apply nil_no_members. intros y Hy. apply (implicit_roles_spec s n None y Hwf) in Hy.
    apply clos_trans_first in Hy. destruct Hy as [c Hc]. apply (Hout c Hc).
  - intros o a. rewrite (enforce_rbac_closed ptab s n o a Hsc Har). f_equal.
    assert (Hl : forall x, x <> n ->
                 has_link (f_rm_max (e_fs s)) (f_rm (e_fs s)) n x None = false).
    { intros x Hx. destruct (has_link _ _ n x None) eqn:E; [|reflexivity].
      apply has_link_sound in E; [|exact Hwf]. destruct E as [E|E]; [congruence|].
      apply clos_trans_first in E. destruct E as [c Hc]. destruct (Hout c Hc). }
    fold (p_rules s). destruct (p_rules s) as [|r0 rules] eqn:Hpol.
    + unfold match3. cbn [nth]. rewrite Hl by congruence. reflexivity.
    + rewrite <- Hpol in *. apply not_true_is_false. intros E.
      apply existsb_exists in E. destruct E as (r & Hr & Hm).
      unfold match3 in Hm. rewrite Hl in Hm by (apply Hrules, Hr). discriminate.
Qed.

Theorem deleted_user_powerless : forall ptab s n s' b,
  step s (ORbac (RDeleteUser n)) = (s', Ok b) -> quiet s -> n <> [] ->
  rbac_eq s = true -> p_arityb 3 s = true ->
  wf (f_rm (e_fs s')) -> links_mirror s' ->
  rbac_eq s' = true /\ p_arityb 3 s' = true /\
  roles_for_user s' n None = [] /\ implicit_roles s' n None = [] /\
  forall o a, enforce ptab s' [VStr n; VStr o; VStr a] = Ok false.
Proof.
  intros ptab s n s' b H Hq Hn Hsc Har Hwf Hmir.
  destruct (delete_user_spec s n s' b H Hq) as (Hf & _ & Hp & _).
  destruct (delete_user_no_mention s n s' b H Hq Hn) as (Hg0 & Hp0).
  assert (Hsc' : rbac_eq s' = true) by (apply (scope_core_frame _ _ _ _ _ s s' Hsc Hf)).
  assert (Har' : p_arityb 3 s' = true).
  { apply p_arityb_spec. rewrite p_arityb_spec in Har. fold (p_rules s'). rewrite Hp.
    intros r Hr. apply filter_In in Hr. apply Har, Hr. }
  split; [exact Hsc'|]. split; [exact Har'|].
  apply (no_links_no_rules_denied ptab s' n Hsc' Har' Hwf Hn); [|exact Hp0].
  intros y Hy. apply Hmir in Hy. apply (Hg0 _ Hy). reflexivity.
Qed.

(* a role that nobody links to is in nobody's closure *)
Theorem deleted_role_unreachable : forall s n s' b,
  step s (ORbac (RDeleteRoleAll n)) = (s', Ok b) -> quiet s -> n <> [] ->
  rbac_eq s = true -> wf (f_rm (e_fs s')) -> links_mirror s' ->
  rbac_eq s' = true /\
  users_for_role s' n None = [] /\
  (forall u, ~ In n (implicit_roles s' u None)) /\
  (forall u, ~ In n (roles_for_user s' u None)) /\
  (forall r, In r (p_rules s') -> nth 0 r [] <> n).
Proof.
  intros s n s' b H Hq Hn Hsc Hwf Hmir.
  destruct (delete_role_spec s n s' b H Hq) as (Hf & _ & Hp & _).
  destruct (delete_role_no_mention s n s' b H Hq Hn) as (Hg0 & Hp0).
  assert (Hsc' : rbac_eq s' = true) by (apply (scope_core_frame _ _ _ _ _ s s' Hsc Hf)).
  pose proof Hsc' as Hs. apply scope_core_spec in Hs.
  assert (Hin : forall x, ~ Edge (f_rm (e_fs s')) None x n).
  { intros x Hx. apply Hmir in Hx. apply (Hg0 _ Hx). reflexivity. }
  split; [exact Hsc'|]. split; [|split; [|split]].
  - rewrite (proj2 (rbac_roles_for_user _ _ _ _ _ s' n None Hs)).
    apply nil_no_members. intros x Hx. apply (get_users_spec _ n None x Hwf) in Hx.
    apply (Hin x Hx).
  - intros u Hu. apply (implicit_roles_spec s' u None n Hwf) in Hu.
    apply clos_trans_last in Hu. destruct Hu as [c Hc]. apply (Hin c Hc).
  - intros u Hu. rewrite (proj1 (rbac_roles_for_user _ _ _ _ _ s' u None Hs)) in Hu.
    apply (get_roles_spec _ u None n Hwf) in Hu. apply (Hin u Hu).
  - exact Hp0.
Qed.

Lemma fmatch_self2 : forall o a : text, fmatch [o; a] [o; a] = Some true.
Proof.
  intros o a. cbn [fmatch tl].
  destruct (teqb o []); [|rewrite teqb_refl]; (destruct (teqb a []); [|rewrite teqb_refl]);
    reflexivity.
Qed.

(* once a permission has been deleted nobody is granted it *)
Theorem deleted_permission_denied : forall ptab s o a s' b,
  step s (ORbac (RDeletePermission [o; a])) = (s', Ok b) -> quiet s ->
  (o <> [] \/ a <> []) ->
  rbac_eq s = true -> p_arityb 3 s = true ->
  rbac_eq s' = true /\ p_arityb 3 s' = true /\
  forall u, enforce ptab s' [VStr u; VStr o; VStr a] = Ok false.
Proof.
  intros ptab s o a s' b H Hq Hoa Hsc Har.
  destruct (delete_permission_spec s [o; a] s' b H Hq ltac:(discriminate)) as (Hf & Hp & _).
  pose proof (delete_permission_no_mention s [o; a] s' b H Hq ltac:(discriminate)) as Hno.
  assert (Hsc' : rbac_eq s' = true) by (apply (scope_core_frame _ _ _ _ _ s s' Hsc Hf)).
  assert (Har' : p_arityb 3 s' = true).
  { apply p_arityb_spec. rewrite p_arityb_spec in Har. fold (p_rules s'). rewrite Hp.
    intros r Hr. apply filter_In in Hr. apply Har, Hr. }
  split; [exact Hsc'|]. split; [exact Har'|]. intros u.
  rewrite (enforce_rbac_closed ptab s' u o a Hsc' Har'). f_equal.
  fold (p_rules s'). destruct (p_rules s') as [|r0 rules] eqn:Hpol.
  - unfold match3. cbn [nth].
    destruct Hoa as [Hoa|Hoa]; apply teqb_neq in Hoa; rewrite Hoa;
      rewrite ?andb_false_r; reflexivity.
  - rewrite <- Hpol in *. apply not_true_is_false. intros E.
    apply existsb_exists in E. destruct E as (r & Hr & Hm).
    rewrite p_arityb_spec in Har'. destruct (length3 r (Har' r Hr)) as (x & y & z & ->).
    unfold match3 in Hm. cbn [nth] in Hm.
    apply andb_true_iff in Hm. destruct Hm as [Hm Hz]. apply andb_true_iff in Hm.
    destruct Hm as [_ Hy]. apply teqb_eq in Hy. apply teqb_eq in Hz. subst y z.
    apply (Hno _ Hr). cbn [tl]. apply fmatch_self2.
Qed.

(* ================= I. implicit users (item 6) ================= *)

Lemma dedup_In : forall l seen x, In x (dedup l seen) <-> In x l /\ ~ In x seen.
Proof.
  induction l as [|y l IH]; intros seen x; cbn [dedup In]; [tauto|].
  destruct (memb teqb y seen) eqn:E.
  - apply memb_In in E. rewrite IH. split; [tauto|].
    intros [[->|H] Hn]; [contradiction|tauto].
  - apply memb_not_In in E. cbn [In]. rewrite IH. cbn [In]. split.
    + intros [->|[H Hn]]; [tauto|]. split; [tauto|]. intros H'. apply Hn. right. exact H'.
    + intros [[->|H] Hn]; [tauto|].
      destruct (text_eq_dec y x) as [->|Hne]; [tauto|]. right. split; [exact H|].
      intros [H'|H']; contradiction.
Qed.

Lemma dedup_NoDup : forall l seen, NoDup (dedup l seen).
Proof.
  induction l as [|y l IH]; intros seen; cbn [dedup]; [constructor|].
  destruct (memb teqb y seen); [apply IH|]. constructor; [|apply IH].
  intros H. apply dedup_In in H. destruct H as [_ H]. apply H. left. reflexivity.
Qed.

Theorem implicit_users_spec : forall ptab s perm res,
  implicit_users ptab s perm = Some res ->
  exists subjects roles,
    m_values (e_model s) s_p s_p 0 = Some subjects /\
    m_values (e_model s) s_g s_g 1 = Some roles /\
    NoDup res /\
    forall u, In u res <->
      ((In u subjects \/ exists r, In r roles /\ In u (get_users (f_rm (e_fs s)) r None)) /\
       ~ In u roles /\
       enforce ptab s (map VStr (u :: perm)) = Ok true).
Proof.
  intros ptab s perm res H. unfold implicit_users in H.
  destruct (m_values (e_model s) s_p s_p 0) as [subjects|]; [|discriminate].
  destruct (m_values (e_model s) s_g s_g 1) as [roles|]; [|discriminate].
  match type of H with (if ?c then _ else _) = _ => destruct c; [discriminate|] end.
  inversion H as [Hres]. clear H. exists subjects, roles.
  split; [reflexivity|]. split; [reflexivity|]. split; [apply dedup_NoDup|].
  intros u. rewrite dedup_In, !filter_In, in_app_iff, in_flat_map, negb_true_iff, memb_not_In.
  cbn [In]. change (map VStr (u :: perm)) with (VStr u :: map VStr perm). split.
  - intros [[[Hc Hr] He] _]. split; [exact Hc|]. split; [exact Hr|].
    destruct (enforce ptab s (VStr u :: map VStr perm)) as [[|]|c|]; try discriminate. reflexivity.
  - intros (Hc & Hr & He). split; [|tauto]. split; [split; assumption|]. rewrite He. reflexivity.
Qed.

(* ================= J. the domain variant ================= *)

Lemma eval_rbac_dom_matcher ptab fs fuel sc u d o a x y z w :
  find_gfun (T "g", 3) (f_gfuns fs) = Some HCur -> assoc (T "g") (f_ufuns fs) = None ->
  assoc (tok (T "r") (T "sub")) sc = Some (VStr u) ->
  assoc (tok (T "r") (T "dom")) sc = Some (VStr d) ->
  assoc (tok (T "r") (T "obj")) sc = Some (VStr o) ->
  assoc (tok (T "r") (T "act")) sc = Some (VStr a) ->
  assoc (tok (T "p") (T "sub")) sc = Some (VStr x) ->
  assoc (tok (T "p") (T "dom")) sc = Some (VStr y) ->
  assoc (tok (T "p") (T "obj")) sc = Some (VStr z) ->
  assoc (tok (T "p") (T "act")) sc = Some (VStr w) ->
  eval (call_fn fs) ptab sc fuel rbac_dom_matcher =
  EV (VBool (has_link (f_rm_max fs) (f_rm fs) u x (Some d) && teqb d y && teqb o z && teqb a w)).
Proof.
  intros Hg Hu R1 R2 R3 R4 P1 P2 P3 P4. unfold rbac_dom_matcher, ev_.
  apply ev_and_bools; [apply ev_and_bools; [apply ev_and_bools|]|].
  - rewrite (ev_call3 _ _ _ fuel (T "g") _ _ _ (VStr u) (VStr x) (VStr d));
      [rewrite (call_g3 fs u x d Hg Hu); reflexivity| | |]; apply ev_var; assumption.
  - apply ev_eq_strs; apply ev_var; assumption.
  - apply ev_eq_strs; apply ev_var; assumption.
  - apply ev_eq_strs; apply ev_var; assumption.
Qed.

(* the per-rule test of the domain matcher *)
Definition match4 (s : estate) (u d o a : text) (r : rule) : bool :=
  has_link (f_rm_max (e_fs s)) (f_rm (e_fs s)) u (nth 0 r []) (Some d)
  && teqb d (nth 1 r []) && teqb o (nth 2 r []) && teqb a (nth 3 r []).

Definition the_erule (s : estate) : erule :=
  match get_ast (e_model s) s_e s_e with
  | Some a => match parse_erule (a_value a) with Some r => r | None => AllowOverride end
  | None => AllowOverride
  end.
Definition the_ptoks (s : estate) : list text :=
  match get_ast (e_model s) s_p s_p with Some a => a_tokens a | None => [] end.

(* per-rule effects of a request, in rule order (the empty store is evaluated
   once against empty policy values, without reading any eft column) *)
Definition effs4 (s : estate) (u d o a : text) : list eff :=
  match p_rules s with
  | [] => [if match4 s u d o a [] then Allow else Indet]
  | rules => map (fun r => rule_effect (tok s_p s_eft) (the_ptoks s) r (match4 s u d o a r)) rules
  end.

Definition p_arity_ok (s : estate) : Prop :=
  forall r, In r (p_rules s) -> length r = length (the_ptoks s).

Lemma length5 : forall (r : rule), length r = 5 -> exists x y z w v, r = [x; y; z; w; v].
Proof.
  intros [|x [|y [|z [|w [|v [|t r]]]]]] H; try discriminate. exists x, y, z, w, v. reflexivity.
Qed.

Lemma is_erule_spec v : is_erule v = true -> exists er, parse_erule v = Some er.
Proof. unfold is_erule. destruct (parse_erule v) as [er|]; [eauto|discriminate]. Qed.

(* enforcement of a domain RBAC configuration in closed form: never an error *)
Theorem enforce_dom_closed : forall ptab s u d o a,
  rbac_dom_any s = true -> p_arity_ok s ->
  enforce ptab s [VStr u; VStr d; VStr o; VStr a] = Ok (decl (the_erule s) (effs4 s u d o a)).
Proof.
  intros ptab s u d o a Hsc Har. apply scope_core_spec in Hsc.
  destruct Hsc as [(ra & Hr & Hrt) (pa & Hp & Hpt) _ (ea & He & Hev) (ma & Hm) Hmx Hgf Huf Hen].
  apply is_erule_spec in Hev. destruct Hev as [er Her].
  unfold p_arity_ok, effs4, the_erule, the_ptoks, p_rules, m_get_policy in *.
  rewrite Hp in *. rewrite He, Her.
  rewrite (enforce_unfold ptab s _ ra pa ma ea er rbac_dom_matcher Hr Hp Hm He Hen)
    by (rewrite ?Hrt; auto).
  rewrite Hrt. cbv zeta.
  assert (Htoks : a_tokens pa = p_toks4 \/ a_tokens pa = p_toks5).
  { apply orb_true_iff in Hpt. destruct Hpt as [H|H]; apply toks_eqb_eq in H; auto. }
  destruct (a_policy pa) as [|r0 rules] eqn:Hpol.
  - unfold eval_matcher.
    assert (Hev : eval (call_fn (e_fs s)) ptab
              (bind (a_tokens pa) (map (fun _ : text => VStr []) (a_tokens pa))
                    (bind r_toks4 [VStr u; VStr d; VStr o; VStr a] [])) eval_fuel rbac_dom_matcher =
            EV (VBool (match4 s u d o a []))).
    { unfold match4. cbn [nth].
      destruct Htoks as [-> | ->];
        apply eval_rbac_dom_matcher; try assumption; reflexivity. }
    rewrite Hev. reflexivity.
  - rewrite <- Hpol in *. clear Hpol r0 rules.
    assert (Hmap : map (rule_outcome ptab (e_fs s) rbac_dom_matcher (tok s_p s_eft) (a_tokens pa)
                          (bind r_toks4 [VStr u; VStr d; VStr o; VStr a] [])) (a_policy pa) =
                   map Ok (map (fun r => rule_effect (tok s_p s_eft) (a_tokens pa) r
                                                     (match4 s u d o a r)) (a_policy pa))).
    { rewrite map_map. apply map_ext_in. intros r Hin. specialize (Har r Hin).
      unfold rule_outcome. rewrite <- Har, Nat.eqb_refl. cbn [negb]. unfold eval_matcher.
      assert (Hev : eval (call_fn (e_fs s)) ptab
                (bind (a_tokens pa) (map VStr r)
                      (bind r_toks4 [VStr u; VStr d; VStr o; VStr a] [])) eval_fuel rbac_dom_matcher =
              EV (VBool (match4 s u d o a r))).
      { unfold match4. destruct Htoks as [Ht|Ht]; rewrite Ht in Har |- *.
        - destruct (length4 r Har) as (x & y & z & w & ->). cbn [nth].
          apply eval_rbac_dom_matcher; try assumption; reflexivity.
        - destruct (length5 r Har) as (x & y & z & w & v & ->). cbn [nth].
          apply eval_rbac_dom_matcher; try assumption; reflexivity. }
      rewrite Hev. reflexivity. }
    rewrite Hmap, perm_combine_all_ok. cbn [app].
    destruct (a_policy pa); reflexivity.
Qed.

Lemma rbac_dom_eq_any : forall s, rbac_dom_eq s = true ->
  rbac_dom_any s = true /\ the_erule s = AllowOverride /\ the_ptoks s = p_toks4.
Proof.
  intros s H. apply scope_core_spec in H.
  destruct H as [Hr (pa & Hp & Hpt) Hg (ea & He & Hev) Hm Hmx Hgf Huf Hen].
  split; [|split].
  - apply scope_core_spec. constructor; try assumption.
    + exists pa. split; [exact Hp|]. apply toks_eqb_eq in Hpt. rewrite <- Hpt. reflexivity.
    + exists ea. split; [exact He|]. apply is_allow_override_spec in Hev.
      unfold is_erule. rewrite Hev. reflexivity.
  - unfold the_erule. rewrite He. apply is_allow_override_spec in Hev. rewrite Hev. reflexivity.
  - unfold the_ptoks. rewrite Hp. apply toks_eqb_eq in Hpt. symmetry. exact Hpt.
Qed.

Theorem enforce_rbac_dom_closed : forall ptab s u d o a,
  rbac_dom_eq s = true -> p_arityb 4 s = true ->
  enforce ptab s [VStr u; VStr d; VStr o; VStr a] =
  Ok (match p_rules s with
      | [] => match4 s u d o a []
      | rules => existsb (match4 s u d o a) rules
      end).
Proof.
  intros ptab s u d o a Hsc Har.
  destruct (rbac_dom_eq_any s Hsc) as (Hany & Her & Hpt).
  rewrite p_arityb_spec in Har.
  rewrite (enforce_dom_closed ptab s u d o a Hany).
  - rewrite Her. unfold effs4. rewrite Hpt. f_equal.
    destruct (p_rules s) as [|r0 rules].
    + cbn [decl existsb]. destruct (match4 s u d o a []); reflexivity.
    + cbn [decl]. rewrite <- (existsb_is_allow_map (match4 s u d o a)).
      apply (f_equal (existsb is_allow)). apply map_ext. intros r. unfold rule_effect.
      destruct (match4 s u d o a r); reflexivity.
  - intros r Hr. rewrite Hpt. apply Har, Hr.
Qed.

(* a two-value filter at index 0 on a rule with at least two fields *)
Lemma fsel_two : forall x d f y (rest : rule),
  fsel 0 [x; d] (f :: y :: rest) = (teqb x [] || teqb f x) && (teqb d [] || teqb y d).
Proof.
  intros x d f y rest. unfold fsel. cbn [skipn fmatch tl].
  destruct (teqb x []); cbn [orb andb].
  - destruct (teqb d []); [reflexivity|]. cbn [orb]. destruct (teqb y d); reflexivity.
  - destruct (teqb f x); cbn [andb]; [|reflexivity].
    destruct (teqb d []); [reflexivity|]. cbn [orb]. destruct (teqb y d); reflexivity.
Qed.

Lemma fmatch_two_some : forall x d f y (rest : rule), fmatch [x; d] (skipn 0 (f :: y :: rest)) <> None.
Proof.
  intros x d f y rest. cbn [skipn fmatch tl].
  destruct (teqb x []).
  - destruct (teqb d []); [discriminate|]. destruct (teqb y d); discriminate.
  - destruct (teqb f x); [|discriminate].
    destruct (teqb d []); [discriminate|]. destruct (teqb y d); discriminate.
Qed.

Definition two_fields (s : estate) : Prop :=
  forall r, In r (p_rules s) -> exists f y rest, r = f :: y :: rest.

Lemma perms_for_user_dom : forall s x d, two_fields s ->
  perms_for_user s x (Some d) = Some (filter (fsel 0 [x; d]) (p_rules s)).
Proof.
  intros s x d H2. unfold perms_for_user, m_get_filtered. apply select_filtered_filter.
  intros r Hr. destruct (H2 r Hr) as (f & y & rest & ->). apply fmatch_two_some.
Qed.

Theorem implicit_perms_dom_exact : forall s u d, two_fields s ->
  implicit_perms s u (Some d) =
  Some (flat_map (fun x => filter (fsel 0 [x; d]) (p_rules s)) (u :: implicit_roles s u (Some d))).
Proof.
  intros s u d H2. unfold implicit_perms. apply concat_opt_map_some.
  intros x _. apply perms_for_user_dom, H2.
Qed.

Lemma arity4_two_fields : forall s, p_arityb 4 s = true -> two_fields s.
Proof.
  intros s H r Hr. rewrite p_arityb_spec in H.
  destruct (length4 r (H r Hr)) as (x & y & z & w & ->). eauto.
Qed.

(* item 3, domain variant *)
Theorem enforce_eq_perm_dom : forall ptab s u d o a,
  rbac_dom_eq s = true -> p_arityb 4 s = true ->
  wf (f_rm (e_fs s)) -> shallow (f_rm_max (e_fs s)) (f_rm (e_fs s)) (Some d) ->
  nonempty_names s u (Some d) = true -> d <> [] ->
  exists l, implicit_perms s u (Some d) = Some l /\
    enforce ptab s [VStr u; VStr d; VStr o; VStr a] =
    Ok (existsb (fun rule => reqb (tl rule) [d; o; a]) l).
Proof.
  intros ptab s u d o a Hsc Har Hwf Hsh Hnn Hd.
  pose proof (arity4_two_fields s Har) as H2.
  eexists. split; [apply (implicit_perms_dom_exact s u d H2)|].
  rewrite (enforce_rbac_dom_closed ptab s u d o a Hsc Har). f_equal.
  pose proof Hnn as Hnn'. apply nonempty_names_spec in Hnn'.
  rewrite p_arityb_spec in Har. fold (p_rules s) in Har.
  assert (Hd0 : teqb d [] = false) by (apply teqb_neq, Hd).
  assert (Hgoal : existsb (match4 s u d o a) (p_rules s) =
                  existsb (fun rule => reqb (tl rule) [d; o; a])
                          (flat_map (fun x => filter (fsel 0 [x; d]) (p_rules s))
                                    (u :: implicit_roles s u (Some d)))).
  { apply eq_true_iff_eq. rewrite !existsb_exists. split.
    - intros (r & Hr & Hm). destruct (length4 r (Har r Hr)) as (x & y & z & w & ->).
      unfold match4 in Hm. cbn [nth] in Hm.
      apply andb_true_iff in Hm. destruct Hm as [Hm Ha]. apply andb_true_iff in Hm.
      destruct Hm as [Hm Ho]. apply andb_true_iff in Hm. destruct Hm as [Hl Hdy].
      apply teqb_eq in Ha. apply teqb_eq in Ho. apply teqb_eq in Hdy. subst y z w.
      exists [x; d; o; a]. split; [|apply reqb_refl].
      apply in_flat_map. exists x. split.
      + apply (has_link_implicit s u x (Some d) Hwf Hsh), Hl.
      + apply filter_In. split; [exact Hr|].
        rewrite fsel_two, !teqb_refl, !orb_true_r. reflexivity.
    - intros (r & Hr & Ht). apply in_flat_map in Hr. destruct Hr as (x & Hx & Hr).
      apply filter_In in Hr. destruct Hr as [Hr Hsel].
      destruct (length4 r (Har r Hr)) as (x' & y & z & w & ->).
      rewrite fsel_two in Hsel.
      assert (Hx0 : teqb x [] = false).
      { apply teqb_neq. intros ->. apply Hnn', Hx. }
      rewrite Hx0, Hd0 in Hsel. cbn [orb] in Hsel.
      apply andb_true_iff in Hsel. destruct Hsel as [E1 E2].
      apply teqb_eq in E1. apply teqb_eq in E2. subst x' y.
      cbn [tl] in Ht. apply reqb_eq in Ht. inversion Ht; subst z w.
      exists [x; d; o; a]. split; [exact Hr|]. unfold match4. cbn [nth].
      rewrite !teqb_refl, !andb_true_r.
      apply (has_link_implicit s u x (Some d) Hwf Hsh), Hx. }
  destruct (p_rules s) as [|r0 rules] eqn:Hpol; [|exact Hgoal].
  cbn [existsb] in Hgoal. rewrite <- Hgoal.
  unfold match4. cbn [nth]. rewrite Hd0, andb_false_r. reflexivity.
Qed.

(* ================= K. the role manager of every reachable state is well-formed ================= *)

Definition rm_wf (s : estate) : Prop := wf (f_rm (e_fs s)).

Lemma wf_link_rule : forall cnt ins m r, wf m -> wf (fst (link_rule cnt ins m r)).
Proof.
  intros cnt ins m r Hwf. unfold link_rule.
  destruct (Nat.ltb (length r) cnt); [exact Hwf|]. cbv zeta.
  destruct (Nat.leb 4 cnt); [exact Hwf|].
  destruct ins; [apply wf_add_link, Hwf|].
  pose proof (wf_delete_link m (nth 0 r []) (nth 1 r [])
                (if Nat.eqb cnt 2 then None else Some (nth 2 r [])) Hwf) as H.
  destruct (delete_link m (nth 0 r []) (nth 1 r []) _) as [m' [|]]; exact H.
Qed.

Lemma wf_link_rules : forall cnt ins rs m, wf m -> wf (fst (link_rules cnt ins m rs)).
Proof.
  intros cnt ins. induction rs as [|r rs IH]; intros m Hwf; cbn [link_rules]; [exact Hwf|].
  pose proof (wf_link_rule cnt ins m r Hwf) as H.
  destruct (link_rule cnt ins m r) as [m' [|e]]; cbn [fst] in *; [apply IH, H|exact H].
Qed.

Lemma wf_build_links_am : forall am m, wf m -> wf (snd (fst (build_links_am am m))).
Proof.
  induction am as [|[k a] am IH]; intros m Hwf; cbn [build_links_am]; [exact Hwf|].
  destruct (Nat.ltb (count_us (a_value a)) 2); [exact Hwf|].
  pose proof (wf_link_rules (count_us (a_value a)) true (a_policy a) m Hwf) as H.
  destruct (link_rules (count_us (a_value a)) true m (a_policy a)) as [m' [|e]]; cbn [fst] in H.
  - specialize (IH m' H). destruct (build_links_am am m') as [[am'' m''] e]. exact IH.
  - exact H.
Qed.

Lemma wf_build_role_links : forall s, rm_wf (fst (build_role_links s)).
Proof.
  intros s. unfold build_role_links, rm_wf. destruct (assoc s_g (e_model s)) as [am|].
  - pose proof (wf_build_links_am am [] wf_nil) as H.
    destruct (build_links_am am []) as [[am' m'] e]. exact H.
  - apply wf_nil.
Qed.

Lemma wf_shape : forall s s' sec pt pol' ins rs,
  mgmt_shape s s' sec pt pol' ins rs -> rm_wf s -> rm_wf s'.
Proof.
  intros s s' sec pt pol' ins rs [_ _ _ Hrm] Hwf. unfold rm_wf in *.
  destruct Hrm as [Hrm|[_ [Hrm|(_ & a & _ & Hrm)]]]; rewrite Hrm; try exact Hwf.
  apply wf_link_rules, Hwf.
Qed.

Lemma wf_srf : forall s sec pt idx vals, rm_wf s -> rm_wf (fst (step_remove_filtered s sec pt idx vals)).
Proof.
  intros s sec pt idx vals Hwf.
  destruct (step_remove_filtered s sec pt idx vals) as [s' out] eqn:H.
  apply step_remove_filtered_shape in H. cbv zeta in H. destruct H as (pol' & rs & Hsh & _).
  apply (wf_shape _ _ _ _ _ _ _ Hsh Hwf).
Qed.

Lemma wf_seq_or : forall ra f, rm_wf (fst ra) -> (forall s, rm_wf s -> rm_wf (fst (f s))) ->
  rm_wf (fst (seq_or ra f)).
Proof.
  intros [s [a|c|]] f H Hf; cbn [seq_or fst] in *; try exact H.
  specialize (Hf s H). destruct (f s) as [s' [b|c|]]; exact Hf.
Qed.

Lemma wf_finish_load : forall s ad md r, rm_wf s -> rm_wf (fst (finish_load s ad md r)).
Proof.
  intros s ad md r Hwf. unfold finish_load. destruct r as [|e|]; try exact Hwf.
  destruct (e_auto_build (upd_model (upd_adapter s ad) md)); [|exact Hwf].
  pose proof (wf_build_role_links (upd_model (upd_adapter s ad) md)) as H.
  destruct (build_role_links (upd_model (upd_adapter s ad) md)) as [s2 e]. exact H.
Qed.

Lemma wf_step_load : forall s, rm_wf s -> rm_wf (fst (step_load s)).
Proof.
  intros s Hwf. unfold step_load.
  destruct (ad_load (e_adapter s) (m_clear_policy (e_model s))) as [[ad md] r].
  apply wf_finish_load, Hwf.
Qed.

Lemma rm_register_g : forall s, f_rm (e_fs (fst (register_g_functions s))) = f_rm (e_fs s).
Proof.
  intros s. unfold register_g_functions. destruct (assoc s_g (e_model s)) as [am|]; [|reflexivity].
  destruct (register_g am (f_gfuns (e_fs s))) as [gf e]. reflexivity.
Qed.

Theorem wf_step : forall s o, rm_wf s -> rm_wf (fst (step s o)).
Proof.
  intros s o Hwf. destruct o; cbn [step].
  - destruct (step_add s sec pt r) as [s' out] eqn:H. apply step_add_shape in H.
    destruct H as (pol' & _ & Hsh). apply (wf_shape _ _ _ _ _ _ _ Hsh Hwf).
  - destruct (step_add_many s sec pt rs) as [s' out] eqn:H. apply step_add_many_shape in H.
    destruct H as (pol' & _ & Hsh). apply (wf_shape _ _ _ _ _ _ _ Hsh Hwf).
  - destruct (step_remove s sec pt r) as [s' out] eqn:H. apply step_remove_shape in H.
    destruct H as (pol' & _ & Hsh). apply (wf_shape _ _ _ _ _ _ _ Hsh Hwf).
  - destruct (step_remove_many s sec pt rs) as [s' out] eqn:H. apply step_remove_many_shape in H.
    destruct H as (pol' & _ & Hsh). apply (wf_shape _ _ _ _ _ _ _ Hsh Hwf).
  - apply wf_srf, Hwf.
  - destruct r; cbn [step_rbac].
    + destruct (step_add s s_p s_p (user :: perm)) as [s' out] eqn:H. apply step_add_shape in H.
      destruct H as (pol' & _ & Hsh). apply (wf_shape _ _ _ _ _ _ _ Hsh Hwf).
    + destruct (step_add_many s s_p s_p _) as [s' out] eqn:H. apply step_add_many_shape in H.
      destruct H as (pol' & _ & Hsh). apply (wf_shape _ _ _ _ _ _ _ Hsh Hwf).
    + destruct (step_add s s_g s_g _) as [s' out] eqn:H. apply step_add_shape in H.
      destruct H as (pol' & _ & Hsh). apply (wf_shape _ _ _ _ _ _ _ Hsh Hwf).
    + destruct (step_add_many s s_g s_g _) as [s' out] eqn:H. apply step_add_many_shape in H.
      destruct H as (pol' & _ & Hsh). apply (wf_shape _ _ _ _ _ _ _ Hsh Hwf).
    + destruct (step_remove s s_g s_g _) as [s' out] eqn:H. apply step_remove_shape in H.
      destruct H as (pol' & _ & Hsh). apply (wf_shape _ _ _ _ _ _ _ Hsh Hwf).
    + apply wf_srf, Hwf.
    + apply wf_seq_or; [apply wf_srf, Hwf|]. intros s1 H1. apply wf_srf, H1.
    + apply wf_seq_or; [apply wf_srf, Hwf|]. intros s1 H1. apply wf_srf, H1.
    + apply wf_srf, Hwf.
    + destruct (step_remove s s_p s_p _) as [s' out] eqn:H. apply step_remove_shape in H.
      destruct H as (pol' & _ & Hsh). apply (wf_shape _ _ _ _ _ _ _ Hsh Hwf).
    + apply wf_srf, Hwf.
  - (* OClear *)
    unfold step_clear.
    destruct (if e_auto_save s then ad_clear (e_adapter s) else (e_adapter s, LROk)) as [ad r].
    destruct r as [|e|]; try exact Hwf.
    set (s2 := upd_model (upd_adapter s ad) (m_clear_policy (e_model (upd_adapter s ad)))).
    destruct (e_auto_build s2).
    + pose proof (wf_build_role_links s2) as H. destruct (build_role_links s2) as [s3 [|e]];
        cbn [fst] in *; [|exact H].
      unfold emit. destruct (e_watcher s3); exact H.
    + unfold emit. destruct (e_watcher s2); exact Hwf.
  - apply wf_step_load, Hwf.
  - unfold step_load_filtered.
    destruct (ad_load_filtered (e_adapter s) fp fg (m_clear_policy (e_model s))) as [[ad md] r].
    apply wf_finish_load, Hwf.
  - unfold step_save. destruct (ad_is_filtered (e_adapter s)); [exact Hwf|].
    destruct (ad_save (e_adapter s) (e_model s)) as [ad [|e|]]; cbn [fst]; try exact Hwf.
    unfold emit. destruct (e_watcher (upd_adapter s ad)); exact Hwf.
  - pose proof (wf_build_role_links s) as H. destruct (build_role_links s) as [s' e]. exact H.
  - (* OSetModel *)
    unfold step_set_model.
    match goal with |- rm_wf (fst (match step_load ?s0 with _ => _ end)) =>
      pose proof (wf_step_load s0 Hwf) as H; destruct (step_load s0) as [s1 [b|e|]] end;
      cbn [fst] in *; try exact H.
    pose proof (rm_register_g s1) as Hr. destruct (register_g_functions s1) as [s2 e].
    cbn [fst] in *. unfold rm_wf. rewrite Hr. exact H.
  - unfold step_set_adapter. apply wf_step_load. exact Hwf.
  - (* OSetRoleManager *)
    unfold step_set_role_manager. cbv zeta.
    match goal with |- rm_wf (fst (let (s2, e) := (if e_auto_build ?x then _ else _) in _)) =>
      set (s1 := x) end.
    assert (H1 : rm_wf s1) by apply wf_nil.
    assert (H2 : rm_wf (fst (if e_auto_build s1 then build_role_links s1 else (s1, LOk)))).
    { destruct (e_auto_build s1); [apply wf_build_role_links|exact H1]. }
    destruct (if e_auto_build s1 then build_role_links s1 else (s1, LOk)) as [s2 [|c]];
      cbn [fst] in *; [|exact H2].
    pose proof (rm_register_g s2) as Hr. destruct (register_g_functions s2) as [s3 e'].
    cbn [fst] in *. unfold rm_wf. rewrite Hr. exact H2.
  - exact Hwf.
  - exact Hwf.
  - exact Hwf.
  - exact Hwf.
  - exact Hwf.
  - exact Hwf.
Qed.

Theorem wf_new_enforcer : forall d a w, rm_wf (fst (new_enforcer d a w)).
Proof.
  intros d a w. unfold new_enforcer.
  assert (H0 : rm_wf (fst (new_raw d a w))).
  { unfold new_raw, rm_wf. rewrite rm_register_g. apply wf_nil. }
  destruct (new_raw d a w) as [s [|e]]; cbn [fst] in *; [|exact H0].
  destruct (ad_is_filtered (e_adapter s)); [exact H0|]. apply wf_step_load, H0.
Qed.

Theorem wf_run_ops : forall ops s, rm_wf s -> rm_wf (run_ops s ops).
Proof.
  unfold run_ops. induction ops as [|o ops IH]; intros s Hwf; cbn [fold_left]; [exact Hwf|].
  apply IH, wf_step, Hwf.
Qed.

(* ================= L. the scope is stable under policy management ================= *)

Definition is_mgmt (o : op) : bool :=
  match o with
  | OAdd _ _ _ | OAddMany _ _ _ | ORemove _ _ _ | ORemoveMany _ _ _
  | ORemoveFiltered _ _ _ _ | ORbac _ => true
  | _ => false
  end.

Lemma frame_srf : forall s sec pt idx vals, st_frame s (fst (step_remove_filtered s sec pt idx vals)).
Proof.
  intros s sec pt idx vals.
  destruct (step_remove_filtered s sec pt idx vals) as [s' out] eqn:H.
  apply step_remove_filtered_shape in H. cbv zeta in H. destruct H as (pol' & rs & Hsh & _).
  apply (ms_frame _ _ _ _ _ _ _ Hsh).
Qed.

Lemma frame_seq_or : forall s ra f, st_frame s (fst ra) ->
  (forall s1, st_frame s1 (fst (f s1))) -> st_frame s (fst (seq_or ra f)).
Proof.
  intros s [s1 [a|c|]] f H Hf; cbn [seq_or fst] in *; try exact H.
  specialize (Hf s1). destruct (f s1) as [s' [b|c|]]; cbn [fst] in *;
    apply (st_frame_trans s s1 s' H Hf).
Qed.

Theorem mgmt_frame : forall s o, is_mgmt o = true -> st_frame s (fst (step s o)).
Proof.
  intros s o Hm. destruct o; try discriminate; cbn [step].
  - destruct (step_add s sec pt r) as [s' out] eqn:H. apply step_add_shape in H.
    destruct H as (pol' & _ & Hsh). apply (ms_frame _ _ _ _ _ _ _ Hsh).
  - destruct (step_add_many s sec pt rs) as [s' out] eqn:H. apply step_add_many_shape in H.
    destruct H as (pol' & _ & Hsh). apply (ms_frame _ _ _ _ _ _ _ Hsh).
  - destruct (step_remove s sec pt r) as [s' out] eqn:H. apply step_remove_shape in H.
    destruct H as (pol' & _ & Hsh). apply (ms_frame _ _ _ _ _ _ _ Hsh).
  - destruct (step_remove_many s sec pt rs) as [s' out] eqn:H. apply step_remove_many_shape in H.
    destruct H as (pol' & _ & Hsh). apply (ms_frame _ _ _ _ _ _ _ Hsh).
  - apply frame_srf.
  - destruct r; cbn [step_rbac].
    + destruct (step_add s s_p s_p (user :: perm)) as [s' out] eqn:H. apply step_add_shape in H.
      destruct H as (pol' & _ & Hsh). apply (ms_frame _ _ _ _ _ _ _ Hsh).
    + destruct (step_add_many s s_p s_p _) as [s' out] eqn:H. apply step_add_many_shape in H.
      destruct H as (pol' & _ & Hsh). apply (ms_frame _ _ _ _ _ _ _ Hsh).
    + destruct (step_add s s_g s_g _) as [s' out] eqn:H. apply step_add_shape in H.
      destruct H as (pol' & _ & Hsh). apply (ms_frame _ _ _ _ _ _ _ Hsh).
    + destruct (step_add_many s s_g s_g _) as [s' out] eqn:H. apply step_add_many_shape in H.
      destruct H as (pol' & _ & Hsh). apply (ms_frame _ _ _ _ _ _ _ Hsh).
    + destruct (step_remove s s_g s_g _) as [s' out] eqn:H. apply step_remove_shape in H.
      destruct H as (pol' & _ & Hsh). apply (ms_frame _ _ _ _ _ _ _ Hsh).
    + apply frame_srf.
    + apply frame_seq_or; [apply frame_srf|]. intros s1. apply frame_srf.
    + apply frame_seq_or; [apply frame_srf|]. intros s1. apply frame_srf.
    + apply frame_srf.
    + destruct (step_remove s s_p s_p _) as [s' out] eqn:H. apply step_remove_shape in H.
      destruct H as (pol' & _ & Hsh). apply (ms_frame _ _ _ _ _ _ _ Hsh).
    + apply frame_srf.
Qed.

Theorem scope_run_mgmt : forall cnt rt pt_ok e_ok m ops s,
  forallb is_mgmt ops = true ->
  scope_core cnt rt pt_ok e_ok m s = true ->
  scope_core cnt rt pt_ok e_ok m (run_ops s ops) = true.
Proof.
  intros cnt rt pt_ok e_ok m. unfold run_ops.
  induction ops as [|o ops IH]; intros s Hall Hsc; cbn [fold_left]; [exact Hsc|].
  cbn [forallb] in Hall. apply andb_true_iff in Hall. destruct Hall as [Ho Hall].
  apply IH; [exact Hall|]. apply (scope_core_frame _ _ _ _ _ s _ Hsc (mgmt_frame s o Ho)).
Qed.

(* C13 for every state reached by a management history from a state in scope *)
Theorem c13_history : forall ptab s0 ops u o a,
  rbac_eq s0 = true -> rm_wf s0 -> forallb is_mgmt ops = true ->
  let s := run_ops s0 ops in
  p_arityb 3 s = true -> shallow (f_rm_max (e_fs s)) (f_rm (e_fs s)) None ->
  nonempty_names s u None = true ->
  (forall r, In r (implicit_roles s u None) <->
             clos_trans text (Edge (f_rm (e_fs s)) None) u r) /\
  (forall r x, In r (roles_for_user s x None) <-> In x (users_for_role s r None)) /\
  exists l, implicit_perms s u None = Some l /\
    (forall rule, In rule l <-> In rule (p_rules s) /\
       (hd [] rule = u \/ clos_trans text (Edge (f_rm (e_fs s)) None) u (hd [] rule))) /\
    enforce ptab s [VStr u; VStr o; VStr a] = Ok (existsb (fun rule => reqb (tl rule) [o; a]) l).
Proof.
  intros ptab s0 ops u o a Hsc Hwf Hops s Har Hsh Hnn.
  assert (Hsc' : rbac_eq s = true) by (apply scope_run_mgmt; assumption).
  assert (Hwf' : rm_wf s) by (apply wf_run_ops, Hwf).
  split; [|split].
  - intros r. apply implicit_roles_spec, Hwf'.
  - intros r x. apply roles_users_inverse. intros ga Hga.
    apply scope_core_spec in Hsc'. destruct (sc_g _ _ _ _ _ _ Hsc') as (ga' & Hg & _ & Hh).
    rewrite Hg in Hga. inversion Hga; subst ga'. rewrite Hh. exact Hwf'.
  - destruct (enforce_eq_perm ptab s u o a Hsc' Har Hwf' Hsh Hnn) as (l & Hl & He).
    exists l. split; [exact Hl|]. split; [|exact He].
    intros rule. apply (implicit_perms_spec s u l rule Hwf' (arity_nonempty 2 s Har) Hnn Hl).
Qed.

(* ================= M. the executable predicate holds of the model ================= *)

Lemma seteqb_gen_spec : forall {A} (eqb : A -> A -> bool),
  (forall x y, eqb x y = true <-> x = y) ->
  forall x y, seteqb eqb x y = true <-> (forall e, In e x <-> In e y).
Proof.
  intros A eqb Heq x y. unfold seteqb, subsetb. rewrite andb_true_iff, !forallb_forall. split.
  - intros [H1 H2] e. split; intros He; [apply H1 in He|apply H2 in He];
      apply (memb_In_gen eqb Heq) in He; exact He.
  - intros H. split; intros e He; apply (memb_In_gen eqb Heq); apply H, He.
Qed.

Lemma existsb_same_members : forall {A} (f : A -> bool) l1 l2,
  (forall x, In x l1 <-> In x l2) -> existsb f l1 = existsb f l2.
Proof.
  intros A f l1 l2 H. apply eq_true_iff_eq. rewrite !existsb_exists.
  split; intros (x & Hx & Hf); exists x; (split; [apply H, Hx|exact Hf]).
Qed.

Lemma reach1_spec : forall (l : links) u x,
  In x (reach1 l u) <-> clos_trans text (fun a b => In (a, b) l) u x.
Proof.
  intros l u x. unfold reach1. rewrite in_flat_map. split.
  - intros (v & Hv & Hx). apply lsuccs_In in Hv.
    assert (Hr : reachable l v x = true) by (apply memb_In, Hx).
    apply reachable_spec in Hr. destruct Hr as [->|Hr]; [apply t_step, Hv|].
    apply (t_trans _ _ u v x); [apply t_step, Hv|exact Hr].
  - intros H. apply clos_trans_t1n in H. destruct H as [y Hy|y z Hy Hyz].
    + exists y. split; [apply lsuccs_In, Hy|].
      apply memb_In. apply (proj2 (reachable_spec l y y)). left. reflexivity.
    + exists y. split; [apply lsuccs_In, Hy|].
      apply memb_In. apply (proj2 (reachable_spec l y z)). right. apply clos_t1n_trans, Hyz.
Qed.

(* the role graph holds exactly the links denoted by the stored g rules *)
Definition links_exact (s : estate) : Prop :=
  forall x y, Edge (f_rm (e_fs s)) None x y <-> In (x, y) (g_links (g_rules s)).

Theorem c13_pred_model : forall ptab s u l oas,
  rbac_eq s = true -> p_arityb 3 s = true -> rm_wf s ->
  shallow (f_rm_max (e_fs s)) (f_rm (e_fs s)) None ->
  nonempty_names s u None = true -> links_exact s ->
  implicit_perms s u None = Some l ->
  c13_pred u (g_rules s) (p_rules s) (implicit_roles s u None) l
           (map (fun oa => (oa, enforce ptab s [VStr u; VStr (fst oa); VStr (snd oa)])) oas) = true.
Proof.
  intros ptab s u l oas Hsc Har Hwf Hsh Hnn Hex Hl. unfold c13_pred. cbv zeta.
  set (lk := g_links (g_rules s)).
  assert (Hreach : forall x, In x (reach1 lk u) <->
                             clos_trans text (Edge (f_rm (e_fs s)) None) u x).
  { intros x. rewrite reach1_spec. split; apply clos_trans_impl; intros a b Hab; apply Hex, Hab. }
  set (expected := filter (fun r => memb teqb (hd [] r) (u :: reach1 lk u)) (p_rules s)).
  assert (Hmem : forall rule, In rule l <-> In rule expected).
  { intros rule.
    rewrite (implicit_perms_spec s u l rule Hwf (arity_nonempty 2 s Har) Hnn Hl).
    unfold expected. rewrite filter_In, memb_In. cbn [In]. rewrite Hreach.
    split; intros [H1 [H2|H2]]; auto. }
  apply andb_true_iff. split; [apply andb_true_iff; split|].
  - apply seteqb_spec. intros e. rewrite Hreach. apply implicit_roles_spec, Hwf.
  - apply (seteqb_gen_spec reqb reqb_eq). exact Hmem.
  - apply forallb_forall. intros [[o a] dec] Hin. apply in_map_iff in Hin.
    destruct Hin as ([o' a'] & E & _). inversion E; subst o' a' dec. cbn [fst snd].
    destruct (enforce_eq_perm ptab s u o a Hsc Har Hwf Hsh Hnn) as (l' & Hl' & He).
    rewrite Hl in Hl'. inversion Hl'; subst l'. rewrite He. cbn [dec_eqb].
    rewrite (existsb_same_members _ l expected Hmem). apply eqb_reflx.
Qed.

(* ================= N. examples and witnesses ================= *)

Definition mk_ast (v : text) (toks : list text) : assertion :=
  {| a_value := v; a_tokens := toks; a_policy := []; a_handle := HOwn |}.

(* the "rbac_model.conf" of the casbin examples, parsed *)
Definition ex_model : model :=
  [ (s_r, [(s_r, mk_ast (T "sub, obj, act") r_toks3)]);
    (s_p, [(s_p, mk_ast (T "sub, obj, act") p_toks3)]);
    (s_g, [(s_g, mk_ast (T "_, _") [])]);
    (s_e, [(s_e, mk_ast s_allow_override [])]);
    (s_m, [(s_m, mk_ast (T "g(r_sub, p_sub) && r_obj == p_obj && r_act == p_act") [])]) ].
Definition ex_def : modeldef := {| d_model := ex_model; d_mexprs := [(s_m, rbac_matcher)] |}.
Definition ex0 : estate := fst (new_enforcer ex_def ANull false).

(* a diamond alice -> r1, r2 -> r3 and a cycle r3 -> r1 *)
Definition ex_ops : list op :=
  [ ORbac (RAddRole (T "alice") (T "r1") None);
    ORbac (RAddRole (T "alice") (T "r2") None);
    ORbac (RAddRole (T "r1") (T "r3") None);
    ORbac (RAddRole (T "r2") (T "r3") None);
    ORbac (RAddRole (T "r3") (T "r1") None);
    ORbac (RAddPermission (T "r3") [T "data"; T "read"]);
    ORbac (RAddPermission (T "alice") [T "data"; T "own"]);
    ORbac (RAddPermission (T "bob") [T "data2"; T "write"]);
    ORbac (RAddPermission (T "r1") [T "x"; T "y"]) ].
Definition ex1 : estate := run_ops ex0 ex_ops.
Definition ptab0 : text -> option expr := fun _ => None.

Example ex1_in_scope :
  rbac_eq ex0 = true /\ forallb is_mgmt ex_ops = true /\ rbac_eq ex1 = true /\
  p_arityb 3 ex1 = true /\ shallowb (f_rm_max (e_fs ex1)) (f_rm (e_fs ex1)) None = true /\
  nonempty_names ex1 (T "alice") None = true /\ links_mirrorb ex1 = true /\
  quiet_adapter ex1 = true.
Proof. vm_compute. repeat split; reflexivity. Qed.

Example ex1_wf : rm_wf ex1.
Proof. apply wf_run_ops, wf_new_enforcer. Qed.

Example ex1_answers :
  implicit_roles ex1 (T "alice") None = [T "r2"; T "r1"; T "r3"] /\
  implicit_roles ex1 (T "r1") None = [T "r3"; T "r1"] /\
  enforce ptab0 ex1 [VStr (T "alice"); VStr (T "data"); VStr (T "read")] = Ok true /\
  enforce ptab0 ex1 [VStr (T "bob"); VStr (T "data"); VStr (T "read")] = Ok false /\
  roles_for_user ex1 (T "alice") None = [T "r2"; T "r1"] /\
  users_for_role ex1 (T "r3") None = [T "r2"; T "r1"].
Proof. vm_compute. repeat split; reflexivity. Qed.

(* WITNESS (nonempty_names is necessary, 1): on an empty store the matcher is
   evaluated once against empty policy values, so the all-empty request is
   granted although nobody holds any permission *)
Example empty_store_grants_empty_request :
  rbac_eq ex0 = true /\ p_arityb 3 ex0 = true /\
  implicit_perms ex0 [] None = Some [] /\
  enforce ptab0 ex0 [VStr []; VStr []; VStr []] = Ok true.
Proof. vm_compute. repeat split; reflexivity. Qed.

(* WITNESS (nonempty_names is necessary, 2): the empty user name is a wildcard
   in get_permissions_for_user: every stored rule is listed for it, none is
   granted *)
Example empty_user_lists_everything :
  (exists l, implicit_perms ex1 [] None = Some l /\ length l = 4) /\
  enforce ptab0 ex1 [VStr []; VStr (T "data"); VStr (T "read")] = Ok false.
Proof. split; [eexists; split; [vm_compute; reflexivity|reflexivity]|vm_compute; reflexivity]. Qed.

(* WITNESS (multiplicities): a subject on a cycle is its own implicit role, so
   its own rules are listed twice by get_implicit_permissions_for_user *)
Example cycle_duplicates_permissions :
  implicit_perms ex1 (T "r1") None =
  Some [[T "r1"; T "x"; T "y"]; [T "r3"; T "data"; T "read"]; [T "r1"; T "x"; T "y"]].
Proof. vm_compute. reflexivity. Qed.

(* WITNESS (shallow is necessary): beyond the depth limit the closure-based
   listings and the BFS-based decision disagree *)
Definition ex_deep_ops : list op :=
  map (fun i => ORbac (RAddRole (ex_node i) (ex_node (S i)) None)) (seq 0 10) ++
  [ORbac (RAddPermission (ex_node 10) [T "data"; T "read"])].
Definition ex_deep : estate := run_ops ex0 ex_deep_ops.
Example deep_chain_disagrees :
  rbac_eq ex_deep = true /\ p_arityb 3 ex_deep = true /\
  nonempty_names ex_deep (ex_node 0) None = true /\
  shallowb (f_rm_max (e_fs ex_deep)) (f_rm (e_fs ex_deep)) None = false /\
  implicit_perms ex_deep (ex_node 0) None = Some [[ex_node 10; T "data"; T "read"]] /\
  enforce ptab0 ex_deep [VStr (ex_node 0); VStr (T "data"); VStr (T "read")] = Ok false.
Proof. vm_compute. repeat split; reflexivity. Qed.

(* deletion: the hypotheses of the corollaries are satisfiable *)
Definition ex_del_user : estate := fst (step ex1 (ORbac (RDeleteUser (T "alice")))).
Example delete_user_example :
  step ex1 (ORbac (RDeleteUser (T "alice"))) = (ex_del_user, Ok true) /\
  links_mirrorb ex_del_user = true /\
  g_rules ex_del_user = [[T "r1"; T "r3"]; [T "r2"; T "r3"]; [T "r3"; T "r1"]] /\
  length (p_rules ex_del_user) = 3.
Proof. vm_compute. repeat split; reflexivity. Qed.

Definition ex_del_role : estate := fst (step ex1 (ORbac (RDeleteRoleAll (T "r3")))).
Example delete_role_example :
  step ex1 (ORbac (RDeleteRoleAll (T "r3"))) = (ex_del_role, Ok true) /\
  links_mirrorb ex_del_role = true /\
  g_rules ex_del_role = [[T "alice"; T "r1"]; [T "alice"; T "r2"]; [T "r3"; T "r1"]] /\
  length (p_rules ex_del_role) = 3.
Proof. vm_compute. repeat split; reflexivity. Qed.

Example delete_permission_example :
  snd (step ex1 (ORbac (RDeletePermission [T "data"; T "read"]))) = Ok true /\
  enforce ptab0 (fst (step ex1 (ORbac (RDeletePermission [T "data"; T "read"])))) 
          [VStr (T "alice"); VStr (T "data"); VStr (T "read")] = Ok false.
Proof. vm_compute. repeat split; reflexivity. Qed.

(* WITNESS (quiet is necessary): with an adapter that refuses the second
   removal, delete_user reports Ok(true) and the user's own rules stay *)
Definition ex_refusing : estate :=
  run_ops (fst (new_enforcer ex_def (AScripted ANull (repeat RPass 10 ++ [RPass; RRefuse])) false))
          ex_ops.
Example delete_user_needs_quiet :
  rbac_eq ex_refusing = true /\ quiet_adapter ex_refusing = false /\
  snd (step ex_refusing (ORbac (RDeleteUser (T "alice")))) = Ok true /\
  In [T "alice"; T "data"; T "own"]
     (p_rules (fst (step ex_refusing (ORbac (RDeleteUser (T "alice")))))) /\
  enforce ptab0 (fst (step ex_refusing (ORbac (RDeleteUser (T "alice")))))
          [VStr (T "alice"); VStr (T "data"); VStr (T "own")] = Ok true.
Proof. vm_compute. repeat split; try reflexivity. right. left. reflexivity. Qed.

(* WITNESS: an empty name is a wildcard for the delete calls: delete_user("")
   removes every role link rule and every permission rule *)
Example delete_empty_user_wipes_everything :
  snd (step ex1 (ORbac (RDeleteUser []))) = Ok true /\
  g_rules (fst (step ex1 (ORbac (RDeleteUser [])))) = [] /\
  p_rules (fst (step ex1 (ORbac (RDeleteUser [])))) = [].
Proof. vm_compute. repeat split; reflexivity. Qed.

(* WITNESS (perm <> [] is necessary): delete_permission with no fields removes
   nothing although the empty filter matches every rule *)
Example delete_permission_empty_is_noop :
  snd (step ex1 (ORbac (RDeletePermission []))) = Ok false /\
  p_rules (fst (step ex1 (ORbac (RDeletePermission [])))) = p_rules ex1 /\
  forallb (fsel 1 []) (p_rules ex1) = true.
Proof. vm_compute. repeat split; reflexivity. Qed.

Example c13_pred_example :
  c13_pred (T "alice") (g_rules ex1) (p_rules ex1) (implicit_roles ex1 (T "alice") None)
           (match implicit_perms ex1 (T "alice") None with Some l => l | None => [] end)
           [((T "data", T "read"), Ok true); ((T "data2", T "write"), Ok false)] = true /\
  c13_pred (T "alice") (g_rules ex1) (p_rules ex1) [T "r1"; T "r2"]
           (match implicit_perms ex1 (T "alice") None with Some l => l | None => [] end)
           [((T "data", T "read"), Ok true)] = false /\
  c13_pred (T "alice") (g_rules ex1) (p_rules ex1) (implicit_roles ex1 (T "alice") None)
           (match implicit_perms ex1 (T "alice") None with Some l => l | None => [] end)
           [((T "data2", T "write"), Ok true)] = false.
Proof. vm_compute. repeat split; reflexivity. Qed.

Lemma links_exactb_spec : forall s, links_exactb s = true -> links_exact s.
Proof.
  intros s H x y. unfold links_exactb in H.
  pose proof (proj1 (seteqb_gen_spec peqb peqb_eq _ _) H) as H'. apply (H' (x, y)).
Qed.

Example ex1_links_exact : links_exactb ex1 = true.
Proof. vm_compute. reflexivity. Qed.

(* ================= O. deletion in the domain variant ================= *)

Definition links_mirror_dom (s : estate) : Prop :=
  forall d x y, Edge (f_rm (e_fs s)) (Some d) x y -> In [x; y; d] (g_rules s).

Lemma links_mirror_domb_spec : forall s, links_mirror_domb s = true -> links_mirror_dom s.
Proof.
  intros s H d x y Hxy. unfold links_mirror_domb in H. rewrite forallb_forall in H.
  unfold Edge, edges_of, graph_of in Hxy. cbn [dom_key] in Hxy.
  destruct (assoc d (f_rm (e_fs s))) as [g|] eqn:Hg; [|destruct Hxy].
  apply assoc_In in Hg. specialize (H (d, g) Hg). cbn [fst snd] in H.
  rewrite forallb_forall in H. specialize (H (x, y) Hxy). cbn [fst snd] in H.
  apply memb_reqb_In in H. exact H.
Qed.

Theorem no_links_no_rules_denied_dom : forall ptab s n,
  rbac_dom_eq s = true -> p_arityb 4 s = true -> wf (f_rm (e_fs s)) -> n <> [] ->
  (forall d y, ~ Edge (f_rm (e_fs s)) (Some d) n y) ->
  (forall r, In r (p_rules s) -> nth 0 r [] <> n) ->
  forall d, roles_for_user s n (Some d) = [] /\ implicit_roles s n (Some d) = [] /\
            forall o a, enforce ptab s [VStr n; VStr d; VStr o; VStr a] = Ok false.
Proof.
  intros ptab s n Hsc Har Hwf Hn Hout Hrules d.
  pose proof Hsc as Hsc'. apply scope_core_spec in Hsc'.
  split; [|split].
  - rewrite (proj1 (rbac_roles_for_user _ _ _ _ _ s n (Some d) Hsc')).
    apply nil_no_members. intros y Hy. apply (get_roles_spec _ n (Some d) y Hwf) in Hy.
    apply (Hout d y Hy).
  - apply nil_no_members. intros y Hy. apply (implicit_roles_spec s n (Some d) y Hwf) in Hy.
    apply clos_trans_first in Hy. destruct Hy as [c Hc]. apply (Hout d c Hc).
  - intros o a. rewrite (enforce_rbac_dom_closed ptab s n d o a Hsc Har). f_equal.
    assert (Hl : forall x, x <> n ->
                 has_link (f_rm_max (e_fs s)) (f_rm (e_fs s)) n x (Some d) = false).
    { intros x Hx. destruct (has_link _ _ n x (Some d)) eqn:E; [|reflexivity].
      apply has_link_sound in E; [|exact Hwf]. destruct E as [E|E]; [congruence|].
      apply clos_trans_first in E. destruct E as [c Hc]. destruct (Hout d c Hc). }
    destruct (p_rules s) as [|r0 rules] eqn:Hpol.
    + unfold match4. cbn [nth]. rewrite Hl by congruence. reflexivity.
    + rewrite <- Hpol in *. apply not_true_is_false. intros E.
      apply existsb_exists in E. destruct E as (r & Hr & Hm).
      unfold match4 in Hm. rewrite Hl in Hm by (apply Hrules, Hr). discriminate.
Qed.

Theorem deleted_user_powerless_dom : forall ptab s n s' b,
  step s (ORbac (RDeleteUser n)) = (s', Ok b) -> quiet s -> n <> [] ->
  rbac_dom_eq s = true -> p_arityb 4 s = true ->
  wf (f_rm (e_fs s')) -> links_mirror_dom s' ->
  rbac_dom_eq s' = true /\ p_arityb 4 s' = true /\
  forall d, roles_for_user s' n (Some d) = [] /\ implicit_roles s' n (Some d) = [] /\
            forall o a, enforce ptab s' [VStr n; VStr d; VStr o; VStr a] = Ok false.
Proof.
  intros ptab s n s' b H Hq Hn Hsc Har Hwf Hmir.
  destruct (delete_user_spec s n s' b H Hq) as (Hf & _ & Hp & _).
  destruct (delete_user_no_mention s n s' b H Hq Hn) as (Hg0 & Hp0).
  assert (Hsc' : rbac_dom_eq s' = true) by (apply (scope_core_frame _ _ _ _ _ s s' Hsc Hf)).
  assert (Har' : p_arityb 4 s' = true).
  { apply p_arityb_spec. rewrite p_arityb_spec in Har. fold (p_rules s'). rewrite Hp.
    intros r Hr. apply filter_In in Hr. apply Har, Hr. }
  split; [exact Hsc'|]. split; [exact Har'|].
  apply (no_links_no_rules_denied_dom ptab s' n Hsc' Har' Hwf Hn); [|exact Hp0].
  intros d y Hy. apply Hmir in Hy. apply (Hg0 _ Hy). reflexivity.
Qed.
