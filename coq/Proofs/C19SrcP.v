(* C19 at the level of the TRANSLATED SOURCE: the headline theorems of Properties/C19.v restated about `src_step` /
   `src_run_ops` / `src_enforce` / `src_new_enforcer` (Proofs/SrcStepP.v, Proofs/SrcQueryP.v: the Gallina generated
   each run from src/internal_api.rs, src/rbac_api.rs, src/management_api.rs, src/enforcer.rs).
   THE PROPERTY IS FALSE OF THE CODE (finding D7: all role definitions share one role manager); as in
   Properties/C19.v: the full statement with its refutation - here with the witness run through the translated
   source -, the partial statement that holds, and the store-level independence.
   Proofs: the C19 theorems (Proofs/C19P.v) composed with src_step_eq & co. *)
From CV Require Import Model.Base Model.Effector Model.RoleGraph Model.PathMatch Model.Expr
     Model.Enforce Model.Engine Model.SpecC08 Model.SpecC19.
From CV Require Import Proofs.BaseP Proofs.RoleGraphP Proofs.C08P Proofs.C19P.
From CV Require Import Proofs.SrcStepP Proofs.SrcQueryP.

(* ---------- the full statement, refuted ---------- *)
Definition src_c19_full_statement : Prop :=
  forall ptab (d : modeldef) (ops : list op) (rv : list value),
    let s := src_run_ops (fst (src_new_enforcer d ANull false)) ops in
    src_enforce ptab s rv = enforce_indep ptab s rv.

(* concrete witness, computed through the generated code: user roles g + resource roles g2, policy (y, data, read),
   ONLY the resource-role link g2: x -> y stored; the translated source grants (x, data, read), the specification
   denies *)
Lemma src_c19_full_statement_refuted : exists ptab d ops rv,
  let s := src_run_ops (fst (src_new_enforcer d ANull false)) ops in
  src_enforce ptab s rv = Ok true /\ enforce_indep ptab s rv = Ok false.
Proof.
  exists no_ptab, (ex_def s_allow_override p3 g_two m_two),
    [OAdd s_p s_p [T "y"; T "data"; T "read"]; OAdd s_g (T "g2") [T "x"; T "y"]], (req "x" "data" "read").
  vm_compute. split; reflexivity.
Qed.

Lemma src_c19_full_statement_false : ~ src_c19_full_statement.
Proof.
  intros H. destruct src_c19_full_statement_refuted as (ptab & d & ops & rv & Hw).
  specialize (H ptab d ops rv). cbv zeta in H, Hw. destruct Hw as [H1 H2]. rewrite H1, H2 in H. discriminate H.
Qed.

(* ---------- the partial statement that holds ---------- *)
(* shared manager well-formed, every role function bound to it, manager in sync with the stored rules, hierarchy
   shallow, and the evaluation of THIS request performs no role call that the union answers differently from the
   definition's own links: the translated loop's decision is the per-definition decision *)
Lemma src_c19_independent_partial : forall s,
  wf (f_rm (e_fs s)) -> all_cur (e_fs s) = true -> in_sync s -> shallow_state s = true ->
  forall ptab rv,
  enforce_probe ptab s rv <> Panic -> src_enforce ptab s rv = enforce_indep ptab s rv.
Proof.
  intros s Hw Ha Hi Hs ptab rv Hp. rewrite src_enforce_eq. apply independent_partial; assumption.
Qed.

(* all side conditions executable: a case the classifier does not flag agrees *)
Lemma src_c19_independent_classified : forall ptab s rv,
  wf (f_rm (e_fs s)) -> all_cur (e_fs s) = true -> shallow_state s = true ->
  known_shared_rm_case ptab s rv = false ->
  src_enforce ptab s rv = enforce_indep ptab s rv.
Proof.
  intros ptab s rv Hw Ha Hs Hk. rewrite src_enforce_eq. apply independent_classified; assumption.
Qed.

(* after ANY history followed by a successful build_role_links *)
Lemma src_c19_independent_after_build : forall ptab d ad w ops s' rv,
  src_step (src_run_ops (fst (src_new_enforcer d ad w)) ops) OBuildRoleLinks = (s', Ok true) ->
  all_cur (e_fs s') = true -> shallow_state s' = true ->
  crosstalk_case ptab s' rv = false ->
  src_enforce ptab s' rv = enforce_indep ptab s' rv.
Proof.
  intros ptab d ad w ops s' rv. rewrite src_new_enforcer_eq, src_run_ops_eq, src_step_eq, src_enforce_eq.
  exact (independent_after_build ptab d ad w ops s' rv).
Qed.

(* the executable predicate holds of the translated source's own decision on unclassified cases *)
Lemma src_c19_pred_holds : forall ptab s rv,
  wf (f_rm (e_fs s)) -> all_cur (e_fs s) = true -> shallow_state s = true ->
  known_shared_rm_case ptab s rv = false ->
  c19_pred ptab s rv (src_enforce ptab s rv) = true.
Proof.
  intros ptab s rv Hw Ha Hs Hk. rewrite src_enforce_eq. apply c19_pred_model; assumption.
Qed.

(* ---------- store-level independence: always true ---------- *)
(* an add / remove / filtered remove addressed to one definition leaves every other definition's assertion (rules,
   text, tokens, handle) as it was *)
Lemma src_c19_store_independent : forall s o sec pt sec' pt',
  op_target o = Some (sec, pt) -> sec <> sec' \/ pt <> pt' ->
  get_ast (e_model (fst (src_step s o))) sec' pt' = get_ast (e_model s) sec' pt'.
Proof. intros s o sec pt sec' pt' Ht Hd. rewrite src_step_eq. apply (store_independent s o sec pt); assumption. Qed.

Lemma src_c19_store_independent_run : forall sec' pt' ops s,
  Forall (fun o => exists sec pt, op_target o = Some (sec, pt) /\ (sec <> sec' \/ pt <> pt')) ops ->
  get_ast (e_model (src_run_ops s ops)) sec' pt' = get_ast (e_model s) sec' pt'.
Proof. intros sec' pt' ops s H. rewrite src_run_ops_eq. apply store_independent_run. exact H. Qed.

(* removing a link under one definition leaves the other's link set intact *)
Lemma src_c19_per_def_links_untouched : forall s o sec pt key dk,
  op_target o = Some (sec, pt) -> sec <> s_g \/ pt <> key ->
  per_def_links (fst (src_step s o)) key dk = per_def_links s key dk.
Proof. intros s o sec pt key dk Ht Hd. rewrite src_step_eq. apply (per_def_links_untouched s o sec pt); assumption. Qed.
