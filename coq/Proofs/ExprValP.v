(* Structural facts about Model/Expr.v's `print_expr` and `eval` that extend the finite validation against the real
   rhai engine (Gen/RhaiExamples.v, tools/rhai_examples.py) to all ASTs:
   (a) the printed text denotes the AST (read-back parser, Proofs/ExprParse*.v) - and where it does not (refutations);
   (b) eval and its fuel;  (c) short-circuit laws;  (d) what the comparison operators answer, kind by kind. *)
From CV Require Import Model.Base Model.PathMatch Model.Expr Model.Enforce.
From CV Require Import Proofs.BaseP Proofs.ExprP Proofs.ExprParse Proofs.ExprLexP Proofs.ExprParseP.
From Coq Require Import Lia ZArith.

(* ====================================================================== (a) print_expr *)
Definition print_expr_readback : Prop := forall e, wf_expr e = true -> parse_expr (print_expr e) = Some e.
Lemma print_expr_readback_proof : print_expr_readback.
Proof. exact parse_print. Qed.

Definition print_expr_injective_wf : Prop :=
  forall e1 e2, wf_expr e1 = true -> wf_expr e2 = true -> print_expr e1 = print_expr e2 -> e1 = e2.
Lemma print_expr_injective_wf_proof : print_expr_injective_wf.
Proof. exact print_expr_inj. Qed.

(* the full statement - injective on ALL ASTs - is false of the model's printer: each clause of wf_expr is needed *)
Definition print_expr_injective : Prop := forall e1 e2, print_expr e1 = print_expr e2 -> e1 = e2.

Definition rb := EVar (T "r") (T "b").
(* `!r.b.f`: the printer does not parenthesise a negation under a property access *)
Lemma print_expr_injective_refuted : exists e1 e2, e1 <> e2 /\ print_expr e1 = print_expr e2.
Proof.
  exists (EProp (ENot rb) (T "f")), (ENot (EProp rb (T "f"))). split; [discriminate|vm_compute; reflexivity].
Qed.
(* eval(p.rule) is both EEval and a call of the name `eval` *)
Lemma print_expr_eval_call_refuted :
  exists e1 e2, e1 <> e2 /\ print_expr e1 = print_expr e2 /\ wf_expr e1 = true.
Proof.
  exists (EEval (T "p") (T "rule")), (ECall (T "eval") [EVar (T "p") (T "rule")]).
  split; [discriminate|split; vm_compute; reflexivity].
Qed.
(* a field name with a dot; the variable prefix `true` *)
Lemma print_expr_names_refuted :
  (exists e1 e2, e1 <> e2 /\ print_expr e1 = print_expr e2 /\ wf_expr e1 = true) /\
  (exists e1 e2, e1 <> e2 /\ print_expr e1 = print_expr e2 /\ wf_expr e1 = true).
Proof.
  split.
  - exists (EProp (EVar (T "r") (T "a")) (T "b")), (EVar (T "r") (T "a.b")).
    split; [discriminate|split; vm_compute; reflexivity].
  - exists (EProp (ELit (SBool true)) (T "f")), (EVar (T "true") (T "f")).
    split; [discriminate|split; vm_compute; reflexivity].
Qed.
(* print_Z keeps the 20 low digits *)
Lemma print_expr_bigint_refuted :
  exists e1 e2, e1 <> e2 /\ print_expr e1 = print_expr e2.
Proof.
  exists (ELit (SInt (10 ^ 20))), (ELit (SInt (2 * 10 ^ 20))). split; [discriminate|vm_compute; reflexivity].
Qed.

(* ====================================================================== (b) eval and fuel *)
Section Fuel.
  Variable call : text -> list value -> option eres.
  Variable ptab : text -> option expr.
  Variable sc : list (text * value).
  Notation ev := (eval call ptab sc).

  Lemma in_go_mono (ev1 ev2 : expr -> eres) x xs : forall found,
    Forall (fun y => ev1 y <> EErr -> ev2 y = ev1 y) xs ->
    in_go ev1 x xs found <> EErr -> in_go ev2 x xs found = in_go ev1 x xs found.
  Proof.
    induction xs as [|y xs IH]; intros found HF Hne; cbn [in_go] in *; [reflexivity|].
    inversion HF as [|y' xs' Hy Hxs]; subst.
    destruct (ev1 y) as [v| |] eqn:Ey.
    - rewrite Hy by discriminate. apply IH; assumption.
    - congruence.
    - rewrite Hy by discriminate. reflexivity.
  Qed.

  Lemma call_go_mono (ev1 ev2 : expr -> eres) f xs : forall acc,
    Forall (fun y => ev1 y <> EErr -> ev2 y = ev1 y) xs ->
    call_go call ev1 f xs acc <> EErr -> call_go call ev2 f xs acc = call_go call ev1 f xs acc.
  Proof.
    induction xs as [|y xs IH]; intros acc HF Hne; cbn [call_go] in *; [reflexivity|].
    inversion HF as [|y' xs' Hy Hxs]; subst.
    destruct (ev1 y) as [v| |] eqn:Ey.
    - rewrite Hy by discriminate. apply IH; assumption.
    - congruence.
    - rewrite Hy by discriminate. reflexivity.
  Qed.

  (* more fuel never changes an answer that is not an error *)
  Ltac sub_ev IH Hne :=
    match type of IH with
    | ?l <> EErr -> ?r = ?l =>
      let E := fresh "E" in
      revert Hne; destruct l as [?x| |] eqn:E; intros Hne; rewrite ?E in IH;
      [rewrite IH by discriminate|exfalso; apply Hne; reflexivity|rewrite IH by discriminate; reflexivity]
    end.

  Lemma eval_mono_gen f g :
    (forall p q, ev f (EEval p q) <> EErr -> ev g (EEval p q) = ev f (EEval p q)) ->
    forall e, ev f e <> EErr -> ev g e = ev f e.
  Proof.
    intros HE e.
    induction e as [v|p fl|a fl IHa|a b IHa IHb|a b IHa IHb|c a b IHa IHb|a b IHa IHb
                    |a b IHa IHb|a IHa|a xs IHa IHxs|fn args IHargs|p fl] using expr_ind';
      intros Hne.
    - eval_unfold. reflexivity.
    - eval_unfold. reflexivity.
    - rewrite !eval_EProp in *. sub_ev IHa Hne. reflexivity.
    - rewrite !eval_EEq in *. sub_ev IHa Hne. sub_ev IHb Hne. reflexivity.
    - rewrite !eval_ENeq in *. sub_ev IHa Hne. sub_ev IHb Hne. reflexivity.
    - rewrite !eval_ECmp in *. sub_ev IHa Hne. sub_ev IHb Hne. reflexivity.
    - rewrite !eval_EAnd in *. sub_ev IHa Hne.
      destruct x as [s|z|[|]| |m]; cbn [as_bool] in *; try reflexivity.
      sub_ev IHb Hne. reflexivity.
    - rewrite !eval_EOr in *. sub_ev IHa Hne.
      destruct x as [s|z|[|]| |m]; cbn [as_bool] in *; try reflexivity.
      sub_ev IHb Hne. reflexivity.
    - rewrite !eval_ENot in *. sub_ev IHa Hne. reflexivity.
    - rewrite !eval_EIn in *. sub_ev IHa Hne. apply in_go_mono; assumption.
    - rewrite !eval_ECall in *. apply call_go_mono; assumption.
    - apply HE, Hne.
  Qed.

  Lemma eval_fuel_S : forall fuel e, ev fuel e <> EErr -> ev (S fuel) e = ev fuel e.
  Proof.
    induction fuel as [|fuel IHf]; intros e; apply eval_mono_gen; intros p q Hne.
    - rewrite eval_EEval in Hne. congruence.
    - rewrite !eval_EEval in *.
      destruct (assoc (tok p q) sc) as [[s| | | |]|]; try reflexivity.
      destruct (teqb s []); [reflexivity|].
      destruct (ptab (escape_assertion s)) as [e'|]; [|reflexivity].
      apply IHf, Hne.
  Qed.

  Lemma eval_fuel_mono fuel fuel' e : fuel <= fuel' -> ev fuel e <> EErr -> ev fuel' e = ev fuel e.
  Proof.
    intros Hle Hne. induction Hle as [|m Hle IH]; [reflexivity|].
    rewrite eval_fuel_S by (rewrite IH; exact Hne). exact IH.
  Qed.

  (* eval-nesting depth at most n (through the parse table and the scope, as eval itself goes) *)
  Fixpoint nest_ok (n : nat) : expr -> bool :=
    fix go (e : expr) : bool :=
      match e with
      | ELit _ | EVar _ _ => true
      | EProp a _ | ENot a => go a
      | EEq a b | ENeq a b | ECmp _ a b | EAnd a b | EOr a b => go a && go b
      | EIn a xs => go a && forallb go xs
      | ECall _ args => forallb go args
      | EEval p f =>
        match n with
        | 0 => false
        | S n' =>
          match assoc (tok p f) sc with
          | Some (VStr s) =>
            if teqb s [] then true
            else match ptab (escape_assertion s) with Some e' => nest_ok n' e' | None => true end
          | _ => true
          end
        end
      end.

  Lemma nest_ok_EEval n p f :
    nest_ok n (EEval p f) =
    match n with
    | 0 => false
    | S n' =>
      match assoc (tok p f) sc with
      | Some (VStr s) =>
        if teqb s [] then true
        else match ptab (escape_assertion s) with Some e' => nest_ok n' e' | None => true end
      | _ => true
      end
    end.
  Proof. destruct n; reflexivity. Qed.

  Lemma forallb_Forall_impl (P : expr -> Prop) (g : expr -> bool) xs :
    Forall (fun y => g y = true -> P y) xs -> forallb g xs = true -> Forall P xs.
  Proof.
    induction xs as [|y xs IH]; intros HF Hg; [constructor|].
    inversion HF as [|y' xs' Hy Hxs]; subst. cbn [forallb] in Hg.
    apply andb_true_iff in Hg. destruct Hg as [Hgy Hgxs]. constructor; auto.
  Qed.

  (* with fuel n the evaluation of an AST of depth <= n is the evaluation with any larger fuel *)
  Lemma eval_nest_ok : forall n e, nest_ok n e = true -> forall k, ev (n + k) e = ev n e.
  Proof.
    induction n as [|n IHn]; intros e;
      induction e as [v|p f|a f IHa|a b IHa IHb|a b IHa IHb|c a b IHa IHb|a b IHa IHb
                      |a b IHa IHb|a IHa|a xs IHa IHxs|f args IHargs|p f] using expr_ind';
      intros Hn k; eval_unfold;
      try (change (nest_ok ?m (EProp a f)) with (nest_ok m a) in Hn);
      try (change (nest_ok ?m (ENot a)) with (nest_ok m a) in Hn);
      try (change (nest_ok ?m (EEq a b)) with (nest_ok m a && nest_ok m b) in Hn);
      try (change (nest_ok ?m (ENeq a b)) with (nest_ok m a && nest_ok m b) in Hn);
      try (change (nest_ok ?m (ECmp c a b)) with (nest_ok m a && nest_ok m b) in Hn);
      try (change (nest_ok ?m (EAnd a b)) with (nest_ok m a && nest_ok m b) in Hn);
      try (change (nest_ok ?m (EOr a b)) with (nest_ok m a && nest_ok m b) in Hn);
      try (change (nest_ok ?m (EIn a xs)) with (nest_ok m a && forallb (nest_ok m) xs) in Hn);
      try (change (nest_ok ?m (ECall f args)) with (forallb (nest_ok m) args) in Hn);
      try (apply andb_true_iff in Hn; destruct Hn as [Hna Hnb]);
      try reflexivity;
      try (rewrite IHa by assumption; try rewrite IHb by assumption; reflexivity).
    - rewrite IHa by assumption. destruct (ev 0 a); try reflexivity.
      apply in_go_ext. eapply Forall_impl; [|apply (forallb_Forall_impl _ _ _ IHxs Hnb)].
      intros y Hy. cbn beta in Hy. apply Hy.
    - apply call_go_ext; [reflexivity|]. eapply Forall_impl; [|apply (forallb_Forall_impl _ _ _ IHargs Hn)].
      intros y Hy. cbn beta in Hy. apply Hy.
    - rewrite nest_ok_EEval in Hn. discriminate.
    - rewrite IHa by assumption. destruct (ev (S n) a); try reflexivity.
      apply in_go_ext. eapply Forall_impl; [|apply (forallb_Forall_impl _ _ _ IHxs Hnb)].
      intros y Hy. cbn beta in Hy. apply Hy.
    - apply call_go_ext; [reflexivity|]. eapply Forall_impl; [|apply (forallb_Forall_impl _ _ _ IHargs Hn)].
      intros y Hy. cbn beta in Hy. apply Hy.
    - rewrite nest_ok_EEval in Hn. cbn [Nat.add]. rewrite !eval_EEval.
      destruct (assoc (tok p f) sc) as [[s| | | |]|]; try reflexivity.
      destruct (teqb s []); [reflexivity|].
      destruct (ptab (escape_assertion s)) as [e'|]; [|reflexivity].
      apply IHn, Hn.
  Qed.

  Lemma eval_fuel_suffices e fuel :
    nest_ok eval_fuel e = true -> eval_fuel <= fuel -> ev fuel e = ev eval_fuel e.
  Proof.
    intros Hn Hle. replace fuel with (eval_fuel + (fuel - eval_fuel)) by lia. apply eval_nest_ok. exact Hn.
  Qed.

  Lemma no_eval_nest_ok e : no_eval e = true -> nest_ok 0 e = true.
  Proof.
    induction e as [v|p f|a f IHa|a b IHa IHb|a b IHa IHb|c a b IHa IHb|a b IHa IHb
                    |a b IHa IHb|a IHa|a xs IHa IHxs|f args IHargs|p f] using expr_ind';
      cbn [no_eval]; intros H; try reflexivity; try discriminate;
      try (apply andb_true_iff in H; destruct H as [Ha Hb]).
    - apply IHa, H.
    - change (nest_ok 0 a && nest_ok 0 b = true). rewrite IHa, IHb by assumption. reflexivity.
    - change (nest_ok 0 a && nest_ok 0 b = true). rewrite IHa, IHb by assumption. reflexivity.
    - change (nest_ok 0 a && nest_ok 0 b = true). rewrite IHa, IHb by assumption. reflexivity.
    - change (nest_ok 0 a && nest_ok 0 b = true). rewrite IHa, IHb by assumption. reflexivity.
    - change (nest_ok 0 a && nest_ok 0 b = true). rewrite IHa, IHb by assumption. reflexivity.
    - apply IHa, H.
    - change (nest_ok 0 a && forallb (nest_ok 0) xs = true). rewrite IHa by assumption. cbn [andb].
      apply forallb_forall. intros y Hy. rewrite Forall_forall in IHxs. rewrite forallb_forall in Hb. auto.
    - change (forallb (nest_ok 0) args = true).
      apply forallb_forall. intros y Hy. rewrite Forall_forall in IHargs. rewrite forallb_forall in H. auto.
  Qed.

  (* ==================================================================== (c) short circuit *)
  Lemma and_false_l fuel a b : ev fuel a = EV (VBool false) -> ev fuel (EAnd a b) = EV (VBool false).
  Proof. intros H. rewrite eval_EAnd, H. reflexivity. Qed.
  Lemma or_true_l fuel a b : ev fuel a = EV (VBool true) -> ev fuel (EOr a b) = EV (VBool true).
  Proof. intros H. rewrite eval_EOr, H. reflexivity. Qed.
  Lemma and_true_l fuel a b : ev fuel a = EV (VBool true) -> ev fuel (EAnd a b) = as_bool (ev fuel b).
  Proof. intros H. rewrite eval_EAnd, H. reflexivity. Qed.
  Lemma or_false_l fuel a b : ev fuel a = EV (VBool false) -> ev fuel (EOr a b) = as_bool (ev fuel b).
  Proof. intros H. rewrite eval_EOr, H. reflexivity. Qed.

  Definition is_vbool (v : value) : bool := match v with VBool _ => true | _ => false end.

  (* a left operand that is not a bool, an error or a panic decides alone, too *)
  Lemma andor_left_decides fuel a b :
    (forall v, ev fuel a = EV v -> is_vbool v = false ->
               ev fuel (EAnd a b) = EErr /\ ev fuel (EOr a b) = EErr) /\
    (ev fuel a = EErr -> ev fuel (EAnd a b) = EErr /\ ev fuel (EOr a b) = EErr) /\
    (ev fuel a = EPanic -> ev fuel (EAnd a b) = EPanic /\ ev fuel (EOr a b) = EPanic).
  Proof.
    rewrite eval_EAnd, eval_EOr. repeat split; intros; try (rewrite H; reflexivity);
      rewrite H; destruct v; try discriminate; reflexivity.
  Qed.

  Lemma not_not fuel a : ev fuel (ENot (ENot a)) = as_bool (ev fuel a).
  Proof.
    rewrite !eval_ENot. destruct (ev fuel a) as [[s|z|[|]| |m]| |]; reflexivity.
  Qed.

  (* ==================================================================== (d) operators and kinds *)
  Lemma eq_total fuel a b x y :
    ev fuel a = EV x -> ev fuel b = EV y ->
    ev fuel (EEq a b) = EV (VBool (veqb x y)) /\ ev fuel (ENeq a b) = EV (VBool (negb (veqb x y))).
  Proof. intros Ha Hb. rewrite eval_EEq, eval_ENeq, Ha, Hb. split; reflexivity. Qed.

  Lemma cmp_eval fuel c a b x y :
    ev fuel a = EV x -> ev fuel b = EV y -> ev fuel (ECmp c a b) = cmp_values c x y.
  Proof. intros Ha Hb. rewrite eval_ECmp, Ha, Hb. reflexivity. Qed.
End Fuel.

(* an error, on the other hand, may be the fuel running out *)
Lemma eval_fuel_err_refuted :
  exists call ptab sc e, eval call ptab sc 0 e = EErr /\ eval call ptab sc 1 e = EV (VBool true).
Proof.
  exists (fun _ _ => None), (fun _ => Some (ELit (SBool true))), [(T "p_rule", VStr (T "true"))], (EEval (T "p") (T "rule")).
  split; vm_compute; reflexivity.
Qed.

(* ---- values, kind by kind *)
Definition kind (v : value) : nat :=
  match v with VStr _ => 0 | VInt _ => 1 | VBool _ => 2 | VUnit => 3 | VMap _ => 4 end.
Definition orderable (v : value) : bool := Nat.ltb (kind v) 3.

Definition vcompare (x y : value) : comparison :=
  match x, y with
  | VInt a, VInt b => Z.compare a b
  | VStr a, VStr b => tcompare a b
  | VBool a, VBool b => bool_compare a b
  | _, _ => Eq
  end.

Lemma cmp_values_bool c x y v : cmp_values c x y = EV v -> exists b, v = VBool b.
Proof. destruct x, y; cbn [cmp_values]; intros H; inversion H; eauto. Qed.

Lemma cmp_values_no_panic c x y : cmp_values c x y <> EPanic.
Proof. destruct x, y; cbn [cmp_values]; discriminate. Qed.

Lemma cmp_values_err_iff c x y : cmp_values c x y = EErr <-> kind x = 4 /\ kind y = 4.
Proof.
  destruct x, y; cbn [cmp_values kind]; split; intros H; try discriminate; try (destruct H; discriminate); auto.
Qed.

Lemma cmp_values_cross c x y : kind x <> kind y -> cmp_values c x y = EV (VBool false).
Proof. destruct x, y; cbn [cmp_values kind]; intros H; try reflexivity; congruence. Qed.

Lemma cmp_values_unit c : cmp_values c VUnit VUnit = EV (VBool false).
Proof. reflexivity. Qed.

Lemma cmp_values_ordered c x y :
  kind x = kind y -> orderable x = true -> cmp_values c x y = EV (VBool (cmp_holds c (vcompare x y))).
Proof. destruct x, y; cbn [cmp_values kind orderable vcompare]; intros H Ho; try discriminate; reflexivity. Qed.

Lemma cmp_holds_complement o :
  cmp_holds CGe o = negb (cmp_holds CLt o) /\ cmp_holds CLe o = negb (cmp_holds CGt o).
Proof. destruct o; split; reflexivity. Qed.

(* within one orderable kind `>=` is the negation of `<` ... *)
Lemma ge_not_lt x y :
  kind x = kind y -> orderable x = true ->
  exists b, cmp_values CLt x y = EV (VBool b) /\ cmp_values CGe x y = EV (VBool (negb b)).
Proof.
  intros Hk Ho. exists (cmp_holds CLt (vcompare x y)).
  rewrite !cmp_values_ordered by assumption. rewrite (proj1 (cmp_holds_complement _)). split; reflexivity.
Qed.

(* ... across kinds (and on unit) it is not: both are false *)
Definition ge_is_not_lt : Prop :=
  forall x y b, cmp_values CLt x y = EV (VBool b) -> cmp_values CGe x y = EV (VBool (negb b)).
Lemma ge_is_not_lt_refuted :
  exists x y, cmp_values CLt x y = EV (VBool false) /\ cmp_values CGe x y = EV (VBool false).
Proof. exists (VInt 1), (VStr (T "a")). split; reflexivity. Qed.
Lemma le_refl_unit_refuted : veqb VUnit VUnit = true /\ cmp_values CLe VUnit VUnit = EV (VBool false).
Proof. split; reflexivity. Qed.

(* ---- the string order *)
Lemma nat_of_ascii_inj a b : nat_of_ascii a = nat_of_ascii b -> a = b.
Proof. intros H. rewrite <- (ascii_nat_embedding a), <- (ascii_nat_embedding b), H. reflexivity. Qed.

Lemma tcompare_eq_iff a : forall b, tcompare a b = Eq <-> a = b.
Proof.
  induction a as [|x a IH]; intros [|y b]; cbn [tcompare]; split; intros H; try reflexivity; try discriminate.
  - destruct (Nat.compare (nat_of_ascii x) (nat_of_ascii y)) eqn:E; try discriminate.
    apply Nat.compare_eq_iff, nat_of_ascii_inj in E. apply IH in H. subst. reflexivity.
  - injection H as Hx Ha. subst. rewrite Nat.compare_refl. apply IH. reflexivity.
Qed.

Lemma tcompare_antisym a : forall b, tcompare b a = CompOpp (tcompare a b).
Proof.
  induction a as [|x a IH]; intros [|y b]; cbn [tcompare]; try reflexivity.
  rewrite (Nat.compare_antisym (nat_of_ascii x) (nat_of_ascii y)).
  destruct (Nat.compare (nat_of_ascii x) (nat_of_ascii y)); cbn [CompOpp]; [apply IH|reflexivity|reflexivity].
Qed.

Lemma tcompare_lt_trans a : forall b c, tcompare a b = Lt -> tcompare b c = Lt -> tcompare a c = Lt.
Proof.
  induction a as [|x a IH]; intros [|y b] [|z c]; cbn [tcompare]; intros H1 H2; try reflexivity; try discriminate.
  destruct (Nat.compare (nat_of_ascii x) (nat_of_ascii y)) eqn:E1; try discriminate;
    destruct (Nat.compare (nat_of_ascii y) (nat_of_ascii z)) eqn:E2; try discriminate.
  - apply Nat.compare_eq_iff in E1. apply Nat.compare_eq_iff in E2. rewrite E1, E2, Nat.compare_refl.
    eapply IH; eassumption.
  - apply Nat.compare_eq_iff in E1. rewrite E1, E2. reflexivity.
  - apply Nat.compare_eq_iff in E2. rewrite <- E2, E1. reflexivity.
  - apply Nat.compare_lt_iff in E1. apply Nat.compare_lt_iff in E2.
    assert (E3 : Nat.compare (nat_of_ascii x) (nat_of_ascii z) = Lt) by (apply Nat.compare_lt_iff; lia).
    rewrite E3. reflexivity.
Qed.

(* ---- == is equality of values *)
Lemma seqb_eq a b : seqb a b = true <-> a = b.
Proof.
  destruct a, b; cbn [seqb]; split; intros H; try discriminate.
  - apply teqb_eq in H. subst. reflexivity.
  - injection H as H. subst. apply teqb_refl.
  - apply Z.eqb_eq in H. subst. reflexivity.
  - injection H as H. subst. apply Z.eqb_refl.
  - apply eqb_prop in H. subst. reflexivity.
  - injection H as H. subst. apply eqb_reflx.
Qed.

Lemma fields_eqb_eq x : forall y,
  list_eqb (fun p q : text * scalar => teqb (fst p) (fst q) && seqb (snd p) (snd q)) x y = true <-> x = y.
Proof.
  induction x as [|[k v] x IH]; intros [|[k' v'] y]; cbn [list_eqb fst snd]; split; intros H;
    try reflexivity; try discriminate.
  - apply andb_true_iff in H. destruct H as [H Hr]. apply andb_true_iff in H. destruct H as [Hk Hv].
    apply teqb_eq in Hk. apply seqb_eq in Hv. apply IH in Hr. subst. reflexivity.
  - injection H as Hk Hv Hr. subst. rewrite teqb_refl, (proj2 (seqb_eq v' v') eq_refl). cbn [andb].
    apply IH. reflexivity.
Qed.

Lemma veqb_eq x y : veqb x y = true <-> x = y.
Proof.
  destruct x, y; cbn [veqb]; split; intros H; try discriminate; try reflexivity.
  - apply teqb_eq in H. subst. reflexivity.
  - injection H as H. subst. apply teqb_refl.
  - apply Z.eqb_eq in H. subst. reflexivity.
  - injection H as H. subst. apply Z.eqb_refl.
  - apply eqb_prop in H. subst. reflexivity.
  - injection H as H. subst. apply eqb_reflx.
  - apply fields_eqb_eq in H. subst. reflexivity.
  - injection H as H. subst. apply fields_eqb_eq. reflexivity.
Qed.

Lemma veqb_cross x y : kind x <> kind y -> veqb x y = false.
Proof. destruct x, y; cbn [veqb kind]; intros H; try reflexivity; congruence. Qed.

(* equal orderable values are <= and >= each other, not < or > *)
Lemma eq_le_ge x y :
  veqb x y = true -> orderable x = true ->
  cmp_values CLe x y = EV (VBool true) /\ cmp_values CGe x y = EV (VBool true) /\
  cmp_values CLt x y = EV (VBool false) /\ cmp_values CGt x y = EV (VBool false).
Proof.
  intros H Ho. apply veqb_eq in H. subst y.
  assert (E : vcompare x x = Eq).
  { destruct x; cbn [vcompare orderable kind] in *; try discriminate.
    - apply tcompare_eq_iff. reflexivity.
    - apply Z.compare_refl.
    - destruct b; reflexivity. }
  rewrite !cmp_values_ordered by auto. rewrite E. repeat split; reflexivity.
Qed.

(* ---- the operators that answer a bool answer nothing else *)
Definition bool_op (e : expr) : bool :=
  match e with
  | EEq _ _ | ENeq _ _ | ECmp _ _ _ | EAnd _ _ | EOr _ _ | ENot _ | EIn _ _ => true
  | _ => false
  end.

Lemma in_go_bool (ev : expr -> eres) x xs : forall found v, in_go ev x xs found = EV v -> is_vbool v = true.
Proof.
  induction xs as [|y xs IH]; intros found v H; cbn [in_go] in H.
  - injection H as H. subst. reflexivity.
  - destruct (ev y); try discriminate. eapply IH, H.
Qed.

Lemma bool_op_sound call ptab sc fuel e v :
  bool_op e = true -> eval call ptab sc fuel e = EV v -> is_vbool v = true.
Proof.
  destruct e; cbn [bool_op]; intros Hb; try discriminate; eval_unfold; intros H.
  - destruct (eval call ptab sc fuel e1); try discriminate.
    destruct (eval call ptab sc fuel e2); try discriminate. injection H as H. subst. reflexivity.
  - destruct (eval call ptab sc fuel e1); try discriminate.
    destruct (eval call ptab sc fuel e2); try discriminate. injection H as H. subst. reflexivity.
  - destruct (eval call ptab sc fuel e1); try discriminate.
    destruct (eval call ptab sc fuel e2); try discriminate.
    destruct (cmp_values_bool _ _ _ _ H) as [b E]. subst. reflexivity.
  - destruct (eval call ptab sc fuel e1) as [[s|z|[|]| |m]| |]; cbn [as_bool] in H; try discriminate.
    + destruct (eval call ptab sc fuel e2) as [[s|z|b| |m]| |]; cbn [as_bool] in H; try discriminate.
      injection H as H. subst. reflexivity.
    + injection H as H. subst. reflexivity.
  - destruct (eval call ptab sc fuel e1) as [[s|z|[|]| |m]| |]; cbn [as_bool] in H; try discriminate.
    + injection H as H. subst. reflexivity.
    + destruct (eval call ptab sc fuel e2) as [[s|z|b| |m]| |]; cbn [as_bool] in H; try discriminate.
      injection H as H. subst. reflexivity.
  - destruct (eval call ptab sc fuel e) as [[s|z|b| |m]| |]; cbn [as_bool] in H; try discriminate.
    injection H as H. subst. reflexivity.
  - destruct (eval call ptab sc fuel e); try discriminate. eapply in_go_bool, H.
Qed.

(* ---- combined statements and the concrete instances used by the Examples of Properties/ExprVal.v *)
Lemma and_or_right_l : forall call ptab sc fuel a b,
  (eval call ptab sc fuel a = EV (VBool true) -> eval call ptab sc fuel (EAnd a b) = as_bool (eval call ptab sc fuel b)) /\
  (eval call ptab sc fuel a = EV (VBool false) -> eval call ptab sc fuel (EOr a b) = as_bool (eval call ptab sc fuel b)).
Proof. intros. split; [apply and_true_l|apply or_false_l]. Qed.

Lemma cmp_values_err_panic : forall c x y,
  (cmp_values c x y = EErr <-> kind x = 4 /\ kind y = 4) /\ cmp_values c x y <> EPanic.
Proof. intros. split; [apply cmp_values_err_iff|apply cmp_values_no_panic]. Qed.

Lemma tcompare_order : forall a b c,
  (tcompare a b = Eq <-> a = b) /\ tcompare b a = CompOpp (tcompare a b) /\
  (tcompare a b = Lt -> tcompare b c = Lt -> tcompare a c = Lt).
Proof. intros. split; [apply tcompare_eq_iff|split; [apply tcompare_antisym|apply tcompare_lt_trans]]. Qed.

Definition ex_matcher : expr :=
  EOr (EAnd (EEq (EVar (T "r") (T "sub")) (EVar (T "p") (T "sub")))
            (EAnd (ECall (T "keyMatch") [EVar (T "r") (T "obj"); EVar (T "p") (T "obj")])
                  (ENot (EIn (EProp (EVar (T "r") (T "m")) (T "age")) [ELit (SInt (-5)); ELit (SInt 2147483647)]))))
      (EAnd (EEval (T "p") (T "rule")) (ECmp CGe (ELit (SStr (T "a""b\c"))) (ENot (ELit (SBool false))))).
Definition ex_ptab (s : text) : option expr :=
  if teqb s (T "eval(p_rule2)") then Some (EEval (T "p") (T "rule2"))
  else if teqb s (T "r_sub == ""alice""") then Some (EEq (EVar (T "r") (T "sub")) (ELit (SStr (T "alice"))))
  else None.
Definition ex_sc : list (text * value) :=
  [(T "p_rule2", VStr (T "r.sub == ""alice""")); (T "p_rule", VStr (T "eval(p.rule2)")); (T "r_sub", VStr (T "alice"))].
