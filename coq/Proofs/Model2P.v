(* General facts used by PinChecks/PcModel2Gen.v (part 18 of rs2coq: the policy
   store as whole functions, the lookup macros, convert.rs, the decision cache).
   Nothing here mentions a generated term.

   A. the map operations of Gen/Model2Rt.v are the model's assoc / assoc_set / get_ast / set_ast
   B. Result / Option plumbing: the class of an error, mapping a fallible function over a list
   C. the hasher parts are injective
   D. the mini-moka restatement (Gen/MokaRt.v) against the association-list view of Model/Cached.v *)
From CV Require Import Model.Base Model.Expr Model.Enforce Model.Engine Model.Cached Model.SpecC11.
From CV Require Import Gen.RustStr Gen.RustVec Gen.RustIter Gen.Petgraph Gen.IniRt Gen.LinksPrims Gen.Model2Rt Gen.MokaRt.
From CV Require Import Proofs.BaseP Proofs.PetgraphP Proofs.RustLinksP Proofs.C11P.
From Coq Require Import Lia.

(* ================================================================== *)
(* A. maps                                                             *)
Lemma rs_smap_get_assoc : forall md k, rs_smap_get md k = assoc k md.
Proof. intros md k. unfold rs_smap_get. apply hm_get_assoc. Qed.
Lemma rs_smap_get_mut_assoc : forall md k, rs_smap_get_mut md k = assoc k md.
Proof. intros md k. unfold rs_smap_get_mut. apply hm_get_assoc. Qed.
Lemma rs_amap_get_assoc : forall am k, rs_amap_get am k = assoc k am.
Proof. intros am k. unfold rs_amap_get, lhm_get. apply hm_get_assoc. Qed.
Lemma rs_amap_get_mut_assoc : forall am k, rs_amap_get_mut am k = assoc k am.
Proof. intros am k. unfold rs_amap_get_mut, lhm_get. apply hm_get_assoc. Qed.

(* the write-back of a borrowed entry: on an existing key it is the model's assoc_set *)
Lemma rs_amap_set_assoc_set : forall (am : amap) k a a0, assoc k am = Some a0 -> rs_amap_set am k a = assoc_set k a am.
Proof.
  intros am k a a0. induction am as [|[k' a'] am IH]; cbn [assoc rs_amap_set assoc_set]; [discriminate|].
  unfold rs_eq. destruct (teqb k k'); [reflexivity|]. intros H. rewrite (IH H). reflexivity.
Qed.

(* the two lookups in a row are get_ast; the two write-backs in a row are set_ast *)
Lemma lookups_get_ast : forall (md : model) sec pt,
  match assoc sec md with Some am => assoc pt am | None => None end = get_ast md sec pt.
Proof. reflexivity. Qed.

Lemma write_back_set_ast : forall (md : model) sec pt (am : amap) a0 a,
  assoc sec md = Some am -> assoc pt am = Some a0 ->
  rs_model_set md sec (rs_amap_set am pt a) = set_ast md sec pt a.
Proof.
  intros md sec pt am a0 a Hs Hp. unfold rs_model_set, set_ast.
  rewrite (rs_amap_set_assoc_set am pt a a0 Hp). rewrite Hs. reflexivity.
Qed.

(* ================================================================== *)
(* B. Result                                                           *)
Fixpoint res_mapM {A B E} (f : A -> rs_result B E) (l : list A) : rs_result (list B) E :=
  match l with
  | [] => ROk []
  | x :: r => match f x with
              | RErr e => RErr e
              | ROk y => match res_mapM f r with
                         | RErr e => RErr e
                         | ROk ys => ROk (y :: ys)
                         end
              end
  end.

Lemma res_mapM_all_ok : forall {A B E} (f : A -> rs_result B E) (g : A -> B) l,
  (forall x, In x l -> f x = ROk (g x)) -> res_mapM f l = ROk (map g l).
Proof.
  intros A B E f g l. induction l as [|x r IH]; intros H; cbn [res_mapM map]; [reflexivity|].
  rewrite (H x (or_introl eq_refl)), IH; [reflexivity|]. intros y Hy. apply H. right. exact Hy.
Qed.

(* the first failing value decides the error; the values before it were converted *)
Lemma res_mapM_first_err : forall {A B E} (f : A -> rs_result B E) l1 x l2 e,
  (forall y, In y l1 -> exists b, f y = ROk b) -> f x = RErr e -> res_mapM f (l1 ++ x :: l2) = RErr e.
Proof.
  intros A B E f l1 x l2 e. induction l1 as [|y r IH]; intros Hok He; cbn [app res_mapM].
  - rewrite He. reflexivity.
  - destruct (Hok y (or_introl eq_refl)) as [b Hb]. rewrite Hb, IH; [reflexivity| |exact He].
    intros z Hz. apply Hok. right. exact Hz.
Qed.

(* ================================================================== *)
(* C. hasher parts                                                     *)
Lemma map_HOne_inj : forall {S} (a b : list S), map (@HOne S) a = map (@HOne S) b -> a = b.
Proof.
  intros S a. induction a as [|x a IH]; intros [|y b] H; cbn [map] in H; try discriminate; [reflexivity|].
  inversion H. f_equal. apply IH. assumption.
Qed.

(* ================================================================== *)
(* D. the cache                                                        *)
Lemma moka_lookup_cache_get : forall l k, moka_lookup ckey_eqb l k = cache_get k l.
Proof. intros l k. induction l as [|[k' b] l IH]; cbn [moka_lookup cache_get]; [reflexivity|]. rewrite IH. reflexivity. Qed.

Lemma sub_cache_trans : forall a b c, sub_cache a b -> sub_cache b c -> sub_cache a c.
Proof. intros a b c H1 H2 k v H. apply H2, H1, H. Qed.

Lemma sub_cache_cons : forall k v l' l, sub_cache l' l -> sub_cache ((k, v) :: l') ((k, v) :: l).
Proof.
  intros k v l' l H k' b. cbn [cache_get]. destruct (ckey_eqb k' k); [intros X; exact X|apply H].
Qed.

(* what a call's eviction decision leaves is a sub-cache *)
Lemma moka_tick_sub : forall (m : moka ckey bool), sub_cache (mk_entries (moka_tick m)) (mk_entries m).
Proof.
  intros m. unfold moka_tick. destruct (mk_sched m) as [|keep s]; cbn [mk_entries].
  - apply sub_cache_refl.
  - apply filter_sub_cache.
Qed.

Lemma moka_tick_cap : forall {K V} (m : moka K V), mk_cap (moka_tick m) = mk_cap m.
Proof. intros K V m. unfold moka_tick. destruct (mk_sched m); reflexivity. Qed.

Lemma moka_tick_nosched : forall {K V} (m : moka K V), mk_sched m = [] -> moka_tick m = m.
Proof. intros K V m H. unfold moka_tick. rewrite H. reflexivity. Qed.

(* replacing the entry of a key: the other keys keep what they had *)
Lemma cache_get_filter_neq : forall k k' l, ckey_eqb k' k = false ->
  cache_get k' (filter (fun e : ckey * bool => negb (ckey_eqb (fst e) k)) l) = cache_get k' l.
Proof.
  intros k k' l Hn. induction l as [|[k0 b0] l IH]; cbn [filter fst]; [reflexivity|].
  destruct (ckey_eqb k0 k) eqn:E0; cbn [negb cache_get].
  - apply ckey_eqb_eq in E0. subst k0. rewrite Hn. exact IH.
  - destruct (ckey_eqb k' k0); [reflexivity|exact IH].
Qed.

Lemma cache_get_insert : forall k v k' l,
  cache_get k' ((k, v) :: filter (fun e : ckey * bool => negb (ckey_eqb (fst e) k)) l) = cache_get k' ((k, v) :: l).
Proof.
  intros k v k' l. cbn [cache_get]. destruct (ckey_eqb k' k) eqn:E; [reflexivity|].
  apply cache_get_filter_neq, E.
Qed.
