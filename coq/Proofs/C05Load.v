(* C05, part 4: full rebuild, g-function registration, loads, clear,
   reconfiguration. *)
From CV Require Import Model.Base Model.RoleGraph Model.Expr Model.Enforce Model.Engine Model.SpecC05.
From CV Require Import Proofs.ListAux Proofs.BaseP Proofs.RoleGraphP Proofs.C05Links Proofs.C05Sync
     Proofs.C05Steps.
From Coq Require Import Lia.

(* ---------- maps that only touch handles ---------- *)
Definition hmap (g : assertion -> handle) (am : amap) : amap :=
  map (fun ka => (fst ka, with_handle (snd ka) (g (snd ka)))) am.

Lemma set_cur_hmap : forall am, set_cur am = hmap (fun _ => HCur) am.
Proof. reflexivity. Qed.

Lemma all_links_hmap : forall g am, all_links (hmap g am) = all_links am.
Proof.
  intros g am. induction am as [|[k a] am IH]; [reflexivity|].
  cbn [hmap map fst snd]. rewrite !all_links_cons. fold (hmap g am). rewrite IH. reflexivity.
Qed.

Lemma g_exact_am_hmap : forall g am, g_exact_am (hmap g am) = g_exact_am am.
Proof.
  intros g am. induction am as [|[k a] am IH]; [reflexivity|].
  cbn [hmap map fst snd g_exact_am forallb]. fold (hmap g am). fold (g_exact_am (hmap g am)).
  fold (g_exact_am am). rewrite IH. reflexivity.
Qed.

Definition ashape (am : amap) : list (text * text) := map (fun ka => (fst ka, a_value (snd ka))) am.
Definition gshape (md : model) : list (text * text) := ashape (gsec md).

Lemma ashape_hmap : forall g am, ashape (hmap g am) = ashape am.
Proof.
  intros g am. unfold ashape, hmap. rewrite map_map. apply map_ext. intros [k a]. reflexivity.
Qed.

Lemma handles_cur_set_cur : forall am, handles_cur (set_cur am).
Proof.
  intros am k a Hin. unfold set_cur in Hin. apply in_map_iff in Hin.
  destruct Hin as [[k0 a0] [Heq _]]. inversion Heq. reflexivity.
Qed.

Lemma registered_shape : forall am am' gf, ashape am' = ashape am ->
  registered am gf -> registered am' gf.
Proof.
  intros am am' gf Hs Hreg k a Hin.
  assert (H : In (k, a_value a) (ashape am')).
  { unfold ashape. apply in_map_iff. exists (k, a). split; [reflexivity|exact Hin]. }
  rewrite Hs in H. unfold ashape in H. apply in_map_iff in H.
  destruct H as [[k0 a0] [Heq Hin0]]. cbn [fst snd] in Heq. injection Heq as Hk Hv. subst k0.
  rewrite <- Hv. apply (Hreg k a0 Hin0).
Qed.

(* ---------- build_links_am never touches values or rule lists ---------- *)
Lemma build_links_am_g_exact : forall am m,
  g_exact_am (fst (fst (build_links_am am m))) = g_exact_am am.
Proof.
  induction am as [|[k a] am IH]; intros m; [reflexivity|]. cbn [build_links_am].
  destruct (Nat.ltb (count_us (a_value a)) 2); [reflexivity|].
  destruct (link_rules _ true m (a_policy a)) as [m' [|e]]; [|reflexivity].
  specialize (IH m'). destruct (build_links_am am m') as [[am'' m''] e].
  cbn [fst] in *. cbn [g_exact_am forallb snd]. fold (g_exact_am am''). fold (g_exact_am am).
  rewrite IH. reflexivity.
Qed.

Lemma build_role_links_g_exact : forall s,
  g_exact (e_model (fst (build_role_links s))) = g_exact (e_model s).
Proof.
  intros s. unfold build_role_links. destruct (assoc s_g (e_model s)) as [am|] eqn:Hs; [|reflexivity].
  pose proof (build_links_am_g_exact am []) as H.
  destruct (build_links_am am []) as [[am' m'] e]. cbn [fst e_model upd_fs upd_model] in *.
  unfold g_exact, gsec. rewrite assoc_set_same, Hs. exact H.
Qed.

Lemma build_role_links_auto : forall s, e_auto_build (fst (build_role_links s)) = e_auto_build s.
Proof.
  intros s. unfold build_role_links. destruct (assoc s_g (e_model s)) as [am|]; [|reflexivity].
  destruct (build_links_am am []) as [[am' m'] e]. reflexivity.
Qed.

(* ---------- Enforcer::build_role_links on a well-formed grouping policy ---------- *)
Theorem build_role_links_ok : forall s, g_exact (e_model s) = true ->
  exists s', build_role_links s = (s', LOk) /\
    gsec (e_model s') = set_cur (gsec (e_model s)) /\
    RS0 (gsec (e_model s')) (f_rm (e_fs s')) /\
    f_gfuns (e_fs s') = f_gfuns (e_fs s) /\
    f_rm_max (e_fs s') = f_rm_max (e_fs s) /\
    (forall d p, In p (edges_of (f_rm (e_fs s')) d) <-> In p (links_of (e_model s) d)).
Proof.
  intros s Hex. unfold build_role_links. unfold g_exact, gsec in Hex. unfold links_of, gsec.
  destruct (assoc s_g (e_model s)) as [am|] eqn:Hs.
  - destruct (build_links_ok am [] wf_nil Hex) as (m' & Hb & Hwf & Hed). rewrite Hb.
    eexists. split; [reflexivity|]. cbn [e_model e_fs upd_fs upd_model set_rm f_rm f_gfuns f_rm_max].
    unfold gsec. rewrite assoc_set_same, ?Hs.
    assert (He : forall d p, In p (edges_of m' d) <-> In (dom_key d, p) (all_links am)).
    { intros d p. rewrite Hed, edges_of_nil. cbn [In]. tauto. }
    split; [reflexivity|]. split; [|split; [reflexivity|split; [reflexivity|]]].
    + apply RS0_intro; [exact Hwf| |apply handles_cur_set_cur].
      intros d p. rewrite set_cur_hmap, all_links_hmap. apply He.
    + intros d p. rewrite He. symmetry. apply links_of_am_In.
  - eexists. split; [reflexivity|]. cbn [e_model e_fs upd_fs set_rm f_rm f_gfuns f_rm_max].
    unfold gsec. rewrite ?Hs. split; [reflexivity|].
    split; [|split; [reflexivity|split; [reflexivity|]]].
    + apply RS0_intro; [apply wf_nil| |intros k a []].
      intros d p. rewrite edges_of_nil. cbn. tauto.
    + intros d p. rewrite edges_of_nil. cbn. tauto.
Qed.

(* rebuilding from a model with the same definitions keeps every definition registered *)
Theorem rebuild_sync : forall gf0 sh s1,
  (forall am, ashape am = sh -> registered am gf0) ->
  f_gfuns (e_fs s1) = gf0 -> gshape (e_model s1) = sh ->
  g_exact (e_model s1) = true ->
  exists s2, build_role_links s1 = (s2, LOk) /\ RoleSync s2.
Proof.
  intros gf0 sh s1 Hreg Hgf Hsh Hex.
  destruct (build_role_links_ok s1 Hex) as (s2 & Hb & Hg & Hrs0 & Hgf2 & _ & _).
  exists s2. split; [exact Hb|]. split; [exact Hrs0|].
  rewrite Hgf2, Hgf. apply Hreg. rewrite Hg, set_cur_hmap, ashape_hmap. exact Hsh.
Qed.

Lemma registered_by_shape : forall am gf, registered am gf ->
  forall am', ashape am' = ashape am -> registered am' gf.
Proof. intros am gf H am' Hs. apply (registered_shape am am' gf Hs H). Qed.

(* ---------- register_g_functions ---------- *)
Lemma gkey_eqb_refl : forall k, gkey_eqb k k = true.
Proof. intros [k n]. unfold gkey_eqb. cbn [fst snd]. rewrite teqb_refl, Nat.eqb_refl. reflexivity. Qed.

Lemma find_gfun_cons_cur : forall key k gf,
  find_gfun key gf = Some HCur -> find_gfun key ((k, HCur) :: gf) = Some HCur.
Proof. intros key k gf H. cbn [find_gfun]. destruct (gkey_eqb key k); [reflexivity|exact H]. Qed.

Lemma register_g_spec : forall am gf gf', register_g am gf = (gf', LOk) ->
  (forall key, find_gfun key gf = Some HCur -> find_gfun key gf' = Some HCur) /\
  registered am gf'.
Proof.
  induction am as [|[k a] am IH]; intros gf gf' H; cbn [register_g] in H.
  - inversion H; subst. split; [auto|]. intros k a [].
  - destruct (Nat.eqb (count_us (a_value a)) 2) eqn:E2;
      [|destruct (Nat.eqb (count_us (a_value a)) 3) eqn:E3; [|discriminate]].
    + apply Nat.eqb_eq in E2. destruct (IH _ _ H) as [Hmono Hreg]. split.
      * intros key Hk. apply Hmono, find_gfun_cons_cur, Hk.
      * intros k' a' [Heq|Hin]; [|apply (Hreg k' a' Hin)]. inversion Heq; subst k' a'.
        apply Hmono. rewrite E2. cbn [find_gfun]. rewrite gkey_eqb_refl. reflexivity.
    + apply Nat.eqb_eq in E3. destruct (IH _ _ H) as [Hmono Hreg]. split.
      * intros key Hk. apply Hmono, find_gfun_cons_cur, Hk.
      * intros k' a' [Heq|Hin]; [|apply (Hreg k' a' Hin)]. inversion Heq; subst k' a'.
        apply Hmono. rewrite E3. cbn [find_gfun]. rewrite gkey_eqb_refl. reflexivity.
Qed.

Lemma register_g_succeeds : forall am gf, g_exact_am am = true ->
  exists gf', register_g am gf = (gf', LOk).
Proof.
  induction am as [|[k a] am IH]; intros gf Hex; cbn [register_g].
  - exists gf. reflexivity.
  - cbn [g_exact_am forallb snd] in Hex. apply andb_true_iff in Hex. destruct Hex as [Ha Hex].
    apply def_exact_spec in Ha. destruct Ha as [[Hc|Hc] _]; rewrite Hc; cbn [Nat.eqb]; apply IH, Hex.
Qed.

Lemma register_g_functions_model : forall s, e_model (fst (register_g_functions s)) = e_model s.
Proof.
  intros s. unfold register_g_functions. destruct (assoc s_g (e_model s)) as [am|]; [|reflexivity].
  destruct (register_g am (f_gfuns (e_fs s))) as [gf e]. reflexivity.
Qed.

Lemma register_g_functions_auto : forall s, e_auto_build (fst (register_g_functions s)) = e_auto_build s.
Proof.
  intros s. unfold register_g_functions. destruct (assoc s_g (e_model s)) as [am|]; [|reflexivity].
  destruct (register_g am (f_gfuns (e_fs s))) as [gf e]. reflexivity.
Qed.

Lemma register_g_functions_rm : forall s, f_rm (e_fs (fst (register_g_functions s))) = f_rm (e_fs s).
Proof.
  intros s. unfold register_g_functions. destruct (assoc s_g (e_model s)) as [am|]; [|reflexivity].
  destruct (register_g am (f_gfuns (e_fs s))) as [gf e]. reflexivity.
Qed.

Lemma register_g_functions_spec : forall s s', register_g_functions s = (s', LOk) ->
  registered (gsec (e_model s)) (f_gfuns (e_fs s')).
Proof.
  intros s s' H. unfold register_g_functions in H. unfold gsec.
  destruct (assoc s_g (e_model s)) as [am|]; [|intros k a []].
  destruct (register_g am (f_gfuns (e_fs s))) as [gf e] eqn:Hr. inversion H; subst.
  cbn [e_fs upd_fs f_gfuns]. apply (register_g_spec _ _ _ Hr).
Qed.

Lemma register_g_functions_succeeds : forall s, g_exact (e_model s) = true ->
  exists s', register_g_functions s = (s', LOk).
Proof.
  intros s Hex. unfold register_g_functions. unfold g_exact, gsec in Hex.
  destruct (assoc s_g (e_model s)) as [am|]; [|eexists; reflexivity].
  destruct (register_g_succeeds am (f_gfuns (e_fs s)) Hex) as [gf' Hr]. rewrite Hr.
  eexists. reflexivity.
Qed.

(* a successful rebuild followed by a successful registration *)
Theorem build_then_register : forall s1, g_exact (e_model s1) = true ->
  exists s2 s3, build_role_links s1 = (s2, LOk) /\ register_g_functions s2 = (s3, LOk) /\ RoleSync s3.
Proof.
  intros s1 Hex. destruct (build_role_links_ok s1 Hex) as (s2 & Hb & Hg & Hrs0 & _).
  assert (Hex2 : g_exact (e_model s2) = true).
  { pose proof (build_role_links_g_exact s1) as H. rewrite Hb in H. cbn [fst] in H. rewrite H. exact Hex. }
  destruct (register_g_functions_succeeds s2 Hex2) as [s3 Hr].
  exists s2, s3. split; [exact Hb|]. split; [exact Hr|].
  pose proof (register_g_functions_model s2) as Hm. pose proof (register_g_functions_rm s2) as Hrm.
  rewrite Hr in Hm, Hrm. cbn [fst] in Hm, Hrm. unfold RoleSync, RS. rewrite Hm, Hrm.
  split; [exact Hrs0|]. apply (register_g_functions_spec s2 s3 Hr).
Qed.

(* ---------- loading never changes which g definitions exist ---------- *)
Lemma ashape_assoc_set : forall pt a a' am, assoc pt am = Some a -> a_value a' = a_value a ->
  ashape (assoc_set pt a' am) = ashape am.
Proof.
  intros pt a a' am Ha Hv. destruct (assoc_split pt a am Ha) as (l1 & l2 & Ham & Hset).
  rewrite Hset, Ham. unfold ashape. rewrite !map_app. cbn [map fst snd].
  rewrite Hv. reflexivity.
Qed.

Lemma gshape_set_ast : forall md sec k a a', get_ast md sec k = Some a -> a_value a' = a_value a ->
  gshape (set_ast md sec k a') = gshape md.
Proof.
  intros md sec k a a' Ha Hv. unfold gshape. destruct (text_eq_dec sec s_g) as [->|Hne].
  - rewrite (gsec_set_ast_g _ _ k a' (get_ast_g_some _ _ _ Ha)).
    apply (ashape_assoc_set k a a' _ (get_ast_g _ _ _ Ha) Hv).
  - rewrite gsec_set_ast_other by exact Hne. reflexivity.
Qed.

Lemma gshape_clear_sec : forall md sec, gshape (clear_sec md sec) = gshape md.
Proof.
  intros md sec. unfold clear_sec. destruct (assoc sec md) as [am|] eqn:Hs; [|reflexivity].
  unfold gshape, gsec. destruct (text_eq_dec sec s_g) as [->|Hne].
  - rewrite assoc_set_same, Hs. unfold ashape. rewrite map_map. apply map_ext. intros [k a]. reflexivity.
  - rewrite assoc_set_other by exact Hne. reflexivity.
Qed.

Lemma gshape_m_clear : forall md, gshape (m_clear_policy md) = gshape md.
Proof. intros md. unfold m_clear_policy. rewrite !gshape_clear_sec. reflexivity. Qed.

Lemma gshape_load_line : forall md ln, gshape (load_line md ln) = gshape md.
Proof.
  intros md ln. unfold load_line. destruct ln as [|[|c krest] fields]; try reflexivity.
  destruct (get_ast md [c] (c :: krest)) as [a|] eqn:Ha; [|reflexivity].
  apply (gshape_set_ast _ _ _ a _ Ha). reflexivity.
Qed.

Lemma gshape_load_mem_line : forall md ln, gshape (load_mem_line md ln) = gshape md.
Proof.
  intros md ln. unfold load_mem_line. destruct ln as [|sec [|pt fields]]; try reflexivity.
  destruct (get_ast md sec pt) as [a|] eqn:Ha; [|reflexivity].
  apply (gshape_set_ast _ _ _ a _ Ha). reflexivity.
Qed.

Lemma gshape_fold : forall (f : model -> rule -> model), (forall md ln, gshape (f md ln) = gshape md) ->
  forall l md, gshape (fold_left f l md) = gshape md.
Proof.
  intros f Hf. induction l as [|ln l IH]; intros md; cbn [fold_left]; [reflexivity|].
  rewrite IH. apply Hf.
Qed.

Lemma gshape_mem_load_filtered : forall fp fg l md,
  gshape (fst (mem_load_filtered fp fg md l)) = gshape md.
Proof.
  intros fp fg. induction l as [|ln l IH]; intros md; cbn [mem_load_filtered]; [reflexivity|].
  destruct ln as [|sec [|pt fields]]; try apply IH.
  set (md1 := if get_filtered_out (sec_filter fp fg sec) fields then md
              else load_mem_line md (sec :: pt :: fields)).
  specialize (IH md1). destruct (mem_load_filtered fp fg md1 l) as [md' fl]. cbn [fst] in IH.
  cbv beta iota. cbn [fst]. transitivity (gshape md1); [exact IH|]. unfold md1. destruct (get_filtered_out _ _); [reflexivity|apply gshape_load_mem_line].
Qed.

Lemma gshape_str_load_filtered : forall fp fg l md,
  gshape (fst (str_load_filtered fp fg md l)) = gshape md.
Proof.
  intros fp fg. induction l as [|ln l IH]; intros md; cbn [str_load_filtered]; [reflexivity|].
  destruct ln as [|[|c krest] fields]; try apply IH. cbv zeta.
  match goal with |- context [str_load_filtered fp fg ?m l] =>
    specialize (IH m); destruct (str_load_filtered fp fg m l) as [md' fl] end.
  cbn [fst] in *. rewrite IH.
  destruct (get_filtered_out _ _); [reflexivity|apply gshape_load_line].
Qed.

Definition ld_model (x : adapter * model * lres) : model := snd (fst x).

Lemma gshape_ad0_load : forall a md, gshape (ld_model (ad0_load a md)) = gshape md.
Proof.
  intros a md. destruct a as [|l f|l f|l f|i sc]; cbn [ad0_load ld_model fst snd]; try reflexivity.
  - apply gshape_fold, gshape_load_mem_line.
  - apply gshape_fold, gshape_load_line.
  - apply gshape_fold, gshape_load_line.
Qed.

Lemma gshape_ad0_load_filtered : forall a fp fg md,
  gshape (ld_model (ad0_load_filtered a fp fg md)) = gshape md.
Proof.
  intros a fp fg md. destruct a as [|l f|l f|l f|i sc]; cbn [ad0_load_filtered]; try reflexivity.
  - pose proof (gshape_mem_load_filtered fp fg l md) as H.
    destruct (mem_load_filtered fp fg md l) as [md' fl]. exact H.
  - pose proof (gshape_str_load_filtered fp fg l md) as H.
    destruct (str_load_filtered fp fg md l) as [md' fl]. exact H.
  - pose proof (gshape_str_load_filtered fp fg l md) as H.
    destruct (str_load_filtered fp fg md l) as [md' fl]. exact H.
Qed.

Lemma gshape_ad_load : forall a md, gshape (ld_model (ad_load a md)) = gshape md.
Proof.
  intros a md. unfold ad_load.
  destruct a as [|l f|l f|l f|i sc]; try apply gshape_ad0_load.
  pose proof (gshape_ad0_load i md) as H.
  destruct sc as [|[| | | |] sc]; try reflexivity;
    destruct (ad0_load i md) as [[i' md'] r]; unfold ld_model in *; cbn [fst snd] in *;
    rewrite ?gshape_clear_sec; exact H.
Qed.

Lemma gshape_ad_load_filtered : forall a fp fg md,
  gshape (ld_model (ad_load_filtered a fp fg md)) = gshape md.
Proof.
  intros a fp fg md. unfold ad_load_filtered.
  destruct a as [|l f|l f|l f|i sc]; try apply gshape_ad0_load_filtered.
  pose proof (gshape_ad0_load_filtered i fp fg md) as H.
  destruct sc as [|[| | | |] sc]; try reflexivity;
    destruct (ad0_load_filtered i fp fg md) as [[i' md'] r]; unfold ld_model in *; cbn [fst snd] in *;
    rewrite ?gshape_clear_sec; exact H.
Qed.

(* ---------- load_policy / load_filtered_policy ---------- *)
Lemma finish_load_g_exact_ok : forall s ad md,
  e_auto_build s = true ->
  g_exact (e_model (fst (finish_load s ad md LROk))) = g_exact md.
Proof.
  intros s ad md Hb. unfold finish_load. cbn [e_auto_build upd_model upd_adapter]. rewrite Hb.
  pose proof (build_role_links_g_exact (upd_model (upd_adapter s ad) md)) as H.
  destruct (build_role_links (upd_model (upd_adapter s ad) md)) as [s2 e]. exact H.
Qed.

(* a successful load: only the registration of the definitions is needed *)
Theorem finish_load_ok : forall s ad md,
  registered (gsec (e_model s)) (f_gfuns (e_fs s)) -> e_auto_build s = true ->
  gshape md = gshape (e_model s) ->
  g_exact (e_model (fst (finish_load s ad md LROk))) = true ->
  RoleSync (fst (finish_load s ad md LROk)) /\ snd (finish_load s ad md LROk) = Ok true.
Proof.
  intros s ad md Hreg Hb Hsh Hpost. rewrite (finish_load_g_exact_ok s ad md Hb) in Hpost.
  unfold finish_load. cbn [e_auto_build upd_model upd_adapter]. rewrite Hb.
  destruct (rebuild_sync (f_gfuns (e_fs s)) (gshape (e_model s)) (upd_model (upd_adapter s ad) md))
    as (s2 & Hbld & Hrs).
  - intros am Ham. apply (registered_by_shape _ _ Hreg am Ham).
  - reflexivity.
  - exact Hsh.
  - exact Hpost.
  - rewrite Hbld. split; [exact Hrs|reflexivity].
Qed.

Theorem finish_load_sync : forall s ad md r, RoleSync s -> e_auto_build s = true ->
  gshape md = gshape (e_model s) ->
  g_exact (e_model (fst (finish_load s ad md r))) = true ->
  RoleSync (fst (finish_load s ad md r)).
Proof.
  intros s ad md r Hrs Hb Hsh Hpost. destruct r as [|e|].
  - apply finish_load_ok; auto. apply Hrs.
  - exact Hrs.
  - exact Hrs.
Qed.

Lemma finish_load_auto : forall s ad md r, e_auto_build (fst (finish_load s ad md r)) = e_auto_build s.
Proof.
  intros s ad md r. unfold finish_load. destruct r as [|e|]; try reflexivity.
  cbn [e_auto_build upd_model upd_adapter]. destruct (e_auto_build s) eqn:Hb; [|exact Hb].
  pose proof (build_role_links_auto (upd_model (upd_adapter s ad) md)) as H.
  destruct (build_role_links _) as [s2 e]. cbn [fst] in *. rewrite H. exact Hb.
Qed.

Theorem step_load_sync : forall s, RoleSync s -> e_auto_build s = true ->
  g_exact (e_model (fst (step_load s))) = true -> RoleSync (fst (step_load s)).
Proof.
  intros s Hrs Hb Hpost. unfold step_load in *.
  pose proof (gshape_ad_load (e_adapter s) (m_clear_policy (e_model s))) as Hsh.
  destruct (ad_load (e_adapter s) (m_clear_policy (e_model s))) as [[ad md] r].
  unfold ld_model in Hsh. cbn [fst snd] in Hsh. rewrite gshape_m_clear in Hsh.
  apply finish_load_sync; assumption.
Qed.

Theorem step_load_filtered_sync : forall s fp fg, RoleSync s -> e_auto_build s = true ->
  g_exact (e_model (fst (step_load_filtered s fp fg))) = true ->
  RoleSync (fst (step_load_filtered s fp fg)).
Proof.
  intros s fp fg Hrs Hb Hpost. unfold step_load_filtered in *.
  pose proof (gshape_ad_load_filtered (e_adapter s) fp fg (m_clear_policy (e_model s))) as Hsh.
  destruct (ad_load_filtered (e_adapter s) fp fg (m_clear_policy (e_model s))) as [[ad md] r].
  unfold ld_model in Hsh. cbn [fst snd] in Hsh. rewrite gshape_m_clear in Hsh.
  apply finish_load_sync; assumption.
Qed.

Lemma step_load_auto : forall s, e_auto_build (fst (step_load s)) = e_auto_build s.
Proof.
  intros s. unfold step_load.
  destruct (ad_load (e_adapter s) (m_clear_policy (e_model s))) as [[ad md] r]. apply finish_load_auto.
Qed.

Lemma step_load_filtered_auto : forall s fp fg,
  e_auto_build (fst (step_load_filtered s fp fg)) = e_auto_build s.
Proof.
  intros s fp fg. unfold step_load_filtered.
  destruct (ad_load_filtered (e_adapter s) fp fg (m_clear_policy (e_model s))) as [[ad md] r].
  apply finish_load_auto.
Qed.

(* ---------- set_adapter ---------- *)
Theorem step_set_adapter_sync : forall s a, RoleSync s -> e_auto_build s = true ->
  g_exact (e_model (fst (step_set_adapter s a))) = true -> RoleSync (fst (step_set_adapter s a)).
Proof. intros s a Hrs Hb Hpost. unfold step_set_adapter in *. apply step_load_sync; assumption. Qed.

(* ---------- save_policy ---------- *)
Theorem step_save_sync : forall s, RoleSync s -> RoleSync (fst (step_save s)).
Proof.
  intros s Hrs. unfold step_save. destruct (ad_is_filtered (e_adapter s)); [exact Hrs|].
  destruct (ad_save (e_adapter s) (e_model s)) as [ad [|e|]]; try exact Hrs.
  cbn [fst]. apply RoleSync_emit. exact Hrs.
Qed.

Lemma step_save_auto : forall s, e_auto_build (fst (step_save s)) = e_auto_build s.
Proof.
  intros s. unfold step_save. destruct (ad_is_filtered (e_adapter s)); [reflexivity|].
  destruct (ad_save (e_adapter s) (e_model s)) as [ad [|e|]]; try reflexivity.
  cbn [fst]. rewrite emit_auto. reflexivity.
Qed.

(* ---------- clear_policy ---------- *)
Lemma step_clear_g_exact : forall s, e_auto_build s = true ->
  (exists ad o, step_clear s = (upd_adapter s ad, o)) \/
  (exists ad, g_exact (e_model (fst (step_clear s))) =
              g_exact (m_clear_policy (e_model s)) /\
              fst (step_clear s) =
              let s2 := upd_model (upd_adapter s ad) (m_clear_policy (e_model s)) in
              match build_role_links s2 with
              | (s3, LOk) => emit s3 EvClear
              | (s3, LErr _) => s3
              end).
Proof.
  intros s Hb. unfold step_clear.
  destruct (if e_auto_save s then ad_clear (e_adapter s) else (e_adapter s, LROk)) as [ad r].
  destruct r as [|e|]; [right|left; eauto|left; eauto].
  exists ad. cbn [e_auto_build upd_model upd_adapter e_model]. rewrite Hb.
  pose proof (build_role_links_g_exact (upd_model (upd_adapter s ad) (m_clear_policy (e_model s)))) as H.
  cbv zeta.
  destruct (build_role_links (upd_model (upd_adapter s ad) (m_clear_policy (e_model s)))) as [s3 [|e]];
    cbn [fst] in *; rewrite ?emit_model; split; try exact H; reflexivity.
Qed.

Theorem step_clear_sync : forall s, RoleSync s -> e_auto_build s = true ->
  g_exact (e_model (fst (step_clear s))) = true -> RoleSync (fst (step_clear s)).
Proof.
  intros s Hrs Hb Hpost. destruct (step_clear_g_exact s Hb) as [(ad & o & Heq)|(ad & Hg & Heq)].
  - rewrite Heq. exact Hrs.
  - rewrite Hg in Hpost. rewrite Heq. cbv zeta.
    destruct (rebuild_sync (f_gfuns (e_fs s)) (gshape (e_model s))
                (upd_model (upd_adapter s ad) (m_clear_policy (e_model s)))) as (s2 & Hbld & Hrs2).
    + intros am Ham. apply (registered_by_shape _ _ (proj2 Hrs) am Ham).
    + reflexivity.
    + apply gshape_m_clear.
    + exact Hpost.
    + rewrite Hbld. apply RoleSync_emit, Hrs2.
Qed.

Lemma step_clear_auto : forall s, e_auto_build (fst (step_clear s)) = e_auto_build s.
Proof.
  intros s. unfold step_clear.
  destruct (if e_auto_save s then ad_clear (e_adapter s) else (e_adapter s, LROk)) as [ad r].
  destruct r as [|e|]; try reflexivity.
  cbn [e_auto_build upd_model upd_adapter e_model].
  destruct (e_auto_build s) eqn:Hb; [|cbn [fst]; rewrite emit_auto; exact Hb].
  pose proof (build_role_links_auto (upd_model (upd_adapter s ad) (m_clear_policy (e_model s)))) as H.
  destruct (build_role_links _) as [s3 [|e]]; cbn [fst] in *; rewrite ?emit_auto, H; exact Hb.
Qed.

(* ---------- build_role_links as an operation ---------- *)
Theorem step_build_sync : forall s, RoleSync s ->
  g_exact (e_model (fst (step s OBuildRoleLinks))) = true ->
  RoleSync (fst (step s OBuildRoleLinks)) /\ snd (step s OBuildRoleLinks) = Ok true.
Proof.
  intros s Hrs Hpost. cbn [step] in *.
  pose proof (build_role_links_g_exact s) as Hg.
  destruct (rebuild_sync (f_gfuns (e_fs s)) (gshape (e_model s)) s) as (s2 & Hbld & Hrs2).
  - intros am Ham. apply (registered_by_shape _ _ (proj2 Hrs) am Ham).
  - reflexivity.
  - reflexivity.
  - rewrite <- Hg. destruct (build_role_links s) as [s' e]. exact Hpost.
  - rewrite Hbld. split; [exact Hrs2|reflexivity].
Qed.

(* ---------- rebuild followed by re-registration ---------- *)
Definition build_reg (s1 : estate) : estate * outcome bool :=
  let (s2, e) := build_role_links s1 in
  match e with
  | LErr c => (s2, Err c)
  | LOk => let (s3, e') := register_g_functions s2 in (s3, lerr_out e' true)
  end.

Lemma build_reg_g_exact : forall s1, g_exact (e_model (fst (build_reg s1))) = g_exact (e_model s1).
Proof.
  intros s1. unfold build_reg. pose proof (build_role_links_g_exact s1) as H.
  destruct (build_role_links s1) as [s2 [|c]]; cbn [fst] in *; [|exact H].
  pose proof (register_g_functions_model s2) as Hm.
  destruct (register_g_functions s2) as [s3 e']. cbn [fst] in *. rewrite Hm. exact H.
Qed.

Theorem build_reg_sync : forall s1, g_exact (e_model (fst (build_reg s1))) = true ->
  RoleSync (fst (build_reg s1)) /\ snd (build_reg s1) = Ok true.
Proof.
  intros s1 Hpost. rewrite build_reg_g_exact in Hpost.
  destruct (build_then_register s1 Hpost) as (s2 & s3 & Hb & Hr & Hrs).
  unfold build_reg. rewrite Hb, Hr. split; [exact Hrs|reflexivity].
Qed.

Lemma build_reg_auto : forall s1, e_auto_build (fst (build_reg s1)) = e_auto_build s1.
Proof.
  intros s1. unfold build_reg. pose proof (build_role_links_auto s1) as H.
  destruct (build_role_links s1) as [s2 [|c]]; cbn [fst] in *; [|exact H].
  pose proof (register_g_functions_auto s2) as Hm.
  destruct (register_g_functions s2) as [s3 e']. cbn [fst] in *. congruence.
Qed.

(* ---------- set_role_manager ---------- *)
Definition rm_replaced (s : estate) (maxd : nat) : estate :=
  let fs := e_fs s in
  let fz := freeze_handle (f_rm fs) (f_rm_max fs) in
  let md := match assoc s_g (e_model s) with
            | Some am => assoc_set s_g (map (fun ka => (fst ka, with_handle (snd ka) (fz (a_handle (snd ka))))) am)
                                   (e_model s)
            | None => e_model s end in
  upd_fs (upd_model s md)
         {| f_rm := []; f_rm_max := maxd;
            f_gfuns := map (fun kh => (fst kh, fz (snd kh))) (f_gfuns fs);
            f_ufuns := f_ufuns fs |}.

Lemma step_set_role_manager_eq : forall s maxd, e_auto_build s = true ->
  step_set_role_manager s maxd = build_reg (rm_replaced s maxd).
Proof.
  intros s maxd Hb. unfold step_set_role_manager, build_reg, rm_replaced. cbv zeta.
  cbn [e_auto_build upd_fs upd_model]. rewrite Hb. reflexivity.
Qed.

Theorem step_set_role_manager_sync : forall s maxd, e_auto_build s = true ->
  g_exact (e_model (fst (step_set_role_manager s maxd))) = true ->
  RoleSync (fst (step_set_role_manager s maxd)) /\ snd (step_set_role_manager s maxd) = Ok true.
Proof.
  intros s maxd Hb Hpost. rewrite (step_set_role_manager_eq s maxd Hb) in *.
  apply build_reg_sync, Hpost.
Qed.

Lemma step_set_role_manager_auto : forall s maxd, e_auto_build s = true ->
  e_auto_build (fst (step_set_role_manager s maxd)) = true.
Proof.
  intros s maxd Hb. rewrite (step_set_role_manager_eq s maxd Hb), build_reg_auto. exact Hb.
Qed.

(* ---------- set_model ---------- *)
Definition model_replaced (s : estate) (d : modeldef) : estate :=
  {| e_model := d_model d; e_mexprs := d_mexprs d; e_adapter := e_adapter s; e_fs := e_fs s;
     e_enabled := e_enabled s; e_auto_save := e_auto_save s; e_auto_build := e_auto_build s;
     e_auto_notify := e_auto_notify s; e_callbacks := e_callbacks s;
     e_watcher := e_watcher s; e_wlog := e_wlog s |}.

Lemma step_load_cases : forall s, e_auto_build s = true ->
  (exists ad md, step_load s =
     (let (s2, e) := build_role_links (upd_model (upd_adapter s ad) md) in (s2, lerr_out e true))) \/
  (exists ad e, step_load s = (upd_adapter s ad, Err e)) \/
  (exists ad, step_load s = (upd_adapter s ad, Panic)).
Proof.
  intros s Hb. unfold step_load.
  destruct (ad_load (e_adapter s) (m_clear_policy (e_model s))) as [[ad md] r].
  unfold finish_load. destruct r as [|e|].
  - left. exists ad, md. cbn [e_auto_build upd_model upd_adapter]. rewrite Hb. reflexivity.
  - right. left. eauto.
  - right. right. eauto.
Qed.

Definition is_ok (o : outcome bool) : bool := match o with Ok _ => true | _ => false end.

Theorem step_set_model_sync : forall s d, e_auto_build s = true ->
  is_ok (snd (step_set_model s d)) = true ->
  g_exact (e_model (fst (step_set_model s d))) = true ->
  RoleSync (fst (step_set_model s d)).
Proof.
  intros s d Hb Hok Hpost. unfold step_set_model in *. fold (model_replaced s d) in *.
  destruct (step_load_cases (model_replaced s d) Hb) as [(ad & md & Heq)|[(ad & e & Heq)|(ad & Heq)]];
    rewrite Heq in *; [|discriminate|discriminate].
  set (s1 := upd_model (upd_adapter (model_replaced s d) ad) md) in *.
  assert (Hbr : forall X, (let (s2, e) := build_role_links s1 in (s2, lerr_out e true)) = X ->
                X = X) by reflexivity. clear Hbr.
  assert (Heqbr : match (let (s2, e) := build_role_links s1 in (s2, lerr_out e true)) with
                  | (s1', Ok _) => let (s2, e) := register_g_functions s1' in (s2, lerr_out e true)
                  | other => other end = build_reg s1).
  { unfold build_reg. destruct (build_role_links s1) as [s2 [|c]]; reflexivity. }
  rewrite Heqbr in *. apply build_reg_sync, Hpost.
Qed.

Lemma step_set_model_auto : forall s d, e_auto_build (fst (step_set_model s d)) = e_auto_build s.
Proof.
  intros s d. unfold step_set_model. fold (model_replaced s d).
  pose proof (step_load_auto (model_replaced s d)) as H.
  change (e_auto_build (model_replaced s d)) with (e_auto_build s) in H.
  destruct (step_load (model_replaced s d)) as [s1 [b|e|]]; cbn [fst] in *; try exact H.
  pose proof (register_g_functions_auto s1) as Hr.
  destruct (register_g_functions s1) as [s2 e]. cbn [fst] in *. congruence.
Qed.

(* ---------- the initial state ---------- *)
Lemma register_g_functions_adapter : forall s, e_adapter (fst (register_g_functions s)) = e_adapter s.
Proof.
  intros s. unfold register_g_functions. destruct (assoc s_g (e_model s)) as [am|]; [|reflexivity].
  destruct (register_g am (f_gfuns (e_fs s))) as [gf e]. reflexivity.
Qed.

Theorem new_enforcer_sync : forall d a w s,
  fst (new_enforcer d a w) = s -> is_ok (snd (new_enforcer d a w)) = true ->
  ad_is_filtered a = false -> g_exact (e_model s) = true ->
  RoleSync s /\ e_auto_build s = true.
Proof.
  intros d a w s Hs Hok Hnf Hpost. subst s. unfold new_enforcer, new_raw in *.
  set (s_init := {| e_model := d_model d; e_mexprs := d_mexprs d; e_adapter := a;
       e_fs := {| f_rm := []; f_rm_max := 10; f_gfuns := []; f_ufuns := [] |};
       e_enabled := true; e_auto_save := true; e_auto_build := true; e_auto_notify := true;
       e_callbacks := 1; e_watcher := w; e_wlog := [] |}) in *.
  pose proof (register_g_functions_adapter s_init) as Had.
  pose proof (register_g_functions_auto s_init) as Hau.
  pose proof (register_g_functions_model s_init) as Hmd.
  destruct (register_g_functions s_init) as [s0 [|e0]] eqn:Hreg; [|discriminate].
  cbn [fst] in Had, Hau, Hmd. rewrite Had in *. change (e_adapter s_init) with a in *. rewrite Hnf in *.
  change (e_auto_build s_init) with true in Hau.
  split; [|rewrite step_load_auto; exact Hau].
  pose proof (register_g_functions_spec s_init s0 Hreg) as Hregd. rewrite <- Hmd in Hregd.
  unfold step_load in *.
  pose proof (gshape_ad_load (e_adapter s0) (m_clear_policy (e_model s0))) as Hsh.
  destruct (ad_load (e_adapter s0) (m_clear_policy (e_model s0))) as [[ad md] r].
  unfold ld_model in Hsh. cbn [fst snd] in Hsh. rewrite gshape_m_clear in Hsh.
  destruct r as [|e|]; [|discriminate|discriminate].
  apply finish_load_ok; assumption.
Qed.
