(* General facts about the operations of Gen/Petgraph.v and Gen/RustIter.v, used
   by PinChecks/PcRoleManagerGen.v (part 11 of rs2coq: DefaultRoleManager).
   Nothing here mentions a generated term.

   A. the HashMap operations are the model's assoc / assoc_set
   B. petgraph: pg_valid / find_edge / edge_weight / remove_edge / add_edge in the
      model's vocabulary (m_has_node, m_find_edge, remove_first_edge, m_add_edge)
   C. iterator adaptors: the `_opt` versions agree with the total ones when the
      closure does not panic on the items of the list; filter_map as map o filter
   D. the visit map: visiting a list of successors is the model's `discover`
   E. `rs_while_some` unfolded one iteration
   F. graph well-formedness and the HashSet operations *)
From CV Require Import Model.Base Model.RoleGraph Model.RoleGraphM.
From CV Require Import Gen.RustStr Gen.RustVec Gen.RustIter Gen.Petgraph.
From CV Require Import Proofs.ListAux Proofs.BaseP Proofs.RoleGraphP Proofs.RoleGraphMP Proofs.RustVecP.
From Coq Require Import Lia Permutation.

(* ================================================================== *)
(* A. HashMap                                                          *)
Lemma hm_get_assoc : forall {V} (m : hashmap V) k, hm_get m k = assoc k m.
Proof.
  intros V m k. induction m as [|[k' v] m IH]; [reflexivity|].
  cbn [hm_get assoc]. unfold rs_eq. destruct (teqb k k'); [reflexivity|exact IH].
Qed.

Lemma hm_insert_assoc_set : forall {V} (m : hashmap V) k v, hm_insert m k v = assoc_set k v m.
Proof.
  intros V m k v. induction m as [|[k' v'] m IH]; [reflexivity|].
  cbn [hm_insert assoc_set]. unfold rs_eq. destruct (teqb k k'); [reflexivity|]. rewrite IH. reflexivity.
Qed.

Lemma hm_contains_key_assoc : forall {V} (m : hashmap V) k,
  hm_contains_key m k = match assoc k m with Some _ => true | None => false end.
Proof. intros V m k. unfold hm_contains_key, rs_is_some. rewrite hm_get_assoc. reflexivity. Qed.

Lemma hm_entry_or_assoc : forall {V} (m : hashmap V) k d,
  hm_entry_or m k d = match assoc k m with Some v => (m, v) | None => (assoc_set k d m, d) end.
Proof.
  intros V m k d. unfold hm_entry_or. rewrite hm_get_assoc, hm_insert_assoc_set. reflexivity.
Qed.

Lemma assoc_set_set : forall {A} k (v v' : A) l, assoc_set k v (assoc_set k v' l) = assoc_set k v l.
Proof.
  intros A k v v' l. induction l as [|[k' w] l IH]; cbn [assoc_set].
  - rewrite teqb_refl. reflexivity.
  - destruct (teqb k k') eqn:E; cbn [assoc_set]; rewrite E; [reflexivity|]. rewrite IH. reflexivity.
Qed.

Lemma assoc_set_same_value : forall {A} k (v : A) l, assoc k l = Some v -> assoc_set k v l = l.
Proof.
  intros A k v l. induction l as [|[k' w] l IH]; cbn [assoc assoc_set]; [discriminate|].
  destruct (teqb k k') eqn:E; intros H.
  - injection H as ->. reflexivity.
  - rewrite (IH H). reflexivity.
Qed.

(* ================================================================== *)
(* B. petgraph                                                         *)
Lemma pg_valid_has_node : forall g i, pg_valid g i = m_has_node g i.
Proof. reflexivity. Qed.

Lemma pg_valid_In : forall g i, pg_valid g i = true <-> In i (m_nodes g).
Proof. intros g i. rewrite pg_valid_has_node. apply m_has_node_In. Qed.

Lemma pg_node_weight_In : forall g i, In i (m_nodes g) -> pg_node_weight g i = Some i.
Proof. intros g i H. unfold pg_node_weight. apply pg_valid_In in H. rewrite H. reflexivity. Qed.

Lemma pg_node_weight_Some : forall g i w, pg_node_weight g i = Some w -> w = i /\ In i (m_nodes g).
Proof.
  intros g i w. unfold pg_node_weight. destruct (pg_valid g i) eqn:E; [|discriminate].
  intros H. injection H as <-. split; [reflexivity|apply pg_valid_In, E].
Qed.

Definition edge_is (a b : text) (e : medge) : bool := teqb (e_src e) a && teqb (e_dst e) b.

(* the first edge a -> b of a list: what find_edge locates *)
Lemma pg_first_edge_None : forall a b l k, pg_first_edge a b l k = None ->
  filter (edge_is a b) l = [] /\ remove_first_edge a b l = l.
Proof.
  intros a b. induction l as [|e r IH]; intros k H; [split; reflexivity|].
  cbn [pg_first_edge] in H. cbn [filter remove_first_edge]. unfold edge_is at 1. unfold rs_eq in H.
  destruct (teqb (e_src e) a && teqb (e_dst e) b); [discriminate|].
  destruct (IH _ H) as [H1 H2]. rewrite H1, H2. split; reflexivity.
Qed.

Lemma pg_first_edge_Some : forall a b l k ix, pg_first_edge a b l k = Some ix ->
  exists j e r, ix = k + j /\ nth_error l j = Some e /\ filter (edge_is a b) l = e :: r /\
                pg_remove_nth l j = remove_first_edge a b l.
Proof.
  intros a b. induction l as [|e r IH]; intros k ix H; [discriminate|].
  cbn [pg_first_edge] in H. cbn [filter remove_first_edge]. unfold edge_is at 1. unfold rs_eq in H.
  destruct (teqb (e_src e) a && teqb (e_dst e) b).
  - injection H as <-. exists 0, e, (filter (edge_is a b) r). repeat split. lia.
  - destruct (IH _ _ H) as (j & e' & r' & Hix & Hn & Hf & Hr).
    exists (S j), e', r'. repeat split; [lia|exact Hn|exact Hf|]. cbn [pg_remove_nth]. rewrite Hr. reflexivity.
Qed.

Lemma m_find_edge_filter : forall g a b,
  m_find_edge g a b = match filter (edge_is a b) (m_edges g) with e :: _ => Some (e_kind e) | [] => None end.
Proof. reflexivity. Qed.

(* find_edge followed by the weight of the edge found = the model's m_find_edge *)
Lemma pg_find_edge_weight : forall g a b,
  match pg_find_edge g a b with
  | Some ix => pg_edge_weight g ix
  | None => None
  end = m_find_edge g a b.
Proof.
  intros g a b. rewrite m_find_edge_filter. unfold pg_find_edge, pg_edge_weight.
  destruct (pg_first_edge a b (m_edges g) 0) as [ix|] eqn:E.
  - destruct (pg_first_edge_Some _ _ _ _ _ E) as (j & e & r & -> & Hn & Hf & _).
    cbn [plus]. rewrite Hn, Hf. reflexivity.
  - destruct (pg_first_edge_None _ _ _ _ E) as [Hf _]. rewrite Hf. reflexivity.
Qed.

Lemma pg_find_edge_Some_weight : forall g a b ix, pg_find_edge g a b = Some ix ->
  exists k, pg_edge_weight g ix = Some k /\ m_find_edge g a b = Some k.
Proof.
  intros g a b ix H. pose proof (pg_find_edge_weight g a b) as W. rewrite H in W.
  unfold pg_find_edge in H. destruct (pg_first_edge_Some _ _ _ _ _ H) as (j & e & r & -> & Hn & _ & _).
  unfold pg_edge_weight in *. cbn [plus] in *. rewrite Hn in *. exists (e_kind e). split; [reflexivity|symmetry; exact W].
Qed.

Lemma pg_find_edge_None : forall g a b, pg_find_edge g a b = None -> m_find_edge g a b = None.
Proof. intros g a b H. rewrite <- pg_find_edge_weight, H. reflexivity. Qed.

(* find_edge + remove_edge = the model's remove_first_edge; the removed weight is there *)
Lemma pg_remove_found : forall g a b ix, pg_find_edge g a b = Some ix ->
  exists k, pg_remove_edge g ix =
            ({| m_nodes := m_nodes g; m_edges := remove_first_edge a b (m_edges g) |}, Some k).
Proof.
  intros g a b ix H. unfold pg_find_edge in H.
  destruct (pg_first_edge_Some _ _ _ _ _ H) as (j & e & r & -> & Hn & _ & Hr).
  unfold pg_remove_edge. cbn [plus]. rewrite Hn, Hr. exists (e_kind e). reflexivity.
Qed.

Lemma pg_remove_not_found : forall g a b, pg_find_edge g a b = None ->
  remove_first_edge a b (m_edges g) = m_edges g.
Proof. intros g a b H. apply (pg_first_edge_None _ _ _ _ H). Qed.

Lemma pg_add_edge_valid : forall g a b w, In a (m_nodes g) -> In b (m_nodes g) ->
  pg_add_edge g a b w = Some (m_add_edge g a b w, 0).
Proof.
  intros g a b w Ha Hb. unfold pg_add_edge. apply pg_valid_In in Ha. apply pg_valid_In in Hb.
  rewrite Ha, Hb. reflexivity.
Qed.

Lemma pg_add_edge_Some : forall g a b w g' ix, pg_add_edge g a b w = Some (g', ix) ->
  g' = m_add_edge g a b w /\ In a (m_nodes g) /\ In b (m_nodes g).
Proof.
  intros g a b w g' ix. unfold pg_add_edge.
  destruct (pg_valid g a) eqn:Ea; [|discriminate]. destruct (pg_valid g b) eqn:Eb; [|discriminate].
  cbn [andb]. intros H. injection H as <- _. repeat split; apply pg_valid_In; assumption.
Qed.

Lemma ek_is_eqb : forall a b, ek_is a b = ekind_eqb a b.
Proof. intros [] []; reflexivity. Qed.

Lemma pg_edges_out : forall g n, pg_edges_directed g n Outgoing = out_edges g n.
Proof. reflexivity. Qed.
Lemma pg_edges_in : forall g n, pg_edges_directed g n Incoming = in_edges g n.
Proof. reflexivity. Qed.

(* ================================================================== *)
(* C. iterator adaptors                                                *)
Lemma rs_iter_filter_map_spec : forall {A B} (f : A -> option B) (p : A -> bool) (h : A -> B) l,
  (forall x, f x = if p x then Some (h x) else None) ->
  rs_iter_filter_map f l = map h (filter p l).
Proof.
  intros A B f p h l Hf. induction l as [|x r IH]; [reflexivity|].
  cbn [rs_iter_filter_map filter]. rewrite Hf. destruct (p x); cbn [map]; rewrite IH; reflexivity.
Qed.

Lemma rs_iter_filter_map_filter : forall {A} (f : A -> option A) (p : A -> bool) l,
  (forall x, f x = if p x then Some x else None) ->
  rs_iter_filter_map f l = filter p l.
Proof.
  intros A f p l Hf. rewrite (rs_iter_filter_map_spec f p (fun x => x) l Hf). apply map_id.
Qed.

Section OptAdaptors.
  Context {A : Type}.

  Lemma rs_iter_filter_opt_total : forall (p : A -> option bool) (q : A -> bool) l,
    (forall x, In x l -> p x = Some (q x)) -> rs_iter_filter_opt p l = Some (filter q l).
  Proof.
    intros p q. induction l as [|x r IH]; intros H; [reflexivity|].
    cbn [rs_iter_filter_opt filter]. rewrite (H x (or_introl eq_refl)).
    rewrite IH by (intros y Hy; apply H; right; exact Hy). reflexivity.
  Qed.

  Lemma rs_iter_find_opt_total : forall (p : A -> option bool) (q : A -> bool) l,
    (forall x, In x l -> p x = Some (q x)) -> rs_iter_find_opt p l = Some (find q l).
  Proof.
    intros p q. induction l as [|x r IH]; intros H; [reflexivity|].
    cbn [rs_iter_find_opt find]. rewrite (H x (or_introl eq_refl)). destruct (q x); [reflexivity|].
    apply IH. intros y Hy. apply H. right. exact Hy.
  Qed.

  Lemma rs_iter_any_opt_total : forall (p : A -> option bool) (q : A -> bool) l,
    (forall x, In x l -> p x = Some (q x)) -> rs_iter_any_opt p l = Some (existsb q l).
  Proof.
    intros p q. induction l as [|x r IH]; intros H; [reflexivity|].
    cbn [rs_iter_any_opt existsb]. rewrite (H x (or_introl eq_refl)). destruct (q x); [reflexivity|].
    cbn [orb]. apply IH. intros y Hy. apply H. right. exact Hy.
  Qed.

  Lemma rs_iter_map_opt_total : forall {B} (f : A -> option B) (h : A -> B) l,
    (forall x, In x l -> f x = Some (h x)) -> rs_iter_map_opt f l = Some (map h l).
  Proof.
    intros B f h. induction l as [|x r IH]; intros H; [reflexivity|].
    cbn [rs_iter_map_opt map]. rewrite (H x (or_introl eq_refl)).
    rewrite IH by (intros y Hy; apply H; right; exact Hy). reflexivity.
  Qed.
End OptAdaptors.

Lemma find_some_In : forall {A} (p : A -> bool) l x, find p l = Some x -> In x l.
Proof. intros A p l x H. apply find_some in H. apply H. Qed.

(* ================================================================== *)
(* D. the visit map                                                    *)
Lemma discover_ext : forall ss d1 d2, (forall x, In x d1 <-> In x d2) -> discover ss d1 = discover ss d2.
Proof.
  induction ss as [|s r IH]; intros d1 d2 H; [reflexivity|]. cbn [discover].
  assert (E : memb teqb s d1 = memb teqb s d2).
  { destruct (memb teqb s d1) eqn:E1; destruct (memb teqb s d2) eqn:E2; try reflexivity.
    - apply memb_In in E1. apply H in E1. apply memb_In in E1. congruence.
    - apply memb_In in E2. apply H in E2. apply memb_In in E2. congruence. }
  rewrite E. destruct (memb teqb s d2); [apply IH, H|]. f_equal. apply IH.
  intros x. cbn [In]. rewrite H. tauto.
Qed.

(* visiting the successors ss in order: what is marked, what is queued, how many *)
Fixpoint visit_all (ss seen q : list text) (c : nat) : list text * list text * nat :=
  match ss with
  | [] => (seen, q, c)
  | s :: r => if memb teqb s seen then visit_all r seen q c
              else visit_all r (seen ++ [s]) (q ++ [s]) (c + 1)
  end.

Lemma visit_all_discover : forall ss seen q c,
  visit_all ss seen q c =
  (seen ++ discover ss seen, q ++ discover ss seen, c + length (discover ss seen)).
Proof.
  induction ss as [|s r IH]; intros seen q c; cbn [visit_all discover].
  - rewrite !app_nil_r. cbn [length]. rewrite Nat.add_0_r. reflexivity.
  - destruct (memb teqb s seen); [apply IH|].
    rewrite IH. rewrite (discover_ext r (seen ++ [s]) (s :: seen)).
    + rewrite <- !app_assoc. cbn [app length]. replace (c + 1 + length (discover r (s :: seen))) with (c + S (length (discover r (s :: seen)))) by lia. reflexivity.
    + intros x. rewrite in_app_iff. cbn [In]. tauto.
Qed.

Lemma vm_visit_spec : forall m x,
  vm_visit m x =
  if memb teqb x (vm_bound m)
  then Some (if memb teqb x (vm_seen m) then (m, false)
             else ({| vm_bound := vm_bound m; vm_seen := vm_seen m ++ [x] |}, true))
  else None.
Proof. reflexivity. Qed.

(* ================================================================== *)
(* E. while let                                                        *)
Lemma rs_while_some_S : forall {X St R} fuel (next : St -> option (St * option X)) (body : X -> St -> flow St R) s,
  rs_while_some (S fuel) next body s =
  match next s with
  | None => Panicked
  | Some (s1, None) => Done s1
  | Some (s1, Some x) =>
    match body x s1 with
    | LNext s2 => rs_while_some fuel next body s2
    | LBreak s2 => Done s2
    | LReturn r => Returned r
    | LPanic => Panicked
    end
  end.
Proof. reflexivity. Qed.

(* ================================================================== *)
(* F. well-formed graphs; HashSet                                      *)
(* a petgraph graph: distinct node weights (the encoding of indices by names),
   edges between nodes of the graph *)
Definition pg_wf (g : mgraph) : Prop :=
  NoDup (m_nodes g) /\
  forall e, In e (m_edges g) -> In (e_src e) (m_nodes g) /\ In (e_dst e) (m_nodes g).

Lemma pg_wf_new : pg_wf pg_new.
Proof. split; [constructor|intros e []]. Qed.

Lemma pg_wf_add_edge : forall g a b k, pg_wf g -> In a (m_nodes g) -> In b (m_nodes g) ->
  pg_wf (m_add_edge g a b k).
Proof.
  intros g a b k [Hn He] Ha Hb. split; [exact Hn|].
  intros e [<-|H]; [split; assumption|apply He, H].
Qed.

Lemma pg_wf_add_node : forall g n, pg_wf g -> ~ In n (m_nodes g) ->
  pg_wf {| m_nodes := m_nodes g ++ [n]; m_edges := m_edges g |}.
Proof.
  intros g n [Hn He] Hin. split; cbn [m_nodes m_edges].
  - apply NoDup_snoc; assumption.
  - intros e H. destruct (He e H) as [H1 H2]. split; apply in_or_app; left; assumption.
Qed.

Lemma pg_wf_remove : forall g a b, pg_wf g ->
  pg_wf {| m_nodes := m_nodes g; m_edges := remove_first_edge a b (m_edges g) |}.
Proof.
  intros g a b [Hn He]. split; [exact Hn|]. cbn [m_nodes m_edges].
  intros e H. apply He. apply (remove_first_edge_In a b _ _ H).
Qed.

Lemma m_succs_closed : forall withm g x y, pg_wf g -> In y (m_succs withm g x) -> In y (m_nodes g).
Proof.
  intros withm g x y [_ He] H.
  assert (L : forall n z, In z (link_succs g n) -> In z (m_nodes g)).
  { intros n z Hz. unfold link_succs in Hz. apply in_map_iff in Hz. destruct Hz as (e & <- & Hz).
    apply filter_In in Hz. destruct Hz as [Hz _]. unfold out_edges in Hz. apply filter_In in Hz. apply He, Hz. }
  assert (M : forall n z, In z (match_succs g n) -> In z (m_nodes g)).
  { intros n z Hz. unfold match_succs in Hz. apply in_map_iff in Hz. destruct Hz as (e & <- & Hz).
    apply filter_In in Hz. destruct Hz as [Hz _]. unfold out_edges in Hz. apply filter_In in Hz. apply He, Hz. }
  unfold m_succs in H. destruct (negb withm); [apply (L x), H|].
  apply in_app_or in H. destruct H as [H|H]; [apply (L x), H|].
  apply in_app_or in H. destruct H as [H|H]; apply in_flat_map in H; destruct H as (u & _ & H).
  - apply (M u), H.
  - apply (L (e_src u)), H.
Qed.

Lemma hs_insert_In : forall s x y, In y (hs_insert s x) <-> In y s \/ y = x.
Proof.
  intros s x y. unfold hs_insert.
  change (existsb (rs_eq x) s) with (memb teqb x s).
  destruct (memb teqb x s) eqn:E.
  - apply memb_In in E. split; [intros H; left; exact H|]. intros [H|H]; [exact H|subst y; exact E].
  - rewrite in_app_iff. cbn [In]. split.
    + intros [H|[H|[]]]; [left; exact H|right; symmetry; exact H].
    + intros [H|H]; [left; exact H|right; left; symmetry; exact H].
Qed.

Lemma hs_extend_In : forall it s y, In y (hs_extend s it) <-> In y s \/ In y it.
Proof.
  unfold hs_extend. induction it as [|x r IH]; intros s y; cbn [fold_left In]; [tauto|].
  rewrite IH, hs_insert_In. split; intros H; repeat destruct H as [H|H]; auto.
Qed.

(* ---- well-formedness is kept by the model's mutators ---- *)
Lemma pg_wf_lim : forall f g np mp, pg_wf g -> In np (m_nodes g) -> In mp (m_nodes g) ->
  pg_wf (link_if_matches f g np mp).
Proof.
  intros f g np mp W Hn Hm. unfold link_if_matches. destruct (negb (f mp np)); [exact W|].
  destruct (m_find_edge g np mp) as [[]|]; try exact W; apply pg_wf_add_edge; assumption.
Qed.

Lemma pg_wf_create_fold : forall f n N l acc, pg_wf acc -> m_nodes acc = N -> In n N ->
  (forall x, In x l -> In x N) ->
  pg_wf (fold_left (fun acc ex => link_if_matches f (link_if_matches f acc n ex) ex n) l acc).
Proof.
  intros f n N. induction l as [|x l IH]; intros acc W HN Hn Hl; [exact W|].
  cbn [fold_left]. apply IH.
  - assert (Hx : In x N) by (apply Hl; left; reflexivity). apply pg_wf_lim.
    + apply pg_wf_lim; [exact W|rewrite HN; exact Hn|rewrite HN; exact Hx].
    + rewrite lim_nodes, HN. exact Hx.
    + rewrite lim_nodes, HN. exact Hn.
  - rewrite !lim_nodes. exact HN.
  - exact Hn.
  - intros y Hy. apply Hl. right. exact Hy.
Qed.

Lemma pg_wf_create : forall rf g n, pg_wf g -> pg_wf (m_create_node rf g n).
Proof.
  intros rf g n W. unfold m_create_node. destruct (m_has_node g n) eqn:E; [exact W|].
  assert (Hn : ~ In n (m_nodes g)).
  { intros H. apply m_has_node_In in H. congruence. }
  pose proof (pg_wf_add_node g n W Hn) as W1. destruct rf as [f|]; [|exact W1].
  apply (pg_wf_create_fold f n (m_nodes g ++ [n])); [exact W1|reflexivity| |].
  - apply in_or_app. right. left. reflexivity.
  - intros x Hx. apply filter_In in Hx. apply in_or_app. left. apply Hx.
Qed.

(* ---- a loop that simulates a fold of the model ---- *)
Lemma rs_for_rel : forall {A St R M} (body : A -> St -> flow St R) (Rel : St -> M -> Prop) (fm : M -> A -> M) l s m,
  Rel s m ->
  (forall x s m, In x l -> Rel s m -> exists s', body x s = LNext s' /\ Rel s' (fm m x)) ->
  exists s', rs_for body l s = Done s' /\ Rel s' (fold_left fm l m).
Proof.
  intros A St R M body Rel fm. induction l as [|x l IH]; intros s m H0 Hstep.
  - exists s. split; [apply rs_for_nil|exact H0].
  - destruct (Hstep x s m (or_introl eq_refl) H0) as (s1 & Hb & H1).
    rewrite rs_for_cons, Hb. cbn [fold_left]. apply IH; [exact H1|].
    intros y s2 m2 Hy. apply Hstep. right. exact Hy.
Qed.

(* visit_all as a fold (the shape of the loop of Bfs::next) *)
Definition visit_step (st : list text * list text * nat) (x : text) : list text * list text * nat :=
  let '(seen, q, c) := st in
  if memb teqb x seen then (seen, q, c) else (seen ++ [x], q ++ [x], c + 1).

Lemma fold_visit_step : forall ss seen q c, fold_left visit_step ss (seen, q, c) = visit_all ss seen q c.
Proof.
  induction ss as [|s r IH]; intros seen q c; [reflexivity|].
  cbn [fold_left visit_all]. unfold visit_step at 2. destruct (memb teqb s seen); apply IH.
Qed.
