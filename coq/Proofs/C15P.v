(* C15 — the built-in path matchers implement their documented patterns.
   Proofs about Model/PathMatch.v against Model/SpecC15.v. *)
From CV Require Import Model.Base Model.PathMatch Model.SpecC15.
From CV Require Import Proofs.BaseP.
From Coq Require Import Lia.

(* ================================================================== *)
(* A. characters                                                        *)

Lemma safe_plain c : is_safe_char c = true -> is_plain c = true.
Proof. destruct c as [[] [] [] [] [] [] [] []]; vm_compute; intros H; congruence. Qed.

Lemma safe_neq c d : is_safe_char c = true -> is_safe_char d = false -> Ascii.eqb c d = false.
Proof.
  intros Hc Hd. destruct (Ascii.eqb_spec c d) as [E|E]; [subst; congruence|reflexivity].
Qed.

Lemma plain_neq c d : is_plain c = true -> is_plain d = false -> Ascii.eqb c d = false.
Proof.
  intros Hc Hd. destruct (Ascii.eqb_spec c d) as [E|E]; [subst; congruence|reflexivity].
Qed.

Lemma eqb_sym_false (c d : ascii) : Ascii.eqb c d = false -> Ascii.eqb d c = false.
Proof. rewrite Ascii.eqb_sym. auto. Qed.

Definition safe (w : text) : Prop := Forall (fun c => is_safe_char c = true) w.
Definition sfree (w : text) : Prop := Forall (fun c => Ascii.eqb c slash = false) w.

Lemma safe_word_safe w : safe_word w = true -> w <> [] /\ safe w.
Proof.
  destruct w as [|c w]; cbn [safe_word]; [discriminate|]. intros H. split; [discriminate|].
  unfold safe. apply Forall_forall. rewrite forallb_forall in H. exact H.
Qed.

Lemma safe_sfree w : safe w -> sfree w.
Proof.
  unfold safe, sfree. apply Forall_impl. intros c Hc. apply safe_neq; [exact Hc|reflexivity].
Qed.

(* a key/pattern remainder at a segment boundary: empty or starting with '/' *)
Definition bnd (k : text) : Prop := k = [] \/ exists r, k = slash :: r.

Lemma bnd_nil : bnd []. Proof. left. reflexivity. Qed.
Lemma bnd_slash r : bnd (slash :: r). Proof. right. exists r. reflexivity. Qed.

(* ================================================================== *)
(* B. the text pipelines on rendered grammar patterns                   *)

Definition rend (f : seg -> text) (p : list seg) : text := flat_map (fun s => slash :: f s) p.

Definition dotstar : text := ["."%char; star].
(* after slash_star *)
Definition dseg2 (s : seg) : text := match s with SStar => dotstar | _ => render_seg2 s end.
Definition dseg3 (s : seg) : text := match s with SStar => dotstar | _ => render_seg3 s end.
(* after the replacement of the named segments by `rep` *)
Definition rseg (rep : text) (s : seg) : text :=
  match s with SLit w => w | SNamed _ => rep | SStar => dotstar end.

Lemma render2_rend p : render2 p = rend render_seg2 p. Proof. reflexivity. Qed.
Lemma render3_rend p : render3 p = rend render_seg3 p. Proof. reflexivity. Qed.

Lemma rend_cons f s p : rend f (s :: p) = slash :: f s ++ rend f p.
Proof. reflexivity. Qed.

Lemma rend_bnd f p : bnd (rend f p).
Proof. destruct p as [|s p]; [apply bnd_nil|rewrite rend_cons; apply bnd_slash]. Qed.

Lemma grammar_cons s p : grammar (s :: p) = true ->
  match s with
  | SLit w => safe_word w = true /\ grammar p = true
  | SNamed n => safe_word n = true /\ grammar p = true
  | SStar => p = []
  end.
Proof.
  destruct s as [w|n|]; cbn [grammar].
  - intros H. apply andb_true_iff in H. exact H.
  - intros H. apply andb_true_iff in H. exact H.
  - destruct p; [reflexivity|discriminate].
Qed.

(* ---- slash_star ---- *)
Lemma slash_star_ns c s : Ascii.eqb c slash = false -> slash_star (c :: s) = c :: slash_star s.
Proof. intros H. destruct s as [|d r]; [reflexivity|]. cbn [slash_star]. rewrite H. reflexivity. Qed.

Lemma slash_star_slash d s : Ascii.eqb d star = false ->
  slash_star (slash :: d :: s) = slash :: slash_star (d :: s).
Proof. intros H. cbn [slash_star]. rewrite H, andb_false_r. reflexivity. Qed.

Lemma slash_star_app u r : sfree u -> slash_star (u ++ r) = u ++ slash_star r.
Proof.
  induction 1 as [|c u Hc Hu IH]; [reflexivity|].
  cbn [app]. rewrite slash_star_ns by exact Hc. rewrite IH. reflexivity.
Qed.

(* a segment text that is slash-free, non-empty and does not start with '*' *)
Lemma slash_star_seg u r : sfree u ->
  (match u with c :: _ => Ascii.eqb c star = false | [] => False end) ->
  slash_star (slash :: u ++ r) = slash :: u ++ slash_star r.
Proof.
  intros Hu Hh. destruct u as [|c u]; [contradiction|].
  cbn [app]. rewrite slash_star_slash by exact Hh.
  change (c :: u ++ r) with ((c :: u) ++ r). rewrite slash_star_app by exact Hu. reflexivity.
Qed.

Lemma safe_head_not_star w : w <> [] -> safe w ->
  match w with c :: _ => Ascii.eqb c star = false | [] => False end.
Proof.
  intros Hne Hs. destruct w as [|c w]; [contradiction|].
  inversion Hs; subst. apply safe_neq; [assumption|reflexivity].
Qed.

Lemma sfree_cons c w : Ascii.eqb c slash = false -> sfree w -> sfree (c :: w).
Proof. intros. constructor; assumption. Qed.

Lemma sfree_app u v : sfree u -> sfree v -> sfree (u ++ v).
Proof. intros Hu Hv. apply Forall_app. split; assumption. Qed.

Lemma slash_star_render2 p : grammar p = true -> slash_star (render2 p) = rend dseg2 p.
Proof.
  rewrite render2_rend. induction p as [|s p IH]; intros Hg; [reflexivity|].
  apply grammar_cons in Hg. rewrite !rend_cons. destruct s as [w|n|].
  - destruct Hg as [Hw Hg]. apply safe_word_safe in Hw. destruct Hw as [Hne Hs].
    cbn [render_seg2 dseg2]. rewrite slash_star_seg.
    + rewrite IH by exact Hg. reflexivity.
    + apply safe_sfree, Hs.
    + apply safe_head_not_star; assumption.
  - destruct Hg as [Hw Hg]. apply safe_word_safe in Hw. destruct Hw as [Hne Hs].
    cbn [render_seg2 dseg2]. rewrite slash_star_seg.
    + rewrite IH by exact Hg. reflexivity.
    + apply sfree_cons; [reflexivity|apply safe_sfree, Hs].
    + reflexivity.
  - subst p. reflexivity.
Qed.

Lemma slash_star_render3 p : grammar p = true -> slash_star (render3 p) = rend dseg3 p.
Proof.
  rewrite render3_rend. induction p as [|s p IH]; intros Hg; [reflexivity|].
  apply grammar_cons in Hg. rewrite !rend_cons. destruct s as [w|n|].
  - destruct Hg as [Hw Hg]. apply safe_word_safe in Hw. destruct Hw as [Hne Hs].
    cbn [render_seg3 dseg3]. rewrite slash_star_seg.
    + rewrite IH by exact Hg. reflexivity.
    + apply safe_sfree, Hs.
    + apply safe_head_not_star; assumption.
  - destruct Hg as [Hw Hg]. apply safe_word_safe in Hw. destruct Hw as [Hne Hs].
    cbn [render_seg3 dseg3]. rewrite slash_star_seg.
    + rewrite IH by exact Hg. reflexivity.
    + apply sfree_cons; [reflexivity|].
      apply sfree_app; [apply safe_sfree, Hs|]. constructor; [reflexivity|constructor].
    + reflexivity.
  - subst p. reflexivity.
Qed.

(* ---- MAT_B (key_match2) ---- *)
Lemma mat_b_skip_bnd y : bnd y -> mat_b true y = mat_b false y.
Proof. intros [->|[r ->]]; reflexivity. Qed.

Lemma mat_b_false_app w y : safe w -> mat_b false (w ++ y) = w ++ mat_b false y.
Proof.
  induction 1 as [|c w Hc Hw IH]; [reflexivity|].
  cbn [app mat_b]. rewrite (safe_neq c colon Hc eq_refl). rewrite IH. reflexivity.
Qed.

Lemma mat_b_true_app n y : sfree n -> mat_b true (n ++ y) = mat_b true y.
Proof.
  induction 1 as [|c n Hc Hn IH]; [reflexivity|].
  cbn [app mat_b]. rewrite Hc. exact IH.
Qed.

Lemma mat_b_rend p : grammar p = true -> mat_b false (rend dseg2 p) = rend (rseg ns_plus) p.
Proof.
  induction p as [|s p IH]; intros Hg; [reflexivity|].
  apply grammar_cons in Hg. rewrite !rend_cons. destruct s as [w|n|].
  - destruct Hg as [Hw Hg]. apply safe_word_safe in Hw. destruct Hw as [Hne Hs].
    cbn [dseg2 render_seg2 rseg].
    change (mat_b false (slash :: w ++ rend dseg2 p)) with (slash :: mat_b false (w ++ rend dseg2 p)).
    rewrite mat_b_false_app by exact Hs. rewrite IH by exact Hg. reflexivity.
  - destruct Hg as [Hw Hg]. apply safe_word_safe in Hw. destruct Hw as [Hne Hs].
    cbn [dseg2 render_seg2 rseg].
    change (mat_b false (slash :: (colon :: n) ++ rend dseg2 p))
      with (slash :: ns_plus ++ mat_b true (n ++ rend dseg2 p)).
    rewrite mat_b_true_app by (apply safe_sfree, Hs).
    rewrite mat_b_skip_bnd by apply rend_bnd. rewrite IH by exact Hg. reflexivity.
  - subst p. reflexivity.
Qed.

(* ---- MAT_P (key_match3) ---- *)
Lemma last_close_named n y : safe n -> bnd y -> forall i best,
  last_close (n ++ rbrace :: y) i best = Some (i + length n).
Proof.
  intros Hn Hy. induction Hn as [|c n Hc Hn IH]; intros i best.
  - cbn [app last_close length]. rewrite Nat.add_0_r.
    change (Ascii.eqb rbrace slash) with false. cbv iota.
    change (Ascii.eqb rbrace rbrace) with true. cbv iota.
    destruct Hy as [->|[r ->]]; reflexivity.
  - cbn [app last_close length]. rewrite (safe_neq c slash Hc eq_refl).
    rewrite IH. f_equal. lia.
Qed.

Lemma mat_p_skip u y : mat_p (length u) (u ++ y) = mat_p 0 y.
Proof. induction u as [|c u IH]; [reflexivity|]. cbn [length app mat_p]. exact IH. Qed.

Lemma mat_p_0_app w y : safe w -> mat_p 0 (w ++ y) = w ++ mat_p 0 y.
Proof.
  induction 1 as [|c w Hc Hw IH]; [reflexivity|].
  cbn [app mat_p]. rewrite (safe_neq c lbrace Hc eq_refl). rewrite IH. reflexivity.
Qed.

Lemma mat_p_named n y : safe n -> bnd y ->
  mat_p 0 (lbrace :: n ++ rbrace :: y) = ns_plus ++ mat_p 0 y.
Proof.
  intros Hn Hy. cbn [mat_p]. change (Ascii.eqb lbrace lbrace) with true. cbv iota.
  rewrite (last_close_named n y Hn Hy). cbn [Nat.add].
  replace (S (length n)) with (length (n ++ [rbrace])) by (rewrite app_length; cbn; lia).
  replace (n ++ rbrace :: y) with ((n ++ [rbrace]) ++ y) by (rewrite <- app_assoc; reflexivity).
  rewrite mat_p_skip. reflexivity.
Qed.

Lemma named3_app n y : (lbrace :: n ++ [rbrace]) ++ y = lbrace :: n ++ rbrace :: y.
Proof. cbn [app]. rewrite <- app_assoc. reflexivity. Qed.

Lemma mat_p_rend p : grammar p = true -> mat_p 0 (rend dseg3 p) = rend (rseg ns_plus) p.
Proof.
  induction p as [|s p IH]; intros Hg; [reflexivity|].
  apply grammar_cons in Hg. rewrite !rend_cons. destruct s as [w|n|].
  - destruct Hg as [Hw Hg]. apply safe_word_safe in Hw. destruct Hw as [Hne Hs].
    cbn [dseg3 render_seg3 rseg].
    change (mat_p 0 (slash :: w ++ rend dseg3 p)) with (slash :: mat_p 0 (w ++ rend dseg3 p)).
    rewrite mat_p_0_app by exact Hs. rewrite IH by exact Hg. reflexivity.
  - destruct Hg as [Hw Hg]. apply safe_word_safe in Hw. destruct Hw as [Hne Hs].
    cbn [dseg3 render_seg3 rseg]. rewrite named3_app.
    change (mat_p 0 (slash :: lbrace :: n ++ rbrace :: rend dseg3 p))
      with (slash :: mat_p 0 (lbrace :: n ++ rbrace :: rend dseg3 p)).
    rewrite mat_p_named by (try exact Hs; apply rend_bnd).
    rewrite IH by exact Hg. reflexivity.
  - subst p. reflexivity.
Qed.

(* ---- the lazy brace replacement (key_get3, key_match4, key_match5) ---- *)
Lemma first_close_named n y : safe n -> forall i, 1 <= i + length n ->
  first_close (n ++ rbrace :: y) i = Some (i + length n).
Proof.
  induction 1 as [|c n Hc Hn IH]; intros i Hi.
  - cbn [app first_close length] in *. rewrite Nat.add_0_r in *.
    change (Ascii.eqb rbrace slash) with false. cbv iota.
    change (Ascii.eqb rbrace rbrace) with true.
    destruct i as [|i]; [lia|]. reflexivity.
  - cbn [app first_close length] in *. rewrite (safe_neq c slash Hc eq_refl).
    rewrite (safe_neq c rbrace Hc eq_refl). cbn [andb].
    rewrite IH by lia. f_equal. lia.
Qed.

Lemma brace_lazy_skip rep u y : brace_lazy rep (length u) (u ++ y) = brace_lazy rep 0 y.
Proof. induction u as [|c u IH]; [reflexivity|]. cbn [length app brace_lazy]. exact IH. Qed.

Lemma brace_lazy_plain rep c y : Ascii.eqb c lbrace = false ->
  brace_lazy rep 0 (c :: y) = (c :: fst (brace_lazy rep 0 y), snd (brace_lazy rep 0 y)).
Proof.
  intros H. cbn [brace_lazy]. rewrite H. destruct (brace_lazy rep 0 y). reflexivity.
Qed.

Lemma brace_lazy_0_app rep w y : safe w ->
  brace_lazy rep 0 (w ++ y) = (w ++ fst (brace_lazy rep 0 y), snd (brace_lazy rep 0 y)).
Proof.
  induction 1 as [|c w Hc Hw IH].
  - cbn [app]. destruct (brace_lazy rep 0 y). reflexivity.
  - cbn [app]. rewrite brace_lazy_plain by (apply safe_neq; [exact Hc|reflexivity]).
    rewrite IH. reflexivity.
Qed.

Lemma firstn_length_app {A} (u v : list A) : firstn (length u) (u ++ v) = u.
Proof. induction u as [|c u IH]; [reflexivity|]. cbn [length app firstn]. rewrite IH. reflexivity. Qed.

Lemma brace_lazy_named rep n y : n <> [] -> safe n ->
  brace_lazy rep 0 (lbrace :: n ++ rbrace :: y) =
  (rep ++ fst (brace_lazy rep 0 y), n :: snd (brace_lazy rep 0 y)).
Proof.
  intros Hne Hn. cbn [brace_lazy]. change (Ascii.eqb lbrace lbrace) with true. cbv iota.
  rewrite (first_close_named n y Hn 0) by (destruct n; [contradiction|cbn; lia]).
  cbn [Nat.add]. rewrite firstn_length_app.
  replace (S (length n)) with (length (n ++ [rbrace])) by (rewrite app_length; cbn; lia).
  replace (n ++ rbrace :: y) with ((n ++ [rbrace]) ++ y) by (rewrite <- app_assoc; reflexivity).
  rewrite brace_lazy_skip. destruct (brace_lazy rep 0 y). reflexivity.
Qed.

Lemma brace_lazy_rend rep p : grammar p = true ->
  brace_lazy rep 0 (rend dseg3 p) = (rend (rseg rep) p, names p).
Proof.
  induction p as [|s p IH]; intros Hg; [reflexivity|].
  apply grammar_cons in Hg. rewrite !rend_cons. destruct s as [w|n|].
  - destruct Hg as [Hw Hg]. apply safe_word_safe in Hw. destruct Hw as [Hne Hs].
    cbn [dseg3 render_seg3 rseg names].
    rewrite brace_lazy_plain by reflexivity. rewrite brace_lazy_0_app by exact Hs.
    rewrite IH by exact Hg. reflexivity.
  - destruct Hg as [Hw Hg]. apply safe_word_safe in Hw. destruct Hw as [Hne Hs].
    cbn [dseg3 render_seg3 rseg names]. rewrite named3_app.
    rewrite brace_lazy_plain by reflexivity. rewrite brace_lazy_named by assumption.
    rewrite IH by exact Hg. reflexivity.
  - subst p. reflexivity.
Qed.

(* ---- the colon replacement with names (key_get2) ---- *)
Lemma take_nonslash_app n y : sfree n -> bnd y -> take_nonslash (n ++ y) = (n, y).
Proof.
  intros Hn Hy. induction Hn as [|c n Hc Hn IH].
  - destruct Hy as [->|[r ->]]; reflexivity.
  - cbn [app take_nonslash]. rewrite Hc, IH. reflexivity.
Qed.

Lemma colon_names_skip_bnd y : bnd y -> colon_names true y = colon_names false y.
Proof. intros [->|[r ->]]; reflexivity. Qed.

Lemma colon_names_true_app n y : sfree n -> colon_names true (n ++ y) = colon_names true y.
Proof.
  induction 1 as [|c n Hc Hn IH]; [reflexivity|].
  cbn [app colon_names]. rewrite Hc. exact IH.
Qed.

Lemma colon_names_plain c y : Ascii.eqb c colon = false ->
  colon_names false (c :: y) = (c :: fst (colon_names false y), snd (colon_names false y)).
Proof.
  intros H. cbn [colon_names]. rewrite H. destruct (colon_names false y). reflexivity.
Qed.

Lemma colon_names_false_app w y : safe w ->
  colon_names false (w ++ y) = (w ++ fst (colon_names false y), snd (colon_names false y)).
Proof.
  induction 1 as [|c w Hc Hw IH].
  - cbn [app]. destruct (colon_names false y). reflexivity.
  - cbn [app]. rewrite colon_names_plain by (apply safe_neq; [exact Hc|reflexivity]).
    rewrite IH. reflexivity.
Qed.

Lemma colon_names_named n y : n <> [] -> safe n -> bnd y ->
  colon_names false (colon :: n ++ y) =
  (ns_plus_cap ++ fst (colon_names false y), n :: snd (colon_names false y)).
Proof.
  intros Hne Hn Hy. cbn [colon_names]. change (Ascii.eqb colon colon) with true. cbv iota.
  rewrite take_nonslash_app by (try apply safe_sfree; assumption). cbn [fst].
  rewrite colon_names_true_app by (apply safe_sfree, Hn).
  rewrite colon_names_skip_bnd by exact Hy.
  destruct n as [|c n]; [contradiction|]. destruct (colon_names false y). reflexivity.
Qed.

Lemma colon_names_rend p : grammar p = true ->
  colon_names false (rend dseg2 p) = (rend (rseg ns_plus_cap) p, names p).
Proof.
  induction p as [|s p IH]; intros Hg; [reflexivity|].
  apply grammar_cons in Hg. rewrite !rend_cons. destruct s as [w|n|].
  - destruct Hg as [Hw Hg]. apply safe_word_safe in Hw. destruct Hw as [Hne Hs].
    cbn [dseg2 render_seg2 rseg names].
    rewrite colon_names_plain by reflexivity. rewrite colon_names_false_app by exact Hs.
    rewrite IH by exact Hg. reflexivity.
  - destruct Hg as [Hw Hg]. apply safe_word_safe in Hw. destruct Hw as [Hne Hs].
    cbn [dseg2 render_seg2 rseg names].
    rewrite colon_names_plain by reflexivity.
    change ((colon :: n) ++ rend dseg2 p) with (colon :: n ++ rend dseg2 p).
    rewrite colon_names_named by (try assumption; apply rend_bnd).
    rewrite IH by exact Hg. reflexivity.
  - subst p. reflexivity.
Qed.

(* ---- escape_lbrace is the identity after the replacement (key_get3) ---- *)
Lemma escape_lbrace_app u v : escape_lbrace (u ++ v) = escape_lbrace u ++ escape_lbrace v.
Proof.
  induction u as [|c u IH]; [reflexivity|]. cbn [app escape_lbrace].
  destruct (Ascii.eqb c lbrace); cbn [app]; rewrite IH; reflexivity.
Qed.

Lemma escape_lbrace_safe w : safe w -> escape_lbrace w = w.
Proof.
  induction 1 as [|c w Hc Hw IH]; [reflexivity|]. cbn [escape_lbrace].
  rewrite (safe_neq c lbrace Hc eq_refl), IH. reflexivity.
Qed.

Lemma escape_lbrace_rend p : grammar p = true ->
  escape_lbrace (rend (rseg ns_plus_cap_lazy) p) = rend (rseg ns_plus_cap_lazy) p.
Proof.
  induction p as [|s p IH]; intros Hg; [reflexivity|].
  apply grammar_cons in Hg. rewrite !rend_cons.
  change (slash :: rseg ns_plus_cap_lazy s ++ rend (rseg ns_plus_cap_lazy) p)
    with ([slash] ++ rseg ns_plus_cap_lazy s ++ rend (rseg ns_plus_cap_lazy) p).
  rewrite !escape_lbrace_app. destruct s as [w|n|].
  - destruct Hg as [Hw Hg]. apply safe_word_safe in Hw. destruct Hw as [Hne Hs].
    cbn [rseg]. rewrite (escape_lbrace_safe w) by exact Hs. rewrite IH by exact Hg. reflexivity.
  - destruct Hg as [Hw Hg]. rewrite IH by exact Hg. reflexivity.
  - subst p. reflexivity.
Qed.

(* ---- the six pipelines on rendered grammar patterns ---- *)
Lemma rewrite_km2_render p : grammar p = true ->
  rewrite_km2 (render2 p) = anchor (rend (rseg ns_plus) p).
Proof. intros Hg. unfold rewrite_km2. rewrite slash_star_render2, mat_b_rend by exact Hg. reflexivity. Qed.

Lemma rewrite_km3_render p : grammar p = true ->
  rewrite_km3 (render3 p) = anchor (rend (rseg ns_plus) p).
Proof. intros Hg. unfold rewrite_km3. rewrite slash_star_render3, mat_p_rend by exact Hg. reflexivity. Qed.

Lemma rewrite_km5_render p : grammar p = true ->
  rewrite_km5 (render3 p) = anchor (rend (rseg ns_plus) p).
Proof. intros Hg. unfold rewrite_km5. rewrite slash_star_render3, brace_lazy_rend by exact Hg. reflexivity. Qed.

Lemma rewrite_kg2_render p : grammar p = true ->
  rewrite_kg2 (render2 p) = (anchor (rend (rseg ns_plus_cap) p), names p).
Proof. intros Hg. unfold rewrite_kg2. rewrite slash_star_render2, colon_names_rend by exact Hg. reflexivity. Qed.

Lemma rewrite_kg3_render p : grammar p = true ->
  rewrite_kg3 (render3 p) = (anchor (rend (rseg ns_plus_cap_lazy) p), names p).
Proof.
  intros Hg. unfold rewrite_kg3. rewrite slash_star_render3, brace_lazy_rend by exact Hg.
  rewrite escape_lbrace_rend by exact Hg. reflexivity.
Qed.

Lemma rewrite_km4_render p : grammar p = true ->
  rewrite_km4 (render3 p) = (anchor (rend (rseg ns_plus_cap) p), names p).
Proof. intros Hg. unfold rewrite_km4. rewrite slash_star_render3, brace_lazy_rend by exact Hg. reflexivity. Qed.

(* ================================================================== *)
(* C. reading the rewritten text back as a regular expression          *)

Lemma parse_regex_anchor body :
  parse_regex (anchor body) = parse_atoms (S (length (body ++ ["$"%char]))) body.
Proof.
  unfold anchor, parse_regex. change (Ascii.eqb "^"%char "^"%char) with true. cbv iota.
  rewrite rev_app_distr. cbn [rev app]. change (Ascii.eqb "$"%char "$"%char) with true. cbv iota.
  rewrite rev_involutive. reflexivity.
Qed.

Lemma parse_plain c s f : is_plain c = true -> 1 <= f ->
  parse_atoms (S f) (c :: s) = option_map (cons (AByte c)) (parse_atoms f s).
Proof.
  intros H Hf. destruct f as [|f]; [lia|].
  assert (H1 : Ascii.eqb "("%char c = false) by (apply eqb_sym_false, plain_neq; [exact H|reflexivity]).
  assert (H2 : Ascii.eqb "["%char c = false) by (apply eqb_sym_false, plain_neq; [exact H|reflexivity]).
  assert (H3 : Ascii.eqb c "."%char = false) by (apply plain_neq; [exact H|reflexivity]).
  assert (H4 : Ascii.eqb c "\"%char = false) by (apply plain_neq; [exact H|reflexivity]).
  change (parse_atoms (S (S f)) (c :: s)) with
    (match (if Ascii.eqb "("%char c then strip_prefix (tl ns_plus_cap_lazy) s else None) with
     | Some r => option_map (cons (ASeg true true)) (parse_atoms (S f) r)
     | None =>
       match (if Ascii.eqb "("%char c then strip_prefix (tl ns_plus_cap) s else None) with
       | Some r => option_map (cons (ASeg true false)) (parse_atoms (S f) r)
       | None =>
         match (if Ascii.eqb "["%char c then strip_prefix (tl ns_plus) s else None) with
         | Some r => option_map (cons (ASeg false false)) (parse_atoms (S f) r)
         | None =>
           match s with
           | d :: r =>
             if Ascii.eqb c "."%char && Ascii.eqb d star then option_map (cons AAny) (parse_atoms (S f) r)
             else if Ascii.eqb c "\"%char && Ascii.eqb d lbrace
                  then option_map (cons (AByte lbrace)) (parse_atoms (S f) r)
             else if is_plain c then option_map (cons (AByte c)) (parse_atoms (S f) (d :: r))
             else None
           | [] => if is_plain c then Some [AByte c] else None
           end
         end
       end
     end).
  rewrite H1, H2. destruct s as [|d r]; rewrite ?H3, ?H4, H; reflexivity.
Qed.

Definition plainw (w : text) : Prop := Forall (fun c => is_plain c = true) w.

Lemma safe_plainw w : safe w -> plainw w.
Proof. apply Forall_impl. exact safe_plain. Qed.

Lemma parse_word w : plainw w -> forall y f, length (w ++ y) < f ->
  parse_atoms f (w ++ y) = option_map (app (map AByte w)) (parse_atoms (f - length w) y).
Proof.
  induction 1 as [|c w Hc Hw IH]; intros y f Hf.
  - cbn [app map length]. rewrite Nat.sub_0_r. destruct (parse_atoms f y); reflexivity.
  - cbn [app length] in *. destruct f as [|f]; [lia|].
    rewrite parse_plain by (try exact Hc; lia). rewrite IH by lia.
    cbn [Nat.sub map]. destruct (parse_atoms (f - length w) y); reflexivity.
Qed.

(* the three replacement texts read back as the three segment atoms *)
Definition rep_reads (rep : text) (cap lz : bool) : Prop :=
  1 <= length rep /\
  forall f r, parse_atoms (S f) (rep ++ r) = option_map (cons (ASeg cap lz)) (parse_atoms f r).

Lemma rep_reads_plain : rep_reads ns_plus false false.
Proof. split; [cbn; lia|]. intros f r. reflexivity. Qed.
Lemma rep_reads_cap : rep_reads ns_plus_cap true false.
Proof. split; [cbn; lia|]. intros f r. reflexivity. Qed.
Lemma rep_reads_lazy : rep_reads ns_plus_cap_lazy true true.
Proof. split; [cbn; lia|]. intros f r. reflexivity. Qed.

Lemma compile_cons cap lz s p : compile cap lz (s :: p) = compile_seg cap lz s ++ compile cap lz p.
Proof. reflexivity. Qed.

Lemma parse_rend rep cap lz : rep_reads rep cap lz -> forall p f, grammar p = true ->
  length (rend (rseg rep) p) < f ->
  parse_atoms f (rend (rseg rep) p) = Some (compile cap lz p).
Proof.
  intros [Hlen Hrep]. induction p as [|s p IH]; intros f Hg Hf.
  - destruct f as [|f]; [cbn in Hf; lia|]. reflexivity.
  - apply grammar_cons in Hg. rewrite rend_cons in *. rewrite compile_cons.
    destruct s as [w|n|].
    + destruct Hg as [Hw Hg]. apply safe_word_safe in Hw. destruct Hw as [Hne Hs].
      cbn [rseg compile_seg] in *.
      change (slash :: w ++ rend (rseg rep) p) with ((slash :: w) ++ rend (rseg rep) p) in *.
      rewrite parse_word; [| constructor; [reflexivity|apply safe_plainw, Hs] | exact Hf].
      rewrite app_length in Hf.
      rewrite IH by (try exact Hg; lia). reflexivity.
    + destruct Hg as [Hw Hg]. cbn [rseg compile_seg] in *.
      cbn [length] in Hf. rewrite app_length in Hf.
      destruct f as [|[|f]]; [lia|lia|].
      rewrite parse_plain by (try reflexivity; lia). rewrite Hrep.
      rewrite IH by (try exact Hg; lia). reflexivity.
    + subst p. cbn in Hf. do 4 (destruct f as [|f]; [lia|]). reflexivity.
Qed.

Lemma parse_regex_rend rep cap lz p : rep_reads rep cap lz -> grammar p = true ->
  parse_regex (anchor (rend (rseg rep) p)) = Some (compile cap lz p).
Proof.
  intros Hr Hg. rewrite parse_regex_anchor. apply (parse_rend rep cap lz Hr); [exact Hg|].
  rewrite app_length. cbn. lia.
Qed.

(* (2) of the task: what each pipeline produces reads back as `compile` *)
Theorem parse_km2 p : grammar p = true ->
  parse_regex (rewrite_km2 (render2 p)) = Some (compile false false p).
Proof. intros Hg. rewrite rewrite_km2_render by exact Hg. apply parse_regex_rend; [apply rep_reads_plain|exact Hg]. Qed.

Theorem parse_km3 p : grammar p = true ->
  parse_regex (rewrite_km3 (render3 p)) = Some (compile false false p).
Proof. intros Hg. rewrite rewrite_km3_render by exact Hg. apply parse_regex_rend; [apply rep_reads_plain|exact Hg]. Qed.

Theorem parse_km5 p : grammar p = true ->
  parse_regex (rewrite_km5 (render3 p)) = Some (compile false false p).
Proof. intros Hg. rewrite rewrite_km5_render by exact Hg. apply parse_regex_rend; [apply rep_reads_plain|exact Hg]. Qed.

Theorem parse_kg2 p : grammar p = true ->
  parse_regex (fst (rewrite_kg2 (render2 p))) = Some (compile true false p) /\
  snd (rewrite_kg2 (render2 p)) = names p.
Proof.
  intros Hg. rewrite rewrite_kg2_render by exact Hg. cbn [fst snd]. split; [|reflexivity].
  apply parse_regex_rend; [apply rep_reads_cap|exact Hg].
Qed.

Theorem parse_kg3 p : grammar p = true ->
  parse_regex (fst (rewrite_kg3 (render3 p))) = Some (compile true true p) /\
  snd (rewrite_kg3 (render3 p)) = names p.
Proof.
  intros Hg. rewrite rewrite_kg3_render by exact Hg. cbn [fst snd]. split; [|reflexivity].
  apply parse_regex_rend; [apply rep_reads_lazy|exact Hg].
Qed.

Theorem parse_km4 p : grammar p = true ->
  parse_regex (fst (rewrite_km4 (render3 p))) = Some (compile true false p) /\
  snd (rewrite_km4 (render3 p)) = names p.
Proof.
  intros Hg. rewrite rewrite_km4_render by exact Hg. cbn [fst snd]. split; [|reflexivity].
  apply parse_regex_rend; [apply rep_reads_cap|exact Hg].
Qed.

(* ================================================================== *)
(* D. matching: amatch (compile p) = the segment-wise specification     *)

(* the two inner loops of amatch as named functions *)
Section SegGo.
  Variables (cap lz : bool) (cont : text -> option (list text)).
  Definition seg_fin (acc rest : text) : option (list text) :=
    match cont rest with
    | Some cs => Some (if cap then rev acc :: cs else cs)
    | None => None
    end.
  Fixpoint seg_go (acc k : text) : option (list text) :=
    match k with
    | c :: k' =>
      if Ascii.eqb c slash then (match acc with [] => None | _ => seg_fin acc k end)
      else
        let acc' := c :: acc in
        if lz then
          match (match acc with [] => None | _ => seg_fin acc k end) with
          | Some r => Some r
          | None => seg_go acc' k'
          end
        else
          match seg_go acc' k' with
          | Some r => Some r
          | None => match acc with [] => None | _ => seg_fin acc k end
          end
    | [] => match acc with [] => None | _ => seg_fin acc [] end
    end.
  Fixpoint any_go (k : text) : option (list text) :=
    match k with
    | c :: k' =>
      if Ascii.eqb c lf then cont k
      else match any_go k' with
           | Some r => Some r
           | None => cont k
           end
    | [] => cont []
    end.
End SegGo.

Lemma amatch_nil k : amatch [] k = match k with [] => Some [] | _ => None end.
Proof. reflexivity. Qed.
Lemma amatch_byte b q k : amatch (AByte b :: q) k =
  match k with c :: k' => if Ascii.eqb b c then amatch q k' else None | [] => None end.
Proof. reflexivity. Qed.
Lemma amatch_seg cap lz q k : amatch (ASeg cap lz :: q) k = seg_go cap lz (amatch q) [] k.
Proof. reflexivity. Qed.
Lemma amatch_any q k : amatch (AAny :: q) k = any_go (amatch q) k.
Proof. reflexivity. Qed.

(* a continuation that cannot start inside a segment: it needs '/' or the end *)
Definition qhead (cont : text -> option (list text)) : Prop :=
  forall c k, Ascii.eqb c slash = false -> cont (c :: k) = None.

Lemma qhead_compile cap lz p : qhead (amatch (compile cap lz p)).
Proof.
  intros c k Hc. destruct p as [|s p]; [reflexivity|].
  rewrite compile_cons. destruct s as [w|n|]; cbn [compile_seg app];
    rewrite amatch_byte, Ascii.eqb_sym, Hc; reflexivity.
Qed.

(* what the pair (result, captures) of a segment looks like *)
Definition seg_res (cap : bool) (cont : text -> option (list text)) (a rest : text) :=
  match a with
  | [] => None
  | _ => match cont rest with
         | Some cs => Some (if cap then a :: cs else cs)
         | None => None
         end
  end.

Lemma rev_nil_iff {A} (l : list A) : rev l = [] -> l = [].
Proof. destruct l as [|x l]; [reflexivity|]. cbn. intros H. destruct (rev l); discriminate. Qed.

Lemma seg_fin_res cap cont acc rest :
  (match acc with [] => None | _ => seg_fin cap cont acc rest end) = seg_res cap cont (rev acc) rest.
Proof.
  unfold seg_res, seg_fin. destruct acc as [|x acc]; [reflexivity|].
  destruct (rev (x :: acc)) eqn:E; [apply rev_nil_iff in E; discriminate|]. reflexivity.
Qed.

(* [^/]+ (greedy or lazy, capturing or not), followed by something that needs
   '/' or the end, consumes exactly the non-empty slash-free segment *)
Lemma seg_go_spec cap lz cont : qhead cont -> forall a b, sfree a -> bnd b -> forall acc,
  seg_go cap lz cont acc (a ++ b) = seg_res cap cont (rev acc ++ a) b.
Proof.
  intros Hq a b Ha Hb. induction Ha as [|c a Hc Ha IH]; intros acc.
  - rewrite app_nil_r. cbn [app]. destruct Hb as [->|[r ->]]; cbn [seg_go].
    + apply seg_fin_res.
    + change (Ascii.eqb slash slash) with true. cbv iota. apply seg_fin_res.
  - cbn [app seg_go]. rewrite Hc. cbv zeta.
    assert (Hnone : (match acc with [] => None | _ => seg_fin cap cont acc (c :: a ++ b) end) = None).
    { destruct acc as [|x acc]; [reflexivity|]. unfold seg_fin. rewrite (Hq c _ Hc). reflexivity. }
    rewrite Hnone. rewrite IH. cbn [rev]. rewrite <- app_assoc. cbn [app].
    destruct lz; [reflexivity|]. destruct (seg_res cap cont (rev acc ++ c :: a) b); reflexivity.
Qed.

Lemma amatch_seg_spec cap lz q a b : qhead (amatch q) -> sfree a -> bnd b ->
  amatch (ASeg cap lz :: q) (a ++ b) = seg_res cap (amatch q) a b.
Proof. intros Hq Ha Hb. rewrite amatch_seg. rewrite seg_go_spec by assumption. reflexivity. Qed.

(* literal bytes *)
Lemma amatch_bytes w q : qhead (amatch q) -> sfree w -> forall a b, sfree a -> bnd b ->
  amatch (map AByte w ++ q) (a ++ b) = if teqb w a then amatch q b else None.
Proof.
  intros Hq Hw. induction Hw as [|x w Hx Hw IH]; intros a b Ha Hb.
  - cbn [map app]. destruct a as [|c a]; [reflexivity|].
    inversion Ha; subst. cbn [app teqb]. apply Hq. assumption.
  - cbn [map app]. rewrite amatch_byte. destruct a as [|c a].
    + cbn [app teqb]. destruct Hb as [->|[r ->]]; [reflexivity|]. rewrite Hx. reflexivity.
    + inversion Ha; subst. cbn [app teqb]. destruct (Ascii.eqb x c); [|reflexivity].
      cbn [andb]. apply IH; assumption.
Qed.

(* .* at the end of the pattern *)
Lemma any_go_end k : any_go (amatch []) k = if no_lf k then Some [] else None.
Proof.
  unfold no_lf, memb. induction k as [|c k IH]; [reflexivity|].
  cbn [any_go existsb]. rewrite (Ascii.eqb_sym lf c). destruct (Ascii.eqb c lf); [reflexivity|].
  cbn [orb]. rewrite IH. destruct (existsb (Ascii.eqb lf) k); reflexivity.
Qed.

(* ---- keys as segments ---- *)
Definition ksegs (k : text) : list text :=
  match k with
  | [] => []
  | _ :: r => split_slash r []
  end.

Lemma span_slash (r : text) : exists a b, r = a ++ b /\ sfree a /\ bnd b.
Proof.
  induction r as [|c r (a & b & E & Ha & Hb)].
  - exists [], []. repeat split; [constructor|apply bnd_nil].
  - destruct (Ascii.eqb c slash) eqn:Hc.
    + apply Ascii.eqb_eq in Hc. subst c. exists [], (slash :: r).
      repeat split; [constructor|apply bnd_slash].
    + exists (c :: a), b. subst r. repeat split; [constructor; assumption|exact Hb].
Qed.

Lemma split_slash_app a b : sfree a -> bnd b -> forall cur,
  split_slash (a ++ b) cur = (rev cur ++ a) :: ksegs b.
Proof.
  intros Ha Hb. induction Ha as [|c a Hc Ha IH]; intros cur.
  - rewrite app_nil_r. cbn [app]. destruct Hb as [->|[r ->]]; reflexivity.
  - cbn [app split_slash]. rewrite Hc, IH. cbn [rev]. rewrite <- app_assoc. reflexivity.
Qed.

Lemma no_lf_app u v : no_lf (u ++ v) = no_lf u && no_lf v.
Proof. unfold no_lf, memb. rewrite existsb_app, negb_orb. reflexivity. Qed.

Lemma forallb_no_lf_split r : forall cur,
  forallb no_lf (split_slash r cur) = no_lf (rev cur) && no_lf r.
Proof.
  induction r as [|c r IH]; intros cur.
  - cbn [split_slash forallb]. reflexivity.
  - cbn [split_slash]. destruct (Ascii.eqb c slash) eqn:Hc.
    + apply Ascii.eqb_eq in Hc. subst c. cbn [forallb]. rewrite IH. reflexivity.
    + rewrite IH. cbn [rev]. rewrite no_lf_app.
      change (c :: r) with ([c] ++ r). rewrite (no_lf_app [c] r). symmetry. apply andb_assoc.
Qed.

(* ---- unfolding equations of the specification ---- *)
Lemma spec_match_nil ks : spec_match [] ks = match ks with [] => Some [] | _ => None end.
Proof. destruct ks; reflexivity. Qed.
Lemma spec_match_star rest : spec_match [SStar] rest =
  match rest with [] => None | _ => if forallb no_lf rest then Some [] else None end.
Proof. destruct rest; reflexivity. Qed.
Lemma spec_match_lit w p ks : spec_match (SLit w :: p) ks =
  match ks with k :: ks' => if teqb w k then spec_match p ks' else None | [] => None end.
Proof. destruct ks; reflexivity. Qed.
Lemma spec_match_named n p ks : spec_match (SNamed n :: p) ks =
  match ks with
  | k :: ks' => match k with
                | [] => None
                | _ => match spec_match p ks' with Some b => Some ((n, k) :: b) | None => None end
                end
  | [] => None
  end.
Proof. destruct ks; reflexivity. Qed.

Definition caps_of (cap : bool) (b : list (text * text)) : list text :=
  if cap then map snd b else [].

(* the core: at a segment boundary, the compiled pattern and the specification agree,
   on the decision and on the captures *)
Theorem amatch_compile_bnd cap lz : forall p k, grammar p = true -> bnd k ->
  amatch (compile cap lz p) k = option_map (caps_of cap) (spec_match p (ksegs k)).
Proof.
  induction p as [|s p IH]; intros k Hg Hk.
  - rewrite spec_match_nil. cbn [compile flat_map]. rewrite amatch_nil.
    destruct Hk as [->|[r ->]]; [destruct cap; reflexivity|].
    cbn [ksegs]. destruct (split_slash r []) eqn:E; [|reflexivity].
    destruct r as [|c r]; cbn [split_slash] in E; [discriminate|].
    destruct (Ascii.eqb c slash); [discriminate|].
    destruct (span_slash r) as (a & b & -> & Ha & Hb). rewrite split_slash_app in E by assumption.
    discriminate.
  - apply grammar_cons in Hg. rewrite compile_cons.
    destruct Hk as [->|[r ->]].
    { (* the key is exhausted but a segment is still required *)
      cbn [ksegs]. destruct s as [w|n|]; cbn [compile_seg app]; rewrite amatch_byte.
      - rewrite spec_match_lit. reflexivity.
      - rewrite spec_match_named. reflexivity.
      - subst p. rewrite spec_match_star. reflexivity. }
    cbn [ksegs]. destruct s as [w|n|].
    + destruct Hg as [Hw Hg]. apply safe_word_safe in Hw. destruct Hw as [Hne Hs].
      cbn [compile_seg app]. rewrite amatch_byte. change (Ascii.eqb slash slash) with true. cbv iota.
      destruct (span_slash r) as (a & b & -> & Ha & Hb).
      rewrite amatch_bytes by (try assumption; try apply qhead_compile; apply safe_sfree, Hs).
      rewrite split_slash_app by assumption. cbn [rev app]. rewrite spec_match_lit.
      destruct (teqb w a); [|reflexivity]. apply IH; assumption.
    + destruct Hg as [Hw Hg].
      cbn [compile_seg app]. rewrite amatch_byte. change (Ascii.eqb slash slash) with true. cbv iota.
      destruct (span_slash r) as (a & b & -> & Ha & Hb).
      rewrite amatch_seg_spec by (try assumption; apply qhead_compile).
      rewrite split_slash_app by assumption. cbn [rev app]. rewrite spec_match_named.
      unfold seg_res. destruct a as [|c a]; [reflexivity|].
      rewrite IH by assumption. destruct (spec_match p (ksegs b)) as [bs|]; [|reflexivity].
      cbn [option_map]. unfold caps_of. destruct cap; reflexivity.
    + subst p. cbn [compile_seg compile flat_map app].
      rewrite amatch_byte. change (Ascii.eqb slash slash) with true. cbv iota.
      rewrite amatch_any, any_go_end. rewrite spec_match_star.
      destruct (split_slash r []) eqn:E.
      { exfalso. destruct (span_slash r) as (a & b & -> & Ha & Hb).
        rewrite split_slash_app in E by assumption. discriminate. }
      rewrite <- E. rewrite forallb_no_lf_split. cbn [rev].
      change (no_lf []) with true. cbn [andb]. destruct (no_lf r); destruct cap; reflexivity.
Qed.

(* for EVERY key (also the empty one and those not starting with '/') *)
Theorem amatch_compile cap lz p k : grammar p = true -> p <> [] ->
  amatch (compile cap lz p) k =
  option_map (caps_of cap)
             (match key_segments k with Some ks => spec_match p ks | None => None end).
Proof.
  intros Hg Hne. destruct k as [|c r].
  - rewrite (amatch_compile_bnd cap lz p [] Hg bnd_nil). cbn [ksegs key_segments].
    destruct p as [|s p]; [contradiction|].
    destruct s; [rewrite spec_match_lit|rewrite spec_match_named|]; try reflexivity.
    apply grammar_cons in Hg. subst p. reflexivity.
  - cbn [key_segments]. destruct (Ascii.eqb c slash) eqn:Hc.
    + apply Ascii.eqb_eq in Hc. subst c.
      apply (amatch_compile_bnd cap lz p (slash :: r) Hg (bnd_slash r)).
    + rewrite (qhead_compile cap lz p c r Hc). reflexivity.
Qed.

(* ================================================================== *)
(* E. the exported functions on grammar patterns                        *)

Lemma is_some_map {A B} (f : A -> B) o : is_some (option_map f o) = is_some o.
Proof. destruct o; reflexivity. Qed.

Lemma is_some_amatch cap lz p k : grammar p = true ->
  is_some (amatch (compile cap lz p) k) = spec_km p k.
Proof.
  intros Hg. destruct p as [|s p].
  - destruct k; reflexivity.
  - rewrite amatch_compile by (try exact Hg; discriminate). rewrite is_some_map.
    unfold spec_km. destruct (key_segments k); reflexivity.
Qed.

Theorem km2_spec k p : grammar p = true -> key_match2 k (render2 p) = Some (spec_km p k).
Proof.
  intros Hg. unfold key_match2. rewrite parse_km2 by exact Hg. cbn [option_map].
  rewrite is_some_amatch by exact Hg. reflexivity.
Qed.

Theorem km3_spec k p : grammar p = true -> key_match3 k (render3 p) = Some (spec_km p k).
Proof.
  intros Hg. unfold key_match3. rewrite parse_km3 by exact Hg. cbn [option_map].
  rewrite is_some_amatch by exact Hg. reflexivity.
Qed.

Theorem km5_spec k p : grammar p = true -> key_match5 k (render3 p) = Some (spec_km5 p k).
Proof.
  intros Hg. unfold key_match5. rewrite parse_km5 by exact Hg. cbn [option_map].
  rewrite is_some_amatch by exact Hg. reflexivity.
Qed.

(* names and captures are the two projections of the bindings *)
Lemma spec_match_names : forall p ks b, spec_match p ks = Some b -> map fst b = names p.
Proof.
  induction p as [|s p IH]; intros ks b H.
  - rewrite spec_match_nil in H. destruct ks; inversion H. reflexivity.
  - destruct s as [w|n|].
    + rewrite spec_match_lit in H. destruct ks as [|k ks]; [discriminate|].
      destruct (teqb w k); [|discriminate]. cbn [names]. eapply IH, H.
    + rewrite spec_match_named in H. destruct ks as [|k ks]; [discriminate|].
      destruct k as [|c k]; [discriminate|].
      destruct (spec_match p ks) as [b'|] eqn:E; [|discriminate]. inversion H; subst.
      cbn [map fst names]. f_equal. eapply IH, E.
    + destruct p as [|s' p'].
      * rewrite spec_match_star in H. destruct ks; [discriminate|].
        destruct (forallb no_lf _); inversion H. reflexivity.
      * destruct ks; discriminate.
Qed.

(* first binding of v: the same on (names, captures) and on the association list;
   no restriction on repeated names *)
Lemma cap_for_assoc v : forall b,
  cap_for v (map fst b) (map snd b) = match assoc v b with Some t => t | None => [] end.
Proof.
  induction b as [|[n t] b IH]; [reflexivity|].
  cbn [map fst snd cap_for assoc]. destruct (teqb v n); [reflexivity|exact IH].
Qed.

Lemma consistent_bindings : forall b seen,
  consistent (map fst b) (map snd b) seen = bindings_consistent b seen.
Proof.
  induction b as [|[n t] b IH]; intros seen; [reflexivity|].
  cbn [map fst snd consistent bindings_consistent].
  destruct (assoc n seen); rewrite IH; reflexivity.
Qed.

(* the captures of a successful match are the texts bound to the named
   segments, in order; greedy and lazy groups coincide *)
Theorem amatch_captures lz p k : grammar p = true -> p <> [] ->
  amatch (compile true lz p) k =
  match key_segments k with
  | Some ks => option_map (map snd) (spec_match p ks)
  | None => None
  end.
Proof.
  intros Hg Hne. rewrite amatch_compile by assumption.
  destruct (key_segments k); reflexivity.
Qed.

Lemma get_from_amatch lz p k v : grammar p = true ->
  match amatch (compile true lz p) k with
  | Some caps => cap_for v (names p) caps
  | None => []
  end = spec_get p k v.
Proof.
  intros Hg. unfold spec_get. destruct p as [|s p].
  - cbn [compile flat_map names]. rewrite amatch_nil.
    destruct k as [|c r]; [reflexivity|]. cbn [key_segments].
    destruct (Ascii.eqb c slash); [|reflexivity]. rewrite spec_match_nil.
    destruct (split_slash r []); reflexivity.
  - rewrite amatch_compile by (try exact Hg; discriminate).
    destruct (key_segments k) as [ks|]; [|reflexivity].
    destruct (spec_match (s :: p) ks) as [b|] eqn:E; [|reflexivity].
    cbn [option_map caps_of]. rewrite <- (spec_match_names _ _ _ E). apply cap_for_assoc.
Qed.

Theorem kg2_spec k p v : grammar p = true -> key_get2 k (render2 p) v = Some (spec_get p k v).
Proof.
  intros Hg. unfold key_get2. rewrite rewrite_kg2_render by exact Hg.
  rewrite (parse_regex_rend _ true false p rep_reads_cap Hg). cbn [option_map].
  rewrite get_from_amatch by exact Hg. reflexivity.
Qed.

Theorem kg3_spec k p v : grammar p = true -> key_get3 k (render3 p) v = Some (spec_get p k v).
Proof.
  intros Hg. unfold key_get3. rewrite rewrite_kg3_render by exact Hg.
  rewrite (parse_regex_rend _ true true p rep_reads_lazy Hg). cbn [option_map].
  rewrite get_from_amatch by exact Hg. reflexivity.
Qed.

Theorem km4_spec k p : grammar p = true -> key_match4 k (render3 p) = Some (spec_km4 p k).
Proof.
  intros Hg. unfold key_match4. rewrite rewrite_km4_render by exact Hg.
  rewrite (parse_regex_rend _ true false p rep_reads_cap Hg).
  unfold spec_km4. destruct p as [|s p].
  - cbn [compile flat_map names]. rewrite amatch_nil. destruct k; reflexivity.
  - rewrite amatch_compile by (try exact Hg; discriminate).
    destruct (key_segments k) as [ks|]; [|reflexivity].
    destruct (spec_match (s :: p) ks) as [b|] eqn:E; [|reflexivity].
    cbn [option_map caps_of]. rewrite <- (spec_match_names _ _ _ E).
    (* as many tokens as captures: the source's count check passes on the grammar *)
    rewrite !map_length, Nat.eqb_refl. f_equal. apply consistent_bindings.
Qed.

(* the empty pattern text *)
Lemma rewrite_km2_empty : rewrite_km2 [] = T "^$".
Proof. reflexivity. Qed.
Lemma km2_empty k : key_match2 k [] = Some (teqb k []).
Proof. destruct k; reflexivity. Qed.
Lemma km3_empty k : key_match3 k [] = Some (teqb k []).
Proof. destruct k; reflexivity. Qed.

(* the executable predicate holds of the model's own observations *)
Theorem c15_pred_model f p k : c15_pred f p k (c15_observe f p k) = true.
Proof.
  unfold c15_pred. destruct (grammar p) eqn:Hg; [|reflexivity].
  destruct f as [| | | |v|v]; cbn [c15_observe].
  - rewrite km2_spec by exact Hg. apply eqb_reflx.
  - rewrite km3_spec by exact Hg. apply eqb_reflx.
  - rewrite km4_spec by exact Hg. apply eqb_reflx.
  - rewrite km5_spec by exact Hg. apply eqb_reflx.
  - rewrite kg2_spec by exact Hg. apply teqb_refl.
  - rewrite kg3_spec by exact Hg. apply teqb_refl.
Qed.

(* ================================================================== *)
(* F. key_match / key_get: prefix before the first '*'  (all texts)     *)

Lemma before_star_spec p :
  let (pre, f) := before_star p in
  if f then exists rest, p = pre ++ star :: rest /\ ~ In star pre
  else pre = p /\ ~ In star p.
Proof.
  induction p as [|c p IH]; cbn [before_star].
  - split; [reflexivity|intros []].
  - destruct (Ascii.eqb c star) eqn:Hc.
    + apply Ascii.eqb_eq in Hc. subst c. exists p. split; [reflexivity|intros []].
    + apply Ascii.eqb_neq in Hc. destruct (before_star p) as [pre f]. destruct f.
      * destruct IH as (rest & -> & Hn). exists rest. split; [reflexivity|].
        intros [E|E]; [apply Hc; exact E|exact (Hn E)].
      * destruct IH as (-> & Hn). split; [reflexivity|].
        intros [E|E]; [apply Hc; exact E|exact (Hn E)].
Qed.

Lemma before_star_found pre rest : ~ In star pre -> before_star (pre ++ star :: rest) = (pre, true).
Proof.
  induction pre as [|c pre IH]; intros Hn; cbn [app before_star].
  - change (Ascii.eqb star star) with true. reflexivity.
  - assert (Hc : Ascii.eqb c star = false).
    { apply Ascii.eqb_neq. intros E. apply Hn. left. exact E. }
    rewrite Hc, IH; [reflexivity|]. intros E. apply Hn. right. exact E.
Qed.

Lemma before_star_none p : ~ In star p -> before_star p = (p, false).
Proof.
  induction p as [|c p IH]; intros Hn; cbn [before_star]; [reflexivity|].
  assert (Hc : Ascii.eqb c star = false).
  { apply Ascii.eqb_neq. intros E. apply Hn. left. exact E. }
  rewrite Hc, IH; [reflexivity|]. intros E. apply Hn. right. exact E.
Qed.

Lemma strip_prefix_spec pre : forall k t, strip_prefix pre k = Some t <-> k = pre ++ t.
Proof.
  induction pre as [|c pre IH]; intros k t; cbn [strip_prefix app].
  - split; [intros H; inversion H; reflexivity|intros ->; reflexivity].
  - destruct k as [|d k]; [split; discriminate|].
    destruct (Ascii.eqb c d) eqn:E.
    + apply Ascii.eqb_eq in E. subst d. rewrite IH. split; [intros ->; reflexivity|].
      intros H. inversion H. reflexivity.
    + apply Ascii.eqb_neq in E. split; [discriminate|]. intros H. inversion H. congruence.
Qed.

Lemma is_prefix_strip pre : forall k, is_prefix pre k = is_some (strip_prefix pre k).
Proof.
  induction pre as [|c pre IH]; intros k; cbn [is_prefix strip_prefix]; [reflexivity|].
  destruct k as [|d k]; [reflexivity|]. destruct (Ascii.eqb c d); [apply IH|reflexivity].
Qed.

Lemma is_prefix_spec pre k : is_prefix pre k = true <-> exists t, k = pre ++ t.
Proof.
  rewrite is_prefix_strip. split.
  - destruct (strip_prefix pre k) as [t|] eqn:E; [|discriminate]. intros _.
    exists t. apply strip_prefix_spec, E.
  - intros [t Ht]. apply strip_prefix_spec in Ht. rewrite Ht. reflexivity.
Qed.

Theorem key_match_def k p :
  key_match k p = (let (pre, found) := before_star p in
                   if found then is_prefix pre k else teqb k p).
Proof. reflexivity. Qed.

Theorem key_match_char k p :
  key_match k p = true <->
  (exists pre rest, p = pre ++ star :: rest /\ ~ In star pre /\ exists t, k = pre ++ t)
  \/ (~ In star p /\ k = p).
Proof.
  unfold key_match. split.
  - pose proof (before_star_spec p) as Hs. destruct (before_star p) as [pre f]. destruct f.
    + destruct Hs as (rest & -> & Hn). intros H. left. exists pre, rest.
      split; [reflexivity|]. split; [exact Hn|]. apply is_prefix_spec, H.
    + destruct Hs as (-> & Hn). intros H. right. split; [exact Hn|]. apply teqb_eq, H.
  - intros [(pre & rest & -> & Hn & Ht)|(Hn & ->)].
    + rewrite before_star_found by exact Hn. apply is_prefix_spec, Ht.
    + rewrite before_star_none by exact Hn. apply teqb_refl.
Qed.

(* key_get returns what follows the prefix ... *)
Theorem key_get_match k pre rest t : ~ In star pre -> k = pre ++ t ->
  key_get k (pre ++ star :: rest) = t.
Proof.
  intros Hn Hk. unfold key_get. rewrite before_star_found by exact Hn.
  apply strip_prefix_spec in Hk. rewrite Hk. destruct t; reflexivity.
Qed.
(* ... the empty text when the key does not start with the prefix ... *)
Theorem key_get_nomatch k pre rest : ~ In star pre -> (forall t, k <> pre ++ t) ->
  key_get k (pre ++ star :: rest) = [].
Proof.
  intros Hn Hk. unfold key_get. rewrite before_star_found by exact Hn.
  destruct (strip_prefix pre k) as [t|] eqn:E; [|reflexivity].
  apply strip_prefix_spec in E. exfalso. exact (Hk t E).
Qed.
(* ... and when the pattern has no '*' *)
Theorem key_get_nostar k p : ~ In star p -> key_get k p = [].
Proof. intros Hn. unfold key_get. rewrite before_star_none by exact Hn. reflexivity. Qed.

Theorem key_get_char k p t : t <> [] ->
  (key_get k p = t <->
   exists pre rest, p = pre ++ star :: rest /\ ~ In star pre /\ k = pre ++ t).
Proof.
  intros Hne. split.
  - intros H. pose proof (before_star_spec p) as Hs. unfold key_get in H.
    destruct (before_star p) as [pre f]. destruct f; [|congruence].
    destruct Hs as (rest & -> & Hn). exists pre, rest. split; [reflexivity|]. split; [exact Hn|].
    destruct (strip_prefix pre k) as [[|c u]|] eqn:E; try congruence.
    apply strip_prefix_spec in E. congruence.
  - intros (pre & rest & -> & Hn & Hk). apply key_get_match; assumption.
Qed.

Lemma skipn_length_app {A} (u v : list A) : skipn (length u) (u ++ v) = v.
Proof. induction u as [|c u IH]; [reflexivity|]. cbn [length app skipn]. exact IH. Qed.

Theorem key_get_spec_kg k p : key_get k p = spec_kg k p.
Proof.
  unfold key_get, spec_kg. destruct (before_star p) as [pre f]. destruct f; [|reflexivity].
  cbn [andb]. rewrite is_prefix_strip.
  destruct (strip_prefix pre k) as [t|] eqn:E; [|reflexivity].
  apply strip_prefix_spec in E. subst k. cbn [is_some andb].
  rewrite skipn_length_app, app_length. destruct t as [|c t].
  - replace (length pre <? length pre + length (@nil ascii)) with false; [reflexivity|].
    symmetry. apply Nat.ltb_ge. cbn. lia.
  - replace (length pre <? length pre + length (c :: t)) with true; [reflexivity|].
    symmetry. apply Nat.ltb_lt. cbn. lia.
Qed.

Theorem key_get_implies_match k p : key_get k p <> [] -> key_match k p = true.
Proof.
  unfold key_get, key_match. destruct (before_star p) as [pre f]. destruct f; [|congruence].
  rewrite is_prefix_strip. destruct (strip_prefix pre k); [reflexivity|congruence].
Qed.

Theorem c15_pred_text_model k p : c15_pred_text k p (key_match k p) (key_get k p) = true.
Proof.
  unfold c15_pred_text. rewrite key_get_spec_kg, teqb_refl, key_match_def.
  destruct (before_star p) as [pre f]. rewrite eqb_reflx. reflexivity.
Qed.

(* ================================================================== *)
(* G. what the specification means                                      *)

(* `segs_match p ks b`: the key segments ks match the pattern segments p with
   bindings b.  A literal equals its segment; a named segment takes one
   non-empty slash-free segment and binds it; '*' (last) takes any non-empty
   list of remaining segments (each possibly empty) free of line feeds. *)
Inductive segs_match : list seg -> list text -> list (text * text) -> Prop :=
| SM_nil : segs_match [] [] []
| SM_lit w p ks b : segs_match p ks b -> segs_match (SLit w :: p) (w :: ks) b
| SM_named n p k ks b : k <> [] -> ~ In slash k -> segs_match p ks b ->
                        segs_match (SNamed n :: p) (k :: ks) ((n, k) :: b)
| SM_star rest : rest <> [] -> Forall (fun s => ~ In lf s) rest -> segs_match [SStar] rest [].

Lemma sfree_notin a : sfree a <-> ~ In slash a.
Proof.
  unfold sfree. rewrite Forall_forall. split.
  - intros H Hin. specialize (H slash Hin). rewrite Ascii.eqb_refl in H. discriminate.
  - intros H c Hc. destruct (Ascii.eqb_spec c slash) as [E|E]; [subst; contradiction|reflexivity].
Qed.

Lemma no_lf_notin s : no_lf s = true <-> ~ In lf s.
Proof.
  unfold no_lf. rewrite negb_true_iff. split.
  - intros H Hin. apply (memb_In_gen Ascii.eqb Ascii.eqb_eq) in Hin. congruence.
  - intros H. destruct (memb Ascii.eqb lf s) eqn:E; [|reflexivity].
    apply (memb_In_gen Ascii.eqb Ascii.eqb_eq) in E. contradiction.
Qed.

Lemma forallb_no_lf rest : forallb no_lf rest = true <-> Forall (fun s => ~ In lf s) rest.
Proof.
  rewrite forallb_forall, Forall_forall. split; intros H s Hs; apply no_lf_notin, H, Hs.
Qed.

Theorem spec_match_meaning : forall p ks b, Forall (fun s => ~ In slash s) ks ->
  (spec_match p ks = Some b <-> segs_match p ks b).
Proof.
  induction p as [|s p IH]; intros ks b Hks.
  - rewrite spec_match_nil. split.
    + destruct ks; [|discriminate]. intros H. inversion H. constructor.
    + intros H. inversion H. reflexivity.
  - destruct s as [w|n|].
    + rewrite spec_match_lit. split.
      * destruct ks as [|k ks]; [discriminate|]. destruct (teqb w k) eqn:E; [|discriminate].
        apply teqb_eq in E. subst k. inversion Hks; subst. intros H. constructor. apply IH; assumption.
      * intros H. inversion H; subst. rewrite teqb_refl. inversion Hks; subst. apply IH; assumption.
    + rewrite spec_match_named. split.
      * destruct ks as [|k ks]; [discriminate|]. inversion Hks as [|k' ks' Hk Hks']; subst.
        destruct k as [|c k]; [discriminate|].
        destruct (spec_match p ks) as [b'|] eqn:E; [|discriminate].
        intros H. inversion H; subst. constructor; [discriminate|exact Hk|].
        apply IH; assumption.
      * intros H. inversion H as [| |n' p' k ks' b' Hne Hk Hm|]; subst.
        inversion Hks; subst. apply IH in Hm; [|assumption]. rewrite Hm.
        destruct k; [contradiction|reflexivity].
    + split.
      * destruct p as [|s' p']; [|destruct ks; discriminate].
        rewrite spec_match_star. destruct ks as [|k ks]; [discriminate|].
        destruct (forallb no_lf (k :: ks)) eqn:E; [|discriminate].
        intros H. inversion H. constructor; [discriminate|]. apply forallb_no_lf, E.
      * intros H. inversion H as [| | |rest Hne Hlf]; subst. rewrite spec_match_star.
        apply forallb_no_lf in Hlf. rewrite Hlf. destruct ks; [contradiction|reflexivity].
Qed.

(* keys and segment lists *)
Lemma intercalate_cons sep x l : l <> [] -> intercalate sep (x :: l) = x ++ sep ++ intercalate sep l.
Proof. destruct l; [contradiction|reflexivity]. Qed.

Lemma split_slash_ne r cur : split_slash r cur <> [].
Proof.
  revert cur. induction r as [|c r IH]; intros cur; cbn [split_slash]; [discriminate|].
  destruct (Ascii.eqb c slash); [discriminate|apply IH].
Qed.

Lemma intercalate_split r : forall cur, intercalate [slash] (split_slash r cur) = rev cur ++ r.
Proof.
  induction r as [|c r IH]; intros cur; cbn [split_slash].
  - cbn [intercalate]. rewrite app_nil_r. reflexivity.
  - destruct (Ascii.eqb c slash) eqn:Hc.
    + apply Ascii.eqb_eq in Hc. subst c. rewrite intercalate_cons by apply split_slash_ne.
      rewrite IH. reflexivity.
    + rewrite IH. cbn [rev]. rewrite <- app_assoc. reflexivity.
Qed.

Lemma split_slash_sfree r : forall cur, ~ In slash cur ->
  Forall (fun s => ~ In slash s) (split_slash r cur).
Proof.
  induction r as [|c r IH]; intros cur Hcur; cbn [split_slash].
  - constructor; [|constructor]. intros H. apply in_rev in H. contradiction.
  - destruct (Ascii.eqb c slash) eqn:Hc.
    + constructor; [intros H; apply in_rev in H; contradiction|]. apply IH. intros [].
    + apply IH. apply Ascii.eqb_neq in Hc. intros [E|E]; [apply Hc; exact E|contradiction].
Qed.

(* key_segments is the inverse of joining slash-free segments with '/' *)
Theorem key_segments_join ks : ks <> [] -> Forall (fun s => ~ In slash s) ks ->
  key_segments (slash :: intercalate [slash] ks) = Some ks.
Proof.
  intros Hne Hks. cbn [key_segments]. change (Ascii.eqb slash slash) with true. cbv iota. f_equal.
  induction ks as [|x ks IH]; [contradiction|]. inversion Hks as [|x' ks' Hx Hks']; subst.
  apply sfree_notin in Hx. destruct ks as [|y ks].
  - cbn [intercalate]. rewrite <- (app_nil_r x) at 1.
    rewrite split_slash_app by (try exact Hx; apply bnd_nil). reflexivity.
  - rewrite intercalate_cons by discriminate.
    change (x ++ [slash] ++ intercalate [slash] (y :: ks))
      with (x ++ slash :: intercalate [slash] (y :: ks)).
    rewrite split_slash_app by (try exact Hx; apply bnd_slash).
    cbn [rev app ksegs]. f_equal. apply IH; [discriminate|exact Hks'].
Qed.

Theorem key_segments_split k ks : key_segments k = Some ks ->
  ks <> [] /\ Forall (fun s => ~ In slash s) ks /\ k = slash :: intercalate [slash] ks.
Proof.
  destruct k as [|c r]; cbn [key_segments]; [discriminate|].
  destruct (Ascii.eqb c slash) eqn:Hc; [|discriminate].
  apply Ascii.eqb_eq in Hc. subst c. intros H. inversion H; subst. split; [apply split_slash_ne|].
  split; [apply split_slash_sfree; intros []|]. rewrite intercalate_split. reflexivity.
Qed.

Theorem spec_km_meaning p k : p <> [] ->
  (spec_km p k = true <->
   exists ks b, Forall (fun s => ~ In slash s) ks /\
                k = slash :: intercalate [slash] ks /\ segs_match p ks b).
Proof.
  intros Hp. unfold spec_km. destruct p as [|s p]; [contradiction|]. split.
  - destruct (key_segments k) as [ks|] eqn:E; [|discriminate].
    apply key_segments_split in E. destruct E as (Hne & Hks & Hk).
    destruct (spec_match (s :: p) ks) as [b|] eqn:Em; [|discriminate]. intros _.
    exists ks, b. split; [exact Hks|]. split; [exact Hk|]. apply spec_match_meaning; assumption.
  - intros (ks & b & Hks & -> & Hm).
    assert (Hne : ks <> []) by (intros ->; inversion Hm; subst; contradiction).
    rewrite key_segments_join by assumption.
    apply spec_match_meaning in Hm; [|exact Hks]. rewrite Hm. reflexivity.
Qed.

Theorem spec_km_empty k : spec_km [] k = true <-> k = [].
Proof. unfold spec_km. apply teqb_eq. Qed.

(* bindings are determined by pattern and key *)
Theorem segs_match_fun p ks b1 b2 : Forall (fun s => ~ In slash s) ks ->
  segs_match p ks b1 -> segs_match p ks b2 -> b1 = b2.
Proof.
  intros Hks H1 H2. apply spec_match_meaning in H1; [|exact Hks].
  apply spec_match_meaning in H2; [|exact Hks]. congruence.
Qed.

Theorem spec_get_meaning p ks b v : Forall (fun s => ~ In slash s) ks -> segs_match p ks b ->
  ks <> [] ->
  spec_get p (slash :: intercalate [slash] ks) v =
  match assoc v b with Some t => t | None => [] end.
Proof.
  intros Hks Hm Hne. unfold spec_get. rewrite key_segments_join by assumption.
  apply spec_match_meaning in Hm; [|exact Hks]. rewrite Hm. reflexivity.
Qed.

Theorem spec_get_nomatch p k v : spec_km p k = false -> p <> [] -> spec_get p k v = [].
Proof.
  intros H Hp. unfold spec_km in H. unfold spec_get. destruct p as [|s p]; [contradiction|].
  destruct (key_segments k) as [ks|]; [|reflexivity].
  destruct (spec_match (s :: p) ks); [discriminate|reflexivity].
Qed.

Theorem spec_km4_meaning p k : p <> [] ->
  (spec_km4 p k = true <->
   exists ks b, Forall (fun s => ~ In slash s) ks /\
                k = slash :: intercalate [slash] ks /\ segs_match p ks b /\
                bindings_consistent b [] = true).
Proof.
  intros Hp. unfold spec_km4. destruct p as [|s p]; [contradiction|]. split.
  - destruct (key_segments k) as [ks|] eqn:E; [|discriminate].
    apply key_segments_split in E. destruct E as (Hne & Hks & Hk).
    destruct (spec_match (s :: p) ks) as [b|] eqn:Em; [|discriminate]. intros Hc.
    exists ks, b. split; [exact Hks|]. split; [exact Hk|]. split; [|exact Hc].
    apply spec_match_meaning; assumption.
  - intros (ks & b & Hks & -> & Hm & Hc).
    assert (Hne : ks <> []) by (intros ->; inversion Hm; subst; contradiction).
    rewrite key_segments_join by assumption.
    apply spec_match_meaning in Hm; [|exact Hks]. rewrite Hm. exact Hc.
Qed.

(* ---- the same without asking the witness segments to be slash-free ---- *)
(* for a grammar pattern the literal and named segments are slash-free anyway;
   only the remainder taken by '*' may be cut into segments in several ways *)
Lemma no_lf_intercalate rest : Forall (fun s => ~ In lf s) rest ->
  no_lf (intercalate [slash] rest) = true.
Proof.
  induction 1 as [|x rest Hx Hrest IH]; [reflexivity|].
  destruct rest as [|y rest]; [cbn [intercalate]; apply no_lf_notin, Hx|].
  rewrite intercalate_cons by discriminate. rewrite !no_lf_app, IH.
  apply no_lf_notin in Hx. rewrite Hx. reflexivity.
Qed.

Lemma segs_match_nil_inv p b : segs_match p [] b -> p = [] /\ b = [].
Proof. intros H. inversion H; subst; [split; reflexivity|contradiction]. Qed.

Lemma split_intercalate_cons x ks : sfree x -> ks <> [] ->
  split_slash (intercalate [slash] (x :: ks)) [] = x :: split_slash (intercalate [slash] ks) [].
Proof.
  intros Hx Hne. rewrite intercalate_cons by exact Hne.
  change (x ++ [slash] ++ intercalate [slash] ks) with (x ++ slash :: intercalate [slash] ks).
  rewrite split_slash_app by (try exact Hx; apply bnd_slash). reflexivity.
Qed.

Lemma split_single x : sfree x -> split_slash x [] = [x].
Proof.
  intros Hx. rewrite <- (app_nil_r x) at 1.
  rewrite split_slash_app by (try exact Hx; apply bnd_nil). reflexivity.
Qed.

Lemma segs_match_spec_match p ks b : segs_match p ks b -> grammar p = true -> ks <> [] ->
  spec_match p (split_slash (intercalate [slash] ks) []) = Some b.
Proof.
  induction 1 as [|w p ks b Hm IH|n p k ks b Hk Hs Hm IH|rest Hne Hlf]; intros Hg Hks.
  - contradiction.
  - apply grammar_cons in Hg. destruct Hg as [Hw Hg]. apply safe_word_safe in Hw.
    destruct Hw as [_ Hw]. apply safe_sfree in Hw. rewrite spec_match_lit.
    destruct ks as [|k ks].
    + apply segs_match_nil_inv in Hm. destruct Hm as [-> ->].
      cbn [intercalate]. rewrite split_single by exact Hw. rewrite teqb_refl. reflexivity.
    + rewrite split_intercalate_cons by (try exact Hw; discriminate). rewrite teqb_refl.
      apply IH; [exact Hg|discriminate].
  - apply grammar_cons in Hg. destruct Hg as [_ Hg]. apply sfree_notin in Hs.
    rewrite spec_match_named. destruct ks as [|k' ks].
    + apply segs_match_nil_inv in Hm. destruct Hm as [-> ->].
      cbn [intercalate]. rewrite split_single by exact Hs. destruct k; [contradiction|reflexivity].
    + rewrite split_intercalate_cons by (try exact Hs; discriminate).
      rewrite IH by (try exact Hg; discriminate). destruct k; [contradiction|reflexivity].
  - rewrite spec_match_star.
    destruct (split_slash (intercalate [slash] rest) []) eqn:E; [exfalso; exact (split_slash_ne _ _ E)|].
    rewrite <- E. rewrite forallb_no_lf_split. cbn [rev]. change (no_lf []) with true. cbn [andb].
    rewrite no_lf_intercalate by exact Hlf. reflexivity.
Qed.

Theorem spec_km_meaning_gen p k : grammar p = true -> p <> [] ->
  (spec_km p k = true <->
   exists ks b, k = slash :: intercalate [slash] ks /\ segs_match p ks b).
Proof.
  intros Hg Hp. split.
  - intros H. apply spec_km_meaning in H; [|exact Hp].
    destruct H as (ks & b & _ & Hk & Hm). exists ks, b. split; assumption.
  - intros (ks & b & -> & Hm).
    assert (Hne : ks <> []) by (intros ->; apply segs_match_nil_inv in Hm; destruct Hm; contradiction).
    unfold spec_km. destruct p as [|s p]; [contradiction|].
    cbn [key_segments]. change (Ascii.eqb slash slash) with true. cbv iota.
    rewrite (segs_match_spec_match _ _ _ Hm Hg Hne). reflexivity.
Qed.

Theorem spec_get_meaning_gen p ks b v : grammar p = true -> segs_match p ks b -> ks <> [] ->
  spec_get p (slash :: intercalate [slash] ks) v =
  match assoc v b with Some t => t | None => [] end.
Proof.
  intros Hg Hm Hne. unfold spec_get. cbn [key_segments].
  change (Ascii.eqb slash slash) with true. cbv iota.
  rewrite (segs_match_spec_match _ _ _ Hm Hg Hne). reflexivity.
Qed.
