(* C17 at the level of the TRANSLATED SOURCE: Properties/C17.v restated about Gen/EnforceGen.v (generated each run
   from Enforcer::private_enforce / private_enforce_with_context of src/enforcer.rs).
   Proof: PinChecks/PcEnforceGen.v composed with Proofs/EnforceP.v (ctx_eq_plain). *)
From CV Require Import Model.Base Model.Effector Model.Expr Model.Enforce Model.Rename Model.Engine.
From CV Require Import Gen.RustStr Gen.RustVec Gen.RustEnf Gen.EnforceGen PinChecks.PcEnforceGen.
From CV Require Import Proofs.EnforceP Proofs.SrcStepP.

(* the translated private_enforce_with_context, called with EnforceContext::new(k) = (r++k, p++k, e++k, m++k), on a
   model whose k-suffixed definitions are renamed copies of the unsuffixed ones decides every request exactly as the
   translated private_enforce does on the unsuffixed definitions *)
Lemma src_c17_ctx_eq_plain : forall ptab k enabled md1 md2 mx1 mx2 fs rvals,
  no_underscore k = true ->
  renamed_copy k md1 md2 mx1 mx2 ->
  gen_private_enforce_with_context ptab enabled md2 mx2 fs (s_r ++ k) (s_p ++ k) (s_e ++ k) (s_m ++ k) rvals =
  gen_private_enforce ptab enabled md1 mx1 fs rvals.
Proof.
  intros ptab k enabled md1 md2 mx1 mx2 fs rvals Hk Hc.
  rewrite gen_private_enforce_ctx, gen_private_enforce_plain. apply ctx_eq_plain; assumption.
Qed.

(* on enforcer states: two enforcers with the same flag and function state, one holding the renamed copy *)
Lemma src_c17_state : forall ptab k s1 s2 rv,
  no_underscore k = true ->
  renamed_copy k (e_model s1) (e_model s2) (e_mexprs s1) (e_mexprs s2) ->
  e_enabled s2 = e_enabled s1 -> e_fs s2 = e_fs s1 ->
  src_enforce_with_ctx ptab s2 k rv = src_enforce ptab s1 rv.
Proof.
  intros ptab k s1 s2 rv Hk Hc He Hf.
  unfold src_enforce_with_ctx, src_enforce_with_ctx4, src_enforce. rewrite He, Hf.
  apply src_c17_ctx_eq_plain; assumption.
Qed.
