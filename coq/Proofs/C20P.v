(* C20 — lock protocol of concurrent enforcement: invariant, deadlock freedom,
   termination, consistency of reads.  All proofs about Model/Locks.v. *)
From CV Require Import Model.Base Model.Locks Model.SpecC20.
From Coq Require Import List Arith Lia Bool Wf_nat.
Import ListNotations.

(* ------------------------------------------------------------------ *)
(* generic list helpers                                                *)
(* ------------------------------------------------------------------ *)
Section Sums.
Context {A : Type}.

Fixpoint sumf (f : A -> nat) (l : list A) : nat :=
  match l with [] => 0 | x :: r => f x + sumf f r end.

Lemma sumf_replace : forall (f : A -> nat) l i t t',
  nth_error l i = Some t ->
  sumf f (replace_nth i t' l) + f t = sumf f l + f t'.
Proof.
  intros f l; induction l as [|x r IH]; intros i t t' Hn.
  - destruct i; discriminate.
  - destruct i as [|i]; cbn in *.
    + inversion Hn; subst. lia.
    + specialize (IH i t t' Hn). lia.
Qed.

Lemma sumf_zero : forall (f : A -> nat) l,
  (forall t, In t l -> f t = 0) -> sumf f l = 0.
Proof.
  intros f l; induction l as [|x r IH]; intros H; cbn; [reflexivity|].
  rewrite (H x (or_introl eq_refl)), IH; [reflexivity|].
  intros t Ht. apply H. right. exact Ht.
Qed.

Lemma sumf_zero_inv : forall (f : A -> nat) l t,
  sumf f l = 0 -> In t l -> f t = 0.
Proof.
  intros f l; induction l as [|x r IH]; intros t Hs Hi; [contradiction|].
  cbn in Hs. destruct Hi as [->|Hi]; [lia|]. apply IH; [lia|exact Hi].
Qed.

Lemma sumf_ge : forall (f : A -> nat) l t, In t l -> f t <= sumf f l.
Proof.
  intros f l; induction l as [|x r IH]; intros t Hi; [contradiction|].
  cbn. destruct Hi as [->|Hi]; [lia|]. specialize (IH t Hi). lia.
Qed.

Lemma sumf_le_strict : forall (f g : A -> nat) l t,
  (forall x, In x l -> f x <= g x) -> In t l -> f t < g t ->
  sumf f l < sumf g l.
Proof.
  intros f g l; induction l as [|x r IH]; intros t Hle Hi Hlt; [contradiction|].
  cbn. assert (Hr : sumf f r <= sumf g r).
  { clear IH Hi Hlt. induction r as [|y r IHr]; cbn; [lia|].
    assert (f y <= g y) by (apply Hle; right; left; reflexivity).
    assert (sumf f r <= sumf g r).
    { apply IHr. intros z Hz. apply Hle. destruct Hz as [->|Hz]; [left; reflexivity|right; right; exact Hz]. }
    lia. }
  destruct Hi as [->|Hi].
  - lia.
  - assert (f x <= g x) by (apply Hle; left; reflexivity).
    assert (sumf f r < sumf g r).
    { apply (IH t); [|exact Hi|exact Hlt]. intros z Hz. apply Hle. right. exact Hz. }
    lia.
Qed.

Lemma sumf_ext : forall (f g : A -> nat) l,
  (forall x, In x l -> f x = g x) -> sumf f l = sumf g l.
Proof.
  intros f g l; induction l as [|x r IH]; intros H; cbn; [reflexivity|].
  rewrite (H x (or_introl eq_refl)), IH; [reflexivity|].
  intros y Hy. apply H. right. exact Hy.
Qed.

Lemma exists_or_all : forall (p : A -> bool) l,
  (exists t, In t l /\ p t = true) \/ (forall t, In t l -> p t = false).
Proof.
  intros p l; induction l as [|x r IH].
  - right. intros t [].
  - destruct (p x) eqn:Hx.
    + left. exists x. split; [left; reflexivity|exact Hx].
    + destruct IH as [[t [Ht Hp]]|Hall].
      * left. exists t. split; [right; exact Ht|exact Hp].
      * right. intros t [<-|Ht]; [exact Hx|apply Hall; exact Ht].
Qed.

Lemma Forall_replace_nth : forall (P : A -> Prop) l i x,
  Forall P l -> P x -> Forall P (replace_nth i x l).
Proof.
  intros P l; induction l as [|y r IH]; intros i x Hl Hx.
  - destruct i; constructor.
  - inversion Hl; subst. destruct i; cbn; constructor; auto.
Qed.

Lemma nth_error_replace_same : forall (l : list A) i x t,
  nth_error l i = Some t -> nth_error (replace_nth i x l) i = Some x.
Proof.
  intros l; induction l as [|y r IH]; intros i x t Hn; destruct i; try discriminate; cbn in *.
  - reflexivity.
  - eapply IH; eauto.
Qed.

Lemma nth_error_replace_other : forall (l : list A) i j x,
  i <> j -> nth_error (replace_nth i x l) j = nth_error l j.
Proof.
  intros l; induction l as [|y r IH]; intros i j x Hne; destruct i, j; cbn; try reflexivity; try congruence.
  apply IH. congruence.
Qed.

Lemma In_replace_nth : forall (l : list A) i x y,
  In y (replace_nth i x l) -> y = x \/ In y l.
Proof.
  intros l; induction l as [|z r IH]; intros i x y H; destruct i; cbn in *; try contradiction.
  - destruct H as [<-|H]; auto.
  - destruct H as [<-|H]; auto. apply IH in H. tauto.
Qed.

Lemma length_replace_nth : forall (l : list A) i x, length (replace_nth i x l) = length l.
Proof.
  intros l; induction l as [|z r IH]; intros i x; destruct i; cbn; auto.
Qed.
End Sums.

Definition b2n (b : bool) : nat := if b then 1 else 0.

(* ------------------------------------------------------------------ *)
(* per-thread observations                                             *)
(* ------------------------------------------------------------------ *)
Definition mode_eqb (a b : mode) : bool :=
  match a, b with MR, MR | MW, MW => true | _, _ => false end.

(* how many times (l,m) occurs in a held list *)
Fixpoint hc (l : lockid) (m : mode) (h : list (lockid * mode)) : nat :=
  match h with
  | [] => 0
  | (l', m') :: r => (if lockid_eqb l l' && mode_eqb m m' then 1 else 0) + hc l m r
  end.
Definition hct (l : lockid) (m : mode) (t : thread) : nat := hc l m (held t).

(* the thread is registered in the writer queue of l *)
Definition wq (l : lockid) (t : thread) : nat :=
  if queued t then
    match prog t with
    | Acq l' MW :: _ => if lockid_eqb l l' then 1 else 0
    | _ => 0
    end
  else 0.

(* the thread is between Begin and End of a management call *)
Definition mid (p : list instr) (h : list (lockid * mode)) : nat :=
  if Nat.eqb (hc OUTER MW h) 0 then 0
  else match p with
       | Begin :: _ => 0
       | Rel OUTER :: _ => 0
       | _ => 1
       end.
Definition midt (t : thread) : nat := mid (prog t) (held t).

(* effect of an instruction on the held list *)
Definition eff (i : instr) (h : list (lockid * mode)) : list (lockid * mode) :=
  match i with
  | Acq l m => (l, m) :: h
  | Rel _ => tl h
  | _ => h
  end.

Lemma lockid_eqb_refl : forall l, lockid_eqb l l = true.
Proof. destruct l; reflexivity. Qed.
Lemma lockid_eqb_eq : forall a b, lockid_eqb a b = true -> a = b.
Proof. destruct a, b; cbn; congruence. Qed.

(* ------------------------------------------------------------------ *)
(* thread shapes                                                       *)
(* ------------------------------------------------------------------ *)
Definition RB : list instr := [Acq RM MR; Read; Rel RM].
Definition WB : list instr := [Acq RM MW; Write; Rel RM].
Definition rest (cs : list call) : list instr := flat_map call_prog cs.

(* The reachable (remaining program, held locks) pairs of a thread running
   call programs: the position inside the current call fixes the held list. *)
Inductive tshape : list instr -> list (lockid * mode) -> Prop :=
| ts_e0 : forall j cs, tshape (repeat_prog j RB ++ Rel OUTER :: rest cs) [(OUTER, MR)]
| ts_e1 : forall j cs, tshape (Read :: Rel RM :: repeat_prog j RB ++ Rel OUTER :: rest cs) [(RM, MR); (OUTER, MR)]
| ts_e2 : forall j cs, tshape (Rel RM :: repeat_prog j RB ++ Rel OUTER :: rest cs) [(RM, MR); (OUTER, MR)]
| ts_m0 : forall j cs, tshape (Begin :: repeat_prog j WB ++ End :: Rel OUTER :: rest cs) [(OUTER, MW)]
| ts_m1 : forall j cs, tshape (repeat_prog j WB ++ End :: Rel OUTER :: rest cs) [(OUTER, MW)]
| ts_m2 : forall j cs, tshape (Write :: Rel RM :: repeat_prog j WB ++ End :: Rel OUTER :: rest cs) [(RM, MW); (OUTER, MW)]
| ts_m3 : forall j cs, tshape (Rel RM :: repeat_prog j WB ++ End :: Rel OUTER :: rest cs) [(RM, MW); (OUTER, MW)]
| ts_m4 : forall cs, tshape (Rel OUTER :: rest cs) [(OUTER, MW)]
| ts_h0 : forall j cs, tshape (repeat_prog j RB ++ rest cs) []
| ts_h1 : forall j cs, tshape (Read :: Rel RM :: repeat_prog j RB ++ rest cs) [(RM, MR)]
| ts_h2 : forall j cs, tshape (Rel RM :: repeat_prog j RB ++ rest cs) [(RM, MR)].

Lemma ts_idle : forall cs, tshape (rest cs) [].
Proof. intros cs. exact (ts_h0 0 cs). Qed.

(* head analysis of a sequence of calls *)
Lemma rest_cases : forall cs,
  rest cs = [] \/
  (exists k cs', rest cs = Acq OUTER MR :: repeat_prog k RB ++ Rel OUTER :: rest cs') \/
  (exists k cs', rest cs = Acq OUTER MW :: Begin :: repeat_prog k WB ++ End :: Rel OUTER :: rest cs') \/
  (exists k cs', rest cs = Acq RM MR :: Read :: Rel RM :: repeat_prog k RB ++ rest cs').
Proof.
  induction cs as [|c cs IH]; [left; reflexivity|].
  destruct c as [k|k|k].
  - right; left. exists k, cs. unfold rest. cbn [flat_map call_prog]. unfold enforce_prog.
    cbn [app]. rewrite <- app_assoc. reflexivity.
  - right; right; left. exists k, cs. unfold rest. cbn [flat_map call_prog]. unfold mgmt_prog.
    cbn [app]. rewrite <- app_assoc. reflexivity.
  - destruct k as [|k].
    + exact IH.
    + right; right; right. exists k, cs. unfold rest. cbn [flat_map call_prog]. unfold handle_read_prog.
      cbn [repeat_prog]. rewrite <- app_assoc. reflexivity.
Qed.

(* one instruction of the program: the shape follows *)
Lemma tshape_step : forall i p h, tshape (i :: p) h -> tshape p (eff i h).
Proof.
  intros i p h H. remember (i :: p) as q eqn:Hq.
  destruct H as [j cs|j cs|j cs|j cs|j cs|j cs|j cs|cs|j cs|j cs|j cs].
  - destruct j as [|j]; cbn in Hq; inversion Hq; subst; cbn.
    + apply ts_idle.
    + apply ts_e1.
  - inversion Hq; subst; cbn. apply ts_e2.
  - inversion Hq; subst; cbn. apply ts_e0.
  - inversion Hq; subst; cbn. apply ts_m1.
  - destruct j as [|j]; cbn in Hq; inversion Hq; subst; cbn.
    + apply ts_m4.
    + apply ts_m2.
  - inversion Hq; subst; cbn. apply ts_m3.
  - inversion Hq; subst; cbn. apply ts_m1.
  - inversion Hq; subst; cbn. apply ts_idle.
  - destruct j as [|j].
    + cbn in Hq. destruct (rest_cases cs) as [E|[[k [cs' E]]|[[k [cs' E]]|[k [cs' E]]]]];
        rewrite E in Hq; inversion Hq; subst; cbn.
      * apply ts_e0.
      * apply ts_m0.
      * apply ts_h1.
    + cbn in Hq; inversion Hq; subst; cbn. apply ts_h1.
  - inversion Hq; subst; cbn. apply ts_h2.
  - inversion Hq; subst; cbn. apply ts_h0.
Qed.

Definition is_begin (i : instr) : nat := match i with Begin => 1 | _ => 0 end.
Definition is_end (i : instr) : nat := match i with End => 1 | _ => 0 end.

(* the in-call indicator moves only at Begin and End *)
Lemma mid_step : forall i p h, tshape (i :: p) h ->
  mid p (eff i h) + is_end i = mid (i :: p) h + is_begin i.
Proof.
  intros i p h H. remember (i :: p) as q eqn:Hq.
  destruct H as [j cs|j cs|j cs|j cs|j cs|j cs|j cs|cs|j cs|j cs|j cs].
  - destruct j as [|j]; cbn in Hq; inversion Hq; subst; reflexivity.
  - inversion Hq; subst; reflexivity.
  - inversion Hq; subst; destruct j; reflexivity.
  - inversion Hq; subst; destruct j; reflexivity.
  - destruct j as [|j]; cbn in Hq; inversion Hq; subst; reflexivity.
  - inversion Hq; subst; reflexivity.
  - inversion Hq; subst; destruct j; reflexivity.
  - inversion Hq; subst; reflexivity.
  - destruct j as [|j].
    + cbn in Hq. destruct (rest_cases cs) as [E|[[k [cs' E]]|[[k [cs' E]]|[k [cs' E]]]]];
        rewrite E in Hq; inversion Hq; subst; reflexivity.
    + cbn in Hq; inversion Hq; subst; reflexivity.
  - inversion Hq; subst; reflexivity.
  - inversion Hq; subst; reflexivity.
Qed.

(* what a thread can be about to do, and what it then holds *)
Lemma tshape_cases : forall p h, tshape p h ->
  (p = [] /\ h = []) \/
  (exists m p', p = Acq OUTER m :: p' /\ h = []) \/
  (exists p', p = Acq RM MR :: p' /\ (h = [] \/ h = [(OUTER, MR)])) \/
  (exists p', p = Acq RM MW :: p' /\ h = [(OUTER, MW)]) \/
  (exists p', p = Read :: p' /\ (h = [(RM, MR)] \/ h = [(RM, MR); (OUTER, MR)])) \/
  (exists p', p = Write :: p' /\ h = [(RM, MW); (OUTER, MW)]) \/
  (exists p', p = Begin :: p' /\ h = [(OUTER, MW)]) \/
  (exists p', p = End :: p' /\ h = [(OUTER, MW)]) \/
  (exists p' m h', p = Rel RM :: p' /\ h = (RM, m) :: h' /\ (h' = [] \/ h' = [(OUTER, m)])) \/
  (exists p' m, p = Rel OUTER :: p' /\ h = [(OUTER, m)]).
Proof.
  intros p h H.
  destruct H as [j cs|j cs|j cs|j cs|j cs|j cs|j cs|cs|j cs|j cs|j cs].
  - destruct j as [|j]; cbn.
    + do 9 right. eauto.
    + do 2 right; left. eauto.
  - do 4 right; left. eauto.
  - do 8 right; left. eauto 7.
  - do 6 right; left. eauto.
  - destruct j as [|j]; cbn.
    + do 7 right; left. eauto.
    + do 3 right; left. eauto.
  - do 5 right; left. eauto.
  - do 8 right; left. eauto 7.
  - do 9 right. eauto.
  - destruct j as [|j]; cbn.
    + destruct (rest_cases cs) as [E|[[k [cs' E]]|[[k [cs' E]]|[k [cs' E]]]]]; rewrite E.
      * left. auto.
      * right; left. eauto.
      * right; left. eauto.
      * do 2 right; left. eauto.
    + do 2 right; left. eauto.
  - do 4 right; left. eauto.
  - do 8 right; left. eauto 7.
Qed.

(* ------------------------------------------------------------------ *)
(* (1) the protocol invariant                                          *)
(* ------------------------------------------------------------------ *)
Definition LockInv (s : sys) (l : lockid) : Prop :=
  readers (get_lock s l) = sumf (hct l MR) (threads s) /\
  b2n (writer (get_lock s l)) = sumf (hct l MW) (threads s) /\
  (writer (get_lock s l) = true -> readers (get_lock s l) = 0) /\
  wqueue (get_lock s l) = sumf (wq l) (threads s).

Definition tok (t : thread) : Prop :=
  tshape (prog t) (held t) /\
  (queued t = true -> exists l p, prog t = Acq l MW :: p).

Record ProtoInv (s : sys) : Prop := {
  pi_outer : LockInv s OUTER;
  pi_rm : LockInv s RM;
  pi_threads : Forall tok (threads s);
  pi_mid : b2n (in_call (dat s)) = sumf midt (threads s) }.

Lemma pi_lock : forall s l, ProtoInv s -> LockInv s l.
Proof. intros s l H. destruct l; [apply pi_outer|apply pi_rm]; exact H. Qed.

Lemma LockInv_upd : forall s s' l0 i t t',
  nth_error (threads s) i = Some t ->
  threads s' = replace_nth i t' (threads s) ->
  LockInv s l0 ->
  readers (get_lock s' l0) + hct l0 MR t = readers (get_lock s l0) + hct l0 MR t' ->
  b2n (writer (get_lock s' l0)) + hct l0 MW t = b2n (writer (get_lock s l0)) + hct l0 MW t' ->
  (writer (get_lock s' l0) = true -> readers (get_lock s' l0) = 0) ->
  wqueue (get_lock s' l0) + wq l0 t = wqueue (get_lock s l0) + wq l0 t' ->
  LockInv s' l0.
Proof.
  intros s s' l0 i t t' Hn Hth (H1 & H2 & H3 & H4) A1 A2 A3 A4.
  unfold LockInv. rewrite Hth.
  pose proof (sumf_replace (hct l0 MR) _ _ _ t' Hn).
  pose proof (sumf_replace (hct l0 MW) _ _ _ t' Hn).
  pose proof (sumf_replace (wq l0) _ _ _ t' Hn).
  repeat split; try lia. exact A3.
Qed.

Lemma mid_le : forall p h, mid p h <= hc OUTER MW h.
Proof.
  intros p h. unfold mid. destruct (Nat.eqb (hc OUTER MW h) 0) eqn:E; [lia|].
  apply Nat.eqb_neq in E. destruct p as [|[l m|[]| | | | ] p]; lia.
Qed.

Lemma hc_cons : forall l m l' m' h,
  hc l m ((l', m') :: h) = (if lockid_eqb l l' && mode_eqb m m' then 1 else 0) + hc l m h.
Proof. reflexivity. Qed.

Lemma threads_set_lock : forall s l k, threads (set_lock s l k) = threads s.
Proof. intros s [] k; reflexivity. Qed.
Lemma dat_set_lock : forall s l k, dat (set_lock s l k) = dat s.
Proof. intros s [] k; reflexivity. Qed.

Lemma get_lock_set_threads : forall s ts l, get_lock (set_threads s ts) l = get_lock s l.
Proof. intros s ts []; reflexivity. Qed.
Lemma dat_set_threads : forall s ts, dat (set_threads s ts) = dat s.
Proof. reflexivity. Qed.

(* no management call is in progress unless the outer writer flag is set *)
Lemma mid_sum_zero_of_holder : forall s t, ProtoInv s -> In t (threads s) ->
  midt t = 0 -> hct OUTER MW t >= 1 -> sumf midt (threads s) = 0.
Proof.
  intros s t Hinv Hin Hm Hh.
  destruct (pi_outer _ Hinv) as (_ & O2 & _ & _).
  assert (sumf midt (threads s) < sumf (hct OUTER MW) (threads s)).
  { apply (sumf_le_strict midt (hct OUTER MW) _ t); [|exact Hin|lia].
    intros x _. apply mid_le. }
  destruct (writer (get_lock s OUTER)); cbn [b2n] in O2; lia.
Qed.

(* a step replaces one thread and adjusts locks/data: the invariant follows
   from local arithmetic facts about the old and new thread *)
Lemma ProtoInv_upd : forall s s' i t t',
  ProtoInv s -> nth_error (threads s) i = Some t ->
  threads s' = replace_nth i t' (threads s) ->
  (forall l0,
     readers (get_lock s' l0) + hct l0 MR t = readers (get_lock s l0) + hct l0 MR t' /\
     b2n (writer (get_lock s' l0)) + hct l0 MW t = b2n (writer (get_lock s l0)) + hct l0 MW t' /\
     (writer (get_lock s' l0) = true -> readers (get_lock s' l0) = 0) /\
     wqueue (get_lock s' l0) + wq l0 t = wqueue (get_lock s l0) + wq l0 t') ->
  tok t' ->
  b2n (in_call (dat s')) + midt t = b2n (in_call (dat s)) + midt t' ->
  ProtoInv s'.
Proof.
  intros s s' i t t' Hinv Hn Hth HL Htok Hm.
  assert (HL' : forall l0, LockInv s' l0).
  { intros l0. destruct (HL l0) as (A1 & A2 & A3 & A4).
    eapply (LockInv_upd s s' l0 i t t' Hn Hth); auto. apply pi_lock. exact Hinv. }
  split; [apply HL'|apply HL'| | ].
  - rewrite Hth. apply Forall_replace_nth; [apply pi_threads; exact Hinv|exact Htok].
  - rewrite Hth. pose proof (sumf_replace midt _ _ _ t' Hn). pose proof (pi_mid _ Hinv). lia.
Qed.

Ltac lock_arith s Hp :=
  unfold hct, wq in *;
  cbn [get_lock set_threads set_lock set_data l_outer l_rm readers writer wqueue held prog queued
       hc lockid_eqb mode_eqb andb] in *;
  rewrite ?Hp in *;
  cbn [lockid_eqb] in *;
  let a := fresh "Hwo" in let b := fresh "Hwr" in
  destruct (writer (l_outer s)) eqn:a; destruct (writer (l_rm s)) eqn:b;
  repeat match goal with
         | |- context [queued ?t] => destruct (queued t)
         | H : true = true -> _ |- _ => specialize (H eq_refl)
         | H : false = true -> _ |- _ => clear H
         end;
  cbn [b2n] in *; try discriminate; repeat split; try discriminate; try lia.

Lemma ProtoInv_step : forall s i s', ProtoInv s -> step_thread s i = Some s' -> ProtoInv s'.
Proof.
  intros s i s' Hinv Hst. unfold step_thread in Hst.
  destruct (nth_error (threads s) i) as [t|] eqn:Hn; [|discriminate].
  assert (Hin : In t (threads s)) by (eapply nth_error_In; eauto).
  assert (Htok : tok t) by (eapply Forall_forall; [apply (pi_threads _ Hinv)|exact Hin]).
  destruct Htok as [Hsh Hq].
  destruct (prog t) as [|ins p'] eqn:Hp; [discriminate|].
  pose proof (tshape_step _ _ _ Hsh) as Hsh'.
  assert (Hmid : forall q sn, midt {| prog := p'; held := eff ins (held t); queued := q; seen := sn |} + is_end ins
                              = midt t + is_begin ins).
  { intros q sn. unfold midt. cbn [prog held]. rewrite Hp. apply mid_step. exact Hsh. }
  destruct (pi_outer _ Hinv) as (O1 & O2 & O3 & O4).
  destruct (pi_rm _ Hinv) as (R1 & R2 & R3 & R4).
  pose proof (sumf_ge (hct OUTER MR) _ _ Hin) as GO1. pose proof (sumf_ge (hct OUTER MW) _ _ Hin) as GO2.
  pose proof (sumf_ge (hct RM MR) _ _ Hin) as GR1. pose proof (sumf_ge (hct RM MW) _ _ Hin) as GR2.
  pose proof (sumf_ge (wq OUTER) _ _ Hin) as GO4. pose proof (sumf_ge (wq RM) _ _ Hin) as GR4.
  rewrite <- ?O1, <- ?O2, <- ?O4, <- ?R1, <- ?R2, <- ?R4 in *.
  destruct ins as [l m|l| | | | ].
  - destruct m.
    + (* Acq l MR *)
      destruct (can_read (get_lock s l)) eqn:Hc; [|discriminate]. inversion Hst; subst s'; clear Hst.
      rewrite threads_set_lock.
      unfold can_read in Hc. apply andb_true_iff in Hc. destruct Hc as [Hc1 Hc2].
      apply negb_true_iff in Hc1. apply Nat.eqb_eq in Hc2.
      eapply (ProtoInv_upd s _ i t _ Hinv Hn); [reflexivity| | | ].
      * intros l0. destruct l0, l; lock_arith s Hp.
      * split; cbn [prog held queued]; [exact Hsh'|discriminate].
      * rewrite dat_set_threads, dat_set_lock. pose proof (Hmid false (seen t)) as Hm'.
        cbn [eff is_end is_begin] in Hm'. lia.
    + (* Acq l MW *)
      destruct (can_write (get_lock s l)) eqn:Hc.
      * inversion Hst; subst s'; clear Hst.
        rewrite threads_set_lock.
        unfold can_write in Hc. apply andb_true_iff in Hc. destruct Hc as [Hc1 Hc2].
        apply negb_true_iff in Hc1. apply Nat.eqb_eq in Hc2.
        eapply (ProtoInv_upd s _ i t _ Hinv Hn); [reflexivity| | | ].
        -- intros l0. destruct l0, l; lock_arith s Hp.
        -- split; cbn [prog held queued]; [exact Hsh'|discriminate].
        -- rewrite dat_set_threads, dat_set_lock. pose proof (Hmid false (seen t)) as Hm'.
           cbn [eff is_end is_begin] in Hm'. lia.
      * destruct (queued t) eqn:Hqt; [discriminate|].
        inversion Hst; subst s'; clear Hst.
        rewrite threads_set_lock.
        eapply (ProtoInv_upd s _ i t _ Hinv Hn); [reflexivity| | | ].
        -- intros l0. destruct l0, l; lock_arith s Hp.
        -- split; cbn [prog held queued]; [exact Hsh|eauto].
        -- rewrite dat_set_threads, dat_set_lock. unfold midt. cbn [prog held]. rewrite Hp. reflexivity.
  - (* Rel l *)
    destruct (held t) as [|[l' m] h'] eqn:Hh; [discriminate|].
    destruct (lockid_eqb l l') eqn:Hl; [|discriminate].
    apply lockid_eqb_eq in Hl. subst l'.
    inversion Hst; subst s'; clear Hst.
    rewrite threads_set_lock.
    eapply (ProtoInv_upd s _ i t _ Hinv Hn); [reflexivity| | | ].
    + intros l0. destruct l0, l, m; lock_arith s Hp; rewrite ?Hh in *; cbn [hc lockid_eqb mode_eqb andb] in *; try lia.
    + split; cbn [prog held queued]; [exact Hsh'|discriminate].
    + rewrite dat_set_threads, dat_set_lock. pose proof (Hmid false (seen t)) as Hm'.
      cbn [eff is_end is_begin tl] in Hm'. lia.
  - (* Read *)
    inversion Hst; subst s'; clear Hst.
    eapply (ProtoInv_upd s _ i t _ Hinv Hn); [reflexivity| | | ].
    + intros l0. destruct l0; lock_arith s Hp.
    + split; cbn [prog held queued]; [exact Hsh'|discriminate].
    + rewrite dat_set_threads. pose proof (Hmid false (seen t ++ [(version (dat s), in_call (dat s))])) as Hm'.
      cbn [eff is_end is_begin] in Hm'. lia.
  - (* Begin *)
    inversion Hst; subst s'; clear Hst.
    eapply (ProtoInv_upd s _ i t _ Hinv Hn); [reflexivity| | | ].
    + intros l0. destruct l0; lock_arith s Hp.
    + split; cbn [prog held queued]; [exact Hsh'|discriminate].
    + rewrite dat_set_threads. cbn [set_data dat in_call b2n].
      pose proof (Hmid false (seen t)) as Hm'. cbn [eff is_end is_begin] in Hm'.
      assert (Hz : sumf midt (threads s) = 0).
      { apply (mid_sum_zero_of_holder s t Hinv Hin).
        - unfold midt. rewrite Hp. unfold mid. destruct (hc OUTER MW (held t) =? 0); reflexivity.
        - destruct (tshape_cases _ _ Hsh) as [[E _]|[(m&q&E&_)|[(q&E&_)|[(q&E&_)|[(q&E&_)|[(q&E&_)|[(q&E&Hh)|[(q&E&_)|[(q&m&h'&E&_)|(q&m&E&_)]]]]]]]]];
            try discriminate E.
          unfold hct. rewrite Hh. cbn. lia. }
      pose proof (pi_mid _ Hinv) as HM. destruct (in_call (dat s)); cbn [b2n] in *; lia.
  - (* End *)
    inversion Hst; subst s'; clear Hst.
    eapply (ProtoInv_upd s _ i t _ Hinv Hn); [reflexivity| | | ].
    + intros l0. destruct l0; lock_arith s Hp.
    + split; cbn [prog held queued]; [exact Hsh'|discriminate].
    + rewrite dat_set_threads. cbn [set_data dat in_call b2n].
      pose proof (Hmid false (seen t)) as Hm'. cbn [eff is_end is_begin] in Hm'.
      pose proof (pi_mid _ Hinv) as HM. pose proof (sumf_ge midt _ _ Hin).
      destruct (in_call (dat s)); cbn [b2n] in *; lia.
  - (* Write *)
    inversion Hst; subst s'; clear Hst.
    eapply (ProtoInv_upd s _ i t _ Hinv Hn); [reflexivity| | | ].
    + intros l0. destruct l0; lock_arith s Hp.
    + split; cbn [prog held queued]; [exact Hsh'|discriminate].
    + rewrite dat_set_threads. cbn [set_data dat in_call].
      pose proof (Hmid false (seen t)) as Hm'. cbn [eff is_end is_begin] in Hm'. lia.
Qed.

Lemma ProtoInv_init : forall tss, ProtoInv (init_sys tss).
Proof.
  intros tss.
  assert (Hh : forall t, In t (map thread_of tss) -> held t = [] /\ queued t = false /\ exists cs, prog t = rest cs).
  { intros t Ht. apply in_map_iff in Ht. destruct Ht as [cs [<- _]]. cbn. eauto. }
  assert (HL : forall l0, LockInv (init_sys tss) l0).
  { intros l0. unfold LockInv.
    replace (get_lock (init_sys tss) l0) with free_lock by (destruct l0; reflexivity).
    cbn [free_lock readers writer wqueue b2n init_sys threads].
    rewrite !sumf_zero; [auto| | | ]; intros t Ht; destruct (Hh t Ht) as (H1 & H2 & _).
    - unfold wq. rewrite H2. reflexivity.
    - unfold hct. rewrite H1. reflexivity.
    - unfold hct. rewrite H1. reflexivity. }
  split; [apply HL|apply HL| | ].
  - apply Forall_forall. intros t Ht. destruct (Hh t Ht) as (H1 & H2 & cs & H3).
    split; [rewrite H1, H3; apply ts_idle|rewrite H2; discriminate].
  - cbn [init_sys dat in_call b2n threads]. rewrite sumf_zero; [reflexivity|].
    intros t Ht. destruct (Hh t Ht) as (H1 & _). unfold midt. rewrite H1. reflexivity.
Qed.

(* states reachable by any sequence of steps *)
Inductive sreach (s0 : sys) : sys -> Prop :=
| sreach_refl : sreach s0 s0
| sreach_step : forall s s', sreach s0 s -> sstep s s' -> sreach s0 s'.

Lemma sreach_trans : forall a b c, sreach a b -> sreach b c -> sreach a c.
Proof.
  intros a b c Hab Hbc. induction Hbc as [|s s' _ IH Hs]; [exact Hab|].
  eapply sreach_step; eauto.
Qed.

Lemma sreach_schedule : forall sched s, sreach s (run_schedule s sched).
Proof.
  induction sched as [|i r IH]; intros s; cbn; [apply sreach_refl|].
  destruct (step_thread s i) as [s'|] eqn:E; [|apply IH].
  eapply sreach_trans; [|apply IH]. eapply sreach_step; [apply sreach_refl|]. econstructor; eauto.
Qed.

(* conversely every reachable state is the result of some schedule *)
Lemma sreach_is_schedule : forall s0 s, sreach s0 s -> exists sched, s = run_schedule s0 sched.
Proof.
  intros s0 s H. induction H as [|s s' _ [sched IH] Hs].
  - exists []. reflexivity.
  - destruct Hs as [s1 i s2 Hst]. exists (sched ++ [i]). subst s1.
    assert (G : forall sch a, run_schedule a (sch ++ [i]) =
              match step_thread (run_schedule a sch) i with Some x => x | None => run_schedule a sch end).
    { induction sch as [|j r IHr]; intros a; cbn.
      - destruct (step_thread a i); reflexivity.
      - destruct (step_thread a j); apply IHr. }
    rewrite G, Hst. reflexivity.
Qed.

Lemma ProtoInv_sreach : forall s0 s, ProtoInv s0 -> sreach s0 s -> ProtoInv s.
Proof.
  intros s0 s H0 H. induction H as [|s s' _ IH Hs]; [exact H0|].
  destruct Hs as [s1 i s2 Hst]. eapply ProtoInv_step; eauto.
Qed.

Theorem proto_inv_reachable : forall tss s, sreach (init_sys tss) s -> ProtoInv s.
Proof. intros tss s H. eapply ProtoInv_sreach; [apply ProtoInv_init|exact H]. Qed.

Theorem proto_inv_schedule : forall tss sched, ProtoInv (run_schedule (init_sys tss) sched).
Proof. intros. eapply proto_inv_reachable. apply sreach_schedule. Qed.

(* ------------------------------------------------------------------ *)
(* (2) progress                                                        *)
(* ------------------------------------------------------------------ *)
(* thread-local reading of "thread i can move" *)
Definition enabled (s : sys) (t : thread) : bool :=
  match prog t with
  | [] => false
  | Acq l MR :: _ => can_read (get_lock s l)
  | Acq l MW :: _ => can_write (get_lock s l) || negb (queued t)
  | Rel l :: _ => match held t with (l', _) :: _ => lockid_eqb l l' | [] => false end
  | _ => true
  end.

Lemma step_enabled : forall s i t, nth_error (threads s) i = Some t ->
  (step_thread s i <> None <-> enabled s t = true).
Proof.
  intros s i t Hn. unfold step_thread, enabled. rewrite Hn.
  destruct (prog t) as [|[l [|]|l| | | | ] p]; try (split; congruence).
  - destruct (can_read (get_lock s l)); split; congruence.
  - destruct (can_write (get_lock s l)); cbn [orb]; [split; congruence|].
    destruct (queued t); cbn [negb]; split; congruence.
  - destruct (held t) as [|[l' m] h']; [split; congruence|].
    destruct (lockid_eqb l l'); split; congruence.
Qed.

Ltac shape_cases H :=
  destruct (tshape_cases _ _ H) as
    [[?E ?Hh]|[(?m&?q&?E&?Hh)|[(?q&?E&?Hh)|[(?q&?E&?Hh)|[(?q&?E&?Hh)|[(?q&?E&?Hh)|[(?q&?E&?Hh)|[(?q&?E&?Hh)|
     [(?q&?m&?h'&?E&?Hh&?Hh')|(?q&?m&?E&?Hh)]]]]]]]]].

Definition hd_free (t : thread) : bool :=
  match prog t with
  | (Read | Write | Begin | End | Rel _) :: _ => true
  | _ => false
  end.
Definition hd_acq (l : lockid) (t : thread) : bool :=
  match prog t with Acq l' _ :: _ => lockid_eqb l l' | _ => false end.
Definition hd_acqw (l : lockid) (t : thread) : bool :=
  match prog t with Acq l' MW :: _ => lockid_eqb l l' | _ => false end.

(* if nobody holds l and somebody wants it, somebody gets it (or enqueues) *)
Lemma acq_free_progress : forall s l t0, ProtoInv s ->
  (forall t, In t (threads s) -> hct l MR t = 0 /\ hct l MW t = 0) ->
  In t0 (threads s) -> hd_acq l t0 = true ->
  exists t, In t (threads s) /\ enabled s t = true.
Proof.
  intros s l t0 Hinv Hfree Hin0 Hacq.
  destruct (pi_lock s l Hinv) as (L1 & L2 & _ & L4).
  rewrite sumf_zero in L1 by (intros t Ht; apply Hfree; exact Ht).
  rewrite sumf_zero in L2 by (intros t Ht; apply Hfree; exact Ht).
  assert (Hw : writer (get_lock s l) = false) by (destruct (writer (get_lock s l)); [discriminate L2|reflexivity]).
  destruct (exists_or_all (hd_acqw l) (threads s)) as [[t [Ht Hp]]|Hall].
  - exists t. split; [exact Ht|]. unfold hd_acqw in Hp. unfold enabled.
    destruct (prog t) as [|[l' [|]|l'| | | | ] p]; try discriminate Hp.
    apply lockid_eqb_eq in Hp. subst l'. unfold can_write. rewrite Hw, L1. reflexivity.
  - rewrite sumf_zero in L4.
    2:{ intros t Ht. specialize (Hall t Ht). unfold hd_acqw in Hall. unfold wq.
        destruct (queued t); [|reflexivity].
        destruct (prog t) as [|[l' [|]|l'| | | | ] p]; try reflexivity. rewrite Hall. reflexivity. }
    exists t0. split; [exact Hin0|]. specialize (Hall t0 Hin0).
    unfold hd_acq in Hacq. unfold hd_acqw in Hall. unfold enabled.
    destruct (prog t0) as [|[l' [|]|l'| | | | ] p]; try discriminate Hacq.
    + apply lockid_eqb_eq in Hacq. subst l'. unfold can_read. rewrite Hw, L4. reflexivity.
    + congruence.
Qed.

Lemma progress_enabled : forall s, ProtoInv s -> all_done s = false ->
  exists t, In t (threads s) /\ enabled s t = true.
Proof.
  intros s Hinv Hnd.
  assert (Hshape : forall t, In t (threads s) -> tshape (prog t) (held t)).
  { intros t Ht. pose proof (pi_threads _ Hinv) as HT. rewrite Forall_forall in HT. apply HT. exact Ht. }
  destruct (exists_or_all hd_free (threads s)) as [[t [Ht Hp]]|Hnofree].
  { exists t. split; [exact Ht|]. pose proof (Hshape t Ht) as Hsh.
    unfold hd_free in Hp. unfold enabled.
    shape_cases Hsh; rewrite E in *; try discriminate Hp; try reflexivity; rewrite Hh; apply lockid_eqb_refl. }
  destruct (exists_or_all (hd_acq RM) (threads s)) as [[t0 [Ht0 Hp0]]|Hnorm].
  { apply (acq_free_progress s RM t0 Hinv); [|exact Ht0|exact Hp0].
    intros t Ht. pose proof (Hshape t Ht) as Hsh. specialize (Hnofree t Ht). unfold hd_free in Hnofree.
    unfold hct.
    shape_cases Hsh; rewrite E in *; try discriminate Hnofree;
      repeat match goal with H : _ \/ _ |- _ => destruct H end;
      match goal with H : held t = _ |- _ => rewrite H end; split; reflexivity. }
  assert (Hall : forall t, In t (threads s) -> held t = [] /\ (prog t = [] \/ hd_acq OUTER t = true)).
  { intros t Ht. pose proof (Hshape t Ht) as Hsh. specialize (Hnofree t Ht). specialize (Hnorm t Ht).
    unfold hd_free in Hnofree. unfold hd_acq in *.
    shape_cases Hsh; rewrite E in *; try discriminate Hnofree; try discriminate Hnorm; auto. }
  unfold all_done in Hnd.
  assert (Hex : exists t0, In t0 (threads s) /\ prog t0 <> []).
  { clear -Hnd. induction (threads s) as [|x r IH]; cbn in Hnd; [discriminate|].
    destruct (prog x) eqn:Ex.
    - cbn in Hnd. destruct (IH Hnd) as [t0 [H1 H2]]. exists t0. split; [right; exact H1|exact H2].
    - exists x. split; [left; reflexivity|congruence]. }
  destruct Hex as [t0 [Ht0 Hne]].
  apply (acq_free_progress s OUTER t0 Hinv); [|exact Ht0|].
  - intros t Ht. destruct (Hall t Ht) as [Hh _]. unfold hct. rewrite Hh. split; reflexivity.
  - destruct (Hall t0 Ht0) as [_ [Hp|Hp]]; [contradiction|exact Hp].
Qed.

(* deadlock freedom: a state satisfying the invariant that is not finished has
   a thread that can move *)
Theorem progress_inv : forall s, ProtoInv s -> all_done s = false ->
  exists i, step_thread s i <> None.
Proof.
  intros s Hinv Hnd. destruct (progress_enabled s Hinv Hnd) as [t [Ht He]].
  destruct (In_nth_error _ _ Ht) as [i Hi]. exists i.
  apply (step_enabled s i t Hi). exact He.
Qed.

Theorem progress : forall tss s, sreach (init_sys tss) s -> all_done s = false ->
  exists i, step_thread s i <> None.
Proof. intros tss s Hr. apply progress_inv. eapply proto_inv_reachable; eauto. Qed.

Theorem stuck_is_done : forall tss s, sreach (init_sys tss) s ->
  (forall i, step_thread s i = None) -> all_done s = true.
Proof.
  intros tss s Hr Hstuck. destruct (all_done s) eqn:E; [reflexivity|].
  destruct (progress tss s Hr E) as [i Hi]. elim Hi. apply Hstuck.
Qed.

(* ------------------------------------------------------------------ *)
(* a relational reading of step_thread                                 *)
(* ------------------------------------------------------------------ *)
Definition data_eff (ins : instr) (d : data) : data :=
  match ins with
  | Begin => {| version := version d; in_call := true; writes := writes d |}
  | End => {| version := S (version d); in_call := false; writes := writes d |}
  | Write => {| version := version d; in_call := in_call d; writes := S (writes d) |}
  | _ => d
  end.
Definition seen_eff (ins : instr) (d : data) (sn : list (nat * bool)) : list (nat * bool) :=
  match ins with Read => sn ++ [(version d, in_call d)] | _ => sn end.
Definition guard_ok (s : sys) (t : thread) (ins : instr) : Prop :=
  match ins with
  | Acq l MR => can_read (get_lock s l) = true
  | Acq l MW => can_write (get_lock s l) = true
  | Rel l => exists m h', held t = (l, m) :: h'
  | _ => True
  end.

Lemma step_spec : forall s i s', step_thread s i = Some s' ->
  exists t t', nth_error (threads s) i = Some t /\
    threads s' = replace_nth i t' (threads s) /\
    ((prog t' = prog t /\ held t' = held t /\ seen t' = seen t /\ queued t = false /\ queued t' = true /\
      dat s' = dat s /\ exists l p, prog t = Acq l MW :: p /\ can_write (get_lock s l) = false)
     \/
     (exists ins, prog t = ins :: prog t' /\ held t' = eff ins (held t) /\ queued t' = false /\
        seen t' = seen_eff ins (dat s) (seen t) /\ dat s' = data_eff ins (dat s) /\ guard_ok s t ins)).
Proof.
  intros s i s' Hst. unfold step_thread in Hst.
  destruct (nth_error (threads s) i) as [t|] eqn:Hn; [|discriminate].
  exists t.
  destruct (prog t) as [|[l [|]|l| | | | ] p'] eqn:Hp; try discriminate.
  - destruct (can_read (get_lock s l)) eqn:Hc; [|discriminate]. inversion Hst; subst s'; clear Hst.
    eexists. split; [reflexivity|]. split; [cbn [set_threads threads]; rewrite threads_set_lock; reflexivity|].
    right. exists (Acq l MR). cbn [prog held queued seen]. rewrite dat_set_threads, dat_set_lock.
    repeat split; auto.
  - destruct (can_write (get_lock s l)) eqn:Hc.
    + inversion Hst; subst s'; clear Hst.
      eexists. split; [reflexivity|]. split; [cbn [set_threads threads]; rewrite threads_set_lock; reflexivity|].
      right. exists (Acq l MW). cbn [prog held queued seen]. rewrite dat_set_threads, dat_set_lock.
      repeat split; auto.
    + destruct (queued t) eqn:Hq; [discriminate|]. inversion Hst; subst s'; clear Hst.
      eexists. split; [reflexivity|]. split; [cbn [set_threads threads]; rewrite threads_set_lock; reflexivity|].
      left. cbn [prog held queued seen]. rewrite dat_set_threads, dat_set_lock.
      repeat split; eauto.
  - destruct (held t) as [|[l' m] h'] eqn:Hh; [discriminate|].
    destruct (lockid_eqb l l') eqn:Hl; [|discriminate]. apply lockid_eqb_eq in Hl. subst l'.
    inversion Hst; subst s'; clear Hst.
    eexists. split; [reflexivity|]. split; [cbn [set_threads threads]; rewrite threads_set_lock; reflexivity|].
    right. exists (Rel l). cbn [prog held queued seen]. rewrite dat_set_threads, dat_set_lock.
    repeat split; cbn; eauto.
  - inversion Hst; subst s'; clear Hst.
    eexists. split; [reflexivity|]. split; [reflexivity|].
    right. exists Read. cbn [prog held queued seen]. repeat split; auto.
  - inversion Hst; subst s'; clear Hst.
    eexists. split; [reflexivity|]. split; [reflexivity|].
    right. exists Begin. cbn [prog held queued seen]. repeat split; auto.
  - inversion Hst; subst s'; clear Hst.
    eexists. split; [reflexivity|]. split; [reflexivity|].
    right. exists End. cbn [prog held queued seen]. repeat split; auto.
  - inversion Hst; subst s'; clear Hst.
    eexists. split; [reflexivity|]. split; [reflexivity|].
    right. exists Write. cbn [prog held queued seen]. repeat split; auto.
Qed.

(* ------------------------------------------------------------------ *)
(* termination: every step decreases a natural-number measure          *)
(* ------------------------------------------------------------------ *)
Definition tmeasure (t : thread) : nat := 2 * length (prog t) + (if queued t then 0 else 1).
Definition smeasure (s : sys) : nat := sumf tmeasure (threads s).

Lemma step_decreases : forall s i s', step_thread s i = Some s' -> smeasure s' < smeasure s.
Proof.
  intros s i s' Hst. destruct (step_spec s i s' Hst) as (t & t' & Hn & Hth & Hc).
  unfold smeasure. rewrite Hth. pose proof (sumf_replace tmeasure _ _ _ t' Hn) as Hs.
  assert (tmeasure t' < tmeasure t); [|lia].
  unfold tmeasure. destruct Hc as [(H1 & _ & _ & H2 & H3 & _)|(ins & H1 & _ & H2 & _)].
  - rewrite H1, H2, H3. lia.
  - rewrite H1, H2. cbn [length]. destruct (queued t); lia.
Qed.

Lemma sstep_decreases : forall s s', sstep s s' -> smeasure s' < smeasure s.
Proof. intros s s' [s1 i s2 H]. eapply step_decreases; eauto. Qed.

Theorem sstep_wf : well_founded (fun s' s => sstep s s').
Proof.
  apply (well_founded_lt_compat sys smeasure). intros x y H. apply sstep_decreases. exact H.
Qed.

Theorem no_infinite_run : forall f : nat -> sys, ~ (forall n, sstep (f n) (f (S n))).
Proof.
  intros f Hf.
  assert (H : forall n, smeasure (f n) + n <= smeasure (f 0)).
  { induction n as [|n IH]; [lia|]. pose proof (sstep_decreases _ _ (Hf n)). lia. }
  specialize (H (S (smeasure (f 0)))). lia.
Qed.

(* number of steps of a run *)
Inductive srun : sys -> nat -> sys -> Prop :=
| srun_0 : forall s, srun s 0 s
| srun_S : forall s s1 n s2, sstep s s1 -> srun s1 n s2 -> srun s (S n) s2.

Theorem run_length_bounded : forall s n s', srun s n s' -> smeasure s' + n <= smeasure s.
Proof.
  intros s n s' H. induction H as [s|s s1 n s2 Hs _ IH]; [lia|].
  pose proof (sstep_decreases _ _ Hs). lia.
Qed.

Lemma run_schedule_app : forall a b s, run_schedule s (a ++ b) = run_schedule (run_schedule s a) b.
Proof.
  induction a as [|i r IH]; intros b s; cbn; [reflexivity|].
  destruct (step_thread s i); apply IH.
Qed.

Lemma done_no_step : forall s i, all_done s = true -> step_thread s i = None.
Proof.
  intros s i Hd. unfold step_thread. destruct (nth_error (threads s) i) as [t|] eqn:Hn; [|reflexivity].
  unfold all_done in Hd. rewrite forallb_forall in Hd. specialize (Hd t (nth_error_In _ _ Hn)).
  destruct (prog t); [reflexivity|discriminate].
Qed.

Lemma done_run_schedule : forall sched s, all_done s = true -> run_schedule s sched = s.
Proof.
  induction sched as [|i r IH]; intros s Hd; cbn; [reflexivity|].
  rewrite (done_no_step s i Hd). apply IH. exact Hd.
Qed.

(* from every reachable state the system can run to completion *)
Theorem can_complete_inv : forall s, ProtoInv s -> exists sched, all_done (run_schedule s sched) = true.
Proof.
  intros s. remember (smeasure s) as k eqn:Hk. revert s Hk.
  induction k as [k IH] using lt_wf_ind. intros s Hk Hinv.
  destruct (all_done s) eqn:Hd.
  - exists []. exact Hd.
  - destruct (progress_inv s Hinv Hd) as [i Hi].
    destruct (step_thread s i) as [s'|] eqn:Hst; [|congruence].
    destruct (IH (smeasure s')) with (s := s') as [sched Hs]; [|reflexivity| |].
    + subst k. eapply step_decreases; eauto.
    + eapply ProtoInv_step; eauto.
    + exists (i :: sched). cbn. rewrite Hst. exact Hs.
Qed.

(* a schedule never increases the measure; if it does not decrease it, every
   scheduled thread was unable to move *)
Lemma run_schedule_measure : forall sched s,
  smeasure (run_schedule s sched) <= smeasure s /\
  (smeasure (run_schedule s sched) = smeasure s -> forall i, In i sched -> step_thread s i = None).
Proof.
  induction sched as [|i r IH]; intros s; cbn.
  - split; [lia|]. intros _ j [].
  - destruct (step_thread s i) as [s'|] eqn:Hst.
    + destruct (IH s') as [H1 _]. pose proof (step_decreases _ _ _ Hst). split; [lia|]. intros Heq. lia.
    + destruct (IH s) as [H1 H2]. split; [exact H1|].
      intros Heq j [<-|Hj]; [exact Hst|apply H2; assumption].
Qed.

Lemma step_length : forall s i s', step_thread s i = Some s' -> length (threads s') = length (threads s).
Proof.
  intros s i s' Hst. destruct (step_spec s i s' Hst) as (t & t' & _ & Hth & _).
  rewrite Hth. apply length_replace_nth.
Qed.

Lemma run_schedule_length : forall sched s, length (threads (run_schedule s sched)) = length (threads s).
Proof.
  induction sched as [|i r IH]; intros s; cbn; [reflexivity|].
  destruct (step_thread s i) as [s'|] eqn:Hst; [|apply IH].
  rewrite IH. eapply step_length; eauto.
Qed.

Lemma ProtoInv_schedule : forall sched s, ProtoInv s -> ProtoInv (run_schedule s sched).
Proof. intros sched s H. eapply ProtoInv_sreach; [exact H|apply sreach_schedule]. Qed.

(* a round mentions every thread at least once *)
Definition covers (n : nat) (seg : list nat) : Prop := forall i, i < n -> In i seg.

(* any fair schedule (enough rounds, each mentioning every thread) finishes
   every call of every thread *)
Theorem fair_schedule_completes_inv : forall segs s, ProtoInv s ->
  Forall (covers (length (threads s))) segs -> smeasure s <= length segs ->
  all_done (run_schedule s (concat segs)) = true.
Proof.
  induction segs as [|seg segs IH]; intros s Hinv Hcov Hm.
  - cbn in *. destruct (all_done s) eqn:Hd; [reflexivity|].
    destruct (progress_inv s Hinv Hd) as [i Hi].
    destruct (step_thread s i) as [s'|] eqn:Hst; [|congruence].
    pose proof (step_decreases _ _ _ Hst). lia.
  - cbn [concat]. rewrite run_schedule_app.
    destruct (all_done s) eqn:Hd.
    + rewrite (done_run_schedule seg s Hd). rewrite (done_run_schedule _ s Hd). exact Hd.
    + inversion Hcov as [|x y Hc Hcs]; subst.
      destruct (run_schedule_measure seg s) as [Hle Heq].
      apply IH.
      * apply ProtoInv_schedule. exact Hinv.
      * rewrite run_schedule_length. exact Hcs.
      * cbn [length] in Hm.
        assert (smeasure (run_schedule s seg) <> smeasure s); [|lia].
        intros E. specialize (Heq E).
        destruct (progress_inv s Hinv Hd) as [i Hi]. apply Hi. apply Heq. apply Hc.
        unfold step_thread in Hi. destruct (nth_error (threads s) i) eqn:Hn; [|congruence].
        apply nth_error_Some. congruence.
Qed.

Theorem fair_schedule_completes : forall tss segs,
  Forall (covers (length tss)) segs -> smeasure (init_sys tss) <= length segs ->
  all_done (run_schedule (init_sys tss) (concat segs)) = true.
Proof.
  intros tss segs Hc Hm. apply fair_schedule_completes_inv; [apply ProtoInv_init| |exact Hm].
  cbn [init_sys threads]. rewrite map_length. exact Hc.
Qed.

(* round-robin instance *)
Lemma covers_seq : forall n, covers n (seq 0 n).
Proof. intros n i Hi. apply in_seq. lia. Qed.

Theorem round_robin_completes : forall tss,
  all_done (run_schedule (init_sys tss)
              (concat (repeat (seq 0 (length tss)) (smeasure (init_sys tss))))) = true.
Proof.
  intros tss. apply fair_schedule_completes.
  - apply Forall_forall. intros x Hx. apply repeat_spec in Hx. subst x. apply covers_seq.
  - rewrite repeat_length. lia.
Qed.

(* ------------------------------------------------------------------ *)
(* consequences of the invariant: exclusion                            *)
(* ------------------------------------------------------------------ *)
Lemma sumf_two : forall {A} (f : A -> nat) l i j a b,
  nth_error l i = Some a -> nth_error l j = Some b -> i <> j -> f a + f b <= sumf f l.
Proof.
  intros A f l; induction l as [|x r IH]; intros i j a b Hi Hj Hne.
  - destruct i; discriminate.
  - destruct i as [|i], j as [|j]; cbn in *.
    + congruence.
    + inversion Hi; subst. pose proof (sumf_ge f r b (nth_error_In _ _ Hj)). lia.
    + inversion Hj; subst. pose proof (sumf_ge f r a (nth_error_In _ _ Hi)). lia.
    + assert (i <> j) by congruence. specialize (IH i j a b Hi Hj H). lia.
Qed.

(* a lock held for writing is held by nobody for reading *)
Theorem excl_writer_reader : forall s l t1 t2, ProtoInv s ->
  In t1 (threads s) -> In t2 (threads s) -> hct l MW t1 >= 1 -> hct l MR t2 = 0.
Proof.
  intros s l t1 t2 Hinv H1 H2 Hw.
  destruct (pi_lock s l Hinv) as (L1 & L2 & L3 & _).
  pose proof (sumf_ge (hct l MW) _ _ H1) as G.
  assert (Hwr : writer (get_lock s l) = true).
  { destruct (writer (get_lock s l)); [reflexivity|cbn [b2n] in L2; lia]. }
  specialize (L3 Hwr). rewrite L3 in L1. symmetry in L1.
  apply (sumf_zero_inv _ _ t2 L1 H2).
Qed.

(* at most one thread holds a lock for writing *)
Theorem excl_writer_writer : forall s l i j t1 t2, ProtoInv s ->
  nth_error (threads s) i = Some t1 -> nth_error (threads s) j = Some t2 -> i <> j ->
  hct l MW t1 >= 1 -> hct l MW t2 = 0.
Proof.
  intros s l i j t1 t2 Hinv H1 H2 Hne Hw.
  destruct (pi_lock s l Hinv) as (_ & L2 & _ & _).
  pose proof (sumf_two (hct l MW) _ _ _ _ _ H1 H2 Hne) as G.
  destruct (writer (get_lock s l)); cbn [b2n] in L2; lia.
Qed.

(* the shape of every thread *)
Theorem thread_shape : forall s t, ProtoInv s -> In t (threads s) -> tshape (prog t) (held t).
Proof.
  intros s t Hinv Ht. pose proof (pi_threads _ Hinv) as HT. rewrite Forall_forall in HT.
  apply HT. exact Ht.
Qed.

(* a Read and a Write are never both about to run (RM exclusion) *)
Theorem read_write_exclusive : forall s t1 t2 p1 p2, ProtoInv s ->
  In t1 (threads s) -> In t2 (threads s) ->
  prog t1 = Read :: p1 -> prog t2 = Write :: p2 -> False.
Proof.
  intros s t1 t2 p1 p2 Hinv H1 H2 E1 E2.
  pose proof (thread_shape s t1 Hinv H1) as S1. pose proof (thread_shape s t2 Hinv H2) as S2.
  assert (A : hct RM MR t1 >= 1).
  { unfold hct. shape_cases S1; rewrite E in E1; try discriminate E1.
    destruct Hh as [Hh|Hh]; rewrite Hh; cbn; lia. }
  assert (B : hct RM MW t2 >= 1).
  { unfold hct. shape_cases S2; rewrite E in E2; try discriminate E2. rewrite Hh; cbn; lia. }
  pose proof (excl_writer_reader s RM t2 t1 Hinv H2 H1 B). lia.
Qed.

(* two Writes are never both about to run *)
Theorem write_write_exclusive : forall s i j t1 t2 p1 p2, ProtoInv s ->
  nth_error (threads s) i = Some t1 -> nth_error (threads s) j = Some t2 -> i <> j ->
  prog t1 = Write :: p1 -> prog t2 = Write :: p2 -> False.
Proof.
  intros s i j t1 t2 p1 p2 Hinv H1 H2 Hne E1 E2.
  pose proof (thread_shape s t1 Hinv (nth_error_In _ _ H1)) as S1.
  pose proof (thread_shape s t2 Hinv (nth_error_In _ _ H2)) as S2.
  assert (A : hct RM MW t1 >= 1).
  { unfold hct. shape_cases S1; rewrite E in E1; try discriminate E1. rewrite Hh; cbn; lia. }
  assert (B : hct RM MW t2 >= 1).
  { unfold hct. shape_cases S2; rewrite E in E2; try discriminate E2. rewrite Hh; cbn; lia. }
  pose proof (excl_writer_writer s RM i j t1 t2 Hinv H1 H2 Hne A). lia.
Qed.

(* while anybody holds OUTER for reading, no management call is in progress *)
Theorem outer_reader_quiescent : forall s t, ProtoInv s -> In t (threads s) ->
  hct OUTER MR t >= 1 -> in_call (dat s) = false.
Proof.
  intros s t Hinv Ht Hr.
  destruct (pi_outer _ Hinv) as (L1 & L2 & L3 & _).
  pose proof (sumf_ge (hct OUTER MR) _ _ Ht) as G.
  assert (Hw : writer (get_lock s OUTER) = false).
  { destruct (writer (get_lock s OUTER)); [specialize (L3 eq_refl); lia|reflexivity]. }
  rewrite Hw in L2. cbn [b2n] in L2.
  pose proof (pi_mid _ Hinv) as HM.
  assert (sumf midt (threads s) <= sumf (hct OUTER MW) (threads s)).
  { clear. induction (threads s) as [|x r IH]; cbn; [lia|]. pose proof (mid_le (prog x) (held x)).
    unfold midt at 1. unfold hct at 1. lia. }
  destruct (in_call (dat s)); [cbn [b2n] in HM; lia|reflexivity].
Qed.

(* the outer lock is free for readers only when no call is in progress *)
Lemma can_read_outer_quiescent : forall s, ProtoInv s ->
  writer (get_lock s OUTER) = false -> in_call (dat s) = false.
Proof.
  intros s Hinv Hw.
  destruct (pi_outer _ Hinv) as (_ & L2 & _ & _). rewrite Hw in L2. cbn [b2n] in L2.
  pose proof (pi_mid _ Hinv) as HM.
  assert (sumf midt (threads s) <= sumf (hct OUTER MW) (threads s)).
  { clear. induction (threads s) as [|x r IH]; cbn; [lia|]. pose proof (mid_le (prog x) (held x)).
    unfold midt at 1. unfold hct at 1. lia. }
  destruct (in_call (dat s)); [cbn [b2n] in HM; lia|reflexivity].
Qed.

(* ------------------------------------------------------------------ *)
(* counters: version = completed management calls, writes = mutations  *)
(* ------------------------------------------------------------------ *)
Definition is_write (i : instr) : nat := match i with Write => 1 | _ => 0 end.
Definition is_read (i : instr) : nat := match i with Read => 1 | _ => 0 end.
Definition n_mgmt (cs : list call) : nat := sumf (fun c => match c with CMgmt _ => 1 | _ => 0 end) cs.
Definition n_writes (cs : list call) : nat := sumf (fun c => match c with CMgmt k => k | _ => 0 end) cs.
Definition n_reads (cs : list call) : nat :=
  sumf (fun c => match c with CEnforce k => k | CHandle k => k | CMgmt _ => 0 end) cs.

Lemma sumf_app : forall {A} (f : A -> nat) a b, sumf f (a ++ b) = sumf f a + sumf f b.
Proof. intros A f a b. induction a as [|x r IH]; cbn; [reflexivity|]. lia. Qed.

Lemma sumf_repeat_prog : forall (f : instr -> nat) k p, sumf f (repeat_prog k p) = k * sumf f p.
Proof. intros f k p. induction k as [|k IH]; cbn [repeat_prog]; [reflexivity|]. rewrite sumf_app, IH. lia. Qed.

Lemma sumf_call_prog : forall (f : instr -> nat) c,
  sumf f (call_prog c) =
  match c with
  | CEnforce k => f (Acq OUTER MR) + k * (f (Acq RM MR) + f Read + f (Rel RM)) + f (Rel OUTER)
  | CMgmt k => f (Acq OUTER MW) + f Begin + k * (f (Acq RM MW) + f Write + f (Rel RM)) + f End + f (Rel OUTER)
  | CHandle k => k * (f (Acq RM MR) + f Read + f (Rel RM))
  end.
Proof.
  intros f [k|k|k]; cbn [call_prog]; unfold enforce_prog, mgmt_prog, handle_read_prog;
    cbn [sumf]; rewrite ?sumf_app, ?sumf_repeat_prog; cbn [sumf]; lia.
Qed.

Lemma rest_count : forall (f : instr -> nat) cs, sumf f (rest cs) = sumf (fun c => sumf f (call_prog c)) cs.
Proof.
  intros f cs. unfold rest. induction cs as [|c cs IH]; cbn [flat_map sumf]; [reflexivity|].
  rewrite sumf_app, IH. reflexivity.
Qed.

Definition pending (f : instr -> nat) (s : sys) : nat := sumf (fun t => sumf f (prog t)) (threads s).

Lemma counters_step : forall s i s', step_thread s i = Some s' ->
  version (dat s') + pending is_end s' = version (dat s) + pending is_end s /\
  writes (dat s') + pending is_write s' = writes (dat s) + pending is_write s /\
  version (dat s) <= version (dat s').
Proof.
  intros s i s' Hst. destruct (step_spec s i s' Hst) as (t & t' & Hn & Hth & Hc).
  unfold pending. rewrite Hth.
  pose proof (sumf_replace (fun t => sumf is_end (prog t)) _ _ _ t' Hn) as H1.
  pose proof (sumf_replace (fun t => sumf is_write (prog t)) _ _ _ t' Hn) as H2.
  cbn beta in H1, H2.
  destruct Hc as [(Hp & _ & _ & _ & _ & Hd & _)|(ins & Hp & _ & _ & _ & Hd & _)].
  - rewrite Hp in *. rewrite Hd. lia.
  - rewrite Hp in *. rewrite Hd. cbn [sumf] in *.
    destruct ins; cbn [data_eff version writes is_end is_write] in *; lia.
Qed.

Lemma pending_init : forall f tss,
  pending f (init_sys tss) = sumf (fun cs => sumf (fun c => sumf f (call_prog c)) cs) tss.
Proof.
  intros f tss. unfold pending. cbn [init_sys threads].
  induction tss as [|cs tss IH]; cbn [map sumf]; [reflexivity|].
  rewrite IH. cbn [thread_of prog]. fold (rest cs). rewrite rest_count. reflexivity.
Qed.

(* the version counter is the number of management calls completed so far,
   the writes counter the number of mutations performed so far *)
Theorem counters_reachable : forall tss s, sreach (init_sys tss) s ->
  version (dat s) + pending is_end s = sumf n_mgmt tss /\
  writes (dat s) + pending is_write s = sumf n_writes tss.
Proof.
  intros tss s H. induction H as [|s s' _ IH Hs].
  - rewrite !pending_init. cbn [init_sys dat version writes]. split.
    + apply sumf_ext. intros cs _. unfold n_mgmt. apply sumf_ext. intros c _.
      rewrite sumf_call_prog. destruct c; cbn [is_end]; lia.
    + apply sumf_ext. intros cs _. unfold n_writes. apply sumf_ext. intros c _.
      rewrite sumf_call_prog. destruct c; cbn [is_write]; lia.
  - destruct Hs as [s1 i s2 Hst]. destruct (counters_step _ _ _ Hst) as (A & B & _). lia.
Qed.

Lemma pending_done : forall f s, all_done s = true -> pending f s = 0.
Proof.
  intros f s Hd. unfold pending. apply sumf_zero. intros t Ht.
  unfold all_done in Hd. rewrite forallb_forall in Hd. specialize (Hd t Ht).
  destruct (prog t); [reflexivity|discriminate].
Qed.

(* at completion every management call and every mutation has been applied
   exactly once, whatever the interleaving *)
Theorem final_counters : forall tss s, sreach (init_sys tss) s -> all_done s = true ->
  version (dat s) = sumf n_mgmt tss /\ writes (dat s) = sumf n_writes tss /\ in_call (dat s) = false.
Proof.
  intros tss s Hr Hd. destruct (counters_reachable tss s Hr) as [A B].
  rewrite (pending_done _ s Hd) in A. rewrite (pending_done _ s Hd) in B. split; [lia|]. split; [lia|].
  pose proof (proto_inv_reachable tss s Hr) as Hinv. pose proof (pi_mid _ Hinv) as HM.
  rewrite sumf_zero in HM.
  - destruct (in_call (dat s)); [discriminate HM|reflexivity].
  - intros t Ht. pose proof (thread_shape s t Hinv Ht) as Hsh.
    unfold all_done in Hd. rewrite forallb_forall in Hd. specialize (Hd t Ht).
    unfold midt. destruct (prog t) eqn:Ep; [|discriminate].
    shape_cases Hsh; try discriminate E. rewrite Hh. reflexivity.
Qed.

Lemma version_monotone : forall s0 s, sreach s0 s -> version (dat s0) <= version (dat s).
Proof.
  intros s0 s H. induction H as [|s s' _ IH Hs]; [lia|].
  destruct Hs as [s1 i s2 Hst]. destruct (counters_step _ _ _ Hst) as (_ & _ & C). lia.
Qed.

(* ------------------------------------------------------------------ *)
(* (3) what the reads of a thread saw                                  *)
(* ------------------------------------------------------------------ *)
(* the observations of one complete call *)
Definition block_full (c : call) (b : list (nat * bool)) : Prop :=
  match c with
  | CEnforce k => exists v, b = repeat (v, false) k
  | CMgmt _ => b = []
  | CHandle k => length b = k
  end.

(* position of a thread inside its original call list cs0, and what it has
   seen so far; v/ic are the current version / in-call flag *)
Inductive rinv (v : nat) (ic : bool) (cs0 : list call) (t : thread) : Prop :=
| ri_idle : forall pre post bs,
    cs0 = pre ++ post -> Forall2 block_full pre bs -> seen t = concat bs ->
    prog t = rest post -> rinv v ic cs0 t
| ri_enf : forall pre k post bs q m,
    cs0 = pre ++ CEnforce k :: post -> Forall2 block_full pre bs ->
    seen t = concat bs ++ repeat (v, false) m ->
    prog t = q ++ Rel OUTER :: rest post ->
    Forall (fun i => In i RB) q -> sumf is_read q + m = k ->
    In (OUTER, MR) (held t) -> ic = false -> rinv v ic cs0 t
| ri_mgmt : forall pre k post bs q,
    cs0 = pre ++ CMgmt k :: post -> Forall2 block_full pre bs -> seen t = concat bs ->
    prog t = q ++ rest post -> q <> [] -> sumf is_read q = 0 -> rinv v ic cs0 t
| ri_handle : forall pre k post bs q cur,
    cs0 = pre ++ CHandle k :: post -> Forall2 block_full pre bs -> seen t = concat bs ++ cur ->
    prog t = q ++ rest post -> q <> [] -> sumf is_read q + length cur = k -> rinv v ic cs0 t.

Lemma Forall_RB_repeat : forall k, Forall (fun i => In i RB) (repeat_prog k RB).
Proof.
  induction k as [|k IH]; cbn [repeat_prog]; [constructor|].
  apply Forall_app. split; [|exact IH]. apply Forall_forall. intros x Hx. exact Hx.
Qed.

Lemma Forall2_snoc : forall {A B} (R : A -> B -> Prop) l1 l2 a b,
  Forall2 R l1 l2 -> R a b -> Forall2 R (l1 ++ [a]) (l2 ++ [b]).
Proof. intros. apply Forall2_app; [assumption|]. constructor; [assumption|constructor]. Qed.

Lemma concat_snoc : forall {A} (bs : list (list A)) b, concat (bs ++ [b]) = concat bs ++ b.
Proof. intros. rewrite concat_app. cbn. rewrite app_nil_r. reflexivity. Qed.

Lemma snoc_app : forall {A} (pre : list A) c post, pre ++ c :: post = (pre ++ [c]) ++ post.
Proof. intros. rewrite <- app_assoc. reflexivity. Qed.

Lemma idle_step : forall d post pre bs cs0 t' ins h,
  cs0 = pre ++ post -> Forall2 block_full pre bs ->
  rest post = ins :: prog t' -> held t' = eff ins h ->
  seen t' = seen_eff ins d (concat bs) ->
  (ins = Acq OUTER MR -> in_call d = false) ->
  rinv (version (data_eff ins d)) (in_call (data_eff ins d)) cs0 t'.
Proof.
  intros d post. induction post as [|c post IH]; intros pre bs cs0 t' ins h Hcs Hbs Hp Hh Hs Hq.
  - discriminate Hp.
  - destruct c as [k|k|k].
    + unfold rest in Hp. cbn [flat_map call_prog] in Hp. unfold enforce_prog in Hp.
      cbn [app] in Hp. rewrite <- app_assoc in Hp. cbn [app] in Hp. inversion Hp as [[Hi Hp']]. subst ins.
      cbn [data_eff seen_eff eff] in *.
      eapply (ri_enf _ _ _ _ pre k post bs (repeat_prog k RB) 0); eauto.
      * cbn [repeat]. rewrite app_nil_r. exact Hs.
      * apply Forall_RB_repeat.
      * rewrite sumf_repeat_prog. cbn. lia.
      * rewrite Hh. left. reflexivity.
    + unfold rest in Hp. cbn [flat_map call_prog] in Hp. unfold mgmt_prog in Hp.
      cbn [app] in Hp. inversion Hp as [[Hi Hp']]. subst ins.
      cbn [data_eff seen_eff eff] in *.
      eapply (ri_mgmt _ _ _ _ pre k post bs (Begin :: repeat_prog k WB ++ [End; Rel OUTER])); eauto.
      * discriminate.
      * cbn [sumf]. rewrite sumf_app, sumf_repeat_prog. cbn. lia.
    + destruct k as [|k].
      * apply (IH (pre ++ [CHandle 0]) (bs ++ [[]]) cs0 t' ins h); auto.
        -- rewrite Hcs. apply snoc_app.
        -- apply Forall2_snoc; [exact Hbs|reflexivity].
        -- rewrite concat_snoc, app_nil_r. exact Hs.
      * unfold rest in Hp. cbn [flat_map call_prog] in Hp. unfold handle_read_prog in Hp.
        cbn [repeat_prog RB app] in Hp. inversion Hp as [[Hi Hp']]. subst ins.
        cbn [data_eff seen_eff eff] in *.
        eapply (ri_handle _ _ _ _ pre (S k) post bs (Read :: Rel RM :: repeat_prog k RB) []); eauto.
        -- rewrite app_nil_r. exact Hs.
        -- discriminate.
        -- cbn [sumf]. rewrite sumf_repeat_prog. cbn. lia.
Qed.

Lemma rinv_step : forall d cs0 t t' ins,
  rinv (version d) (in_call d) cs0 t ->
  prog t = ins :: prog t' -> held t' = eff ins (held t) -> seen t' = seen_eff ins d (seen t) ->
  (forall l, ins = Rel l -> exists m h', held t = (l, m) :: h') ->
  (ins = Acq OUTER MR -> in_call d = false) ->
  rinv (version (data_eff ins d)) (in_call (data_eff ins d)) cs0 t'.
Proof.
  intros d cs0 t t' ins Hr Hp Hh Hs Hrel Hacq.
  destruct Hr as [pre post bs Hcs Hbs Hsn Hpr
                 |pre k post bs q m Hcs Hbs Hsn Hpr Hq Hcnt Hin Hic
                 |pre k post bs q Hcs Hbs Hsn Hpr Hne Hcnt
                 |pre k post bs q cur Hcs Hbs Hsn Hpr Hne Hcnt].
  - eapply (idle_step d post pre bs cs0 t' ins (held t)); eauto.
    + rewrite <- Hpr. exact Hp.
    + rewrite <- Hsn. exact Hs.
  - destruct q as [|i q'].
    + cbn [app] in Hpr. rewrite Hpr in Hp. inversion Hp as [[Hi Hp']]. subst ins.
      cbn [data_eff seen_eff eff sumf] in *.
      eapply (ri_idle _ _ _ _ (pre ++ [CEnforce k]) post (bs ++ [repeat (version d, false) k])).
      * rewrite Hcs. apply snoc_app.
      * apply Forall2_snoc; [exact Hbs|]. exists (version d). reflexivity.
      * rewrite concat_snoc, Hs, Hsn. replace m with k by lia. reflexivity.
      * symmetry. exact Hp'.
    + cbn [app] in Hpr. rewrite Hpr in Hp. inversion Hp as [[Hi Hp']]. subst i.
      pose proof (Forall_inv Hq) as Hx. pose proof (Forall_inv_tail Hq) as Hq'. cbn beta in Hx.
      cbn [sumf] in Hcnt.
      destruct Hx as [<-|[<-|[<-|[]]]]; cbn [data_eff seen_eff eff is_read] in *.
      * eapply (ri_enf _ _ _ _ pre _ post bs q' m); eauto.
        -- rewrite Hs. exact Hsn.
        -- rewrite Hh. right. exact Hin.
      * eapply (ri_enf _ _ _ _ pre _ post bs q' (S m)); eauto.
        -- rewrite Hs, Hsn, Hic. rewrite <- app_assoc. f_equal.
           change (repeat (version d, false) (S m)) with ((version d, false) :: repeat (version d, false) m).
           rewrite repeat_cons. reflexivity.
        -- lia.
        -- rewrite Hh. exact Hin.
      * eapply (ri_enf _ _ _ _ pre _ post bs q' m); eauto.
        -- rewrite Hs. exact Hsn.
        -- rewrite Hh. destruct (Hrel RM eq_refl) as (m0 & h' & Hh0). rewrite Hh0 in *. cbn [tl].
           destruct Hin as [Hin|Hin]; [discriminate Hin|exact Hin].
  - destruct q as [|i q']; [congruence|].
    cbn [app] in Hpr. rewrite Hpr in Hp. inversion Hp as [[Hi Hp']]. subst i.
    cbn [sumf] in Hcnt.
    assert (Hs' : seen t' = concat bs).
    { rewrite Hs, Hsn. destruct ins; cbn [is_read] in Hcnt; try reflexivity. lia. }
    destruct q' as [|i2 q2].
    + eapply (ri_idle _ _ _ _ (pre ++ [CMgmt k]) post (bs ++ [[]])).
      * rewrite Hcs. apply snoc_app.
      * apply Forall2_snoc; [exact Hbs|reflexivity].
      * rewrite concat_snoc, app_nil_r. exact Hs'.
      * symmetry. exact Hp'.
    + eapply (ri_mgmt _ _ _ _ pre k post bs (i2 :: q2)); eauto.
      * discriminate.
      * lia.
  - destruct q as [|i q']; [congruence|].
    cbn [app] in Hpr. rewrite Hpr in Hp. inversion Hp as [[Hi Hp']]. subst i.
    cbn [sumf] in Hcnt.
    assert (Hs' : exists cur', seen t' = concat bs ++ cur' /\ sumf is_read q' + length cur' = k).
    { destruct ins; cbn [is_read seen_eff] in *;
        try (exists cur; split; [rewrite Hs; exact Hsn|lia]).
      exists (cur ++ [(version d, in_call d)]). split.
      - rewrite Hs, Hsn, app_assoc. reflexivity.
      - rewrite app_length. cbn [length]. lia. }
    destruct Hs' as (cur' & Hs1 & Hs2).
    destruct q' as [|i2 q2].
    + eapply (ri_idle _ _ _ _ (pre ++ [CHandle k]) post (bs ++ [cur'])).
      * rewrite Hcs. apply snoc_app.
      * apply Forall2_snoc; [exact Hbs|]. cbn [block_full sumf] in *. lia.
      * rewrite concat_snoc. exact Hs1.
      * symmetry. exact Hp'.
    + eapply (ri_handle _ _ _ _ pre k post bs (i2 :: q2) cur'); eauto. discriminate.
Qed.

Lemma rinv_same : forall v ic cs0 t t', rinv v ic cs0 t ->
  prog t' = prog t -> held t' = held t -> seen t' = seen t -> rinv v ic cs0 t'.
Proof.
  intros v ic cs0 t t' Hr Hp Hh Hs.
  destruct Hr; [eapply ri_idle|eapply ri_enf|eapply ri_mgmt|eapply ri_handle]; eauto; congruence.
Qed.

Lemma rinv_data_change : forall v ic v' ic' cs0 t, rinv v ic cs0 t ->
  (~ In (OUTER, MR) (held t) \/ (v' = v /\ ic' = ic)) -> rinv v' ic' cs0 t.
Proof.
  intros v ic v' ic' cs0 t Hr Hc.
  destruct Hr as [pre post bs Hcs Hbs Hsn Hpr
                 |pre k post bs q m Hcs Hbs Hsn Hpr Hq Hcnt Hin Hic
                 |pre k post bs q Hcs Hbs Hsn Hpr Hne Hcnt
                 |pre k post bs q cur Hcs Hbs Hsn Hpr Hne Hcnt].
  - eapply ri_idle; eauto.
  - destruct Hc as [Hc|[-> ->]]; [contradiction|]. eapply ri_enf; eauto.
  - eapply ri_mgmt; eauto.
  - eapply ri_handle; eauto.
Qed.

Lemma hc_zero_notin : forall l m h, hc l m h = 0 -> ~ In (l, m) h.
Proof.
  intros l m h; induction h as [|[l' m'] r IH]; intros Hz Hin; [contradiction|].
  cbn [hc] in Hz. destruct Hin as [Hin|Hin].
  - inversion Hin; subst. rewrite lockid_eqb_refl in Hz. destruct m; cbn in Hz; lia.
  - apply IH; [lia|exact Hin].
Qed.

Lemma Forall2_nth_r : forall {A B} (R : A -> B -> Prop) l1 l2 i b,
  Forall2 R l1 l2 -> nth_error l2 i = Some b -> exists a, nth_error l1 i = Some a /\ R a b.
Proof.
  intros A B R l1 l2 i b H. revert i. induction H as [|x y l1 l2 Hxy _ IH]; intros i Hn.
  - destruct i; discriminate.
  - destruct i as [|i]; cbn in *.
    + inversion Hn; subst. eauto.
    + apply IH. exact Hn.
Qed.

Lemma Forall2_nth_l : forall {A B} (R : A -> B -> Prop) l1 l2 i a,
  Forall2 R l1 l2 -> nth_error l1 i = Some a -> exists b, nth_error l2 i = Some b /\ R a b.
Proof.
  intros A B R l1 l2 i a H. revert i. induction H as [|x y l1 l2 Hxy _ IH]; intros i Hn.
  - destruct i; discriminate.
  - destruct i as [|i]; cbn in *.
    + inversion Hn; subst. eauto.
    + apply IH. exact Hn.
Qed.

Lemma Forall2_impl_In : forall {A B} (R R' : A -> B -> Prop) l1 l2,
  Forall2 R l1 l2 -> (forall x y, In y l2 -> R x y -> R' x y) -> Forall2 R' l1 l2.
Proof.
  intros A B R R' l1 l2 H. induction H as [|x y l1 l2 Hxy Hr IH]; intros Himp; constructor.
  - apply Himp; [left; reflexivity|exact Hxy].
  - apply IH. intros x0 y0 Hy. apply Himp. right. exact Hy.
Qed.

Lemma Forall2_replace : forall {A B} (R R' : A -> B -> Prop) l1 l2 i a b',
  Forall2 R l1 l2 -> nth_error l1 i = Some a ->
  (forall x y, In y l2 -> R x y -> R' x y) -> R' a b' ->
  Forall2 R' l1 (replace_nth i b' l2).
Proof.
  intros A B R R' l1 l2 i a b' H. revert i. induction H as [|x y l1 l2 Hxy Hr IH]; intros i Hn Himp Hab.
  - destruct i; discriminate.
  - destruct i as [|i]; cbn in *.
    + inversion Hn; subst. constructor; [exact Hab|].
      eapply Forall2_impl_In; [exact Hr|]. intros x0 y0 Hy. apply Himp. right. exact Hy.
    + constructor; [apply Himp; [left; reflexivity|exact Hxy]|].
      apply (IH i Hn); [|exact Hab]. intros x0 y0 Hy. apply Himp. right. exact Hy.
Qed.

Definition ReadInv (tss : list (list call)) (s : sys) : Prop :=
  Forall2 (rinv (version (dat s)) (in_call (dat s))) tss (threads s).

Lemma ReadInv_init : forall tss, ReadInv tss (init_sys tss).
Proof.
  intros tss. unfold ReadInv. cbn [init_sys threads dat version in_call].
  induction tss as [|cs tss IH]; cbn [map]; constructor; [|exact IH].
  apply (ri_idle _ _ _ _ [] cs []); try reflexivity. constructor.
Qed.

Lemma ReadInv_step : forall tss s i s', ProtoInv s -> ReadInv tss s ->
  step_thread s i = Some s' -> ReadInv tss s'.
Proof.
  intros tss s i s' Hinv Hr Hst.
  destruct (step_spec s i s' Hst) as (t & t' & Hn & Hth & Hc).
  unfold ReadInv in *. rewrite Hth.
  destruct (Forall2_nth_r _ _ _ _ _ Hr Hn) as (cs0 & Hn0 & Hrt).
  assert (Hin : In t (threads s)) by (eapply nth_error_In; eauto).
  destruct Hc as [(Hp & Hh & Hs & _ & _ & Hd & _)|(ins & Hp & Hh & _ & Hs & Hd & Hg)].
  - rewrite Hd. eapply Forall2_replace; eauto. eapply rinv_same; eauto.
  - rewrite Hd. eapply (Forall2_replace _ _ _ _ _ _ _ Hr Hn0).
    + intros cs y Hy Hry. eapply rinv_data_change; [exact Hry|].
      pose proof (thread_shape s t Hinv Hin) as Hsh. rewrite Hp in Hsh.
      destruct ins; cbn [data_eff version in_call]; auto; left;
        apply hc_zero_notin; apply (excl_writer_reader s OUTER t y Hinv Hin Hy);
        unfold hct; shape_cases Hsh; try discriminate E; rewrite Hh0; cbn; lia.
    + eapply rinv_step; eauto.
      * intros l El. subst ins. exact Hg.
      * intros El. subst ins. cbn [guard_ok] in Hg.
        apply can_read_outer_quiescent; [exact Hinv|].
        unfold can_read in Hg. apply andb_true_iff in Hg. destruct Hg as [Hg _].
        apply negb_true_iff in Hg. exact Hg.
Qed.

Lemma ReadInv_sreach : forall tss s0 s, ProtoInv s0 -> ReadInv tss s0 -> sreach s0 s -> ReadInv tss s.
Proof.
  intros tss s0 s H0 R0 H. induction H as [|s s' Hr IH Hs]; [exact R0|].
  destruct Hs as [s1 i s2 Hst]. eapply ReadInv_step; [|exact IH|exact Hst].
  eapply ProtoInv_sreach; eauto.
Qed.

Theorem read_inv_reachable : forall tss s, sreach (init_sys tss) s -> ReadInv tss s.
Proof. intros tss s H. eapply ReadInv_sreach; [apply ProtoInv_init|apply ReadInv_init|exact H]. Qed.

(* ---- user-facing consequences ---- *)
Definition block_partial (c : call) (b : list (nat * bool)) : Prop :=
  match c with
  | CEnforce k => exists v m, m <= k /\ b = repeat (v, false) m
  | CMgmt _ => b = []
  | CHandle k => length b <= k
  end.

Lemma rest_nil_blocks : forall post, rest post = [] -> Forall2 block_full post (map (fun _ => []) post).
Proof.
  induction post as [|c post IH]; intros H; cbn [map]; [constructor|].
  unfold rest in H. cbn [flat_map] in H. apply app_eq_nil in H. destruct H as [Hc Hr].
  constructor; [|apply IH; exact Hr].
  destruct c as [k|k|k]; cbn in Hc; try discriminate Hc.
  destruct k; [reflexivity|discriminate Hc].
Qed.

Lemma concat_nils : forall {A B} (l : list B), concat (map (fun _ => @nil A) l) = [].
Proof. intros A B l. induction l; cbn; auto. Qed.

(* at any time: completed calls contributed full blocks, the current call a
   partial one *)
Theorem seen_structure : forall tss s i cs t, sreach (init_sys tss) s ->
  nth_error tss i = Some cs -> nth_error (threads s) i = Some t ->
  exists pre post bs cur, cs = pre ++ post /\ Forall2 block_full pre bs /\
    seen t = concat bs ++ cur /\
    (cur = [] \/ exists c post', post = c :: post' /\ block_partial c cur).
Proof.
  intros tss s i cs t Hr Hc Ht.
  pose proof (read_inv_reachable tss s Hr) as HR. unfold ReadInv in HR.
  destruct (Forall2_nth_r _ _ _ _ _ HR Ht) as (cs' & Hc' & Hrt).
  rewrite Hc in Hc'. inversion Hc'; subst cs'. clear Hc'.
  destruct Hrt as [pre post bs Hcs Hbs Hsn Hpr
                 |pre k post bs q m Hcs Hbs Hsn Hpr Hq Hcnt Hin Hic
                 |pre k post bs q Hcs Hbs Hsn Hpr Hne Hcnt
                 |pre k post bs q cur Hcs Hbs Hsn Hpr Hne Hcnt].
  - exists pre, post, bs, []. rewrite app_nil_r. auto.
  - exists pre, (CEnforce k :: post), bs, (repeat (version (dat s), false) m).
    repeat split; auto. right. exists (CEnforce k), post. split; [reflexivity|].
    exists (version (dat s)), m. split; [lia|reflexivity].
  - exists pre, (CMgmt k :: post), bs, []. rewrite app_nil_r. auto.
  - exists pre, (CHandle k :: post), bs, cur. repeat split; auto.
    right. exists (CHandle k), post. split; [reflexivity|]. cbn. lia.
Qed.

(* a finished thread: its observations split exactly along its calls *)
Theorem seen_blocks_final : forall tss s i cs t, sreach (init_sys tss) s ->
  nth_error tss i = Some cs -> nth_error (threads s) i = Some t -> prog t = [] ->
  exists bs, Forall2 block_full cs bs /\ seen t = concat bs.
Proof.
  intros tss s i cs t Hr Hc Ht Hdone.
  pose proof (read_inv_reachable tss s Hr) as HR. unfold ReadInv in HR.
  destruct (Forall2_nth_r _ _ _ _ _ HR Ht) as (cs' & Hc' & Hrt).
  rewrite Hc in Hc'. inversion Hc'; subst cs'. clear Hc'.
  destruct Hrt as [pre post bs Hcs Hbs Hsn Hpr
                 |pre k post bs q m Hcs Hbs Hsn Hpr Hq Hcnt Hin Hic
                 |pre k post bs q Hcs Hbs Hsn Hpr Hne Hcnt
                 |pre k post bs q cur Hcs Hbs Hsn Hpr Hne Hcnt].
  - rewrite Hdone in Hpr. symmetry in Hpr.
    exists (bs ++ map (fun _ => []) post). split.
    + rewrite Hcs. apply Forall2_app; [exact Hbs|apply rest_nil_blocks; exact Hpr].
    + rewrite concat_app, concat_nils, app_nil_r. exact Hsn.
  - rewrite Hdone in Hpr. symmetry in Hpr. apply app_eq_nil in Hpr. destruct Hpr as [_ Hpr]. discriminate Hpr.
  - rewrite Hdone in Hpr. symmetry in Hpr. apply app_eq_nil in Hpr. destruct Hpr as [Hpr _]. contradiction.
  - rewrite Hdone in Hpr. symmetry in Hpr. apply app_eq_nil in Hpr. destruct Hpr as [Hpr _]. contradiction.
Qed.

Definition is_enforce (c : call) : Prop := match c with CEnforce _ => True | _ => False end.

Lemma enforce_blocks_quiet : forall pre bs, Forall is_enforce pre -> Forall2 block_full pre bs ->
  forall x, In x (concat bs) -> snd x = false.
Proof.
  intros pre bs Hall H. induction H as [|c b pre bs Hcb _ IH]; intros x Hx; [contradiction|].
  cbn [concat] in Hx. apply in_app_or in Hx.
  pose proof (Forall_inv Hall) as Hc. pose proof (Forall_inv_tail Hall) as Hall'.
  destruct Hx as [Hx|Hx]; [|apply IH; assumption].
  destruct c; try contradiction. destruct Hcb as [v ->]. apply repeat_spec in Hx. subst x. reflexivity.
Qed.

(* a thread that only enforces never observes a half-applied management call *)
Theorem enforce_reads_quiescent : forall tss s i cs t, sreach (init_sys tss) s ->
  nth_error tss i = Some cs -> nth_error (threads s) i = Some t ->
  Forall is_enforce cs -> forall x, In x (seen t) -> snd x = false.
Proof.
  intros tss s i cs t Hr Hc Ht Hall x Hx.
  destruct (seen_structure tss s i cs t Hr Hc Ht) as (pre & post & bs & cur & Hcs & Hbs & Hsn & Hcur).
  rewrite Hcs in Hall. apply Forall_app in Hall. destruct Hall as [Hpre Hpost].
  rewrite Hsn in Hx. apply in_app_or in Hx. destruct Hx as [Hx|Hx].
  - exact (enforce_blocks_quiet pre bs Hpre Hbs x Hx).
  - destruct Hcur as [->|(c & post' & -> & Hp)]; [contradiction|].
    pose proof (Forall_inv Hpost) as Hc1. destruct c; try contradiction.
    destruct Hp as (v & m & _ & ->). apply repeat_spec in Hx. subst x. reflexivity.
Qed.

(* ---- versions seen are non-decreasing along a thread and never ahead ---- *)
Fixpoint nondecr (l : list nat) : Prop :=
  match l with
  | [] => True
  | x :: r => Forall (fun y => x <= y) r /\ nondecr r
  end.
Definition mono_upto (v : nat) (t : thread) : Prop :=
  nondecr (map fst (seen t)) /\ Forall (fun y => y <= v) (map fst (seen t)).

Lemma nondecr_snoc : forall l v, nondecr l -> Forall (fun y => y <= v) l -> nondecr (l ++ [v]).
Proof.
  induction l as [|x r IH]; intros v Hn Hb; cbn; [auto|].
  destruct Hn as [H1 H2]. pose proof (Forall_inv Hb) as Hx. pose proof (Forall_inv_tail Hb) as Hr.
  split; [|apply IH; assumption]. apply Forall_app. split; [exact H1|]. constructor; [exact Hx|constructor].
Qed.

Lemma mono_upto_le : forall v v' t, mono_upto v t -> v <= v' -> mono_upto v' t.
Proof.
  intros v v' t [H1 H2] Hle. split; [exact H1|]. eapply Forall_impl; [|exact H2]. cbn. intros; lia.
Qed.

Definition MonoInv (s : sys) : Prop := Forall (mono_upto (version (dat s))) (threads s).

Lemma MonoInv_step : forall s i s', MonoInv s -> step_thread s i = Some s' -> MonoInv s'.
Proof.
  intros s i s' Hm Hst. destruct (counters_step _ _ _ Hst) as (_ & _ & Hv).
  destruct (step_spec s i s' Hst) as (t & t' & Hn & Hth & Hc).
  unfold MonoInv in *. rewrite Hth.
  assert (Ht : mono_upto (version (dat s)) t) by (eapply Forall_forall; [exact Hm|eapply nth_error_In; eauto]).
  apply Forall_replace_nth.
  - eapply Forall_impl; [|exact Hm]. intros a Ha. eapply mono_upto_le; eauto.
  - destruct Hc as [(_ & _ & Hs & _)|(ins & _ & _ & _ & Hs & Hd & _)].
    + eapply mono_upto_le; [|exact Hv]. unfold mono_upto in *. rewrite Hs. exact Ht.
    + destruct Ht as [H1 H2].
      destruct ins; cbn [seen_eff] in Hs;
        try (eapply mono_upto_le; [|exact Hv]; unfold mono_upto; rewrite Hs; split; assumption).
      rewrite Hd. cbn [data_eff]. unfold mono_upto. rewrite Hs, map_app. cbn [map fst]. split.
      * apply nondecr_snoc; assumption.
      * apply Forall_app. split; [exact H2|]. constructor; [lia|constructor].
Qed.

Theorem mono_reachable : forall tss s, sreach (init_sys tss) s -> MonoInv s.
Proof.
  intros tss s H. induction H as [|s s' _ IH Hs].
  - unfold MonoInv. cbn [init_sys threads]. apply Forall_forall. intros t Ht.
    apply in_map_iff in Ht. destruct Ht as [cs [<- _]]. split; cbn; constructor.
  - destruct Hs as [s1 i s2 Hst]. eapply MonoInv_step; eauto.
Qed.

(* ---- no management thread at all: every read sees the initial state ---- *)
Definition quiet_thread (t : thread) : Prop :=
  sumf is_begin (prog t) = 0 /\ sumf is_end (prog t) = 0 /\ Forall (fun x => x = (0, false)) (seen t).
Definition QuietInv (s : sys) : Prop :=
  version (dat s) = 0 /\ in_call (dat s) = false /\ Forall quiet_thread (threads s).

Lemma QuietInv_step : forall s i s', QuietInv s -> step_thread s i = Some s' -> QuietInv s'.
Proof.
  intros s i s' (Hv & Hic & Hq) Hst.
  destruct (step_spec s i s' Hst) as (t & t' & Hn & Hth & Hc).
  assert (Ht : quiet_thread t) by (eapply Forall_forall; [exact Hq|eapply nth_error_In; eauto]).
  destruct Ht as (Q1 & Q2 & Q3).
  unfold QuietInv. rewrite Hth.
  destruct Hc as [(Hp & _ & Hs & _ & _ & Hd & _)|(ins & Hp & _ & _ & Hs & Hd & _)].
  - rewrite Hd. repeat split; auto. apply Forall_replace_nth; [exact Hq|].
    unfold quiet_thread. rewrite Hp, Hs. auto.
  - rewrite Hp in Q1, Q2. cbn [sumf] in Q1, Q2. rewrite Hd.
    destruct ins; cbn [is_begin is_end data_eff version in_call seen_eff] in *; try lia;
      (repeat split; auto; apply Forall_replace_nth; [exact Hq|];
       unfold quiet_thread; rewrite Hs; repeat split; auto).
    apply Forall_app. split; [exact Q3|]. rewrite Hv, Hic. constructor; [reflexivity|constructor].
Qed.

Lemma quiet_reachable : forall tss s, sumf n_mgmt tss = 0 -> sreach (init_sys tss) s -> QuietInv s.
Proof.
  intros tss s Hz Hr. induction Hr as [|s s' _ IH Hs].
  - unfold QuietInv. cbn [init_sys dat version in_call threads]. repeat split; auto.
    apply Forall_forall. intros t0 Ht0. apply in_map_iff in Ht0. destruct Ht0 as [cs [<- Hcs]].
    pose proof (sumf_zero_inv n_mgmt tss cs Hz Hcs) as Hcz.
    unfold quiet_thread. cbn [thread_of prog seen]. fold (rest cs). rewrite !rest_count.
    repeat split; [| |constructor]; apply sumf_zero; intros c Hc;
      pose proof (sumf_zero_inv _ cs c Hcz Hc) as Hc0; rewrite sumf_call_prog;
      destruct c; cbn [is_begin is_end] in *; try lia; discriminate Hc0.
  - destruct Hs as [s1 j s2 Hst]. eapply QuietInv_step; eauto.
Qed.

Theorem no_mgmt_reads_initial : forall tss s i t, sumf n_mgmt tss = 0 -> sreach (init_sys tss) s ->
  nth_error (threads s) i = Some t -> forall x, In x (seen t) -> x = (0, false).
Proof.
  intros tss s i t Hz Hr Ht x Hx.
  destruct (quiet_reachable tss s Hz Hr) as (_ & _ & HF). rewrite Forall_forall in HF.
  destruct (HF t (nth_error_In _ _ Ht)) as (_ & _ & Hs). rewrite Forall_forall in Hs. apply Hs. exact Hx.
Qed.

(* ---- every observation is the data of some intermediate state of the run ---- *)
Lemma seen_from_trace : forall sched s0 i t x,
  nth_error (threads (run_schedule s0 sched)) i = Some t -> In x (seen t) ->
  (exists t0, nth_error (threads s0) i = Some t0 /\ In x (seen t0)) \/
  (exists pre suf, sched = pre ++ suf /\
     x = (version (dat (run_schedule s0 pre)), in_call (dat (run_schedule s0 pre)))).
Proof.
  induction sched as [|j r IH]; intros s0 i t x Ht Hx; cbn [run_schedule] in Ht.
  - left. eauto.
  - destruct (step_thread s0 j) as [s1|] eqn:Hst.
    + destruct (IH s1 i t x Ht Hx) as [(t1 & Ht1 & Hx1)|(pre & suf & -> & ->)].
      * destruct (step_spec s0 j s1 Hst) as (ta & tb & Hn & Hth & Hc).
        rewrite Hth in Ht1.
        destruct (Nat.eq_dec j i) as [->|Hne].
        -- rewrite (nth_error_replace_same _ _ _ _ Hn) in Ht1. inversion Ht1; subst tb. clear Ht1.
           destruct Hc as [(_ & _ & Hs & _)|(ins & _ & _ & _ & Hs & _)].
           ++ left. exists ta. split; [exact Hn|]. rewrite <- Hs. exact Hx1.
           ++ rewrite Hs in Hx1. destruct ins; cbn [seen_eff] in Hx1; try (left; eauto; fail).
              apply in_app_or in Hx1. destruct Hx1 as [Hx1|[<-|[]]]; [left; eauto|].
              right. exists [], (i :: r). split; reflexivity.
        -- rewrite nth_error_replace_other in Ht1 by exact Hne. left. eauto.
      * right. exists (j :: pre), suf. split; [reflexivity|]. cbn [run_schedule]. rewrite Hst. reflexivity.
    + destruct (IH s0 i t x Ht Hx) as [H|(pre & suf & -> & ->)]; [left; exact H|].
      right. exists (j :: pre), suf. split; [reflexivity|]. cbn [run_schedule]. rewrite Hst. reflexivity.
Qed.

Theorem reads_are_snapshots : forall tss sched i t x,
  nth_error (threads (run_schedule (init_sys tss) sched)) i = Some t -> In x (seen t) ->
  exists pre suf, sched = pre ++ suf /\
    x = (version (dat (run_schedule (init_sys tss) pre)), in_call (dat (run_schedule (init_sys tss) pre))).
Proof.
  intros tss sched i t x Ht Hx.
  destruct (seen_from_trace sched (init_sys tss) i t x Ht Hx) as [(t0 & Ht0 & Hx0)|H]; [|exact H].
  cbn [init_sys threads] in Ht0. apply nth_error_In in Ht0. apply in_map_iff in Ht0.
  destruct Ht0 as [cs [<- _]]. contradiction.
Qed.

(* ------------------------------------------------------------------ *)
(* (4) concrete runs                                                   *)
(* ------------------------------------------------------------------ *)
Definition ex_tss : list (list call) := [[CEnforce 2]; [CMgmt 2]; [CHandle 2]].
Definition ex_rr (n : nat) (k : nat) : list nat := concat (repeat (seq 0 n) k).
Definition seen_of (s : sys) : list (list (nat * bool)) := map seen (threads s).

(* round robin, and two lop-sided schedules *)
Lemma ex_run_rr :
  let s := run_schedule (init_sys ex_tss) (ex_rr 3 25) in
  all_done s = true /\ dat s = {| version := 1; in_call := false; writes := 2 |} /\
  seen_of s = [[(0, false); (0, false)]; []; [(0, false); (0, false)]].
Proof. vm_compute. auto. Qed.

Lemma ex_run_writer_first :
  let s := run_schedule (init_sys ex_tss) (repeat 1 10 ++ repeat 2 6 ++ repeat 0 8) in
  all_done s = true /\ seen_of s = [[(1, false); (1, false)]; []; [(1, false); (1, false)]].
Proof. vm_compute. auto. Qed.

Lemma ex_run_reverse :
  let s := run_schedule (init_sys ex_tss) (concat (repeat [2; 1; 0] 25)) in
  all_done s = true /\ version (dat s) = 1 /\ writes (dat s) = 2 /\
  seen_of s = [[(1, false); (1, false)]; []; [(0, false); (0, true)]].
Proof. vm_compute. auto. Qed.

(* writer preference: reader 0 holds OUTER, writer 1 queues, reader 2 must
   wait although the lock is only read-held; still everything completes *)
Definition ex_wp_tss : list (list call) := [[CEnforce 1]; [CMgmt 1]; [CEnforce 1]].
Lemma ex_writer_preference :
  let s := run_schedule (init_sys ex_wp_tss) [0; 1] in
  step_thread s 2 = None /\ step_thread s 1 = None /\ step_thread s 0 <> None /\
  wqueue (l_outer s) = 1 /\ readers (l_outer s) = 1 /\
  let s' := run_schedule s (ex_rr 3 25) in
  all_done s' = true /\ seen_of s' = [[(0, false)]; []; [(1, false)]].
Proof. vm_compute. repeat split; auto; discriminate. Qed.

(* an enforcing thread sees successive versions in successive calls, one
   version per call *)
Definition ex_two_calls : list (list call) := [[CEnforce 2; CEnforce 2]; [CMgmt 1]].
Lemma ex_versions_advance :
  let s := run_schedule (init_sys ex_two_calls) (repeat 0 8 ++ repeat 1 7 ++ repeat 0 8) in
  all_done s = true /\ seen_of s = [[(0, false); (0, false); (1, false); (1, false)]; []].
Proof. vm_compute. auto. Qed.

(* the role-manager handle used outside the outer lock sees a management call
   half applied: one of its two mutations done, in_call = true *)
Definition ex_handle_tss : list (list call) := [[CMgmt 2]; [CHandle 1]].
Lemma handle_sees_in_call :
  let s := run_schedule (init_sys ex_handle_tss) [0; 0; 0; 0; 0; 1; 1] in
  seen_of s = [[]; [(0, true)]] /\ writes (dat s) = 1 /\ in_call (dat s) = true /\
  sreach (init_sys ex_handle_tss) s.
Proof. split; [|split; [|split]]; try (vm_compute; reflexivity). apply sreach_schedule. Qed.

(* NEGATIVE: a thread that takes the RM read guard again while still holding
   it (a guard kept across another acquisition) deadlocks as soon as a writer
   queues in between *)
Definition nested_reader : thread :=
  {| prog := [Acq RM MR; Acq RM MR; Read; Rel RM; Rel RM]; held := []; queued := false; seen := [] |}.
Definition bad_sys : sys :=
  {| l_outer := free_lock; l_rm := free_lock;
     dat := {| version := 0; in_call := false; writes := 0 |};
     threads := [nested_reader; thread_of [CMgmt 1]] |}.

Lemma nested_read_deadlocks :
  let s := run_schedule bad_sys [0; 1; 1; 1] in
  sreach bad_sys s /\ (forall i, step_thread s i = None) /\ all_done s = false.
Proof.
  split; [apply sreach_schedule|]. split; [|vm_compute; reflexivity].
  intros i. destruct i as [|[|i]]; [vm_compute; reflexivity|vm_compute; reflexivity|].
  unfold step_thread. replace (nth_error _ (S (S i))) with (@None thread); [reflexivity|].
  vm_compute. destruct i; reflexivity.
Qed.

(* the same two threads with the guard released before re-acquiring are fine *)
Lemma unnested_read_completes :
  all_done (run_schedule (init_sys [[CHandle 2]; [CMgmt 1]]) ([0; 1; 1; 1] ++ ex_rr 2 25)) = true.
Proof. vm_compute. reflexivity. Qed.

(* the bad state violates the thread-shape part of the invariant *)
Lemma nested_reader_not_shaped : ~ tshape [Acq RM MR; Read; Rel RM; Rel RM] [(RM, MR)].
Proof.
  intros H. shape_cases H; try discriminate E; try discriminate Hh.
  destruct Hh; discriminate.
Qed.

(* ------------------------------------------------------------------ *)
(* the executable predicate of Model/SpecC20.v holds of every finished run *)
(* ------------------------------------------------------------------ *)
Lemma firstn_length_app : forall {A} (a b : list A), firstn (length a) (a ++ b) = a.
Proof. intros A a b. induction a as [|x r IH]; cbn; [destruct b; reflexivity|]. rewrite IH. reflexivity. Qed.
Lemma skipn_length_app : forall {A} (a b : list A), skipn (length a) (a ++ b) = b.
Proof. intros A a b. induction a as [|x r IH]; cbn; [reflexivity|exact IH]. Qed.

Lemma block_full_length : forall c b, block_full c b -> length b = reads_of c.
Proof.
  intros [k|k|k] b H; cbn in *.
  - destruct H as [v ->]. apply repeat_length.
  - subst b. reflexivity.
  - exact H.
Qed.

Lemma block_full_okb : forall c b, block_full c b -> block_okb c b = true.
Proof.
  intros [k|k|k] b H; cbn in *; try reflexivity.
  destruct H as [v ->]. destruct k as [|k]; cbn [repeat negb andb]; [reflexivity|].
  apply forallb_forall. intros y Hy. apply repeat_spec in Hy. subst y. cbn. rewrite Nat.eqb_refl. reflexivity.
Qed.

Lemma chunks_ok_concat : forall cs bs, Forall2 block_full cs bs -> chunks_ok cs (concat bs) = true.
Proof.
  intros cs bs H. induction H as [|c b cs bs Hcb _ IH]; [reflexivity|].
  cbn [chunks_ok concat]. rewrite <- (block_full_length c b Hcb).
  rewrite firstn_length_app, skipn_length_app, Nat.eqb_refl, (block_full_okb c b Hcb), IH. reflexivity.
Qed.

Lemma nondecrb_of : forall l, nondecr l -> nondecrb l = true.
Proof.
  induction l as [|x r IH]; intros H; [reflexivity|]. destruct H as [H1 H2].
  cbn [nondecrb]. rewrite (IH H2), andb_true_r. apply forallb_forall. intros y Hy.
  rewrite Forall_forall in H1. apply Nat.leb_le. apply H1. exact Hy.
Qed.

Lemma total_mgmt_sum : forall tss, total_mgmt tss = sumf n_mgmt tss.
Proof.
  intros tss. unfold total_mgmt. induction tss as [|cs tss IH]; [reflexivity|].
  cbn [concat sumf]. rewrite filter_app, app_length, IH. f_equal.
  unfold n_mgmt. induction cs as [|c cs IHc]; [reflexivity|].
  cbn [filter sumf]. destruct c; cbn [length]; lia.
Qed.

Lemma all2_nth : forall {A B} (f : A -> B -> bool) l1 l2, length l1 = length l2 ->
  (forall i a b, nth_error l1 i = Some a -> nth_error l2 i = Some b -> f a b = true) ->
  all2 f l1 l2 = true.
Proof.
  intros A B f l1. induction l1 as [|a r1 IH]; intros [|b r2] Hl H; try discriminate Hl; [reflexivity|].
  cbn [all2]. rewrite (H 0 a b eq_refl eq_refl). cbn [andb]. apply IH; [cbn in Hl; lia|].
  intros i x y Hx Hy. apply (H (S i)); assumption.
Qed.

Lemma Forall2_len : forall {A B} (R : A -> B -> Prop) l1 l2, Forall2 R l1 l2 -> length l1 = length l2.
Proof. intros A B R l1 l2 H. induction H; cbn; congruence. Qed.

Theorem c20_pred_model : forall tss s, sreach (init_sys tss) s -> all_done s = true ->
  c20_pred tss (seen_of s) = true.
Proof.
  intros tss s Hr Hd. unfold c20_pred, seen_of.
  pose proof (read_inv_reachable tss s Hr) as HR. unfold ReadInv in HR.
  apply all2_nth.
  - rewrite map_length. eapply Forall2_len; eauto.
  - intros i cs l Hcs Hl. rewrite nth_error_map in Hl.
    destruct (nth_error (threads s) i) as [t|] eqn:Ht; [|discriminate Hl]. inversion Hl; subst l. clear Hl.
    assert (Hin : In t (threads s)) by (eapply nth_error_In; eauto).
    assert (Hp : prog t = []).
    { unfold all_done in Hd. rewrite forallb_forall in Hd. specialize (Hd t Hin).
      destruct (prog t); [reflexivity|discriminate]. }
    destruct (seen_blocks_final tss s i cs t Hr Hcs Ht Hp) as (bs & Hbs & Hsn).
    pose proof (mono_reachable tss s Hr) as HM. unfold MonoInv in HM. rewrite Forall_forall in HM.
    destruct (HM t Hin) as [M1 M2].
    destruct (final_counters tss s Hr Hd) as (Hv & _ & _).
    unfold thread_pred. rewrite Hsn at 1. rewrite (chunks_ok_concat cs bs Hbs).
    rewrite (nondecrb_of _ M1). cbn [andb].
    apply andb_true_iff. split.
    + apply forallb_forall. intros v Hvin. rewrite Forall_forall in M2. apply Nat.leb_le.
      rewrite total_mgmt_sum, <- Hv. apply M2. exact Hvin.
    + destruct (Nat.eqb (total_mgmt tss) 0) eqn:Hz; [|reflexivity].
      apply Nat.eqb_eq in Hz. rewrite total_mgmt_sum in Hz.
      apply forallb_forall. intros x Hx.
      rewrite (no_mgmt_reads_initial tss s i t Hz Hr Ht x Hx). reflexivity.
Qed.

(* the predicate is not trivially true: it rejects an enforce call whose two
   reads straddle a management call, and a read of a half-applied call *)
Lemma c20_pred_rejects_torn :
  c20_pred [[CEnforce 2]; [CMgmt 1]] [[(0, false); (1, false)]; []] = false /\
  c20_pred [[CEnforce 1]; [CMgmt 1]] [[(0, true)]; []] = false /\
  c20_pred [[CEnforce 2]; [CMgmt 1]] [[(1, false); (1, false)]; []] = true.
Proof. vm_compute. auto. Qed.

(* explicit forms used by Properties/C20.v *)
Lemma thread_cases_reachable : forall tss s t, sreach (init_sys tss) s -> In t (threads s) ->
  (prog t = [] /\ held t = []) \/
  (exists m p', prog t = Acq OUTER m :: p' /\ held t = []) \/
  (exists p', prog t = Acq RM MR :: p' /\ (held t = [] \/ held t = [(OUTER, MR)])) \/
  (exists p', prog t = Acq RM MW :: p' /\ held t = [(OUTER, MW)]) \/
  (exists p', prog t = Read :: p' /\ (held t = [(RM, MR)] \/ held t = [(RM, MR); (OUTER, MR)])) \/
  (exists p', prog t = Write :: p' /\ held t = [(RM, MW); (OUTER, MW)]) \/
  (exists p', prog t = Begin :: p' /\ held t = [(OUTER, MW)]) \/
  (exists p', prog t = End :: p' /\ held t = [(OUTER, MW)]) \/
  (exists p' m h', prog t = Rel RM :: p' /\ held t = (RM, m) :: h' /\ (h' = [] \/ h' = [(OUTER, m)])) \/
  (exists p' m, prog t = Rel OUTER :: p' /\ held t = [(OUTER, m)]).
Proof.
  intros tss s t Hr Ht. apply tshape_cases. apply (thread_shape s t); [|exact Ht].
  eapply proto_inv_reachable; eauto.
Qed.

Lemma queued_reachable : forall tss s t, sreach (init_sys tss) s -> In t (threads s) ->
  queued t = true -> exists l p, prog t = Acq l MW :: p.
Proof.
  intros tss s t Hr Ht. pose proof (pi_threads _ (proto_inv_reachable tss s Hr)) as HT.
  rewrite Forall_forall in HT. destruct (HT t Ht) as [_ Hq]. exact Hq.
Qed.

Lemma lock_bookkeeping_reachable : forall tss s l, sreach (init_sys tss) s ->
  readers (get_lock s l) = sumf (hct l MR) (threads s) /\
  b2n (writer (get_lock s l)) = sumf (hct l MW) (threads s) /\
  (writer (get_lock s l) = true -> readers (get_lock s l) = 0) /\
  wqueue (get_lock s l) = sumf (wq l) (threads s).
Proof. intros tss s l Hr. apply (pi_lock s l). eapply proto_inv_reachable; eauto. Qed.

Lemma in_call_reachable : forall tss s, sreach (init_sys tss) s ->
  b2n (in_call (dat s)) = sumf midt (threads s).
Proof. intros tss s Hr. apply pi_mid. eapply proto_inv_reachable; eauto. Qed.

(* while some thread holds OUTER for reading, no step of anybody changes the
   version or the in-call flag: the state an enforce call reads is frozen *)
Theorem outer_reader_freezes_data : forall s i s' t, ProtoInv s -> In t (threads s) ->
  hct OUTER MR t >= 1 -> step_thread s i = Some s' ->
  version (dat s') = version (dat s) /\ in_call (dat s') = in_call (dat s).
Proof.
  intros s i s' t Hinv Ht Hr Hst.
  destruct (step_spec s i s' Hst) as (ta & tb & Hn & _ & Hc).
  assert (Hina : In ta (threads s)) by (eapply nth_error_In; eauto).
  destruct Hc as [(_ & _ & _ & _ & _ & Hd & _)|(ins & Hp & _ & _ & _ & Hd & _)].
  - rewrite Hd. auto.
  - rewrite Hd. pose proof (thread_shape s ta Hinv Hina) as Hsh. rewrite Hp in Hsh.
    destruct ins; cbn [data_eff version in_call]; auto; exfalso;
      assert (Hw : hct OUTER MW ta >= 1)
        by (unfold hct; shape_cases Hsh; try discriminate E; rewrite Hh; cbn; lia);
      pose proof (excl_writer_reader s OUTER ta t Hinv Hina Ht Hw); lia.
Qed.
