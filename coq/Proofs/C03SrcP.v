(* C03 at the level of the TRANSLATED SOURCE: the property theorems of Properties/C03.v, restated about
   Gen/RoleManagerGen.v (the Gallina generated each run from src/rbac/default_role_manager.rs) by composing them
   with the translation theorems of PinChecks/PcRoleManagerGen.v and the conservativity theorems of C03M. *)
From CV Require Import Model.Base Model.RoleGraph Model.RoleGraphM.
From CV Require Import Proofs.BaseP Proofs.RoleGraphP Proofs.RoleGraphMA Proofs.RoleGraphMP Proofs.RoleGraphMC.
From CV Require Import Gen.RustStr Gen.RustVec Gen.RustIter Gen.Petgraph Gen.RoleManagerGen.
From CV Require Import Proofs.PetgraphP PinChecks.PcRoleManagerGen.
From Coq Require Import Relations Permutation.

(* a history of plain add_link / delete_link / clear calls run on the translated DefaultRoleManager::new(lvl) *)
Definition src_run ord lvl (h : list lop) := gen_run ord (gen_new lvl) (map mop_of h).

Lemma src_c03 : forall ord lvl (h : list lop), ord_ok ord ->
  exists s F, src_run ord lvl h = Some (s, lrun_flags [] h) /\
    (* has_link: never panics, sound at every depth, complete below the limit, on the spec's edge set *)
    (forall fuel a b d, F <= fuel -> exists v, gen_has_link ord fuel s a b d = Some v /\
       (v = true -> a = b \/ clos_trans text (fun x y => In (x, y) (spec_links h (dom_key d) [])) a b) /\
       (forall k, path (fun x y => In (x, y) (spec_links h (dom_key d) [])) k a b -> k < lvl -> v = true)) /\
    (* get_roles / get_users: exactly the direct neighbours in the spec's edge set *)
    (forall n d, exists l, gen_get_roles ord s n d = Some l /\
       forall y, In y l <-> In (n, y) (spec_links h (dom_key d) [])) /\
    (forall n d, exists l, gen_get_users ord s n d = Some l /\
       forall y, In y l <-> In (y, n) (spec_links h (dom_key d) [])).
Proof.
  intros ord lvl h Hord.
  destruct (gen_answers_ok ord lvl (map mop_of h) Hord) as (s & F & Hrun & Hhas & Hroles & Husers & _ & _).
  exists s, F. unfold src_run. rewrite Hrun, conservative_flags. split; [reflexivity|].
  assert (Hwf : wf (lrun h)) by apply wf_lrun.
  assert (Hedge : forall d x y, Edge (lrun h) d x y <-> In (x, y) (spec_links h (dom_key d) [])).
  { intros d x y. unfold Edge. apply links_refine. }
  split; [|split].
  - intros fuel a b d Hf. exists (has_link lvl (lrun h) a b d). split.
    + rewrite (Hhas fuel a b d Hf), conservative_has. reflexivity.
    + split.
      * intros Hv. destruct (has_link_sound lvl (lrun h) a b d Hwf Hv) as [E|Hc]; [left; exact E|right].
        clear - Hc Hedge. induction Hc as [x y Hxy|x y z _ IH1 _ IH2].
        -- apply t_step. apply Hedge. exact Hxy.
        -- eapply t_trans; eassumption.
      * intros k Hp Hk. apply (has_link_complete lvl (lrun h) a b d k Hwf); [|exact Hk].
        clear - Hp Hedge. induction Hp; econstructor; try eassumption; apply Hedge; assumption.
  - intros n d. destruct (Hroles n d) as (l & Hl & Hin). exists l. split; [exact Hl|].
    intros y. rewrite Hin, conservative_roles, (get_roles_spec (lrun h) n d y Hwf). apply Hedge.
  - intros n d. destruct (Husers n d) as (l & Hl & Hin). exists l. split; [exact Hl|].
    intros y. rewrite Hin, conservative_users, (get_users_spec (lrun h) n d y Hwf). apply Hedge.
Qed.
