(* C16 (8): facts about util::escape_assertion as modelled by Expr.esc_go. *)
From CV Require Import Model.Base Model.PathMatch Model.Expr Model.Csv Model.Ini Model.SpecC16.
From CV Require Import Proofs.BaseP Proofs.CsvP.
From Coq Require Import Lia.

Lemma dot_not_digit : is_digit dot = false. Proof. reflexivity. Qed.
Lemma us_not_digit : is_digit underscore = false. Proof. reflexivity. Qed.
Lemma us_is_word : is_word underscore = true. Proof. reflexivity. Qed.
Lemma dot_not_word : is_word dot = false. Proof. reflexivity. Qed.
Lemma digit_is_word : forall c, is_digit c = true -> is_word c = true.
Proof. intros c H. unfold is_digit in H. unfold is_word. cbv zeta in *. rewrite H. reflexivity. Qed.
Lemma rp_is_word : forall c, is_rp c = true -> is_word c = true.
Proof.
  intros c H. unfold is_rp in H. apply orb_true_iff in H.
  destruct H as [H|H]; apply aeqb_true in H; subst c; reflexivity.
Qed.
Lemma rp_not_digit : forall c, is_rp c = true -> is_digit c = false.
Proof.
  intros c H. unfold is_rp in H. apply orb_true_iff in H.
  destruct H as [H|H]; apply aeqb_true in H; subst c; reflexivity.
Qed.

(* ---- look-ahead ---- *)
Lemma tok_ahead_In_dot : forall s, tok_ahead s = true -> In dot s.
Proof.
  induction s as [|c s IH]; cbn [tok_ahead]; intros H; [discriminate|].
  destruct (Ascii.eqb c dot) eqn:E; [left; apply aeqb_true, E|].
  destruct (is_digit c); [right; apply IH, H|discriminate].
Qed.
Lemma tok_ahead_digits_dot : forall ds t, forallb is_digit ds = true -> tok_ahead (ds ++ dot :: t) = true.
Proof.
  induction ds as [|d ds IH]; intros t H; cbn [app tok_ahead].
  - rewrite Ascii.eqb_refl. reflexivity.
  - cbn [forallb] in H. apply andb_true_iff in H. destruct H as [Hd H].
    destruct (Ascii.eqb d dot); [reflexivity|]. rewrite Hd. apply IH, H.
Qed.
Lemma tok_ahead_app_dead : forall a b, la_dead b = true -> tok_ahead (a ++ b) = tok_ahead a.
Proof.
  induction a as [|c a IH]; intros b Hb; cbn [app tok_ahead].
  - destruct b as [|d b]; [reflexivity|]. cbn [la_dead] in Hb. cbn [tok_ahead].
    apply andb_true_iff in Hb. destruct Hb as [H1 H2].
    apply negb_true_iff in H1. apply negb_true_iff in H2. rewrite H2, H1. reflexivity.
  - destruct (Ascii.eqb c dot); [reflexivity|]. destruct (is_digit c); [apply IH, Hb|reflexivity].
Qed.

(* ---- text without a rewriting site is unchanged ---- *)
Lemma esc_go_no_site : forall s pw, has_site pw s = false -> esc_go false pw s = s.
Proof.
  induction s as [|c s IH]; intros pw H; [reflexivity|].
  cbn [has_site] in H. apply orb_false_iff in H. destruct H as [H1 H2].
  cbn [esc_go]. rewrite H1. rewrite IH by exact H2. reflexivity.
Qed.
Lemma no_dot_no_site : forall s pw, ~ In dot s -> has_site pw s = false.
Proof.
  induction s as [|c s IH]; intros pw H; [reflexivity|]. cbn [has_site].
  rewrite IH by (intros Hin; apply H; right; exact Hin). rewrite orb_false_r.
  destruct (tok_ahead s) eqn:E; [|apply andb_false_r].
  exfalso. apply H. right. apply tok_ahead_In_dot, E.
Qed.
Lemma has_site_mono : forall s, has_site false s = false -> has_site true s = false.
Proof. intros [|c s] H; [reflexivity|]. cbn [has_site] in *. apply orb_false_iff in H. tauto. Qed.

(* text without any "r"/"p"-prefixed dotted name is unchanged *)
Theorem escape_no_site : forall s, has_site false s = false -> escape_assertion s = s.
Proof. intros s H. apply esc_go_no_site, H. Qed.
(* in particular text without dots, e.g. already escaped text *)
Theorem escape_no_dot : forall s, ~ In dot s -> escape_assertion s = s.
Proof. intros s H. apply escape_no_site, no_dot_no_site, H. Qed.

(* ---- a variable at a word boundary ---- *)
Lemma esc_rw_digits : forall ds pw t, forallb is_digit ds = true ->
  esc_go true pw (ds ++ dot :: t) = ds ++ underscore :: esc_go false false t.
Proof.
  induction ds as [|d ds IH]; intros pw t H; cbn [app esc_go].
  - rewrite dot_not_digit. reflexivity.
  - cbn [forallb] in H. apply andb_true_iff in H. destruct H as [Hd H].
    rewrite Hd. rewrite IH by exact H. reflexivity.
Qed.
(* `r12.` at a word boundary becomes `r12_`, whatever follows *)
Lemma esc_site : forall c ds t, is_rp c = true -> forallb is_digit ds = true ->
  esc_go false false (c :: ds ++ dot :: t) = c :: ds ++ underscore :: esc_go false false t.
Proof.
  intros c ds t Hc Hds. cbn [esc_go]. rewrite Hc, tok_ahead_digits_dot by exact Hds.
  cbn [negb andb]. rewrite esc_rw_digits by exact Hds. reflexivity.
Qed.
Theorem escape_var_gen : forall p f t, rp_prefix p = true ->
  escape_assertion (p ++ dot :: f ++ t) = tok p (esc_go false false (f ++ t)).
Proof.
  intros [|c ds] f t Hp; [discriminate|]. cbn [rp_prefix] in Hp.
  apply andb_true_iff in Hp. destruct Hp as [Hc Hds].
  unfold escape_assertion, tok. cbn [app]. rewrite esc_site by assumption. reflexivity.
Qed.
(* a printed variable `p.f` becomes the token `p_f` *)
Theorem escape_var : forall p f, rp_prefix p = true -> has_site false f = false ->
  escape_assertion (p ++ dot :: f) = tok p f.
Proof.
  intros p f Hp Hf. rewrite <- (app_nil_r f) at 1. rewrite escape_var_gen by exact Hp.
  rewrite app_nil_r. rewrite esc_go_no_site by exact Hf. reflexivity.
Qed.
Corollary escape_var_ident : forall p f, rp_prefix p = true -> ~ In dot f ->
  escape_assertion (p ++ dot :: f) = tok p f.
Proof. intros p f Hp Hf. apply escape_var; [exact Hp|apply no_dot_no_site, Hf]. Qed.
(* not at a word boundary nothing happens: `xr.sub` stays *)
Lemma esc_not_boundary : forall c t, esc_go false true (c :: t) = c :: esc_go false (is_word c) t.
Proof. intros c t. reflexivity. Qed.

(* ---- idempotence ---- *)
Lemma tok_ahead_esc_rw : forall s pw, tok_ahead s = true -> tok_ahead (esc_go true pw s) = false.
Proof.
  induction s as [|c s IH]; intros pw H; [discriminate|]. cbn [tok_ahead] in H. cbn [esc_go].
  destruct (Ascii.eqb c dot) eqn:E.
  - apply aeqb_true in E. subst c. rewrite dot_not_digit. reflexivity.
  - destruct (is_digit c) eqn:Ed; [|discriminate]. cbn [tok_ahead]. rewrite E, Ed. apply IH, H.
Qed.
Lemma tok_ahead_esc_pw : forall s, tok_ahead s = false -> tok_ahead (esc_go false true s) = false.
Proof.
  induction s as [|c s IH]; intros H; [reflexivity|]. cbn [tok_ahead] in H.
  cbn [esc_go negb andb tok_ahead].
  destruct (Ascii.eqb c dot); [discriminate|]. destruct (is_digit c) eqn:Ed; [|reflexivity].
  rewrite (digit_is_word _ Ed). apply IH, H.
Qed.

Lemma esc_out_no_site : forall s,
  (forall pw, has_site pw (esc_go false pw s) = false) /\
  (tok_ahead s = true -> has_site true (esc_go true true s) = false).
Proof.
  induction s as [|c s [IHa IHb]]; [split; [reflexivity|discriminate]|]. split.
  - intros pw. cbn [esc_go].
    destruct (negb pw && is_rp c && tok_ahead s) eqn:Esite.
    + apply andb_true_iff in Esite. destruct Esite as [Esite Hta].
      apply andb_true_iff in Esite. destruct Esite as [_ Hrp].
      cbn [has_site]. rewrite (tok_ahead_esc_rw _ _ Hta). rewrite andb_false_r. cbn [orb].
      rewrite (rp_is_word _ Hrp). apply IHb, Hta.
    + cbn [has_site]. rewrite IHa, orb_false_r.
      destruct (negb pw && is_rp c) eqn:E1; [|reflexivity]. cbn [andb] in Esite |- *.
      apply andb_true_iff in E1. destruct E1 as [_ Hrp]. rewrite (rp_is_word _ Hrp).
      apply tok_ahead_esc_pw, Esite.
  - intros H. cbn [tok_ahead] in H. cbn [esc_go].
    destruct (Ascii.eqb c dot) eqn:E.
    + apply aeqb_true in E. subst c. rewrite dot_not_digit. cbn [has_site negb andb orb].
      rewrite us_is_word. apply has_site_mono, IHa.
    + destruct (is_digit c) eqn:Ed; [|discriminate]. cbn [has_site negb andb orb].
      rewrite (digit_is_word _ Ed). apply IHb, H.
Qed.

Theorem escape_idem : forall s, escape_assertion (escape_assertion s) = escape_assertion s.
Proof. intros s. apply escape_no_site. apply (proj1 (esc_out_no_site s)). Qed.

(* ---- escaping is compositional at a point where no look-ahead is pending ---- *)
Lemma esc_go_app_gen : forall a rw pw b, la_dead b = true -> (rw = true -> tok_ahead a = true) ->
  esc_go rw pw (a ++ b) = esc_go rw pw a ++ esc_go false (pw_after pw a) b.
Proof.
  induction a as [|c a IH]; intros rw pw b Hb Hrw.
  - destruct rw; [specialize (Hrw eq_refl); discriminate|]. reflexivity.
  - cbn [app esc_go pw_after]. destruct rw.
    + specialize (Hrw eq_refl). cbn [tok_ahead] in Hrw.
      destruct (is_digit c) eqn:Ed.
      * assert (Hta : tok_ahead a = true).
        { destruct (Ascii.eqb c dot) eqn:E; [|exact Hrw].
          apply aeqb_true in E. subst c. discriminate. }
        rewrite (digit_is_word _ Ed).
        rewrite (IH true true b Hb (fun _ => Hta)).
        destruct a as [|c' a']; [discriminate|]. reflexivity.
      * destruct (Ascii.eqb c dot) eqn:E; [|discriminate].
        apply aeqb_true in E. subst c. rewrite dot_not_word.
        rewrite (IH false false b Hb) by discriminate. reflexivity.
    + rewrite tok_ahead_app_dead by exact Hb.
      destruct (negb pw && is_rp c && tok_ahead a) eqn:Esite.
      * apply andb_true_iff in Esite. destruct Esite as [Esite Hta].
        apply andb_true_iff in Esite. destruct Esite as [_ Hrp]. rewrite (rp_is_word _ Hrp).
        rewrite (IH true true b Hb (fun _ => Hta)).
        destruct a as [|c' a']; [discriminate|]. reflexivity.
      * rewrite (IH false (is_word c) b Hb) by discriminate. reflexivity.
Qed.
Theorem escape_app : forall a b, la_dead b = true ->
  escape_assertion (a ++ b) = escape_assertion a ++ esc_go false (pw_after false a) b.
Proof. intros a b Hb. unfold escape_assertion. apply esc_go_app_gen; [exact Hb|discriminate]. Qed.

Lemma pw_after_app : forall a b pw, pw_after pw (a ++ b) = pw_after (pw_after pw a) b.
Proof. induction a as [|c a IH]; intros b pw; cbn [app pw_after]; [reflexivity|apply IH]. Qed.

(* a continuation break (the blank is lost) and escape_assertion: with the
   blank, and without it, the escaped texts differ by that blank only *)
Theorem escape_break : forall a b, break_ok a b = true ->
  escape_assertion (a ++ " "%char :: b) = escape_assertion a ++ " "%char :: escape_assertion b /\
  escape_assertion (a ++ b) = escape_assertion a ++ escape_assertion b.
Proof.
  intros a b H. unfold break_ok in H. apply andb_true_iff in H. destruct H as [Hd Hw]. split.
  - rewrite escape_app by reflexivity. f_equal. cbn [esc_go].
    change (is_rp " "%char) with false. rewrite andb_false_r. cbn [andb]. reflexivity.
  - rewrite escape_app by exact Hd. f_equal. unfold escape_assertion.
    apply orb_true_iff in Hw. destruct Hw as [Hw|Hw].
    + apply negb_true_iff in Hw. rewrite Hw. reflexivity.
    + destruct b as [|c b]; [reflexivity|]. apply negb_true_iff in Hw.
      cbn [esc_go]. assert (Hrp : is_rp c = false).
      { destruct (is_rp c) eqn:E; [|reflexivity]. rewrite (rp_is_word _ E) in Hw. discriminate. }
      rewrite Hrp. rewrite !andb_false_r. reflexivity.
Qed.

(* ---- examples: the documented matchers, printed and escaped ---- *)
Example esc_ex1 : escape_assertion (T "r.sub == p.sub && r.obj == p.obj && r.act == p.act")
                  = T "r_sub == p_sub && r_obj == p_obj && r_act == p_act".
Proof. vm_compute. reflexivity. Qed.
Example esc_ex2 : escape_assertion (T "g(r2.sub, p2.sub) && xr.sub == pr.x")
                  = T "g(r2_sub, p2_sub) && xr.sub == pr.x".
Proof. vm_compute. reflexivity. Qed.
Example esc_print_ex :
  escape_assertion (print_expr (EAnd (ECall (T "g") [EVar (T "r") (T "sub"); EVar (T "p") (T "sub")])
                                     (EEq (EVar (T "r2") (T "obj")) (EProp (EVar (T "p") (T "obj")) (T "owner")))))
  = T "g(r_sub, p_sub) && r2_obj == p_obj.owner".
Proof. vm_compute. reflexivity. Qed.
(* quirk of the expression (pinned ESC_A): a property named r or p after a dot
   is also rewritten *)
Example esc_quirk_prop : escape_assertion (T "r.obj.p.x") = T "r_obj.p_x".
Proof. vm_compute. reflexivity. Qed.
(* ... and so is text inside a string literal *)
Example esc_quirk_string : escape_assertion (T "r.sub == ""p.x""") = T "r_sub == ""p_x""".
Proof. vm_compute. reflexivity. Qed.
