(* C16 part B: the ini-style model text format. Layout independence of
   parse_config, plain rendering, continuation lines. *)
From CV Require Import Model.Base Model.PathMatch Model.Expr Model.Csv Model.Ini Model.SpecC16.
From CV Require Import Proofs.BaseP Proofs.CsvP.
From Coq Require Import Lia.

(* ------------------------------------------------------------------ *)
(* lines                                                                *)
(* ------------------------------------------------------------------ *)
Lemma split_lines_render : forall ls tail, Forall (fun l => ~ In nl l) ls ->
  split_lines (render_lines ls ++ tail) [] = ls ++ split_lines tail [].
Proof.
  intros ls tail H. induction H as [|l ls Hl _ IH]; cbn [render_lines flat_map app]; [reflexivity|].
  rewrite <- !app_assoc. cbn [app]. rewrite split_lines_line by exact Hl.
  cbn [rev app]. f_equal. exact IH.
Qed.

Lemma ini_lines_render : forall ls, Forall (fun l => ~ In nl l) ls ->
  ini_lines (render_lines ls) = ls.
Proof.
  intros ls H. unfold ini_lines. rewrite <- (app_nil_r (render_lines ls)).
  rewrite split_lines_render by exact H. cbn [split_lines rev].
  rewrite rev_app_distr. cbn [rev app]. apply rev_involutive.
Qed.
(* a last line without terminator *)
Lemma ini_lines_render_last : forall ls last, Forall (fun l => ~ In nl l) ls ->
  ~ In nl last -> last <> [] ->
  ini_lines (render_lines ls ++ last) = ls ++ [last].
Proof.
  intros ls last H Hl Hne. unfold ini_lines. rewrite split_lines_render by exact H.
  rewrite split_lines_last by exact Hl. cbn [rev app].
  rewrite rev_app_distr. cbn [rev app]. destruct last as [|c r]; [contradiction|].
  cbn [rev]. rewrite rev_involutive. reflexivity.
Qed.

(* ------------------------------------------------------------------ *)
(* small facts                                                          *)
(* ------------------------------------------------------------------ *)
Lemma ws_line_P : forall w, ws_line w = true <-> all_ws w = true /\ ~ In nl w.
Proof. intros w. unfold ws_line. rewrite andb_true_iff, no_nl_P. reflexivity. Qed.

Lemma ends_with_c_snoc : forall c s d, ends_with_c c (s ++ [d]) = Ascii.eqb c d.
Proof. intros c s d. unfold ends_with_c. rewrite rev_app_distr. reflexivity. Qed.
Lemma drop_last_snoc : forall s d, drop_last (s ++ [d]) = s.
Proof. intros s d. unfold drop_last. rewrite rev_app_distr. cbn [rev app tl]. apply rev_involutive. Qed.

(* ends with a byte that is neither white space nor a backslash *)
Definition Lok (L : text) : Prop := exists m x, L = m ++ [x] /\ is_ws x = false /\ x <> bslash.

Lemma Lok_app : forall a v, Lok v -> Lok (a ++ v).
Proof. intros a v [m [x [E [H1 H2]]]]. exists (a ++ m), x. subst v. rewrite app_assoc. auto. Qed.
Lemma Lok_no_bslash : forall L, Lok L -> ends_with_c bslash L = false.
Proof.
  intros L [m [x [E [H1 H2]]]]. subst L. rewrite ends_with_c_snoc. apply aeqb_false.
  intros E. apply H2. symmetry. exact E.
Qed.
Lemma Lok_rev_nonws : forall L, Lok L -> starts_nonws (rev L).
Proof. intros L [m [x [E [H1 H2]]]]. subst L. rewrite rev_app_distr. exact H1. Qed.
Lemma Lok_ne : forall L, Lok L -> L <> [].
Proof. intros L [m [x [E _]]] H. subst L. destruct m; discriminate. Qed.
Lemma Lok_trim_end : forall L w, Lok L -> all_ws w = true -> trim_end (L ++ w) = L.
Proof.
  intros L w HL Hw. rewrite trim_end_ws_app by exact Hw. apply trim_end_id, Lok_rev_nonws, HL.
Qed.
Lemma Lok_trim_end_wsb : forall L, Lok L -> trim_end_wsb L = L.
Proof.
  intros L [m [x [E [H1 H2]]]]. subst L. unfold trim_end_wsb. rewrite rev_app_distr.
  cbn [rev app trim_start_wsb]. rewrite H1.
  assert (Ex : Ascii.eqb x bslash = false) by (apply aeqb_false; exact H2).
  rewrite Ex. cbn [orb rev]. rewrite rev_involutive. reflexivity.
Qed.

Lemma tightP_app : forall a mid b, a <> [] -> starts_nonws a -> b <> [] -> starts_nonws (rev b) ->
  tightP (a ++ mid ++ b).
Proof.
  intros a mid b Ha Hsa Hb Hsb. split.
  - apply starts_nonws_app; assumption.
  - rewrite !rev_app_distr. rewrite <- app_assoc. apply starts_nonws_app; [|exact Hsb].
    intros E. apply Hb. apply (f_equal (@rev _)) in E. rewrite rev_involutive in E. exact E.
Qed.

Record chunkP (v : text) : Prop := {
  ch_start : starts_nonws v;
  ch_lok : Lok v;
  ch_nonl : ~ In nl v }.
Lemma chunk_ok_P : forall v, chunk_ok v = true -> chunkP v.
Proof.
  intros v H. unfold chunk_ok in H. rewrite !andb_true_iff in H.
  destruct H as [[[Hne Ht] Hnl] Hb]. apply tight_tightP in Ht. destruct Ht as [Hs He].
  constructor; [exact Hs| |apply no_nl_P, Hnl].
  apply negb_true_iff in Hb. unfold ends_with_c in Hb.
  destruct (rev v) as [|x r] eqn:E.
  - destruct v; [discriminate|]. cbn [rev] in E. apply app_eq_nil in E. destruct E; discriminate.
  - exists (rev r), x. split; [|split].
    + apply (f_equal (@rev _)) in E. rewrite rev_involutive in E. exact E.
    + exact He.
    + intros Ex. subst x. rewrite Ascii.eqb_refl in Hb. discriminate.
Qed.
Lemma chunkP_ne : forall v, chunkP v -> v <> [].
Proof. intros v H. apply Lok_ne, (ch_lok _ H). Qed.
Lemma chunkP_tightP : forall v, chunkP v -> tightP v.
Proof. intros v H. split; [apply (ch_start _ H)|apply Lok_rev_nonws, (ch_lok _ H)]. Qed.

Lemma is_cob_app : forall v t, v <> [] -> is_comment_or_blank (v ++ t) = is_comment_or_blank v.
Proof. intros [|c v] t H; [contradiction|reflexivity]. Qed.
Lemma starts_with_c_app : forall c v t, v <> [] -> starts_with_c c (v ++ t) = starts_with_c c v.
Proof. intros c [|d v] t H; [contradiction|reflexivity]. Qed.

(* ------------------------------------------------------------------ *)
(* classification of the simple lines                                   *)
(* ------------------------------------------------------------------ *)
Lemma blank_line : forall ws, all_ws ws = true -> is_comment_or_blank (trim ws) = true.
Proof. intros ws H. rewrite trim_all_ws by exact H. reflexivity. Qed.
Lemma comment_line : forall pre c body, all_ws pre = true ->
  (Ascii.eqb c hash || Ascii.eqb c semicolon) = true ->
  is_comment_or_blank (trim (pre ++ c :: body)) = true.
Proof.
  intros pre c body Hpre Hc.
  assert (Hws : is_ws c = false).
  { apply orb_true_iff in Hc. destruct Hc as [E|E]; apply aeqb_true in E; subst c; reflexivity. }
  rewrite trim_cons_nonws by assumption. exact Hc.
Qed.
Lemma header_line : forall pre name post, all_ws pre = true -> all_ws post = true ->
  trim (pre ++ lbracket :: name ++ rbracket :: post) = lbracket :: name ++ [rbracket].
Proof.
  intros pre name post H1 H2.
  replace (pre ++ lbracket :: name ++ rbracket :: post)
    with (pre ++ (lbracket :: name ++ [rbracket]) ++ post)
    by (cbn [app]; rewrite <- app_assoc; reflexivity).
  apply trim_padP; [exact H1|exact H2|]. split; [reflexivity|].
  cbn [rev]. rewrite rev_app_distr. reflexivity.
Qed.
Lemma header_is_section : forall name,
  is_comment_or_blank (lbracket :: name ++ [rbracket]) = false /\
  is_section (lbracket :: name ++ [rbracket]) = true /\
  section_name (lbracket :: name ++ [rbracket]) = name.
Proof.
  intros name. split; [reflexivity|]. split.
  - unfold is_section. cbn [starts_with_c]. rewrite Ascii.eqb_refl.
    change (lbracket :: name ++ [rbracket]) with ((lbracket :: name) ++ [rbracket]).
    rewrite ends_with_c_snoc. reflexivity.
  - unfold section_name. cbn [tl]. apply drop_last_snoc.
Qed.

(* ------------------------------------------------------------------ *)
(* continuation                                                         *)
(* ------------------------------------------------------------------ *)
Record contP (k : cont) : Prop := {
  kp_wsa : all_ws (k_wsa k) = true; kp_wsb : all_ws (k_wsb k) = true;
  kp_ind : all_ws (k_ind k) = true;
  kp_nonl : ~ In nl (k_wsa k) /\ ~ In nl (k_wsb k) /\ ~ In nl (k_ind k);
  kp_chunk : chunkP (k_val k);
  kp_ncob : is_comment_or_blank (k_val k) = false;
  kp_nsec : is_section (k_val k) = false }.
Lemma cont_ok_P : forall k, cont_ok k = true -> contP k.
Proof.
  intros k H. unfold cont_ok, cont_chunk_ok in H. rewrite !andb_true_iff in H.
  destruct H as [[[Ha Hb] Hi] [[Hc Hn1] Hn2]].
  apply ws_line_P in Ha. apply ws_line_P in Hb. apply ws_line_P in Hi.
  constructor; try tauto.
  - apply chunk_ok_P, Hc.
  - apply negb_true_iff, Hn1.
  - apply negb_true_iff, Hn2.
Qed.

(* a physical line that continues: L wsa '\' *)
Lemma cont_line_ends : forall L wsa, ends_with_c bslash (L ++ wsa ++ [bslash]) = true.
Proof. intros L wsa. rewrite app_assoc, ends_with_c_snoc. apply Ascii.eqb_refl. Qed.
Lemma cont_line_strip : forall L wsa, Lok L -> all_ws wsa = true ->
  trim_end (drop_last (L ++ wsa ++ [bslash])) = L.
Proof. intros L wsa HL Hw. rewrite app_assoc, drop_last_snoc. apply Lok_trim_end; assumption. Qed.

(* the trimmed text of a continuation line: the piece, then possibly the next
   break *)
Lemma trim_piece_last : forall ind v post, all_ws ind = true -> all_ws post = true -> chunkP v ->
  trim (ind ++ v ++ post) = v.
Proof. intros ind v post H1 H2 Hv. apply trim_padP; [exact H1|exact H2|apply chunkP_tightP, Hv]. Qed.
Lemma trim_piece_break : forall ind v wsa wsb, all_ws ind = true -> all_ws wsb = true -> chunkP v ->
  trim (ind ++ (v ++ wsa ++ bslash :: wsb)) = v ++ wsa ++ [bslash].
Proof.
  intros ind v wsa wsb H1 H2 Hv.
  replace (ind ++ (v ++ wsa ++ bslash :: wsb)) with (ind ++ (v ++ wsa ++ [bslash]) ++ wsb)
    by (rewrite <- !app_assoc; reflexivity).
  apply trim_padP; [exact H1|exact H2|].
  apply tightP_app; [apply chunkP_ne, Hv|apply (ch_start _ Hv)|discriminate|reflexivity].
Qed.

Lemma def_lines_length : forall conts cur post, length (def_lines cur conts post) = S (length conts).
Proof.
  induction conts as [|k conts IH]; intros cur post; cbn [def_lines length]; [reflexivity|].
  rewrite IH. reflexivity.
Qed.

Lemma continuation_conts : forall more L k fuel post rest,
  Lok L -> contP k -> Forall contP more -> all_ws post = true -> length more < fuel ->
  continuation fuel (L ++ k_wsa k ++ [bslash]) [] (def_lines (k_ind k ++ k_val k) more post ++ rest)
  = (L ++ k_val k ++ concat (map k_val more), [], rest).
Proof.
  induction more as [|k' more IH]; intros L k fuel post rest HL Hk Hmore Hpost Hfuel.
  - destruct fuel as [|f]; [cbn in Hfuel; lia|]. cbn [def_lines app continuation].
    rewrite cont_line_ends. rewrite cont_line_strip by (try exact HL; apply (kp_wsa _ Hk)).
    rewrite <- app_assoc.
    rewrite trim_piece_last by (try exact Hpost; try apply (kp_ind _ Hk); apply (kp_chunk _ Hk)).
    rewrite (kp_ncob _ Hk), (kp_nsec _ Hk). cbn [map concat]. rewrite app_nil_r.
    assert (HL' : Lok (L ++ k_val k)) by (apply Lok_app, (ch_lok _ (kp_chunk _ Hk))).
    destruct f as [|f]; cbn [continuation]; [reflexivity|].
    rewrite (Lok_no_bslash _ HL'). reflexivity.
  - inversion Hmore as [|x xs Hk' Hmore']; subst.
    destruct fuel as [|f]; [cbn in Hfuel; lia|]. cbn [length] in Hfuel.
    cbn [def_lines app continuation].
    rewrite cont_line_ends. rewrite cont_line_strip by (try exact HL; apply (kp_wsa _ Hk)).
    rewrite <- app_assoc.
    rewrite trim_piece_break by (try apply (kp_ind _ Hk); try apply (kp_wsb _ Hk'); apply (kp_chunk _ Hk)).
    rewrite is_cob_app by (apply chunkP_ne, (kp_chunk _ Hk)). rewrite (kp_ncob _ Hk).
    assert (Hns : is_section (k_val k ++ k_wsa k' ++ [bslash]) = false).
    { unfold is_section. rewrite app_assoc, ends_with_c_snoc.
      change (Ascii.eqb rbracket bslash) with false. apply andb_false_r. }
    rewrite Hns.
    rewrite (app_assoc L (k_val k)).
    rewrite IH; try assumption; [|apply Lok_app, (ch_lok _ (kp_chunk _ Hk))|lia].
    cbn [map concat]. rewrite <- !app_assoc. reflexivity.
Qed.

(* ------------------------------------------------------------------ *)
(* one definition                                                       *)
(* ------------------------------------------------------------------ *)
Record keyP (k : text) : Prop := {
  ky_ne : k <> [];
  ky_tight : tightP k;
  ky_nonl : ~ In nl k;
  ky_noeq : ~ In equals k;
  ky_ncob : is_comment_or_blank k = false;
  ky_nlb : starts_with_c lbracket k = false }.
Lemma key_ok_P : forall k, key_ok k = true -> keyP k.
Proof.
  intros k H. unfold key_ok in H. rewrite !andb_true_iff in H.
  destruct H as [[[[[H1 H2] H3] H4] H5] H6]. constructor.
  - intros E. subst k. discriminate.
  - apply tight_tightP, H2.
  - apply no_nl_P, H3.
  - apply has_c_false, negb_true_iff, H4.
  - apply negb_true_iff, H5.
  - apply negb_true_iff, H6.
Qed.

Lemma equals_nonws : is_ws equals = false. Proof. reflexivity. Qed.

Lemma def_value_Lok : forall v1 conts, chunkP v1 -> Forall contP conts -> Lok (def_value v1 conts).
Proof.
  intros v1 conts Hv Hc. unfold def_value. revert v1 Hv.
  induction Hc as [|k conts Hk _ IH]; intros v1 Hv; cbn [map concat].
  - rewrite app_nil_r. apply (ch_lok _ Hv).
  - apply Lok_app. apply IH. apply (kp_chunk _ Hk).
Qed.
Lemma def_value_tightP : forall v1 conts, chunkP v1 -> Forall contP conts -> tightP (def_value v1 conts).
Proof.
  intros v1 conts Hv Hc. split.
  - unfold def_value. apply starts_nonws_app; [apply chunkP_ne, Hv|apply (ch_start _ Hv)].
  - apply Lok_rev_nonws, def_value_Lok; assumption.
Qed.

Lemma split_option_def : forall key m1 m2 V, keyP key -> all_ws m1 = true -> all_ws m2 = true ->
  tightP V -> split_option (key ++ m1 ++ equals :: m2 ++ V) = Some (key, V).
Proof.
  intros key m1 m2 V Hk H1 H2 HV. unfold split_option.
  rewrite app_assoc. rewrite span_not_app.
  - rewrite trim_ws_r by exact H1. rewrite trim_ws_l by exact H2.
    rewrite (tightP_trim key) by (apply (ky_tight _ Hk)).
    rewrite (tightP_trim V) by exact HV. reflexivity.
  - rewrite in_app_iff. intros [H|H]; [apply (ky_noeq _ Hk), H|].
    revert H. apply all_ws_no; [exact equals_nonws|exact H1].
  - reflexivity.
Qed.

(* the head K = key m1 '=' m2 v1 of a definition *)
Definition def_head (key m1 m2 v1 : text) : text := key ++ m1 ++ equals :: m2 ++ v1.
Lemma def_head_Lok : forall key m1 m2 v1, chunkP v1 -> Lok (def_head key m1 m2 v1).
Proof.
  intros key m1 m2 v1 Hv. unfold def_head. apply Lok_app, Lok_app.
  change (equals :: m2 ++ v1) with (([equals] ++ m2) ++ v1). apply Lok_app, (ch_lok _ Hv).
Qed.
Lemma def_head_not_special : forall key t, keyP key ->
  is_comment_or_blank (key ++ t) = false /\ is_section (key ++ t) = false.
Proof.
  intros key t Hk. rewrite is_cob_app by (apply (ky_ne _ Hk)). split; [apply (ky_ncob _ Hk)|].
  unfold is_section. rewrite starts_with_c_app by (apply (ky_ne _ Hk)).
  rewrite (ky_nlb _ Hk). reflexivity.
Qed.

(* one iteration of parse_lines over a whole (possibly continued) definition *)
Lemma parse_lines_def : forall f pre key m1 m2 v1 conts post rest sec c,
  all_ws pre = true -> all_ws m1 = true -> all_ws m2 = true -> all_ws post = true ->
  keyP key -> chunkP v1 -> Forall contP conts ->
  parse_lines (S f) (def_lines (pre ++ def_head key m1 m2 v1) conts post ++ rest) sec c
  = parse_lines f rest sec (cfg_set (sec_or_default sec, key) (def_value v1 conts) c).
Proof.
  intros f pre key m1 m2 v1 conts post rest sec c Hpre Hm1 Hm2 Hpost Hk Hv Hc.
  pose proof (def_head_Lok key m1 m2 v1 Hv) as HL.
  assert (Hjoin : def_head key m1 m2 v1 ++ concat (map k_val conts)
                  = key ++ m1 ++ equals :: m2 ++ def_value v1 conts).
  { unfold def_head, def_value. rewrite <- !app_assoc. cbn [app]. rewrite <- !app_assoc. reflexivity. }
  assert (Hfin : forall joined, joined = key ++ m1 ++ equals :: m2 ++ def_value v1 conts ->
            split_option (trim_end_wsb joined) = Some (key, def_value v1 conts)).
  { intros joined ->.
    assert (HLj : Lok (key ++ m1 ++ equals :: m2 ++ def_value v1 conts)).
    { apply Lok_app, Lok_app. change (equals :: m2 ++ def_value v1 conts)
        with (([equals] ++ m2) ++ def_value v1 conts). apply Lok_app, def_value_Lok; assumption. }
    rewrite Lok_trim_end_wsb by exact HLj.
    apply split_option_def; try assumption. apply def_value_tightP; assumption. }
  destruct conts as [|k more].
  - (* no continuation *)
    cbn [def_lines app parse_lines].
    rewrite <- app_assoc.
    rewrite trim_padP; [|exact Hpre|exact Hpost|].
    2:{ unfold def_head. apply tightP_app;
        [apply (ky_ne _ Hk)|apply (ky_tight _ Hk)| |apply Lok_rev_nonws].
        - intros E. destruct m2; discriminate.
        - change (equals :: m2 ++ v1) with (([equals] ++ m2) ++ v1). apply Lok_app, (ch_lok _ Hv). }
    destruct (def_head_not_special key (m1 ++ equals :: m2 ++ v1) Hk) as [E1 E2].
    unfold def_head at 1 2. rewrite E1, E2.
    cbn [continuation]. rewrite (Lok_no_bslash _ HL).
    rewrite Hfin by (rewrite <- Hjoin; cbn [map concat]; rewrite app_nil_r; reflexivity).
    reflexivity.
  - inversion Hc as [|x xs Hk0 Hmore]; subst.
    cbn [def_lines app parse_lines].
    replace ((pre ++ def_head key m1 m2 v1) ++ k_wsa k ++ bslash :: k_wsb k)
      with (pre ++ (def_head key m1 m2 v1 ++ k_wsa k ++ [bslash]) ++ k_wsb k)
      by (rewrite <- !app_assoc; reflexivity).
    rewrite trim_padP; [|exact Hpre|apply (kp_wsb _ Hk0)|].
    2:{ unfold def_head. rewrite <- app_assoc.
        apply tightP_app; [apply (ky_ne _ Hk)|apply (ky_tight _ Hk)| |].
        - intros E. apply app_eq_nil in E. destruct E as [_ E]. discriminate.
        - rewrite !rev_app_distr. reflexivity. }
    destruct (def_head_not_special key ((m1 ++ equals :: m2 ++ v1) ++ k_wsa k ++ [bslash]) Hk) as [E1 E2].
    unfold def_head at 1 2. rewrite <- !(app_assoc key) in *. rewrite E1, E2.
    fold (def_head key m1 m2 v1).
    replace (key ++ (m1 ++ equals :: m2 ++ v1) ++ k_wsa k ++ [bslash])
      with (def_head key m1 m2 v1 ++ k_wsa k ++ [bslash])
      by (unfold def_head; rewrite <- !app_assoc; reflexivity).
    rewrite continuation_conts; try assumption.
    2:{ rewrite app_length, def_lines_length. lia. }
    rewrite Hfin by (rewrite <- Hjoin; cbn [map concat]; rewrite <- ?app_assoc; reflexivity).
    reflexivity.
Qed.

(* ------------------------------------------------------------------ *)
(* (7) layouts                                                          *)
(* ------------------------------------------------------------------ *)
Lemma run_items_cons : forall it items st, run_items (it :: items) st = run_items items (item_step st it).
Proof. reflexivity. Qed.
Lemma run_items_app : forall a b st, run_items (a ++ b) st = run_items b (run_items a st).
Proof. intros a b st. unfold run_items. apply fold_left_app. Qed.

Lemma parse_lines_nil : forall fuel sec c, parse_lines fuel [] sec c = Some c.
Proof. intros [|f] sec c; reflexivity. Qed.

Lemma parse_lines_items : forall items fuel sec c,
  forallb litem_ok items = true -> length items <= fuel ->
  parse_lines fuel (flat_map item_lines items) sec c = Some (snd (run_items items (sec, c))).
Proof.
  induction items as [|it items IH]; intros fuel sec c Hok Hfuel.
  - cbn [flat_map]. apply parse_lines_nil.
  - cbn [forallb] in Hok. apply andb_true_iff in Hok. destruct Hok as [Hit Hok].
    destruct fuel as [|f]; [cbn in Hfuel; lia|]. cbn [length] in Hfuel.
    rewrite run_items_cons. cbn [flat_map].
    destruct it as [ws|pre ch body|pre name post|pre key m1 m2 v1 conts post];
      cbn [litem_ok item_lines item_step] in *.
    + apply ws_line_P in Hit. destruct Hit as [Hws _].
      cbn [app parse_lines]. rewrite blank_line by exact Hws. apply IH; [exact Hok|lia].
    + rewrite !andb_true_iff in Hit. destruct Hit as [[Hpre Hc] _].
      apply ws_line_P in Hpre. destruct Hpre as [Hpre _].
      cbn [app parse_lines]. rewrite comment_line by assumption. apply IH; [exact Hok|lia].
    + rewrite !andb_true_iff in Hit. destruct Hit as [[Hpre Hpost] _].
      apply ws_line_P in Hpre. destruct Hpre as [Hpre _].
      apply ws_line_P in Hpost. destruct Hpost as [Hpost _].
      cbn [app parse_lines]. rewrite header_line by assumption.
      destruct (header_is_section name) as [E1 [E2 E3]]. rewrite E1, E2, E3.
      cbn [fst snd]. apply IH; [exact Hok|lia].
    + rewrite !andb_true_iff in Hit. destruct Hit as [[[[[[Hpre Hm1] Hm2] Hpost] Hkey] Hv1] Hconts].
      apply ws_line_P in Hpre. destruct Hpre as [Hpre _].
      apply ws_line_P in Hm1. destruct Hm1 as [Hm1 _].
      apply ws_line_P in Hm2. destruct Hm2 as [Hm2 _].
      apply ws_line_P in Hpost. destruct Hpost as [Hpost _].
      change (pre ++ key ++ m1 ++ equals :: m2 ++ v1) with (pre ++ def_head key m1 m2 v1).
      rewrite parse_lines_def; try assumption.
      * cbn [fst snd]. apply IH; [exact Hok|lia].
      * apply key_ok_P, Hkey.
      * apply chunk_ok_P, Hv1.
      * apply Forall_forall. rewrite forallb_forall in Hconts. intros k Hk. apply cont_ok_P, Hconts, Hk.
Qed.

(* no line break inside the rendered lines *)
Lemma def_lines_nonl : forall conts cur post, ~ In nl cur -> Forall contP conts -> ~ In nl post ->
  Forall (fun l => ~ In nl l) (def_lines cur conts post).
Proof.
  induction conts as [|k conts IH]; intros cur post Hcur Hc Hpost; cbn [def_lines].
  - constructor; [|constructor]. rewrite in_app_iff. tauto.
  - inversion Hc as [|x xs Hk Hc']; subst. destruct (kp_nonl _ Hk) as [Ha [Hb Hi]].
    constructor.
    + rewrite !in_app_iff. intros [H|[H|H]]; [auto|auto|].
      destruct H as [H|H]; [discriminate|auto].
    + apply IH; [|exact Hc'|exact Hpost]. rewrite in_app_iff.
      intros [H|H]; [auto|]. revert H. apply (ch_nonl _ (kp_chunk _ Hk)).
Qed.
Lemma item_lines_nonl : forall it, litem_ok it = true -> Forall (fun l => ~ In nl l) (item_lines it).
Proof.
  intros it Hit.
  destruct it as [ws|pre ch body|pre name post|pre key m1 m2 v1 conts post];
    cbn [litem_ok item_lines] in *.
  - apply ws_line_P in Hit. constructor; [tauto|constructor].
  - rewrite !andb_true_iff in Hit. destruct Hit as [[Hpre Hc] Hb].
    apply ws_line_P in Hpre. apply no_nl_P in Hb. constructor; [|constructor].
    rewrite in_app_iff. intros [H|[H|H]]; [tauto| |tauto]. subst ch. discriminate.
  - rewrite !andb_true_iff in Hit. destruct Hit as [[Hpre Hpost] Hn].
    apply ws_line_P in Hpre. apply ws_line_P in Hpost. apply no_nl_P in Hn.
    constructor; [|constructor]. rewrite in_app_iff. intros [H|[H|H]]; [tauto|discriminate|].
    apply in_app_iff in H. destruct H as [H|[H|H]]; [tauto|discriminate|tauto].
  - rewrite !andb_true_iff in Hit. destruct Hit as [[[[[[Hpre Hm1] Hm2] Hpost] Hkey] Hv1] Hconts].
    apply ws_line_P in Hpre. apply ws_line_P in Hm1. apply ws_line_P in Hm2. apply ws_line_P in Hpost.
    apply key_ok_P in Hkey. apply chunk_ok_P in Hv1.
    apply def_lines_nonl; [| |tauto].
    + rewrite !in_app_iff. intros [H|[H|[H|H]]]; [tauto|apply (ky_nonl _ Hkey), H|tauto|].
      destruct H as [H|H]; [discriminate|]. apply in_app_iff in H.
      destruct H as [H|H]; [tauto|apply (ch_nonl _ Hv1), H].
    + apply Forall_forall. rewrite forallb_forall in Hconts. intros k Hk. apply cont_ok_P, Hconts, Hk.
Qed.
Lemma layout_lines_nonl : forall items, forallb litem_ok items = true ->
  Forall (fun l => ~ In nl l) (flat_map item_lines items).
Proof.
  induction items as [|it items IH]; intros H; cbn [flat_map]; [constructor|].
  cbn [forallb] in H. apply andb_true_iff in H. destruct H as [H1 H2].
  apply Forall_app. split; [apply item_lines_nonl, H1|apply IH, H2].
Qed.
Lemma item_lines_length : forall it, 1 <= length (item_lines it).
Proof.
  intros [ws|pre ch body|pre name post|pre key m1 m2 v1 conts post]; cbn [item_lines length]; try lia.
  rewrite def_lines_length. lia.
Qed.
Lemma layout_lines_length : forall items, length items <= length (flat_map item_lines items).
Proof.
  induction items as [|it items IH]; cbn [flat_map length]; [lia|].
  rewrite app_length. pose proof (item_lines_length it). lia.
Qed.

(* layout independence: whatever the layout, the configuration read is the
   one the layout stands for (value = concatenation of its pieces) *)
Theorem parse_layout : forall items, forallb litem_ok items = true ->
  parse_config (render_layout items) = Some (cfg_of_layout items).
Proof.
  intros items Hok. unfold parse_config, render_layout.
  rewrite ini_lines_render by (apply layout_lines_nonl, Hok).
  apply parse_lines_items; [exact Hok|]. pose proof (layout_lines_length items). lia.
Qed.

(* the last line may lack its terminator *)
Lemma render_lines_snoc : forall ls l, render_lines (ls ++ [l]) = render_lines ls ++ l ++ [nl].
Proof. intros ls l. unfold render_lines. rewrite flat_map_app. cbn [flat_map]. rewrite app_nil_r. reflexivity. Qed.
Theorem parse_config_last_unterminated : forall ls l,
  Forall (fun x => ~ In nl x) ls -> ~ In nl l -> l <> [] ->
  parse_config (render_lines ls ++ l) = parse_config (render_lines (ls ++ [l])).
Proof.
  intros ls l H Hl Hne. unfold parse_config.
  rewrite ini_lines_render_last by assumption.
  rewrite ini_lines_render; [reflexivity|]. apply Forall_app. split; [exact H|]. constructor; [exact Hl|constructor].
Qed.

(* ------------------------------------------------------------------ *)
(* (6) plain rendering                                                  *)
(* ------------------------------------------------------------------ *)
Lemma def_value_nil : forall v, def_value v [] = v.
Proof. intros v. unfold def_value. cbn [map concat]. apply app_nil_r. Qed.

Lemma plain_items_ok : forall secs, plain_ok secs = true -> forallb litem_ok (plain_items secs) = true.
Proof.
  intros secs H. unfold plain_ok in H. unfold plain_items.
  induction secs as [|sd secs IH]; cbn [flat_map]; [reflexivity|].
  cbn [forallb] in H. apply andb_true_iff in H. destruct H as [Hsd H].
  apply andb_true_iff in Hsd. destruct Hsd as [Hname Hdefs].
  rewrite forallb_app. rewrite IH by exact H. rewrite andb_true_r.
  cbn [forallb litem_ok]. rewrite Hname. cbn [ws_line all_ws forallb no_nl has_c memb existsb negb andb].
  rewrite forallb_forall. intros it Hit. apply in_map_iff in Hit. destruct Hit as [kv [E Hkv]]. subst it.
  rewrite forallb_forall in Hdefs. specialize (Hdefs _ Hkv). apply andb_true_iff in Hdefs.
  destruct Hdefs as [Hk Hv]. cbn [litem_ok forallb]. rewrite Hk, Hv. reflexivity.
Qed.

Lemma run_plain_defs : forall defs name c,
  run_items (map (fun kv : text * text => LDef [] (fst kv) (T " ") (T " ") (snd kv) [] []) defs) (name, c)
  = (name, fold_left (fun c kv => cfg_set (sec_or_default name, fst kv) (snd kv) c) defs c).
Proof.
  induction defs as [|kv defs IH]; intros name c; cbn [map fold_left]; [reflexivity|].
  rewrite run_items_cons. cbn [item_step fst snd]. rewrite def_value_nil. apply IH.
Qed.
Lemma run_plain_items : forall secs s c,
  snd (run_items (plain_items secs) (s, c))
  = fold_left (fun c sd => fold_left (fun c kv => cfg_set (sec_or_default (fst sd), fst kv) (snd kv) c) (snd sd) c)
              secs c.
Proof.
  induction secs as [|sd secs IH]; intros s c; [reflexivity|].
  unfold plain_items. cbn [flat_map]. fold (plain_items secs).
  rewrite run_items_app. rewrite run_items_cons. cbn [item_step snd].
  rewrite run_plain_defs. cbn [fold_left]. apply IH.
Qed.

Theorem parse_plain : forall secs, plain_ok secs = true ->
  parse_config (render_plain secs) = Some (cfg_of_plain secs).
Proof.
  intros secs H. unfold render_plain. rewrite parse_layout by (apply plain_items_ok, H).
  unfold cfg_of_layout, cfg_of_plain. rewrite run_plain_items. reflexivity.
Qed.

(* ------------------------------------------------------------------ *)
(* continuation breaks modulo white space                               *)
(* ------------------------------------------------------------------ *)
Lemma quotes_even_negb : forall s b, quotes_even (negb b) s = negb (quotes_even b s).
Proof.
  induction s as [|c s IH]; intros b; cbn [quotes_even]; [reflexivity|].
  destruct (Ascii.eqb c dquote); apply IH.
Qed.
Lemma norm_go_app : forall a b s, norm_go b (a ++ s) = norm_go b a ++ norm_go (quotes_even b a) s.
Proof.
  induction a as [|c a IH]; intros b s; cbn [app norm_go quotes_even]; [reflexivity|].
  destruct (Ascii.eqb c dquote).
  - cbn [app]. rewrite IH. reflexivity.
  - destruct (negb b && is_ws c); [apply IH|]. cbn [app]. rewrite IH. reflexivity.
Qed.
Lemma quotes_even_closed : forall a, quotes_even true a = true -> quotes_even false a = false.
Proof. intros a H. change false with (negb true) at 1. rewrite quotes_even_negb, H. reflexivity. Qed.

Lemma norm_ws_app_even : forall a s, quotes_even true a = true -> norm_ws (a ++ s) = norm_ws a ++ norm_ws s.
Proof. intros a s H. unfold norm_ws. rewrite norm_go_app, quotes_even_closed by exact H. reflexivity. Qed.

(* the value read from a continued definition equals, up to blanks outside
   string literals, the value written on one line with single blanks at the
   breaks *)
Lemma def_value_norm : forall conts v1,
  quotes_even true v1 = true -> forallb (fun k => quotes_even true (k_val k)) conts = true ->
  norm_ws (def_value v1 conts) = norm_ws (def_value_sp v1 conts).
Proof.
  unfold def_value, def_value_sp.
  induction conts as [|k conts IH]; intros v1 Hv Hc; cbn [map concat]; [reflexivity|].
  cbn [forallb] in Hc. apply andb_true_iff in Hc. destruct Hc as [Hk Hc].
  rewrite (norm_ws_app_even v1 (k_val k ++ concat (map k_val conts))) by exact Hv.
  rewrite (norm_ws_app_even v1 ((" "%char :: k_val k) ++ concat (map (fun k0 => " "%char :: k_val k0) conts)))
    by exact Hv.
  f_equal.
  change (norm_ws ((" "%char :: k_val k) ++ concat (map (fun k0 => " "%char :: k_val k0) conts)))
    with (norm_ws (k_val k ++ concat (map (fun k0 => " "%char :: k_val k0) conts))).
  apply IH; assumption.
Qed.

Lemma cfg_set_equiv : forall k v v' c c', cfg_equiv c c' -> norm_ws v = norm_ws v' ->
  cfg_equiv (cfg_set k v c) (cfg_set k v' c').
Proof.
  intros k v v' c c' H Hv. induction H as [|[k1 x1] [k2 x2] c c' [Hk Hx] Hcc IH]; cbn [cfg_set].
  - constructor; [split; [reflexivity|exact Hv]|constructor].
  - cbn [fst snd] in Hk, Hx. subst k2. destruct (pair_eqb k k1).
    + constructor; [split; [reflexivity|exact Hv]|exact Hcc].
    + constructor; [split; [reflexivity|exact Hx]|exact IH].
Qed.
Lemma cfg_equiv_refl : forall c, cfg_equiv c c.
Proof. induction c as [|kv c IH]; constructor; [split; reflexivity|exact IH]. Qed.

Lemma run_items_unbreak : forall items s c c',
  forallb breaks_outside_strings items = true -> cfg_equiv c c' ->
  fst (run_items items (s, c)) = fst (run_items (map unbreak items) (s, c')) /\
  cfg_equiv (snd (run_items items (s, c))) (snd (run_items (map unbreak items) (s, c'))).
Proof.
  induction items as [|it items IH]; intros s c c' Hb Hc; cbn [map].
  - split; [reflexivity|exact Hc].
  - cbn [forallb] in Hb. apply andb_true_iff in Hb. destruct Hb as [Hit Hb].
    rewrite !run_items_cons.
    destruct it as [ws|pre ch body|pre name post|pre key m1 m2 v1 conts post];
      cbn [unbreak item_step fst snd]; try (apply IH; assumption).
    apply IH; [exact Hb|]. apply cfg_set_equiv; [exact Hc|].
    rewrite def_value_nil. cbn [breaks_outside_strings] in Hit. apply andb_true_iff in Hit.
    destruct Hit as [H1 H2]. apply def_value_norm; assumption.
Qed.

(* the un-broken definition is again a legal one-line definition *)
Lemma def_value_sp_chunk : forall conts v1, chunk_ok v1 = true -> forallb cont_ok conts = true ->
  chunk_ok (def_value_sp v1 conts) = true.
Proof.
  unfold def_value_sp.
  induction conts as [|k conts IH]; intros v1 Hv Hc; cbn [map concat].
  - rewrite app_nil_r. exact Hv.
  - cbn [forallb] in Hc. apply andb_true_iff in Hc. destruct Hc as [Hk Hc].
    assert (Hkv : chunk_ok (k_val k) = true).
    { unfold cont_ok, cont_chunk_ok in Hk. rewrite !andb_true_iff in Hk. tauto. }
    specialize (IH (k_val k) Hkv Hc).
    (* v1 ++ ' ' :: X with X a chunk *)
    remember (k_val k ++ concat (map (fun k0 => " "%char :: k_val k0) conts)) as X.
    change ((" "%char :: k_val k) ++ concat (map (fun k0 => " "%char :: k_val k0) conts))
      with (" "%char :: (k_val k ++ concat (map (fun k0 => " "%char :: k_val k0) conts))).
    rewrite <- HeqX. clear HeqX.
    unfold chunk_ok in *. rewrite !andb_true_iff in *.
    destruct Hv as [[[V1 V2] V3] V4]. destruct IH as [[[X1 X2] X3] X4].
    apply tight_tightP in V2. apply tight_tightP in X2.
    assert (Xne : X <> []) by (intros E; subst X; discriminate).
    assert (Vne : v1 <> []) by (intros E; subst v1; discriminate).
    split; [split; [split|]|].
    + destruct v1; [contradiction|reflexivity].
    + apply tight_tightP. change (v1 ++ " "%char :: X) with (v1 ++ [" "%char] ++ X).
      apply tightP_app; [exact Vne|apply V2|exact Xne|apply X2].
    + apply no_nl_P. apply no_nl_P in V3. apply no_nl_P in X3. rewrite in_app_iff.
      intros [H|[H|H]]; [auto|discriminate|auto].
    + apply negb_true_iff. apply negb_true_iff in X4. unfold ends_with_c in *.
      rewrite rev_app_distr. cbn [rev]. rewrite <- app_assoc.
      destruct (rev X) as [|x r] eqn:E; [|exact X4].
      exfalso. apply Xne. apply (f_equal (@rev _)) in E. rewrite rev_involutive in E. exact E.
Qed.
Lemma unbreak_ok : forall it, litem_ok it = true -> litem_ok (unbreak it) = true.
Proof.
  intros [ws|pre ch body|pre name post|pre key m1 m2 v1 conts post] H; cbn [unbreak]; try exact H.
  cbn [litem_ok] in *. rewrite !andb_true_iff in *.
  destruct H as [[[[[[Hpre Hm1] Hm2] Hpost] Hkey] Hv1] Hconts].
  repeat split; try assumption. apply def_value_sp_chunk; assumption.
Qed.

(* (7), modulo white space: a layout with continuation breaks reads as the same
   layout written without breaks, up to blanks outside string literals in the
   values; with no break at all the two layouts are the same text *)
Theorem layout_breaks_equiv : forall items,
  forallb litem_ok items = true -> forallb breaks_outside_strings items = true ->
  exists c c', parse_config (render_layout items) = Some c /\
               parse_config (render_layout (map unbreak items)) = Some c' /\
               cfg_equiv c c'.
Proof.
  intros items Hok Hb. exists (cfg_of_layout items), (cfg_of_layout (map unbreak items)).
  split; [apply parse_layout, Hok|]. split.
  - apply parse_layout. rewrite forallb_forall in *. intros it Hit.
    apply in_map_iff in Hit. destruct Hit as [it0 [E Hit0]]. subst it. apply unbreak_ok, Hok, Hit0.
  - unfold cfg_of_layout. apply run_items_unbreak; [exact Hb|constructor].
Qed.

Lemma cfg_equivb_sound : forall c c', cfg_equivb c c' = true <-> cfg_equiv c c'.
Proof.
  induction c as [|[k v] c IH]; intros [|[k' v'] c']; cbn [cfg_equivb].
  1:{ split; [constructor|reflexivity]. }
  1:{ split; [discriminate|intros H; inversion H]. }
  1:{ split; [discriminate|intros H; inversion H]. }
  split; intros H.
  - rewrite !andb_true_iff in H. destruct H as [[Hk Hv] Hc]. constructor.
    + cbn [fst snd]. split; [|apply teqb_eq, Hv].
      unfold pair_eqb in Hk. apply andb_true_iff in Hk. destruct Hk as [K1 K2].
      apply teqb_eq in K1. apply teqb_eq in K2. destruct k, k'. cbn [fst snd] in *. subst. reflexivity.
    + apply IH, Hc.
  - inversion H as [|x y l l' [Hk Hv] Hc]; subst. cbn [fst snd] in *. subst k'.
    rewrite !andb_true_iff. split; [split|].
    + unfold pair_eqb. rewrite !teqb_refl. reflexivity.
    + apply teqb_eq, Hv.
    + apply IH, Hc.
Qed.

(* ------------------------------------------------------------------ *)
(* examples and the known quirk D21                                     *)
(* ------------------------------------------------------------------ *)
Definition ex_plain_secs : list (text * list (text * text)) :=
  [ (T "request_definition", [(T "r", T "sub, obj, act")]);
    (T "policy_definition", [(T "p", T "sub, obj, act")]);
    (T "role_definition", [(T "g", T "_, _")]);
    (T "policy_effect", [(T "e", T "some(where (p.eft == allow))")]);
    (T "matchers", [(T "m", T "g(r.sub, p.sub) && r.obj == p.obj && r.act == p.act")]) ].
Lemma ex_plain_ok : plain_ok ex_plain_secs = true.
Proof. vm_compute. reflexivity. Qed.
Lemma ex_plain_text : render_plain ex_plain_secs =
  T "[request_definition]" ++ nlt ++ T "r = sub, obj, act" ++ nlt ++
  T "[policy_definition]" ++ nlt ++ T "p = sub, obj, act" ++ nlt ++
  T "[role_definition]" ++ nlt ++ T "g = _, _" ++ nlt ++
  T "[policy_effect]" ++ nlt ++ T "e = some(where (p.eft == allow))" ++ nlt ++
  T "[matchers]" ++ nlt ++ T "m = g(r.sub, p.sub) && r.obj == p.obj && r.act == p.act" ++ nlt.
Proof. vm_compute. reflexivity. Qed.

Definition tab : ascii := ascii_of_nat 9.
(* the same model under a wild layout: comments, blank lines, blanks and tabs,
   CR before LF, a matcher broken over three lines *)
Definition ex_layout : list litem :=
  [ LComment [] hash (T " model"); LBlank (T "  ");
    LHeader (T " ") (T "request_definition") [tab; cr];
    LDef (T "  ") (T "r") [] (T "  ") (T "sub, obj, act") [] [cr];
    LComment (T " ") semicolon (T " x = y");
    LHeader [] (T "policy_definition") [];
    LDef [] (T "p") [tab] [] (T "sub, obj, act") [] (T "  ");
    LHeader [] (T "role_definition") []; LBlank [cr];
    LDef [] (T "g") (T " ") (T " ") (T "_, _") [] [];
    LHeader [] (T "policy_effect") [];
    LDef [] (T "e") (T " ") (T " ") (T "some(where (p.eft == allow))") [] [];
    LHeader [] (T "matchers") [];
    LDef [] (T "m") (T " ") (T " ") (T "g(r.sub, p.sub) &&")
         [ {| k_wsa := T " "; k_wsb := [cr]; k_ind := T "    "; k_val := T "r.obj == p.obj &&" |};
           {| k_wsa := []; k_wsb := []; k_ind := [tab]; k_val := T "r.act == p.act" |} ] (T " ");
    LComment [] hash (T " end") ].
Lemma ex_layout_ok : forallb litem_ok ex_layout = true.
Proof. vm_compute. reflexivity. Qed.
Lemma ex_layout_breaks : forallb breaks_outside_strings ex_layout = true.
Proof. vm_compute. reflexivity. Qed.
(* equal to the plain configuration except for the blanks lost at the breaks *)
Lemma ex_layout_cfg :
  parse_config (render_layout ex_layout) =
  Some [ ((T "request_definition", T "r"), T "sub, obj, act");
         ((T "policy_definition", T "p"), T "sub, obj, act");
         ((T "role_definition", T "g"), T "_, _");
         ((T "policy_effect", T "e"), T "some(where (p.eft == allow))");
         ((T "matchers", T "m"), T "g(r.sub, p.sub) &&r.obj == p.obj &&r.act == p.act") ].
Proof. vm_compute. reflexivity. Qed.
Lemma ex_layout_equiv_plain :
  match parse_config (render_layout ex_layout), parse_config (render_plain ex_plain_secs) with
  | Some c, Some c' => cfg_equivb c c'
  | _, _ => false
  end = true.
Proof. vm_compute. reflexivity. Qed.

(* D21: a blank or comment line inside a continuation ends it; the remainder
   of the value is read as a separate line: silently as another key when it
   contains an '=', a parse error otherwise *)
Definition d21_text : text :=
  T "[matchers]" ++ nlt ++ T "m = r.sub == p.sub && \" ++ nlt ++ T "# note" ++ nlt ++
  T "  r.obj == p.obj" ++ nlt.
Lemma d21_comment_in_continuation :
  parse_config d21_text =
  Some [ ((T "matchers", T "m"), T "r.sub == p.sub &&");
         ((T "matchers", T "r.obj"), T "= p.obj") ].
Proof. vm_compute. reflexivity. Qed.
Definition d21_text2 : text :=
  T "[matchers]" ++ nlt ++ T "m = r.sub == p.sub && \" ++ nlt ++ nlt ++
  T "  keyMatch(r.obj, p.obj)" ++ nlt.
Lemma d21_blank_in_continuation : parse_config d21_text2 = None.
Proof. vm_compute. reflexivity. Qed.
(* without the interposed line the same text is fine *)
Definition d21_text_ok : text :=
  T "[matchers]" ++ nlt ++ T "m = r.sub == p.sub && \" ++ nlt ++
  T "  keyMatch(r.obj, p.obj)" ++ nlt.
Lemma d21_without_blank :
  parse_config d21_text_ok = Some [ ((T "matchers", T "m"), T "r.sub == p.sub &&keyMatch(r.obj, p.obj)") ].
Proof. vm_compute. reflexivity. Qed.
