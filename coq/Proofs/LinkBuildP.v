(* Part 21 (linking): Enforcer::build_role_links down to the translated role manager.

     Enforcer::build_role_links                  Gen/EnforcerGen.v    gen_build_role_links
       -> rm.write().clear()                     Gen/RoleManagerGen.v gen_clear
       -> DefaultModel::build_role_links         Gen/LinksGen.v       gen_model_build_role_links
            -> Assertion::build_role_links       Gen/LinksGen.v       gen_ast_build_role_links
                 -> rm.write().add_link          Gen/RoleManagerGen.v gen_add_link

   links_build_skel / build_role_links_skel are the generated functions with their callees abstracted (computed
   from the generated terms); lk_* are the skeletons on the translated callees.  The invariant of both loops is the
   well-formedness of the manager (kept by add_link), which is what lets gen_add_link be used on rm_conc. *)
From CV Require Import Model.Base Model.RoleGraph Model.Enforce Model.Engine.
From CV Require Import Gen.RustStr Gen.RustVec Gen.LinksPrims Gen.LinksGen Gen.InternalPrims Gen.EnforcerPrims Gen.EnforcerGen.
From CV Require Import Proofs.BaseP Proofs.RoleGraphP Proofs.C13P.
From CV Require Import Proofs.LinkBaseP Proofs.LinkRmP Proofs.LinkEnforceP Proofs.LinkAddP.
From CV Require Import PinChecks.PcRoleManagerGen PinChecks.PcLinksGen PinChecks.PcEnforcerGen.

Definition links_build_skel :=
  ltac:(let t := eval cbv delta [gen_model_build_role_links gen_ast_build_role_links] in gen_model_build_role_links in
        let t := eval pattern rs_rm_add_link in t in
        match t with ?f _ => exact f end).
Lemma links_build_skel_gen : links_build_skel rs_rm_add_link = gen_model_build_role_links.
Proof. reflexivity. Qed.

Definition build_role_links_skel :=
  ltac:(let t := eval cbv delta [gen_build_role_links] in gen_build_role_links in
        let t := eval pattern EnforcerPrims.rm_clear, model_build_role_links in t in
        match t with ?f _ _ => exact f end).
Lemma build_role_links_skel_gen : build_role_links_skel EnforcerPrims.rm_clear model_build_role_links = gen_build_role_links.
Proof. reflexivity. Qed.

(* one iteration of a link loop keeps the manager well formed *)
Ltac wf_flow :=
  cbv beta; repeat destr_inner; intros Heq; try discriminate Heq; injection Heq as <-;
  first [ assumption | apply wf_rs_add; assumption ].

(* both sides are the same generated term up to add_link: synchronize the loops (invariant: wf), split the rest *)
Ltac body_eq :=
  cbv beta;
  repeat (first
    [ reflexivity
    | rewrite link_rs_add_link by assumption
    | match goal with
      | |- context [rs_for ?b1 ?l ?s] =>
        match goal with
        | |- context [rs_for ?b2 l s] =>
          lazymatch b1 with b2 => fail | _ => idtac end;
          let H := fresh "Hl" in
          assert (H : rs_for b1 l s = rs_for b2 l s);
          [ apply (rs_for_inv_ext wf b1 b2); [ intros ? ? ?; body_eq | intros ? ? ? ?; wf_flow | assumption ]
          | rewrite H; clear H ]
        end
      end
    | destr_inner
    | destr_loop ]).

Definition lk_links_build := links_build_skel lk_rs_add_link.

Theorem link_links_build : forall h md m, wf m ->
  lk_links_build h md m = gen_model_build_role_links h md m.
Proof.
  intros h md m Hwf. rewrite <- links_build_skel_gen. unfold lk_links_build, links_build_skel. cbv beta.
  destr_inner; [|reflexivity].
  match goal with
  | |- context [rs_for ?b1 ?l ?s] =>
    match goal with
    | |- context [rs_for ?b2 l s] =>
      lazymatch b1 with b2 => fail | _ => idtac end;
      assert (H : rs_for b1 l s = rs_for b2 l s)
    end
  end.
  { match goal with |- rs_for ?b1 ?l ?s = rs_for ?b2 _ _ =>
      apply (rs_for_inv_ext (fun st : rmgr * amap => wf (fst st)) b1 b2) end.
    - intros [pos ast] [st_rm asts] Hst. cbn [fst] in Hst. body_eq.
    - intros [pos ast] [st_rm asts] [st_rm' asts'] Hst. cbn [fst] in Hst |- *. cbv beta.
      repeat (first [destr_inner | destr_loop]); intros Heq; try discriminate Heq;
        injection Heq as <- <-;
        repeat match goal with H : rs_fn _ = Some _ |- _ => cbn [rs_fn] in H; try discriminate H; injection H as H end;
        try congruence.
      all: subst;
        match goal with
        | H : rs_for ?b ?l ?s0 = Done ?r |- wf ?r =>
            apply (rs_for_inv_done wf (fun _ : assertion * rmgr * lerr => True) b
                     ltac:(intros ? ? ? ?; wf_flow) ltac:(intros ? ? ? ?; wf_flow) ltac:(intros; exact I) l s0 r); assumption
        | H : rs_for ?b ?l ?s0 = Returned (?a1, ?r, ?e) |- wf ?r =>
            apply (rs_for_inv_returned wf (fun ret : assertion * rmgr * lerr => wf (snd (fst ret))) b
                     ltac:(intros ? ? ? ?; wf_flow) ltac:(intros ? ? ? ?; wf_flow)
                     ltac:(intros ? ? ? ?; cbv beta; repeat destr_inner; intros Heq; try discriminate Heq;
                           injection Heq as <-; cbn [fst snd]; assumption) l s0 (a1, r, e)); assumption
        end.
    - exact Hwf. }
  rewrite H. reflexivity.
Qed.

(* self.rm.write().clear() / self.model.build_role_links(Arc::clone(&self.rm)) on the enforcer state *)
Definition lk_rm_clear_s (s : estate) : estate := upd_fs s (set_rm (e_fs s) (lk_rm_clear (f_rm (e_fs s)))).
Definition lk_model_build_role_links (s : estate) : estate * lerr :=
  match lk_links_build HCur (e_model s) (f_rm (e_fs s)) with
  | Some (md', m', e) => (upd_fs (upd_model s md') (set_rm (e_fs s) m'), e)
  | None => (s, LOk)
  end.
Definition lk_build_role_links := build_role_links_skel lk_rm_clear_s lk_model_build_role_links.

Theorem link_rm_clear_s : forall s, rm_wf s -> lk_rm_clear_s s = EnforcerPrims.rm_clear s.
Proof. intros s Hwf. unfold lk_rm_clear_s. rewrite (LinkRmP.link_rm_clear _ Hwf). reflexivity. Qed.

Theorem link_model_build_role_links_s : forall s, rm_wf s -> lk_model_build_role_links s = model_build_role_links s.
Proof.
  intros s Hwf. unfold lk_model_build_role_links. rewrite (link_links_build HCur (e_model s) (f_rm (e_fs s)) Hwf).
  rewrite gen_model_build_role_links_model. unfold model_build_role_links.
  destruct (assoc s_g (e_model s)) as [am|].
  - destruct (build_links_am am (f_rm (e_fs s))) as [[am' m'] e]. reflexivity.
  - destruct s as [md mx ad [rm rmx gf uf] en sv bl nt cb wt wl]. reflexivity.
Qed.

Theorem link_build_role_links_fn : forall s, rm_wf s ->
  lk_build_role_links s = gen_build_role_links s.
Proof.
  intros s Hwf. rewrite <- build_role_links_skel_gen. unfold lk_build_role_links, build_role_links_skel. cbv beta.
  rewrite (link_rm_clear_s s Hwf).
  rewrite link_model_build_role_links_s; [reflexivity|]. unfold rm_wf, EnforcerPrims.rm_clear. cbn [e_fs upd_fs f_rm set_rm].
  apply wf_nil.
Qed.

Corollary lk_build_role_links_step : forall s, rm_wf s -> lk_build_role_links s = step s OBuildRoleLinks.
Proof. intros s Hwf. rewrite (link_build_role_links_fn s Hwf). apply gen_build_role_links_ok. Qed.
