(* C05 at the level of the TRANSLATED SOURCE: the headline theorems of Properties/C05.v restated about `src_step` /
   `src_run_ops` / `src_enforce*` / `src_ask` / `src_new_enforcer` (Proofs/SrcStepP.v, Proofs/SrcQueryP.v: the Gallina
   generated each run from src/internal_api.rs, src/rbac_api.rs, src/management_api.rs, src/enforcer.rs).
   The definitions of Proofs/C05Main.v / C05Rebuild.v that go through `step` / `enforce` (op_allowed, hist_ok,
   same_decisions) get a src_ twin by the same text, proved equal first.
   Proofs: the C05 theorems composed with src_step_eq & co. *)
From CV Require Import Model.Base Model.Effector Model.RoleGraph Model.Expr Model.Enforce Model.Engine Model.SpecC05.
From CV Require Import Proofs.BaseP Proofs.RoleGraphP Proofs.C05Links Proofs.C05Sync Proofs.C05Steps
     Proofs.C05Load Proofs.C05Main Proofs.C05Rebuild Proofs.C05Err Proofs.C05P.
From CV Require Import Proofs.SrcStepP Proofs.SrcQueryP.

(* ---- twins ---- *)
Definition src_op_allowed (s : estate) (o : op) : bool :=
  match o with
  | OEnableAutoBuild false => false
  | OSetModel d => is_ok (snd (src_step s o))
  | _ => true
  end.

Fixpoint src_hist_ok (s : estate) (ops : list op) : bool :=
  match ops with
  | [] => true
  | o :: r => src_op_allowed s o && side_ok (fst (src_step s o)) && src_hist_ok (fst (src_step s o)) r
  end.

Record src_same_decisions (ptab : text -> option expr) (s s' : estate) : Prop := {
  ssd_has_link : forall a b d,
      has_link (f_rm_max (e_fs s')) (f_rm (e_fs s')) a b d =
      has_link (f_rm_max (e_fs s)) (f_rm (e_fs s)) a b d;
  ssd_enforce : forall rv, src_enforce ptab s' rv = src_enforce ptab s rv;
  ssd_enforce_ctx : forall k rv, src_enforce_with_ctx ptab s' k rv = src_enforce_with_ctx ptab s k rv;
}.

Lemma src_op_allowed_eq : forall s o, src_op_allowed s o = op_allowed s o.
Proof. intros s o. destruct o; cbn [src_op_allowed op_allowed]; try reflexivity. rewrite src_step_eq. reflexivity. Qed.

Lemma src_hist_ok_eq : forall ops s, src_hist_ok s ops = hist_ok s ops.
Proof.
  induction ops as [|o r IH]; intros s; [reflexivity|].
  cbn [src_hist_ok hist_ok]. rewrite src_op_allowed_eq, src_step_eq, IH. reflexivity.
Qed.

Lemma src_same_decisions_of : forall ptab s s', same_decisions ptab s s' -> src_same_decisions ptab s s'.
Proof.
  intros ptab s s' [H1 H2 H3]. split.
  - exact H1.
  - intros rv. rewrite !src_enforce_eq. apply H2.
  - intros k rv. rewrite !src_enforce_with_ctx_eq. apply H3.
Qed.

(* ---- (3) preservation: one translated call of ANY kind keeps the role graph in sync ---- *)
Lemma src_c05_step : forall s o,
  RoleSync s -> e_auto_build s = true ->
  side_ok s = true -> side_ok (fst (src_step s o)) = true ->
  src_op_allowed s o = true ->
  RoleSync (fst (src_step s o)).
Proof.
  intros s o Hs Hb Hso Hso' Ha. rewrite src_op_allowed_eq in Ha. rewrite src_step_eq in *.
  apply step_sync; assumption.
Qed.

(* histories *)
Lemma src_c05_run_ops : forall ops s, SyncInv s -> src_hist_ok s ops = true -> SyncInv (src_run_ops s ops).
Proof.
  intros ops s Hi Hh. rewrite src_hist_ok_eq in Hh. rewrite src_run_ops_eq. apply run_ops_sync; assumption.
Qed.

(* under the invariant the role-link update after an accepted change never fails *)
Lemma src_c05_no_link_error : forall s o, SyncInv s -> side_ok (fst (src_step s o)) = true ->
  src_op_allowed s o = true -> o <> OSave ->
  forall e, snd (src_step s o) = Err e -> e = EAdapter.
Proof.
  intros s o Hi Hso Ha Hne e He. rewrite src_op_allowed_eq in Ha. rewrite src_step_eq in *.
  exact (step_no_link_error s o Hi Hso Ha Hne e He).
Qed.

(* ---- (4) an explicit rebuild is a no-op on observations ---- *)
Lemma src_c05_rebuild_noop : forall ptab s, RoleSync s -> g_exact (e_model s) = true ->
  snd (src_step s OBuildRoleLinks) = Ok true /\
  RoleSync (fst (src_step s OBuildRoleLinks)) /\
  same_observations ptab s (fst (src_step s OBuildRoleLinks)) /\
  (shallow (f_rm_max (e_fs s)) (f_rm (e_fs s)) ->
   src_same_decisions ptab s (fst (src_step s OBuildRoleLinks))).
Proof.
  intros ptab s Hs Hg. rewrite !src_step_eq.
  destruct (rebuild_noop ptab s Hs Hg) as (H1 & H2 & H3 & H4).
  split; [exact H1|]. split; [exact H2|]. split; [exact H3|].
  intros Hsh. apply src_same_decisions_of. apply H4. exact Hsh.
Qed.

(* the property as phrased: after ANY history with auto-build on, from any state satisfying the invariant *)
Lemma src_c05_from_inv : forall ptab s0 ops, SyncInv s0 -> src_hist_ok s0 ops = true ->
  let s := src_run_ops s0 ops in
  let s' := fst (src_step s OBuildRoleLinks) in
  snd (src_step s OBuildRoleLinks) = Ok true /\
  SyncInv s' /\
  same_observations ptab s s' /\
  (shallow (f_rm_max (e_fs s)) (f_rm (e_fs s)) ->
   src_same_decisions ptab s s' /\ forall q, ans_eq (src_ask ptab s' q) (src_ask ptab s q)).
Proof.
  intros ptab s0 ops Hi Hh. cbv zeta. rewrite src_hist_ok_eq in Hh. rewrite src_run_ops_eq, !src_step_eq.
  pose proof (C05P.c05_from_inv ptab s0 ops Hi Hh) as H. cbv zeta in H.
  destruct H as (H1 & H2 & H3 & H4).
  split; [exact H1|]. split; [exact H2|]. split; [exact H3|].
  intros Hsh. destruct (H4 Hsh) as [Hd Hq]. split.
  - apply src_same_decisions_of. exact Hd.
  - intros q. rewrite !src_ask_eq. apply Hq.
Qed.

(* ... and from a freshly built enforcer (Enforcer::new with the translated initial load) *)
Lemma src_c05_history : forall ptab d a w ops,
  is_ok (snd (src_new_enforcer d a w)) = true -> ad_is_filtered a = false ->
  side_ok (fst (src_new_enforcer d a w)) = true ->
  src_hist_ok (fst (src_new_enforcer d a w)) ops = true ->
  let s := src_run_ops (fst (src_new_enforcer d a w)) ops in
  let s' := fst (src_step s OBuildRoleLinks) in
  snd (src_step s OBuildRoleLinks) = Ok true /\
  RoleSync s' /\
  same_observations ptab s s' /\
  (shallow (f_rm_max (e_fs s)) (f_rm (e_fs s)) ->
   src_same_decisions ptab s s' /\ forall q, ans_eq (src_ask ptab s' q) (src_ask ptab s q)).
Proof.
  intros ptab d a w ops. rewrite src_new_enforcer_eq. intros Hok Hf Hso Hh. cbv zeta.
  rewrite src_hist_ok_eq in Hh. rewrite src_run_ops_eq, !src_step_eq.
  pose proof (C05P.c05_history ptab d a w ops Hok Hf Hso Hh) as H. cbv zeta in H.
  destruct H as (H1 & H2 & H3 & H4).
  split; [exact H1|]. split; [exact H2|]. split; [exact H3|].
  intros Hsh. destruct (H4 Hsh) as [Hd Hq]. split.
  - apply src_same_decisions_of. exact Hd.
  - intros q. rewrite !src_ask_eq. apply Hq.
Qed.

(* ---- (5) the executable trace predicate accepts the translated source's own observations ---- *)
Lemma src_c05_pred_holds : forall ptab s qs, RoleSync s -> g_exact (e_model s) = true ->
  shallow (f_rm_max (e_fs s)) (f_rm (e_fs s)) ->
  c05_pred (map (src_ask ptab s) qs) (map (src_ask ptab (fst (src_step s OBuildRoleLinks))) qs) = true.
Proof.
  intros ptab s qs Hs Hg Hsh. rewrite !src_ask_map_eq, src_step_eq. apply c05_pred_rebuild; assumption.
Qed.
