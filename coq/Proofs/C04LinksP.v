(* C04, part 5: when is the role manager "in sync" enough for removals never
   to fail?  GSync: every stored grouping rule could be unlinked right now.
   It is established by a successful rebuild and kept by every management
   call that answers Ok while auto-build is on. *)
From CV Require Import Model.Base Model.Effector Model.RoleGraph Model.Expr Model.Enforce
     Model.Engine Model.SpecC04.
From CV Require Import Proofs.ListAux Proofs.BaseP Proofs.RoleGraphP Proofs.C04P.
From Coq Require Import Lia.

(* ---- add_link creates the two nodes and never loses one ---- *)
Lemma add_link_keeps_nodes : forall m x y d' a b d,
  has_nodes m a b d = true -> has_nodes (add_link m x y d') a b d = true.
Proof.
  intros m x y d' a b d H. unfold add_link. destruct (teqb x y); [exact H|].
  unfold has_nodes in *. destruct (teqb a b); [reflexivity|]. cbn [orb] in *.
  destruct (text_eq_dec (dom_key d') (dom_key d)) as [E|E].
  - rewrite <- (graph_of_key _ d d' E). rewrite graph_of_assoc_set_same.
    rewrite (graph_of_key m d d' E). destruct (graph_of m d) as [g|]; [|discriminate].
    apply andb_true_iff in H. destruct H as [H1 H2]. apply has_node_In in H1, H2.
    apply andb_true_iff. split; apply has_node_In; apply g_add_link_nodes; right; right; assumption.
  - rewrite graph_of_assoc_set_other by exact E. exact H.
Qed.

Lemma add_link_makes_nodes : forall m a b d, has_nodes (add_link m a b d) a b d = true.
Proof.
  intros m a b d. unfold add_link, has_nodes. destruct (teqb a b) eqn:E; [reflexivity|].
  cbn [orb]. rewrite graph_of_assoc_set_same.
  apply andb_true_iff. split; apply has_node_In; apply g_add_link_nodes; auto.
Qed.

Definition unlinkable (cnt : nat) (m : rmgr) (r : rule) : bool := rule_link_ok cnt false m r.

Lemma unlinkable_mono_has : forall cnt m m' r,
  (has_nodes m (nth 0 r []) (nth 1 r []) (link_dom cnt r) = true ->
   has_nodes m' (nth 0 r []) (nth 1 r []) (link_dom cnt r) = true) ->
  unlinkable cnt m r = true -> unlinkable cnt m' r = true.
Proof.
  intros cnt m m' r H. unfold unlinkable, rule_link_ok. cbn [orb].
  rewrite !andb_true_iff. intros [[H1 H2] H3]. repeat split; try assumption. apply H, H3.
Qed.

Lemma link_rule_true_mono : forall cnt m r c r',
  unlinkable c m r' = true -> unlinkable c (fst (link_rule cnt true m r)) r' = true.
Proof.
  intros cnt m r c r'. unfold link_rule.
  destruct (Nat.ltb (length r) cnt); [auto|]. destruct (Nat.leb 4 cnt); [auto|]. cbn [fst].
  apply unlinkable_mono_has. apply add_link_keeps_nodes.
Qed.

Lemma link_rules_true_mono : forall cnt rs m c r',
  unlinkable c m r' = true -> unlinkable c (fst (link_rules cnt true m rs)) r' = true.
Proof.
  intros cnt. induction rs as [|r rs IH]; intros m c r' H; cbn [link_rules fst]; [exact H|].
  pose proof (link_rule_true_mono cnt m r c r' H) as H1.
  destruct (link_rule cnt true m r) as [m1 [|e]]; cbn [fst] in *; [apply IH, H1|exact H1].
Qed.

Lemma link_rules_false_keep : forall cnt rs m c r',
  unlinkable c (fst (link_rules cnt false m rs)) r' = unlinkable c m r'.
Proof.
  intros cnt. induction rs as [|r rs IH]; intros m c r'; cbn [link_rules fst]; [reflexivity|].
  assert (H1 : unlinkable c (fst (link_rule cnt false m r)) r' = unlinkable c m r').
  { unfold unlinkable, rule_link_ok. rewrite link_rule_keeps_nodes. reflexivity. }
  destruct (link_rule cnt false m r) as [m1 [|e]]; cbn [fst] in *; [rewrite IH; exact H1|exact H1].
Qed.

Lemma link_rule_true_ok_fst : forall cnt m r,
  rule_link_ok cnt true m r = true ->
  link_rule cnt true m r = (add_link m (nth 0 r []) (nth 1 r []) (link_dom cnt r), LOk).
Proof.
  intros cnt m r H. unfold rule_link_ok in H. rewrite !andb_true_iff in H. destruct H as [[H1 H2] _].
  apply Nat.leb_le in H1. apply Nat.ltb_lt in H2. unfold link_rule. fold (link_dom cnt r).
  assert (Nat.ltb (length r) cnt = false) as -> by (apply Nat.ltb_ge; lia).
  assert (Nat.leb 4 cnt = false) as -> by (apply Nat.leb_gt; lia). reflexivity.
Qed.

(* after a successful insertion every inserted rule can be unlinked *)
Lemma link_rules_true_covers : forall cnt rs m,
  links_okb cnt true m rs = true ->
  forall r, In r rs -> unlinkable cnt (fst (link_rules cnt true m rs)) r = true.
Proof.
  intros cnt. induction rs as [|r0 rs IH]; intros m H r Hr; [destruct Hr|].
  cbn [links_okb forallb] in H. apply andb_true_iff in H. destruct H as [H0 Hrest].
  cbn [link_rules]. rewrite (link_rule_true_ok_fst cnt m r0 H0).
  set (m1 := add_link m (nth 0 r0 []) (nth 1 r0 []) (link_dom cnt r0)).
  assert (Hrest1 : links_okb cnt true m1 rs = true) by exact Hrest.
  destruct Hr as [<-|Hr].
  - apply link_rules_true_mono. unfold unlinkable, rule_link_ok in *. cbn [orb] in *.
    rewrite !andb_true_iff in *. destruct H0 as [[A B] _]. repeat split; try assumption.
    apply add_link_makes_nodes.
  - apply (IH m1 Hrest1 r Hr).
Qed.

(* ================= the synchronisation invariant ================= *)
Definition GSync (s : estate) : Prop :=
  forall pt a r, get_ast (e_model s) s_g pt = Some a -> In r (a_policy a) ->
                 2 <= count_us (a_value a) /\
                 unlinkable (count_us (a_value a)) (f_rm (e_fs s)) r = true.

(* under GSync an accepted removal of stored grouping rules answers its flag *)
Theorem gsync_removal_fine : forall s pt a rs,
  GSync s -> get_ast (e_model s) s_g pt = Some a ->
  (forall r, In r rs -> In r (a_policy a)) ->
  (rs = [] -> 2 <= count_us (a_value a)) ->
  g_links_fine s pt false rs.
Proof.
  intros s pt a rs Hs Hg Hsub Hnil a0 Ha0. rewrite Hg in Ha0. inversion Ha0; subst a0. split.
  - destruct rs as [|r rs']; [apply Hnil; reflexivity|].
    apply (Hs pt a r Hg). apply Hsub. left. reflexivity.
  - unfold links_okb. apply forallb_forall. intros r Hr. apply (Hs pt a r Hg (Hsub r Hr)).
Qed.

(* the rules handed to the update by a removal are stored rules *)
Lemma removal_payload_stored : forall b l l' rs,
  bop_insert b = false -> sp_apply b l = Some (l', true, rs) -> forall r, In r rs -> In r l.
Proof.
  intros b l l' rs Hi Ha r Hr. destruct b as [r0|rs0|r0|rs0|idx vals]; cbn [bop_insert] in Hi; try discriminate;
    cbn [sp_apply] in Ha.
  - unfold sp_remove in Ha. inversion Ha as [[H1 H2 H3]]. subst rs. destruct Hr as [<-|[]].
    apply sp_mem_In. exact H2.
  - unfold sp_remove_many in Ha. destruct rs0 as [|x rs0]; [discriminate|].
    destruct (forallb (fun r1 => sp_mem r1 l) (x :: rs0)) eqn:E; [|discriminate].
    inversion Ha; subst. rewrite forallb_forall in E. apply sp_mem_In. apply E, Hr.
  - unfold sp_remove_filtered in Ha. destruct vals as [|v vs]; [discriminate|].
    destruct (existsb (sp_oob idx (v :: vs)) l); [discriminate|]. inversion Ha; subst.
    apply filter_In in Hr. apply Hr.
Qed.

Lemma removal_true_nonempty : forall b l l' rs,
  bop_insert b = false -> sp_apply b l = Some (l', true, rs) -> rs <> [].
Proof.
  intros b l l' rs Hi Ha. destruct b as [r0|rs0|r0|rs0|idx vals]; cbn [bop_insert] in Hi; try discriminate;
    cbn [sp_apply] in Ha.
  - inversion Ha. discriminate.
  - unfold sp_remove_many in Ha. destruct rs0 as [|x rs0]; [discriminate|].
    destruct (forallb _ (x :: rs0)); inversion Ha. discriminate.
  - unfold sp_remove_filtered in Ha. destruct vals as [|v vs]; [discriminate|].
    destruct (existsb (sp_oob idx (v :: vs)) l); [discriminate|]. inversion Ha as [[H1 H2 H3]].
    apply existsb_exists in H2. destruct H2 as [x [Hx Hh]]. intros E.
    assert (In x (filter (sp_hit idx (v :: vs)) l)) as Hin by (apply filter_In; split; assumption).
    rewrite E in Hin. destruct Hin.
Qed.

Theorem gsync_removal_answer : forall s pt b a l' flag rs,
  GSync s -> bop_insert b = false -> get_ast (e_model s) s_g pt = Some a ->
  sp_apply b (a_policy a) = Some (l', flag, rs) ->
  (flag = false -> bop_guard b = false -> 2 <= count_us (a_value a)) ->
  mgmt_answer s s_g pt b flag rs = Ok flag.
Proof.
  intros s pt b a l' flag rs Hs Hi Hg Ha Hdef. destruct flag.
  - apply mgmt_answer_fine. rewrite Hi.
    apply (gsync_removal_fine s pt a rs Hs Hg).
    + apply (removal_payload_stored b _ l' rs Hi Ha).
    + intros E. exfalso. apply (removal_true_nonempty b _ l' rs Hi Ha E).
  - destruct (bop_guard b) eqn:Eg.
    + apply mgmt_answer_ok_iff. left. unfold links_active. rewrite Eg. cbn [negb orb]. apply andb_false_r.
    + apply mgmt_answer_fine. rewrite Hi.
      destruct (sp_apply_false b _ l' rs Ha) as [_ Ers]. rewrite (Ers Eg).
      apply (gsync_removal_fine s pt a [] Hs Hg); [intros r []|]. intros _. apply Hdef; reflexivity.
Qed.

(* ---- GSync is kept by Ok-answering management calls ---- *)
Lemma eqh_set_policy_get : forall md' md sec pt l' sec0 pt0 a',
  eqh md' (set_policy md sec pt l') -> get_ast md' sec0 pt0 = Some a' ->
  exists a1, get_ast md sec0 pt0 = Some a1 /\ a_value a' = a_value a1 /\
             a_policy a' = (if teqb sec0 sec && teqb pt0 pt then l' else a_policy a1).
Proof.
  intros md' md sec pt l' sec0 pt0 a' E Hg.
  pose proof (eqh_get_fields _ _ sec0 pt0 E) as F. rewrite Hg in F.
  rewrite get_set_policy in F.
  destruct (teqb sec0 sec && teqb pt0 pt).
  - destruct (get_ast md sec0 pt0) as [a1|]; cbn [option_map] in F; [|contradiction].
    exists a1. destruct F as (F1 & _ & F3). repeat split; assumption.
  - destruct (get_ast md sec0 pt0) as [a1|]; [|contradiction].
    exists a1. destruct F as (F1 & _ & F3). repeat split; assumption.
Qed.

Lemma eqh_get_same : forall md' md sec0 pt0 a',
  eqh md' md -> get_ast md' sec0 pt0 = Some a' ->
  exists a1, get_ast md sec0 pt0 = Some a1 /\ a_value a' = a_value a1 /\ a_policy a' = a_policy a1.
Proof.
  intros md' md sec0 pt0 a' E Hg. pose proof (eqh_get_fields _ _ sec0 pt0 E) as F. rewrite Hg in F.
  destruct (get_ast md sec0 pt0) as [a1|]; [|contradiction].
  exists a1. destruct F as (F1 & _ & F3). repeat split; assumption.
Qed.

Lemma unchanged_gsync : forall s s', unchanged s s' -> GSync s -> GSync s'.
Proof.
  intros s s' (E & F & _) Hs pt a' r Hg Hr.
  destruct (eqh_get_same _ _ s_g pt a' E Hg) as [a1 [H1 [H2 H3]]].
  rewrite H2, F. apply (Hs pt a1 r H1). rewrite <- H3. exact Hr.
Qed.

Lemma sp_apply_members : forall b l l' flag rs r,
  sp_apply b l = Some (l', flag, rs) -> In r l' ->
  In r l \/ (bop_insert b = true /\ In r rs).
Proof.
  intros b l l' flag rs r Ha Hr. destruct b as [r0|rs0|r0|rs0|idx vals]; cbn [sp_apply bop_insert] in *.
  - unfold sp_add in Ha. destruct (sp_mem r0 l); inversion Ha; subst; [left; exact Hr|].
    apply in_app_iff in Hr. destruct Hr as [Hr|Hr]; [left; exact Hr|right; split; [reflexivity|exact Hr]].
  - unfold sp_add_many in Ha. destruct rs0 as [|x rs0]; [inversion Ha; subst; left; exact Hr|].
    destruct (existsb _ (x :: rs0)); inversion Ha; subst; [left; exact Hr|].
    apply in_app_iff in Hr. destruct Hr as [Hr|Hr]; [left; exact Hr|].
    right. split; [reflexivity|]. apply first_occ_In, Hr.
  - unfold sp_remove in Ha. inversion Ha; subst. left. apply filter_In in Hr. apply Hr.
  - unfold sp_remove_many in Ha. destruct rs0 as [|x rs0]; [inversion Ha; subst; left; exact Hr|].
    destruct (forallb _ (x :: rs0)); inversion Ha; subst; left; [apply filter_In in Hr; apply Hr|exact Hr].
  - unfold sp_remove_filtered in Ha. destruct vals as [|v vs]; [inversion Ha; subst; left; exact Hr|].
    destruct (existsb _ l); [discriminate|]. inversion Ha; subst. left. apply filter_In in Hr. apply Hr.
Qed.

Lemma basic_gsync : forall s sec pt b s' c,
  GSync s -> e_auto_build s = true -> step_basic s sec pt b = (s', Ok c) -> GSync s'.
Proof.
  intros s sec pt b s' c Hs Hab Hst.
  destruct (basic_ok_cases s sec pt b s' c Hst) as [[_ U]|[-> [_ Hex]]]; [apply (unchanged_gsync s s' U Hs)|].
  destruct Hex as [a [l' [rs [Hg [Ha [Hne _]]]]]].
  destruct (adapter_call s sec pt b) as [ad r] eqn:Hc.
  assert (r = Ok true).
  { destruct r as [[|]|e|]; try reflexivity;
      rewrite (step_basic_refuse s sec pt b ad _ Hc ltac:(discriminate)) in Hst; inversion Hst. }
  subst r.
  destruct (mgmt_accept s sec pt b ad a l' true rs s' (Ok true) Hc Hg Ha Hst)
    as (_ & _ & E & _ & _ & R & Fs).
  assert (Frm : f_rm (e_fs s') = mgmt_rm s sec pt b true rs) by (rewrite Fs; reflexivity).
  intros pt0 a' r0 Hg0 Hr0.
  destruct (eqh_set_policy_get _ _ sec pt l' s_g pt0 a' E Hg0) as [a1 [G1 [G2 G3]]].
  rewrite G2, Frm. unfold mgmt_rm, mgmt_answer, links_active in *. rewrite Hab in *.
  destruct (teqb s_g sec && teqb pt0 pt) eqn:Ek.
  - apply andb_true_iff in Ek. destruct Ek as [E1 E2]. apply teqb_eq in E1, E2. subst sec pt0.
    rewrite G1 in Hg. inversion Hg; subst a1. rewrite G3 in Hr0.
    rewrite teqb_refl in *. rewrite orb_true_r in *. cbn [andb] in *.
    symmetry in R. assert (RL : links_result (e_model s) (f_rm (e_fs s)) pt (bop_insert b) rs = LOk)
      by (destruct (links_result _ _ pt _ rs); [reflexivity|discriminate]).
    pose proof (proj1 (links_result_ok_iff _ _ _ _ _) RL) as RL2. destruct (RL2 a G1) as [C2 Lok].
    split; [exact C2|].
    unfold links_rm. rewrite G1.
    assert (Nat.ltb (count_us (a_value a)) 2 = false) as -> by (apply Nat.ltb_ge; lia).
    destruct (sp_apply_members b _ l' true rs r0 Ha Hr0) as [Hold|[Hi Hnew]].
    + destruct (bop_insert b).
      * apply link_rules_true_mono. apply (Hs pt a r0 G1 Hold).
      * rewrite link_rules_false_keep. apply (Hs pt a r0 G1 Hold).
    + rewrite Hi in *. apply (link_rules_true_covers _ _ _ Lok r0 Hnew).
  - rewrite G3 in Hr0. destruct (Hs pt0 a1 r0 G1 Hr0) as [C2 U]. split; [exact C2|].
    destruct (teqb sec s_g) eqn:Es; cbn [andb]; [|exact U].
    rewrite orb_true_r. cbn [andb].
    unfold links_rm. destruct (get_ast (e_model s) s_g pt) as [ag|]; [|exact U].
    destruct (Nat.ltb (count_us (a_value ag)) 2); [exact U|].
    destruct (bop_insert b); [apply link_rules_true_mono, U|rewrite link_rules_false_keep; exact U].
Qed.

Theorem mgmt_gsync : forall s o s' c,
  mgmt_op o -> GSync s -> e_auto_build s = true -> step s o = (s', Ok c) -> GSync s'.
Proof.
  intros s o s' c Hm Hs Hab Hst. destruct o; cbn [mgmt_op] in Hm; try contradiction.
  - rewrite (step_is_basic s (OAdd sec pt r) sec pt (BAdd r) eq_refl) in Hst. apply (basic_gsync _ _ _ _ _ _ Hs Hab Hst).
  - rewrite (step_is_basic s (OAddMany sec pt rs) sec pt (BAddMany rs) eq_refl) in Hst.
    apply (basic_gsync _ _ _ _ _ _ Hs Hab Hst).
  - rewrite (step_is_basic s (ORemove sec pt r) sec pt (BRemove r) eq_refl) in Hst.
    apply (basic_gsync _ _ _ _ _ _ Hs Hab Hst).
  - rewrite (step_is_basic s (ORemoveMany sec pt rs) sec pt (BRemoveMany rs) eq_refl) in Hst.
    apply (basic_gsync _ _ _ _ _ _ Hs Hab Hst).
  - rewrite (step_is_basic s (ORemoveFiltered sec pt idx vals) sec pt (BFiltered idx vals) eq_refl) in Hst.
    apply (basic_gsync _ _ _ _ _ _ Hs Hab Hst).
  - cbn [step] in Hst. rewrite step_rbac_ops in Hst.
    destruct (rbac_ops_basic r) as [[sec [pt [b [E1 _]]]] H2].
    destruct (rbac_ops r) as [o1 [o2|]]; cbn [fst snd] in *.
    + destruct (H2 o2 eq_refl) as [sec2 [pt2 [b2 [E2 _]]]].
      apply seq_or_ok_iff in Hst. destruct Hst as [a [b0 [H1 [H3 _]]]].
      rewrite (step_is_basic s o1 sec pt b E1) in H1, H3.
      destruct (step_basic s sec pt b) as [s1 r1] eqn:Hs1. cbn [fst snd] in *. subst r1.
      rewrite (step_is_basic s1 o2 sec2 pt2 b2 E2) in H3.
      pose proof (basic_gsync _ _ _ _ _ _ Hs Hab Hs1) as G1.
      assert (Hab1 : e_auto_build s1 = true).
      { destruct (basic_ok_cases _ _ _ _ _ _ Hs1) as [[_ (_ & _ & _ & Fr)]|[_ [Fr _]]];
          rewrite (frame_auto_build _ _ Fr); exact Hab. }
      apply (basic_gsync _ _ _ _ _ _ G1 Hab1 H3).
    + rewrite (step_is_basic s o1 sec pt b E1) in Hst. apply (basic_gsync _ _ _ _ _ _ Hs Hab Hst).
Qed.

(* ---- GSync is established by a successful rebuild ---- *)
Lemma build_links_am_covers : forall am m am' m',
  build_links_am am m = (am', m', LOk) ->
  (forall c r, unlinkable c m r = true -> unlinkable c m' r = true) /\
  (forall k a', In (k, a') am' ->
     exists a, In (k, a) am /\ a_value a' = a_value a /\ a_policy a' = a_policy a /\
               2 <= count_us (a_value a) /\
               forall r, In r (a_policy a) -> unlinkable (count_us (a_value a)) m' r = true).
Proof.
  induction am as [|[k a] am IH]; intros m am' m' H; cbn [build_links_am] in H.
  - inversion H; subst. split; [auto|]. intros k a' [].
  - destruct (Nat.ltb (count_us (a_value a)) 2) eqn:E2; [discriminate|]. apply Nat.ltb_ge in E2.
    destruct (link_rules (count_us (a_value a)) true m (a_policy a)) as [m1 [|e]] eqn:El; [|discriminate].
    destruct (build_links_am am m1) as [[am2 m2] e2] eqn:Eb. inversion H; subst. clear H.
    destruct (IH m1 am2 m' Eb) as [Mono Cov].
    assert (Lok : links_okb (count_us (a_value a)) true m (a_policy a) = true)
      by (apply link_rules_ok_iff; rewrite El; reflexivity).
    assert (M1 : forall c r, unlinkable c m r = true -> unlinkable c m1 r = true).
    { intros c r Hr. pose proof (link_rules_true_mono (count_us (a_value a)) (a_policy a) m c r Hr) as K.
      rewrite El in K. exact K. }
    split; [intros c r Hr; apply Mono, M1, Hr|].
    intros k0 a0 [Hin|Hin].
    + inversion Hin; subst. exists a. split; [left; reflexivity|]. repeat split; try assumption.
      intros r Hr. apply Mono.
      pose proof (link_rules_true_covers _ _ _ Lok r Hr) as K. rewrite El in K. exact K.
    + destruct (Cov k0 a0 Hin) as [a1 [I1 I2]]. exists a1. split; [right; exact I1|exact I2].
Qed.

Theorem rebuild_gsync : forall s s', build_role_links s = (s', LOk) -> GSync s'.
Proof.
  intros s s' H. unfold build_role_links in H.
  destruct (assoc s_g (e_model s)) as [am|] eqn:Eg.
  - destruct (build_links_am am []) as [[am' m'] e] eqn:Eb. inversion H; subst. clear H.
    destruct (build_links_am_covers am [] am' m' Eb) as [_ Cov].
    intros pt a' r Hg Hr. cbn [e_model e_fs upd_fs upd_model set_rm f_rm] in *.
    unfold get_ast in Hg. rewrite assoc_set_same in Hg. apply assoc_In in Hg.
    destruct (Cov pt a' Hg) as [a [_ [V [P [C2 U]]]]]. rewrite V. split; [exact C2|].
    apply U. rewrite <- P. exact Hr.
  - inversion H; subst. intros pt a' r Hg Hr. cbn [e_model upd_fs] in Hg.
    unfold get_ast in Hg. rewrite Eg in Hg. discriminate.
Qed.

Lemma register_g_misc : forall s,
  e_adapter (fst (register_g_functions s)) = e_adapter s /\
  e_auto_build (fst (register_g_functions s)) = e_auto_build s.
Proof.
  intros s. unfold register_g_functions. destruct (assoc s_g (e_model s)) as [am|]; [|split; reflexivity].
  destruct (register_g am (f_gfuns (e_fs s))). split; reflexivity.
Qed.

(* a freshly built enforcer that loaded its policy without error is in sync *)
Theorem new_enforcer_gsync : forall d a w s b,
  ad_is_filtered a = false -> new_enforcer d a w = (s, Ok b) -> GSync s /\ e_auto_build s = true.
Proof.
  intros d a w s b Hf H. unfold new_enforcer, new_raw in H.
  match type of H with context [register_g_functions ?s0] =>
    pose proof (register_g_misc s0) as A0;
    destruct (register_g_functions s0) as [s1 [|e]] end; [|discriminate].
  cbn [fst e_adapter e_auto_build] in A0. destruct A0 as [A1 A2]. rewrite A1, Hf in H.
  unfold step_load in H. destruct (ad_load (e_adapter s1) (m_clear_policy (e_model s1))) as [[ad md] r].
  unfold finish_load in H. destruct r as [|e|]; try discriminate.
  cbn [e_auto_build upd_model upd_adapter] in H. rewrite A2 in H.
  destruct (build_role_links (upd_model (upd_adapter s1 ad) md)) as [s2 e] eqn:Eb.
  destruct e as [|c]; cbn [lerr_out] in H; [|discriminate]. inversion H; subst. split.
  - apply (rebuild_gsync _ _ Eb).
  - pose proof (brl_misc (upd_model (upd_adapter s1 ad) md)) as Mi. rewrite Eb in Mi. cbv zeta in Mi.
    cbn [fst] in Mi. destruct Mi as (Fr & _). rewrite (frame_auto_build _ _ Fr). exact A2.
Qed.

(* clear with auto-build on: nothing is stored, hence in sync *)
Theorem clear_gsync : forall s ad s' res,
  clear_call s = (ad, LROk) -> step s OClear = (s', res) -> GSync s'.
Proof.
  intros s ad s' res Hc Hst. destruct (clear_accept s ad s' res Hc Hst) as (P & _).
  intros pt a r Hg Hr. specialize (P s_g pt). unfold m_get_policy in P. rewrite Hg in P.
  cbn in P. rewrite P in Hr. destruct Hr.
Qed.

(* every history of Ok-answering management calls from a synchronised state
   with auto-build on stays synchronised *)
Fixpoint all_ok (s : estate) (ops : list op) : Prop :=
  match ops with
  | [] => True
  | o :: ops' => mgmt_op o /\ (exists c, snd (step s o) = Ok c) /\ all_ok (fst (step s o)) ops'
  end.

Theorem run_gsync : forall ops s,
  GSync s -> e_auto_build s = true -> all_ok s ops ->
  GSync (run_ops s ops) /\ e_auto_build (run_ops s ops) = true.
Proof.
  unfold run_ops. induction ops as [|o ops IH]; intros s Hs Hab Hok; cbn [fold_left]; [split; assumption|].
  destruct Hok as (Hm & [c Hc] & Hrest). destruct (step s o) as [s' r] eqn:Hst. cbn [fst snd] in *. subst r.
  apply IH; [apply (mgmt_gsync s o s' c Hm Hs Hab Hst)| |exact Hrest].
  destruct (mgmt_ok_cases s o s' c Hm Hst) as [[_ (_ & _ & _ & Fr)]|[_ [Fr _]]];
    rewrite (frame_auto_build _ _ Fr); exact Hab.
Qed.
