(* Part 22 - the capstone of Proofs/LinkingP.v with its first named hypothesis DISCHARGED.

   Part 21 closed the chain add_named_policy / add_named_grouping_policy -> enforce out of generated functions
   only, under two named hypotheses: ML_null_adapter (src/adapter/null_adapter.rs was not translated: `null_add`
   stood for NullAdapter::add_policy) and ML_regex_class.  Part 22 translates null_adapter.rs (Gen/MiscGen.v); here
   `null_add` is INSTANTIATED with the generated function

       PcMiscGen.gen_null_add sec pt r  =  the outcome of  MiscGen.gen_null_add_policy sec pt r

   and the hypothesis is the theorem PcMiscGen.gen_null_add_ok.  ML_regex_class stays: it is inherent (the
   translated regex functions are proved against Model/PathMatch.v for patterns inside the modelled class only;
   LinkingP.capstone_regex_class_needed shows that it cannot be dropped).

   `untranslated_crate2` is what is left of LinkingP.untranslated_crate: its rows on NullAdapter, on
   FunctionMap::add_function / Enforcer::register_function and on FunctionMap::get_functions are now theorems of
   PinChecks/PcMiscGen.v (`discharged_crate`: the row, the theorems); the one on the dispatch order of a matcher
   call stays (part 15, findings F1 / F2).  `leaves_MiscRt`: the trusted leaves this part adds (Gen/MiscRt.v). *)
From CV Require Import Model.Base Model.Effector Model.RoleGraph Model.Expr Model.Enforce Model.Engine.
From CV Require Import Gen.RustStr Gen.RustVec Gen.FsRt Gen.Enforcer2Rt Gen.MiscRt Gen.MiscGen.
From CV Require Import Proofs.BaseP Proofs.RoleGraphP Proofs.C13P Proofs.ExModels Proofs.FsaveP Proofs.MiscP.
From CV Require Import PinChecks.PcRoleManagerGen PinChecks.PcMiscGen.
From CV Require Import Proofs.LinkingP.
From Coq Require Import Lia.

(* ------------------------------------------------------------------ *)
(* the hypothesis, as a theorem about the generated function            *)

Theorem ML_null_adapter_discharged : forall sec pt r, gen_null_add sec pt r = Ok true.
Proof. exact gen_null_add_ok. Qed.

(* dynamic dispatch of Adapter::add_policy with ALL four bundled adapters translated *)
Theorem link2_ad0_add : forall a sec pt r, lk_ad0_add gen_null_add a sec pt r = ad0_add a sec pt r.
Proof. exact (link_ad0_add gen_null_add ML_null_adapter_discharged). Qed.
Theorem link2_ad_add : forall a sec pt r, lk_ad_add gen_null_add a sec pt r = ad_add a sec pt r.
Proof. exact (link_ad_add gen_null_add ML_null_adapter_discharged). Qed.

(* ------------------------------------------------------------------ *)
(* the capstone                                                        *)

(* add_named_policy / add_named_grouping_policy through the management API, then enforce: generated functions
   only, NullAdapter::add_policy included *)
Definition linked2_add_then_enforce (ptab : text -> option expr) (ord : list text -> list text) (fuel : nat) :=
  linked_add_then_enforce ptab ord fuel gen_null_add.

Theorem capstone2_agree : forall ptab ord fuel, ord_ok ord ->
  forall g s pt r rv, link_inv s -> fs_fuel_ok fuel (e_fs (after_add g s pt r)) ->
  linked2_add_then_enforce ptab ord fuel g s pt r rv = model_add_then_enforce ptab g s pt r rv \/
  (fst (linked2_add_then_enforce ptab ord fuel g s pt r rv) = fst (model_add_then_enforce ptab g s pt r rv) /\
   snd (model_add_then_enforce ptab g s pt r rv) = Err EEvalc).
Proof.
  intros ptab ord fuel Hord. exact (linked_add_then_enforce_agree ptab ord fuel gen_null_add Hord ML_null_adapter_discharged).
Qed.

Theorem capstone2 : forall ptab ord fuel, ord_ok ord ->
  forall g s pt r rv, link_inv s -> fs_fuel_ok fuel (e_fs (after_add g s pt r)) ->
  forall ML_regex_class : snd (model_add_then_enforce ptab g s pt r rv) <> Err EEvalc,
  linked2_add_then_enforce ptab ord fuel g s pt r rv = model_add_then_enforce ptab g s pt r rv.
Proof.
  intros ptab ord fuel Hord. exact (capstone ptab ord fuel gen_null_add Hord ML_null_adapter_discharged).
Qed.

Theorem capstone2_state : forall ptab ord fuel, ord_ok ord ->
  forall g s pt r rv, link_inv s ->
  fst (linked2_add_then_enforce ptab ord fuel g s pt r rv)
  = (fst (step s (OAdd (if g then s_g else s_p) pt r)), snd (step s (OAdd (if g then s_g else s_p) pt r))).
Proof.
  intros ptab ord fuel Hord. exact (capstone_state ptab ord fuel gen_null_add Hord ML_null_adapter_discharged).
Qed.

Theorem capstone2_reachable : forall ptab ord d a w ops g pt r rv, ord_ok ord ->
  let s := run_ops (fst (new_enforcer d a w)) ops in
  exists F, forall fuel, F <= fuel ->
    snd (model_add_then_enforce ptab g s pt r rv) <> Err EEvalc ->
    linked2_add_then_enforce ptab ord fuel g s pt r rv = model_add_then_enforce ptab g s pt r rv.
Proof.
  intros ptab ord d a w ops g pt r rv Hord.
  exact (capstone_reachable ptab ord gen_null_add d a w ops g pt r rv Hord ML_null_adapter_discharged).
Qed.

(* ------------------------------------------------------------------ *)
(* what is left untranslated                                            *)

Definition untranslated_crate2 : list (text * text) :=
  [ (T "Enforce.call_fn",
     T "the order in which a matcher call finds an added function, a role closure, a default function: tied to the registrations of the engine by eng_coherent, PARTIALLY (part 15, findings F1 / F2: builtins_unshadowed)") ].

(* the rows of part 21 that are theorems now: the restatement, the theorems of PinChecks/PcMiscGen.v *)
Definition discharged_crate : list (text * text) :=
  [ (T "Engine.ad0_* on ANull",
     T "gen_null_load_ok gen_null_save_clear_ok gen_null_incremental_ok gen_null_is_filtered_ok gen_null_methods_ok");
    (T "EnforcerPrims.add_user_function / Enforcer2Rt.eng_register_function",
     T "gen_fm_add_function_ok gen_fm_add_function_get gen_fm_add_function_replaces gen_enf_register_function_ok lk_enf_add_function_ok");
    (T "Enforcer2Rt.fm_get_functions",
     T "gen_fm_get_functions_ok gen_fm_get_functions_abs gen_register_all_ok") ].

Definition row_eqb (a b : text * text) : bool := teqb (fst a) (fst b) && teqb (snd a) (snd b).

(* every row of part 21 is either still there, word for word, or discharged; nothing was added *)
Theorem untranslated_crate2_reduced :
  map fst untranslated_crate = map fst discharged_crate ++ map fst untranslated_crate2 /\
  forallb (fun row => existsb (row_eqb row) untranslated_crate) untranslated_crate2 = true /\
  length untranslated_crate2 = 1 /\ length untranslated_crate = 4.
Proof. vm_compute. repeat split. Qed.

(* ------------------------------------------------------------------ *)
(* the trusted leaves that part 22 adds (Gen/MiscRt.v), in the format of Proofs/LinkLeavesP.v: the restatements of
   std / serde_json / rhai operations and of the shape of crate types that the generated code of Gen/MiscGen.v is
   written with, each row carrying the Gallina constant *)
Definition leaves_MiscRt : list leaf := [
  L "MiscRt.operator_function" "enum OperatorFunction { Arg0(fn) .. Arg6(fn) } (the declaration is read and checked: gen_operator_function_variants)" LStruct operator_function;
  L "MiscRt.opfn_variants" "the variants of OperatorFunction with the number of parameters of the fn they carry" LStruct (@opfn_variants);
  L "MiscRt.opfn_ptr" "the fn pointer an OperatorFunction carries" LStruct (@opfn_ptr);
  L "MiscRt.opfn_variant" "the N of ArgN" LStruct (@opfn_variant);
  L "MiscRt.opfn_of" "the OperatorFunction that carries a function pointer of the model (representation)" LStruct (@opfn_of);
  L "MiscRt.function_map" "struct FunctionMap { fm: HashMap<String, OperatorFunction> } (the declaration is read and checked)" LStruct function_map;
  L "MiscRt.fm_rep" "the Rust-level FunctionMap of a function map of Enforcer2Rt (representation)" LStruct (@fm_rep);
  L "MiscRt.fm_abs" "the function map of Enforcer2Rt of a Rust-level FunctionMap (representation)" LStruct (@fm_abs);
  L "MiscRt.rs_hm_iter" "HashMap::iter(): every entry once, in arbitrary order (here the order of the list)" LStd (@rs_hm_iter);
  L "MiscRt.hm_or_insert" "m.entry(k).or_insert(v) as a statement" LStd (@hm_or_insert);
  L "MiscRt.hm_contains_key" "m.contains_key(&k)" LStd (@hm_contains_key);
  L "MiscRt.rs_camel" "the registered (camel case) name of a matcher function of function_map.rs" LStruct (@rs_camel);
  L "MiscRt.closure_ptr" "the fn pointer of a non-capturing closure |s1, ..| F(&s1, ..).into() (what it computes: gen_fm_default_closures_ok)" LStruct (@closure_ptr);
  L "MiscRt.dyn_bool" "bool -> rhai::Dynamic (.into())" LRhai (@dyn_bool);
  L "MiscRt.dyn_str" "String -> rhai::Dynamic (.into())" LRhai (@dyn_str);
  L "MiscRt.dyn_obool" "the bool of a translated regex function -> Dynamic (None: an evaluation error, as Enforce.ob_res)" LRhai (@dyn_obool);
  L "MiscRt.dyn_otext" "the String of a translated regex function -> Dynamic (None: an evaluation error, as Enforce.ot_res)" LRhai (@dyn_otext);
  L "MiscRt.place" "&mut self.field returned from a method: the value and the object after a write" LStd (@place);
  L "MiscRt.json" "serde_json::Value: String and Array" LSerde json;
  L "MiscRt.json_of_string" "Value::from(String)" LSerde (@json_of_string);
  L "MiscRt.json_of_rows" "Value::from(Vec<Vec<String>>)" LSerde (@json_of_rows);
  L "MiscRt.json_escape_byte" "serde_json's string escaping (ser.rs ESCAPE)" LSerde (@json_escape_byte);
  L "MiscRt.json_to_string" "the compact formatter on a Value" LSerde (@json_to_string);
  L "MiscRt.json_map_to_string" "serde_json::to_string on a HashMap<&str, Value>: an object, members in the iteration order of the map" LSerde (@json_map_to_string);
  L "MiscRt.serde_to_string" "serde_json::to_string(&m): Ok for string keys and String / Array values" LSerde (@serde_to_string);
  L "MiscRt.dyn_error" "Box<dyn std::error::Error> from a serde_json::Error (the `?`)" LStd dyn_error;
  L "MiscRt.rs_then" "a statement with branches, then the rest of the block" LStd (@rs_then)
].
Example leaves_MiscRt_exist : length leaves_MiscRt = 27.
Proof. reflexivity. Qed.

(* ------------------------------------------------------------------ *)
(* non-vacuity: an enforcer over the NULL adapter (Enforcer::new(model, ()) of the crate); a rule is added
   through the API - NullAdapter::add_policy answers, nothing is stored outside the model - then decided *)
Definition cap2_s0 : estate := mk rbac_def ANull.

Example capstone2_ex_hyps :
  ord_ok (@rev text) /\ link_inv cap2_s0 /\
  fs_fuel_ok 4 (e_fs (after_add false cap2_s0 s_p [bob; data2; write])) /\
  snd (model_add_then_enforce no_ptab false cap2_s0 s_p [bob; data2; write] (req bob data2 write)) <> Err EEvalc.
Proof.
  split; [exact ord_ok_rev|]. split; [apply link_inv_new_enforcer|]. split.
  - split.
    + intros dk g H. vm_compute in H.
      repeat match type of H with (if ?c then _ else _) = _ => destruct c; [injection H as <-; vm_compute; lia|] end.
      discriminate H.
    + intros k m mx H. vm_compute in H. repeat destruct H as [H|H]; try discriminate H; contradiction.
  - vm_compute. discriminate.
Qed.

Example capstone2_ex :
  (* before the add bob is refused; the linked path (with the translated NullAdapter) adds the rule to the model
     store and decides the request as the model does; the adapter is still the null adapter *)
  lk_enforce no_ptab (@rev text) 4 cap2_s0 (req bob data2 write) = Ok false /\
  linked2_add_then_enforce no_ptab (@rev text) 4 false cap2_s0 s_p [bob; data2; write] (req bob data2 write)
  = model_add_then_enforce no_ptab false cap2_s0 s_p [bob; data2; write] (req bob data2 write) /\
  snd (fst (linked2_add_then_enforce no_ptab (@rev text) 4 false cap2_s0 s_p [bob; data2; write] (req bob data2 write))) = Ok true /\
  snd (linked2_add_then_enforce no_ptab (@rev text) 4 false cap2_s0 s_p [bob; data2; write] (req bob data2 write)) = Ok true /\
  e_adapter (fst (fst (linked2_add_then_enforce no_ptab (@rev text) 4 false cap2_s0 s_p [bob; data2; write] (req bob data2 write)))) = ANull.
Proof. vm_compute. repeat split. Qed.

(* a role link through the same path *)
Example capstone2_ex_g :
  linked2_add_then_enforce no_ptab (@rev text) 4 true cap2_s0 s_g [alice; admin] (req alice data1 read)
  = model_add_then_enforce no_ptab true cap2_s0 s_g [alice; admin] (req alice data1 read) /\
  snd (fst (linked2_add_then_enforce no_ptab (@rev text) 4 true cap2_s0 s_g [alice; admin] (req alice data1 read))) = Ok true.
Proof. vm_compute. repeat split. Qed.

(* the hypothesis was needed: a NullAdapter::add_policy that answered Ok(false) would make the linked path refuse
   the rule that the model stores (the demo edit `Ok(false)` breaks PcMiscGen.gen_null_incremental_ok for this reason) *)
Example ML_null_adapter_was_needed :
  snd (fst (linked_add_then_enforce no_ptab (@rev text) 4 (fun _ _ _ => Ok false) false cap2_s0 s_p [bob; data2; write] (req bob data2 write)))
  <> snd (fst (model_add_then_enforce no_ptab false cap2_s0 s_p [bob; data2; write] (req bob data2 write))).
Proof. vm_compute. discriminate. Qed.
