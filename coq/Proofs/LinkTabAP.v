(* Part 21 (linking), inventory, first half: the ADAPTERS and the TEXT functions.
   Every hand-written primitive that stands for a function OF THE CRATE, the generated function of the lower layer,
   and the theorem `link_<name>` that the primitive equals it - on the representation / under the hypothesis that
   the lower layer's own theorem uses.  Nothing new is proved about the source here: each link is an existing
   translation theorem (PinChecks/Pc*Gen.v), restated with the primitive on one side and the generated function on
   the other.

   primitive (Model/Engine.v)      Rust function                               generated function (file)
   ------------------------------  ------------------------------------------  ---------------------------------------
   ad0_add         on AMemory      MemoryAdapter::add_policy                   gen_mem_add_policy           AdaptersGen
   ad0_add_many    on AMemory      MemoryAdapter::add_policies                 gen_mem_add_policies         AdaptersGen
   ad0_remove      on AMemory      MemoryAdapter::remove_policy                gen_mem_remove_policy        AdaptersGen
   ad0_remove_many on AMemory      MemoryAdapter::remove_policies              gen_mem_remove_policies      AdaptersGen
   ad0_remove_filtered on AMemory  MemoryAdapter::remove_filtered_policy       gen_mem_remove_filtered_policy   [mem_wf]
   ad0_load        on AMemory      MemoryAdapter::load_policy                  gen_mem_load_policy              [mem_wf]
   ad0_load_filtered on AMemory    MemoryAdapter::load_filtered_policy         gen_mem_load_filtered_policy     [mem_wf]
   ad0_save        on AMemory      MemoryAdapter::save_policy                  gen_mem_save_policy   [store_sets, pg_keys_disjoint]
   ad0_clear       on AMemory      MemoryAdapter::clear_policy                 gen_mem_clear_policy
   ad_is_filtered  on AMemory      MemoryAdapter::is_filtered                  gen_mem_is_filtered
   ad0_add .. ad0_remove_filtered on AFile     FileAdapter::add_policy ..      gen_file_add_policy ..       FsaveGen
   ad0_load / ad0_load_filtered on AFile       FileAdapter::load_[filtered_]policy   gen_file_load_[filtered_]policy
                                               (+ load_policy_file, the line handlers of AdaptersGen)   [all_ok, file exists]
   ad0_save / ad0_clear on AFile               FileAdapter::save_policy / clear_policy   gen_file_save_policy / gen_file_clear_policy
   ad0_add .. on AString                       StringAdapter::add_policy ..    gen_str_add_policy ..        FsaveGen
   ad0_load / ad0_load_filtered on AString     StringAdapter::load_[filtered_]policy     gen_str_load_[filtered_]policy   AdaptersGen
   ad0_save / ad0_clear on AString             StringAdapter::save_policy / clear_policy gen_str_save_policy / gen_str_clear_policy
   Csv.parse_csv_line, AdaptersPrims.rs_parse_csv_line   util::parse_csv_line  gen_parse_csv_line           RegexGen
   Csv.csv_field                   util::csv_field                             gen_csv_field                StrFnGen
   Ini.remove_comment              util::remove_comment                        gen_remove_comment           StrFnGen
   Expr.escape_assertion, IniRt.rs_escape_assertion      util::escape_assertion gen_escape_assertion        RegexGen [ASCII]
   EscEvalM.escape_eval            util::escape_eval                           gen_escape_eval              RegexGen [ASCII]
   Ini.parse_config                Config::from_str                            gen_from_str                 IniGen   [ASCII]
   Ini.cfg_get                     Config::get / get_str                       gen_get / gen_get_str        IniGen
   Ini.add_def                     DefaultModel::add_def                       gen_add_def                  IniGen   [ASCII]
   Ini.load_section                DefaultModel::load_section                  gen_load_section             IniGen
   Ini.model_of_text               DefaultModel::from_str                      gen_model_from_str           IniGen   [ASCII]
   Ini.to_text                     Model::to_text                              gen_to_text                  IniGen   [canonical model]

   NOT translated (no generated function, no pin): NullAdapter (src/adapter/null_adapter.rs) - the ANull cases of
   ad0_*.  See Proofs/LinkingP.v `untranslated_crate`. *)
From CV Require Import Model.Base Model.Csv Model.Ini Model.Expr Model.Enforce Model.Engine Model.FileSave Model.SpecC16.
From CV Require Import Gen.RustStr Gen.RustVec Gen.RustIter Gen.StrFnGen.
From CV Require Import Gen.AdaptersPrims Gen.AdaptersGen Gen.FsRt Gen.FsaveGen.
From CV Require Import Gen.Regex Gen.RegexRt Gen.RegexGen Gen.Petgraph Gen.IniRt Gen.IniGen.
From CV Require Import Proofs.BaseP Proofs.AdaptersP Proofs.FsaveP Proofs.RegexP Proofs.EscEvalM Proofs.RegexUtilP Proofs.IniRtP.
From CV Require Import PinChecks.PcStrFnGen PinChecks.PcAdaptersGen PinChecks.PcFsaveGen PinChecks.PcRegexGen PinChecks.PcIniGen.
From CV Require Import Proofs.C09P Proofs.C09SrcP.

(* ------------------------------------------------------------------ *)
(* (A1) MemoryAdapter                                                  *)

(* results of a translated MemoryAdapter method, read as results of the model's adapter *)
Definition mem_res (a : adapter) (x : option ((list rule * bool) * bool)) : adapter * outcome bool :=
  match x with Some ((l, f), b) => (AMemory l f, Ok b) | None => (a, Panic) end.
Definition mem_load_res (a : adapter) (md : model) (x : option ((list rule * bool * model) * unit)) : adapter * model * lres :=
  match x with Some ((l, f, md'), _) => (AMemory l f, md', LROk) | None => (a, md, LRPanic) end.

Theorem link_ad0_add_mem : forall l f sec pt r,
  mem_res (AMemory l f) (gen_mem_add_policy l f sec pt r) = ad0_add (AMemory l f) sec pt r.
Proof.
  intros l f sec pt r. pose proof (gen_mem_add_policy_ok l f sec pt r) as H.
  remember (gen_mem_add_policy l f sec pt r) as g eqn:Eg; clear Eg. unfold ad0_add in *.
  destruct (rmem (mem_line sec pt r) l); cbn [mem_out] in H; injection H as ->; reflexivity.
Qed.
Theorem link_ad0_add_many_mem : forall l f sec pt rs,
  mem_res (AMemory l f) (gen_mem_add_policies l f sec pt rs) = ad0_add_many (AMemory l f) sec pt rs.
Proof.
  intros l f sec pt rs. pose proof (gen_mem_add_policies_ok l f sec pt rs) as H.
  remember (gen_mem_add_policies l f sec pt rs) as g eqn:Eg; clear Eg. unfold ad0_add_many in *.
  destruct (existsb (fun ln => rmem ln l) (map (mem_line sec pt) rs)); cbn [mem_out] in H; injection H as ->; reflexivity.
Qed.
Theorem link_ad0_remove_mem : forall l f sec pt r,
  mem_res (AMemory l f) (gen_mem_remove_policy l f sec pt r) = ad0_remove (AMemory l f) sec pt r.
Proof.
  intros l f sec pt r. pose proof (gen_mem_remove_policy_ok l f sec pt r) as H.
  remember (gen_mem_remove_policy l f sec pt r) as g eqn:Eg; clear Eg. unfold ad0_remove in *.
  destruct (rmem (mem_line sec pt r) l); cbn [mem_out] in H; injection H as ->; reflexivity.
Qed.
Theorem link_ad0_remove_many_mem : forall l f sec pt rs,
  mem_res (AMemory l f) (gen_mem_remove_policies l f sec pt rs) = ad0_remove_many (AMemory l f) sec pt rs.
Proof.
  intros l f sec pt rs. pose proof (gen_mem_remove_policies_ok l f sec pt rs) as H.
  remember (gen_mem_remove_policies l f sec pt rs) as g eqn:Eg; clear Eg. unfold ad0_remove_many in *.
  destruct (forallb (fun ln => rmem ln l) (map (mem_line sec pt) rs)); cbn [mem_out] in H; injection H as ->; reflexivity.
Qed.
(* remove_filtered_policy: on the states of a MemoryAdapter (mem_wf: a LinkedHashSet of lines with a section and a
   policy type); the source panics exactly where the model does *)
Theorem link_ad0_remove_filtered_mem : forall l f sec pt idx vals, mem_wf l ->
  mem_res (AMemory l f) (gen_mem_remove_filtered_policy l f sec pt idx vals)
  = ad0_remove_filtered (AMemory l f) sec pt idx vals.
Proof.
  intros l f sec pt idx vals Hwf. pose proof (gen_mem_remove_filtered_policy_ok l f sec pt idx vals Hwf) as H.
  remember (gen_mem_remove_filtered_policy l f sec pt idx vals) as g eqn:Eg; clear Eg.
  unfold ad0_remove_filtered in *. destruct vals as [|v vs]; [cbn [mem_out] in H; injection H as ->; reflexivity|].
  destruct (mem_filter_lines sec pt idx (v :: vs) l) as [[kept res]|]; cbn [mem_out] in H; injection H as ->; reflexivity.
Qed.
Theorem link_ad0_load_mem : forall l f md, mem_wf l ->
  mem_load_res (AMemory l f) md (gen_mem_load_policy l f md) = ad0_load (AMemory l f) md.
Proof.
  intros l f md Hwf. pose proof (gen_mem_load_policy_ok l f md Hwf) as H.
  remember (gen_mem_load_policy l f md) as g eqn:Eg; clear Eg. cbn [ad0_load mem_load_out] in H.
  injection H as ->. reflexivity.
Qed.
Theorem link_ad0_load_filtered_mem : forall l f md fp fg, mem_wf l ->
  mem_load_res (AMemory l f) md (gen_mem_load_filtered_policy l f md fp fg) = ad0_load_filtered (AMemory l f) fp fg md.
Proof.
  intros l f md fp fg Hwf. pose proof (gen_mem_load_filtered_policy_ok l f md fp fg Hwf) as H.
  remember (gen_mem_load_filtered_policy l f md fp fg) as g eqn:Eg; clear Eg.
  cbn [ad0_load_filtered] in *. destruct (mem_load_filtered fp fg md l) as [md' fl]. cbn [mem_load_out] in H.
  injection H as ->. reflexivity.
Qed.
(* save_policy: on a store whose rule lists are sets and whose keys are distinct (what DefaultModel builds) *)
Theorem link_ad0_save_mem : forall l f md, store_sets md -> pg_keys_disjoint md ->
  option_map (fun x => (AMemory (fst (fst (fst x))) (snd (fst (fst x))), LROk)) (gen_mem_save_policy l f md)
  = Some (ad0_save (AMemory l f) md).
Proof.
  intros l f md Hs Hd. pose proof (gen_mem_save_policy_store_ok l f md Hs Hd) as H.
  destruct (gen_mem_save_policy l f md) as [[[[l' f'] md'] u]|]; cbn [option_map fst snd ad0_save mem_unit_out] in *;
    [injection H as -> ->; reflexivity|discriminate H].
Qed.
(* .. which is what the side conditions of C09 give (keys of a section distinct and starting with its letter,
   duplicate-free rule lists) *)
Theorem link_ad0_save_mem_hyps : forall md, KeysOkP md -> PolND md -> store_sets md /\ pg_keys_disjoint md.
Proof. exact keys_polnd_store. Qed.
Theorem link_ad0_clear_mem : forall l f,
  option_map (fun x => (AMemory (fst (fst x)) (snd (fst x)), LROk)) (gen_mem_clear_policy l f) = Some (ad0_clear (AMemory l f)).
Proof. intros l f. reflexivity. Qed.
Theorem link_ad_is_filtered_mem : forall l f, gen_mem_is_filtered l f = Some (ad_is_filtered (AMemory l f)).
Proof. exact gen_mem_is_filtered_ok. Qed.

(* the hypothesis mem_wf: true of the adapter as created, kept by every translated method *)
Theorem link_mem_wf_initial : mem_wf [].
Proof. exact gen_mem_wf_initial. Qed.
Theorem link_mem_wf_after_save : forall md, mem_wf (mem_lines md).
Proof. exact mem_wf_mem_lines. Qed.
Theorem link_mem_wf_invariant : forall l f, mem_wf l ->
  (forall sec pt r l' f' b, gen_mem_add_policy l f sec pt r = Some ((l', f'), b) -> mem_wf l') /\
  (forall sec pt rs l' f' b, gen_mem_add_policies l f sec pt rs = Some ((l', f'), b) -> mem_wf l') /\
  (forall sec pt r l' f' b, gen_mem_remove_policy l f sec pt r = Some ((l', f'), b) -> mem_wf l') /\
  (forall sec pt rs l' f' b, gen_mem_remove_policies l f sec pt rs = Some ((l', f'), b) -> mem_wf l') /\
  (forall sec pt idx vals l' f' b, gen_mem_remove_filtered_policy l f sec pt idx vals = Some ((l', f'), b) -> mem_wf l') /\
  (forall md l' f' md' u, gen_mem_save_policy l f md = Some ((l', f', md'), u) -> mem_wf l') /\
  (forall l' f' u, gen_mem_clear_policy l f = Some ((l', f'), u) -> mem_wf l') /\
  (forall md l' f' md' u, gen_mem_load_policy l f md = Some ((l', f', md'), u) -> mem_wf l') /\
  (forall md fp fg l' f' md' u, gen_mem_load_filtered_policy l f md fp fg = Some ((l', f', md'), u) -> mem_wf l').
Proof. exact gen_mem_wf_invariant. Qed.

(* ------------------------------------------------------------------ *)
(* (A2) FileAdapter                                                    *)

(* the incremental methods are stubs: Ok(true), nothing changes *)
Theorem link_ad0_inc_file : forall path l f sec pt r rs idx vals,
  inc_view (AFile l) (gen_file_add_policy path f sec pt r) = Some (ad0_add (AFile l f) sec pt r) /\
  inc_view (AFile l) (gen_file_add_policies path f sec pt rs) = Some (ad0_add_many (AFile l f) sec pt rs) /\
  inc_view (AFile l) (gen_file_remove_policy path f sec pt r) = Some (ad0_remove (AFile l f) sec pt r) /\
  inc_view (AFile l) (gen_file_remove_policies path f sec pt rs) = Some (ad0_remove_many (AFile l f) sec pt rs) /\
  inc_view (AFile l) (gen_file_remove_filtered_policy path f sec pt idx vals) = Some (ad0_remove_filtered (AFile l f) sec pt idx vals).
Proof.
  intros path l f sec pt r rs idx vals.
  destruct (gen_file_incremental_ok path l f sec pt r rs idx vals) as (H1 & H2 & H3 & H4 & H5 & _).
  repeat split; assumption.
Qed.
(* load: the file is there, no I/O fault: the model's load of the parsed lines of the file *)
Theorem link_ad0_load_file : forall path flt md fs ops sc bytes, all_ok sc = true -> content fs path = Some bytes ->
  file_load_view (parsed_lines bytes) (gen_file_load_policy path flt md (mkw fs ops sc false))
  = Some (ad0_load (AFile (parsed_lines bytes) flt) md).
Proof. exact gen_file_load_policy_ok. Qed.
Theorem link_ad0_load_filtered_file : forall path flt md fs ops sc bytes fp fg, all_ok sc = true ->
  content fs path = Some bytes ->
  file_load_view (parsed_lines bytes) (gen_file_load_filtered_policy path flt md (mkw fs ops sc false) fp fg)
  = Some (ad0_load_filtered (AFile (parsed_lines bytes) flt) fp fg md).
Proof. exact gen_file_load_filtered_policy_ok. Qed.
(* the line handlers that load_policy_file is given *)
Theorem link_load_line_file : forall md line,
  gen_file_load_policy_line md line = Some (raw_step load_line md line, tt).
Proof. exact gen_file_load_policy_line_ok. Qed.
Theorem link_ad0_save_file : forall c path flt md fs ops sc old, all_ok sc = true ->
  content fs (c :: path) = Some old -> model_text_safe_r md = true ->
  file_view (gen_file_save_policy (c :: path) flt md (mkw fs ops sc false))
  = Some (ad0_save (AFile (parsed_lines old) flt) md).
Proof. exact gen_file_save_policy_ok. Qed.
Theorem link_ad0_clear_file : forall path flt fs ops sc l, all_ok sc = true ->
  file_view3 (gen_file_clear_policy path flt (mkw fs ops sc false)) = Some (ad0_clear (AFile l flt)).
Proof. exact gen_file_clear_policy_ok. Qed.

(* ------------------------------------------------------------------ *)
(* (A3) StringAdapter                                                  *)

Theorem link_ad0_inc_str : forall content l f sec pt r rs idx vals,
  inc_view (AString l) (gen_str_add_policy content f sec pt r) = Some (ad0_add (AString l f) sec pt r) /\
  inc_view (AString l) (gen_str_add_policies content f sec pt rs) = Some (ad0_add_many (AString l f) sec pt rs) /\
  inc_view (AString l) (gen_str_remove_policy content f sec pt r) = Some (ad0_remove (AString l f) sec pt r) /\
  inc_view (AString l) (gen_str_remove_policies content f sec pt rs) = Some (ad0_remove_many (AString l f) sec pt rs) /\
  inc_view (AString l) (gen_str_remove_filtered_policy content f sec pt idx vals) = Some (ad0_remove_filtered (AString l f) sec pt idx vals).
Proof.
  intros content l f sec pt r rs idx vals.
  destruct (gen_str_incremental_ok content l f sec pt r rs idx vals) as (H1 & H2 & H3 & H4 & H5 & _).
  repeat split; assumption.
Qed.
Theorem link_ad0_load_str : forall content fl md,
  gen_str_load_policy content fl md = str_load_out content (ad0_load (AString (parsed_lines content) fl) md).
Proof. exact gen_str_load_policy_ok. Qed.
Theorem link_ad0_load_filtered_str : forall content fl md fp fg,
  gen_str_load_filtered_policy content fl md fp fg =
  str_load_out content (ad0_load_filtered (AString (parsed_lines content) fl) fp fg md).
Proof. exact gen_str_load_filtered_policy_ok. Qed.
Theorem link_ad0_save_str : forall content flt md, model_text_safe_r md = true ->
  str_view (gen_str_save_policy content flt md) = Some (ad0_save (AString (parsed_lines content) flt) md).
Proof. intros content flt md H. apply (gen_str_save_policy_ok content flt md H). Qed.
Theorem link_ad0_clear_str : forall content l flt,
  option_map (fun x => (AString (parsed_lines (fst (fst x))) (snd (fst x)), lres_of (snd x))) (gen_str_clear_policy content flt)
  = Some (ad0_clear (AString l flt)).
Proof. exact gen_str_clear_policy_ok. Qed.
Theorem link_ad_is_filtered_file_str : forall path content l f,
  gen_file_is_filtered path f = Some (ad_is_filtered (AFile l f)) /\
  gen_str_is_filtered content f = Some (ad_is_filtered (AString l f)).
Proof. exact gen_is_filtered_ok. Qed.

(* ------------------------------------------------------------------ *)
(* (H) the text functions                                              *)

(* util::parse_csv_line: the primitive of AdaptersPrims.v is the model's function, which is the translated one *)
Theorem link_parse_csv_line : forall line, gen_parse_csv_line line = Some (rs_parse_csv_line line).
Proof. exact gen_parse_csv_line_ok. Qed.
Theorem link_csv_field : forall v, gen_csv_field v = Csv.csv_field v.
Proof. exact gen_csv_field_ok. Qed.
Theorem link_remove_comment : forall s, gen_remove_comment s = Ini.remove_comment s.
Proof. exact gen_remove_comment_ok. Qed.
(* ASCII texts (the byte-level scope of Gen/Regex.v) *)
Theorem link_escape_assertion : forall s, forallb is_ascii s = true -> gen_escape_assertion s = rs_escape_assertion s.
Proof. exact gen_escape_assertion_ok. Qed.
Theorem link_escape_eval : forall m, forallb is_ascii m = true -> gen_escape_eval m = escape_eval m.
Proof. exact gen_escape_eval_ok. Qed.

(* model text: src/config.rs and the loading half of default_model.rs *)
Theorem link_parse_config : forall fuel t, ascii_text t -> length t < fuel ->
  match parse_config t with
  | Some c => exists st, gen_from_str fuel t = Some (RustIter.ROk st) /\ conf_ok st c
  | None => exists e, gen_from_str fuel t = Some (RustIter.RErr e)
  end.
Proof. exact gen_from_str_ok. Qed.
Theorem link_cfg_get : forall fuel t, ascii_text t -> length t < fuel ->
  match parse_config t with
  | Some c => exists st, gen_from_str fuel t = Some (RustIter.ROk st) /\
                (forall sec opt, plain_key sec -> plain_key opt ->
                   gen_get st (sec ++ T "::" ++ opt) = Some (cfg_get (sec, opt) c)) /\
                (forall key, plain_key key -> gen_get st key = Some (cfg_get (DEFAULT_SECTION, key) c))
  | None => exists e, gen_from_str fuel t = Some (RustIter.RErr e)
  end.
Proof. exact gen_from_str_get. Qed.
Theorem link_add_def : forall self sec key value, ascii_text value ->
  gen_add_def self sec key value =
  Some (match add_def sec key value with
        | Some d => (model_ins sec self d, true)
        | None => (self, false)
        end).
Proof. exact gen_add_def_ok. Qed.
Theorem link_load_section : forall fuel self cfg c sec, conf_ok cfg c -> In sec known_secs ->
  small (S (length c)) -> S (length c) <= fuel ->
  gen_load_section fuel self cfg sec =
  Some (fold_left (model_ins sec) (load_section (S (length c)) c sec 1) self, RustIter.ROk tt).
Proof. exact gen_load_section_ok. Qed.
Theorem link_model_of_text : forall fuel t, ascii_text t -> length t < fuel -> small (S (length t)) ->
  match model_of_text t with
  | Some md => gen_model_from_str fuel t = Some (RustIter.ROk {| dm_model := model_of_mdefs md |})
  | None => exists e, gen_model_from_str fuel t = Some (RustIter.RErr e)
  end.
Proof. exact gen_model_from_str_ok. Qed.
Theorem link_to_text : forall ord md, (forall l, ord l = l) -> mdefs_canon md = true -> table_wf md ->
  NoDup (map ad_key (sec_defs md (T "e"))) ->
  gen_to_text ord {| dm_model := model_of_mdefs md |} = Some (to_text md).
Proof. exact gen_to_text_ok. Qed.

(* the hypotheses are satisfiable *)
Example link_tab_a_ex :
  mem_wf PcAdaptersGen.ex_lines /\
  forallb is_ascii (T "g(r.sub, p2.sub) && xr.obj == p.obj") = true /\
  mem_res (AMemory PcAdaptersGen.ex_lines false) (gen_mem_add_policy PcAdaptersGen.ex_lines false (T "p") (T "p") [T "zoe"; T "d"; T "r"])
  = (AMemory (PcAdaptersGen.ex_lines ++ [[T "p"; T "p"; T "zoe"; T "d"; T "r"]]) false, Ok true).
Proof. split; [exact mem_wf_ex|]. split; vm_compute; reflexivity. Qed.
