(* C05, part 6: under the invariant the role-link update never fails, so the
   only error a management / reload / reconfiguration call can report is the
   adapter's. *)
From CV Require Import Model.Base Model.RoleGraph Model.Expr Model.Enforce Model.Engine Model.SpecC05.
From CV Require Import Proofs.ListAux Proofs.BaseP Proofs.RoleGraphP Proofs.C05Links Proofs.C05Sync
     Proofs.C05Steps Proofs.C05Load Proofs.C05Main.
From Coq Require Import Lia.

Definition adapter_err (o : outcome bool) : Prop := forall e, o = Err e -> e = EAdapter.

Lemma adapter_err_ok : forall b, adapter_err (Ok b).
Proof. intros b e H. discriminate. Qed.
Lemma adapter_err_panic : adapter_err Panic.
Proof. intros e H. discriminate. Qed.
Lemma adapter_err_adapter : adapter_err (Err EAdapter).
Proof. intros e H. inversion H. reflexivity. Qed.

(* ---------- adapters only ever report EAdapter ---------- *)
Lemma scripted_err : forall a f, (forall x, adapter_err (snd (f x))) -> adapter_err (snd (scripted a f)).
Proof.
  intros a f Hf. unfold scripted. destruct a as [|l fl|l fl|l fl|i sc]; try apply Hf.
  destruct sc as [|[| | | |] sc]; cbn [snd];
    try apply adapter_err_ok; try apply adapter_err_adapter;
    specialize (Hf i); destruct (f i) as [i' o]; exact Hf.
Qed.

Lemma ad_add_err : forall a sec pt r, adapter_err (snd (ad_add a sec pt r)).
Proof.
  intros a sec pt r. apply scripted_err. intros x. unfold ad0_add.
  destruct x as [|l fl|l fl|l fl|i sc]; cbn [snd]; try apply adapter_err_ok; try apply adapter_err_adapter.
  destruct (rmem _ l); apply adapter_err_ok.
Qed.

Lemma ad_add_many_err : forall a sec pt rs, adapter_err (snd (ad_add_many a sec pt rs)).
Proof.
  intros a sec pt rs. apply scripted_err. intros x. unfold ad0_add_many.
  destruct x as [|l fl|l fl|l fl|i sc]; cbn [snd]; try apply adapter_err_ok; try apply adapter_err_adapter.
  destruct (existsb _ _); apply adapter_err_ok.
Qed.

Lemma ad_remove_err : forall a sec pt r, adapter_err (snd (ad_remove a sec pt r)).
Proof.
  intros a sec pt r. apply scripted_err. intros x. unfold ad0_remove.
  destruct x as [|l fl|l fl|l fl|i sc]; cbn [snd]; try apply adapter_err_ok; try apply adapter_err_adapter.
  destruct (rmem _ l); apply adapter_err_ok.
Qed.

Lemma ad_remove_many_err : forall a sec pt rs, adapter_err (snd (ad_remove_many a sec pt rs)).
Proof.
  intros a sec pt rs. apply scripted_err. intros x. unfold ad0_remove_many.
  destruct x as [|l fl|l fl|l fl|i sc]; cbn [snd]; try apply adapter_err_ok; try apply adapter_err_adapter.
  destruct (forallb _ _); apply adapter_err_ok.
Qed.

Lemma ad_remove_filtered_err : forall a sec pt idx vals,
  adapter_err (snd (ad_remove_filtered a sec pt idx vals)).
Proof.
  intros a sec pt idx vals. apply scripted_err. intros x. unfold ad0_remove_filtered.
  destruct x as [|l fl|l fl|l fl|i sc]; cbn [snd]; try apply adapter_err_ok; try apply adapter_err_adapter.
  destruct vals as [|v vals]; [apply adapter_err_ok|].
  destruct (mem_filter_lines sec pt idx (v :: vals) l) as [[kept res]|];
    [apply adapter_err_ok|apply adapter_err_panic].
Qed.

Lemma if_save_err : forall (b : bool) (x : adapter * outcome bool) (a : adapter),
  adapter_err (snd x) -> adapter_err (snd (if b then x else (a, Ok true))).
Proof. intros b x a H. destruct b; [exact H|apply adapter_err_ok]. Qed.

(* ---------- the five internal entry points ---------- *)
Theorem step_add_out : forall s sec pt r, RoleSync s -> e_auto_build s = true ->
  (sec = s_g -> g_exact (e_model (fst (step_add s sec pt r))) = true) ->
  adapter_err (snd (step_add s sec pt r)).
Proof.
  intros s sec pt r Hrs Hb Hpost. unfold step_add in *.
  pose proof (if_save_err (e_auto_save s) (ad_add (e_adapter s) sec pt r) (e_adapter s)
                          (ad_add_err _ _ _ _)) as Had.
  destruct (if e_auto_save s then ad_add (e_adapter s) sec pt r else (e_adapter s, Ok true)) as [ad ares].
  cbn [snd] in Had. destruct ares as [[|]|e|]; try exact Had.
  destruct (m_add_policy (e_model (upd_adapter s ad)) sec pt r) as [md ch] eqn:Hm.
  cbn [e_model upd_adapter] in Hm. apply m_add_policy_change in Hm.
  set (s2 := emit_mgmt (upd_model (upd_adapter s ad) md) ch (EvAdd sec pt r)) in *.
  destruct (after_change_sync s s2 sec pt ch true [r] Hrs) as [_ Hout].
  - unfold s2. rewrite emit_mgmt_fs. reflexivity.
  - unfold s2. rewrite emit_mgmt_auto. exact Hb.
  - unfold s2. rewrite emit_mgmt_model. exact Hm.
  - intros Hs _. unfold inc_cond. rewrite <- (after_change_g_exact s2 sec pt ch true [r]).
    apply Hpost, Hs.
  - rewrite Hout. apply adapter_err_ok.
Qed.

Theorem step_add_many_out : forall s sec pt rs, RoleSync s -> e_auto_build s = true ->
  (sec = s_g -> g_exact (e_model (fst (step_add_many s sec pt rs))) = true) ->
  adapter_err (snd (step_add_many s sec pt rs)).
Proof.
  intros s sec pt rs Hrs Hb Hpost. unfold step_add_many in *.
  pose proof (if_save_err (e_auto_save s) (ad_add_many (e_adapter s) sec pt rs) (e_adapter s)
                          (ad_add_many_err _ _ _ _)) as Had.
  destruct (if e_auto_save s then ad_add_many (e_adapter s) sec pt rs else (e_adapter s, Ok true)) as [ad ares].
  cbn [snd] in Had. destruct ares as [[|]|e|]; try exact Had.
  destruct (m_add_policies (e_model (upd_adapter s ad)) sec pt rs) as [md ch] eqn:Hm.
  cbn [e_model upd_adapter] in Hm. apply m_add_policies_change in Hm.
  set (s2 := emit_mgmt (upd_model (upd_adapter s ad) md) ch (EvAddMany sec pt rs)) in *.
  destruct (after_change_sync s s2 sec pt ch true rs Hrs) as [_ Hout].
  - unfold s2. rewrite emit_mgmt_fs. reflexivity.
  - unfold s2. rewrite emit_mgmt_auto. exact Hb.
  - unfold s2. rewrite emit_mgmt_model. exact Hm.
  - intros Hs _. unfold inc_cond. rewrite <- (after_change_g_exact s2 sec pt ch true rs).
    apply Hpost, Hs.
  - rewrite Hout. apply adapter_err_ok.
Qed.

Theorem step_remove_out : forall s sec pt r, RoleSync s -> e_auto_build s = true ->
  del_cond s sec -> adapter_err (snd (step_remove s sec pt r)).
Proof.
  intros s sec pt r Hrs Hb Hpre. unfold step_remove in *.
  pose proof (if_save_err (e_auto_save s) (ad_remove (e_adapter s) sec pt r) (e_adapter s)
                          (ad_remove_err _ _ _ _)) as Had.
  destruct (if e_auto_save s then ad_remove (e_adapter s) sec pt r else (e_adapter s, Ok true)) as [ad ares].
  cbn [snd] in Had. destruct ares as [[|]|e|]; try exact Had.
  destruct (m_remove_policy (e_model (upd_adapter s ad)) sec pt r) as [md ch] eqn:Hm.
  cbn [e_model upd_adapter] in Hm. apply m_remove_policy_change in Hm.
  set (s2 := emit_mgmt (upd_model (upd_adapter s ad) md) ch (EvRemove sec pt r)) in *.
  destruct (after_change_sync s s2 sec pt ch false [r] Hrs) as [_ Hout].
  - unfold s2. rewrite emit_mgmt_fs. reflexivity.
  - unfold s2. rewrite emit_mgmt_auto. exact Hb.
  - unfold s2. rewrite emit_mgmt_model. exact Hm.
  - intros Hs _. apply Hpre, Hs.
  - rewrite Hout. apply adapter_err_ok.
Qed.

Theorem step_remove_many_out : forall s sec pt rs, RoleSync s -> e_auto_build s = true ->
  del_cond s sec -> adapter_err (snd (step_remove_many s sec pt rs)).
Proof.
  intros s sec pt rs Hrs Hb Hpre. unfold step_remove_many in *.
  pose proof (if_save_err (e_auto_save s) (ad_remove_many (e_adapter s) sec pt rs) (e_adapter s)
                          (ad_remove_many_err _ _ _ _)) as Had.
  destruct (if e_auto_save s then ad_remove_many (e_adapter s) sec pt rs else (e_adapter s, Ok true)) as [ad ares].
  cbn [snd] in Had. destruct ares as [[|]|e|]; try exact Had.
  destruct (m_remove_policies (e_model (upd_adapter s ad)) sec pt rs) as [md ch] eqn:Hm.
  cbn [e_model upd_adapter] in Hm. apply m_remove_policies_change in Hm.
  set (s2 := emit_mgmt (upd_model (upd_adapter s ad) md) ch (EvRemoveMany sec pt rs)) in *.
  destruct (after_change_sync s s2 sec pt ch false rs Hrs) as [_ Hout].
  - unfold s2. rewrite emit_mgmt_fs. reflexivity.
  - unfold s2. rewrite emit_mgmt_auto. exact Hb.
  - unfold s2. rewrite emit_mgmt_model. exact Hm.
  - intros Hs _. apply Hpre, Hs.
  - rewrite Hout. apply adapter_err_ok.
Qed.

Theorem step_remove_filtered_out : forall s sec pt idx vals, RoleSync s -> e_auto_build s = true ->
  del_cond s sec -> adapter_err (snd (step_remove_filtered s sec pt idx vals)).
Proof.
  intros s sec pt idx vals Hrs Hb Hpre. unfold step_remove_filtered in *.
  pose proof (if_save_err (e_auto_save s) (ad_remove_filtered (e_adapter s) sec pt idx vals) (e_adapter s)
                          (ad_remove_filtered_err _ _ _ _ _)) as Had.
  destruct (if e_auto_save s then ad_remove_filtered (e_adapter s) sec pt idx vals
            else (e_adapter s, Ok true)) as [ad ares].
  cbn [snd] in Had. destruct ares as [[|]|e|]; try exact Had.
  destruct (m_remove_filtered (e_model (upd_adapter s ad)) sec pt idx vals) as [[[md ch] rem]|] eqn:Hm;
    [|apply adapter_err_panic].
  cbn [e_model upd_adapter] in Hm. apply m_remove_filtered_change in Hm. destruct Hm as [Hm Hnil].
  set (s2 := emit_mgmt (upd_model (upd_adapter s ad) md) ch (EvRemoveFiltered sec pt rem)) in *.
  assert (Hfs : e_fs s2 = e_fs s) by (unfold s2; rewrite emit_mgmt_fs; reflexivity).
  assert (Hb2 : e_auto_build s2 = true) by (unfold s2; rewrite emit_mgmt_auto; exact Hb).
  assert (Hmd : e_model s2 = md) by (unfold s2; rewrite emit_mgmt_model; reflexivity).
  rewrite Hb2. destruct (teqb sec s_g) eqn:Es; cbn [negb orb]; [|apply adapter_err_ok].
  apply teqb_eq in Es. subst sec. destruct (Hpre eq_refl) as [Hex Hdj]. destruct ch.
  - destruct (inc_links_sync s s2 pt false rem Hrs Hfs) as (m' & Heq & Hrs').
    + rewrite Hmd. exact Hm.
    + split; assumption.
    + rewrite Heq. apply adapter_err_ok.
  - rewrite (Hnil eq_refl). apply mchange_same in Hm.
    assert (Hrs2 : RoleSync s2).
    { apply (RoleSync_ext s); [rewrite Hmd, Hm; reflexivity|exact Hfs|exact Hrs]. }
    destruct (inc_links_nil s2 pt false Hrs2) as [_ H]; [rewrite Hmd, Hm; exact Hex|].
    destruct (incremental_links s2 pt false []) as [s3 e3]. cbn [snd] in *. subst e3.
    apply adapter_err_ok.
Qed.

Lemma seq_or_err : forall ra f, adapter_err (snd ra) ->
  (forall a, snd ra = Ok a -> adapter_err (snd (f (fst ra)))) ->
  adapter_err (snd (seq_or ra f)).
Proof.
  intros [s [a|e|]] f H1 H2; cbn [seq_or fst snd] in *; try exact H1.
  specialize (H2 a eq_refl). destruct (f s) as [s' [b|e|]]; cbn [snd] in *;
    [apply adapter_err_ok|exact H2|exact H2].
Qed.

Theorem step_rbac_out : forall s o, RoleSync s -> e_auto_build s = true ->
  g_exact (e_model s) = true -> defs_disjoint (e_model s) = true -> rbac_post s o ->
  adapter_err (snd (step_rbac s o)).
Proof.
  intros s o Hrs Hb Hex Hdj Hpost.
  assert (Hdel : del_cond s s_g) by (intros _; split; assumption).
  destruct o as [u p|u ps|u r d|u rs d|u r d|u d|n|n|p|u p|u]; cbn [step_rbac rbac_post] in *.
  - apply step_add_out; auto. intros H. exfalso. apply sp_ne_sg, H.
  - apply step_add_many_out; auto. intros H. exfalso. apply sp_ne_sg, H.
  - apply step_add_out; auto.
  - apply step_add_many_out; auto.
  - apply step_remove_out; auto.
  - apply step_remove_filtered_out; auto.
  - apply seq_or_err; [apply step_remove_filtered_out; auto|]. intros a _.
    apply step_remove_filtered_out; [|rewrite step_remove_filtered_auto; exact Hb|apply del_cond_p].
    apply step_remove_filtered_sync; auto.
  - apply seq_or_err; [apply step_remove_filtered_out; auto|]. intros a _.
    apply step_remove_filtered_out; [|rewrite step_remove_filtered_auto; exact Hb|apply del_cond_p].
    apply step_remove_filtered_sync; auto.
  - apply step_remove_filtered_out; auto. apply del_cond_p.
  - apply step_remove_out; auto. apply del_cond_p.
  - apply step_remove_filtered_out; auto. apply del_cond_p.
Qed.

(* ---------- loads, clear, reconfiguration ---------- *)
Definition lres_adapter_err (r : lres) : Prop := forall e, r = LRErr e -> e = EAdapter.

Lemma ad0_load_res : forall a md, lres_adapter_err (snd (ad0_load a md)).
Proof. intros a md e H. destruct a; cbn [ad0_load snd] in H; discriminate. Qed.

Lemma ad0_load_filtered_res : forall a fp fg md, lres_adapter_err (snd (ad0_load_filtered a fp fg md)).
Proof.
  intros a fp fg md e H. destruct a as [|l f|l f|l f|i sc]; cbn [ad0_load_filtered] in H.
  - discriminate.
  - destruct (mem_load_filtered fp fg md l). discriminate.
  - destruct (str_load_filtered fp fg md l). discriminate.
  - destruct (str_load_filtered fp fg md l). discriminate.
  - discriminate.
Qed.

Lemma ad_load_res : forall a md, lres_adapter_err (snd (ad_load a md)).
Proof.
  intros a md. unfold ad_load. destruct a as [|l f|l f|l f|i sc]; try apply ad0_load_res.
  pose proof (ad0_load_res i md) as H.
  destruct sc as [|[| | | |] sc]; destruct (ad0_load i md) as [[i' md'] r]; cbn [snd] in *;
    try exact H; intros e He; inversion He; reflexivity.
Qed.

Lemma ad_load_filtered_res : forall a fp fg md, lres_adapter_err (snd (ad_load_filtered a fp fg md)).
Proof.
  intros a fp fg md. unfold ad_load_filtered.
  destruct a as [|l f|l f|l f|i sc]; try apply ad0_load_filtered_res.
  pose proof (ad0_load_filtered_res i fp fg md) as H.
  destruct sc as [|[| | | |] sc]; destruct (ad0_load_filtered i fp fg md) as [[i' md'] r]; cbn [snd] in *;
    try exact H; intros e He; inversion He; reflexivity.
Qed.

Lemma finish_load_out : forall s ad md r, RoleSync s -> e_auto_build s = true ->
  gshape md = gshape (e_model s) -> lres_adapter_err r ->
  g_exact (e_model (fst (finish_load s ad md r))) = true ->
  adapter_err (snd (finish_load s ad md r)).
Proof.
  intros s ad md r Hrs Hb Hsh Hr Hpost. destruct r as [|e|].
  - destruct (finish_load_ok s ad md (proj2 Hrs) Hb Hsh Hpost) as [_ H]. rewrite H. apply adapter_err_ok.
  - cbn [finish_load snd]. rewrite (Hr e eq_refl). apply adapter_err_adapter.
  - apply adapter_err_panic.
Qed.

Theorem step_load_out : forall s, RoleSync s -> e_auto_build s = true ->
  g_exact (e_model (fst (step_load s))) = true -> adapter_err (snd (step_load s)).
Proof.
  intros s Hrs Hb Hpost. unfold step_load in *.
  pose proof (gshape_ad_load (e_adapter s) (m_clear_policy (e_model s))) as Hsh.
  pose proof (ad_load_res (e_adapter s) (m_clear_policy (e_model s))) as Hr.
  destruct (ad_load (e_adapter s) (m_clear_policy (e_model s))) as [[ad md] r].
  unfold ld_model in Hsh. cbn [fst snd] in Hsh, Hr. rewrite gshape_m_clear in Hsh.
  apply finish_load_out; assumption.
Qed.

Theorem step_load_filtered_out : forall s fp fg, RoleSync s -> e_auto_build s = true ->
  g_exact (e_model (fst (step_load_filtered s fp fg))) = true ->
  adapter_err (snd (step_load_filtered s fp fg)).
Proof.
  intros s fp fg Hrs Hb Hpost. unfold step_load_filtered in *.
  pose proof (gshape_ad_load_filtered (e_adapter s) fp fg (m_clear_policy (e_model s))) as Hsh.
  pose proof (ad_load_filtered_res (e_adapter s) fp fg (m_clear_policy (e_model s))) as Hr.
  destruct (ad_load_filtered (e_adapter s) fp fg (m_clear_policy (e_model s))) as [[ad md] r].
  unfold ld_model in Hsh. cbn [fst snd] in Hsh, Hr. rewrite gshape_m_clear in Hsh.
  apply finish_load_out; assumption.
Qed.

Lemma scripted_unit_res : forall a f, (forall x, lres_adapter_err (snd (f x))) ->
  lres_adapter_err (snd (scripted_unit a f)).
Proof.
  intros a f Hf. unfold scripted_unit. destruct a as [|l fl|l fl|l fl|i sc]; try apply Hf.
  destruct sc as [|[| | | |] sc]; cbn [snd];
    try (intros e He; inversion He; reflexivity);
    specialize (Hf i); destruct (f i) as [i' o]; exact Hf.
Qed.

Lemma ad_clear_res : forall a, lres_adapter_err (snd (ad_clear a)).
Proof.
  intros a. apply scripted_unit_res. intros x e H. destruct x; cbn [ad0_clear snd] in H; discriminate.
Qed.

Theorem step_clear_out : forall s, RoleSync s -> e_auto_build s = true ->
  g_exact (e_model (fst (step_clear s))) = true -> adapter_err (snd (step_clear s)).
Proof.
  intros s Hrs Hb Hpost. unfold step_clear in *.
  assert (Hr : lres_adapter_err (snd (if e_auto_save s then ad_clear (e_adapter s) else (e_adapter s, LROk)))).
  { destruct (e_auto_save s); [apply ad_clear_res|intros e He; discriminate]. }
  destruct (if e_auto_save s then ad_clear (e_adapter s) else (e_adapter s, LROk)) as [ad r].
  cbn [snd] in Hr. destruct r as [|e|].
  - cbn [e_auto_build upd_model upd_adapter e_model] in *. rewrite Hb in *.
    set (s2 := upd_model (upd_adapter s ad) (m_clear_policy (e_model s))) in *.
    assert (Hex2 : g_exact (e_model s2) = true).
    { rewrite <- (build_role_links_g_exact s2).
      destruct (build_role_links s2) as [s3 [|e]]; cbn [fst] in *; rewrite ?emit_model in Hpost; exact Hpost. }
    destruct (build_role_links_ok s2 Hex2) as (s3 & Hbld & _). rewrite Hbld. apply adapter_err_ok.
  - cbn [lres_out snd]. rewrite (Hr e eq_refl). apply adapter_err_adapter.
  - apply adapter_err_panic.
Qed.

(* ---------- every operation but save_policy ---------- *)
Theorem step_no_link_error : forall s o, SyncInv s -> side_ok (fst (step s o)) = true ->
  op_allowed s o = true -> o <> OSave ->
  adapter_err (snd (step s o)).
Proof.
  intros s o (Hrs & Hb & Hpre) Hpost Hop Hns.
  apply side_ok_spec in Hpre. destruct Hpre as [Hex Hdj].
  apply side_ok_spec in Hpost. destruct Hpost as [Hex' _].
  assert (Hdel : forall sec, del_cond s sec) by (intros sec _; split; assumption).
  destruct o as [sec pt r|sec pt rs|sec pt r|sec pt rs|sec pt idx vals|ro| | |fp fg| | |d|a|mx|
                 |n u|b|b|b|b]; cbn [step] in *; try apply adapter_err_ok.
  - apply step_add_out; auto.
  - apply step_add_many_out; auto.
  - apply step_remove_out; auto.
  - apply step_remove_many_out; auto.
  - apply step_remove_filtered_out; auto.
  - apply step_rbac_out; auto. destruct ro; cbn [rbac_post]; auto.
  - apply step_clear_out; auto.
  - apply step_load_out; auto.
  - apply step_load_filtered_out; auto.
  - contradiction.
  - destruct (step_build_sync s Hrs Hex') as [_ H]. cbn [step] in H. rewrite H. apply adapter_err_ok.
  - unfold op_allowed in Hop. cbn [step] in Hop.
    destruct (snd (step_set_model s d)); cbn [is_ok] in Hop; [apply adapter_err_ok|discriminate|discriminate].
  - unfold step_set_adapter in *. apply step_load_out; auto.
  - destruct (step_set_role_manager_sync s mx Hb Hex') as [_ H]. rewrite H. apply adapter_err_ok.
Qed.
