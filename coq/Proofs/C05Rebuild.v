(* C05, part 5: an explicit rebuild changes no decision and no role query. *)
From CV Require Import Model.Base Model.Effector Model.RoleGraph Model.PathMatch Model.Expr Model.Enforce
     Model.Engine Model.SpecC05.
From CV Require Import Proofs.ListAux Proofs.BaseP Proofs.RoleGraphP Proofs.ExprP Proofs.C05Links
     Proofs.C05Sync Proofs.C05Steps Proofs.C05Load.
From Coq Require Import Lia Relations.

Definition seteq {A} (x y : list A) : Prop := forall e, In e x <-> In e y.
Definition edges_equiv (m m' : rmgr) : Prop :=
  forall d p, In p (edges_of m d) <-> In p (edges_of m' d).

Lemma seteq_refl : forall {A} (x : list A), seteq x x.
Proof. intros A x e. reflexivity. Qed.

Lemma memb_seteq : forall x y r, seteq x y -> memb teqb r x = memb teqb r y.
Proof.
  intros x y r H. destruct (memb teqb r y) eqn:E.
  - apply memb_In. apply H. apply memb_In, E.
  - apply memb_not_In. intros Hin. apply H in Hin. apply memb_In in Hin. rewrite Hin in E. discriminate.
Qed.

(* ---------- the state after an explicit rebuild ---------- *)
Lemma set_cur_id : forall am, handles_cur am -> set_cur am = am.
Proof.
  induction am as [|[k a] am IH]; intros Hh; [reflexivity|]. cbn [set_cur map fst snd].
  fold (set_cur am). rewrite IH.
  - rewrite (with_handle_id a); [reflexivity|]. apply (Hh k a). left. reflexivity.
  - intros k' a' Hin. apply (Hh k' a'). right. exact Hin.
Qed.

Theorem rebuild_state : forall s, RoleSync s -> g_exact (e_model s) = true ->
  exists m', step s OBuildRoleLinks = (upd_fs s (set_rm (e_fs s) m'), Ok true) /\
             wf m' /\ edges_equiv m' (f_rm (e_fs s)) /\
             RoleSync (upd_fs s (set_rm (e_fs s) m')).
Proof.
  intros s Hrs Hex. pose proof Hrs as [Hrs0 Hreg]. pose proof Hrs0 as (Hwf & Hed & Hh).
  cbn [step]. unfold build_role_links. unfold g_exact, gsec in Hex. unfold RoleSync, gsec in *.
  destruct (assoc s_g (e_model s)) as [am|] eqn:Hs.
  - destruct (build_links_ok am [] wf_nil Hex) as (m' & Hb & Hwf' & Hed'). rewrite Hb.
    rewrite (set_cur_id am Hh), (assoc_set_id _ _ _ Hs).
    assert (Heq : edges_equiv m' (f_rm (e_fs s))).
    { intros d p. rewrite Hed', edges_of_nil, Hed, links_of_am_In. cbn [In]. tauto. }
    exists m'. split; [reflexivity|]. split; [exact Hwf'|]. split; [exact Heq|].
    cbn [e_model e_fs upd_fs set_rm]. rewrite Hs. split; [|exact Hreg].
    cbn [f_rm]. split; [exact Hwf'|]. split; [|exact Hh].
    intros d p. rewrite (Heq d p). apply Hed.
  - exists []. split; [reflexivity|]. split; [apply wf_nil|].
    assert (Heq : edges_equiv [] (f_rm (e_fs s))).
    { intros d p. rewrite edges_of_nil, Hed. cbn. tauto. }
    split; [exact Heq|].
    cbn [e_model e_fs upd_fs set_rm]. rewrite Hs. split; [|exact Hreg].
    cbn [f_rm]. split; [apply wf_nil|]. split; [|exact Hh].
    intros d p. rewrite (Heq d p). apply Hed.
Qed.

(* ---------- listings ---------- *)
Lemma Edge_equiv : forall m m', edges_equiv m m' -> forall d x y, Edge m d x y <-> Edge m' d x y.
Proof. intros m m' H d x y. apply H. Qed.

Lemma get_roles_equiv : forall m m' n d, wf m -> wf m' -> edges_equiv m m' ->
  seteq (get_roles m n d) (get_roles m' n d).
Proof.
  intros m m' n d Hwf Hwf' He x. rewrite !get_roles_spec by assumption. apply (Edge_equiv _ _ He).
Qed.

Lemma get_users_equiv : forall m m' n d, wf m -> wf m' -> edges_equiv m m' ->
  seteq (get_users m n d) (get_users m' n d).
Proof.
  intros m m' n d Hwf Hwf' He x. rewrite !get_users_spec by assumption. apply (Edge_equiv _ _ He).
Qed.

(* ---------- has_link below the hierarchy limit ---------- *)
Definition shallow (maxd : nat) (m : rmgr) : Prop :=
  forall d a b, a <> b -> clos_trans text (Edge m d) a b ->
  exists k, k < maxd /\ path (Edge m d) k a b.

Lemma has_link_shallow : forall maxd m a b d, wf m -> shallow maxd m ->
  (has_link maxd m a b d = true <-> (a = b \/ clos_trans text (Edge m d) a b)).
Proof.
  intros maxd m a b d Hwf Hsh. split.
  - apply has_link_sound, Hwf.
  - intros H. destruct (text_eq_dec a b) as [->|Hne].
    + unfold has_link. rewrite teqb_refl. reflexivity.
    + destruct H as [H|H]; [contradiction|].
      destruct (Hsh d a b Hne H) as (k & Hk & Hp).
      apply (has_link_complete maxd m a b d k Hwf Hp Hk).
Qed.

Lemma shallow_equiv : forall maxd m m', edges_equiv m m' -> shallow maxd m -> shallow maxd m'.
Proof.
  intros maxd m m' He Hsh d a b Hne Hc.
  destruct (Hsh d a b Hne) as (k & Hk & Hp).
  - apply (clos_trans_impl (Edge m' d)); [|exact Hc]. intros x y. apply (Edge_equiv _ _ He).
  - exists k. split; [exact Hk|]. apply (path_impl (Edge m d)); [|exact Hp].
    intros x y. apply (Edge_equiv _ _ He).
Qed.

Theorem has_link_equiv : forall maxd m m' a b d, wf m -> wf m' -> edges_equiv m m' ->
  shallow maxd m -> has_link maxd m' a b d = has_link maxd m a b d.
Proof.
  intros maxd m m' a b d Hwf Hwf' He Hsh.
  pose proof (shallow_equiv maxd m m' He Hsh) as Hsh'.
  pose proof (has_link_shallow maxd m a b d Hwf Hsh) as H1.
  pose proof (has_link_shallow maxd m' a b d Hwf' Hsh') as H2.
  assert (Hc : clos_trans text (Edge m d) a b <-> clos_trans text (Edge m' d) a b).
  { split; apply clos_trans_impl; intros x y; apply (Edge_equiv _ _ He). }
  destruct (has_link maxd m a b d) eqn:E1; destruct (has_link maxd m' a b d) eqn:E2; try reflexivity.
  - assert (H : false = true); [|discriminate]. apply H2. rewrite <- Hc. apply H1. reflexivity.
  - assert (H : false = true); [|discriminate]. apply H1. rewrite Hc. apply H2. reflexivity.
Qed.

(* decidable sufficient condition for shallow *)
Lemma clos_trans_first : forall {A} (R : A -> A -> Prop) a b, clos_trans A R a b -> exists x, R a x.
Proof.
  intros A R a b H. induction H as [a b Hab|a b c _ IH1 _ _]; [exists b; exact Hab|exact IH1].
Qed.

Theorem shallow_b_sound : forall maxd m, shallow_b maxd m = true -> shallow maxd m.
Proof.
  intros maxd m Hb d a b Hne Hc. unfold shallow_b in Hb. rewrite forallb_forall in Hb.
  destruct (clos_trans_first _ a b Hc) as [x Hax].
  unfold Edge, edges_of in Hax. destruct (graph_of m d) as [g|] eqn:Hg; [|destruct Hax].
  pose proof Hg as Hin. unfold graph_of in Hin. apply assoc_In in Hin.
  specialize (Hb _ Hin). cbn [snd] in Hb.
  unfold shallow_links_b in Hb. rewrite forallb_forall in Hb.
  assert (Ha : In a (map fst (edges g))) by (apply (in_map fst) in Hax; exact Hax).
  specialize (Hb a Ha). rewrite forallb_forall in Hb.
  assert (Hr : reachable (edges g) a b = true).
  { apply reachable_spec. right. apply (clos_trans_impl (Edge m d)); [|exact Hc].
    intros u v Huv. apply (Edge_graph m d g u v Hg), Huv. }
  unfold reachable, reach_within in Hr. apply memb_In in Hr. specialize (Hb b Hr).
  apply orb_true_iff in Hb. destruct Hb as [Hb|Hb]; [apply teqb_eq in Hb; contradiction|].
  apply andb_true_iff in Hb. destruct Hb as [Hw Hpos]. apply Nat.ltb_lt in Hpos.
  unfold reach_within in Hw. apply memb_In, within_spec in Hw. destruct Hw as (j & Hj & Hp).
  exists j. split; [lia|]. apply (path_impl (fun x y => In (x, y) (edges g))); [|exact Hp].
  intros u v Huv. apply (Edge_graph m d g u v Hg), Huv.
Qed.

(* ---------- the work-list closure of get_implicit_roles_for_user ---------- *)
Lemma implicit_roles_go_S : forall fuel m d q res,
  implicit_roles_go (S fuel) m d q res =
  match q with
  | [] => res
  | n :: q' => implicit_roles_go fuel m d (q' ++ discover (get_roles m n d) res)
                                 (res ++ discover (get_roles m n d) res)
  end.
Proof. reflexivity. Qed.

Section Closure.
  Variables (m : rmgr) (d : option text) (n : text).
  Hypothesis Hwf : wf m.
  Let R := Edge m d.
  Let ns : list text := match graph_of m d with Some g => nodes g | None => [] end.

  Lemma target_in_ns : forall x y, R x y -> In y ns.
  Proof.
    intros x y H. unfold R, Edge, edges_of in H. unfold ns.
    destruct (graph_of m d) as [g|] eqn:Hg; [|destruct H].
    destruct (wf_graph_of _ _ _ Hwf Hg) as (_ & _ & Hc). apply (Hc x y H).
  Qed.

  Definition CInv (q res : list text) : Prop :=
    (forall x, In x res -> clos_trans text R n x) /\
    (forall x, In x q -> x = n \/ In x res) /\
    (forall x, x = n \/ In x res -> In x q \/ (forall y, R x y -> In y res)).

  Lemma CInv_step : forall v q' res, CInv (v :: q') res ->
    CInv (q' ++ discover (get_roles m v d) res) (res ++ discover (get_roles m v d) res).
  Proof.
    intros v q' res (Ia & Ib & Ic). set (nw := discover (get_roles m v d) res).
    assert (Hnw : forall y, In y nw <-> R v y /\ ~ In y res).
    { intros y. unfold nw. rewrite discover_In, get_roles_spec by exact Hwf. reflexivity. }
    assert (Hv : v = n \/ In v res) by (apply Ib; left; reflexivity).
    split; [|split].
    - intros x Hx. apply in_app_or in Hx. destruct Hx as [Hx|Hx]; [apply Ia, Hx|].
      apply Hnw in Hx. destruct Hx as [Hx _]. destruct Hv as [->|Hv].
      + apply t_step, Hx.
      + apply (t_trans text R n v x); [apply Ia, Hv|apply t_step, Hx].
    - intros x Hx. apply in_app_or in Hx. destruct Hx as [Hx|Hx].
      + destruct (Ib x (or_intror Hx)) as [H|H]; [left; exact H|right; apply in_or_app; left; exact H].
      + right. apply in_or_app. right. exact Hx.
    - intros x Hx.
      assert (Hold : (x = n \/ In x res) \/ In x nw).
      { destruct Hx as [Hx|Hx]; [left; left; exact Hx|]. apply in_app_or in Hx.
        destruct Hx as [Hx|Hx]; [left; right; exact Hx|right; exact Hx]. }
      destruct Hold as [Hold|Hold].
      + destruct (Ic x Hold) as [[<-|Hq]|Hs].
        * right. intros y Hy. apply in_or_app.
          destruct (in_dec text_eq_dec y res) as [Hin|Hnin]; [left; exact Hin|right].
          apply Hnw. split; assumption.
        * left. apply in_or_app. left. exact Hq.
        * right. intros y Hy. apply in_or_app. left. apply Hs, Hy.
      + left. apply in_or_app. right. exact Hold.
  Qed.

  Lemma CInv_final : forall res, CInv [] res -> forall x, In x res <-> clos_trans text R n x.
  Proof.
    intros res (Ia & _ & Ic) x. split; [apply Ia|].
    intros H. apply clos_trans_tn1 in H. induction H as [y Hy|y z Hyz _ IH].
    - destruct (Ic n (or_introl eq_refl)) as [[]|Hs]. apply Hs, Hy.
    - destruct (Ic y (or_intror IH)) as [[]|Hs]. apply Hs, Hyz.
  Qed.

  Lemma go_closed : forall fuel q res,
    CInv q res -> NoDup res -> incl res ns ->
    length q + length ns <= fuel + length res ->
    forall x, In x (implicit_roles_go fuel m d q res) <-> clos_trans text R n x.
  Proof.
    induction fuel as [|fuel IH]; intros q res HI Hnd Hin Hlen.
    - assert (Hq : q = []).
      { pose proof (NoDup_incl_length Hnd Hin) as Hl.
        assert (Hz : length q = 0) by lia. destruct q; [reflexivity|discriminate]. }
      subst q. cbn [implicit_roles_go]. apply CInv_final, HI.
    - rewrite implicit_roles_go_S. destruct q as [|v q']; [apply CInv_final, HI|].
      set (nw := discover (get_roles m v d) res).
      assert (Hnw : forall y, In y nw -> R v y /\ ~ In y res).
      { intros y Hy. unfold nw in Hy. rewrite discover_In, get_roles_spec in Hy by exact Hwf. exact Hy. }
      apply IH.
      + apply CInv_step, HI.
      + apply NoDup_app_intro; [exact Hnd|apply discover_NoDup|].
        intros x Hx Hx'. apply Hnw in Hx'. destruct Hx' as [_ Hx']. contradiction.
      + intros x Hx. apply in_app_or in Hx. destruct Hx as [Hx|Hx]; [apply Hin, Hx|].
        apply Hnw in Hx. destruct Hx as [Hx _]. apply (target_in_ns v x Hx).
      + rewrite !app_length. fold nw. cbn [length] in Hlen. revert Hlen.
        generalize (length q'), (length nw), (length ns), (length res). clear. intros; lia.
  Qed.

  Lemma CInv_init : CInv [n] [].
  Proof.
    split; [intros x []|]. split.
    - intros x [<-|[]]. left. reflexivity.
    - intros x [->|[]]. left. left. reflexivity.
  Qed.

  (* the fuel of the model is adequate: the result is exactly the set of
     names reachable in one or more steps *)
  Theorem implicit_roles_go_spec : forall x,
    In x (implicit_roles_go (S (S (graph_size m d))) m d [n] []) <-> clos_trans text R n x.
  Proof.
    apply go_closed.
    - apply CInv_init.
    - constructor.
    - intros x [].
    - unfold graph_size, ns. cbn [length]. destruct (graph_of m d); rewrite Nat.add_0_r; cbn [plus length]; [apply le_S, le_n|lia].
  Qed.
End Closure.

Theorem implicit_roles_spec : forall s n d x, wf (f_rm (e_fs s)) ->
  In x (implicit_roles s n d) <-> clos_trans text (Edge (f_rm (e_fs s)) d) n x.
Proof. intros s n d x Hwf. unfold implicit_roles. apply implicit_roles_go_spec, Hwf. Qed.

(* ---------- decisions ---------- *)
Lemma call_fn_set_rm : forall fs m',
  (forall a b d, has_link (f_rm_max fs) m' a b d = has_link (f_rm_max fs) (f_rm fs) a b d) ->
  forall f args, call_fn (set_rm fs m') f args = call_fn fs f args.
Proof.
  intros fs m' Hl f args. unfold call_fn. cbn [set_rm f_ufuns f_gfuns].
  destruct (all_strs args) as [ss|]; [|reflexivity].
  destruct (match assoc f (f_ufuns fs) with Some u => run_ufun u ss | None => None end); [reflexivity|].
  destruct (find_gfun (f, length ss) (f_gfuns fs)) as [h|]; [|reflexivity].
  assert (Hh : forall a b d, handle_has_link (set_rm fs m') h a b d = handle_has_link fs h a b d).
  { intros a b d. destruct h; cbn [handle_has_link set_rm f_rm f_rm_max]; [reflexivity|apply Hl|reflexivity]. }
  destruct ss as [|a [|b [|d [|x ss]]]]; try reflexivity; rewrite Hh; reflexivity.
Qed.

Section EnforceExt.
  Variable ptab : text -> option expr.
  Variables fs1 fs2 : fstate.
  Hypothesis Hcall : forall f args, call_fn fs1 f args = call_fn fs2 f args.

  Lemma eval_matcher_ext : forall m sc, eval_matcher ptab fs1 m sc = eval_matcher ptab fs2 m sc.
  Proof.
    intros m sc. unfold eval_matcher.
    rewrite (eval_ext (call_fn fs1) (call_fn fs2) ptab sc sc eval_fuel m Hcall (fun _ => eq_refl)).
    reflexivity.
  Qed.

  Lemma rules_loop_ext : forall m et ptoks sc0 rules st,
    rules_loop ptab fs1 m et ptoks sc0 st rules = rules_loop ptab fs2 m et ptoks sc0 st rules.
  Proof.
    intros m et ptoks sc0. induction rules as [|pv rest IH]; intros st; cbn [rules_loop]; [reflexivity|].
    destruct (negb (Nat.eqb (length ptoks) (length pv))); [reflexivity|].
    rewrite eval_matcher_ext. destruct (eval_matcher ptab fs2 m _) as [b|e|]; try reflexivity.
    destruct (done (push st _)); [reflexivity|apply IH].
  Qed.

  Lemma enforce_core_ext : forall en md mx rk pk ek mk et rv,
    enforce_core ptab en md mx fs1 rk pk ek mk et rv = enforce_core ptab en md mx fs2 rk pk ek mk et rv.
  Proof.
    intros en md mx rk pk ek mk et rv. unfold enforce_core.
    destruct (negb en); [reflexivity|].
    destruct (get_ast md s_r rk) as [r_ast|]; [|reflexivity].
    destruct (get_ast md s_p pk) as [p_ast|]; [|reflexivity].
    destruct (get_ast md s_m mk) as [m_ast|]; [|reflexivity].
    destruct (get_ast md s_e ek) as [e_ast|]; [|reflexivity].
    destruct (negb (Nat.eqb (length (a_tokens r_ast)) (length rv))); [reflexivity|].
    cbv zeta. destruct (new_stream _ _) as [st|]; [|reflexivity].
    destruct (assoc mk mx) as [m|]; [|reflexivity].
    destruct (a_policy p_ast) as [|r0 rules].
    - rewrite eval_matcher_ext. reflexivity.
    - apply rules_loop_ext.
  Qed.
End EnforceExt.

(* ---------- (4) rebuild is a no-op on observations ---------- *)
Record same_observations (ptab : text -> option expr) (s s' : estate) : Prop := {
  so_model : e_model s' = e_model s;
  so_edges : edges_equiv (f_rm (e_fs s')) (f_rm (e_fs s));
  so_roles : forall n d, seteq (roles_for_user s' n d) (roles_for_user s n d);
  so_users : forall n d, seteq (users_for_role s' n d) (users_for_role s n d);
  so_has_role : forall n r d,
      memb teqb r (roles_for_user s' n d) = memb teqb r (roles_for_user s n d);
  so_implicit : forall n d, seteq (implicit_roles s' n d) (implicit_roles s n d);
}.

Record same_decisions (ptab : text -> option expr) (s s' : estate) : Prop := {
  sd_has_link : forall a b d,
      has_link (f_rm_max (e_fs s')) (f_rm (e_fs s')) a b d =
      has_link (f_rm_max (e_fs s)) (f_rm (e_fs s)) a b d;
  sd_enforce : forall rv, enforce ptab s' rv = enforce ptab s rv;
  sd_enforce_ctx : forall k rv, enforce_with_ctx ptab s' k rv = enforce_with_ctx ptab s k rv;
}.

Lemma handle_get_roles_equiv : forall fs m' h n d, wf (f_rm fs) -> wf m' -> edges_equiv m' (f_rm fs) ->
  seteq (handle_get_roles (set_rm fs m') h n d) (handle_get_roles fs h n d).
Proof.
  intros fs m' h n d Hwf Hwf' He. destruct h; cbn [handle_get_roles set_rm f_rm];
    try apply seteq_refl. apply get_roles_equiv; assumption.
Qed.

Lemma handle_get_users_equiv : forall fs m' h n d, wf (f_rm fs) -> wf m' -> edges_equiv m' (f_rm fs) ->
  seteq (handle_get_users (set_rm fs m') h n d) (handle_get_users fs h n d).
Proof.
  intros fs m' h n d Hwf Hwf' He. destruct h; cbn [handle_get_users set_rm f_rm];
    try apply seteq_refl. apply get_users_equiv; assumption.
Qed.

Theorem set_rm_observations : forall ptab s m', wf (f_rm (e_fs s)) -> wf m' ->
  edges_equiv m' (f_rm (e_fs s)) ->
  same_observations ptab s (upd_fs s (set_rm (e_fs s) m')).
Proof.
  intros ptab s m' Hwf Hwf' He.
  assert (Hroles : forall n d, seteq (roles_for_user (upd_fs s (set_rm (e_fs s) m')) n d)
                                     (roles_for_user s n d)).
  { intros n d. unfold roles_for_user. cbn [e_model e_fs upd_fs].
    destruct (get_ast (e_model s) s_g s_g) as [a|]; [|apply seteq_refl].
    apply handle_get_roles_equiv; assumption. }
  split.
  - reflexivity.
  - exact He.
  - exact Hroles.
  - intros n d. unfold users_for_role. cbn [e_model e_fs upd_fs].
    destruct (get_ast (e_model s) s_g s_g) as [a|]; [|apply seteq_refl].
    apply handle_get_users_equiv; assumption.
  - intros n r d. apply memb_seteq, Hroles.
  - intros n d x. rewrite !implicit_roles_spec by (cbn [e_fs upd_fs set_rm f_rm]; assumption).
    cbn [e_fs upd_fs set_rm f_rm].
    split; apply clos_trans_impl; intros u v; apply (Edge_equiv _ _ He).
Qed.

Theorem set_rm_decisions : forall ptab s m', wf (f_rm (e_fs s)) -> wf m' ->
  edges_equiv m' (f_rm (e_fs s)) ->
  shallow (f_rm_max (e_fs s)) (f_rm (e_fs s)) ->
  same_decisions ptab s (upd_fs s (set_rm (e_fs s) m')).
Proof.
  intros ptab s m' Hwf Hwf' He Hsh.
  assert (Hl : forall a b d, has_link (f_rm_max (e_fs s)) m' a b d =
                             has_link (f_rm_max (e_fs s)) (f_rm (e_fs s)) a b d).
  { intros a b d. apply has_link_equiv; auto. intros d' p. symmetry. apply He. }
  pose proof (call_fn_set_rm (e_fs s) m' Hl) as Hcall.
  split.
  - intros a b d. cbn [e_fs upd_fs set_rm f_rm f_rm_max]. apply Hl.
  - intros rv. unfold enforce, enforce_plain. cbn [e_enabled e_model e_mexprs e_fs upd_fs].
    apply enforce_core_ext, Hcall.
  - intros k rv. unfold enforce_with_ctx, enforce_ctx. cbn [e_enabled e_model e_mexprs e_fs upd_fs].
    apply enforce_core_ext, Hcall.
Qed.

(* the property as stated: in a state satisfying the invariant, an explicit
   build_role_links succeeds, changes no role query and (below the hierarchy
   limit) no decision *)
Theorem rebuild_noop : forall ptab s, RoleSync s -> g_exact (e_model s) = true ->
  snd (step s OBuildRoleLinks) = Ok true /\
  RoleSync (fst (step s OBuildRoleLinks)) /\
  same_observations ptab s (fst (step s OBuildRoleLinks)) /\
  (shallow (f_rm_max (e_fs s)) (f_rm (e_fs s)) ->
   same_decisions ptab s (fst (step s OBuildRoleLinks))).
Proof.
  intros ptab s Hrs Hex. destruct (rebuild_state s Hrs Hex) as (m' & Heq & Hwf' & He & Hrs').
  pose proof Hrs as ((Hwf & _ & _) & _). rewrite Heq. cbn [fst snd].
  split; [reflexivity|]. split; [exact Hrs'|]. split.
  - apply set_rm_observations; assumption.
  - intros Hsh. apply set_rm_decisions; assumption.
Qed.

(* ---------- every query of the observation interface ---------- *)
Definition ans_eq (x y : answer) : Prop :=
  match x, y with
  | AnsNameSet a, AnsNameSet b => seteq a b
  | AnsRuleBag a, AnsRuleBag b => seteq a b
  | _, _ => x = y
  end.

Lemma ans_eq_refl : forall x, ans_eq x x.
Proof. intros [o|l|l|l|l|b|]; cbn [ans_eq]; try reflexivity; apply seteq_refl. Qed.

Lemma concat_opt_None : forall {A} (l : list (option (list A))), concat_opt l = None <-> In None l.
Proof.
  intros A. induction l as [|[x|] l IH]; cbn [concat_opt In].
  - split; [discriminate|intros []].
  - destruct (concat_opt l) as [y|].
    + split; [discriminate|]. intros [H|H]; [discriminate|]. apply IH in H. discriminate.
    + split; [intros _; right; apply IH; reflexivity|reflexivity].
  - split; [auto|reflexivity].
Qed.

Lemma concat_opt_Some : forall {A} (l : list (option (list A))) y, concat_opt l = Some y ->
  forall x, In x y <-> exists z, In (Some z) l /\ In x z.
Proof.
  intros A. induction l as [|[z0|] l IH]; intros y H x; cbn [concat_opt] in H.
  - inversion H; subst. split; [intros []|]. intros [z [[] _]].
  - destruct (concat_opt l) as [y'|]; [|discriminate]. inversion H; subst.
    rewrite in_app_iff, (IH y' eq_refl x). cbn [In]. split.
    + intros [Hx|[z [Hz Hx]]]; [exists z0; auto|exists z; auto].
    + intros [z [[Hz|Hz] Hx]]; [inversion Hz; subst; left; exact Hx|right; exists z; auto].
  - discriminate.
Qed.

Lemma concat_opt_seteq : forall {A B} (f : B -> option (list A)) l l', seteq l l' ->
  match concat_opt (map f l), concat_opt (map f l') with
  | Some a, Some b => seteq a b
  | None, None => True
  | _, _ => False
  end.
Proof.
  intros A B f l l' Hs.
  assert (Hmap : forall o, In o (map f l) <-> In o (map f l')).
  { intros o. rewrite !in_map_iff. split; intros [r [Hr Hin]]; exists r; split; auto; apply Hs, Hin. }
  destruct (concat_opt (map f l)) as [a|] eqn:Ea; destruct (concat_opt (map f l')) as [b|] eqn:Eb.
  - intros x. rewrite (concat_opt_Some _ _ Ea x), (concat_opt_Some _ _ Eb x).
    split; intros [z [Hz Hx]]; exists z; split; auto; apply Hmap, Hz.
  - apply concat_opt_None in Eb. apply Hmap in Eb. apply concat_opt_None in Eb. congruence.
  - apply concat_opt_None in Ea. apply Hmap in Ea. apply concat_opt_None in Ea. congruence.
  - exact I.
Qed.

Lemma dedup_In : forall l seen x, In x (dedup l seen) <-> In x l /\ ~ In x seen.
Proof.
  induction l as [|y l IH]; intros seen x; cbn [dedup In]; [tauto|].
  destruct (memb teqb y seen) eqn:E.
  - apply memb_In in E. rewrite IH. split; [tauto|]. intros [[->|H] Hn]; [contradiction|tauto].
  - apply memb_not_In in E. cbn [In]. rewrite IH. cbn [In]. split.
    + intros [->|[H Hn]]; [tauto|]. split; [tauto|]. intros H'. apply Hn. right. exact H'.
    + intros [[->|H] Hn]; [tauto|].
      destruct (text_eq_dec y x) as [->|Hne]; [tauto|]. right. split; [exact H|].
      intros [H'|H']; contradiction.
Qed.

Theorem set_rm_ask : forall ptab s m', wf (f_rm (e_fs s)) -> wf m' ->
  edges_equiv m' (f_rm (e_fs s)) ->
  shallow (f_rm_max (e_fs s)) (f_rm (e_fs s)) ->
  forall q, ans_eq (ask ptab (upd_fs s (set_rm (e_fs s) m')) q) (ask ptab s q).
Proof.
  intros ptab s m' Hwf Hwf' He Hsh q.
  pose proof (set_rm_observations ptab s m' Hwf Hwf' He) as Ho.
  pose proof (set_rm_decisions ptab s m' Hwf Hwf' He Hsh) as Hd.
  set (s' := upd_fs s (set_rm (e_fs s) m')) in *.
  destruct q as [rv|k rv|sec pt|sec|sec pt r|sec pt idx vals|sec pt idx|n d|n d|n r d|n d|n d|n d|perm| |a b d];
    cbn [ask]; change (e_model s') with (e_model s); change (e_adapter s') with (e_adapter s);
    try apply ans_eq_refl.
  - rewrite (sd_enforce _ _ _ Hd). reflexivity.
  - rewrite (sd_enforce_ctx _ _ _ Hd). reflexivity.
  - apply (so_roles _ _ _ Ho).
  - apply (so_users _ _ _ Ho).
  - rewrite (so_has_role _ _ _ Ho). reflexivity.
  - apply (so_implicit _ _ _ Ho).
  - (* implicit permissions *)
    unfold implicit_perms.
    assert (Hs : seteq (n :: implicit_roles s' n d) (n :: implicit_roles s n d)).
    { intros x. cbn [In]. rewrite (so_implicit _ _ _ Ho n d x). reflexivity. }
    pose proof (concat_opt_seteq (fun r => perms_for_user s r d) _ _ Hs) as H.
    change (map (fun r => perms_for_user s' r d)) with (map (fun r => perms_for_user s r d)).
    destruct (concat_opt (map (fun r => perms_for_user s r d) (n :: implicit_roles s' n d)));
      destruct (concat_opt (map (fun r => perms_for_user s r d) (n :: implicit_roles s n d)));
      cbn [ans_eq]; try contradiction; [exact H|reflexivity].
  - (* implicit users *)
    unfold implicit_users. change (e_model s') with (e_model s).
    destruct (m_values (e_model s) s_p s_p 0) as [subjects|]; [|reflexivity].
    destruct (m_values (e_model s) s_g s_g 1) as [roles|]; [|reflexivity].
    assert (Hu : forall x r, In x (get_users (f_rm (e_fs s')) r None) <->
                             In x (get_users (f_rm (e_fs s)) r None)).
    { intros x r. apply (get_users_equiv _ _ r None Hwf' Hwf He x). }
    assert (Hmem : forall x,
      In x (filter (fun u => negb (memb teqb u roles))
                   (subjects ++ flat_map (fun r => get_users (f_rm (e_fs s')) r None) roles)) <->
      In x (filter (fun u => negb (memb teqb u roles))
                   (subjects ++ flat_map (fun r => get_users (f_rm (e_fs s)) r None) roles))).
    { intros x. rewrite !filter_In, !in_app_iff, !in_flat_map.
      split; intros [[H|[r [Hr H]]] H2]; (split; [|exact H2]); auto; right; exists r;
        (split; [exact Hr|]); apply Hu, H. }
    rewrite (existsb_same_members _
               (fun u => match enforce ptab s (map VStr (u :: perm)) with Panic => true | _ => false end)
               _ _ Hmem)
      by (intros u; rewrite (sd_enforce _ _ _ Hd); reflexivity).
    match goal with |- context [if ?c then _ else _] => destruct c end; [reflexivity|].
    cbn [ans_eq]. intros x. rewrite !dedup_In, !filter_In. rewrite (sd_enforce _ _ _ Hd).
    pose proof (Hmem x) as Hx. rewrite !filter_In in Hx. tauto.
  - rewrite (sd_has_link _ _ _ Hd). reflexivity.
Qed.

Theorem rebuild_ask : forall ptab s, RoleSync s -> g_exact (e_model s) = true ->
  shallow (f_rm_max (e_fs s)) (f_rm (e_fs s)) ->
  forall q, ans_eq (ask ptab (fst (step s OBuildRoleLinks)) q) (ask ptab s q).
Proof.
  intros ptab s Hrs Hex Hsh q. destruct (rebuild_state s Hrs Hex) as (m' & Heq & Hwf' & He & _).
  pose proof Hrs as ((Hwf & _ & _) & _). rewrite Heq. cbn [fst].
  apply set_rm_ask; assumption.
Qed.

(* ---------- (5) the executable trace predicate accepts the model ---------- *)
Lemma seteqb_gen : forall {A} (eqb : A -> A -> bool), (forall x y, eqb x y = true <-> x = y) ->
  forall x y, seteq x y -> seteqb eqb x y = true.
Proof.
  intros A eqb Heq x y Hs. unfold seteqb, subsetb. apply andb_true_iff.
  split; apply forallb_forall; intros e He; apply (memb_In_gen eqb Heq); apply Hs, He.
Qed.

Lemma ans_equiv_refl : forall x, ans_equiv x x = true.
Proof.
  intros [o|l|l|l|l|b|]; cbn [ans_equiv].
  - destruct o as [b|e|]; [apply Bool.eqb_reflx|destruct e; reflexivity|reflexivity].
  - apply (list_eqb_eq reqb reqb_eq). reflexivity.
  - apply (seteqb_gen reqb reqb_eq), seteq_refl.
  - apply (list_eqb_eq teqb teqb_eq). reflexivity.
  - apply (seteqb_gen teqb teqb_eq), seteq_refl.
  - apply Bool.eqb_reflx.
  - reflexivity.
Qed.

Lemma ans_eq_equiv : forall x y, ans_eq x y -> ans_equiv x y = true.
Proof.
  intros x y H.
  destruct x as [o|l|l|l|l|b|]; destruct y as [o'|l'|l'|l'|l'|b'|]; cbn [ans_eq] in H;
    try discriminate; try (rewrite H; apply ans_equiv_refl); cbn [ans_equiv].
  - apply (seteqb_gen reqb reqb_eq), H.
  - apply (seteqb_gen teqb teqb_eq), H.
  - reflexivity.
Qed.

Theorem c05_pred_rebuild : forall ptab s qs, RoleSync s -> g_exact (e_model s) = true ->
  shallow (f_rm_max (e_fs s)) (f_rm (e_fs s)) ->
  c05_pred (map (ask ptab s) qs) (map (ask ptab (fst (step s OBuildRoleLinks))) qs) = true.
Proof.
  intros ptab s qs Hrs Hex Hsh. unfold c05_pred.
  induction qs as [|q qs IH]; cbn [map answers_equiv]; [reflexivity|].
  rewrite IH, andb_true_r. apply ans_eq_equiv.
  pose proof (rebuild_ask ptab s Hrs Hex Hsh q) as H.
  destruct (ask ptab (fst (step s OBuildRoleLinks)) q) as [o|l|l|l|l|b|];
    destruct (ask ptab s q) as [o'|l'|l'|l'|l'|b'|]; cbn [ans_eq] in *;
    try discriminate; try (symmetry; exact H).
  - intros e. symmetry. apply H.
  - intros e. symmetry. apply H.
Qed.
