(* General facts about the regex matcher of Gen/Regex.v (part 14 of rs2coq), proved once:
     - the greedy star of a byte class is a scan (`star_set`); followed by something that cannot start with a
       byte of the class, or by something that accepts the longest run, it takes exactly the `span`;
     - an alternation falls to its right branch exactly when the left one fails (by computation: `mt_alt_*`);
     - the steps of find_iter / replace_all: a hit at the search position, a miss that moves one byte on, the
       dropped empty match after a match.
   The instances for the expressions of src/util.rs are in PinChecks/PcRegexGen.v. *)
From CV Require Import Model.Base Gen.Regex.
From Coq Require Import Lia.

(* ------------------------------------------------------------------ *)
(* small list facts                                                     *)
Lemma taken_app : forall a b, taken b (rev a ++ b) = a.
Proof.
  intros a b. unfold taken. rewrite app_length, rev_length.
  replace (length a + length b - length b) with (length (rev a)) by (rewrite rev_length; lia).
  rewrite firstn_app, Nat.sub_diag, firstn_all. cbn [firstn]. rewrite app_nil_r. apply rev_involutive.
Qed.
Lemma taken_nil : forall b, taken b b = [].
Proof. intros b. exact (taken_app [] b). Qed.
Lemma taken_cons : forall a x b, taken b (rev a ++ x :: b) = x :: a.
Proof.
  intros a x b. replace (rev a ++ x :: b) with (rev (x :: a) ++ b); [apply taken_app|].
  cbn [rev]. rewrite <- app_assoc. reflexivity.
Qed.

(* the longest prefix whose bytes satisfy p, and the rest *)
Fixpoint span (p : ascii -> bool) (s : text) : text * text :=
  match s with
  | x :: s' => if p x then let (a, r) := span p s' in (x :: a, r) else ([], s)
  | [] => ([], [])
  end.
Lemma span_eq : forall p s, fst (span p s) ++ snd (span p s) = s.
Proof.
  intros p. induction s as [|x s IH]; [reflexivity|]. cbn [span].
  destruct (p x); [|reflexivity]. destruct (span p s) as [a r]. cbn [fst snd app] in *. rewrite IH. reflexivity.
Qed.
Lemma span_ext : forall p q s, (forall x, p x = q x) -> span p s = span q s.
Proof.
  intros p q s H. induction s as [|x s IH]; [reflexivity|]. cbn [span]. rewrite IH, H. reflexivity.
Qed.
Lemma span_all : forall p s, forallb p (fst (span p s)) = true.
Proof.
  intros p. induction s as [|x s IH]; [reflexivity|]. cbn [span].
  destruct (p x) eqn:E; [|reflexivity]. destruct (span p s) as [a r]. cbn [fst forallb] in *. rewrite E, IH. reflexivity.
Qed.
(* the rest does not start with a byte of the class *)
Lemma span_rest : forall p s x r, snd (span p s) = x :: r -> p x = false.
Proof.
  intros p. induction s as [|y s IH]; intros x r H; [discriminate|]. cbn [span] in H.
  destruct (p y) eqn:E.
  - destruct (span p s) as [a r0]. cbn [snd] in *. eapply IH. exact H.
  - cbn [snd] in H. injection H as -> _. exact E.
Qed.
Lemma span_app : forall p a s, forallb p a = true -> (match s with x :: _ => p x = false | [] => True end) ->
  span p (a ++ s) = (a, s).
Proof.
  intros p. induction a as [|y a IH]; intros s Ha Hs.
  - cbn [app]. destruct s as [|x s]; [reflexivity|]. cbn [span]. rewrite Hs. reflexivity.
  - cbn [forallb] in Ha. apply andb_true_iff in Ha. destruct Ha as [Hy Ha]. cbn [app span]. rewrite Hy.
    rewrite IH by assumption. reflexivity.
Qed.

(* ------------------------------------------------------------------ *)
(* the loop of RStar, named                                             *)
Section StarLoop.
  Variable body : text -> text -> caps -> cont -> option mres.
  Variable greedy : bool.
  Variable k : cont.
  Fixpoint star_loop (fuel : nat) (b s : text) (c : caps) {struct fuel} : option mres :=
    match fuel with
    | 0 => k b s c
    | S f =>
      let again := fun b1 s1 c1 =>
        if Nat.ltb (length s1) (length s) then star_loop f b1 s1 c1 else k b1 s1 c1 in
      if greedy
      then match body b s c again with Some x => Some x | None => k b s c end
      else match k b s c with Some x => Some x | None => body b s c again end
    end.
End StarLoop.
Lemma mt_star : forall g r b s c k, mt (RStar g r) b s c k = star_loop (mt r) g k (S (length s)) b s c.
Proof. reflexivity. Qed.

(* the equations of the other constructors, for rewriting *)
Lemma mt_cat : forall r1 r2 b s c k, mt (RCat r1 r2) b s c k = mt r1 b s c (fun b1 s1 c1 => mt r2 b1 s1 c1 k).
Proof. reflexivity. Qed.
Lemma mt_alt : forall r1 r2 b s c k,
  mt (RAlt r1 r2) b s c k = match mt r1 b s c k with Some x => Some x | None => mt r2 b s c k end.
Proof. reflexivity. Qed.
(* an alternation falls to its right branch exactly when the left one fails (with what follows it) *)
Lemma mt_alt_left : forall r1 r2 b s c k x, mt r1 b s c k = Some x -> mt (RAlt r1 r2) b s c k = Some x.
Proof. intros r1 r2 b s c k x H. rewrite mt_alt, H. reflexivity. Qed.
Lemma mt_alt_right : forall r1 r2 b s c k, mt r1 b s c k = None -> mt (RAlt r1 r2) b s c k = mt r2 b s c k.
Proof. intros r1 r2 b s c k H. rewrite mt_alt, H. reflexivity. Qed.
Lemma mt_group : forall n r b s c k,
  mt (RGroup n r) b s c k = mt r b s c (fun b1 s1 c1 => k b1 s1 ((n, taken b b1) :: c1)).
Proof. reflexivity. Qed.
Lemma mt_set : forall neg items b s c k,
  mt (RSet neg items) b s c k =
  match s with x :: s' => if class_mem neg items x then k (x :: b) s' c else None | [] => None end.
Proof. reflexivity. Qed.
Lemma mt_char : forall ch b s c k,
  mt (RChar ch) b s c k =
  match s with x :: s' => if Ascii.eqb x ch then k (x :: b) s' c else None | [] => None end.
Proof.
  intros ch b s c k. unfold RChar. rewrite mt_set. destruct s as [|x s']; [reflexivity|].
  unfold class_mem. cbn [existsb item_mem xorb]. rewrite orb_false_r.
  destruct (Ascii.eqb x ch); reflexivity.
Qed.
Lemma mt_opt_greedy : forall r b s c k,
  mt (ROpt true r) b s c k = match mt r b s c k with Some x => Some x | None => k b s c end.
Proof. reflexivity. Qed.

(* ------------------------------------------------------------------ *)
(* greedy star of a byte class = a scan                                 *)
Fixpoint star_set (p : ascii -> bool) (k : cont) (b s : text) (c : caps) : option mres :=
  match s with
  | x :: s' =>
    if p x then match star_set p k (x :: b) s' c with Some r => Some r | None => k b s c end
    else k b s c
  | [] => k b s c
  end.

Lemma star_loop_set : forall neg items k fuel b s c, length s < fuel ->
  star_loop (mt (RSet neg items)) true k fuel b s c = star_set (class_mem neg items) k b s c.
Proof.
  intros neg items k. induction fuel as [|f IH]; intros b s c Hf; [lia|].
  cbn [star_loop]. rewrite mt_set. destruct s as [|x s']; [reflexivity|]. cbn [star_set].
  destruct (class_mem neg items x); [|reflexivity].
  cbn [length] in *. replace (Nat.ltb (length s') (S (length s'))) with true
    by (symmetry; apply Nat.ltb_lt; lia).
  rewrite IH by lia. reflexivity.
Qed.
Lemma mt_star_set : forall neg items b s c k,
  mt (RStar true (RSet neg items)) b s c k = star_set (class_mem neg items) k b s c.
Proof. intros. rewrite mt_star. apply star_loop_set. lia. Qed.

Lemma star_set_ext : forall p q k b s c, (forall x, p x = q x) -> star_set p k b s c = star_set q k b s c.
Proof.
  intros p q k b s. revert b. induction s as [|x s IH]; intros b c H; [reflexivity|].
  cbn [star_set]. rewrite H, IH by exact H. reflexivity.
Qed.

(* followed by something that accepts the longest run: the span (greedy = more first) *)
Lemma star_set_ok : forall p k s b c r,
  k (rev (fst (span p s)) ++ b) (snd (span p s)) c = Some r -> star_set p k b s c = Some r.
Proof.
  intros p k. induction s as [|x s IH]; intros b c r H; [exact H|].
  cbn [star_set]. cbn [span] in H. destruct (p x); [|exact H].
  destruct (span p s) as [a t] eqn:E. cbn [fst snd rev] in *. rewrite <- app_assoc in H. cbn [app] in H.
  rewrite (IH (x :: b) c r); [reflexivity|]. exact H.
Qed.
(* followed by something that cannot start with a byte of the class: the span, or nothing *)
Lemma star_set_cut : forall p k, (forall b x s c, p x = true -> k b (x :: s) c = None) ->
  forall s b c, star_set p k b s c = k (rev (fst (span p s)) ++ b) (snd (span p s)) c.
Proof.
  intros p k Hk. induction s as [|x s IH]; intros b c; [reflexivity|].
  cbn [star_set span]. destruct (p x) eqn:E; [|reflexivity].
  rewrite IH. destruct (span p s) as [a t]. cbn [fst snd rev]. rewrite <- app_assoc. cbn [app].
  destruct (k (rev a ++ x :: b) t c) eqn:Ek; [reflexivity|]. apply Hk, E.
Qed.

(* ------------------------------------------------------------------ *)
(* search                                                               *)
Definition add_gap (g : text) (m : rmatch) : rmatch :=
  {| m_gap := g ++ m_gap m; m_start := m_start m; m_end := m_end m; m_str := m_str m;
     m_caps := m_caps m; m_before := m_before m; m_after := m_after m |}.

Lemma search_gap : forall r s b g,
  search r b s g = option_map (add_gap (rev g)) (search r b s []).
Proof.
  intros r. induction s as [|x s IH]; intros b g; cbn [search].
  - destruct (mt r b [] [] kfin) as [[[b1 s1] c]|]; [|reflexivity].
    cbn [option_map rev]. unfold add_gap. cbn [m_gap m_start m_end m_str m_caps m_before m_after]. rewrite app_nil_r. reflexivity.
  - destruct (mt r b (x :: s) [] kfin) as [[[b1 s1] c]|].
    + cbn [option_map rev]. unfold add_gap. cbn [m_gap m_start m_end m_str m_caps m_before m_after]. rewrite app_nil_r. reflexivity.
    + rewrite (IH (x :: b) (x :: g)), (IH (x :: b) [x]).
      destruct (search r (x :: b) s []) as [m|]; [|reflexivity].
      cbn [option_map]. unfold add_gap. cbn [m_gap m_start m_end m_str m_caps m_before m_after rev app].
      rewrite <- app_assoc. reflexivity.
Qed.

Definition mk_match (b b1 s1 : text) (c : caps) : rmatch :=
  {| m_gap := []; m_start := length b; m_end := length b1; m_str := taken b b1; m_caps := c;
     m_before := b1; m_after := s1 |}.

Lemma search_hit : forall r b s b1 s1 c, mt r b s [] kfin = Some (b1, s1, c) ->
  search r b s [] = Some (mk_match b b1 s1 c).
Proof. intros r b s b1 s1 c H. destruct s; cbn [search]; rewrite H; reflexivity. Qed.
Lemma search_miss : forall r b x s, mt r b (x :: s) [] kfin = None ->
  search r b (x :: s) [] = option_map (add_gap [x]) (search r (x :: b) s []).
Proof. intros r b x s H. cbn [search]. rewrite H. apply (search_gap r s (x :: b) [x]). Qed.
Lemma search_end : forall r b, mt r b [] [] kfin = None -> search r b [] [] = None.
Proof. intros r b H. cbn [search]. rewrite H. reflexivity. Qed.

(* an expression that never matches the empty string *)
Definition never_empty (r : regex) : Prop :=
  forall b s b1 s1 c, mt r b s [] kfin = Some (b1, s1, c) -> length b < length b1.
Lemma search_never_empty : forall r, never_empty r ->
  forall s b g m, search r b s g = Some m -> Nat.eqb (m_start m) (m_end m) = false.
Proof.
  intros r Hr. induction s as [|x s IH]; intros b g m H; cbn [search] in H.
  - destruct (mt r b [] [] kfin) as [[[b1 s1] c]|] eqn:E; [|discriminate].
    injection H as <-. cbn [m_start m_end]. apply Nat.eqb_neq. apply Hr in E. lia.
  - destruct (mt r b (x :: s) [] kfin) as [[[b1 s1] c]|] eqn:E.
    + injection H as <-. cbn [m_start m_end]. apply Nat.eqb_neq. apply Hr in E. lia.
    + eapply IH. exact H.
Qed.

(* ------------------------------------------------------------------ *)
(* replace_all, step by step, for an expression that never matches the empty string:
   repl f r tpl b s last = what replace_all appends from the position (b, s) on *)
Definition repl (f : nat) (r : regex) (tpl : list tpl_item) (b s : text) (last : option nat) : text :=
  replace_go (find_iter_go f r b s last) tpl s.

Lemma rx_replace_all_repl : forall r h tpl, rx_replace_all r h tpl = repl (length h + 2) r tpl [] h None.
Proof. reflexivity. Qed.

Lemma repl_end : forall f r tpl b last, mt r b [] [] kfin = None -> repl f r tpl b [] last = [].
Proof.
  intros f r tpl b last H. unfold repl. destruct f as [|f]; [reflexivity|].
  cbn [find_iter_go]. rewrite search_end by exact H. reflexivity.
Qed.
Lemma repl_hit : forall f r tpl b s last b1 s1 c,
  mt r b s [] kfin = Some (b1, s1, c) -> length b < length b1 ->
  repl (S f) r tpl b s last = expand tpl (mk_match b b1 s1 c) ++ repl f r tpl b1 s1 (Some (length b1)).
Proof.
  intros f r tpl b s last b1 s1 c H Hlen. unfold repl. cbn [find_iter_go].
  rewrite (search_hit _ _ _ _ _ _ H). unfold mk_match. cbn [m_start m_end m_before m_after].
  replace (Nat.eqb (length b) (length b1)) with false by (symmetry; apply Nat.eqb_neq; lia).
  cbn [andb replace_go m_gap m_after app]. reflexivity.
Qed.
Lemma expand_add_gap : forall tpl g m, expand tpl (add_gap g m) = expand tpl m.
Proof. reflexivity. Qed.
Lemma repl_miss : forall f r tpl b x s last last', never_empty r ->
  mt r b (x :: s) [] kfin = None ->
  repl f r tpl b (x :: s) last = x :: repl f r tpl (x :: b) s last'.
Proof.
  intros f r tpl b x s last last' Hr H. unfold repl. destruct f as [|f]; [reflexivity|].
  cbn [find_iter_go]. rewrite (search_miss _ _ _ _ H).
  destruct (search r (x :: b) s []) as [m|] eqn:E; cbn [option_map]; [|reflexivity].
  pose proof (search_never_empty r Hr _ _ _ _ E) as Hne.
  unfold add_gap at 1 2. cbn [m_start m_end]. rewrite Hne. cbn [andb replace_go].
  rewrite expand_add_gap. unfold add_gap. cbn [m_gap m_end m_before m_after app]. reflexivity.
Qed.

(* ------------------------------------------------------------------ *)
(* find_iter, step by step, for an expression that matches at every position
   (possibly the empty string), like ESC_C: fi = the texts of the matches *)
Definition fi (f : nat) (r : regex) (b s : text) (last : option nat) : list text :=
  map m_str (find_iter_go f r b s last).
Definition adj (b : text) (last : option nat) : bool := opt_nat_eqb (Some (length b)) last.

Lemma length_rev_app : forall (a b : text), length (rev a ++ b) = length a + length b.
Proof. intros a b. rewrite app_length, rev_length. reflexivity. Qed.

(* a non-empty match at the search position *)
Lemma fi_hit : forall f r b s last a s1 c, a <> [] ->
  mt r b s [] kfin = Some (rev a ++ b, s1, c) ->
  fi (S f) r b s last = a :: fi f r (rev a ++ b) s1 (Some (length (rev a ++ b))).
Proof.
  intros f r b s last a s1 c Ha H. unfold fi. cbn [find_iter_go].
  rewrite (search_hit _ _ _ _ _ _ H). unfold mk_match. cbn [m_start m_end m_before m_after].
  replace (Nat.eqb (length b) (length (rev a ++ b))) with false.
  - cbn [andb map m_str]. rewrite taken_app. reflexivity.
  - symmetry. apply Nat.eqb_neq. rewrite length_rev_app. destruct a; [contradiction|cbn [length]; lia].
Qed.
(* an empty match at the search position, not adjacent to the previous match: yielded *)
Lemma fi_empty_new : forall f r b s last c, adj b last = false ->
  mt r b s [] kfin = Some (b, s, c) ->
  fi (S f) r b s last = [] :: fi f r b s (Some (length b)).
Proof.
  intros f r b s last c Hadj H. unfold fi. cbn [find_iter_go].
  rewrite (search_hit _ _ _ _ _ _ H). unfold mk_match. cbn [m_start m_end m_before m_after].
  rewrite Nat.eqb_refl. unfold adj in Hadj. rewrite Hadj. cbn [andb map m_str]. rewrite taken_nil. reflexivity.
Qed.
(* an empty match that ends where the previous match ended: dropped; the search restarts one byte later
   and whatever it finds there is yielded, as a first search would *)
Lemma fi_empty_adj : forall f r b x s last c, adj b last = true ->
  mt r b (x :: s) [] kfin = Some (b, x :: s, c) ->
  fi (S f) r b (x :: s) last = fi (S f) r (x :: b) s None.
Proof.
  intros f r b x s last c Hadj H. unfold fi. cbn [find_iter_go].
  rewrite (search_hit _ _ _ _ _ _ H). unfold mk_match. cbn [m_start m_end m_before m_after].
  rewrite Nat.eqb_refl. unfold adj in Hadj. rewrite Hadj. cbn [andb].
  rewrite (search_gap r s (x :: b) [x]).
  destruct (search r (x :: b) s []) as [m|]; cbn [option_map]; [|reflexivity].
  unfold add_gap. cbn [m_start m_end m_before m_after m_str opt_nat_eqb]. rewrite andb_false_r.
  cbn [map m_str]. reflexivity.
Qed.
Lemma fi_empty_adj_end : forall f r b last c, adj b last = true ->
  mt r b [] [] kfin = Some (b, [], c) -> fi (S f) r b [] last = [].
Proof.
  intros f r b last c Hadj H. unfold fi. cbn [find_iter_go].
  rewrite (search_hit _ _ _ _ _ _ H). unfold mk_match. cbn [m_start m_end m_before m_after].
  rewrite Nat.eqb_refl. unfold adj in Hadj. rewrite Hadj. reflexivity.
Qed.

(* the two lemmas above for any spelling of the class *)
Lemma mt_star_class_ok : forall neg items p, (forall x, class_mem neg items x = p x) ->
  forall k b s c r, k (rev (fst (span p s)) ++ b) (snd (span p s)) c = Some r ->
  mt (RStar true (RSet neg items)) b s c k = Some r.
Proof.
  intros neg items p Hp k b s c r H. rewrite mt_star_set, (star_set_ext _ p) by exact Hp.
  apply star_set_ok, H.
Qed.
Lemma mt_star_class_cut : forall neg items p, (forall x, class_mem neg items x = p x) ->
  forall k, (forall b x s c, p x = true -> k b (x :: s) c = None) ->
  forall b s c, mt (RStar true (RSet neg items)) b s c k = k (rev (fst (span p s)) ++ b) (snd (span p s)) c.
Proof.
  intros neg items p Hp k Hk b s c. rewrite mt_star_set, (star_set_ext _ p) by exact Hp.
  apply star_set_cut, Hk.
Qed.

(* a class over bytes is decided by trying the 256 bytes *)
Ltac by_bytes := let x := fresh "x" in intro x; destruct x as [[] [] [] [] [] [] [] []]; reflexivity.

(* ------------------------------------------------------------------ *)
(* a literal string in front of an expression                           *)
Fixpoint RLitThen (w : text) (r : regex) : regex :=
  match w with [] => r | ch :: w' => RCat (RChar ch) (RLitThen w' r) end.
Fixpoint strip_lit (w s : text) : option text :=
  match w, s with
  | [], _ => Some s
  | ch :: w', x :: s' => if Ascii.eqb x ch then strip_lit w' s' else None
  | _ :: _, [] => None
  end.
Lemma strip_lit_spec : forall w s t, strip_lit w s = Some t <-> s = w ++ t.
Proof.
  induction w as [|ch w IH]; intros s t; cbn [strip_lit app].
  - split; [intros H; injection H as ->; reflexivity|intros ->; reflexivity].
  - destruct s as [|x s]; [split; discriminate|].
    destruct (Ascii.eqb x ch) eqn:E.
    + apply Ascii.eqb_eq in E. subst x. rewrite IH. split; [intros ->; reflexivity|intros H; injection H as ->; reflexivity].
    + split; [discriminate|]. intros H. injection H as -> _. rewrite Ascii.eqb_refl in E. discriminate.
Qed.
Lemma mt_lit_then : forall w r b s c k,
  mt (RLitThen w r) b s c k =
  match strip_lit w s with Some s' => mt r (rev w ++ b) s' c k | None => None end.
Proof.
  induction w as [|ch w IH]; intros r b s c k; cbn [RLitThen strip_lit]; [reflexivity|].
  rewrite mt_cat, mt_char. destruct s as [|x s']; [reflexivity|].
  destruct (Ascii.eqb x ch) eqn:E; [|reflexivity]. apply Ascii.eqb_eq in E. subst x.
  rewrite IH. cbn [rev]. rewrite <- app_assoc. reflexivity.
Qed.
